(* C11 — every parser of Model/ImapGrammar.v is "nice":
     Wf    what it consumed is a prefix `pre` of its input, the rest / error position is the matching suffix, and
           `good pre`: the first CR or LF in pre, if any, is a CR that directly follows "}" (a literal header);
           an error that is not a parser error can only occur after an LF has been consumed (inside a literal);
     TotN  with fuel >= length of the input it never runs out of fuel (every loop consumes a byte or stops).
   Both are proved compositionally: one lemma per primitive / combinator, then one per grammar function. *)
From Coq Require Import List NArith Bool Lia String Wf_nat Arith.
From Gluon Require Import Gen.FactsTokens Model.ImapTokens Model.ImapGrammar Proofs.ImapTokenFacts.
Import ListNotations.
Open Scope N_scope.
Local Notation length := List.length.

(* ------------------------------------------------------------------ good prefixes *)
Fixpoint good_from (prev : N) (l : bytes) : bool :=
  match l with
  | [] => true
  | c :: r => if c =? 13 then prev =? 125 else if c =? 10 then false else good_from c r
  end.
Definition good (l : bytes) : bool := good_from 0 l.

Definition crlf_free (l : bytes) : Prop := forall b, In b l -> b <> 13 /\ b <> 10.

Lemma good_from_any : forall l p, good_from 0 l = true -> good_from p l = true.
Proof.
  intros [|c r] p H; [reflexivity|]. cbn [good_from] in *.
  destruct (c =? 13); [discriminate|]. exact H.
Qed.

Lemma good_from_app : forall l1 p l2, good_from p l1 = true -> good l2 = true -> good_from p (l1 ++ l2) = true.
Proof.
  induction l1 as [|c r IH]; intros p l2 H1 H2; cbn [app].
  - apply good_from_any. exact H2.
  - cbn [good_from] in *. destruct (c =? 13); [exact H1|]. destruct (c =? 10); [discriminate|].
    apply IH; assumption.
Qed.
Lemma good_app : forall l1 l2, good l1 = true -> good l2 = true -> good (l1 ++ l2) = true.
Proof. intros. apply good_from_app; assumption. Qed.

Lemma good_from_crlf_free : forall l p, crlf_free l -> good_from p l = true.
Proof.
  induction l as [|c r IH]; intros p H; [reflexivity|]. cbn [good_from].
  destruct (H c (or_introl eq_refl)) as [H1 H2].
  destruct (N.eqb_spec c 13); [contradiction|]. destruct (N.eqb_spec c 10); [contradiction|].
  apply IH. intros b Hb. apply H. right. exact Hb.
Qed.
Lemma good_crlf_free : forall l, crlf_free l -> good l = true.
Proof. intros. apply good_from_crlf_free. assumption. Qed.

(* once a CR/LF has been passed, what follows does not matter *)
Lemma good_from_decided : forall l1 p l2, (In 13 l1 \/ In 10 l1) -> good_from p (l1 ++ l2) = good_from p l1.
Proof.
  induction l1 as [|c r IH]; intros p l2 H; [destruct H as [[]|[]]|]. cbn [app good_from].
  destruct (N.eqb_spec c 13); [reflexivity|]. destruct (N.eqb_spec c 10); [reflexivity|].
  apply IH. destruct H as [[H|H]|[H|H]]; try congruence; [left|right]; exact H.
Qed.

Lemma crlf_free_nil : crlf_free [].
Proof. intros b []. Qed.
Lemma crlf_free_cons : forall b l, b <> 13 -> b <> 10 -> crlf_free l -> crlf_free (b :: l).
Proof. intros b l H1 H2 H x [<-|Hx]; [split; assumption|apply H; exact Hx]. Qed.
Lemma crlf_free_app : forall a b, crlf_free a -> crlf_free b -> crlf_free (a ++ b).
Proof. intros a b Ha Hb x Hx. apply in_app_or in Hx. destruct Hx; [apply Ha|apply Hb]; assumption. Qed.

(* ------------------------------------------------------------------ the predicates *)
(* what an outcome demands of the consumed prefix: nothing for a success (None) or a parser error; an error that is not
   a parser error (the reader goroutine ends) only after an LF has been consumed; a crash never *)
Definition err_req (k : option ekind) (pre : bytes) : Prop :=
  match k with
  | None | Some EParse => True
  | Some EFatal => In 10 pre
  | Some ECrash => False
  end.

Definition cons_ok (bs r : bytes) (k : option ekind) : Prop :=
  exists pre, bs = pre ++ r /\ good pre = true /\ err_req k pre.

Definition Wf {A} (p : P A) : Prop :=
  forall bs, match p bs with
             | ROut => True
             | RErr k a => cons_ok bs a (Some k)
             | ROk _ r => cons_ok bs r None
             end.
Definition TotN {A} (n : nat) (p : P A) : Prop := forall bs, (length bs <= n)%nat -> p bs <> ROut.
Definition Nice {A} (n : nat) (p : P A) : Prop := Wf p /\ TotN n p.

Lemma cons_ok_refl : forall bs k, (k = None \/ k = Some EParse) -> cons_ok bs bs k.
Proof. intros bs k [->| ->]; exists []; split; [reflexivity|split; [reflexivity|exact I]| reflexivity | split; [reflexivity|exact I]]. Qed.
Ltac cons_refl := apply cons_ok_refl; first [left; reflexivity | right; reflexivity].

Lemma cons_ok_len : forall bs r b, cons_ok bs r b -> (length r <= length bs)%nat.
Proof. intros bs r b (pre & -> & _). rewrite app_length. lia. Qed.

Lemma cons_ok_trans : forall bs r1 r2 k, cons_ok bs r1 None -> cons_ok r1 r2 k -> cons_ok bs r2 k.
Proof.
  intros bs r1 r2 k (p1 & -> & G1 & _) (p2 & -> & G2 & L2).
  exists (p1 ++ p2). rewrite app_assoc. split; [reflexivity|]. split.
  - apply good_app; assumption.
  - destruct k as [[| |]|]; cbn [err_req] in *; try exact I; [|contradiction].
    apply in_or_app. right. exact L2.
Qed.

Lemma cons_ok_parse : forall bs r, cons_ok bs r None -> cons_ok bs r (Some EParse).
Proof. intros bs r (pre & E & G & _). exists pre. split; [exact E|]. split; [exact G|exact I]. Qed.

Lemma Nice_mono : forall A (p : P A) n m, (m <= n)%nat -> Nice n p -> Nice m p.
Proof. intros A p n m Hm [W T]. split; [exact W|]. intros bs Hl. apply T. lia. Qed.

Lemma Nice_ext : forall A (p q : P A) n, (forall bs, p bs = q bs) -> Nice n p -> Nice n q.
Proof.
  intros A p q n E [W T]. split.
  - intro bs. rewrite <- E. apply W.
  - intros bs Hl. rewrite <- E. apply T. exact Hl.
Qed.

(* ------------------------------------------------------------------ monad *)
Lemma Nice_ret : forall A (a : A) n, Nice n (ret a).
Proof. intros. split; [intro bs; cbn; cons_refl|intros bs _; discriminate]. Qed.
Lemma Nice_fail : forall A n, Nice n (@fail A).
Proof. intros. split; [intro bs; cbn; cons_refl|intros bs _; discriminate]. Qed.

Lemma Nice_bind : forall A B (p : P A) (f : A -> P B) n,
  Nice n p -> (forall a, Nice n (f a)) -> Nice n (bind p f).
Proof.
  intros A B p f n [Wp Tp] Hf. split.
  - intro bs. unfold bind. specialize (Wp bs). destruct (p bs) as [|k a|a r]; [exact I|exact Wp|].
    destruct (Hf a) as [Wf_ _]. specialize (Wf_ r). destruct (f a r) as [|k e|b r'].
    + exact I.
    + eapply cons_ok_trans; eassumption.
    + eapply cons_ok_trans; eassumption.
  - intros bs Hl. unfold bind. specialize (Wp bs). specialize (Tp bs Hl).
    destruct (p bs) as [|k a|a r]; [congruence|discriminate|].
    destruct (Hf a) as [_ Tf]. apply Tf. apply cons_ok_len in Wp. lia.
Qed.

(* branching on the look-ahead without consuming *)
Lemma Nice_if : forall A (c : bytes -> bool) (p q : P A) n,
  Nice n p -> Nice n q -> Nice n (fun bs => if c bs then p bs else q bs).
Proof.
  intros A c p q n [Wp Tp] [Wq Tq]. split.
  - intro bs. destruct (c bs); [apply Wp|apply Wq].
  - intros bs Hl. destruct (c bs); [apply Tp|apply Tq]; exact Hl.
Qed.
Lemma Nice_if_ok : forall A (c : bytes -> bool) (a : A) (q : P A) n,
  Nice n q -> Nice n (fun bs => if c bs then ROk a bs else q bs).
Proof. intros. apply (Nice_if A c (ret a) q); [apply Nice_ret|assumption]. Qed.

(* ------------------------------------------------------------------ primitives *)
Definition tame (f : N -> bool) : Prop := rejects_crlf f /\ f scan_eof = false.

Lemma tame_tok_is : forall t, t <> TT_CR -> t <> TT_LF -> t <> TT_EOF -> tame (tok_is t).
Proof.
  intros t H1 H2 H3. unfold tame, rejects_crlf, tok_is. repeat split; apply N.eqb_neq; try congruence.
  change scan_eof with TT_EOF. congruence.
Qed.

Lemma cons_ok_one : forall b r f, rejects_crlf f -> f (tok_of_byte b) = true -> cons_ok (b :: r) r None.
Proof.
  intros b r f Hf H. destruct (rejects_crlf_byte f b Hf H) as [H1 H2].
  exists [b]. split; [reflexivity|split; [|exact I]].
  apply good_crlf_free. apply crlf_free_cons; [assumption|assumption|apply crlf_free_nil].
Qed.

Lemma Nice_check : forall f n, Nice n (p_check f).
Proof. intros. split; [intro bs; cbn; cons_refl|intros bs _; discriminate]. Qed.

Lemma Nice_consume : forall f n, rejects_crlf f -> Nice n (p_consume f).
Proof.
  intros f n Hf. split.
  - intro bs. unfold p_consume. destruct bs as [|b r]; cbn [cur_tok cur_val tl].
    + destruct (f scan_eof); cons_refl.
    + destruct (f (tok_of_byte b)) eqn:E; [eapply cons_ok_one; eassumption|cons_refl].
  - intros bs _. unfold p_consume. destruct (f (cur_tok bs)); discriminate.
Qed.

Lemma Nice_match : forall f n, rejects_crlf f -> Nice n (p_match f).
Proof.
  intros f n Hf. split.
  - intro bs. unfold p_match. destruct bs as [|b r]; cbn [cur_tok cur_val tl].
    + destruct (f scan_eof); cons_refl.
    + destruct (f (tok_of_byte b)) eqn:E; [eapply cons_ok_one; eassumption|cons_refl].
  - intros bs _. unfold p_match. destruct (f (cur_tok bs)); discriminate.
Qed.
Lemma Nice_matchb : forall f n, rejects_crlf f -> Nice n (p_matchb f).
Proof.
  intros f n Hf. split.
  - intro bs. unfold p_matchb. destruct bs as [|b r]; cbn [cur_tok cur_val tl].
    + destruct (f scan_eof); cons_refl.
    + destruct (f (tok_of_byte b)) eqn:E; [eapply cons_ok_one; eassumption|cons_refl].
  - intros bs _. unfold p_matchb. destruct (f (cur_tok bs)); discriminate.
Qed.

(* a consuming step in front: the continuation only has to cope with strictly shorter inputs *)
Lemma Nice_bind_consume : forall B f (k : N -> P B) n,
  tame f -> (forall a, Nice (pred n) (k a)) -> Nice n (bind (p_consume f) k).
Proof.
  intros B f k n [Hf He] Hk. split.
  - assert (N0 : Nice 0 (bind (p_consume f) k)).
    { apply Nice_bind; [apply Nice_consume; exact Hf|]. intro a. eapply Nice_mono; [|apply Hk]. lia. }
    exact (proj1 N0).
  - intros bs Hl. unfold bind, p_consume. destruct bs as [|b r]; cbn [cur_tok cur_val tl].
    + rewrite He. discriminate.
    + destruct (f (tok_of_byte b)); [|discriminate]. destruct (Hk b) as [_ T]. apply T. cbn in Hl. lia.
Qed.

Lemma collect_spec : forall f, rejects_crlf f -> f scan_eof = false ->
  forall bs, exists l r, p_collect f bs = ROk l r /\ bs = l ++ r /\ crlf_free l.
Proof.
  intros f Hf He. induction bs as [|b r IH]; cbn [p_collect].
  - rewrite He. exists [], []. split; [reflexivity|]. split; [reflexivity|apply crlf_free_nil].
  - destruct (f (tok_of_byte b)) eqn:E.
    + destruct IH as (l & r' & -> & -> & Hl). exists (b :: l), r'. split; [reflexivity|]. split; [reflexivity|].
      destruct (rejects_crlf_byte f b Hf E). apply crlf_free_cons; assumption.
    + exists [], (b :: r). split; [reflexivity|]. split; [reflexivity|apply crlf_free_nil].
Qed.

Lemma Nice_collect : forall f n, tame f -> Nice n (p_collect f).
Proof.
  intros f n [Hf He]. split.
  - intro bs. destruct (collect_spec f Hf He bs) as (l & r & -> & -> & Hl).
    exists l. split; [reflexivity|split; [apply good_crlf_free; exact Hl|exact I]].
  - intros bs _. destruct (collect_spec f Hf He bs) as (l & r & -> & _). discriminate.
Qed.

Lemma bytes_fold_spec : forall cs, (forall c, In c cs -> to_lower c <> 13 /\ to_lower c <> 10) ->
  forall bs, match p_bytes_fold cs bs with
             | ROut => False
             | RErr k a => k = EParse /\ exists l, bs = l ++ a /\ crlf_free l
             | ROk _ r => exists l, bs = l ++ r /\ crlf_free l
             end.
Proof.
  induction cs as [|c cs IH]; intros Hc bs; cbn [p_bytes_fold].
  - exists []. split; [reflexivity|apply crlf_free_nil].
  - destruct (N.eqb_spec (to_lower (cur_val bs)) (to_lower c)) as [E|E].
    + assert (Hc' : forall c0, In c0 cs -> to_lower c0 <> 13 /\ to_lower c0 <> 10) by (intros; apply Hc; right; assumption).
      specialize (IH Hc' (tl bs)).
      destruct bs as [|b r]; cbn [tl cur_val] in *.
      * destruct (p_bytes_fold cs []) as [|k a|u r']; [exact IH| |].
        -- destruct IH as (-> & l & Hl & Hf). split; [reflexivity|]. exists l. split; assumption.
        -- exact IH.
      * destruct (Hc c (or_introl eq_refl)) as [C1 C2].
        assert (Hb : b <> 13 /\ b <> 10).
        { split; intros ->; [rewrite to_lower_13 in E|rewrite to_lower_10 in E]; congruence. }
        destruct (p_bytes_fold cs r) as [|k a|u r']; [exact IH| |].
        -- destruct IH as (-> & l & -> & Hf). split; [reflexivity|]. exists (b :: l). split; [reflexivity|].
           apply crlf_free_cons; tauto.
        -- destruct IH as (l & -> & Hf). exists (b :: l). split; [reflexivity|]. apply crlf_free_cons; tauto.
    + split; [reflexivity|]. exists []. split; [reflexivity|apply crlf_free_nil].
Qed.

Lemma Nice_bytes_fold : forall cs n, (forall c, In c cs -> to_lower c <> 13 /\ to_lower c <> 10) ->
  Nice n (p_bytes_fold cs).
Proof.
  intros cs n Hc. split.
  - intro bs. pose proof (bytes_fold_spec cs Hc bs) as H. destruct (p_bytes_fold cs bs) as [|k a|u r].
    + exact I.
    + destruct H as (-> & l & -> & Hl). exists l. split; [reflexivity|split; [apply good_crlf_free; exact Hl|exact I]].
    + destruct H as (l & -> & Hl). exists l. split; [reflexivity|split; [apply good_crlf_free; exact Hl|exact I]].
  - intros bs _ E. pose proof (bytes_fold_spec cs Hc bs) as H. rewrite E in H. exact H.
Qed.

(* side condition of Nice_bytes_fold for concrete keywords, decided by computation *)
Definition fold_ok (cs : bytes) : bool :=
  forallb (fun c => negb (to_lower c =? 13) && negb (to_lower c =? 10)) cs.
Lemma fold_ok_spec : forall cs, fold_ok cs = true -> forall c, In c cs -> to_lower c <> 13 /\ to_lower c <> 10.
Proof.
  intros cs H c Hc. unfold fold_ok in H. rewrite forallb_forall in H. specialize (H c Hc).
  apply andb_true_iff in H. destruct H as [H1 H2].
  split; apply N.eqb_neq; [destruct (to_lower c =? 13)|destruct (to_lower c =? 10)]; try reflexivity; discriminate.
Qed.

Lemma Nice_kw : forall n, Nice n p_kw.
Proof.
  intro n. unfold p_kw. apply Nice_bind; [|intro; apply Nice_ret].
  apply Nice_collect. apply tame_tok_is; discriminate.
Qed.

(* ---- numbers *)
Lemma digits_spec : forall bs acc,
  match p_digits acc bs with
  | ROut => False
  | RErr k a => k = EParse /\ exists l, bs = l ++ a /\ crlf_free l
  | ROk _ r => exists l, bs = l ++ r /\ crlf_free l
  end.
Proof.
  induction bs as [|b r IH]; intro acc; cbn [p_digits].
  - rewrite digit_not_eof. exists []. split; [reflexivity|apply crlf_free_nil].
  - destruct (N.eqb_spec (tok_of_byte b) TT_Digit) as [E|E].
    + assert (Hb : b <> 13 /\ b <> 10).
      { apply (rejects_crlf_byte (tok_is TT_Digit)); [split; reflexivity|]. unfold tok_is. rewrite E. reflexivity. }
      destruct ((max_int - digit_val b) / 10 <? acc).
      * split; [reflexivity|]. exists [b]. split; [reflexivity|]. apply crlf_free_cons; try tauto. apply crlf_free_nil.
      * specialize (IH (acc * 10 + digit_val b)). destruct (p_digits (acc * 10 + digit_val b) r) as [|k a|v r'].
        -- exact IH.
        -- destruct IH as (-> & l & -> & Hl). split; [reflexivity|]. exists (b :: l). split; [reflexivity|].
           apply crlf_free_cons; tauto.
        -- destruct IH as (l & -> & Hl). exists (b :: l). split; [reflexivity|]. apply crlf_free_cons; tauto.
    + exists []. split; [reflexivity|apply crlf_free_nil].
Qed.
Lemma Nice_digits : forall acc n, Nice n (p_digits acc).
Proof.
  intros acc n. split.
  - intro bs. pose proof (digits_spec bs acc) as H. destruct (p_digits acc bs) as [|k a|v r].
    + exact I.
    + destruct H as (-> & l & -> & Hl). exists l. split; [reflexivity|split; [apply good_crlf_free; exact Hl|exact I]].
    + destruct H as (l & -> & Hl). exists l. split; [reflexivity|split; [apply good_crlf_free; exact Hl|exact I]].
  - intros bs _ E. pose proof (digits_spec bs acc) as H. rewrite E in H. exact H.
Qed.

Lemma tame_digit : tame (tok_is TT_Digit).
Proof. apply tame_tok_is; discriminate. Qed.

Lemma Nice_number : forall n, Nice n p_number.
Proof. intro n. unfold p_number. apply Nice_bind; [apply Nice_consume; apply tame_digit|intro; apply Nice_digits]. Qed.

Lemma Nice_digits_n : forall k acc n, Nice n (p_digits_n k acc).
Proof.
  induction k as [|k IH]; intros acc n.
  - apply (Nice_ext _ (ret acc)); [reflexivity|apply Nice_ret].
  - apply (Nice_ext _ (fun bs => if cur_tok bs =? TT_Digit
                                 then (bind (p_consume (tok_is TT_Digit)) (fun d => p_digits_n k (acc * 10 + digit_val d))) bs
                                 else ret acc bs)).
    + intro bs. cbn [p_digits_n]. unfold bind, p_consume, tok_is, ret. destruct (cur_tok bs =? TT_Digit); reflexivity.
    + apply Nice_if; [|apply Nice_ret]. apply Nice_bind; [apply Nice_consume; apply tame_digit|intro; apply IH].
Qed.
Lemma Nice_number_n : forall k n, Nice n (p_number_n k).
Proof.
  intros [|k] n; cbn [p_number_n]; [apply Nice_fail|].
  apply Nice_bind; [apply Nice_consume; apply tame_digit|intro; apply Nice_digits_n].
Qed.
Lemma Nice_nznumber : forall n, Nice n p_nznumber.
Proof.
  intro n. unfold p_nznumber. apply Nice_bind; [apply Nice_number|intro a].
  destruct (a =? 0); [apply Nice_fail|apply Nice_ret].
Qed.

(* ---- quoted strings *)
Lemma quoted_loop_spec : forall bs,
  match p_quoted_loop bs with
  | ROut => False
  | RErr k a => k = EParse /\ exists l, bs = l ++ a /\ crlf_free l
  | ROk _ r => exists l, bs = l ++ r /\ crlf_free l
  end.
Proof.
  (* strong induction on the length: the escape case steps over two bytes *)
  intro bs. remember (length bs) as n eqn:Hn. revert bs Hn.
  induction n as [n IH] using (well_founded_induction lt_wf). intros bs Hn.
  destruct bs as [|b r]; cbn [p_quoted_loop].
  - rewrite quoted_char_eof. exists []. split; [reflexivity|apply crlf_free_nil].
  - destruct (is_quoted_char (tok_of_byte b)) eqn:Q.
    + destruct (rejects_crlf_byte _ b quoted_char_crlf Q) as [B1 B2].
      assert (H := IH (length r) ltac:(subst n; cbn; lia) r eq_refl).
      destruct (p_quoted_loop r) as [|k a|v r'].
      * exact H.
      * destruct H as (-> & l & -> & Hl). split; [reflexivity|]. exists (b :: l). split; [reflexivity|].
        apply crlf_free_cons; assumption.
      * destruct H as (l & -> & Hl). exists (b :: l). split; [reflexivity|]. apply crlf_free_cons; assumption.
    + destruct (N.eqb_spec (tok_of_byte b) TT_Backslash) as [E|E].
      * assert (B : b <> 13 /\ b <> 10).
        { apply (rejects_crlf_byte (tok_is TT_Backslash)); [split; reflexivity|]. unfold tok_is. rewrite E. reflexivity. }
        destruct r as [|c r'].
        -- rewrite quoted_escape_is_special, quoted_special_eof. split; [reflexivity|]. exists [b]. split; [reflexivity|].
           apply crlf_free_cons; try tauto. apply crlf_free_nil.
        -- rewrite quoted_escape_is_special. destruct (is_quoted_special (tok_of_byte c)) eqn:S.
           ++ destruct (rejects_crlf_byte _ c quoted_special_crlf S) as [C1 C2].
              assert (H := IH (length r') ltac:(subst n; cbn; lia) r' eq_refl).
              destruct (p_quoted_loop r') as [|k a|v r''].
              ** exact H.
              ** destruct H as (-> & l & -> & Hl). split; [reflexivity|]. exists (b :: c :: l). split; [reflexivity|].
                 apply crlf_free_cons; try tauto. apply crlf_free_cons; assumption.
              ** destruct H as (l & -> & Hl). exists (b :: c :: l). split; [reflexivity|].
                 apply crlf_free_cons; try tauto. apply crlf_free_cons; assumption.
           ++ split; [reflexivity|]. exists [b]. split; [reflexivity|].
              apply crlf_free_cons; try tauto. apply crlf_free_nil.
      * exists []. split; [reflexivity|apply crlf_free_nil].
Qed.
Lemma Nice_quoted_loop : forall n, Nice n p_quoted_loop.
Proof.
  intro n. split.
  - intro bs. pose proof (quoted_loop_spec bs) as H. destruct (p_quoted_loop bs) as [|k a|v r].
    + exact I.
    + destruct H as (-> & l & -> & Hl). exists l. split; [reflexivity|split; [apply good_crlf_free; exact Hl|exact I]].
    + destruct H as (l & -> & Hl). exists l. split; [reflexivity|split; [apply good_crlf_free; exact Hl|exact I]].
  - intros bs _ E. pose proof (quoted_loop_spec bs) as H. rewrite E in H. exact H.
Qed.
Lemma tame_dquote : tame (tok_is TT_DQuote).
Proof. apply tame_tok_is; discriminate. Qed.
Lemma Nice_quoted : forall n, Nice n p_quoted.
Proof.
  intro n. unfold p_quoted.
  apply Nice_bind; [apply Nice_consume; apply tame_dquote|intros _].
  apply Nice_bind; [apply Nice_quoted_loop|intro s].
  apply Nice_bind; [apply Nice_consume; apply tame_dquote|intros _; apply Nice_ret].
Qed.

(* ---- literals: the only place where CR and LF are consumed by a sub-parser *)
Lemma take_bytes_split : forall bs n l r, take_bytes n bs = Some (l, r) -> bs = l ++ r.
Proof.
  induction bs as [|b t IH]; intros n l r H.
  - cbn [take_bytes] in H. destruct (n =? 0); [|discriminate]. injection H as <- <-. reflexivity.
  - cbn [take_bytes] in H. destruct (n =? 0); [injection H as <- <-; reflexivity|].
    destruct (take_bytes (n - 1) t) as [[l' r']|] eqn:E; [|discriminate].
    injection H as <- <-. cbn. f_equal. eapply IH. exact E.
Qed.

(* the literal header: on success the consumed prefix is good and contains the LF *)
Lemma literal_header_spec : forall bs,
  match p_literal_header bs with
  | ROut => False
  | RErr k a => k = EParse /\ cons_ok bs a None
  | ROk n r => literal_min_size <= n < literal_cap /\
               exists pre, bs = pre ++ r /\ good pre = true /\ In 13 pre /\ In 10 pre
  end.
Proof.
  intro bs. unfold p_literal_header.
  assert (NL : Nice 0 (p_consume (tok_is TT_LCurly))) by (apply Nice_consume; apply tame_tok_is; discriminate).
  unfold bind at 1. destruct NL as [WL TL]. specialize (WL bs). specialize (TL bs).
  destruct (p_consume (tok_is TT_LCurly) bs) as [|k a|c r1] eqn:E1.
  - unfold p_consume in E1. destruct (tok_is TT_LCurly (cur_tok bs)); discriminate.
  - unfold p_consume in E1. destruct (tok_is TT_LCurly (cur_tok bs)); [discriminate|]. injection E1 as <- <-.
    split; [reflexivity|exact WL].
  - unfold bind at 1. destruct (Nice_number 0) as [WN TN]. specialize (WN r1).
    destruct (p_number r1) as [|k a|n r2] eqn:E2.
    + exfalso. pose proof (digits_spec) as D. unfold p_number, bind, p_consume in E2.
      destruct (tok_is TT_Digit (cur_tok r1)); [|discriminate].
      specialize (D (tl r1) (digit_val (cur_val r1))). rewrite E2 in D. exact D.
    + assert (k = EParse) as ->.
      { unfold p_number, bind, p_consume in E2. destruct (tok_is TT_Digit (cur_tok r1)).
        - pose proof (digits_spec (tl r1) (digit_val (cur_val r1))) as D. rewrite E2 in D. tauto.
        - congruence. }
      split; [reflexivity|]. eapply cons_ok_trans; eassumption.
    + assert (C12 : cons_ok bs r2 None) by (eapply cons_ok_trans; eassumption).
      destruct literal_guards_are_parser_errors as [G1 G2].
      destruct (N.ltb_spec n literal_min_size) as [Hlo|Hlo].
      * unfold fail_kind, guard_kind. rewrite G1. split; [reflexivity|exact C12].
      * destruct (N.leb_spec literal_cap n) as [Hhi|Hhi].
        -- unfold fail_kind, guard_kind. rewrite G2. split; [reflexivity|exact C12].
        -- (* "}" CR LF *)
           unfold bind, p_consume, tok_is, ret.
           destruct r2 as [|x r3]; cbn [cur_tok cur_val tl].
           { change (scan_eof =? TT_RCurly) with false. split; [reflexivity|exact C12]. }
           destruct (N.eqb_spec (tok_of_byte x) TT_RCurly) as [X|X]; [|split; [reflexivity|exact C12]].
           apply tok_RCurly in X. subst x.
           assert (C3 : cons_ok bs r3 None).
           { eapply cons_ok_trans; [exact C12|]. exists [125]. split; [reflexivity|split; [reflexivity|exact I]]. }
           destruct r3 as [|y r4]; cbn [cur_tok cur_val tl].
           { change (scan_eof =? TT_CR) with false. split; [reflexivity|exact C3]. }
           destruct (N.eqb_spec (tok_of_byte y) TT_CR) as [Y|Y]; [|split; [reflexivity|exact C3]].
           apply tok_CR in Y. subst y.
           destruct C12 as (pre & -> & Gp & _).
           destruct r4 as [|z r5]; cbn [cur_tok cur_val tl].
           { change (scan_eof =? TT_LF) with false. split; [reflexivity|].
             exists (pre ++ [125; 13]). rewrite <- app_assoc. split; [reflexivity|split; [|exact I]].
             apply good_app; [exact Gp|reflexivity]. }
           destruct (N.eqb_spec (tok_of_byte z) TT_LF) as [Z|Z].
           ++ apply tok_LF in Z. subst z. split; [lia|].
              exists (pre ++ [125; 13; 10]). rewrite <- app_assoc. repeat split.
              ** apply good_app; [exact Gp|reflexivity].
              ** apply in_or_app. right. cbn. tauto.
              ** apply in_or_app. right. cbn. tauto.
           ++ split; [reflexivity|].
              exists (pre ++ [125; 13]). rewrite <- app_assoc. split; [reflexivity|split; [|exact I]].
              apply good_app; [exact Gp|reflexivity].
Qed.

Lemma literal_zero_safe' : (literal_min_size =? 0) = true -> literal_zero_returns_early = true.
Proof. vm_compute. intro H; first [reflexivity | discriminate H]. Qed.

Lemma Nice_literal : forall n, Nice n p_literal.
Proof.
  intro n.
  assert (S : forall bs, match p_literal bs with
                         | ROut => False
                         | RErr k a => cons_ok bs a (Some k)
                         | ROk _ r => cons_ok bs r None
                         end).
  { intro bs. unfold p_literal, bind. pose proof (literal_header_spec bs) as H.
    destruct (p_literal_header bs) as [|k a|m r]; [exact H| |].
    - destruct H as [-> H]. exact H.
    - destruct H as (Hm & pre & -> & Gp & I13 & I10).
      assert (D : forall l, good (pre ++ l) = true).
      { intro l. unfold good. rewrite good_from_decided; [exact Gp|left; exact I13]. }
      unfold p_take. destruct (N.eqb_spec m 0) as [M0|M0].
      + rewrite literal_zero_safe'; [|apply N.eqb_eq; lia].
        exists pre. split; [reflexivity|split; [exact Gp|exact I]].
      + destruct (take_bytes m r) as [[l r']|] eqn:T.
        * apply take_bytes_split in T. subst r. exists (pre ++ l). rewrite <- app_assoc.
          split; [reflexivity|split; [apply D|exact I]].
        * assert (F : cons_ok (pre ++ r) [] (Some EFatal)).
          { exists (pre ++ r). rewrite app_nil_r. split; [reflexivity|split; [apply D|]].
            cbn [err_req]. apply in_or_app. left. exact I10. }
          destruct r as [|x r']; [|exact F].
          destruct (m =? 1); [|exact F].
          exists pre. split; [reflexivity|split; [exact Gp|exact I]]. }
  split.
  - intro bs. specialize (S bs). destruct (p_literal bs); [exact I|exact S|exact S].
  - intros bs _ E. specialize (S bs). rewrite E in S. exact S.
Qed.

Lemma Nice_string : forall n, Nice n p_string.
Proof.
  intro n. unfold p_string.
  apply (Nice_if _ (fun bs => cur_tok bs =? TT_DQuote)); [apply Nice_quoted|].
  apply (Nice_if _ (fun bs => cur_tok bs =? TT_LCurly)); [apply Nice_literal|apply Nice_fail].
Qed.

Lemma tame_astring : tame is_astring_char.
Proof. split; [apply astring_char_crlf|apply astring_char_eof]. Qed.
Lemma tame_atom : tame is_atom_char.
Proof. split; [apply atom_char_crlf|apply atom_char_eof]. Qed.
Lemma tame_tag : tame is_tag_char.
Proof. split; [apply tag_char_crlf|apply tag_char_eof]. Qed.
Lemma tame_list : tame is_list_char.
Proof. split; [apply list_char_crlf|apply list_char_eof]. Qed.

Lemma Nice_astring : forall n, Nice n p_astring.
Proof.
  intro n. unfold p_astring. apply (Nice_if _ starts_string); [apply Nice_string|].
  apply Nice_collect. apply tame_astring.
Qed.
Lemma Nice_atom : forall n, Nice n p_atom.
Proof.
  intro n. unfold p_atom. apply Nice_bind; [apply Nice_consume; apply tame_atom|intro c].
  apply Nice_bind; [apply Nice_collect; apply tame_atom|intro; apply Nice_ret].
Qed.
Lemma Nice_mailbox : forall n, Nice n p_mailbox.
Proof. intro n. unfold p_mailbox. apply Nice_bind; [apply Nice_astring|intro; apply Nice_ret]. Qed.
Lemma Nice_nstring : forall n, Nice n p_nstring.
Proof.
  intro n. unfold p_nstring. apply (Nice_if _ starts_string).
  - apply Nice_bind; [apply Nice_string|intro; apply Nice_ret].
  - apply Nice_bind; [apply Nice_bytes_fold; apply fold_ok_spec; reflexivity|intro; apply Nice_ret].
Qed.

(* ------------------------------------------------------------------ loops *)
Lemma Wf_many_sep : forall A (sep : N -> bool) (item : P A), tame sep -> Wf item ->
  forall fuel, Wf (p_many_sep fuel sep item).
Proof.
  intros A sep item [Hs He] Wi. induction fuel as [|f IH]; intro bs; cbn [p_many_sep].
  - destruct (sep (cur_tok bs)); [exact I|cons_refl].
  - destruct bs as [|b r]; cbn [cur_tok tl].
    + rewrite He. cons_refl.
    + destruct (sep (tok_of_byte b)) eqn:E; [|cons_refl].
      assert (C1 : cons_ok (b :: r) r None) by (eapply cons_ok_one; eassumption).
      pose proof (Wi r) as W1. destruct (item r) as [|k e|a r1]; [exact I|eapply cons_ok_trans; eassumption|].
      assert (C2 : cons_ok (b :: r) r1 None) by (eapply cons_ok_trans; eassumption).
      pose proof (IH r1) as W2.
      destruct (p_many_sep f sep item r1) as [|k e|l r2]; [exact I| |]; eapply cons_ok_trans; eassumption.
Qed.

Lemma Tot_many_sep : forall A (sep : N -> bool) (item : P A), tame sep -> Wf item ->
  forall fuel bs, (length bs <= fuel)%nat ->
  (forall bs', (length bs' <= length bs)%nat -> item bs' <> ROut) ->
  p_many_sep fuel sep item bs <> ROut.
Proof.
  intros A sep item [Hs He] Wi. induction fuel as [|f IH]; intros bs Hl Ti; cbn [p_many_sep].
  - destruct bs; [|cbn in Hl; lia]. cbn [cur_tok]. rewrite He. discriminate.
  - destruct bs as [|b r]; cbn [cur_tok tl].
    + rewrite He. discriminate.
    + destruct (sep (tok_of_byte b)); [|discriminate]. cbn [length] in *.
      pose proof (Wi r) as W1. pose proof (Ti r ltac:(lia)) as T1.
      destruct (item r) as [|k e|a r1]; [congruence|discriminate|].
      apply cons_ok_len in W1.
      assert (T2 : p_many_sep f sep item r1 <> ROut).
      { apply IH; [lia|]. intros bs' Hb. apply Ti. lia. }
      destruct (p_many_sep f sep item r1); [congruence|discriminate|discriminate].
Qed.

Lemma Nice_many_sep : forall A (sep : N -> bool) (item : P A) fuel n, tame sep ->
  (n <= fuel)%nat -> Nice n item -> Nice n (p_many_sep fuel sep item).
Proof.
  intros A sep item fuel n Hs Hn [Wi Ti]. split.
  - apply Wf_many_sep; assumption.
  - intros bs Hl. apply Tot_many_sep; [assumption|assumption|lia|].
    intros bs' Hb. apply Ti. lia.
Qed.

Lemma Nice_sep_list : forall A (sep : N -> bool) (item : P A) fuel n, tame sep ->
  (n <= fuel)%nat -> Nice n item -> Nice n (p_sep_list fuel sep item).
Proof.
  intros A sep item fuel n Hs Hn Hi. unfold p_sep_list.
  apply Nice_bind; [exact Hi|intro a].
  apply Nice_bind; [apply Nice_many_sep; assumption|intro; apply Nice_ret].
Qed.

(* ------------------------------------------------------------------ the grammar functions *)
Ltac tame_tac :=
  first [ apply tame_astring | apply tame_atom | apply tame_tag | apply tame_list | apply tame_digit
        | apply tame_dquote | (apply tame_tok_is; discriminate) ].
Ltac crlf_tac :=
  first [ apply astring_char_crlf | apply atom_char_crlf | apply tag_char_crlf | apply list_char_crlf
        | (split; reflexivity) ].
Ltac fuel_tac := first [ assumption | lia ].

Ltac nice_step :=
  first
    [ apply Nice_ret | apply Nice_fail | apply Nice_check
    | apply Nice_kw | apply Nice_number | apply Nice_nznumber | apply Nice_number_n | apply Nice_astring
    | apply Nice_atom | apply Nice_mailbox | apply Nice_string | apply Nice_nstring | apply Nice_literal
    | apply Nice_quoted
    | (apply Nice_consume; crlf_tac) | (apply Nice_match; crlf_tac) | (apply Nice_matchb; crlf_tac)
    | (apply Nice_collect; tame_tac)
    | (apply Nice_bytes_fold; apply fold_ok_spec; reflexivity)
    | (apply Nice_sep_list; [tame_tac | fuel_tac | ])
    | (apply Nice_many_sep; [tame_tac | fuel_tac | ])
    | match goal with
      | |- Nice _ (if ?c then _ else _) => destruct c
      | |- Nice _ (match ?x with _ => _ end) => destruct x
      end
    | (apply Nice_bind; [ | intro ])
    | apply Nice_if_ok | apply Nice_if ].
Ltac nice := repeat nice_step.

Lemma Nice_flag : forall n, Nice n p_flag.
Proof. intro n. unfold p_flag. nice. Qed.

Lemma Nice_flag_list : forall fuel n, (n <= fuel)%nat -> Nice n (p_flag_list fuel).
Proof. intros fuel n Hn. unfold p_flag_list. nice. Qed.

Lemma Nice_seqnum : forall n, Nice n p_seqnum.
Proof. intro n. unfold p_seqnum. nice. Qed.
Lemma Nice_seqrange : forall n, Nice n p_seqrange.
Proof. intro n. unfold p_seqrange. nice. Qed.
Lemma Nice_seqset : forall fuel n, (n <= fuel)%nat -> Nice n (p_seqset fuel).
Proof. intros fuel n Hn. unfold p_seqset. nice. Qed.

Lemma Nice_month : forall n, Nice n p_month.
Proof. intro n. unfold p_month. nice. Qed.
Lemma Nice_date_text : forall n, Nice n p_date_text.
Proof. intro n. unfold p_date_text. nice. Qed.
Lemma Nice_date : forall n, Nice n p_date.
Proof. intro n. unfold p_date. nice. Qed.
Lemma Nice_day_fixed : forall n, Nice n p_day_fixed.
Proof. intro n. unfold p_day_fixed. nice. Qed.
Lemma Nice_time : forall n, Nice n p_time.
Proof. intro n. unfold p_time. nice. Qed.
Lemma Nice_zone : forall n, Nice n p_zone.
Proof. intro n. unfold p_zone. nice. Qed.
Lemma Nice_date_time : forall n, Nice n p_date_time.
Proof.
  intro n. unfold p_date_time. nice.
Qed.

Lemma Nice_sp : forall n, Nice n sp.
Proof. intro n. unfold sp. nice. Qed.

Lemma Nice_status_att : forall n, Nice n p_status_att.
Proof. intro n. unfold p_status_att. nice. Qed.
Lemma Nice_status : forall fuel n, (n <= fuel)%nat -> Nice n (p_status fuel).
Proof. intros fuel n Hn. unfold p_status, sp. nice. Qed.

Lemma Nice_list_mailbox : forall n, Nice n p_list_mailbox.
Proof. intro n. unfold p_list_mailbox. nice. Qed.
Lemma Nice_list : forall b n, Nice n (p_list b).
Proof. intros b n. unfold p_list, sp. nice; apply Nice_list_mailbox. Qed.
Lemma Nice_login : forall n, Nice n p_login.
Proof. intro n. unfold p_login, sp. nice. Qed.
Lemma Nice_mbox : forall k n, Nice n (p_mbox k).
Proof. intros k n. unfold p_mbox, sp. nice. Qed.
Lemma Nice_rename : forall n, Nice n p_rename.
Proof. intro n. unfold p_rename, sp. nice. Qed.
Lemma Nice_copy : forall fuel mv n, (n <= fuel)%nat -> Nice n (p_copy fuel mv).
Proof. intros fuel mv n Hn. unfold p_copy, sp. nice. Qed.

Lemma Nice_store_flags : forall fuel n, (n <= fuel)%nat -> Nice n (p_store_flags fuel).
Proof.
  intros fuel n Hn. unfold p_store_flags.
  apply (Nice_if _ (fun bs => cur_tok bs =? TT_LParen)); [apply Nice_flag_list; exact Hn|].
  apply Nice_sep_list; [tame_tac|exact Hn|apply Nice_flag].
Qed.
Lemma Nice_store : forall fuel n, (n <= fuel)%nat -> Nice n (p_store fuel).
Proof.
  intros fuel n Hn. unfold p_store, sp. nice; try (apply Nice_store_flags; exact Hn).
Qed.

(* FETCH *)
Lemma Nice_header_list : forall fuel n, (n <= fuel)%nat -> Nice n (p_header_list fuel).
Proof. intros fuel n Hn. unfold p_header_list. nice. Qed.
Lemma Nice_header_fields : forall fuel n, (n <= fuel)%nat -> Nice n (p_header_fields fuel).
Proof. intros fuel n Hn. unfold p_header_fields, sp. nice; try (apply Nice_header_list; exact Hn). Qed.
Lemma Nice_handle_msgtext : forall fuel t n, (n <= fuel)%nat -> Nice n (p_handle_msgtext fuel t).
Proof. intros fuel t n Hn. unfold p_handle_msgtext. nice; try (apply Nice_header_fields; exact Hn). Qed.
Lemma Nice_section_text : forall fuel n, (n <= fuel)%nat -> Nice n (p_section_text fuel).
Proof. intros fuel n Hn. unfold p_section_text. nice; try (apply Nice_handle_msgtext; exact Hn). Qed.

Lemma period_one : forall b r, tok_of_byte b = TT_Period -> cons_ok (b :: r) r None.
Proof.
  intros b r H. apply (cons_ok_one b r (tok_is TT_Period)); [split; reflexivity|].
  unfold tok_is. rewrite H. reflexivity.
Qed.

Lemma Wf_section_part_loop : forall fuel, Wf (p_section_part_loop fuel).
Proof.
  induction fuel as [|f IH]; intro bs; cbn [p_section_part_loop].
  - destruct (N.eqb_spec (cur_tok bs) TT_Period) as [E|E]; [|cons_refl].
    destruct bs as [|b r]; [discriminate E|]. cbn [cur_tok tl] in *.
    destruct (cur_tok r =? TT_Digit); [exact I|]. apply period_one. exact E.
  - destruct (N.eqb_spec (cur_tok bs) TT_Period) as [E|E]; [|cons_refl].
    destruct bs as [|b r]; [discriminate E|]. cbn [cur_tok tl] in *.
    pose proof (period_one b r E) as C1.
    destruct (cur_tok r =? TT_Digit); [|exact C1].
    pose proof (proj1 (Nice_nznumber 0) r) as W1.
    destruct (p_nznumber r) as [|k e|m r1]; [exact I|eapply cons_ok_trans; eassumption|].
    assert (C2 : cons_ok (b :: r) r1 None) by (eapply cons_ok_trans; eassumption).
    pose proof (IH r1) as W2.
    destruct (p_section_part_loop f r1) as [|k e|l r2]; [exact I| |]; eapply cons_ok_trans; eassumption.
Qed.
Lemma Tot_section_part_loop : forall fuel bs, (length bs <= fuel)%nat -> p_section_part_loop fuel bs <> ROut.
Proof.
  induction fuel as [|f IH]; intros bs Hl; cbn [p_section_part_loop].
  - destruct bs; [|cbn in Hl; lia]. cbn [cur_tok]. change (scan_eof =? TT_Period) with false. discriminate.
  - destruct (N.eqb_spec (cur_tok bs) TT_Period) as [E|E]; [|discriminate].
    destruct bs as [|b r]; [discriminate E|]. cbn [cur_tok tl length] in *.
    destruct (cur_tok r =? TT_Digit); [|discriminate].
    pose proof (proj1 (Nice_nznumber 0) r) as W1.
    pose proof (proj2 (Nice_nznumber (length r)) r (le_n _)) as T1.
    destruct (p_nznumber r) as [|k e|m r1]; [congruence|discriminate|].
    apply cons_ok_len in W1.
    pose proof (IH r1 ltac:(lia)) as T2.
    destruct (p_section_part_loop f r1); [congruence|discriminate|discriminate].
Qed.
Lemma Nice_section_part_loop : forall fuel n, (n <= fuel)%nat -> Nice n (p_section_part_loop fuel).
Proof.
  intros fuel n Hn. split; [apply Wf_section_part_loop|].
  intros bs Hl. apply Tot_section_part_loop. lia.
Qed.
Lemma Nice_section_part : forall fuel n, (n <= fuel)%nat -> Nice n (p_section_part fuel).
Proof.
  intros fuel n Hn. unfold p_section_part.
  apply Nice_bind; [apply Nice_nznumber|intro a].
  apply Nice_bind; [apply Nice_section_part_loop; exact Hn|intro; apply Nice_ret].
Qed.
Lemma Nice_section_spec : forall fuel n, (n <= fuel)%nat -> Nice n (p_section_spec fuel).
Proof.
  intros fuel n Hn. unfold p_section_spec.
  apply (Nice_if _ (fun bs => cur_tok bs =? TT_Digit)).
  - apply Nice_bind; [apply Nice_section_part; exact Hn|intro part].
    apply Nice_bind; [apply Nice_check|intro ch]. destruct ch; [|apply Nice_ret].
    apply Nice_bind; [apply Nice_section_text; exact Hn|intro; apply Nice_ret].
  - apply Nice_bind; [apply Nice_kw|intro t].
    apply Nice_bind; [apply Nice_handle_msgtext; exact Hn|intro; apply Nice_ret].
Qed.
Lemma Nice_body_att : forall fuel n, (n <= fuel)%nat -> Nice n (p_body_att fuel).
Proof.
  intros fuel n Hn. unfold p_body_att.
  apply (Nice_if_ok _ (fun bs => negb (cur_tok bs =? TT_LBracket) && negb (cur_tok bs =? TT_Period))).
  apply Nice_bind; [nice|intro dot].
  apply Nice_bind; [nice|intro peek].
  apply Nice_bind; [nice|intros _].
  apply Nice_bind.
  - apply (Nice_if_ok _ (fun bs => cur_tok bs =? TT_RBracket)). apply Nice_section_spec. exact Hn.
  - intro sec. nice.
Qed.
Lemma Nice_rfc822_att : forall n, Nice n p_rfc822_att.
Proof. intro n. unfold p_rfc822_att. nice. Qed.
Lemma Nice_handle_fetch_att : forall fuel k n, (n <= fuel)%nat -> Nice n (p_handle_fetch_att fuel k).
Proof.
  intros fuel k n Hn. unfold p_handle_fetch_att.
  repeat match goal with |- Nice _ (if ?c then _ else _) => destruct c end;
    first [apply Nice_ret | apply Nice_fail | apply Nice_rfc822_att | (apply Nice_body_att; exact Hn)].
Qed.
Lemma Nice_fetch_att : forall fuel n, (n <= fuel)%nat -> Nice n (p_fetch_att fuel).
Proof.
  intros fuel n Hn. unfold p_fetch_att. apply Nice_bind; [apply Nice_kw|intro k].
  apply Nice_handle_fetch_att. exact Hn.
Qed.
Lemma Nice_fetch : forall fuel n, (n <= fuel)%nat -> Nice n (p_fetch fuel).
Proof.
  intros fuel n Hn. unfold p_fetch.
  apply Nice_bind; [apply Nice_sp|intros _].
  apply Nice_bind; [apply Nice_seqset; exact Hn|intro s].
  apply Nice_bind; [apply Nice_sp|intros _].
  apply Nice_bind; [|intro; apply Nice_ret].
  apply (Nice_if _ (fun bs => cur_tok bs =? TT_LParen)).
  - apply Nice_bind; [nice|intros _].
    apply Nice_bind; [apply Nice_sep_list; [tame_tac|exact Hn|apply Nice_fetch_att; exact Hn]|intro l].
    nice.
  - apply Nice_bind; [apply Nice_kw|intro k].
    repeat match goal with |- Nice _ (if ?c then _ else _) => destruct c end; try apply Nice_ret.
    apply Nice_bind; [apply Nice_handle_fetch_att; exact Hn|intro; apply Nice_ret].
Qed.

(* ------------------------------------------------------------------ SEARCH: recursion through parseSearchKey *)
(* NiceLt n p: as Nice, for inputs strictly shorter than n (Nice n p <-> NiceLt (S n) p); NiceLt 0 p is just Wf p *)
Definition NiceLt {A} (n : nat) (p : P A) : Prop :=
  Wf p /\ forall bs, (length bs < n)%nat -> p bs <> ROut.

Lemma NiceLt_of_Nice : forall A (p : P A) n m, (m <= S n)%nat -> Nice n p -> NiceLt m p.
Proof. intros A p n m Hm [W T]. split; [exact W|]. intros bs Hl. apply T. lia. Qed.
Lemma Nice_of_NiceLt : forall A (p : P A) n, NiceLt (S n) p -> Nice n p.
Proof. intros A p n [W T]. split; [exact W|]. intros bs Hl. apply T. lia. Qed.

Lemma NiceLt_bind : forall A B (p : P A) (f : A -> P B) n,
  NiceLt n p -> (forall a, NiceLt n (f a)) -> NiceLt n (bind p f).
Proof.
  intros A B p f n [Wp Tp] Hf. split.
  - intro bs. unfold bind. specialize (Wp bs). destruct (p bs) as [|k a|a r]; [exact I|exact Wp|].
    destruct (Hf a) as [Wf_ _]. specialize (Wf_ r). destruct (f a r) as [|k e|b r'].
    + exact I.
    + eapply cons_ok_trans; eassumption.
    + eapply cons_ok_trans; eassumption.
  - intros bs Hl. unfold bind. specialize (Wp bs). specialize (Tp bs Hl).
    destruct (p bs) as [|k a|a r]; [congruence|discriminate|].
    destruct (Hf a) as [_ Tf]. apply Tf. apply cons_ok_len in Wp. lia.
Qed.

Lemma NiceLt_many_sep : forall A (sep : N -> bool) (item : P A) fuel n, tame sep ->
  (n <= S fuel)%nat -> NiceLt n item -> NiceLt n (p_many_sep fuel sep item).
Proof.
  intros A sep item fuel n Hs Hn [Wi Ti]. split.
  - apply Wf_many_sep; assumption.
  - intros bs Hl. apply Tot_many_sep; [assumption|assumption|lia|].
    intros bs' Hb. apply Ti. lia.
Qed.
Lemma NiceLt_sep_list : forall A (sep : N -> bool) (item : P A) fuel n, tame sep ->
  (n <= S fuel)%nat -> NiceLt n item -> NiceLt n (p_sep_list fuel sep item).
Proof.
  intros A sep item fuel n Hs Hn Hi. unfold p_sep_list.
  apply NiceLt_bind; [exact Hi|intro a].
  apply NiceLt_bind; [apply NiceLt_many_sep; assumption|intro].
  apply (NiceLt_of_Nice _ _ n); [lia|apply Nice_ret].
Qed.

Lemma Nice_bind_consume_lt : forall B f (k : N -> P B) n,
  tame f -> (forall a, NiceLt n (k a)) -> Nice n (bind (p_consume f) k).
Proof.
  intros B f k n [Hf He] Hk. split.
  - assert (N0 : NiceLt 0 (bind (p_consume f) k)).
    { apply NiceLt_bind; [apply (NiceLt_of_Nice _ _ 0); [lia|apply Nice_consume; exact Hf]|].
      intro a. destruct (Hk a) as [W _]. split; [exact W|]. intros bs Hl. lia. }
    exact (proj1 N0).
  - intros bs Hl. unfold bind, p_consume. destruct bs as [|b r]; cbn [cur_tok cur_val tl].
    + rewrite He. discriminate.
    + destruct (f (tok_of_byte b)); [|discriminate]. destruct (Hk b) as [_ T]. apply T. cbn in Hl. lia.
Qed.

Lemma tame_sp : tame (tok_is TT_SP).
Proof. apply tame_tok_is; discriminate. Qed.

Lemma Nice_handle_search_key : forall (self : P skey) gf k n,
  (n <= gf)%nat -> NiceLt n self -> Nice n (p_handle_search_key self gf k).
Proof.
  intros self gf k n Hn Hs. unfold p_handle_search_key.
  destruct (sk_flag_of k); [apply Nice_ret|].
  destruct (sk_str_of k); [unfold sp; nice|].
  destruct (sk_date_of k); [unfold sp; nice|].
  destruct (sk_atom_of k); [unfold sp; nice|].
  destruct (sk_num_of k); [unfold sp; nice|].
  destruct (kw_is k "header"); [unfold sp; nice|].
  destruct (kw_is k "not").
  { unfold sp. apply Nice_bind_consume_lt; [apply tame_sp|intros _].
    apply NiceLt_bind; [exact Hs|intro x]. apply (NiceLt_of_Nice _ _ n); [lia|apply Nice_ret]. }
  destruct (kw_is k "or").
  { unfold sp at 1. apply Nice_bind_consume_lt; [apply tame_sp|intros _].
    apply NiceLt_bind; [exact Hs|intro a].
    apply NiceLt_bind; [apply (NiceLt_of_Nice _ _ n); [lia|apply Nice_sp]|intros _].
    apply NiceLt_bind; [exact Hs|intro b]. apply (NiceLt_of_Nice _ _ n); [lia|apply Nice_ret]. }
  destruct (kw_is k "uid"); [unfold sp; nice|].
  apply Nice_fail.
Qed.

Lemma Nice_search_key : forall gf d,
  Wf (p_search_key gf d) /\ forall n, (n < d)%nat -> (n <= gf)%nat -> Nice n (p_search_key gf d).
Proof.
  intro gf. induction d as [|d [IHW IHN]].
  - split; [intro bs; exact I|intros n Hn; lia].
  - assert (SelfLt : forall n, (n <= d)%nat -> (n <= gf)%nat -> NiceLt n (p_search_key gf d)).
    { intros n Hd Hg. split; [exact IHW|]. intros bs Hl.
      destruct (IHN (length bs) ltac:(lia) ltac:(lia)) as [_ T]. apply T. lia. }
    assert (Body : forall n, (n <= d)%nat -> (n <= gf)%nat -> Nice n (p_search_key gf (S d))).
    { intros n Hd Hg. cbn [p_search_key].
      apply (Nice_if _ (fun bs => cur_tok bs =? TT_LParen)).
      - apply Nice_bind_consume_lt; [apply tame_tok_is; discriminate|intros _].
        apply NiceLt_bind.
        + apply NiceLt_sep_list; [apply tame_sp|lia|apply SelfLt; assumption].
        + intro l. apply (NiceLt_of_Nice _ _ n); [lia|]. nice.
      - apply (Nice_if _ (fun bs => (cur_tok bs =? TT_Digit) || (cur_tok bs =? TT_Asterisk))).
        + apply Nice_bind; [apply Nice_seqset; exact Hg|intro; apply Nice_ret].
        + apply Nice_bind; [apply Nice_kw|intro k]. apply Nice_handle_search_key; [exact Hg|].
          apply SelfLt; assumption. }
    split.
    + exact (proj1 (Body 0%nat ltac:(lia) ltac:(lia))).
    + intros n Hn Hg. apply Body; [lia|exact Hg].
Qed.

Lemma Nice_search : forall fuel n, (n < fuel)%nat -> Nice n (p_search fuel).
Proof.
  intros fuel n Hn. unfold p_search.
  assert (K : Nice n (p_search_key fuel fuel)) by (apply (proj2 (Nice_search_key fuel fuel)); lia).
  assert (KL : NiceLt n (p_search_key fuel fuel)) by (apply (NiceLt_of_Nice _ _ n); [lia|exact K]).
  apply Nice_bind; [apply Nice_sp|intros _].
  apply Nice_bind; [nice|intro c].
  apply Nice_bind.
  - destruct c as [ch|].
    + destruct (to_lower ch =? 99).
      * apply (Nice_if _ (fun bs => to_lower (cur_val bs) =? 99)).
        -- apply Nice_bind; [nice|intros _].
           apply Nice_bind; [apply Nice_handle_search_key; [lia|exact KL]|intro; apply Nice_ret].
        -- unfold sp. nice.
      * apply Nice_bind; [nice|intro r].
        apply Nice_bind; [apply Nice_handle_search_key; [lia|exact KL]|intro; apply Nice_ret].
    + apply Nice_bind; [exact K|intro; apply Nice_ret].
  - intro ck. apply Nice_bind; [apply Nice_many_sep; [apply tame_sp|lia|exact K]|intro rest].
    destruct (snd ck ++ rest); [apply Nice_fail|apply Nice_ret].
Qed.

(* APPEND, ID, UID, dispatch *)
Lemma Nice_append : forall fuel n, (n <= fuel)%nat -> Nice n (p_append fuel).
Proof.
  intros fuel n Hn. unfold p_append.
  apply Nice_bind; [apply Nice_sp|intros _].
  apply Nice_bind; [apply Nice_mailbox|intro m].
  apply Nice_bind; [apply Nice_sp|intros _].
  apply Nice_bind.
  { apply (Nice_if _ (fun bs => cur_tok bs =? TT_LParen)); [|apply Nice_ret].
    apply Nice_bind; [apply Nice_flag_list; exact Hn|intro l].
    apply Nice_bind; [apply Nice_sp|intros _; apply Nice_ret]. }
  intro fl. apply Nice_bind.
  { apply (Nice_if _ (fun bs => cur_tok bs =? TT_LCurly)); [apply Nice_ret|].
    apply Nice_bind; [apply Nice_date_time|intro d].
    apply Nice_bind; [apply Nice_sp|intros _; apply Nice_ret]. }
  intro dt. apply Nice_bind; [apply Nice_literal|intro; apply Nice_ret].
Qed.

Definition id_pair : P (bytes * bytes) :=
  k <- p_string ;; sp ;;; v <- p_nstring ;;
  rp <- p_check (tok_is TT_RParen) ;;
  (if rp then ret tt else sp ;;; ret tt) ;;;
  ret (k, match v with Some s => s | None => [] end).
Lemma Nice_id_pair : forall n, Nice n id_pair.
Proof. intro n. unfold id_pair, sp. nice. Qed.

(* the pair parser starts with a string: it consumes at least one byte when it succeeds *)
Lemma string_consumes : forall bs s r, starts_string bs = true -> p_string bs = ROk s r -> (length r < length bs)%nat.
Proof.
  intros bs s r Hs H. unfold p_string in H. unfold starts_string in Hs.
  destruct bs as [|b t]; [discriminate Hs|]. cbn [cur_tok] in *.
  destruct (tok_of_byte b =? TT_DQuote) eqn:Q.
  - unfold p_quoted, bind, p_consume, tok_is in H. cbn [cur_tok cur_val tl] in H. rewrite Q in H.
    pose proof (proj1 (Nice_quoted_loop 0) t) as W. destruct (p_quoted_loop t) as [|k a|v r1]; try discriminate.
    apply cons_ok_len in W.
    destruct (cur_tok r1 =? TT_DQuote); [|discriminate]. unfold ret in H. injection H as _ <-.
    destruct r1; cbn in *; lia.
  - destruct (tok_of_byte b =? TT_LCurly) eqn:L; [|discriminate].
    unfold p_literal, bind in H. pose proof (literal_header_spec (b :: t)) as LH.
    destruct (p_literal_header (b :: t)) as [|k a|m r1]; try discriminate.
    destruct LH as (_ & pre & E & _ & I13 & _).
    assert (Lr1 : (length r1 < length (b :: t))%nat).
    { rewrite E, app_length. destruct pre; [destruct I13|cbn; lia]. }
    unfold p_take in H. destruct (m =? 0).
    + destruct literal_zero_returns_early; [|discriminate]. injection H as _ <-. exact Lr1.
    + destruct (take_bytes m r1) as [[l r']|] eqn:T.
      * injection H as _ <-. apply take_bytes_split in T. subst r1. rewrite app_length in Lr1. lia.
      * destruct r1; [|discriminate]. destruct (m =? 1); [|discriminate]. injection H as _ <-. cbn in *. lia.
Qed.

Lemma id_pair_consumes : forall bs kv r, starts_string bs = true -> id_pair bs = ROk kv r -> (length r < length bs)%nat.
Proof.
  intros bs kv r Hs H. unfold id_pair in H. unfold bind at 1 in H.
  destruct (p_string bs) as [|k a|s r0] eqn:E; try discriminate.
  apply (string_consumes bs s r0 Hs) in E.
  assert (W : Wf (sp ;;; v <- p_nstring ;; rp <- p_check (tok_is TT_RParen) ;;
                  (if rp then ret tt else sp ;;; ret tt) ;;;
                  ret (s, match v with Some s0 => s0 | None => [] end))).
  { refine (proj1 (_ : Nice 0 _)). unfold sp. nice. }
  specialize (W r0). rewrite H in W. apply cons_ok_len in W. lia.
Qed.

Lemma Wf_id_params : forall fuel, Wf (p_id_params fuel).
Proof.
  induction fuel as [|f IH]; intro bs; cbn [p_id_params].
  - destruct (starts_string bs); [exact I|cons_refl].
  - destruct (starts_string bs); [|cons_refl].
    change (match id_pair bs with
            | ROk kv r => match p_id_params f r with
                          | ROk l r' => ROk (kv :: l) r' | ROut => ROut | RErr k e => RErr k e end
            | ROut => ROut | RErr k e => RErr k e end) with
      (bind id_pair (fun kv => bind (p_id_params f) (fun l => ret (kv :: l))) bs).
    assert (W : Wf (bind id_pair (fun kv => bind (p_id_params f) (fun l => ret (kv :: l))))).
    { refine (proj1 (_ : NiceLt 0 _)). apply NiceLt_bind.
      - apply (NiceLt_of_Nice _ _ 0); [lia|apply Nice_id_pair].
      - intro kv. apply NiceLt_bind; [split; [exact IH|intros; lia]|intro].
        apply (NiceLt_of_Nice _ _ 0); [lia|apply Nice_ret]. }
    apply W.
Qed.

Lemma Tot_id_params : forall fuel bs, (length bs <= fuel)%nat -> p_id_params fuel bs <> ROut.
Proof.
  induction fuel as [|f IH]; intros bs Hl; cbn [p_id_params].
  - destruct bs; [|cbn in Hl; lia]. change (starts_string []) with false. discriminate.
  - destruct (starts_string bs) eqn:S; [|discriminate].
    change (match id_pair bs with
            | ROk kv r => match p_id_params f r with
                          | ROk l r' => ROk (kv :: l) r' | ROut => ROut | RErr k0 e0 => RErr k0 e0 end
            | ROut => ROut | RErr k0 e0 => RErr k0 e0 end <> ROut).
    pose proof (proj2 (Nice_id_pair (length bs)) bs (le_n _)) as T1.
    destruct (id_pair bs) as [|k0 e0|kv r] eqn:E; [congruence|discriminate|].
    apply id_pair_consumes in E; [|exact S].
    pose proof (IH r ltac:(lia)) as T2.
    destruct (p_id_params f r); [congruence|discriminate|discriminate].
Qed.
Lemma Nice_id_params : forall fuel n, (n <= fuel)%nat -> Nice n (p_id_params fuel).
Proof.
  intros fuel n Hn. split; [apply Wf_id_params|]. intros bs Hl. apply Tot_id_params. lia.
Qed.
Lemma Nice_id : forall fuel n, (n <= fuel)%nat -> Nice n (p_id fuel).
Proof.
  intros fuel n Hn. unfold p_id.
  apply Nice_bind; [apply Nice_sp|intros _].
  apply (Nice_if _ (fun bs => cur_tok bs =? TT_Char)); [nice|].
  apply Nice_bind; [nice|intros _].
  apply Nice_bind; [apply Nice_id_params; exact Hn|intro l]. nice.
Qed.

Lemma Nice_uid : forall fuel n, (n < fuel)%nat -> Nice n (p_uid fuel).
Proof.
  intros fuel n Hn. unfold p_uid.
  apply Nice_bind; [apply Nice_sp|intros _].
  apply Nice_bind; [apply Nice_kw|intro k].
  repeat match goal with |- Nice _ (if ?c then _ else _) => destruct c end; try apply Nice_fail.
  - unfold sp. apply Nice_bind; [nice|intros _].
    apply Nice_bind; [apply Nice_seqset; lia|intro; apply Nice_ret].
  - apply Nice_bind; [apply Nice_copy; lia|intro; apply Nice_ret].
  - apply Nice_bind; [apply Nice_copy; lia|intro; apply Nice_ret].
  - apply Nice_bind; [apply Nice_fetch; lia|intro; apply Nice_ret].
  - apply Nice_bind; [apply Nice_search; lia|intro; apply Nice_ret].
  - apply Nice_bind; [apply Nice_store; lia|intro; apply Nice_ret].
Qed.

Lemma Nice_payload : forall fuel k n, (n < fuel)%nat -> Nice n (p_payload fuel k).
Proof.
  intros fuel k n Hn. unfold p_payload.
  repeat match goal with |- Nice _ (if ?c then _ else _) => destruct c end;
    first
      [ apply Nice_ret | apply Nice_fail | apply Nice_list | apply Nice_mbox | apply Nice_rename | apply Nice_login
      | (apply Nice_append; lia) | (apply Nice_status; lia) | (apply Nice_id; lia) | (apply Nice_uid; lia)
      | (apply Nice_bind; [first [ apply Nice_search; lia | apply Nice_fetch; lia | apply Nice_store; lia
                                 | apply Nice_copy; lia ] | intro; apply Nice_ret]) ].
Qed.

Lemma Nice_tag : forall n, Nice n p_tag.
Proof. intro n. unfold p_tag. nice. Qed.

(* the part of Parse between the tag and the final CRLF *)
Definition p_after_tag (fuel : nat) : P cmd := sp ;;; k <- p_kw ;; p_payload fuel k.
Lemma Nice_after_tag : forall fuel n, (n < fuel)%nat -> Nice n (p_after_tag fuel).
Proof.
  intros fuel n Hn. unfold p_after_tag.
  apply Nice_bind; [apply Nice_sp|intros _].
  apply Nice_bind; [apply Nice_kw|intro k]. apply Nice_payload. exact Hn.
Qed.
