(* C10 - which byte strings are encodings of a command (the printer, as a relation so that it ranges over ALL
   encoding choices at once): per string atom / quoted / literal, per keyword letter upper / lower case, optional forms
   (a single sequence number or n:n, flag list with or without parentheses, NIL or the empty string ...).

   The character classes are those of RFC 3501 in BYTE terms - deliberately not the generated token tables - so the
   round-trip theorems (Props/C10.v) say that the tables of the implementation accept what the RFC allows:
     ATOM-CHAR      any CHAR except atom-specials: parentheses, open brace, SP, CTL, percent, asterisk, double quote,
                    backslash, closing bracket
     ASTRING-CHAR   ATOM-CHAR or closing bracket;  list-char: ATOM-CHAR, percent, asterisk, closing bracket
     QUOTED-CHAR    any TEXT-CHAR (1..127 except CR LF) except double quote and backslash, or one of these two escaped
                    by a backslash
     literal        open brace, number, close brace, CRLF, then that many bytes *)
From Coq Require Import List NArith Bool String Ascii.
From Gluon Require Import Gen.FactsTokens Model.ImapTokens Model.ImapGrammar.
Import ListNotations.
Open Scope N_scope.
Local Notation length := List.length.

(* ------------------------------------------------------------------ RFC 3501 character classes (bytes) *)
Definition in_range (lo hi b : N) : bool := (lo <=? b) && (b <=? hi).
Definition is_digit_byte (b : N) : bool := in_range 48 57 b.
Definition is_alpha_byte (b : N) : bool := in_range 65 90 b || in_range 97 122 b.
Definition is_lower_alpha (b : N) : bool := in_range 97 122 b.
Fixpoint memb (b : N) (l : list N) : bool := match l with [] => false | x :: t => (b =? x) || memb b t end.
(* 40 41 123 37 42 34 92 93 = parentheses, open brace, percent, asterisk, double quote, backslash, closing bracket
   (SP and CTL are excluded by the range 33..126) *)
Definition atom_specials : list N := [40; 41; 123; 37; 42; 34; 92; 93].
Definition rfc_atom_byte (b : N) : bool := in_range 33 126 b && negb (memb b atom_specials).
Definition rfc_astring_byte (b : N) : bool := rfc_atom_byte b || (b =? 93).
Definition rfc_list_byte (b : N) : bool := rfc_atom_byte b || (b =? 37) || (b =? 42) || (b =? 93).
Definition rfc_tag_byte (b : N) : bool := rfc_astring_byte b && negb (b =? 43).
Definition rfc_quoted_raw (b : N) : bool :=
  in_range 1 127 b && negb (b =? 13) && negb (b =? 10) && negb (b =? 34) && negb (b =? 92).
Definition rfc_quoted_special (b : N) : bool := (b =? 34) || (b =? 92).

Definition all_bytes (f : N -> bool) (s : bytes) : Prop := forall b, In b s -> f b = true.

(* ------------------------------------------------------------------ keywords *)
(* kw is given in lower case; any mixture of upper and lower case letters is an encoding *)
Definition EncKw (kw : string) (bs : bytes) : Prop := lower bs = s2b kw.
(* fixed text matched case-insensitively byte by byte (ConsumeBytesFold) *)
Definition EncFold (cs : string) (bs : bytes) : Prop := lower bs = lower (s2b cs).

(* ------------------------------------------------------------------ numbers *)
Fixpoint num_val (acc : N) (ds : bytes) : N :=
  match ds with [] => acc | d :: t => num_val (acc * 10 + (d - 48)) t end.
(* number = 1*DIGIT (leading zeros allowed), value below 2^63 *)
Definition EncNum (n : N) (ds : bytes) : Prop :=
  ds <> [] /\ all_bytes is_digit_byte ds /\ num_val 0 ds = n /\ n <= max_int.
Definition EncNz (n : N) (ds : bytes) : Prop := EncNum n ds /\ n <> 0.
(* at most k digits / exactly k digits *)
Definition EncNumUpTo (k : nat) (n : N) (ds : bytes) : Prop :=
  ds <> [] /\ (length ds <= k)%nat /\ all_bytes is_digit_byte ds /\ num_val 0 ds = n.
Definition EncNumExact (k : nat) (n : N) (ds : bytes) : Prop :=
  length ds = k /\ k <> O /\ all_bytes is_digit_byte ds /\ num_val 0 ds = n.

(* ------------------------------------------------------------------ strings *)
Inductive EncQBody : bytes -> bytes -> Prop :=
| EQ_nil : EncQBody [] []
| EQ_raw b s q : rfc_quoted_raw b = true -> EncQBody s q -> EncQBody (b :: s) (b :: q)
| EQ_esc b s q : rfc_quoted_special b = true -> EncQBody s q -> EncQBody (b :: s) (92 :: b :: q).
Definition EncQuoted (s bs : bytes) : Prop := exists q, bs = 34 :: q ++ [34] /\ EncQBody s q.
Definition EncLiteral (s bs : bytes) : Prop :=
  exists ds, bs = 123 :: ds ++ [125; 13; 10] ++ s /\ EncNum (N.of_nat (length s)) ds /\
             literal_min_size <= N.of_nat (length s) < literal_cap.
Definition EncString (s bs : bytes) : Prop := EncQuoted s bs \/ EncLiteral s bs.
Definition EncAtomWith (f : N -> bool) (s bs : bytes) : Prop := bs = s /\ s <> [] /\ all_bytes f s.
Definition EncAString (s bs : bytes) : Prop := EncAtomWith rfc_astring_byte s bs \/ EncString s bs.
Definition EncAtom (s bs : bytes) : Prop := EncAtomWith rfc_atom_byte s bs.
(* mailbox = INBOX (any case) / astring: the written name w is read back as INBOX when it is INBOX in any case *)
Definition mailbox_of (w : bytes) : bytes := if bytes_eqb (lower w) (s2b "inbox") then s2b "INBOX" else w.
Definition EncMailbox (m bs : bytes) : Prop := exists w, EncAString w bs /\ m = mailbox_of w.
(* list-mailbox = 1*list-char / string *)
Definition EncListMailbox (s bs : bytes) : Prop := EncAtomWith rfc_list_byte s bs \/ EncString s bs.
(* nstring = string / NIL ; the Go AST stores the empty string for NIL *)
Definition EncNString (s bs : bytes) : Prop := EncString s bs \/ (s = [] /\ EncFold "NIL" bs).

(* flag = backslash atom (not Recent) / atom *)
Definition EncFlag (f bs : bytes) : Prop :=
  bs = f /\ (EncAtom f f \/ exists a, f = 92 :: a /\ EncAtom a a /\ bytes_eqb (lower a) (s2b "recent") = false).

(* ------------------------------------------------------------------ lists with a separator byte *)
Section SepLists.
  Context {A : Type} (E : A -> bytes -> Prop) (sepb : N).
  (* zero or more (sep item) *)
  Inductive EncSepTail : list A -> bytes -> Prop :=
  | EST_nil : EncSepTail [] []
  | EST_cons a e l t : E a e -> EncSepTail l t -> EncSepTail (a :: l) (sepb :: e ++ t).
  (* item, then zero or more (sep item) *)
  Definition EncSepList (l : list A) (bs : bytes) : Prop :=
    match l with
    | [] => False
    | a :: l' => exists e t, bs = e ++ t /\ E a e /\ EncSepTail l' t
    end.
End SepLists.

(* flag-list = open paren, optional flags separated by SP, close paren *)
Definition EncFlagList (l : list bytes) (bs : bytes) : Prop :=
  match l with
  | [] => bs = [40; 41]
  | _ => exists inner, bs = 40 :: inner ++ [41] /\ EncSepList EncFlag 32 l inner
  end.

(* ------------------------------------------------------------------ sequence sets *)
(* seq-number = nz-number / asterisk ; 0 stands for the asterisk in the AST (command.SeqNumValueAsterisk) *)
Definition EncSeqNum (n : N) (bs : bytes) : Prop :=
  (n = 0 /\ bs = [42]) \/ (n <> 0 /\ n <= max_uint32 /\ EncNum n bs).
(* seq-range a:b; a single number n is read as (n, n), which may also be written n:n *)
Definition EncSeqRange (r : seqrange) (bs : bytes) : Prop :=
  (fst r = snd r /\ EncSeqNum (fst r) bs) \/
  (exists e1 e2, bs = e1 ++ 58 :: e2 /\ EncSeqNum (fst r) e1 /\ EncSeqNum (snd r) e2).
Definition EncSeqSet (s : seqset) (bs : bytes) : Prop := EncSepList EncSeqRange 44 s bs.

(* ------------------------------------------------------------------ commands covered by the round-trip theorem *)
Definition noarg_kw (k : noarg) : string :=
  match k with
  | NCapability => "capability" | NIdle => "idle" | NNoop => "noop" | NLogout => "logout" | NCheck => "check"
  | NClose => "close" | NExpunge => "expunge" | NUnselect => "unselect" | NStartTLS => "starttls"
  end.
Definition mbox_kw (k : mboxcmd) : string :=
  match k with
  | MSelect => "select" | MExamine => "examine" | MCreate => "create" | MDelete => "delete"
  | MSubscribe => "subscribe" | MUnsubscribe => "unsubscribe"
  end.
Definition status_att_kw (a : status_att) : string :=
  match a with
  | SaMessages => "messages" | SaRecent => "recent" | SaUidNext => "uidnext" | SaUidValidity => "uidvalidity"
  | SaUnseen => "unseen"
  end.
Definition EncStatusAtt (a : status_att) (bs : bytes) : Prop := EncKw (status_att_kw a) bs.

(* store-att-flags = optional + or -, FLAGS, optional .SILENT, SP, then a flag-list or flags separated by SP *)
Definition EncStoreAction (a : store_action) (bs : bytes) : Prop :=
  match a with StAdd => bs = [43] | StRem => bs = [45] | StSet => bs = [] end.
Definition EncStoreFlags (l : list bytes) (bs : bytes) : Prop :=
  EncFlagList l bs \/ EncSepList EncFlag 32 l bs.

(* the text after the tag and its SP, up to (not including) the final CRLF *)
Inductive EncSel : selcmd -> bytes -> Prop :=
| ES_copy (mv : bool) s m k e1 e2 :
    EncKw (if mv then "move" else "copy") k -> EncSeqSet s e1 -> EncMailbox m e2 ->
    EncSel (SCopy mv s m) (k ++ 32 :: e1 ++ 32 :: e2)
| ES_store s a (silent : bool) fl k e1 ea kf ks ef :
    EncKw "store" k -> EncSeqSet s e1 -> EncStoreAction a ea -> EncFold "FLAGS" kf ->
    (if silent then exists x, ks = 46 :: x /\ EncFold "SILENT" x else ks = []) ->
    EncStoreFlags fl ef ->
    EncSel (SStore s a silent fl) (k ++ 32 :: e1 ++ 32 :: ea ++ kf ++ ks ++ 32 :: ef).

Inductive EncCmd : cmd -> bytes -> Prop :=
| EC_noarg k e : EncKw (noarg_kw k) e -> EncCmd (CNoArg k) e
| EC_mbox k m e1 e2 : EncKw (mbox_kw k) e1 -> EncMailbox m e2 -> EncCmd (CMbox k m) (e1 ++ 32 :: e2)
| EC_rename a b k e1 e2 :
    EncKw "rename" k -> EncMailbox a e1 -> EncMailbox b e2 -> EncCmd (CRename a b) (k ++ 32 :: e1 ++ 32 :: e2)
| EC_list (lsub : bool) m p k e1 e2 :
    EncKw (if lsub then "lsub" else "list") k -> EncMailbox m e1 -> EncListMailbox p e2 ->
    EncCmd (CList lsub m p) (k ++ 32 :: e1 ++ 32 :: e2)
| EC_login u p k e1 e2 :
    EncKw "login" k -> EncAString u e1 -> EncAString p e2 -> EncCmd (CLogin u p) (k ++ 32 :: e1 ++ 32 :: e2)
| EC_status m atts k e1 e2 :
    EncKw "status" k -> EncMailbox m e1 -> EncSepList EncStatusAtt 32 atts e2 ->
    EncCmd (CStatus m atts) (k ++ 32 :: e1 ++ 32 :: 40 :: e2 ++ [41])
| EC_sel c e : EncSel c e -> EncCmd (CSel false c) e
| EC_uid c k e : EncKw "uid" k -> EncSel c e -> EncCmd (CSel true c) (k ++ 32 :: e)
| EC_uid_expunge s k1 k2 e :
    EncKw "uid" k1 -> EncKw "expunge" k2 -> EncSeqSet s e -> EncCmd (CUidExpunge s) (k1 ++ 32 :: k2 ++ 32 :: e).

(* tag = 1*<any ASTRING-CHAR except plus>, and not the word DONE *)
Definition EncTag (t : bytes) : Prop :=
  t <> [] /\ all_bytes rfc_tag_byte t /\ bytes_eqb (lower t) (s2b "done") = false.

(* a complete command line: tag SP command CRLF; DONE CRLF has no tag *)
Inductive EncLine : bytes -> cmd -> bytes -> Prop :=
| EL_cmd t c e : EncTag t -> EncCmd c e -> EncLine t c (t ++ 32 :: e ++ [13; 10])
| EL_done e : EncKw "done" e -> EncLine [] CDone (e ++ [13; 10]).
