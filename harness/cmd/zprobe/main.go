package main

import (
	"fmt"
	"verifharness/common"
	"verifharness/srv"
)

func main() {
	s, err := srv.Start(srv.Options{})
	if err != nil { panic(err) }
	defer s.Stop()
	c, _ := s.Login()
	c.Cmd("CREATE b2")
	c.Cmd("SELECT b2")
	c.Append("b2", "", common.Message("m1", "x"))
	c.Append("b2", "", common.Message("m2", "x"))
	for _, cmd := range []string{"COPY 2 b2", "COPY 1:* b2", "CLOSE", "NOOP"} {
		r, err := c.Cmd(cmd)
		fmt.Println(cmd, "->", r.Status, r.Text, err, len(r.Untagged))
		for _, l := range r.Untagged { fmt.Println("   ", l.Text) }
	}
}
