(* C12/C13 — the header parser and the header operations FETCH uses.
   Impl model of: rfc822/header_parser.go headerParser.next (transliterated: [s] is header[offset:], [off] the
   absolute offset; the parser never looks behind its offset), parsedHeaderEntry.{hasKey,getKey,getAll};
   rfc822/header.go NewHeader (loop over next), Header.Fields / Header.FieldsNot,
   SetHeaderValueNoMemCopy, EraseHeaderValue, joinLine.
   The model follows the code AFTER notes/C13-fix-2.diff (an empty field covers its whole line).
   All parser errors (ErrKeyNotFound, ErrNonASCIIHeaderKey, ErrParseHeader, io.ErrUnexpectedEOF, ...) are one
   outcome [..Err]; fuel exhaustion is a separate outcome excluded by the theorems.
   bytes.TrimSpace / strings.ToLower / strings.EqualFold are modelled for ASCII (keys are ASCII by validation).
   No proofs in this file. *)
From Coq Require Import List NArith Bool Arith.
From Gluon Require Import Base.DecBytes Model.Rfc822Split.
Import ListNotations.

Definition isWSP (b : N) : bool := N.eqb b 32 || N.eqb b 9.
Definition COLON : N := 58%N.

Record hentry := mkEntry { keyStart : nat; keyEnd : nat; valueStart : nat; valueEnd : nat }.

Definition key_byte_ok (b : N) : bool := N.leb 33 b && N.leb b 126.      (* validateHeaderField *)

(* ---- phase 1: find the key ---- *)
Inductive kres :=
| KNotFound                                   (* ErrKeyNotFound *)
| KLine (newoff : nat)                        (* a line without ':' : entry {ks,ks,ks,newoff} *)
| KColon (i : nat) (ok : bool) (rest : bytes). (* ':' at i followed by at least one byte; rest = header[i+1:] *)

Fixpoint find_key (s : bytes) (i : nat) (ok : bool) : kres :=
  match s with
  | [] => KNotFound
  | b :: t =>
    if N.eqb b COLON then
      match t with
      | [] => KNotFound          (* ':' is the last byte: the loop ends with keyEnd = -1 *)
      | _ :: _ => KColon i ok t
      end
    else if N.eqb b LF then KLine (S i)
    else find_key t (S i) (ok && key_byte_ok b)
  end.

(* ---- phase 2: collect the value ---- *)
Fixpoint skip_wsp (s : bytes) (i : nat) : bytes * nat :=
  match s with
  | b :: t => if isWSP b then skip_wsp t (S i) else (s, i)
  | [] => ([], i)
  end.

Inductive vres := VErr | VDone (ve : nat) | VEnd (so : nat).

Definition next_is_wsp (s : bytes) : bool := match s with b :: _ => isWSP b | [] => false end.

Fixpoint scan_value (s : bytes) (so : nat) : vres :=
  match s with
  | [] => VEnd so
  | b :: t =>
    if N.eqb b CR then
      match t with
      | [] => VErr                                              (* io.ErrUnexpectedEOF *)
      | c :: t' =>
        if N.eqb c LF then (if next_is_wsp t' then scan_value t' (S (S so)) else VDone (S (S so)))
        else VErr                                               (* expected \n after \r *)
      end
    else if N.eqb b LF then (if next_is_wsp t then scan_value t (S so) else VDone (S so))
    else scan_value t (S so)
  end.

Inductive next_res := NEOF | NErr | NOk (e : hentry) (newoff : nat).

(* value collection starting at offset o (s = header[o:], possibly o = len+1 with s = []) *)
Definition collect_value (len ks ke : nat) (s : bytes) (o : nat) : next_res :=
  let '(s1, so) := skip_wsp s o in
  let vs := match s1 with [] => len | _ :: _ => so end in
  match scan_value s1 so with
  | VErr => NErr
  | VDone ve => NOk (mkEntry ks ke vs ve) ve
  | VEnd so' => NOk (mkEntry ks ke vs len) so'
  end.

(* after "key:" when the value is empty on this line: off = offset after the line break, s = header[off:] *)
Definition after_linebreak (len ks ke : nat) (ok : bool) (s : bytes) (off : nat) : next_res :=
  if negb ok then NErr
  else match s with
       | b :: _ => if isWSP b then collect_value len ks ke s off
                   else NOk (mkEntry ks ke off off) off       (* empty field (after C13-fix-2) *)
       | [] => collect_value len ks ke s off
       end.

Definition hp_next (len : nat) (s : bytes) (off : nat) : next_res :=
  match s with
  | [] => NEOF
  | _ :: _ =>
    match find_key s off true with
    | KNotFound => NErr
    | KLine n => NOk (mkEntry off off off n) n
    | KColon i ok rest =>
      match rest with
      | [] => NErr (* unreachable *)
      | c :: t =>
        if isWSP c then (if ok then collect_value len off i rest (S i) else NErr)
        else if N.eqb c CR then
          match t with
          | d :: t' => if N.eqb d LF then after_linebreak len off i ok t' (S (S (S i))) else NErr
          | [] => after_linebreak len off i ok [] (S (S (S i)))
          end
        else if N.eqb c LF then after_linebreak len off i ok t (S (S i))
        else if N.eqb c COLON then NErr
        else (if ok then collect_value len off i rest (S i) else NErr)
      end
    end
  end.

(* ---- NewHeader: all entries ---- *)
Inductive hres := HOk (es : list hentry) | HErr | HFuel.

Fixpoint hp_all (fuel len : nat) (s : bytes) (off : nat) : hres :=
  match fuel with
  | 0 => HFuel
  | S f =>
    match hp_next len s off with
    | NEOF => HOk []
    | NErr => HErr
    | NOk e n =>
      match hp_all f len (skipn (n - off) s) n with
      | HOk es => HOk (e :: es)
      | r => r
      end
    end
  end.

Definition new_header (h : bytes) : hres := hp_all (S (length h)) (length h) h 0.

(* ---- the loops that stop at the first entry satisfying a predicate ---- *)
Inductive fres := FFound (e : hentry) | FNone | FErr | FFuel.

Fixpoint hp_find (fuel len : nat) (p : hentry -> bool) (s : bytes) (off : nat) : fres :=
  match fuel with
  | 0 => FFuel
  | S f =>
    match hp_next len s off with
    | NEOF => FNone
    | NErr => FErr
    | NOk e n => if p e then FFound e else hp_find f len p (skipn (n - off) s) n
    end
  end.

Definition has_key (e : hentry) : bool := negb (keyStart e =? keyEnd e).
Definition e_all (h : bytes) (e : hentry) : bytes := slice h (keyStart e) (valueEnd e).
Definition e_key (h : bytes) (e : hentry) : bytes := slice h (keyStart e) (keyEnd e).
Definition e_value (h : bytes) (e : hentry) : bytes := slice h (valueStart e) (valueEnd e).

(* ---- Fields / FieldsNot ---- *)
Definition is_space (b : N) : bool :=
  N.eqb b 32 || N.eqb b 9 || N.eqb b 10 || N.eqb b 11 || N.eqb b 12 || N.eqb b 13.
Definition blank (l : bytes) : bool := forallb is_space l.          (* len(bytes.TrimSpace(l)) == 0, ASCII *)
Definition lower (b : N) : N := if N.leb 65 b && N.leb b 90 then (b + 32)%N else b.
Definition key_in (fields : list bytes) (k : bytes) : bool :=
  existsb (fun f => bytes_eqb (map lower f) (map lower k)) fields.

(* does the entry go into Fields (neg = false) / FieldsNot (neg = true) *)
Definition field_sel (neg : bool) (h : bytes) (fields : list bytes) (e : hentry) : bool :=
  blank (e_all h e) || (has_key e && xorb neg (key_in fields (e_key h e))).

Definition header_fields (neg : bool) (h : bytes) (fields : list bytes) : option bytes :=
  match new_header h with
  | HOk es => Some (flat_map (e_all h) (filter (field_sel neg h fields) es))
  | _ => None
  end.

(* ---- SetHeaderValueNoMemCopy / EraseHeaderValue ---- *)
Definition join_line (key val : bytes) : bytes := key ++ [COLON; 32%N] ++ val ++ [CR; LF].

(* None = the function returns an error *)
Definition set_header_value (lit key val : bytes) : option bytes :=
  let raw := split_header lit in
  match hp_find (S (length raw)) (length raw) has_key raw 0 with
  | FFound e => Some (firstn (keyStart e) lit ++ join_line key val ++ skipn (keyStart e) lit)
  | FNone => Some (raw ++ join_line key val ++ split_body lit)
  | _ => None
  end.

Definition key_is (h key : bytes) (e : hentry) : bool :=
  has_key e && bytes_eqb (map lower key) (map lower (e_key h e)).

Definition erase_header_value (lit key : bytes) : option bytes :=
  let raw := split_header lit in
  match hp_find (S (length raw)) (length raw) (key_is raw key) raw 0 with
  | FFound e => Some (firstn (keyStart e) lit ++ skipn (valueEnd e) lit)
  | FNone => Some lit
  | _ => None
  end.

(* GetHeaderValue is only used to decide whether the appended message already carries an ID (state/mailbox.go) *)
Definition has_header (lit key : bytes) : option bool :=
  let raw := split_header lit in
  match hp_find (S (length raw)) (length raw) (key_is raw key) raw 0 with
  | FFound _ => Some true
  | FNone => Some false
  | _ => None
  end.
