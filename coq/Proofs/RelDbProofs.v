(* Lemmas for C08: with statement facts that pass `facts_ok`, every chunked operation of the impl level equals the
   spec-level operation on the whole argument list — for every chunk size the facts carry (any positive number)
   and every argument list length. *)
From Coq Require Import String Ascii.
From Coq Require Import List NArith Bool Arith Lia.
From Gluon Require Import Model.Chunks Model.SqlBindFacts Model.RelDb Model.RelDbFacts Proofs.ChunksProofs.
Import ListNotations.
Open Scope list_scope.
Open Scope N_scope.

(* ------------------------------------------------------------------ counts *)
Definition const_other (e : lenenv) : Prop := forall s1 s2, le_other e s1 = le_other e s2.

Definition vprod (e : lenenv) (vs : list lenvar) : nat := fold_right (fun v acc => (lv_val e v * acc)%nat) 1%nat vs.

Lemma lv_sim_val : forall e a b, const_other e -> lv_sim a b = true -> lv_val e a = lv_val e b.
Proof.
  intros e a b Hc H. destruct a, b; cbn in H; try discriminate; cbn [lv_val]; auto.
Qed.

Lemma lvs_sim_prod : forall e a b, const_other e -> lvs_sim a b = true -> vprod e a = vprod e b.
Proof.
  intros e a. induction a as [|x a IH]; intros b Hc H; destruct b as [|y b]; cbn in H; try discriminate; [reflexivity|].
  apply andb_true_iff in H. destruct H as [H1 H2]. cbn [vprod fold_right].
  rewrite (lv_sim_val e x y Hc H1). f_equal. apply IH; assumption.
Qed.

Lemma term_sim_eval : forall e a b, const_other e -> term_sim a b = true -> eval_term e a = eval_term e b.
Proof.
  intros e a b Hc H. unfold term_sim in H. apply andb_true_iff in H. destruct H as [H1 H2].
  apply N.eqb_eq in H1. unfold eval_term. rewrite H1. f_equal. apply (lvs_sim_prod e _ _ Hc H2).
Qed.

Lemma cnt_sim_eval : forall e a b, const_other e -> cnt_sim a b = true -> eval_cnt e a = eval_cnt e b.
Proof.
  intros e a. induction a as [|x a IH]; intros b Hc H; destruct b as [|y b]; cbn in H; try discriminate; [reflexivity|].
  apply andb_true_iff in H. destruct H as [H1 H2]. cbn [eval_cnt fold_right].
  rewrite (term_sim_eval e x y Hc H1). f_equal. apply IH; assumption.
Qed.

Lemma const_other_no : forall a b, const_other (mkEnv a b no_other).
Proof. intros a b s1 s2. reflexivity. Qed.
Lemma const_other_k : forall a b k, const_other (mkEnv a b (fun _ => k)).
Proof. intros a b k s1 s2. reflexivity. Qed.

(* ------------------------------------------------------------------ reading facts_ok *)
Record good (e : expect) (f : stmt_fact) : Prop := mkGood {
  g_src : sf_args_src f = FromChunk;
  g_ph : cnt_sim (sf_ph f) (e_cnt e) = true;
  g_pos : (0 < csize f)%nat;
  g_even_flag : sf_needs_even f = e_even e;
  g_even : e_even e = true -> Nat.even (csize f) = true
}.

Lemma stmt_good_good : forall e f, stmt_good e f = true -> good e f.
Proof.
  intros e f H. unfold stmt_good in H.
  repeat (apply andb_true_iff in H; destruct H as [H ?]).
  constructor.
  - destruct (sf_args_src f); cbn in H; try discriminate; reflexivity.
  - assumption.
  - unfold csize. apply N.ltb_lt in H2. lia.
  - apply Bool.eqb_prop. assumption.
  - intros He. rewrite He in H0. cbn in H0. unfold csize.
    rewrite <- (N2Nat.id (sf_chunk f)) in H0.
    destruct (N.to_nat (sf_chunk f)) eqn:E; [reflexivity|].
    rewrite Nat.even_spec. rewrite N.even_spec in H0. destruct H0 as [k Hk].
    exists (N.to_nat k). lia.
Qed.

Lemma facts_ok_find : forall F e, facts_ok F = true -> In e expected ->
  exists f, find_stmt (e_op e) (e_idx e) F = Some f /\ good e f.
Proof.
  intros F e H Hin. unfold facts_ok in H. rewrite forallb_forall in H. specialize (H e Hin).
  unfold fact_ok1 in H. destruct (find_stmt (e_op e) (e_idx e) F) as [f|]; [|discriminate].
  exists f. split; [reflexivity | apply stmt_good_good; exact H].
Qed.

(* ------------------------------------------------------------------ bind arguments *)
Lemma bind_exact : forall n args, length args = n -> bind_args n args = Some args.
Proof.
  intros n args H. unfold bind_args. subst n. rewrite Nat.ltb_irrefl. rewrite firstn_all. reflexivity.
Qed.

Lemma msgs_of_map : forall l, msgs_of (map VMsg l) = l.
Proof. induction l as [|a t IH]; [reflexivity|]. cbn. f_equal. exact IH. Qed.

Lemma msgs_of_app : forall a b, msgs_of (a ++ b) = msgs_of a ++ msgs_of b.
Proof. intros. unfold msgs_of. apply flat_map_app. Qed.

Lemma flags_of_vals_map : forall l, flags_of_vals (map VFlag l) = l.
Proof. induction l as [|a t IH]; [reflexivity|]. cbn. f_equal. exact IH. Qed.

Lemma pairs_of_flat : forall {X A B} (pa : val -> option A) (pb : val -> option B) (va vb : X -> val) (fa : X -> A) (fb : X -> B),
  (forall x, pa (va x) = Some (fa x)) -> (forall x, pb (vb x) = Some (fb x)) ->
  forall l, pairs_of pa pb (flat_map (fun x => [va x; vb x]) l) = Some (map (fun x => (fa x, fb x)) l).
Proof.
  intros X A B pa pb va vb fa fb Ha Hb. induction l as [|x t IH]; [reflexivity|].
  cbn [flat_map app pairs_of]. rewrite Ha, Hb, IH. reflexivity.
Qed.

Lemma flat_pair_length : forall {X} (g : X -> list val) (l : list X) k, (forall x, length (g x) = k) ->
  length (flat_map g l) = (k * length l)%nat.
Proof.
  intros X g l k H. induction l as [|x t IH]; cbn [flat_map length]; [lia|].
  rewrite app_length, H, IH. lia.
Qed.

(* ------------------------------------------------------------------ foldM helpers *)
Lemma foldM_ext : forall {S A} (f g : A -> S -> option S) l s, (forall a s, f a s = g a s) -> foldM f l s = foldM g l s.
Proof.
  intros S A f g l. induction l as [|a t IH]; intros s H; [reflexivity|]. cbn [foldM]. rewrite H.
  destruct (g a s); [apply IH; exact H | reflexivity].
Qed.

(* ------------------------------------------------------------------ the per-mailbox table combinator *)
Lemma find_tab_box : forall b ts t, find_tab b ts = Some t -> t_box t = b.
Proof.
  intros b ts t H. unfold find_tab in H. apply find_some in H. destruct H as [_ H]. apply N.eqb_eq. exact H.
Qed.

Lemma find_put_same : forall b ts t t', find_tab b ts = Some t -> t_box t' = b -> find_tab b (put_tab t' ts) = Some t'.
Proof.
  intros b ts t t' H Hb. subst b. revert t H.
  induction ts as [|x ts IH]; intros t H; [discriminate|].
  unfold find_tab in *. cbn [put_tab map find] in *.
  destruct (N.eqb (t_box x) (t_box t')) eqn:E.
  - rewrite N.eqb_refl. reflexivity.
  - rewrite E. apply (IH t H).
Qed.

Lemma put_put : forall t1 t2 ts, t_box t1 = t_box t2 -> put_tab t2 (put_tab t1 ts) = put_tab t2 ts.
Proof.
  intros t1 t2 ts Hb. unfold put_tab. rewrite map_map. apply map_ext. intros x. rewrite Hb.
  destruct (N.eqb (t_box x) (t_box t2)) eqn:E; [rewrite Hb, N.eqb_refl; reflexivity | rewrite E; reflexivity].
Qed.

Definition keeps_box (f : mtab -> option mtab) : Prop := forall t t', f t = Some t' -> t_box t' = t_box t.

Lemma upd_tab_seq : forall b f g d, keeps_box f -> keeps_box g ->
  obind (upd_tab b f d) (fun d' => upd_tab b g d') = upd_tab b (fun t => obind (f t) g) d.
Proof.
  intros b f g d Hk Hg. unfold upd_tab.
  destruct (find_tab b (d_tabs d)) as [t|] eqn:E; [|reflexivity].
  destruct (f t) as [t'|] eqn:Ef; cbn [obind]; [|reflexivity].
  assert (Hb : t_box t' = b). { rewrite (Hk _ _ Ef). apply (find_tab_box _ _ _ E). }
  cbn [d_tabs set_tabs]. rewrite (find_put_same b (d_tabs d) t t' E Hb).
  destruct (g t') as [t''|] eqn:Eg; [|reflexivity].
  f_equal. unfold set_tabs. cbn. f_equal. apply put_put. symmetry. apply (Hg _ _ Eg).
Qed.

(* ------------------------------------------------------------------ list lemmas *)
Lemma filter_true : forall {A} (l : list A), filter (fun _ => true) l = l.
Proof. induction l as [|a t IH]; [reflexivity|]. cbn. f_equal. exact IH. Qed.

Lemma nmem_app : forall x a b, nmem x (a ++ b) = nmem x a || nmem x b.
Proof. intros. unfold nmem. apply existsb_app. Qed.

Lemma filter_split : forall {A} (p q r : A -> bool) l, (forall x, p x = q x && r x) ->
  filter p l = filter r (filter q l).
Proof.
  intros A p q r l H. induction l as [|a t IH]; [reflexivity|]. cbn [filter]. rewrite H.
  destruct (q a); cbn [andb filter]; [destruct (r a); [f_equal|]; exact IH | exact IH].
Qed.

Lemma filter_ext_true : forall {A} (p : A -> bool) l, (forall x, p x = true) -> filter p l = l.
Proof. intros A p l H. induction l as [|a t IH]; [reflexivity|]. cbn. rewrite H. f_equal. exact IH. Qed.

Lemma map_ext_id : forall {A} (f : A -> A) l, (forall x, f x = x) -> map f l = l.
Proof. intros A f l H. induction l as [|a t IH]; [reflexivity|]. cbn. rewrite H. f_equal. exact IH. Qed.

Lemma db_eta_m2m : forall d, set_m2m d (d_m2m d) = d. Proof. destruct d; reflexivity. Qed.
Lemma db_eta_tabs : forall d, set_tabs d (d_tabs d) = d. Proof. destruct d; reflexivity. Qed.
Lemma db_eta_flags : forall d, set_flags d (d_flags d) = d. Proof. destruct d; reflexivity. Qed.
Lemma db_eta_msgs : forall d, set_msgs d (d_msgs d) = d. Proof. destruct d; reflexivity. Qed.

Lemma keeps_some : forall h : mtab -> mtab, (forall t, t_box (h t) = t_box t) -> keeps_box (fun t => Some (h t)).
Proof. intros h H t t' E. inversion E. apply H. Qed.

(* ================================================================== RemoveMessagesFromMailbox *)
Lemma tab_del_nil : forall t, tab_del [] t = t.
Proof. intros [b s rows]. unfold tab_del. cbn. f_equal. apply filter_true. Qed.

Lemma tab_del_app : forall a c t, tab_del (a ++ c) t = tab_del c (tab_del a t).
Proof.
  intros a c [b s rows]. unfold tab_del. cbn. f_equal.
  apply (del_in_app r_msg nmem nmem_app).
Qed.

Lemma tab_del_rows_hom : forall b, stmt_hom (tab_del_rows b).
Proof.
  intros b. split; [reflexivity|].
  intros a c s. destruct a as [|x a]; [reflexivity|].
  destruct c as [|y c].
  - rewrite app_nil_r. destruct (tab_del_rows b (x :: a) s); reflexivity.
  - change ((x :: a) ++ y :: c) with (x :: (a ++ y :: c)).
    change (tab_del_rows b (y :: c)) with (fun d' => upd_tab b (fun t => Some (tab_del (y :: c) t)) d').
    cbn [tab_del_rows].
    rewrite (upd_tab_seq b (fun t => Some (tab_del (x :: a) t)) (fun t => Some (tab_del (y :: c) t)) s)
      by (apply keeps_some; intros []; reflexivity).
    cbn [obind]. unfold upd_tab. destruct (find_tab b (d_tabs s)); [|reflexivity].
    change (x :: a ++ y :: c) with ((x :: a) ++ y :: c). rewrite tab_del_app. reflexivity.
Qed.

Lemma m2m_del_hom : forall b, stmt_hom (fun c d => Some (m2m_del_rows b c d)).
Proof.
  intros b. split.
  - intros s. unfold m2m_del_rows. cbn. rewrite filter_true. rewrite db_eta_m2m. reflexivity.
  - intros a c s. cbn [obind]. f_equal. unfold m2m_del_rows. destruct s. unfold set_m2m. cbn. f_equal.
    apply filter_split. intros p. rewrite nmem_app.
    destruct (nmem (fst p) a), (nmem (fst p) c), (N.eqb (snd p) b); reflexivity.
Qed.

Lemma rm_commute : forall b a c s,
  obind (Some (m2m_del_rows b a s)) (tab_del_rows b c) = obind (tab_del_rows b c s) (fun d => Some (m2m_del_rows b a d)).
Proof.
  intros b a c s. cbn [obind]. destruct c as [|y c]; [reflexivity|].
  cbn [tab_del_rows]. unfold upd_tab. cbn [d_tabs m2m_del_rows set_m2m].
  destruct (find_tab b (d_tabs s)); reflexivity.
Qed.

Definition g_rm (b : N) (c : list N) (d : db) : option db :=
  obind (tab_del_rows b c d) (fun d' => Some (m2m_del_rows b c d')).

Lemma g_rm_hom : forall b, stmt_hom (g_rm b).
Proof.
  intros b. apply (seq_hom (tab_del_rows b) (fun c d => Some (m2m_del_rows b c d))).
  - apply tab_del_rows_hom.
  - apply m2m_del_hom.
  - intros a c s. apply rm_commute.
Qed.

Ltac get_fact F H op idx e :=
  let Hin := fresh "Hin" in
  assert (Hin : In e expected) by (cbv [expected]; repeat (first [left; reflexivity | right]));
  destruct (facts_ok_find F e H Hin) as [?f [?Hf ?G]]; clear Hin.

Lemma eval_c1 : forall e, eval_cnt e c1 = le_chunk e.
Proof. intros e. cbn. lia. Qed.
Lemma eval_c1p1 : forall e, eval_cnt e c1p1 = S (le_chunk e).
Proof. intros e. cbn. lia. Qed.
Lemma eval_c2 : forall e, eval_cnt e c2 = (2 * le_chunk e)%nat.
Proof. intros e. cbn. lia. Qed.

Lemma im_rm_stmt0_ok : forall f b chunk whole d, good (mkExpect "RemoveMessagesFromMailbox" 0 c1 false) f ->
  im_rm_stmt0 f b chunk whole d = tab_del_rows b chunk d.
Proof.
  intros f b chunk whole d G. unfold im_rm_stmt0. rewrite (g_src _ _ G). cbn [pick].
  rewrite (cnt_sim_eval _ _ _ (const_other_no _ _) (g_ph _ _ G)). cbn [e_cnt]. rewrite eval_c1. cbn [le_chunk].
  rewrite bind_exact by (rewrite map_length; reflexivity). rewrite msgs_of_map. reflexivity.
Qed.

Lemma im_rm_stmt1_ok : forall f b chunk whole d, good (mkExpect "RemoveMessagesFromMailbox" 1 c1p1 false) f ->
  im_rm_stmt1 f b chunk whole d = Some (m2m_del_rows b chunk d).
Proof.
  intros f b chunk whole d G. unfold im_rm_stmt1. rewrite (g_src _ _ G). cbn [pick].
  rewrite (cnt_sim_eval _ _ _ (const_other_no _ _) (g_ph _ _ G)). cbn [e_cnt]. rewrite eval_c1p1. cbn [le_chunk].
  rewrite bind_exact by (rewrite app_length, map_length; cbn; lia).
  rewrite rev_app_distr. cbn [rev app]. rewrite rev_involutive, msgs_of_map. reflexivity.
Qed.

Theorem remove_messages_refines : forall F ci b ids d, facts_ok F = true ->
  exec_impl F ci (ORemoveMessages b ids) d = exec_spec ci (ORemoveMessages b ids) d.
Proof.
  intros F ci b ids d H. cbn [exec_impl exec_spec]. unfold im_remove_messages, sp_remove_messages.
  get_fact F H "RemoveMessagesFromMailbox" 0%nat (mkExpect "RemoveMessagesFromMailbox" 0 c1 false).
  get_fact F H "RemoveMessagesFromMailbox" 1%nat (mkExpect "RemoveMessagesFromMailbox" 1 c1p1 false).
  cbn [e_op e_idx] in Hf, Hf0. rewrite Hf, Hf0. f_equal.
  rewrite (foldM_ext _ (g_rm b)).
  - rewrite (chunked_stmt_eq (g_rm b) (g_rm_hom b)) by (apply (g_pos _ _ G)). reflexivity.
  - intros c s. rewrite (im_rm_stmt0_ok _ _ _ _ _ G). unfold g_rm.
    destruct (tab_del_rows b c s); cbn [obind]; [apply (im_rm_stmt1_ok _ _ _ _ _ G0) | reflexivity].
Qed.

(* ================================================================== SetMailboxMessagesDeletedFlag *)
Lemma tab_setdel_app : forall v a c t, tab_setdel v (a ++ c) t = tab_setdel v c (tab_setdel v a t).
Proof.
  intros v a c [b s rows]. unfold tab_setdel. cbn. f_equal.
  apply (upd_in_app r_msg nmem nmem_app (fun x => mkRow (r_uid x) (r_msg x) (r_remote x) v (r_recent x))).
  - intros []; reflexivity.
  - intros []; reflexivity.
Qed.

Lemma tab_set_deleted_hom : forall b v, stmt_hom (tab_set_deleted b v).
Proof.
  intros b v. split; [reflexivity|].
  intros a c s. destruct a as [|x a]; [reflexivity|].
  destruct c as [|y c].
  - rewrite app_nil_r. destruct (tab_set_deleted b v (x :: a) s); reflexivity.
  - change ((x :: a) ++ y :: c) with (x :: (a ++ y :: c)).
    change (tab_set_deleted b v (y :: c)) with (fun d' => upd_tab b (fun t => Some (tab_setdel v (y :: c) t)) d').
    cbn [tab_set_deleted].
    rewrite (upd_tab_seq b (fun t => Some (tab_setdel v (x :: a) t)) (fun t => Some (tab_setdel v (y :: c) t)) s)
      by (apply keeps_some; intros []; reflexivity).
    cbn [obind]. unfold upd_tab. destruct (find_tab b (d_tabs s)); [|reflexivity].
    change (x :: a ++ y :: c) with ((x :: a) ++ y :: c). rewrite tab_setdel_app. reflexivity.
Qed.

Lemma im_setdel_stmt_ok : forall f b v chunk whole d, good (mkExpect "SetMailboxMessagesDeletedFlag" 0 c1p1 false) f ->
  im_setdel_stmt f b v chunk whole d = tab_set_deleted b v chunk d.
Proof.
  intros f b v chunk whole d G. unfold im_setdel_stmt. rewrite (g_src _ _ G). cbn [pick].
  rewrite (cnt_sim_eval _ _ _ (const_other_no _ _) (g_ph _ _ G)). cbn [e_cnt]. rewrite eval_c1p1. cbn [le_chunk].
  rewrite bind_exact by (cbn [length]; rewrite map_length; reflexivity). rewrite msgs_of_map. reflexivity.
Qed.

Theorem set_deleted_refines : forall F ci b ids v d, facts_ok F = true ->
  exec_impl F ci (OSetDeleted b ids v) d = exec_spec ci (OSetDeleted b ids v) d.
Proof.
  intros F ci b ids v d H. cbn [exec_impl exec_spec]. unfold im_set_deleted, sp_set_deleted.
  get_fact F H "SetMailboxMessagesDeletedFlag" 0%nat (mkExpect "SetMailboxMessagesDeletedFlag" 0 c1p1 false).
  cbn [e_op e_idx] in Hf. rewrite Hf. f_equal.
  rewrite (foldM_ext _ (tab_set_deleted b v)).
  - apply (chunked_stmt_eq _ (tab_set_deleted_hom b v)). apply (g_pos _ _ G).
  - intros c s. apply (im_setdel_stmt_ok _ _ _ _ _ _ G).
Qed.

(* ================================================================== statements  ... IN (ids)  *)
Lemma im_in_stmt_ok : forall op f g chunk whole d, good (mkExpect op 0 c1 false) f ->
  im_in_stmt f g chunk whole d = g chunk d.
Proof.
  intros op f g chunk whole d G. unfold im_in_stmt. rewrite (g_src _ _ G). cbn [pick].
  rewrite (cnt_sim_eval _ _ _ (const_other_no _ _) (g_ph _ _ G)). cbn [e_cnt]. rewrite eval_c1. cbn [le_chunk].
  rewrite bind_exact by (rewrite map_length; reflexivity). rewrite msgs_of_map. reflexivity.
Qed.

(* ---- DeleteMessages *)
Lemma existsb_orb : forall {A} (p q : A -> bool) l, existsb (fun x => p x || q x) l = existsb p l || existsb q l.
Proof.
  intros A p q l. induction l as [|a t IH]; [reflexivity|]. cbn [existsb]. rewrite IH.
  destruct (p a), (q a), (existsb p t), (existsb q t); reflexivity.
Qed.

Definition refd (ids : list N) (d : db) : bool := existsb (fun t => existsb (fun x => nmem (r_msg x) ids) (t_rows t)) (d_tabs d).

Lemma refd_app : forall a c d, refd (a ++ c) d = refd a d || refd c d.
Proof.
  intros a c d. unfold refd. rewrite <- existsb_orb. induction (d_tabs d) as [|t ts IH]; [reflexivity|].
  cbn [existsb]. rewrite IH. f_equal. rewrite <- existsb_orb.
  induction (t_rows t) as [|x xs IHx]; [reflexivity|]. cbn [existsb]. rewrite IHx, nmem_app. reflexivity.
Qed.

Lemma msgs_del_hom : stmt_hom msgs_del.
Proof.
  split.
  - intros s. unfold msgs_del. cbn [nmem existsb].
    replace (existsb (fun t => existsb (fun _ => false) (t_rows t)) (d_tabs s)) with false.
    + destruct s. cbn. rewrite !filter_true. reflexivity.
    + induction (d_tabs s) as [|t ts IH]; [reflexivity|]. cbn [existsb]. rewrite <- IH.
      induction (t_rows t) as [|x xs IHx]; [reflexivity|]. cbn. exact IHx.
  - intros a c s. unfold msgs_del. fold (refd (a ++ c) s). fold (refd a s). rewrite refd_app.
    destruct (refd a s) eqn:Ea; cbn [orb obind]; [reflexivity|].
    fold (refd c (mkDb (d_mboxes s) (d_mbox_seq s) (d_bflags s) (d_bpflags s) (d_battrs s)
               (filter (fun x => negb (nmem (mg_id x) a)) (d_msgs s))
               (filter (fun p => negb (nmem (fst p) a)) (d_flags s))
               (filter (fun p => negb (nmem (fst p) a)) (d_m2m s))
               (d_tabs s) (d_subs s) (d_settings s))).
    unfold refd at 2. cbn [d_tabs]. fold (refd c s).
    destruct (refd c s); [reflexivity|]. cbn. f_equal. f_equal.
    + apply filter_split. intros x. rewrite nmem_app. destruct (nmem (mg_id x) a), (nmem (mg_id x) c); reflexivity.
    + apply filter_split. intros x. rewrite nmem_app. destruct (nmem (fst x) a), (nmem (fst x) c); reflexivity.
    + apply filter_split. intros x. rewrite nmem_app. destruct (nmem (fst x) a), (nmem (fst x) c); reflexivity.
Qed.

Theorem delete_messages_refines : forall F ci ids d, facts_ok F = true ->
  exec_impl F ci (ODeleteMessages ids) d = exec_spec ci (ODeleteMessages ids) d.
Proof.
  intros F ci ids d H. cbn [exec_impl exec_spec]. unfold im_delete_messages, sp_delete_messages.
  get_fact F H "DeleteMessages" 0%nat (mkExpect "DeleteMessages" 0 c1 false).
  cbn [e_op e_idx] in Hf. rewrite Hf. f_equal.
  rewrite (foldM_ext _ msgs_del).
  - apply (chunked_stmt_eq _ msgs_del_hom). apply (g_pos _ _ G).
  - intros c s. apply (im_in_stmt_ok _ _ _ _ _ _ G).
Qed.

(* ---- RemoveFlagFromMessages *)
Lemma flags_remove_hom : forall ci fl, stmt_hom (fun c d => Some (flags_remove ci fl c d)).
Proof.
  intros ci fl. split.
  - intros s. unfold flags_remove. cbn. rewrite filter_true, db_eta_flags. reflexivity.
  - intros a c s. cbn [obind]. f_equal. unfold flags_remove. destruct s. unfold set_flags. cbn. f_equal.
    apply filter_split. intros p. rewrite nmem_app.
    destruct (nmem (fst p) a), (nmem (fst p) c), (if ci then flag_eqb_ci (snd p) fl else flag_eqb (snd p) fl); reflexivity.
Qed.

Lemma im_rmflag_stmt_ok : forall f ci fl chunk whole d, good (mkExpect "RemoveFlagFromMessages" 0 c1p1 false) f ->
  im_rmflag_stmt f ci fl chunk whole d = Some (flags_remove ci fl chunk d).
Proof.
  intros f ci fl chunk whole d G. unfold im_rmflag_stmt. rewrite (g_src _ _ G). cbn [pick].
  rewrite (cnt_sim_eval _ _ _ (const_other_no _ _) (g_ph _ _ G)). cbn [e_cnt]. rewrite eval_c1p1. cbn [le_chunk].
  rewrite bind_exact by (rewrite app_length, map_length; cbn; lia).
  rewrite rev_app_distr. cbn [rev app]. rewrite rev_involutive, msgs_of_map. reflexivity.
Qed.

Theorem remove_flag_refines : forall F ci ids fl d, facts_ok F = true ->
  exec_impl F ci (ORemoveFlag ids fl) d = exec_spec ci (ORemoveFlag ids fl) d.
Proof.
  intros F ci ids fl d H. cbn [exec_impl exec_spec]. unfold im_remove_flag, sp_remove_flag.
  get_fact F H "RemoveFlagFromMessages" 0%nat (mkExpect "RemoveFlagFromMessages" 0 c1p1 false).
  cbn [e_op e_idx] in Hf. rewrite Hf.
  rewrite (foldM_ext _ (fun c d => Some (flags_remove ci fl c d))).
  - rewrite (chunked_stmt_eq _ (flags_remove_hom ci fl)) by (apply (g_pos _ _ G)). reflexivity.
  - intros c s. apply (im_rmflag_stmt_ok _ _ _ _ _ _ G).
Qed.

(* ---- AddFlagToMessages *)
Lemma foldM_map : forall {S A B} (f : B -> S -> option S) (h : A -> B) l s,
  foldM f (map h l) s = foldM (fun x => f (h x)) l s.
Proof.
  intros S A B f h l. induction l as [|a t IH]; intros s; [reflexivity|]. cbn [map foldM].
  destruct (f (h a) s); [apply IH | reflexivity].
Qed.

Lemma flag_ins_ignore1_frame : forall d l p, flag_ins_ignore1 (set_flags d l) p = flag_ins_ignore1 d p.
Proof. reflexivity. Qed.

Lemma flags_add_hom : forall fl, stmt_hom (flags_add fl).
Proof.
  intros fl. split.
  - intros s. unfold flags_add. cbn [foldM]. rewrite db_eta_flags. reflexivity.
  - intros a c s. unfold flags_add. rewrite foldM_app.
    destruct (foldM (fun m l => flag_ins_ignore1 s (m, fl) l) a (d_flags s)) as [l|]; cbn [obind]; [|reflexivity].
    reflexivity.
Qed.

Lemma im_addflag_stmt_ok : forall f fl chunk whole d, good (mkExpect "AddFlagToMessages" 0 c2 false) f ->
  im_addflag_stmt f fl chunk whole d = flags_add fl chunk d.
Proof.
  intros f fl chunk whole d G. unfold im_addflag_stmt. rewrite (g_src _ _ G). cbn [pick].
  rewrite (cnt_sim_eval _ _ _ (const_other_no _ _) (g_ph _ _ G)). cbn [e_cnt]. rewrite eval_c2. cbn [le_chunk].
  rewrite bind_exact by (apply (flat_pair_length (fun m => [VMsg m; VFlag fl]) chunk 2); reflexivity).
  rewrite (pairs_of_flat as_msg as_flag VMsg (fun _ => VFlag fl) (fun m => m) (fun _ => fl)) by reflexivity.
  rewrite foldM_map. reflexivity.
Qed.

Theorem add_flag_refines : forall F ci ids fl d, facts_ok F = true ->
  exec_impl F ci (OAddFlag ids fl) d = exec_spec ci (OAddFlag ids fl) d.
Proof.
  intros F ci ids fl d H. cbn [exec_impl exec_spec]. unfold im_add_flag, sp_add_flag.
  get_fact F H "AddFlagToMessages" 0%nat (mkExpect "AddFlagToMessages" 0 c2 false).
  cbn [e_op e_idx] in Hf. rewrite Hf. f_equal.
  rewrite (foldM_ext _ (flags_add fl)).
  - apply (chunked_stmt_eq _ (flags_add_hom fl)). apply (g_pos _ _ G).
  - intros c s. apply (im_addflag_stmt_ok _ _ _ _ _ G).
Qed.

(* ================================================================== SetFlagsOnMessages *)
Lemma flags_clear_hom : stmt_hom flags_clear.
Proof.
  split.
  - intros s. unfold flags_clear. cbn. rewrite filter_true, db_eta_flags. reflexivity.
  - intros a c s. unfold flags_clear. cbn [obind]. f_equal. destruct s. unfold set_flags. cbn. f_equal.
    apply filter_split. intros p. rewrite nmem_app. destruct (nmem (fst p) a), (nmem (fst p) c); reflexivity.
Qed.

Lemma flags_del_notin_hom : forall fs, stmt_hom (fun c d => Some (flags_del_notin fs c d)).
Proof.
  intros fs. split.
  - intros s. unfold flags_del_notin. cbn. rewrite filter_true, db_eta_flags. reflexivity.
  - intros a c s. cbn [obind]. f_equal. unfold flags_del_notin. destruct s. unfold set_flags. cbn. f_equal.
    apply filter_split. intros p. rewrite nmem_app.
    destruct (nmem (fst p) a), (nmem (fst p) c), (fmem (snd p) fs); reflexivity.
Qed.

Definition cross (fs : list flag) (ids : list N) : list (N * flag) := flat_map (fun m => map (fun f => (m, f)) fs) ids.

Lemma flags_ins_cross_hom : forall fs, stmt_hom (flags_ins_cross fs).
Proof.
  intros fs. split.
  - intros s. unfold flags_ins_cross. cbn [flat_map foldM]. rewrite db_eta_flags. reflexivity.
  - intros a c s. unfold flags_ins_cross. rewrite flat_map_app, foldM_app.
    destruct (foldM (flag_ins_ignore1 s) (flat_map (fun m => map (fun f => (m, f)) fs) a) (d_flags s)) as [l|];
      cbn [obind]; reflexivity.
Qed.

Lemma existsb_filter_same : forall {A} (q P : A -> bool) l, (forall x, q x = true -> P x = true) ->
  existsb q (filter P l) = existsb q l.
Proof.
  intros A q P l H. induction l as [|a t IH]; [reflexivity|]. cbn [filter existsb].
  destruct (P a) eqn:EP; cbn [existsb]; [rewrite IH; reflexivity|].
  destruct (q a) eqn:Eq; [rewrite (H a Eq) in EP; discriminate | cbn; exact IH].
Qed.

Lemma fmem_refl_in : forall f fs, In f fs -> fmem f fs = true.
Proof.
  intros f fs H. unfold fmem. apply existsb_exists. exists f. split; [exact H | apply String.eqb_refl].
Qed.

Lemma ins_filter_commute : forall s (P : N * flag -> bool) X l,
  (forall p, In p X -> forall q, N.eqb (fst q) (fst p) && flag_eqb (snd q) (snd p) = true -> P q = true) ->
  (forall p, In p X -> P p = true) ->
  foldM (flag_ins_ignore1 s) X (filter P l) = option_map (filter P) (foldM (flag_ins_ignore1 s) X l).
Proof.
  intros s P X. induction X as [|p X IH]; intros l H1 H2; [reflexivity|].
  cbn [foldM]. unfold flag_ins_ignore1 at 1 3.
  destruct (negb (msg_exists (fst p) s)); [reflexivity|].
  unfold fl_has. rewrite existsb_filter_same by (intros q Hq; apply (H1 p (or_introl eq_refl) q Hq)).
  destruct (existsb (fun q => N.eqb (fst q) (fst p) && flag_eqb (snd q) (snd p)) l).
  - apply IH; intros; [eapply H1; [right; eassumption | assumption] | apply H2; right; assumption].
  - replace (filter P l ++ [p]) with (filter P (l ++ [p])).
    + apply IH; intros; [eapply H1; [right; eassumption | assumption] | apply H2; right; assumption].
    + rewrite filter_app. cbn [filter]. rewrite (H2 p (or_introl eq_refl)). reflexivity.
Qed.

Lemma setflags_commute : forall fs a c s,
  obind (flags_ins_cross fs a s) (fun d => Some (flags_del_notin fs c d))
  = obind (Some (flags_del_notin fs c s)) (flags_ins_cross fs a).
Proof.
  intros fs a c s. cbn [obind]. unfold flags_ins_cross, flags_del_notin. cbn [d_flags set_flags].
  match goal with |- context [foldM ?f ?X (filter ?P (d_flags s))] =>
    change (foldM f X (filter P (d_flags s))) with (foldM (flag_ins_ignore1 s) X (filter P (d_flags s)));
    rewrite (ins_filter_commute s P X (d_flags s)) end.
  - destruct (foldM (flag_ins_ignore1 s) (flat_map (fun m => map (fun f => (m, f)) fs) a) (d_flags s)); reflexivity.
  - intros p Hp q Hq. apply in_flat_map in Hp. destruct Hp as [m [_ Hp]]. apply in_map_iff in Hp.
    destruct Hp as [f [Hp Hf]]. subst p. cbn [fst snd] in Hq. apply andb_true_iff in Hq. destruct Hq as [_ Hq].
    apply String.eqb_eq in Hq. rewrite Hq, (fmem_refl_in f fs Hf). destruct (nmem (fst q) c); reflexivity.
  - intros p Hp. apply in_flat_map in Hp. destruct Hp as [m [_ Hp]]. apply in_map_iff in Hp.
    destruct Hp as [f [Hp Hf]]. subst p. cbn [fst snd]. rewrite (fmem_refl_in f fs Hf). destruct (nmem m c); reflexivity.
Qed.

Definition g_sf (fs : list flag) (c : list N) (d : db) : option db :=
  obind (Some (flags_del_notin fs c d)) (flags_ins_cross fs c).

Lemma g_sf_hom : forall fs, stmt_hom (g_sf fs).
Proof.
  intros fs. apply (seq_hom (fun c d => Some (flags_del_notin fs c d)) (flags_ins_cross fs)).
  - apply flags_del_notin_hom.
  - apply flags_ins_cross_hom.
  - intros a c s. apply setflags_commute.
Qed.

Definition c_sf1 : cnt := [mkTerm 1 [VChunk]; mkTerm 1 [VOther "flagSlice"%string]].
Definition c_sf2 : cnt := [mkTerm 2 [VChunk; VOther "flagSlice"%string]].

Lemma im_setflags_del_ok : forall f fs chunk whole d, good (mkExpect "SetFlagsOnMessages" 1 c_sf1 false) f ->
  im_setflags_del f fs chunk whole d = Some (flags_del_notin fs chunk d).
Proof.
  intros f fs chunk whole d G. unfold im_setflags_del. rewrite (g_src _ _ G). cbn [pick].
  rewrite (cnt_sim_eval _ _ _ (const_other_k _ _ _) (g_ph _ _ G)). cbn [e_cnt].
  replace (eval_cnt (mkEnv (length chunk) (length whole) (fun _ => length fs)) c_sf1) with (length chunk + length fs)%nat
    by (cbn; lia).
  rewrite bind_exact by (rewrite app_length, !map_length; reflexivity).
  rewrite <- (map_length VMsg chunk) at 1 2.
  rewrite firstn_app, Nat.sub_diag, firstn_all, firstn_O, app_nil_r.
  rewrite skipn_app, Nat.sub_diag, skipn_all, skipn_O. cbn [app].
  rewrite msgs_of_map, flags_of_vals_map. reflexivity.
Qed.

Lemma flat_cross : forall fs chunk,
  flat_map (fun m => flat_map (fun fl => [VMsg m; VFlag fl]) fs) chunk
  = flat_map (fun p => [VMsg (fst p); VFlag (snd p)]) (cross fs chunk).
Proof.
  intros fs chunk. unfold cross. induction chunk as [|m t IH]; [reflexivity|].
  cbn [flat_map]. rewrite flat_map_app, IH. f_equal. clear IH.
  induction fs as [|f fs IHf]; [reflexivity|]. cbn [flat_map map app fst snd]. f_equal. f_equal. exact IHf.
Qed.

Lemma cross_length : forall fs chunk, length (cross fs chunk) = (length chunk * length fs)%nat.
Proof.
  intros fs chunk. unfold cross. induction chunk as [|m t IH]; [reflexivity|].
  cbn [flat_map length]. rewrite app_length, map_length, IH. lia.
Qed.

Lemma im_setflags_ins_ok : forall f fs chunk whole d, good (mkExpect "SetFlagsOnMessages" 2 c_sf2 false) f ->
  im_setflags_ins f fs chunk whole d = flags_ins_cross fs chunk d.
Proof.
  intros f fs chunk whole d G. unfold im_setflags_ins. rewrite (g_src _ _ G). cbn [pick].
  rewrite (cnt_sim_eval _ _ _ (const_other_k _ _ _) (g_ph _ _ G)). cbn [e_cnt].
  replace (eval_cnt (mkEnv (length chunk) (length whole) (fun _ => length fs)) c_sf2) with (2 * (length chunk * length fs))%nat
    by (cbn; lia).
  rewrite flat_cross.
  rewrite bind_exact by (rewrite (flat_pair_length (fun p => [VMsg (fst p); VFlag (snd p)]) (cross fs chunk) 2) by reflexivity;
                         rewrite cross_length; reflexivity).
  rewrite (pairs_of_flat as_msg as_flag (fun p => VMsg (fst p)) (fun p => VFlag (snd p)) fst snd) by reflexivity.
  rewrite (map_ext_id (fun x : N * flag => (fst x, snd x))) by (intros []; reflexivity).
  reflexivity.
Qed.

Theorem set_flags_refines : forall F ci ids fs d, facts_ok F = true ->
  exec_impl F ci (OSetFlags ids fs) d = exec_spec ci (OSetFlags ids fs) d.
Proof.
  intros F ci ids fs d H. cbn [exec_impl exec_spec]. unfold im_set_flags, sp_set_flags.
  destruct fs as [|f0 fs].
  - get_fact F H "SetFlagsOnMessages" 0%nat (mkExpect "SetFlagsOnMessages" 0 c1 false).
    cbn [e_op e_idx] in Hf. rewrite Hf. f_equal.
    rewrite (foldM_ext _ flags_clear).
    + apply (chunked_stmt_eq _ flags_clear_hom). apply (g_pos _ _ G).
    + intros c s. apply (im_in_stmt_ok _ _ _ _ _ _ G).
  - get_fact F H "SetFlagsOnMessages" 1%nat (mkExpect "SetFlagsOnMessages" 1 c_sf1 false).
    get_fact F H "SetFlagsOnMessages" 2%nat (mkExpect "SetFlagsOnMessages" 2 c_sf2 false).
    cbn [e_op e_idx] in Hf, Hf0. rewrite Hf, Hf0. f_equal.
    rewrite (foldM_ext _ (g_sf (f0 :: fs))).
    + rewrite (chunked_stmt_eq _ (g_sf_hom (f0 :: fs))) by (apply (g_pos _ _ G)). reflexivity.
    + intros c s. rewrite (im_setflags_del_ok _ _ _ _ _ G). unfold g_sf. cbn [obind].
      apply (im_setflags_ins_ok _ _ _ _ _ G0).
Qed.

(* ================================================================== results up to the order of unordered lists *)
Definition rval_equiv (a b : rval) : Prop :=
  match a, b with
  | RSnap x, RSnap y => forall r, In r x <-> In r y
  | RNums x, RNums y => forall r, In r x <-> In r y
  | RMsgFlags x, RMsgFlags y => forall r, In r x <-> In r y
  | _, _ => a = b
  end.

Definition result_equiv (a b : result) : Prop :=
  match a, b with
  | Ok d1 r1, Ok d2 r2 => d1 = d2 /\ rval_equiv r1 r2
  | Fail e1, Fail e2 => e1 = e2
  | _, _ => False
  end.

Lemma rval_equiv_refl : forall r, rval_equiv r r.
Proof. intros []; cbn; try reflexivity; intros; tauto. Qed.

Lemma result_equiv_refl : forall r, result_equiv r r.
Proof. intros [d r|e]; cbn; [split; [reflexivity | apply rval_equiv_refl] | reflexivity]. Qed.

Lemma result_equiv_eq : forall a b, a = b -> result_equiv a b.
Proof. intros a b H. subst. apply result_equiv_refl. Qed.

(* ================================================================== chunked SELECT ... WHERE key IN (...) *)
Definition gsel {R X} (src : option (list R)) (key : R -> N) (h : R -> X) (c : list N) : option (list X) :=
  match src with
  | None => match c with [] => Some [] | _ => None end
  | Some rows => Some (map h (filter (fun x => nmem (key x) c) rows))
  end.

Definition sel_fold {X} (sel : list N -> option (list X)) (ls : list (list N)) : option (list X) :=
  fold_right (fun chunk acc => match acc with
                               | Some r => match sel chunk with Some x => Some (x ++ r) | None => None end
                               | None => None
                               end) (Some []) ls.

Lemma im_in_select_simpl : forall {X} op f (sel : list N -> option (list X)) ids, good (mkExpect op 0 c1 false) f ->
  im_in_select f sel ids = sel_fold sel (chunks (csize f) ids).
Proof.
  intros X op f sel ids G. unfold im_in_select, sel_fold.
  induction (chunks (csize f) ids) as [|c ls IH]; [reflexivity|]. cbn [fold_right]. rewrite IH.
  rewrite (g_src _ _ G). cbn [pick].
  rewrite (cnt_sim_eval _ _ _ (const_other_no _ _) (g_ph _ _ G)). cbn [e_cnt]. rewrite eval_c1. cbn [le_chunk].
  rewrite bind_exact by (rewrite map_length; reflexivity). rewrite msgs_of_map.
  destruct (fold_right _ _ ls); reflexivity.
Qed.

Lemma chunks_nil_iff : forall {A} L (l : list A), chunks L l = [] -> l = [].
Proof. intros A L l H. unfold chunks in H. destruct l as [|a t]; [reflexivity|]. cbn in H. discriminate. Qed.

Lemma sel_fold_none : forall {R X} (key : R -> N) (h : R -> X) ls, Forall (fun c => c <> []) ls ->
  sel_fold (gsel None key h) ls = match ls with [] => Some [] | _ => None end.
Proof.
  intros R X key h ls H. induction H as [|c ls Hc Hl IH]; [reflexivity|].
  cbn [sel_fold fold_right]. fold (sel_fold (gsel None key h) ls). rewrite IH.
  destruct ls; [|reflexivity]. destruct c; [congruence | reflexivity].
Qed.

Lemma sel_fold_some : forall {R X} rows (key : R -> N) (h : R -> X) ls,
  sel_fold (gsel (Some rows) key h) ls = Some (flat_map (fun c => map h (filter (fun x => nmem (key x) c) rows)) ls).
Proof.
  intros R X rows key h ls. induction ls as [|c ls IH]; [reflexivity|].
  cbn [sel_fold fold_right]. fold (sel_fold (gsel (Some rows) key h) ls). rewrite IH. reflexivity.
Qed.

Lemma nmem_nil : forall k, nmem k [] = false. Proof. reflexivity. Qed.

Lemma gsel_chunks_In : forall {R X} rows (key : R -> N) (h : R -> X) L ids y, (0 < L)%nat ->
  In y (flat_map (fun c => map h (filter (fun x => nmem (key x) c) rows)) (chunks L ids))
  <-> In y (map h (filter (fun x => nmem (key x) ids) rows)).
Proof.
  intros R X rows key h L ids y HL. rewrite in_flat_map, in_map_iff. split.
  - intros [c [Hc Hy]]. apply in_map_iff in Hy. destruct Hy as [r [Hr Hin]]. exists r. split; [exact Hr|].
    apply (chunked_select_same_set key nmem nmem_app nmem_nil L ids rows r HL).
    apply in_flat_map. exists c. split; assumption.
  - intros [r [Hr Hin]].
    apply (chunked_select_same_set key nmem nmem_app nmem_nil L ids rows r HL) in Hin.
    apply in_flat_map in Hin. destruct Hin as [c [Hc Hin]]. exists c. split; [exact Hc|].
    apply in_map_iff. exists r. split; assumption.
Qed.

Lemma im_in_select_gsel : forall {R X} op f (src : option (list R)) (key : R -> N) (h : R -> X) ids,
  good (mkExpect op 0 c1 false) f ->
  match src with
  | None => im_in_select f (gsel src key h) ids = gsel src key h ids
  | Some rows => exists l, im_in_select f (gsel src key h) ids = Some l /\
                 forall y, In y l <-> In y (map h (filter (fun x => nmem (key x) ids) rows))
  end.
Proof.
  intros R X op f src key h ids G. rewrite (im_in_select_simpl op f _ ids G). destruct src as [rows|].
  - rewrite sel_fold_some. eexists. split; [reflexivity|]. intros y. apply gsel_chunks_In. apply (g_pos _ _ G).
  - rewrite sel_fold_none by (apply chunks_nonempty; apply (g_pos _ _ G)). cbn [gsel].
    destruct (chunks (csize f) ids) eqn:E.
    + apply chunks_nil_iff in E. subst. reflexivity.
    + destruct ids; [discriminate | reflexivity].
Qed.

Lemma sel_contains_gsel : forall b d c, sel_contains b c d = gsel (option_map t_rows (find_tab b (d_tabs d))) r_msg r_msg c.
Proof. intros b d c. unfold sel_contains, gsel. destruct (find_tab b (d_tabs d)); reflexivity. Qed.
Lemma sel_rows_in_gsel : forall b d c, sel_rows_in b c d = gsel (option_map t_rows (find_tab b (d_tabs d))) r_msg (snap_of d) c.
Proof. intros b d c. unfold sel_rows_in, gsel. destruct (find_tab b (d_tabs d)); reflexivity. Qed.
Lemma sel_msg_flags_gsel : forall d c,
  sel_msg_flags c d = gsel (Some (d_msgs d)) mg_id (fun x => (mg_id x, mg_remote x, flags_of (mg_id x) (d_flags d))) c.
Proof. reflexivity. Qed.
Lemma sel_translate_gsel : forall d c, sel_translate c d = gsel (Some (d_mboxes d)) mb_remote mb_id c.
Proof. reflexivity. Qed.

Lemma select_refines : forall {R X} op F (mk : list X -> rval) (src : option (list R)) (key : R -> N) (h : R -> X) ids d,
  facts_ok F = true -> In (mkExpect op 0 c1 false) expected ->
  (forall x y, (forall r, In r x <-> In r y) -> rval_equiv (mk x) (mk y)) ->
  result_equiv
    (match find_stmt op 0 F with
     | Some f => res_opt d mk (im_in_select f (gsel src key h) ids)
     | None => Fail EOther end)
    (res_opt d mk (gsel src key h ids)).
Proof.
  intros R X op F mk src key h ids d H Hin Hmk.
  destruct (facts_ok_find F _ H Hin) as [f [Hf G]]. cbn [e_op e_idx] in Hf. rewrite Hf.
  pose proof (im_in_select_gsel op f src key h ids G) as HS. destruct src as [rows|].
  - destruct HS as [l [Hl Hin']]. rewrite Hl. cbn [gsel res_opt result_equiv]. split; [reflexivity|].
    apply Hmk. exact Hin'.
  - rewrite HS. apply result_equiv_refl.
Qed.

Ltac in_expected := cbv [expected]; repeat (first [left; reflexivity | right]).

Theorem filter_contains_refines : forall F ci b ids d, facts_ok F = true ->
  result_equiv (exec_impl F ci (OFilterContains b ids) d) (exec_spec ci (OFilterContains b ids) d).
Proof.
  intros F ci b ids d H. cbn [exec_impl exec_spec]. unfold im_filter_contains, sp_filter_contains.
  rewrite sel_contains_gsel.
  pose proof (select_refines "MailboxFilterContainsInternalID" F RNums (option_map t_rows (find_tab b (d_tabs d))) r_msg r_msg ids d H) as P.
  assert (E : (fun c => sel_contains b c d) = gsel (option_map t_rows (find_tab b (d_tabs d))) r_msg r_msg).
  { unfold sel_contains, gsel. destruct (find_tab b (d_tabs d)); reflexivity. }
  rewrite E. apply P; [in_expected | intros x y Hxy; exact Hxy].
Qed.

Theorem get_messages_flags_refines : forall F ci ids d, facts_ok F = true ->
  result_equiv (exec_impl F ci (OGetMessagesFlags ids) d) (exec_spec ci (OGetMessagesFlags ids) d).
Proof.
  intros F ci ids d H. cbn [exec_impl exec_spec]. unfold im_get_messages_flags, sp_get_messages_flags.
  apply (select_refines "GetMessagesFlags" F RMsgFlags (Some (d_msgs d)) mg_id
           (fun x => (mg_id x, mg_remote x, flags_of (mg_id x) (d_flags d))) ids d H); [in_expected | intros x y Hxy; exact Hxy].
Qed.

Theorem translate_refines : forall F ci ids d, facts_ok F = true ->
  result_equiv (exec_impl F ci (OTranslate ids) d) (exec_spec ci (OTranslate ids) d).
Proof.
  intros F ci ids d H. cbn [exec_impl exec_spec]. unfold im_translate, sp_translate.
  apply (select_refines "MailboxTranslateRemoteIDs" F RNums (Some (d_mboxes d)) mb_remote mb_id ids d H);
    [in_expected | intros x y Hxy; exact Hxy].
Qed.

(* ================================================================== AddMessagesToMailbox *)
Lemma tab_ins1_box : forall msgs p t t', tab_ins1 msgs p t = Some t' -> t_box t' = t_box t.
Proof.
  intros msgs [m r] t t' H. unfold tab_ins1 in H.
  destruct (existsb _ (t_rows t)); [discriminate|].
  destruct (existsb _ (t_rows t)); [discriminate|].
  destruct (negb _); [discriminate|]. inversion H. reflexivity.
Qed.

Lemma foldM_tab_ins_box : forall msgs ps t t', foldM (tab_ins1 msgs) ps t = Some t' -> t_box t' = t_box t.
Proof.
  intros msgs ps. induction ps as [|p ps IH]; intros t t' H; cbn [foldM] in H.
  - inversion H. reflexivity.
  - destruct (tab_ins1 msgs p t) as [t1|] eqn:E; [|discriminate].
    rewrite (IH _ _ H). apply (tab_ins1_box _ _ _ _ E).
Qed.

Lemma tab_ins_rows_hom : forall b, stmt_hom (tab_ins_rows b).
Proof.
  intros b. split; [reflexivity|].
  intros a c s. destruct a as [|x a]; [reflexivity|].
  destruct c as [|y c].
  - rewrite app_nil_r. destruct (tab_ins_rows b (x :: a) s); reflexivity.
  - change ((x :: a) ++ y :: c) with (x :: (a ++ y :: c)). cbn [tab_ins_rows].
    change (x :: a ++ y :: c) with ((x :: a) ++ y :: c).
    unfold upd_tab at 1 2. destruct (find_tab b (d_tabs s)) as [t|] eqn:E; [|reflexivity].
    rewrite foldM_app.
    destruct (foldM (tab_ins1 (d_msgs s)) (x :: a) t) as [t1|] eqn:E1; cbn [obind]; [|reflexivity].
    cbn [tab_ins_rows]. unfold upd_tab. cbn [d_tabs d_msgs set_tabs].
    assert (Hb1 : t_box t1 = b). { rewrite (foldM_tab_ins_box _ _ _ _ E1). apply (find_tab_box _ _ _ E). }
    rewrite (find_put_same b (d_tabs s) t t1 E Hb1).
    destruct (foldM (tab_ins1 (d_msgs s)) (y :: c) t1) as [t2|] eqn:E2; [|reflexivity].
    f_equal. unfold set_tabs. cbn. f_equal. symmetry. apply put_put.
    rewrite (foldM_tab_ins_box _ _ _ _ E2). reflexivity.
Qed.

Lemma m2m_ins_rows_hom : forall b, stmt_hom (m2m_ins_rows b).
Proof.
  intros b. split.
  - intros s. unfold m2m_ins_rows. cbn [map foldM]. rewrite db_eta_m2m. reflexivity.
  - intros a c s. unfold m2m_ins_rows. rewrite map_app, foldM_app.
    destruct (foldM (m2m_ins1 s b) (map fst a) (d_m2m s)) as [l|]; cbn [obind]; reflexivity.
Qed.

Lemma add_commute : forall b a c s,
  obind (m2m_ins_rows b a s) (tab_ins_rows b c) = obind (tab_ins_rows b c s) (m2m_ins_rows b a).
Proof.
  intros b a c s. unfold m2m_ins_rows.
  destruct c as [|y c].
  - cbn [tab_ins_rows obind]. destruct (foldM (m2m_ins1 s b) (map fst a) (d_m2m s)); reflexivity.
  - change (tab_ins_rows b (y :: c)) with (fun d' => upd_tab b (foldM (tab_ins1 (d_msgs d')) (y :: c)) d').
    unfold upd_tab.
    destruct (foldM (m2m_ins1 s b) (map fst a) (d_m2m s)) as [l|] eqn:E1; cbn [obind d_tabs d_msgs set_m2m].
    + destruct (find_tab b (d_tabs s)) as [t|]; [|reflexivity].
      destruct (foldM (tab_ins1 (d_msgs s)) (y :: c) t) as [t'|]; [|reflexivity].
      cbn [obind]. unfold m2m_ins_rows.
      change (foldM (m2m_ins1 (set_tabs s (put_tab t' (d_tabs s))) b) (map fst a) (d_m2m (set_tabs s (put_tab t' (d_tabs s)))))
        with (foldM (m2m_ins1 s b) (map fst a) (d_m2m s)).
      rewrite E1. reflexivity.
    + destruct (find_tab b (d_tabs s)) as [t|]; [|reflexivity].
      destruct (foldM (tab_ins1 (d_msgs s)) (y :: c) t) as [t'|]; [|reflexivity].
      cbn [obind]. unfold m2m_ins_rows.
      change (foldM (m2m_ins1 (set_tabs s (put_tab t' (d_tabs s))) b) (map fst a) (d_m2m (set_tabs s (put_tab t' (d_tabs s)))))
        with (foldM (m2m_ins1 s b) (map fst a) (d_m2m s)).
      rewrite E1. reflexivity.
Qed.

Definition g_add (b : N) (c : list (N * N)) (d : db) : option db := obind (tab_ins_rows b c d) (m2m_ins_rows b c).

Lemma g_add_hom : forall b, stmt_hom (g_add b).
Proof.
  intros b. apply (seq_hom (tab_ins_rows b) (m2m_ins_rows b)).
  - apply tab_ins_rows_hom.
  - apply m2m_ins_rows_hom.
  - intros a c s. apply add_commute.
Qed.

Lemma im_add_stmt0_ok : forall f b (chunk whole : list (N * N)) d, good (mkExpect "AddMessagesToMailbox" 0 c2 false) f ->
  im_add_stmt0 f b chunk whole d = tab_ins_rows b chunk d.
Proof.
  intros f b chunk whole d G. unfold im_add_stmt0. rewrite (g_src _ _ G). cbn [pick].
  rewrite (cnt_sim_eval _ _ _ (const_other_no _ _) (g_ph _ _ G)). cbn [e_cnt]. rewrite eval_c2. cbn [le_chunk].
  rewrite bind_exact by (apply (flat_pair_length (fun p : N * N => [VMsg (fst p); VRemote (snd p)]) chunk 2); reflexivity).
  rewrite (pairs_of_flat as_msg as_remote (fun p : N * N => VMsg (fst p)) (fun p => VRemote (snd p)) fst snd) by reflexivity.
  rewrite (map_ext_id (fun x : N * N => (fst x, snd x))) by (intros []; reflexivity).
  reflexivity.
Qed.

Lemma im_add_stmt1_ok : forall f b (chunk whole : list (N * N)) d, good (mkExpect "AddMessagesToMailbox" 1 c2 false) f ->
  im_add_stmt1 f b chunk whole d = m2m_ins_rows b chunk d.
Proof.
  intros f b chunk whole d G. unfold im_add_stmt1. rewrite (g_src _ _ G). cbn [pick].
  rewrite (cnt_sim_eval _ _ _ (const_other_no _ _) (g_ph _ _ G)). cbn [e_cnt]. rewrite eval_c2. cbn [le_chunk].
  rewrite bind_exact by (apply (flat_pair_length (fun p : N * N => [VMsg (fst p); VBox b]) chunk 2); reflexivity).
  rewrite (pairs_of_flat as_msg as_box (fun p : N * N => VMsg (fst p)) (fun _ => VBox b) fst (fun _ => b)) by reflexivity.
  unfold m2m_ins_rows. rewrite !foldM_map. reflexivity.
Qed.

Theorem add_messages_refines : forall F ci b ps d, facts_ok F = true ->
  result_equiv (exec_impl F ci (OAddMessages b ps) d) (exec_spec ci (OAddMessages b ps) d).
Proof.
  intros F ci b ps d H. cbn [exec_impl exec_spec]. unfold im_add_messages, sp_add_messages.
  destruct ps as [|p0 ps]; [apply result_equiv_refl|]. set (pl := p0 :: ps).
  get_fact F H "AddMessagesToMailbox" 0%nat (mkExpect "AddMessagesToMailbox" 0 c2 false).
  get_fact F H "AddMessagesToMailbox" 1%nat (mkExpect "AddMessagesToMailbox" 1 c2 false).
  get_fact F H "GetMailboxMessageUIDsWithFlagsAfterAddOrUIDBump" 0%nat (mkExpect "GetMailboxMessageUIDsWithFlagsAfterAddOrUIDBump" 0 c1 false).
  cbn [e_op e_idx] in Hf, Hf0, Hf1. rewrite Hf, Hf0, Hf1.
  rewrite (foldM_ext _ (g_add b)).
  2:{ intros c s. rewrite (im_add_stmt0_ok _ _ _ _ _ G). unfold g_add.
      destruct (tab_ins_rows b c s); cbn [obind]; [apply (im_add_stmt1_ok _ _ _ _ _ G0) | reflexivity]. }
  rewrite (chunked_stmt_eq _ (g_add_hom b)) by (apply (g_pos _ _ G)). unfold g_add.
  destruct (obind (tab_ins_rows b pl d) (m2m_ins_rows b pl)) as [d'|]; [|reflexivity].
  assert (E : (fun ids => sel_rows_in b ids d') = gsel (option_map t_rows (find_tab b (d_tabs d'))) r_msg (snap_of d')).
  { unfold sel_rows_in, gsel. destruct (find_tab b (d_tabs d')); reflexivity. }
  rewrite E, sel_rows_in_gsel.
  pose proof (im_in_select_gsel _ f1 (option_map t_rows (find_tab b (d_tabs d'))) r_msg (snap_of d') (map fst pl) G1) as HS.
  destruct (option_map t_rows (find_tab b (d_tabs d'))) as [rows|].
  - destruct HS as [l [Hl Hin]]. rewrite Hl. cbn [gsel result_equiv]. split; [reflexivity | exact Hin].
  - rewrite HS. apply result_equiv_refl.
Qed.

(* ================================================================== CreateMessages *)
Lemma flags_ins_rows_hom : stmt_hom flags_ins_rows.
Proof.
  split.
  - intros s. unfold flags_ins_rows. cbn [foldM]. rewrite db_eta_flags. reflexivity.
  - intros a c s. unfold flags_ins_rows. rewrite foldM_app.
    destruct (foldM flag_ins1 a (d_flags s)) as [l|]; cbn [obind]; reflexivity.
Qed.

Lemma msgs_ins_rows_hom : stmt_hom msgs_ins_rows.
Proof.
  split.
  - intros s. unfold msgs_ins_rows. cbn [foldM]. rewrite db_eta_msgs. reflexivity.
  - intros a c s. unfold msgs_ins_rows. rewrite foldM_app.
    destruct (foldM _ a (d_msgs s)) as [l|]; cbn [obind]; reflexivity.
Qed.

Lemma req_flag_pairs_app : forall a c, req_flag_pairs (a ++ c) = req_flag_pairs a ++ req_flag_pairs c.
Proof. intros. unfold req_flag_pairs. apply flat_map_app. Qed.

Lemma req_flags_hom : stmt_hom (fun c d => flags_ins_rows (req_flag_pairs c) d).
Proof.
  destruct flags_ins_rows_hom as [Hn Ha]. split.
  - intros s. apply Hn.
  - intros a c s. rewrite req_flag_pairs_app. apply Ha.
Qed.

Lemma cm_commute : forall a c s,
  obind (flags_ins_rows (req_flag_pairs a) s) (msgs_ins_rows c)
  = obind (msgs_ins_rows c s) (fun d => flags_ins_rows (req_flag_pairs a) d).
Proof.
  intros a c s. unfold flags_ins_rows, msgs_ins_rows.
  destruct (foldM flag_ins1 (req_flag_pairs a) (d_flags s)) as [l|] eqn:E1; cbn [obind d_msgs d_flags set_flags].
  - destruct (foldM _ c (d_msgs s)) as [l2|]; [|reflexivity]. cbn [obind d_flags set_msgs]. rewrite E1. reflexivity.
  - destruct (foldM _ c (d_msgs s)) as [l2|]; [|reflexivity]. cbn [obind d_flags set_msgs]. rewrite E1. reflexivity.
Qed.

Definition g_cm (c : list creq) (d : db) : option db :=
  obind (msgs_ins_rows c d) (fun d' => flags_ins_rows (req_flag_pairs c) d').

Lemma g_cm_hom : stmt_hom g_cm.
Proof.
  apply (seq_hom msgs_ins_rows (fun c d => flags_ins_rows (req_flag_pairs c) d)).
  - apply msgs_ins_rows_hom.
  - apply req_flags_hom.
  - intros a c s. apply cm_commute.
Qed.

Lemma im_cm_stmt0_ok : forall f chunk whole d, good (mkExpect "CreateMessages" 0 [mkTerm 7 [VChunk]] false) f ->
  im_cm_stmt0 f chunk whole d = msgs_ins_rows chunk d.
Proof.
  intros f chunk whole d G. unfold im_cm_stmt0. rewrite (g_src _ _ G). cbn [pick].
  rewrite (cnt_sim_eval _ _ _ (const_other_no _ _) (g_ph _ _ G)). cbn [e_cnt].
  replace (eval_cnt (mkEnv (length chunk) (length whole) no_other) [mkTerm 7 [VChunk]]) with (length chunk * 7)%nat by (cbn; lia).
  replace (7 * length chunk)%nat with (length chunk * 7)%nat by lia. rewrite Nat.ltb_irrefl.
  rewrite Nat.div_mul by discriminate. rewrite firstn_all. reflexivity.
Qed.

(* cutting the flat (id, flag, id, flag, ...) list into chunks of 2k values = cutting the pair list into chunks of k *)
Lemma firstn_flag_vals : forall k ps, firstn (2 * k) (flag_vals ps) = flag_vals (firstn k ps).
Proof.
  induction k as [|k IH]; intros ps; [reflexivity|].
  destruct ps as [|p ps]; [reflexivity|].
  replace (2 * S k)%nat with (S (S (2 * k))) by lia. cbn [flag_vals flat_map app firstn].
  f_equal. f_equal. apply IH.
Qed.

Lemma skipn_flag_vals : forall k ps, skipn (2 * k) (flag_vals ps) = flag_vals (skipn k ps).
Proof.
  induction k as [|k IH]; intros ps; [reflexivity|].
  destruct ps as [|p ps]; [reflexivity|].
  replace (2 * S k)%nat with (S (S (2 * k))) by lia. cbn [flag_vals flat_map app skipn]. apply IH.
Qed.

Lemma flag_vals_length : forall ps, length (flag_vals ps) = (2 * length ps)%nat.
Proof. intros ps. unfold flag_vals. apply (flat_pair_length (fun p : N * flag => [VMsg (fst p); VFlag (snd p)]) ps 2). reflexivity. Qed.

Lemma chunks_aux_flag_vals : forall k, (0 < k)%nat -> forall f2 f1 ps, (length ps <= f2)%nat -> (2 * length ps <= f1)%nat ->
  chunks_aux f1 (2 * k) (flag_vals ps) = map flag_vals (chunks_aux f2 k ps).
Proof.
  intros k Hk. induction f2 as [|f2 IH]; intros f1 ps H2 H1.
  - destruct ps; [|cbn in H2; lia]. destruct f1; reflexivity.
  - destruct ps as [|p ps]; [destruct f1; reflexivity|].
    destruct f1 as [|f1]; [cbn in H1; lia|].
    cbn [chunks_aux]. change (flag_vals (p :: ps)) with (VMsg (fst p) :: VFlag (snd p) :: flag_vals ps).
    cbn [map]. change (VMsg (fst p) :: VFlag (snd p) :: flag_vals ps) with (flag_vals (p :: ps)).
    rewrite firstn_flag_vals, skipn_flag_vals. f_equal.
    apply IH.
    + rewrite skipn_length. cbn [length] in *. lia.
    + rewrite skipn_length. cbn [length] in *. lia.
Qed.

Lemma chunks_flag_vals : forall k ps, (0 < k)%nat -> chunks (2 * k) (flag_vals ps) = map flag_vals (chunks k ps).
Proof.
  intros k ps Hk. unfold chunks. apply (chunks_aux_flag_vals k Hk); [lia | rewrite flag_vals_length; lia].
Qed.

Lemma pairs_of_flag_vals : forall ps, pairs_of as_msg as_flag (flag_vals ps) = Some ps.
Proof.
  intros ps. unfold flag_vals.
  rewrite (pairs_of_flat as_msg as_flag (fun p : N * flag => VMsg (fst p)) (fun p => VFlag (snd p)) fst snd) by reflexivity.
  rewrite (map_ext_id (fun x : N * flag => (fst x, snd x))) by (intros []; reflexivity). reflexivity.
Qed.

Lemma im_cm_flagstmt_ok : forall f psc whole d, good (mkExpect "CreateMessages" 1 c1 true) f ->
  im_cm_flagstmt f (flag_vals psc) whole d = flags_ins_rows psc d.
Proof.
  intros f psc whole d G. unfold im_cm_flagstmt. rewrite (g_src _ _ G), (g_even_flag _ _ G). cbn [e_even pick].
  rewrite flag_vals_length. replace (2 * length psc)%nat with (length psc * 2)%nat by lia.
  rewrite Nat.div_mul by discriminate.
  rewrite bind_exact by (rewrite flag_vals_length; lia).
  rewrite pairs_of_flag_vals. reflexivity.
Qed.

Lemma even_half : forall n, (0 < n)%nat -> Nat.even n = true -> exists k, (0 < k)%nat /\ n = (2 * k)%nat.
Proof.
  intros n Hn He. apply Nat.even_spec in He. destruct He as [k Hk]. exists k. split; lia.
Qed.

Theorem create_messages_refines : forall F ci rs d, facts_ok F = true ->
  exec_impl F ci (OCreateMessages rs) d = exec_spec ci (OCreateMessages rs) d.
Proof.
  intros F ci rs d H. cbn [exec_impl exec_spec]. unfold im_create_messages, sp_create_messages.
  get_fact F H "CreateMessages" 0%nat (mkExpect "CreateMessages" 0 [mkTerm 7 [VChunk]] false).
  get_fact F H "CreateMessages" 1%nat (mkExpect "CreateMessages" 1 c1 true).
  cbn [e_op e_idx] in Hf, Hf0. rewrite Hf, Hf0. f_equal.
  destruct (even_half (csize f0) (g_pos _ _ G0) (g_even _ _ G0 eq_refl)) as [k [Hk Hk2]].
  rewrite (foldM_ext _ g_cm).
  - apply (chunked_stmt_eq _ g_cm_hom). apply (g_pos _ _ G).
  - intros c s. rewrite (im_cm_stmt0_ok _ _ _ _ G). unfold g_cm.
    destruct (msgs_ins_rows c s) as [s1|]; cbn [obind]; [|reflexivity].
    rewrite Hk2, (chunks_flag_vals k _ Hk), foldM_map.
    rewrite (foldM_ext _ flags_ins_rows) by (intros psc s2; apply (im_cm_flagstmt_ok _ _ _ _ G0)).
    apply (chunked_stmt_eq _ flags_ins_rows_hom). exact Hk.
Qed.

(* ================================================================== all operations *)
Theorem op_refines : forall F ci o d, facts_ok F = true ->
  result_equiv (exec_impl F ci o d) (exec_spec ci o d).
Proof.
  intros F ci o d H. destruct o;
    try (apply result_equiv_refl).
  - apply add_messages_refines; exact H.
  - apply result_equiv_eq. apply remove_messages_refines; exact H.
  - apply result_equiv_eq. apply set_deleted_refines; exact H.
  - apply result_equiv_eq. apply create_messages_refines; exact H.
  - apply result_equiv_eq. apply delete_messages_refines; exact H.
  - apply result_equiv_eq. apply add_flag_refines; exact H.
  - apply result_equiv_eq. apply remove_flag_refines; exact H.
  - apply result_equiv_eq. apply set_flags_refines; exact H.
  - apply filter_contains_refines; exact H.
  - apply get_messages_flags_refines; exact H.
  - apply translate_refines; exact H.
Qed.

Lemma rval_equiv_sym : forall a b, rval_equiv a b -> rval_equiv b a.
Proof.
  intros a b H. destruct a, b; cbn in *; try (symmetry; exact H); try discriminate;
    try (intros r; specialize (H r); tauto).
Qed.

Lemma rval_equiv_trans : forall a b c, rval_equiv a b -> rval_equiv b c -> rval_equiv a c.
Proof.
  intros a b c H1 H2.
  destruct a, b; cbn in H1; try discriminate; try (inversion H1; subst; exact H2);
    destruct c; cbn in *; try discriminate; try exact H2;
    try (intros r; specialize (H1 r); specialize (H2 r); tauto).
Qed.

Lemma result_equiv_sym : forall a b, result_equiv a b -> result_equiv b a.
Proof.
  intros [d1 r1|e1] [d2 r2|e2] H; cbn in *; try contradiction.
  - destruct H as [H1 H2]. split; [symmetry; exact H1 | apply rval_equiv_sym; exact H2].
  - symmetry. exact H.
Qed.

Lemma result_equiv_trans : forall a b c, result_equiv a b -> result_equiv b c -> result_equiv a c.
Proof.
  intros [d1 r1|e1] [d2 r2|e2] [d3 r3|e3] H1 H2; cbn in *; try contradiction.
  - destruct H1 as [A1 B1], H2 as [A2 B2]. split; [congruence | eapply rval_equiv_trans; eassumption].
  - congruence.
Qed.

(* the chunk sizes (and anything else in the facts) do not matter as long as the facts pass the check *)
Theorem chunking_irrelevant : forall F1 F2 ci o d, facts_ok F1 = true -> facts_ok F2 = true ->
  result_equiv (exec_impl F1 ci o d) (exec_impl F2 ci o d).
Proof.
  intros F1 F2 ci o d H1 H2. eapply result_equiv_trans; [apply op_refines; exact H1|].
  apply result_equiv_sym. apply op_refines. exact H2.
Qed.

(* ---- transactions ---- *)
Definition ex_equiv (e1 e2 : op -> db -> result) : Prop := forall o d, result_equiv (e1 o d) (e2 o d).

Lemma Forall2_rev' : forall {A B} (R : A -> B -> Prop) l1 l2, Forall2 R l1 l2 -> Forall2 R (rev l1) (rev l2).
Proof.
  intros A B R l1 l2 H. induction H as [|x y l1 l2 Hxy Hl IH]; [constructor|].
  cbn [rev]. apply Forall2_app; [exact IH | constructor; [exact Hxy | constructor]].
Qed.

Lemma run_ops_equiv : forall e1 e2, ex_equiv e1 e2 -> forall ops d acc1 acc2, Forall2 rval_equiv acc1 acc2 ->
  match run_ops e1 ops d acc1, run_ops e2 ops d acc2 with
  | Some (d1, r1), Some (d2, r2) => d1 = d2 /\ Forall2 rval_equiv r1 r2
  | None, None => True
  | _, _ => False
  end.
Proof.
  intros e1 e2 He ops. induction ops as [|o ops IH]; intros d acc1 acc2 Hacc; cbn [run_ops].
  - split; [reflexivity|]. apply Forall2_rev'. exact Hacc.
  - specialize (He o d). destruct (e1 o d) as [d1 r1|x1], (e2 o d) as [d2 r2|x2]; cbn in He; try contradiction; [|exact I].
    destruct He as [Hd Hr]. subst d2. apply IH. constructor; assumption.
Qed.

Theorem tx_refines : forall F ci t d, facts_ok F = true ->
  fst (run_tx (exec_impl F ci) t d) = fst (run_tx (exec_spec ci) t d) /\
  match snd (run_tx (exec_impl F ci) t d), snd (run_tx (exec_spec ci) t d) with
  | Some r1, Some r2 => Forall2 rval_equiv r1 r2
  | None, None => True
  | _, _ => False
  end.
Proof.
  intros F ci t d H. unfold run_tx.
  pose proof (run_ops_equiv (exec_impl F ci) (exec_spec ci) (fun o d => op_refines F ci o d H) (tx_ops t) d [] [] (Forall2_nil _)) as P.
  destruct (run_ops (exec_impl F ci) (tx_ops t) d []) as [[d1 r1]|], (run_ops (exec_spec ci) (tx_ops t) d []) as [[d2 r2]|];
    try contradiction.
  - destruct P as [Hd Hr]. subst d2. destruct (tx_abort t); cbn; split; auto.
  - cbn. split; auto.
Qed.

Theorem txs_refine : forall F ci ts d, facts_ok F = true ->
  run_txs (exec_impl F ci) ts d = run_txs (exec_spec ci) ts d.
Proof.
  intros F ci ts. induction ts as [|t ts IH]; intros d H; [reflexivity|]. cbn [run_txs].
  destruct (tx_refines F ci t d H) as [E _]. rewrite E. apply IH. exact H.
Qed.

(* a transaction that returns an error — because an operation failed or because the callback says so — leaves no trace *)
Theorem failed_tx_no_trace : forall ex t d, snd (run_tx ex t d) = None -> fst (run_tx ex t d) = d.
Proof.
  intros ex t d H. unfold run_tx in *. destruct (run_ops ex (tx_ops t) d []) as [[d' rs]|]; [|reflexivity].
  destruct (tx_abort t); [reflexivity | discriminate].
Qed.

Theorem aborted_tx_no_trace : forall ex t d, tx_abort t = true -> run_tx ex t d = (d, None).
Proof.
  intros ex t d H. unfold run_tx. rewrite H. destruct (run_ops ex (tx_ops t) d []) as [[d' rs]|]; reflexivity.
Qed.

Theorem failing_op_aborts_tx : forall ex ops1 o ops2 ab d d1 rs e,
  run_ops ex ops1 d [] = Some (d1, rs) -> ex o d1 = Fail e ->
  run_tx ex (mkTx (ops1 ++ o :: ops2) ab) d = (d, None).
Proof.
  intros ex ops1 o ops2 ab d d1 rs e H1 H2. unfold run_tx. cbn [tx_ops tx_abort].
  assert (G : forall ops d0 acc, run_ops ex ops d0 acc = Some (d1, rs) ->
              run_ops ex (ops ++ o :: ops2) d0 acc = None).
  { induction ops as [|x ops IH]; intros d0 acc Hr; cbn [run_ops app] in *.
    - inversion Hr; subst. rewrite H2. reflexivity.
    - destruct (ex x d0); [apply IH; exact Hr | discriminate]. }
  rewrite (G ops1 d [] H1). reflexivity.
Qed.

(* no statement is ever built for an empty chunk (utils.GenSQLIn panics on 0) and no chunk exceeds the size *)
Theorem chunks_wellformed : forall {A} L (l : list A), (0 < L)%nat ->
  Forall (fun c => c <> [] /\ (length c <= L)%nat) (chunks L l).
Proof.
  intros A L l HL. pose proof (chunks_nonempty L l HL) as H1. pose proof (chunks_len_le L l) as H2.
  induction H1 as [|c ls Hc Hl IH]; [constructor|]. inversion H2; subst. constructor; [split; assumption | apply IH; assumption].
Qed.

(* ================================================================== AddDeletedSubscription on a name that is already recorded *)
Lemma subs_add_has_name : forall name r l l', subs_add name r l = Some l' -> existsb (fun p => N.eqb (fst p) name) l' = true.
Proof.
  intros name r l l' H. unfold subs_add in H.
  destruct (existsb (fun p => N.eqb (fst p) name) l) eqn:E.
  - destruct (existsb (fun p => negb (N.eqb (fst p) name) && N.eqb (snd p) r) l); [discriminate|]. inversion H; subst l'. clear H.
    apply existsb_exists in E. destruct E as [p [Hp Ep]].
    apply existsb_exists. exists (name, r). split; [|apply N.eqb_refl].
    apply in_map_iff. exists p. rewrite Ep. split; [reflexivity | exact Hp].
  - destruct (existsb (fun p => N.eqb (snd p) r) l); [discriminate|]. inversion H; subst l'. rewrite existsb_app. cbn [existsb fst].
    rewrite N.eqb_refl. rewrite orb_true_r. reflexivity.
Qed.

Lemma subs_add_replaces : forall name r l l', existsb (fun p => N.eqb (fst p) name) l = true -> subs_add name r l = Some l' ->
  In (name, r) l' /\ (forall r', In (name, r') l' -> r' = r) /\ length l' = length l.
Proof.
  intros name r l l' E H. unfold subs_add in H. rewrite E in H.
  destruct (existsb (fun p => negb (N.eqb (fst p) name) && N.eqb (snd p) r) l); [discriminate|]. inversion H; subst l'. clear H. split; [|split].
  - apply existsb_exists in E. destruct E as [p [Hp Ep]]. apply in_map_iff. exists p. rewrite Ep. tauto.
  - intros r' Hin. apply in_map_iff in Hin. destruct Hin as [p [Hp _]].
    destruct (N.eqb (fst p) name) eqn:Ep; [inversion Hp; reflexivity|].
    subst p. cbn in Ep. rewrite N.eqb_refl in Ep. discriminate.
  - apply map_length.
Qed.

Theorem deleted_subscription_replaced : forall name r1 r2 d d1 d2,
  op_add_deleted_subscription name r1 d = Ok d1 RUnit -> op_add_deleted_subscription name r2 d1 = Ok d2 RUnit ->
  In (name, r2) (d_subs d2) /\ (forall r, In (name, r) (d_subs d2) -> r = r2) /\ length (d_subs d2) = length (d_subs d1).
Proof.
  intros name r1 r2 d d1 d2 H1 H2. unfold op_add_deleted_subscription in *.
  destruct (subs_add name r1 (d_subs d)) as [l1|] eqn:E1; [|discriminate]. inversion H1; subst d1. clear H1.
  cbn [d_subs set_subs] in H2.
  destruct (subs_add name r2 l1) as [l2|] eqn:E2; [|discriminate]. inversion H2; subst d2. clear H2.
  cbn [d_subs set_subs]. apply (subs_add_replaces name r2 l1 l2); [apply (subs_add_has_name name r1 (d_subs d) l1 E1) | exact E2].
Qed.
