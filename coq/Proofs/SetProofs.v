(* C16/C02, message sets on the session model: the positions a command names are a SET - norm_ps puts them in strictly
   ascending order without repetition, keeps exactly the numbers that were written, and two ways of writing the same set
   (3,1 / 1,3 / 1,3,1) resolve to the same messages in the same (snapshot) order. *)
From Coq Require Import List Arith NArith Lia Sorted Bool.
From Gluon Require Import Model.Responders Model.Session.
Import ListNotations.
Local Open Scope nat_scope.

Lemma ins_pos_in p q l : In q (ins_pos p l) <-> q = p \/ In q l.
Proof.
  induction l as [|x t IH]; cbn [ins_pos].
  - cbn. intuition.
  - destruct (Nat.ltb_spec p x) as [H|H].
    + cbn. intuition.
    + destruct (Nat.eqb_spec p x) as [E|E].
      * subst. cbn. intuition.
      * cbn [In]. rewrite IH. intuition.
Qed.

Lemma norm_ps_in ps q : In q (norm_ps ps) <-> In q ps.
Proof.
  induction ps as [|p t IH]; cbn [norm_ps fold_right]; [reflexivity|].
  fold (norm_ps t). rewrite ins_pos_in, IH. cbn. intuition.
Qed.

Lemma ins_pos_sorted p l : StronglySorted lt l -> StronglySorted lt (ins_pos p l).
Proof.
  induction l as [|x t IH]; intros Hs; cbn [ins_pos].
  - repeat constructor.
  - inversion Hs as [|? ? Ht Hx]; subst.
    destruct (Nat.ltb_spec p x) as [H|H].
    + constructor; [exact Hs|]. constructor; [exact H|]. rewrite Forall_forall in *. intros y Hy. specialize (Hx y Hy). lia.
    + destruct (Nat.eqb_spec p x) as [E|E]; [exact Hs|].
      constructor; [apply IH; exact Ht|]. rewrite Forall_forall in *. intros y Hy. apply ins_pos_in in Hy as [->|Hy]; [lia|auto].
Qed.

Theorem norm_ps_sorted ps : StronglySorted lt (norm_ps ps).
Proof.
  induction ps as [|p t IH]; cbn [norm_ps fold_right]; [constructor|]. fold (norm_ps t). apply ins_pos_sorted. exact IH.
Qed.

Lemma sorted_same_elements a : forall b, StronglySorted lt a -> StronglySorted lt b ->
  (forall q, In q a <-> In q b) -> a = b.
Proof.
  induction a as [|x ta IH]; intros b Ha Hb Hin.
  - destruct b as [|y tb]; [reflexivity|]. exfalso. apply (proj2 (Hin y)). left. reflexivity.
  - destruct b as [|y tb]; [exfalso; apply (proj1 (Hin x)); left; reflexivity|].
    inversion Ha as [|? ? Hta Hxa]; subst. inversion Hb as [|? ? Htb Hyb]; subst.
    rewrite Forall_forall in Hxa, Hyb.
    assert (x = y).
    { destruct (proj1 (Hin x) (or_introl eq_refl)) as [E|Hx]; [congruence|].
      destruct (proj2 (Hin y) (or_introl eq_refl)) as [E|Hy]; [congruence|].
      specialize (Hyb x Hx). specialize (Hxa y Hy). lia. }
    subst y. f_equal. apply IH; [exact Hta|exact Htb|].
    intros q. split; intros Hq.
    + destruct (proj1 (Hin q) (or_intror Hq)) as [E|H']; [|exact H']. subst q. specialize (Hxa x Hq). lia.
    + destruct (proj2 (Hin q) (or_intror Hq)) as [E|H']; [|exact H']. subst q. specialize (Hyb x Hq). lia.
Qed.

(* however the same set is written, the same positions are resolved, in ascending order *)
Theorem norm_ps_same_set a b : (forall q, In q a <-> In q b) -> norm_ps a = norm_ps b.
Proof.
  intros H. apply sorted_same_elements; [apply norm_ps_sorted|apply norm_ps_sorted|].
  intros q. rewrite !norm_ps_in. apply H.
Qed.

Corollary msgs_at_same_set sn a b : (forall q, In q a <-> In q b) -> msgs_at sn a = msgs_at sn b.
Proof. intros H. unfold msgs_at. rewrite (norm_ps_same_set a b H). reflexivity. Qed.

(* the resolved messages come in snapshot order: their positions ascend *)
Lemma msgs_at_raw_length sn : forall ps xs, msgs_at_raw sn ps = Some xs -> length xs = length ps.
Proof.
  induction ps as [|p t IH]; intros xs H; cbn [msgs_at_raw fold_right] in H.
  - injection H as <-. reflexivity.
  - fold (msgs_at_raw sn t) in H. destruct (msgs_at_raw sn t) as [l|]; [|discriminate].
    destruct (nth_error sn (p - 1)) as [x|]; [|discriminate]. destruct (Nat.eqb p 0); [discriminate|].
    injection H as <-. cbn. f_equal. apply IH. reflexivity.
Qed.

Lemma msgs_at_raw_nth sn : forall ps xs, msgs_at_raw sn ps = Some xs ->
  forall k p x, nth_error ps k = Some p -> nth_error xs k = Some x -> 1 <= p /\ nth_error sn (p - 1) = Some x.
Proof.
  induction ps as [|p0 t IH]; intros xs H k p x Hp Hx; cbn [msgs_at_raw fold_right] in H.
  - destruct k; discriminate.
  - fold (msgs_at_raw sn t) in H. destruct (msgs_at_raw sn t) as [l|] eqn:E; [|discriminate].
    destruct (nth_error sn (p0 - 1)) as [x0|] eqn:N; [|discriminate]. destruct (Nat.eqb_spec p0 0) as [Z|Z]; [discriminate|].
    injection H as <-. destruct k as [|k]; cbn in Hp, Hx.
    + injection Hp as <-. injection Hx as <-. split; [lia|exact N].
    + eapply IH; eauto.
Qed.

Example sets_example :
  norm_ps [3; 1] = [1; 3] /\ norm_ps [2; 3; 2] = [2; 3] /\
  msgs_at [mkSmsg 7%N 1%N []; mkSmsg 8%N 2%N []; mkSmsg 9%N 3%N []] [3; 1] = Some [mkSmsg 7%N 1%N []; mkSmsg 9%N 3%N []] /\
  msgs_at [mkSmsg 7%N 1%N []; mkSmsg 8%N 2%N []; mkSmsg 9%N 3%N []] [1; 3; 1] = Some [mkSmsg 7%N 1%N []; mkSmsg 9%N 3%N []].
Proof. vm_compute. repeat split. Qed.
