(* C12 — everything the ENVELOPE / BODY / BODYSTRUCTURE writer produces is a well-formed parenthesised list,
   for every MIME tree and every envelope (structural induction), given that strconv.Quote yields a lexically
   closed quoted string. *)
From Coq Require Import List NArith Bool Arith Lia.
From Gluon Require Import Base.DecBytes Model.Rfc822Split Model.LiteralFrame Model.PList Model.StructWriter
  Proofs.LiteralFrameProofs Proofs.PListProofs.
Import ListNotations.

(* ---------- induction principles for the nested types ---------- *)
Section CallInd.
  Variable P : call -> Prop.
  Hypothesis HStr : forall v, P (CStr v).
  Hypothesis HNum : forall n, P (CNum n).
  Hypothesis HList : forall k body, Forall P body -> P (CList k body).
  Fixpoint call_ind2 (c : call) : P c :=
    match c with
    | CStr v => HStr v
    | CNum n => HNum n
    | CList k body =>
      HList k body ((fix go (l : list call) : Forall P l :=
                       match l with [] => Forall_nil _ | x :: t => Forall_cons x (call_ind2 x) (go t) end) body)
    end.
End CallInd.

Definition opt_P (P : mtree -> Prop) (o : option mtree) : Prop := match o with Some c => P c | None => True end.

Section MTreeInd.
  Variable P : mtree -> Prop.
  Hypothesis H : forall h env size lines emb children,
    opt_P P emb -> Forall P children -> P (MNode h env size lines emb children).
  Fixpoint mtree_ind2 (t : mtree) : P t :=
    match t with
    | MNode h env size lines emb children =>
      H h env size lines emb children
        (match emb as e return opt_P P e with
         | Some c => mtree_ind2 c
         | None => I
         end)
        ((fix go (l : list mtree) : Forall P l :=
            match l with [] => Forall_nil _ | x :: t => Forall_cons x (mtree_ind2 x) (go t) end) children)
    end.
End MTreeInd.

Section WithEsc.
  Variable esc : bytes -> bytes.
  Hypothesis esc_closed : forall v, qc_ok (esc v) = true.

  (* ---------- the syntax tree of what a call sequence writes ---------- *)
  Definition str_item (v : bytes) : pitem := match v with [] => PNil | _ => PQuoted (esc v) end.

  Fixpoint ast (c : call) (first : bool) : bool * pitem :=
    match c with
    | CStr v => (negb first, str_item v)
    | CNum n => (negb first, PNum (dec n))
    | CList k body =>
      (match k with Auto => negb first | Forced => true | Adj => false end,
       PList ((fix go (cs : list call) (f : bool) : list (bool * pitem) :=
                 match cs with [] => [] | c' :: t => ast c' f :: go t false end) body true))
    end.

  Fixpoint ast_list (cs : list call) (first : bool) : list (bool * pitem) :=
    match cs with [] => [] | c :: t => ast c first :: ast_list t false end.

  Lemma ast_clist : forall k body first,
    ast (CList k body) first =
    (match k with Auto => negb first | Forced => true | Adj => false end, PList (ast_list body true)).
  Proof. reflexivity. Qed.

  Lemma exec_clist : forall k body first,
    exec esc (CList k body) first =
    (match k with Auto => on_write first | Forced => [SP] | Adj => [] end) ++ LP :: exec_list esc body true ++ [RP].
  Proof. reflexivity. Qed.

  Lemma on_write_sp : forall first, on_write first = if negb first then [SP] else [].
  Proof. destruct first; reflexivity. Qed.

  (* what is written is the rendering of that syntax tree *)
  Lemma exec_render : forall c first, exec esc c first = render_items [ast c first].
  Proof.
    induction c using call_ind2; intros first.
    - cbn [exec ast render_items]. rewrite app_nil_r, on_write_sp. f_equal.
      destruct v; reflexivity.
    - cbn [exec ast render_items render]. rewrite app_nil_r, on_write_sp. reflexivity.
    - rewrite exec_clist, ast_clist. cbn [render_items]. rewrite app_nil_r. rewrite render_list.
      assert (E : forall f, exec_list esc body f = render_items (ast_list body f)).
      { induction body as [|c t IHt]; intros f; [reflexivity|].
        inversion H as [|? ? Hc Ht]; subst. cbn [exec_list ast_list].
        rewrite Hc. destruct (ast c f) as [sp x]. cbn [render_items]. rewrite app_nil_r.
        rewrite (IHt Ht). rewrite <- app_assoc. reflexivity. }
      rewrite E. destruct k; try rewrite on_write_sp; reflexivity.
  Qed.

  Lemma exec_list_render : forall cs first, exec_list esc cs first = render_items (ast_list cs first).
  Proof.
    induction cs as [|c t IH]; intros first; [reflexivity|].
    cbn [exec_list ast_list]. rewrite exec_render, IH. destruct (ast c first) as [sp x].
    cbn [render_items]. rewrite app_nil_r. rewrite <- app_assoc. reflexivity.
  Qed.

  (* ---------- when a call sequence writes a valid list body ---------- *)
  Definition is_clist (c : call) : bool := match c with CList _ _ => true | _ => false end.

  Fixpoint call_ok (c : call) (first prevlist : bool) : bool :=
    match c with
    | CStr _ | CNum _ => true
    | CList k body =>
      (match k with Auto => true | Forced => negb first | Adj => first || prevlist end)
      && (fix go (cs : list call) (f p : bool) : bool :=
            match cs with [] => true | c' :: t => call_ok c' f p && go t false (is_clist c') end) body true false
    end.

  Fixpoint calls_ok (cs : list call) (first prevlist : bool) : bool :=
    match cs with
    | [] => true
    | c :: t => call_ok c first prevlist && calls_ok t false (is_clist c)
    end.

  Lemma call_ok_clist : forall k body first prevlist,
    call_ok (CList k body) first prevlist =
    (match k with Auto => true | Forced => negb first | Adj => first || prevlist end) && calls_ok body true false.
  Proof. reflexivity. Qed.

  Lemma is_list_ast : forall c f, is_list (snd (ast c f)) = is_clist c.
  Proof. destruct c; intros; cbn [ast snd is_list is_clist]; try reflexivity. unfold str_item. destruct v; reflexivity. Qed.

  Lemma dec_valid : forall n, valid (PNum (dec n)) = true.
  Proof.
    intros n. cbn [valid]. rewrite dec_digits. pose proof (dec_nonempty n). destruct (dec n); [contradiction|reflexivity].
  Qed.

  Lemma call_ok_valid : forall c first prevlist, call_ok c first prevlist = true ->
    valid_items first prevlist [ast c first] = true.
  Proof.
    induction c using call_ind2; intros first prevlist Hok.
    - cbn [ast valid_items]. unfold str_item. destruct v.
      + cbn [is_list valid]. unfold sep_ok. destruct first; reflexivity.
      + cbn [is_list valid]. rewrite esc_closed. unfold sep_ok. destruct first; reflexivity.
    - cbn [ast valid_items is_list]. rewrite dec_valid. unfold sep_ok. destruct first; reflexivity.
    - rewrite call_ok_clist in Hok. apply andb_true_iff in Hok as [Hk Hb].
      rewrite ast_clist. cbn [valid_items is_list]. rewrite valid_list.
      assert (E : forall f p, calls_ok body f p = true -> valid_items f p (ast_list body f) = true).
      { clear Hb. induction body as [|c t IHt]; intros f p Hc; [reflexivity|].
        inversion H as [|? ? Hx Ht]; subst. cbn [calls_ok] in Hc. apply andb_true_iff in Hc as [Hc1 Hc2].
        cbn [ast_list]. specialize (Hx f p Hc1). cbn [valid_items] in Hx.
        pose proof (is_list_ast c f) as Hl. destruct (ast c f) as [sp x]. cbn [snd] in Hl.
        cbn [valid_items]. rewrite andb_true_r in Hx. rewrite Hx. cbn [andb]. rewrite Hl. apply IHt; auto. }
      rewrite (E true false Hb). rewrite !andb_true_r.
      unfold sep_ok. destruct k, first, prevlist; cbn in *; auto.
  Qed.

  Lemma calls_ok_valid : forall cs first prevlist, calls_ok cs first prevlist = true ->
    valid_items first prevlist (ast_list cs first) = true.
  Proof.
    induction cs as [|c t IH]; intros first prevlist H; [reflexivity|].
    cbn [calls_ok] in H. apply andb_true_iff in H as [H1 H2]. cbn [ast_list].
    pose proof (call_ok_valid c first prevlist H1) as Hv.
    pose proof (is_list_ast c first) as Hl. destruct (ast c first) as [sp x]. cbn [snd] in Hl.
    cbn [valid_items] in Hv. rewrite andb_true_r in Hv.
    cbn [valid_items]. rewrite Hv. cbn [andb]. rewrite Hl. apply IH. exact H2.
  Qed.

  Lemma calls_ok_app : forall a b first prevlist,
    calls_ok (a ++ b) first prevlist =
    calls_ok a first prevlist &&
    calls_ok b (match a with [] => first | _ => false end)
               (match a with [] => prevlist | _ => is_clist (last a (CStr [])) end).
  Proof.
    induction a as [|c t IH]; intros b first prevlist; [reflexivity|].
    cbn [app calls_ok]. rewrite IH. rewrite andb_assoc. f_equal.
    destruct t as [|c' t']; [reflexivity|]. reflexivity.
  Qed.

  (* a top-level call sequence [CList Adj body] run from firstItem = true writes a well-formed list *)
  Lemma exec_wf : forall body, calls_ok body true false = true -> wf_plist (exec esc (CList Adj body) true) = true.
  Proof.
    intros body H. apply wf_plist_complete. exists (ast_list body true). split.
    - rewrite valid_list. apply calls_ok_valid. exact H.
    - rewrite exec_clist. cbn [app]. rewrite exec_list_render. rewrite render_list. reflexivity.
  Qed.

  (* ---------- the call sequences of the real writer are ok ---------- *)
  Lemma map_calls_ok : forall k m first prevlist,
    (match k with Auto => true | Forced => negb first | Adj => first || prevlist end) = true ->
    call_ok (map_calls k m) first prevlist = true.
  Proof.
    intros k m first prevlist Hk. unfold map_calls. rewrite call_ok_clist, Hk. cbn [andb].
    assert (E : forall l f p, calls_ok (flat_map (fun kv : bytes * bytes => [CStr (fst kv); CStr (snd kv)]) l) f p = true).
    { induction l as [|kv t IH]; intros f p; [reflexivity|].
      cbn [flat_map app calls_ok call_ok is_clist andb]. apply IH. }
    apply E.
  Qed.

  Lemma addr_calls_ok : forall l first prevlist, call_ok (addr_calls l) first prevlist = true.
  Proof.
    intros l first prevlist. unfold addr_calls. rewrite call_ok_clist. cbn [andb].
    assert (E : forall f p, (f || p) = true ->
      calls_ok (map (fun a : addr => let '(u, d) := user_domain (snd a) in
                      CList Adj [CStr (fst a); CStr []; CStr u; CStr d]) l) f p = true).
    { induction l as [|a t IH]; intros f p Hfp; [reflexivity|].
      cbn [map calls_ok]. destruct (user_domain (snd a)) as [u d].
      rewrite call_ok_clist, Hfp. cbn [calls_ok call_ok is_clist andb]. apply IH. reflexivity. }
    apply E. reflexivity.
  Qed.

  Lemma opt_addr_calls_ok : forall o first prevlist, call_ok (opt_addr_calls o) first prevlist = true.
  Proof. intros [l|] first prevlist; [apply addr_calls_ok|reflexivity]. Qed.

  Lemma envelope_calls_ok : forall k e first prevlist,
    (match k with Auto => true | Forced => negb first | Adj => first || prevlist end) = true ->
    call_ok (envelope_calls k e) first prevlist = true.
  Proof.
    intros k e first prevlist Hk. unfold envelope_calls. rewrite call_ok_clist, Hk.
    cbn [calls_ok andb]. rewrite !opt_addr_calls_ok. reflexivity.
  Qed.

  Lemma disp_calls_ok : forall h prevlist, call_ok (disp_calls h) false prevlist = true.
  Proof.
    intros h prevlist. unfold disp_calls. destruct (h_disp h) as [[d ps]|]; [|reflexivity].
    rewrite call_ok_clist. cbn [negb andb calls_ok is_clist]. rewrite (map_calls_ok Auto ps false false eq_refl). reflexivity.
  Qed.

  Lemma is_clist_map_calls : forall k m, is_clist (map_calls k m) = true.
  Proof. reflexivity. Qed.

  (* the four extension fields after something has been written *)
  Lemma ext_single_ok : forall ext h p,
    calls_ok (only_ext ext [CStr (h_md5 h); disp_calls h; CStr (h_lang h); CStr (h_loc h)]) false p = true.
  Proof.
    intros ext h p. unfold only_ext. destruct ext; [|reflexivity].
    cbn [calls_ok call_ok is_clist andb]. rewrite disp_calls_ok. reflexivity.
  Qed.

  Lemma ext_multi_ok : forall ext h p,
    calls_ok (only_ext ext [map_calls Auto (h_params h); disp_calls h; CStr (h_lang h); CStr (h_loc h)]) false p = true.
  Proof.
    intros ext h p. unfold only_ext. destruct ext; [|reflexivity].
    cbn [calls_ok andb]. rewrite (map_calls_ok Auto (h_params h) false p eq_refl).
    rewrite is_clist_map_calls, disp_calls_ok. reflexivity.
  Qed.

  Variable la : bool.
  Local Notation structure_calls := (StructWriter.structure_calls la) (only parsing).
  Local Notation child_calls := (StructWriter.child_calls la) (only parsing).

  Lemma children_calls_ok : forall ms ext children rest,
    Forall (fun c => calls_ok (structure_calls ms ext c) true false = true) children ->
    children <> [] -> calls_ok rest false true = true ->
    forall f p, (f || p) = true ->
    calls_ok (map (fun c => CList Adj (structure_calls ms ext c)) children ++ rest) f p = true.
  Proof.
    intros ms ext children rest HF. induction HF as [|c cs Hc Hcs IH]; intros Hne Hrest f p Hfp; [contradiction|].
    cbn [map app calls_ok]. rewrite call_ok_clist, Hfp, Hc. cbn [andb is_clist].
    destruct cs as [|c' cs'].
    - cbn [map app]. exact Hrest.
    - apply IH; [discriminate|exact Hrest|reflexivity].
  Qed.

  Lemma child_calls_eq : forall ms ext h env size lines emb children,
    child_calls ms ext (MNode h env size lines emb children) =
    if is_msg h then match emb with Some c => child_calls ms ext c | None => [] end
    else map (fun c => CList Adj (structure_calls ms ext c)) children.
  Proof. reflexivity. Qed.

  Lemma structure_calls_eq : forall ms ext h env size lines emb children,
    structure_calls ms ext (MNode h env size lines emb children) =
    match (if is_msg h
           then (if ms then [] else match emb with Some c => child_calls ms ext c | None => [] end)
           else map (fun c => CList Adj (structure_calls ms ext c)) children) with
    | [] =>
      [CStr (h_type h); CStr (h_sub h); map_calls Auto (h_params h); CStr (h_id h); CStr (h_desc h); CStr (h_enc h); CNum size]
      ++ (if is_msg h then match emb with
                           | Some child => [envelope_calls Forced (node_env child); CList Adj (structure_calls ms ext child)]
                           | None => [] end else [])
      ++ (if has_lines la h then [CNum lines] else [])
      ++ only_ext ext [CStr (h_md5 h); disp_calls h; CStr (h_lang h); CStr (h_loc h)]
    | _ :: _ =>
      (if is_msg h
       then (if ms then [] else match emb with Some c => child_calls ms ext c | None => [] end)
       else map (fun c => CList Adj (structure_calls ms ext c)) children)
      ++ [CStr (h_sub h)]
      ++ only_ext ext [map_calls Auto (h_params h); disp_calls h; CStr (h_lang h); CStr (h_loc h)]
    end.
  Proof. reflexivity. Qed.

  (* both for the calls of structure(t) and for the child structures of t (childStructures over section.Children()) *)
  Definition tree_calls_ok (ms ext : bool) (t : mtree) : Prop :=
    calls_ok (structure_calls ms ext t) true false = true /\
    (forall rest f p, (f || p) = true -> calls_ok rest false true = true -> child_calls ms ext t <> [] ->
       calls_ok (child_calls ms ext t ++ rest) f p = true).

  Lemma tree_calls_ok_all : forall ms ext t, tree_calls_ok ms ext t.
  Proof.
    intros ms ext t. induction t using mtree_ind2.
    rename H into Hemb. rename H0 into Hch.
    assert (Hch1 : Forall (fun c => calls_ok (structure_calls ms ext c) true false = true) children).
    { eapply Forall_impl; [|exact Hch]. intros c [A _]. exact A. }
    assert (Hsingle : calls_ok
      ([CStr (h_type h); CStr (h_sub h); map_calls Auto (h_params h); CStr (h_id h); CStr (h_desc h); CStr (h_enc h); CNum size]
       ++ (if is_msg h then match emb with
                            | Some child => [envelope_calls Forced (node_env child); CList Adj (structure_calls ms ext child)]
                            | None => [] end else [])
       ++ (if has_lines la h then [CNum lines] else [])
       ++ only_ext ext [CStr (h_md5 h); disp_calls h; CStr (h_lang h); CStr (h_loc h)]) true false = true).
    { cbn [app calls_ok call_ok is_clist andb]. rewrite (map_calls_ok Auto (h_params h) false false eq_refl).
      cbn [andb].
      destruct (is_msg h); [destruct emb as [child|]|].
      - cbn [app calls_ok]. rewrite (envelope_calls_ok Forced (node_env child) false false eq_refl).
        rewrite call_ok_clist. unfold opt_P in Hemb. destruct Hemb as [Hc _]. rewrite Hc.
        replace (is_clist (envelope_calls Forced (node_env child))) with true by reflexivity.
        destruct (has_lines la h); cbn [orb andb app calls_ok call_ok is_clist]; apply ext_single_ok.
      - destruct (has_lines la h); cbn [app calls_ok call_ok andb is_clist]; apply ext_single_ok.
      - destruct (has_lines la h); cbn [orb app calls_ok call_ok andb is_clist]; apply ext_single_ok. }
    assert (Hrest : calls_ok ([CStr (h_sub h)] ++
                       only_ext ext [map_calls Auto (h_params h); disp_calls h; CStr (h_lang h); CStr (h_loc h)]) false true = true).
    { cbn [app calls_ok call_ok is_clist andb]. apply ext_multi_ok. }
    split.
    - (* structure(t) *)
      rewrite structure_calls_eq. destruct (is_msg h) eqn:Em.
      + destruct ms; [exact Hsingle|].
        destruct emb as [c|]; [|exact Hsingle].
        destruct (child_calls false ext c) as [|x xs] eqn:Ecc; [exact Hsingle|].
        unfold opt_P in Hemb. destruct Hemb as [_ Hc2]. rewrite <- Ecc.
        apply Hc2; auto. rewrite Ecc. discriminate.
      + destruct children as [|c cs]; [exact Hsingle|].
        cbn [map]. cbv iota beta.
        change (CList Adj (structure_calls ms ext c) :: map (fun c0 : mtree => CList Adj (structure_calls ms ext c0)) cs)
          with (map (fun c0 : mtree => CList Adj (structure_calls ms ext c0)) (c :: cs)).
        apply children_calls_ok; auto. discriminate.
    - (* the child structures of t *)
      intros rest f p Hfp Hr Hne. rewrite child_calls_eq in *. destruct (is_msg h).
      + destruct emb as [c|]; [|contradiction]. unfold opt_P in Hemb. destruct Hemb as [_ Hc2]. apply Hc2; auto.
      + apply children_calls_ok; auto. intros ->. apply Hne. reflexivity.
  Qed.

  Lemma structure_calls_ok : forall ms ext t, calls_ok (structure_calls ms ext t) true false = true.
  Proof. intros ms ext t. exact (proj1 (tree_calls_ok_all ms ext t)). Qed.

  (* ---------- the theorems ---------- *)
  Theorem writer_structure_wf : forall ms ext t, wf_plist (write_structure esc la ms ext t) = true.
  Proof. intros ms ext t. unfold write_structure. apply exec_wf. apply structure_calls_ok. Qed.

  Theorem writer_envelope_wf : forall e, wf_plist (write_envelope esc e) = true.
  Proof.
    intros e. unfold write_envelope, envelope_calls. apply exec_wf.
    cbn [calls_ok andb call_ok]. rewrite !opt_addr_calls_ok. reflexivity.
  Qed.

  (* the written text read back with the checker is exactly the syntax tree of the call sequence: positions of
     type, subtype, sorted parameters, size, line count ... are those of the MIME tree *)
  Theorem writer_structure_reads_back : forall ms ext t,
    parse_plist (write_structure esc la ms ext t) = Some (PList (ast_list (structure_calls ms ext t) true)).
  Proof.
    intros ms ext t. unfold write_structure. rewrite exec_clist. cbn [app]. rewrite exec_list_render.
    rewrite <- render_list. apply parse_plist_render. rewrite valid_list. apply calls_ok_valid. apply structure_calls_ok.
  Qed.

  (* with the decision rule of notes/C12-fix-2.diff every message/rfc822 node is written in the single-part form:
     type, subtype, ..., size, envelope of the embedded message, structure of the embedded message, lines *)
  Theorem writer_message_single : forall ext h env size lines child children, is_msg h = true ->
    structure_calls true ext (MNode h env size lines (Some child) children) =
      [CStr (h_type h); CStr (h_sub h); map_calls Auto (h_params h); CStr (h_id h); CStr (h_desc h); CStr (h_enc h); CNum size]
      ++ [envelope_calls Forced (node_env child); CList Adj (structure_calls true ext child)]
      ++ [CNum lines]
      ++ only_ext ext [CStr (h_md5 h); disp_calls h; CStr (h_lang h); CStr (h_loc h)].
  Proof.
    intros ext h env size lines child children Hm. rewrite structure_calls_eq. rewrite Hm.
    assert (Hl : has_lines la h = true).
    { unfold has_lines. rewrite Hm. unfold is_msg in Hm. apply andb_true_iff in Hm as [Ht _]. rewrite Ht.
      destruct la; apply orb_true_r. }
    rewrite Hl. reflexivity.
  Qed.

  (* a childless part that is neither text/... nor message/rfc822 is written without a line count when the rule is
     the one of RFC 3501 (la = false) *)
  Theorem writer_other_leaf_has_no_lines : forall ms ext h env size lines,
    is_text h = false -> is_msg h = false ->
    StructWriter.structure_calls false ms ext (MNode h env size lines None []) =
      [CStr (h_type h); CStr (h_sub h); map_calls Auto (h_params h); CStr (h_id h); CStr (h_desc h); CStr (h_enc h); CNum size]
      ++ only_ext ext [CStr (h_md5 h); disp_calls h; CStr (h_lang h); CStr (h_loc h)].
  Proof.
    intros ms ext h env size lines Ht Hm. cbn [StructWriter.structure_calls map]. rewrite Hm.
    unfold has_lines. rewrite Ht, Hm. reflexivity.
  Qed.
End WithEsc.

(* ---------- the concrete Quote used by the correspondence run satisfies the hypothesis (non-vacuity) ---------- *)
Lemma hex_digit_not_special : forall n, (n < 16)%N ->
  N.eqb (hex_digit n) BSL = false /\ N.eqb (hex_digit n) DQ = false /\ is_crlf (hex_digit n) = false.
Proof.
  intros n H. unfold hex_digit, BSL, DQ, is_crlf.
  destruct (N.ltb_spec n 10); repeat split; try (apply N.eqb_neq; lia);
    apply orb_false_iff; split; apply N.eqb_neq; lia.
Qed.

Lemma esc_go_closed : forall v, qc_ok (esc_go v) = true.
Proof.
  induction v as [|b t IH]; [reflexivity|].
  unfold esc_go in *. cbn [flat_map]. unfold esc_byte.
  repeat match goal with
  | |- context [if N.eqb b ?k then _ else _] => destruct (N.eqb_spec b k); [subst b; cbn [app qc_ok]; exact IH|]
  end.
  destruct (N.ltb b 32 || N.eqb b 127) eqn:Ec.
  - assert (H1 : (b / 16 < 16)%N).
    { apply N.div_lt_upper_bound; [lia|]. apply orb_true_iff in Ec as [Ec|Ec].
      - apply N.ltb_lt in Ec. lia. - apply N.eqb_eq in Ec. lia. }
    assert (H2 : (b mod 16 < 16)%N) by (apply N.mod_lt; lia).
    destruct (hex_digit_not_special _ H1) as (A1 & A2 & A3). destruct (hex_digit_not_special _ H2) as (B1 & B2 & B3).
    cbn [app qc_ok]. replace (N.eqb 92 BSL) with true by reflexivity.
    replace (is_crlf 120) with false by reflexivity. cbn [negb andb].
    rewrite A1, A2, A3, B1, B2, B3. cbn [negb andb]. exact IH.
  - cbn [app qc_ok]. unfold BSL, DQ.
    destruct (N.eqb_spec b 92); [contradiction|]. destruct (N.eqb_spec b 34); [contradiction|].
    assert (Hc : is_crlf b = false).
    { unfold is_crlf. apply orb_false_iff. split; apply N.eqb_neq; auto. }
    rewrite Hc. exact IH.
Qed.
