(* C20 - a message handed to APPEND is never silently lost.
   Property theorems only; proofs are `exact <lemma>` / vm_compute witnesses, each followed by Print Assumptions.
   Model: Model/MailStore.v. The connector's behaviour is an input of every operation (CreateMessage accepting /
   rejecting / rejecting for size; label and move calls succeeding or failing), so the theorems hold for every pattern
   of remote failures. `hash` (rfc822.GetMessageHash) is abstract: a variable of every theorem.
   wf: well-formed store (Proofs/MailStoreWf.v, preserved by every operation); wfC: the recovery mailbox and the
   in-memory hash map agree (every entry has its row, the hash of every row that has one is known, no two rows with
   one hash; rows whose literal cannot be hashed - hash lit = None - have no entry and are never de-duplicated) -
   preserved by every operation provided actionMoveMessagesOutOfRecoveryMailbox erases hashes only after the label
   step succeeded (cf_erase_late, extracted by T1; without it: C20_early_erase_refuted). *)
From Coq Require Import List ZArith NArith Bool Lia.
From Gluon Require Import Gen.FactsLimits Model.UidValidityGen Model.MailStore Proofs.MailStoreBase Proofs.MailStoreWf
  Proofs.MailStoreC04 Proofs.MailStoreC17 Proofs.MailStoreC20 Model.MailStoreDedup Proofs.MailStoreDedup
  Model.ContentHash Proofs.ContentHash.
From Coq Require Import Permutation.
Import ListNotations.
Open Scope Z_scope.

Theorem C20_facts : cf_erase_late facts_now = true /\ cf_raw_fallback facts_now = true.
Proof. split; reflexivity. Qed.
Print Assumptions C20_facts.

(* the invariant holds along every history (APPEND/COPY/MOVE/EXPUNGE/CREATE/DELETE/RENAME/connector updates/restart,
   any failure pattern) *)
Theorem C20_invariant : forall hash fx c clock h s, wf s -> cf_erase_late fx = true -> wfC hash fx s ->
  wf (run hash fx c clock s h) /\ wfC hash fx (run hash fx c clock s h).
Proof.
  intros hash fx c clock h s W Fe C. split; [exact (proj1 (good_run hash fx c clock h s W)) | exact (wfC_run hash fx c clock h s W Fe C)].
Qed.
Print Assumptions C20_invariant.

(* answered OK => the literal is in the target mailbox under the announced UID *)
Theorem C20_ok_means_present_under_uid : forall hash fx c s n lit r s' a, wf s ->
  op_append hash fx c s n lit r = (s', ResOk a) ->
  exists u id m', a = [(0, u)] /\ find_name n (s_mboxes s') = Some m' /\ In (u, (id, lit)) (mb_rows m').
Proof. exact append_announced. Qed.
Print Assumptions C20_ok_means_present_under_uid.

(* `dkey hash fx` is the de-duplication key MessageHashesMap.Insert works with: the content hash when it can be computed,
   otherwise (cf_raw_fallback, extracted by T1 from Insert) a hash of the raw bytes - distinct per distinct literal and
   disjoint from the content hashes. *)

(* the remote side rejects it (the mailbox exists, the limits admit it, CreateMessage fails for a reason other than
   size): the bytes are recoverable - afterwards the recovery mailbox holds the literal itself or a message with the
   literal's key. Holds with and without the fallback. *)
Theorem C20_rejected_is_recoverable : forall hash fx c s n lit m, wf s -> wfC hash fx s -> is_recov n = false ->
  find_name n (s_mboxes s) = Some m -> room c m 1 = true ->
  exists r, In r (rec_rows (fst (op_append hash fx c s n lit RemFail))) /\
            (row_lit r = lit \/ exists h, dkey hash fx lit = Some h /\ dkey hash fx (row_lit r) = Some h).
Proof. exact rejected_recoverable. Qed.
Print Assumptions C20_rejected_is_recoverable.

(* once per distinct message, for EVERY literal: exactly one message with the literal's key, and the answer is NO *)
Theorem C20_rejected_is_recovered_once_partial : forall hash fx c s n lit m, cf_raw_fallback fx = true ->
  wf s -> wfC hash fx s -> is_recov n = false -> find_name n (s_mboxes s) = Some m -> room c m 1 = true ->
  exists k, dkey hash fx lit = Some k /\
    (snd (op_append hash fx c s n lit RemFail) = ResNo \/ snd (op_append hash fx c s n lit RemFail) = ResNoKnown) /\
    count_hash hash fx k (rec_rows (fst (op_append hash fx c s n lit RemFail))) = 1%nat.
Proof. exact rejected_recovered_once_key. Qed.
Print Assumptions C20_rejected_is_recovered_once_partial.

(* a literal whose content hash cannot be computed is kept exactly once, literally (repeated APPENDs of the same bytes) *)
Theorem C20_rejected_hashless_once : forall hash fx c s n lit m, cf_raw_fallback fx = true ->
  wf s -> wfC hash fx s -> is_recov n = false -> find_name n (s_mboxes s) = Some m -> room c m 1 = true -> hash lit = None ->
  count_lit lit (rec_rows (fst (op_append hash fx c s n lit RemFail))) = 1%nat.
Proof. exact rejected_hashless_once. Qed.
Print Assumptions C20_rejected_hashless_once.

(* full statement - exactly once per distinct LITERAL - holds when the key identifies the literal ... *)
Theorem C20_rejected_is_recovered_once_injective : forall hash fx c s n lit m h,
  (forall a b x, dkey hash fx a = Some x -> dkey hash fx b = Some x -> a = b) -> dkey hash fx lit = Some h ->
  wf s -> wfC hash fx s -> is_recov n = false -> find_name n (s_mboxes s) = Some m -> room c m 1 = true ->
  count_lit lit (rec_rows (fst (op_append hash fx c s n lit RemFail))) = 1%nat.
Proof.
  intros hash fx c s n lit m h Inj Eh W C Rn F Rm. rewrite (count_lit_hash hash fx lit h _ Inj Eh).
  exact (proj2 (rejected_recovered_once_hash hash fx c s n lit m h W C Rn F Rm Eh)).
Qed.
Print Assumptions C20_rejected_is_recovered_once_injective.

(* ... and is refuted for colliding content hashes (recorded finding D17): two different literals with one content hash
   (the real hash ignores Date, Message-Id and most other headers), both rejected: the second one is answered "known
   recovered message" and is kept nowhere. *)
Theorem C20_rejected_is_recovered_once_refuted :
  exists (hash : N -> option N) (s : store) (lit : N),
    wf s /\ wfC hash facts_fixed s /\
    snd (op_append hash facts_fixed (mkCfg 100 100 100000 100) s inbox_name lit RemFail) = ResNoKnown /\
    count_lit lit (rec_rows (fst (op_append hash facts_fixed (mkCfg 100 100 100000 100) s inbox_name lit RemFail))) = 0%nat /\
    (forall m, In m (s_mboxes (fst (op_append hash facts_fixed (mkCfg 100 100 100000 100) s inbox_name lit RemFail))) ->
               forall r, In r (mb_rows m) -> snd (snd r) <> lit).
Proof.
  set (hash := fun _ : N => Some 0%N). set (c := mkCfg 100 100 100000 100). set (clock := fun _ : nat => 0).
  set (h := [OConnCreate inbox_name; OAppend inbox_name 7%N RemFail]).
  exists hash, (run hash facts_fixed c clock (init_store 100) h), 8%N.
  assert (W0 : wf (init_store 100)) by apply wf_init.
  assert (C0 : wfC hash facts_fixed (init_store 100)).
  { constructor; [intros id x Hx; vm_compute in Hx; destruct Hx | intros r x Hr; vm_compute in Hr; destruct Hr | vm_compute; constructor]. }
  split; [exact (proj1 (good_run hash facts_fixed c clock h _ W0))|].
  split; [exact (wfC_run hash facts_fixed c clock h _ W0 eq_refl C0)|].
  split; [vm_compute; reflexivity|]. split; [vm_compute; reflexivity|].
  vm_compute. intros m Hm r Hr. destruct Hm as [<-|[<-|[]]]; cbn in Hr; [destruct Hr as [<-|[]]; discriminate | destruct Hr].
Qed.
Print Assumptions C20_rejected_is_recovered_once_refuted.
(* the fallback is necessary: with Insert returning the hashing error (the code before a164a71) a literal without content
   hash that is rejected twice is kept twice *)
Theorem C20_without_raw_fallback_refuted :
  exists (h : list op) (lit : N),
    count_lit lit (rec_rows (run (fun _ => None) (mkFacts true true true true true false true) (mkCfg 100 100 100000 100) (fun _ => 0) (init_store 100) h)) = 2%nat.
Proof.
  exists [OConnCreate inbox_name; OAppend inbox_name 7%N RemFail; OAppend inbox_name 7%N RemFail], 7%N. vm_compute. reflexivity.
Qed.
Print Assumptions C20_without_raw_fallback_refuted.

(* listed exactly while non-empty: State.List drops the recovery mailbox iff it holds no message (and never drops
   another mailbox for that reason) *)
Theorem C20_listed_iff_nonempty : forall s mr, In mr (s_mboxes s) -> mb_id mr = recov_id ->
  listed s = map mb_name (listed_mboxes s) /\ (In mr (listed_mboxes s) <-> mb_rows mr <> []).
Proof. intros s mr H1 H2. split; [apply listed_is_map | apply listed_iff_nonempty; assumption]. Qed.
Print Assumptions C20_listed_iff_nonempty.

(* protected: client commands aimed at the recovery mailbox are refused and change nothing *)
Theorem C20_protected : forall hash fx c clock s,
  (forall lit r, op_append hash fx c s recov_name lit r = (s, ResNo)) /\
  (forall r, op_delete s recov_name r = (s, ResNo)) /\
  (forall b r, op_rename fx c clock s recov_name b r = (s, ResNo)) /\
  (forall a r, op_rename fx c clock s a recov_name r = (s, ResNo)) /\
  (forall a u cr lab, op_copy fx c s a u recov_name cr lab = (s, ResNo)) /\
  (forall a u cr lab, op_move fx c s a u recov_name cr lab = (s, ResNo)) /\
  (forall n r, recov_prefixed n = true ->
     (forall a, snd (op_create fx c clock s n r) <> ResOk a) /\
     s_mboxes (fst (op_create fx c clock s n r)) = s_mboxes s /\ s_hashes (fst (op_create fx c clock s n r)) = s_hashes s).
Proof.
  intros hash fx c clock s.
  split; [intros; apply protected_append|]. split; [intros; apply protected_delete|].
  split; [intros; apply protected_rename_from|]. split; [intros; apply protected_rename_to|].
  split; [intros; apply protected_copy_into|]. split; [intros; apply protected_move_into|].
  intros n r H. exact (proj2 (protected_create fx c clock s n r H)).
Qed.
Print Assumptions C20_protected.

(* ... and no operation at all - client or connector - removes or renames it *)
Theorem C20_recovery_mailbox_persists : forall hash fx c clock h s, wf s ->
  exists m, find_name recov_name (s_mboxes (run hash fx c clock s h)) = Some m /\ mb_id m = recov_id.
Proof. intros hash fx c clock h s W. exact (wf_recov _ _ _ (proj1 (good_run hash fx c clock h s W))). Qed.
Print Assumptions C20_recovery_mailbox_persists.

(* its messages can be moved or copied out into a normal mailbox with room: the command is accepted, every selected
   message is announced and found (same literal) under the announced UID in the destination ... *)
Theorem C20_move_copy_out_accepted : forall fx c s d sel mv, wf s -> In d (s_mboxes s) -> mb_id d <> recov_id ->
  room c d (zlen sel) = true ->
  exists s' pairs, out_of_recovery fx c s d sel mv true true = (s', ResOk pairs) /\ length pairs = length sel.
Proof. exact out_of_recovery_accepted. Qed.
Print Assumptions C20_move_copy_out_accepted.
Theorem C20_move_copy_out_announced : forall fx c s a b m d u mv cr lab s' pairs, wf s ->
  find_name a (s_mboxes s) = Some m -> find_name b (s_mboxes s) = Some d -> mb_id d <> recov_id ->
  out_of_recovery fx c s d (selection m u) mv cr lab = (s', ResOk pairs) -> announced_ok s s' a b pairs.
Proof. exact out_of_recovery_announced. Qed.
Print Assumptions C20_move_copy_out_announced.
(* ... and a MOVE takes exactly the selected messages (and their hashes) out of the recovery mailbox, a COPY leaves it
   as it is; a failed attempt changes neither (rchange: same / removed ids) *)
Theorem C20_move_copy_out_effect_on_recovery : forall hash fx c ad s d sel mv cr lab, wf s -> cf_erase_late fx = true ->
  mb_id d <> recov_id -> rchange hash fx ad s (fst (out_of_recovery fx c s d sel mv cr lab)).
Proof. intros hash fx c ad s d sel mv cr lab. exact (rchange_out_of_recovery hash fx c ad s d sel mv cr lab). Qed.
Print Assumptions C20_move_copy_out_effect_on_recovery.

(* a remote that DE-DUPLICATES (CreateMessage answers with a message gluon already knows; Model/MailStoreDedup.v): the
   store invariant is preserved by every operation, and an accepted MOVE / COPY out of the recovery mailbox leaves every
   message the remote named in the destination - whatever other mailboxes hold it - and (MOVE) takes exactly the selected
   messages out of the recovery mailbox *)
Theorem C20_dedup_preserves_wf : forall hash fx c clock s o, wf s -> wf (fst (step_dedup hash fx c clock s o)).
Proof. intros hash fx c clock s o W. exact (proj1 (good_step_dedup hash fx c clock s o W)). Qed.
Print Assumptions C20_dedup_preserves_wf.
Theorem C20_move_out_dedup_adds_named : forall c s b d sel mv s' a, wf s -> find_name b (s_mboxes s) = Some d ->
  mb_id d <> recov_id -> out_dedup c s d sel mv true = (s', ResOk a) ->
  (exists d', find_name b (s_mboxes s') = Some d' /\
     forall x, In x (named_msgs (s_mboxes s) (s_nextmsg s) sel) -> exists u lit, In (u, (fst x, lit)) (mb_rows d')) /\
  rec_rows s' = (if mv then keep_rows (map (fun r : row => fst (snd r)) sel) (rec_rows s) else rec_rows s).
Proof. exact out_dedup_adds_named. Qed.
Print Assumptions C20_move_out_dedup_adds_named.
(* APPEND flags: the model's APPEND has no flag argument - neither Mailbox.Append nor actionCreateRecoveredMessage nor the
   model's insert depend on them, so C20_ok_means_present_under_uid and C20_rejected_is_recoverable hold "for any flag
   set"; that the SQL layer stores a message whatever its flags (\Deleted alone or combined) is exercised by the harness. *)

(* erasing the hashes before the label step (the code before the fix): a MOVE out of the recovery mailbox that fails
   at the label step leaves the message there but forgets its hash, and the next rejected APPEND of the same literal
   stores it a second time *)
Theorem C20_early_erase_refuted :
  exists (h : list op) (lit : N),
    count_lit lit (rec_rows (run (fun l => Some l) (mkFacts true true true true false true true) (mkCfg 100 100 100000 100) (fun _ => 0) (init_store 100) h)) = 2%nat.
Proof.
  exists [OConnCreate inbox_name; OAppend inbox_name 7%N RemFail; OMove recov_name [1] inbox_name true false; OAppend inbox_name 7%N RemFail], 7%N.
  vm_compute. reflexivity.
Qed.
Print Assumptions C20_early_erase_refuted.

(* ---- the content hash is a function of the bytes, and the body of a text part always reaches it ----
   (Model/ContentHash.v: what `hash` above abstracts from rfc822.GetMessageHash depends on two places of rfc822/hash.go;
   T1 extracts both: the parameter names are sorted before the loop, hashBody has a default arm taking the raw body) *)
Theorem C20_content_hash_facts : hf_sorted hashfacts_now = true /\ hf_default_raw hashfacts_now = true.
Proof. split; reflexivity. Qed.
Print Assumptions C20_content_hash_facts.

(* whatever order two calls get the Content-Type parameters of a part out of the map in, they write the same bytes into
   the hash - so a retry of the same rejected literal finds its hash in the map *)
Theorem C20_content_hash_does_not_depend_on_map_order : forall f p1 p2, hf_sorted f = true ->
  Permutation p1 p2 -> NoDup (map fst p1) -> param_input f p1 = param_input f p2.
Proof. exact params_order_independent. Qed.
Print Assumptions C20_content_hash_does_not_depend_on_map_order.

Theorem C20_content_hash_map_order_refuted : exists p1 p2, Permutation p1 p2 /\ NoDup (map fst p1) /\
  param_input (mkHashFacts false true) p1 <> param_input (mkHashFacts false true) p2.
Proof. exact params_unsorted_order_dependent. Qed.
Print Assumptions C20_content_hash_map_order_refuted.

(* under every identity transfer encoding (7bit, 8bit, binary, any other token, none) the body bytes reach the hash: two
   messages differing only there have different hash input; and which identity encoding is declared makes no difference *)
Theorem C20_content_hash_covers_body_under_every_identity_encoding : forall b64 qp f e b1 b2, hf_default_raw f = true ->
  identity_encoding e = true -> body_input b64 qp f e b1 = body_input b64 qp f e b2 -> b1 = b2.
Proof. exact body_identity_injective. Qed.
Print Assumptions C20_content_hash_covers_body_under_every_identity_encoding.

Theorem C20_content_hash_ignores_which_identity_encoding : forall b64 qp f e1 e2 b, hf_default_raw f = true ->
  identity_encoding e1 = true -> identity_encoding e2 = true -> body_input b64 qp f e1 b = body_input b64 qp f e2 b.
Proof. exact body_identity_same. Qed.
Print Assumptions C20_content_hash_ignores_which_identity_encoding.

Theorem C20_content_hash_without_default_arm_refuted : forall b64 qp, exists b1 b2, b1 <> b2 /\
  body_input b64 qp (mkHashFacts true false) EncBinary b1 = body_input b64 qp (mkHashFacts true false) EncBinary b2.
Proof. exact body_without_default_collides. Qed.
Print Assumptions C20_content_hash_without_default_arm_refuted.

(* non-vacuity: the start state satisfies wf and wfC; a history with rejection, duplicate, move out, restart *)
Example C20_start_ok : wf (init_store 100) /\ wfC (fun l => Some l) facts_fixed (init_store 100).
Proof. split; [apply wf_init|]. constructor; [intros id x Hx; vm_compute in Hx; destruct Hx | intros r x Hr; vm_compute in Hr; destruct Hr | vm_compute; constructor]. Qed.
Example C20_history_example :
  run_results (fun l => Some l) facts_fixed (mkCfg 100 100 100000 100) (fun _ => 0) (init_store 100)
    [OConnCreate inbox_name; OAppend inbox_name 7%N RemFail; OAppend inbox_name 7%N RemFail; OAppend inbox_name 8%N RemSize;
     OMove recov_name [1] inbox_name true true; OAppend inbox_name 7%N RemFail; ORestart; OAppend inbox_name 7%N RemFail;
     OAppend recov_name 9%N RemOk]
  = [ResOk []; ResNo; ResNoKnown; ResNoSize; ResOk [(1, 1)]; ResNo; ResOk []; ResNoKnown; ResNo].
Proof. vm_compute. reflexivity. Qed.
(* literal 9 has no content hash: kept once (raw-bytes key), thrown away together with an ordinary message (Erase over a list
   with an id that has no hash entry), the ordinary message rejected again is kept again; restart rebuilds the map *)
Example C20_hashless_history_example :
  run_results (fun l => if N.eqb l 9 then None else Some l) facts_fixed (mkCfg 100 100 100000 100) (fun _ => 0) (init_store 100)
    [OConnCreate inbox_name; OAppend inbox_name 9%N RemFail; OAppend inbox_name 7%N RemFail; OAppend inbox_name 9%N RemFail;
     OExpunge recov_name [1; 2] true; OAppend inbox_name 7%N RemFail; ORestart; OAppend inbox_name 7%N RemFail;
     OAppend inbox_name 9%N RemFail; OMove recov_name [3; 4] inbox_name true true; OAppend inbox_name 7%N RemFail]
  = [ResOk []; ResNo; ResNo; ResNoKnown; ResOk []; ResNo; ResOk []; ResNoKnown; ResNo; ResOk [(3, 1); (4, 2)]; ResNo].
Proof. vm_compute. reflexivity. Qed.
(* de-duplicating remote: the rejected message is recovered, the same bytes are accepted into mailbox 2 (Archive), then
   the recovered copy is moved to INBOX: the remote names the Archive message, which must end up in INBOX as well *)
Example C20_dedup_example :
  let hashf := fun l : N => Some l in
  let cfg := mkCfg 100 100 100000 100 in
  let s1 := run hashf facts_fixed cfg (fun _ => 0) (init_store 100)
              [OConnCreate inbox_name; OCreate [2%N] true; OAppend inbox_name 7%N RemFail] in
  let s2 := fst (step_dedup hashf facts_fixed cfg (fun _ => 0) s1 (OAppend [2%N] 7%N RemOk)) in
  let s3 := fst (step_dedup hashf facts_fixed cfg (fun _ => 0) s2 (OMove recov_name [1] inbox_name true true)) in
  rec_rows s3 = [] /\ map (fun m => (mb_name m, map (fun r => snd (snd r)) (mb_rows m))) (s_mboxes s3)
                     = [(recov_name, []); (inbox_name, [7%N]); ([2%N], [7%N])].
Proof. vm_compute. split; reflexivity. Qed.
