package main

// Recorder + wrappers around store.Store and db.Client: every store call, transaction boundary and statement is a
// counted step boundary; at an armed boundary the process kills itself or the step returns an error.

import (
	"context"
	"errors"
	"fmt"
	"io"
	"os"
	"path/filepath"
	"strings"
	"sync"
	"syscall"

	"github.com/ProtonMail/gluon/db"
	"github.com/ProtonMail/gluon/imap"
	"github.com/ProtonMail/gluon/store"
)

var errInjected = errors.New("verif: injected step failure")
var errCancelCtx = errors.New("verif: cancel the context before COMMIT")
var errTear = errors.New("verif: die inside store.Set")

type event struct {
	K    string   `json:"k"`           // begin-w begin-r commit rollback end-r stmt set get del list
	N    string   `json:"n,omitempty"` // method name
	W    bool     `json:"w,omitempty"`
	Args []string `json:"a,omitempty"` // projected arguments (ids, mailbox, uids)
}

type recorder struct {
	mu      sync.Mutex
	tracing bool
	events  []event
	armed   bool
	left    int
	mode    string
	fired   bool
	seen    int
	total   int // every boundary since the start of the process (armed or not)
	open    int // database calls (Read / Write) and store calls in progress
	cut     int // mode "tear": how much of the cache file the dying store.Set leaves (see tearLength)
}

func (r *recorder) enter() { r.mu.Lock(); r.open++; r.mu.Unlock() }
func (r *recorder) leave() { r.mu.Lock(); r.open--; r.total++; r.mu.Unlock() }

// boundary is called BEFORE a step is performed.
func (r *recorder) boundary(what string) error {
	r.mu.Lock()
	defer r.mu.Unlock()
	r.total++
	if !r.armed {
		return nil
	}
	r.seen++
	if r.fired {
		return nil
	}
	if r.left > 0 {
		r.left--
		return nil
	}
	if r.mode == "tear" {
		// the process dies INSIDE a store.Set: only meaningful at a store.Set boundary
		if what != "store.Set" {
			return nil
		}
		r.fired = true
		return errTear
	}
	if r.mode == "cancel" {
		// the context of the transaction is cancelled between its last statement and COMMIT: only meaningful at a
		// commit boundary (the parent arms it there); anywhere else the step just runs
		if what != "commit" {
			return nil
		}
		r.fired = true
		return errCancelCtx
	}
	r.fired = true
	if r.mode == "kill" {
		syscall.Kill(os.Getpid(), syscall.SIGKILL)
		select {}
	}
	return fmt.Errorf("%w at %s", errInjected, what)
}

func (r *recorder) add(e event) {
	r.mu.Lock()
	if r.tracing {
		r.events = append(r.events, e)
	}
	r.mu.Unlock()
}

func (r *recorder) before(name string, write bool) error { return r.boundary("stmt " + name) }

func ids(xs []imap.InternalMessageID) []string {
	out := make([]string, len(xs))
	for i, x := range xs {
		out[i] = x.String()
	}
	return out
}

// after projects the call onto the arguments the model's statements carry.
func (r *recorder) after(name string, write bool, args []any, rets []any) {
	e := event{K: "stmt", N: name, W: write}
	failed := false
	if len(rets) > 0 {
		if err, ok := rets[len(rets)-1].(error); ok && err != nil {
			failed = true
		}
	}
	if write && !failed {
		switch name {
		case "CreateMessages":
			for _, q := range args[0].([]*db.CreateMessageReq) {
				e.Args = append(e.Args, q.InternalID.String())
			}
		case "CreateMessageAndAddToMailbox":
			q := args[1].(*db.CreateMessageReq)
			e.Args = []string{fmt.Sprint(uint64(args[0].(imap.InternalMailboxID))), fmt.Sprint(uint32(rets[0].(imap.UID))), q.InternalID.String()}
		case "AddMessagesToMailbox":
			e.Args = []string{fmt.Sprint(uint64(args[0].(imap.InternalMailboxID)))}
			uids := rets[0].([]db.UIDWithFlags)
			for _, p := range args[1].([]db.MessageIDPair) {
				u := 0
				for _, x := range uids {
					if x.InternalID == p.InternalID {
						u = int(x.UID)
					}
				}
				e.Args = append(e.Args, fmt.Sprint(u), p.InternalID.String())
			}
		case "RemoveMessagesFromMailbox":
			e.Args = append([]string{fmt.Sprint(uint64(args[0].(imap.InternalMailboxID)))}, ids(args[1].([]imap.InternalMessageID))...)
		case "MarkMessageAsDeleted", "MarkMessageAsDeletedAndAssignRandomRemoteID":
			e.Args = []string{args[0].(imap.InternalMessageID).String()}
		case "MarkMessageAsDeletedWithRemoteID":
			e.Args = []string{"rid:" + string(args[0].(imap.MessageID))}
		case "DeleteMessages":
			e.Args = ids(args[0].([]imap.InternalMessageID))
		case "CreateMailbox":
			if mb, ok := rets[0].(*db.Mailbox); ok && mb != nil {
				e.Args = []string{fmt.Sprint(uint64(mb.ID))}
			}
		case "CreateMailboxIfNotExists", "GetOrCreateMailboxAlt":
			e.Args = []string{"name:" + strings.Join(args[0].(imap.Mailbox).Name, args[1].(string))}
		case "GetOrCreateMailbox":
			e.Args = []string{"name:" + args[1].(string)}
		case "DeleteMailboxWithRemoteID", "RenameMailboxWithRemoteID":
			e.Args = []string{"rid:" + string(args[0].(imap.MailboxID))}
		case "SetMailboxSubscribed", "UpdateRemoteMailboxID", "SetMailboxUIDValidity":
			e.Args = []string{fmt.Sprint(uint64(args[0].(imap.InternalMailboxID)))}
		case "AddFlagToMessages", "RemoveFlagFromMessages", "SetFlagsOnMessages":
			e.Args = ids(args[0].([]imap.InternalMessageID))
		case "SetMailboxMessagesDeletedFlag":
			e.Args = ids(args[1].([]imap.InternalMessageID))
		}
	}
	if failed {
		e.K = "stmt-err"
	}
	r.add(e)
}

// ---- db client wrapper ----
type dbIface struct {
	inner db.ClientInterface
	rec   *recorder
	last  *dbClient
}

func (d *dbIface) New(path string, userID string) (db.Client, bool, error) {
	c, isNew, err := d.inner.New(path, userID)
	if err != nil {
		return c, isNew, err
	}
	d.last = &dbClient{inner: c, rec: d.rec}
	return d.last, isNew, nil
}

func (d *dbIface) Delete(path string, userID string) error { return d.inner.Delete(path, userID) }

type dbClient struct {
	inner db.Client
	rec   *recorder
}

// Init (open + migrations) is one step boundary of the start-up: when it fails for a reason that is not a failed
// migration the database must still be there at the next start.
func (c *dbClient) Init(ctx context.Context, g imap.UIDValidityGenerator) error {
	c.rec.enter()
	defer c.rec.leave()
	if err := c.rec.boundary("db.Init"); err != nil {
		return err
	}
	err := c.inner.Init(ctx, g)
	c.rec.add(event{K: "init"})
	return err
}
func (c *dbClient) Close() error                                              { return c.inner.Close() }

func (c *dbClient) Read(ctx context.Context, op func(context.Context, db.ReadOnly) error) error {
	c.rec.enter()
	defer c.rec.leave()
	if err := c.rec.boundary("begin-r"); err != nil {
		return err
	}
	c.rec.add(event{K: "begin-r"})
	err := c.inner.Read(ctx, func(ctx context.Context, r db.ReadOnly) error {
		return op(ctx, &roWrap{inner: r, rec: c.rec})
	})
	c.rec.add(event{K: "end-r"})
	return err
}

func (c *dbClient) Write(ctx context.Context, op func(context.Context, db.Transaction) error) error {
	c.rec.enter()
	defer c.rec.leave()
	if err := c.rec.boundary("begin-w"); err != nil {
		return err
	}
	c.rec.add(event{K: "begin-w"})
	committed := false
	// the transaction runs on a context of its own so that it can be cancelled right before COMMIT
	txCtx, cancel := context.WithCancel(ctx)
	defer cancel()
	err := c.inner.Write(txCtx, func(ctx context.Context, tx db.Transaction) error {
		if err := op(ctx, &txWrap{inner: tx, rec: c.rec}); err != nil {
			return err
		}
		// the commit step: the real COMMIT follows the return of this callback
		if err := c.rec.boundary("commit"); err != nil {
			if errors.Is(err, errCancelCtx) {
				cancel()
				committed = true
				return nil
			}
			return err
		}
		committed = true
		return nil
	})
	if err == nil && committed {
		c.rec.add(event{K: "commit"})
	} else {
		c.rec.add(event{K: "rollback"})
	}
	return err
}

// ---- store wrapper ----
type storeBuilder struct {
	inner store.Builder
	rec   *recorder
}

func (b *storeBuilder) New(dir, userID string, pass []byte) (store.Store, error) {
	s, err := b.inner.New(dir, userID, pass)
	if err != nil {
		return nil, err
	}
	return &storeWrap{inner: s, rec: b.rec, dir: filepath.Join(dir, userID)}, nil
}

const (
	storeHeaderLen = 15             // "GLUON-CACHE" + version
	storeNonceLen  = 12             // AES-GCM nonce
	storeBlockLen  = 64*4096 + 16   // one full sealed block
)

// tearLength: the length of the file a store.Set leaves when the process dies after
//   0: the file was created (nothing written)   1: the header        2: header + nonce (no data block)
//   3: in the middle of the first sealed block   4: all but the last byte   5: exactly the first full sealed block
//   (5 needs a file of more than one block; otherwise it is the same as 4)
func tearLength(cut int, size int64) int64 {
	hn := int64(storeHeaderLen + storeNonceLen)
	switch cut {
	case 0:
		return 0
	case 1:
		return storeHeaderLen
	case 2:
		return hn
	case 3:
		return hn + (size-hn)/2
	case 5:
		if size > hn+storeBlockLen {
			return hn + storeBlockLen
		}
	}
	return size - 1
}

func (b *storeBuilder) Delete(dir, userID string) error { return b.inner.Delete(dir, userID) }

type storeWrap struct {
	dir   string
	inner store.Store
	rec   *recorder
}

func (s *storeWrap) Get(id imap.InternalMessageID) ([]byte, error) {
	s.rec.enter()
	defer s.rec.leave()
	if err := s.rec.boundary("store.Get"); err != nil {
		return nil, err
	}
	b, err := s.inner.Get(id)
	s.rec.add(event{K: "get", Args: []string{id.String()}})
	return b, err
}

func (s *storeWrap) Set(id imap.InternalMessageID, r io.Reader) error {
	s.rec.enter()
	defer s.rec.leave()
	if err := s.rec.boundary("store.Set"); err != nil {
		if errors.Is(err, errTear) {
			// Set writes the file front to back (header, nonce, sealed blocks): what a kill after some of its write
			// calls leaves is a prefix of the complete file. Write it completely, cut it, die.
			s.inner.Set(id, r)
			path := filepath.Join(s.dir, id.String())
			if fi, e := os.Stat(path); e == nil {
				os.Truncate(path, tearLength(s.rec.cut, fi.Size()))
			}
			syscall.Kill(os.Getpid(), syscall.SIGKILL)
			select {}
		}
		return err
	}
	err := s.inner.Set(id, r)
	s.rec.add(event{K: "set", Args: []string{id.String()}})
	return err
}

func (s *storeWrap) Delete(idl ...imap.InternalMessageID) error {
	s.rec.enter()
	defer s.rec.leave()
	// WriteControlledStore.Delete calls this once per id; each call is one step
	if err := s.rec.boundary("store.Delete"); err != nil {
		return err
	}
	err := s.inner.Delete(idl...)
	k := "del"
	if err != nil {
		k = "del-err"
	}
	s.rec.add(event{K: k, Args: ids(idl)})
	return err
}

func (s *storeWrap) Close() error { return s.inner.Close() }

func (s *storeWrap) List() ([]imap.InternalMessageID, error) {
	s.rec.enter()
	defer s.rec.leave()
	if err := s.rec.boundary("store.List"); err != nil {
		return nil, err
	}
	l, err := s.inner.List()
	s.rec.add(event{K: "list"})
	return l, err
}
