(* Correspondence runner for C12: the harness writes the inputs it ran through the real packages (in a child
   process) together with the projected observations; `mismatches` lists the ids on which the Impl model disagrees. *)
From Coq Require Import List NArith Bool Arith.
From Gluon Require Export Base.DecBytes Base.ListX Model.Rfc822Split Model.Rfc822Header Model.Rfc822Sections
  Model.LiteralFrame Model.PList Model.StructWriter Gen.FactsStructure.
Import ListNotations.

Inductive case :=
| CStruct (id : nat) (t : mtree) (body structure envelope : bytes)   (* generated tree; imap.NewParsedMessage *)
| CWf (id : nat) (text : bytes)                                      (* a BODY/BODYSTRUCTURE/ENVELOPE text of any input *)
| CParse (id : nat) (lit : bytes) (ct : list (bytes * ctype)) (obs : stree)  (* section ranges of any input *)
| CHeader (id : nat) (hdr : bytes) (obs : option (list bytes)).      (* rfc822.NewHeader: keys in order / error *)

Definition case_id (c : case) : nat :=
  match c with CStruct i _ _ _ _ => i | CWf i _ => i | CParse i _ _ _ => i | CHeader i _ _ => i end.

Definition ct_lookup (ct : list (bytes * ctype)) (h : bytes) : ctype :=
  match find (fun p => bytes_eqb (fst p) h) ct with Some p => snd p | None => CtOther end.

Definition sect_eqb (a b : sect) : bool :=
  Nat.eqb (s_h a) (s_h b) && Nat.eqb (s_b a) (s_b b) && Nat.eqb (s_e a) (s_e b).

Fixpoint stree_eqb (a b : stree) : bool :=
  match a, b with
  | SNode s1 c1, SNode s2 c2 =>
    sect_eqb s1 s2 &&
    (fix go (x y : list stree) : bool :=
       match x, y with
       | [], [] => true
       | p :: x', q :: y' => stree_eqb p q && go x' y'
       | _, _ => false
       end) c1 c2
  end.

Definition keys_of (h : bytes) : option (list bytes) :=
  match new_header h with
  | HOk es => Some (map (e_key h) (filter has_key es))
  | _ => None
  end.

Definition opt_keys_eqb (a b : option (list bytes)) : bool :=
  match a, b with
  | None, None => true
  | Some x, Some y => list_eqb bytes_eqb x y
  | _, _ => false
  end.

Definition case_ok (c : case) : bool :=
  match c with
  | CStruct _ t body structure envelope =>
    (* the decision rules of structure() / singlePartStructure() are the ones T1 found in the source *)
    bytes_eqb (write_body esc_go structure_lines_any_message structure_msg_single t) body
    && bytes_eqb (write_bodystructure esc_go structure_lines_any_message structure_msg_single t) structure
    && bytes_eqb (write_envelope esc_go (node_env t)) envelope
  | CWf _ text => wf_plist text
  | CParse _ lit ct obs =>
    match section_tree (ct_lookup ct) lit with
    | TOk [t] => stree_eqb t obs
    | _ => false
    end
  | CHeader _ hdr obs => opt_keys_eqb (keys_of hdr) obs
  end.

Definition mismatches (cs : list case) : list nat :=
  map case_id (filter (fun c => negb (case_ok c)) cs).
