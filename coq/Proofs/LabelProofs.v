(* C02, MOVE with a connector of label semantics: the moved messages are added to the destination and the selected
   (source) mailbox keeps every row it had - in the database, hence for every newly opened session. *)
From Coq Require Import List NArith Bool Lia Arith String.
From Gluon Require Import Model.Responders Model.Session Proofs.ReadOnlyProofs.
Import ListNotations.
Open Scope N_scope.

Lemma nth_nth_upd_other {A} (f : A -> A) (d : A) : forall l k j, j <> k -> nth j (nth_upd k f l) d = nth j l d.
Proof.
  induction l as [|x r IH]; intros k j Hne; [destruct k; reflexivity|].
  destruct k as [|k], j as [|j]; cbn; try reflexivity; [congruence|]. apply IH. congruence.
Qed.

Lemma mbox_of_set_mbox_other mb rows w mb' : mb' <> mb -> mbox_of (set_mbox mb rows w) mb' = mbox_of w mb'.
Proof.
  intros H. unfold mbox_of, set_mbox. cbn [w_mbox]. apply nth_nth_upd_other. intros E. apply H. apply N2Nat.inj. exact E.
Qed.

Lemma mbox_of_set_next mb n w mb' : mbox_of (set_next mb n w) mb' = mbox_of w mb'.
Proof. reflexivity. Qed.

Lemma add_rows_other dst mb' : mb' <> dst -> forall ms w w' items,
  add_rows w dst ms = (w', items) -> mbox_of w' mb' = mbox_of w mb' /\ w_sess w' = w_sess w.
Proof.
  intros Hne. induction ms as [|m t IH]; intros w w' items H; cbn [add_rows] in H.
  - injection H as <- _. split; reflexivity.
  - destruct (add_rows _ dst t) as [w2 it] eqn:E. injection H as <- _.
    destruct (IH _ _ _ E) as [A B]. rewrite A, B. rewrite mbox_of_set_next, mbox_of_set_mbox_other by exact Hne.
    split; reflexivity.
Qed.

Lemma remove_rows_other dst mb' ms w : mb' <> dst -> mbox_of (fst (remove_rows w dst ms)) mb' = mbox_of w mb'.
Proof. intros H. unfold remove_rows. cbn [fst]. apply mbox_of_set_mbox_other. exact H. Qed.

Lemma finish_mbox w i ups cs permits w' out mb :
  finish w i ups cs permits = Some (w', out) -> mbox_of w' mb = mbox_of w mb.
Proof.
  unfold finish. destruct (broadcast ups (Some i) cs 0 (w_sess w)) as [ss|]; [|discriminate].
  destruct (get_sess (set_sess ss w) i) as [s|]; [|discriminate].
  destruct (sess_flushes permits s) as [[s' o]|]; [|discriminate]. intros H. injection H as <- _. reflexivity.
Qed.

Theorem label_move_keeps_source w i s sel ps dst w' out :
  get_sess w i = Some s -> ss_idle s = false -> ss_sel s = Some sel -> sel <> dst ->
  do_cmd w i (CMoveLabel ps dst) = (w', out, OOk) ->
  mbox_of w' sel = mbox_of w sel /\ w_flags w' = w_flags w.
Proof.
  intros G Hi Hs Hne. unfold do_cmd. rewrite G, Hi, Hs.
  destruct (msgs_at (s_snap (ss_st s)) ps) as [xs|]; [|intros H; discriminate H].
  destruct (N.eqb_spec sel dst) as [E|_]; [contradiction|].
  set (ms := filter (fun m => row_has m (mbox_of w sel)) (map sm_id xs)).
  set (have := filter (fun m => row_has m (mbox_of w dst)) ms).
  destruct (remove_rows w dst have) as [w1 ups1] eqn:R.
  destruct (add_rows w1 dst ms) as [w3 items] eqn:A.
  destruct (finish w3 i _ false _) as [[w4 o4]|] eqn:F; [|intros H; discriminate H].
  intros H. injection H as <- _.
  split.
  - rewrite (finish_mbox _ _ _ _ _ _ _ sel F).
    destruct (add_rows_other dst sel Hne ms w1 w3 items A) as [A1 _]. rewrite A1.
    pose proof (remove_rows_other dst sel have w Hne) as R1. rewrite R in R1. exact R1.
  - assert (Hf3 : w_flags w3 = w_flags w).
    { assert (Hf1 : w_flags w1 = w_flags w) by (unfold remove_rows in R; injection R as <- _; reflexivity).
      rewrite <- Hf1. clear -A. revert w1 w3 items A. induction ms as [|m t IH]; intros w1 w3 items A; cbn [add_rows] in A.
      - injection A as <- _. reflexivity.
      - destruct (add_rows _ dst t) as [w2 it] eqn:E. injection A as <- _. rewrite (IH _ _ _ E). reflexivity. }
    rewrite <- Hf3. unfold finish in F.
    destruct (broadcast _ (Some i) false 0 (w_sess w3)) as [ss|]; [|discriminate].
    destruct (get_sess (set_sess ss w3) i) as [s1|]; [|discriminate].
    destruct (sess_flushes _ s1) as [[s' o]|]; [|discriminate]. injection F as <- _. reflexivity.
Qed.

(* satisfiable: two messages; the first is label-moved to mailbox 1 and is afterwards in both *)
Definition lb_w0 : world :=
  mkW [(1, []); (2, [])] [[mkRow 1 1 false; mkRow 2 2 false]; []] [3; 1] 3
      [mkSess (Some 0) (mkS [mkSmsg 1 1 []; mkSmsg 2 2 []] []) [] false].

Example label_example :
  exists w', do_cmd lb_w0 0 (CMoveLabel [1%nat] 1) = (w', [], OOk) /\
             mbox_of w' 0 = [mkRow 1 1 false; mkRow 2 2 false] /\ mbox_of w' 1 = [mkRow 1 1 false].
Proof. eexists. vm_compute. repeat split. Qed.
