(* Lemmas about Model.ContentHash: with the sort the parameter part of the hash input does not depend on the iteration
   order of the map; with the default arm two bodies under an identity encoding give the same input only if equal. *)
From Coq Require Import List NArith Bool Lia Permutation.
From Gluon Require Import Gen.FactsLimits Model.ContentHash.
Import ListNotations.

Inductive ksorted : list param -> Prop :=
| ks_nil : ksorted []
| ks_cons : forall x l, (forall y, In y l -> (fst x <= fst y)%N) -> ksorted l -> ksorted (x :: l).

Lemma kins_perm : forall x l, Permutation (x :: l) (kins x l).
Proof.
  intros x l. induction l as [|y t IH]; cbn [kins]; [apply Permutation_refl|].
  destruct (N.leb (fst x) (fst y)); [apply Permutation_refl|].
  eapply Permutation_trans; [apply perm_swap|]. apply perm_skip. exact IH.
Qed.
Lemma ksort_perm : forall l, Permutation l (ksort l).
Proof.
  induction l as [|x t IH]; cbn [ksort fold_right]; [apply perm_nil|].
  eapply Permutation_trans; [apply perm_skip; exact IH|]. apply kins_perm.
Qed.
Lemma kins_sorted : forall x l, ksorted l -> ksorted (kins x l).
Proof.
  intros x l H. induction H as [|y t Hy Ht IH]; cbn [kins].
  - constructor; [intros y []|constructor].
  - destruct (N.leb (fst x) (fst y)) eqn:E.
    + apply N.leb_le in E. constructor; [|constructor; assumption].
      intros z [<-|Hz]; [assumption|]. specialize (Hy z Hz). lia.
    + apply N.leb_gt in E. constructor; [|exact IH].
      intros z Hz. apply (Permutation_in z (Permutation_sym (kins_perm x t))) in Hz. destruct Hz as [<-|Hz]; [lia | apply Hy; assumption].
Qed.
Lemma ksort_sorted : forall l, ksorted (ksort l).
Proof. induction l as [|x t IH]; cbn [ksort fold_right]; [constructor | apply kins_sorted; exact IH]. Qed.

Lemma key_unique : forall (l : list param) a b, NoDup (map fst l) -> In a l -> In b l -> fst a = fst b -> a = b.
Proof.
  induction l as [|x t IH]; intros a b N Ha Hb E; [destruct Ha|]. cbn [map] in N. inversion N as [|k ks Hk Nt]; subst.
  destruct Ha as [<-|Ha], Hb as [<-|Hb]; [reflexivity | | | apply IH; assumption].
  - exfalso. apply Hk. rewrite E. apply in_map. assumption.
  - exfalso. apply Hk. rewrite <- E. apply in_map. assumption.
Qed.

Lemma sorted_perm_eq : forall l1 l2, ksorted l1 -> ksorted l2 -> Permutation l1 l2 -> NoDup (map fst l1) -> l1 = l2.
Proof.
  induction l1 as [|x t IH]; intros l2 S1 S2 P N.
  - apply Permutation_nil in P. subst. reflexivity.
  - destruct l2 as [|y u]; [apply Permutation_sym, Permutation_nil in P; discriminate|].
    inversion S1 as [|x' t' Hx St]; subst. inversion S2 as [|y' u' Hy Su]; subst.
    assert (Iy : In y (x :: t)) by (apply (Permutation_in y (Permutation_sym P)); left; reflexivity).
    assert (Ix : In x (y :: u)) by (apply (Permutation_in x P); left; reflexivity).
    assert (E : x = y).
    { apply (key_unique (x :: t)); [assumption | left; reflexivity | assumption|].
      assert ((fst x <= fst y)%N) by (destruct Iy as [<-|Iy]; [lia | apply Hx; assumption]).
      assert ((fst y <= fst x)%N) by (destruct Ix as [<-|Ix]; [lia | apply Hy; assumption]). lia. }
    subst y. f_equal. apply IH; [assumption | assumption | eapply Permutation_cons_inv; exact P|].
    cbn [map] in N. inversion N; assumption.
Qed.

(* the same parameter set, taken out of the map in two different orders, gives the same hash input *)
Theorem params_order_independent : forall f p1 p2, hf_sorted f = true -> Permutation p1 p2 -> NoDup (map fst p1) ->
  param_input f p1 = param_input f p2.
Proof.
  intros f p1 p2 Hs P N. unfold param_input. rewrite Hs. apply sorted_perm_eq; [apply ksort_sorted | apply ksort_sorted | |].
  - eapply Permutation_trans; [apply Permutation_sym, ksort_perm|]. eapply Permutation_trans; [exact P | apply ksort_perm].
  - eapply Permutation_NoDup; [|exact N]. apply Permutation_map. apply ksort_perm.
Qed.
Theorem params_now_order_independent : hf_sorted hashfacts_now = true -> forall p1 p2, Permutation p1 p2 -> NoDup (map fst p1) ->
  param_input hashfacts_now p1 = param_input hashfacts_now p2.
Proof. intros H p1 p2. apply params_order_independent. exact H. Qed.

(* under every identity encoding different bodies give different hash input *)
Theorem body_identity_injective : forall b64 qp f e b1 b2, hf_default_raw f = true -> identity_encoding e = true ->
  body_input b64 qp f e b1 = body_input b64 qp f e b2 -> b1 = b2.
Proof.
  intros b64 qp f e b1 b2 Hd He H. destruct e; cbn [body_input identity_encoding] in *; try discriminate;
    try rewrite Hd in H; inversion H; reflexivity.
Qed.
(* and the declared identity encoding does not matter: the same body gives the same input under all of them *)
Theorem body_identity_same : forall b64 qp f e1 e2 b, hf_default_raw f = true -> identity_encoding e1 = true ->
  identity_encoding e2 = true -> body_input b64 qp f e1 b = body_input b64 qp f e2 b.
Proof.
  intros b64 qp f e1 e2 b Hd H1 H2. destruct e1, e2; cbn [body_input identity_encoding] in *; try discriminate;
    rewrite ?Hd; reflexivity.
Qed.

(* without the sort / without the default arm the statements fail *)
Theorem params_unsorted_order_dependent : exists p1 p2, Permutation p1 p2 /\ NoDup (map fst p1) /\
  param_input (mkHashFacts false true) p1 <> param_input (mkHashFacts false true) p2.
Proof.
  exists [(1, 10); (2, 20)]%N, [(2, 20); (1, 10)]%N. split; [apply perm_swap|]. split.
  - cbn. repeat constructor; cbn; intuition discriminate.
  - cbn. discriminate.
Qed.
Theorem body_without_default_collides : forall b64 qp, exists b1 b2, b1 <> b2 /\
  body_input b64 qp (mkHashFacts true false) EncBinary b1 = body_input b64 qp (mkHashFacts true false) EncBinary b2.
Proof. intros. exists [1%N], [2%N]. split; [discriminate | reflexivity]. Qed.
