(* C02, read-only selection: a body fetch by a session that selected with EXAMINE (CFetchBodyRO) changes nothing that is
   shared - not the database (flags, mailbox rows, UID counters), not what a newly opened session would see, not any other
   session - and, with nothing pending, not the session's own snapshot either. So the session's view and the
   authoritative content cannot be driven apart by it (the code's `setSeen && !m.ReadOnly()`). *)
From Coq Require Import List NArith Bool Lia Arith String.
From Gluon Require Import Model.Responders Model.Session.
Import ListNotations.
Open Scope N_scope.

Definition same_db (a b : world) : Prop :=
  w_flags a = w_flags b /\ w_mbox a = w_mbox b /\ w_next a = w_next b /\ w_nextid a = w_nextid b.

Lemma same_db_refl w : same_db w w.
Proof. repeat split. Qed.

Lemma same_db_fresh a b mb : same_db a b -> fresh_view a mb = fresh_view b mb.
Proof.
  intros (Hf & Hm & _ & _). unfold fresh_view, mbox_of, row_view. rewrite Hm. apply map_ext. intros r. rewrite Hf. reflexivity.
Qed.

Lemma set_sess_db ss w : same_db w (set_sess ss w).
Proof. repeat split. Qed.

Lemma put_sess_db i s w : same_db w (put_sess i s w).
Proof. repeat split. Qed.

Lemma same_db_trans a b c : same_db a b -> same_db b c -> same_db a c.
Proof. intros (A1 & A2 & A3 & A4) (B1 & B2 & B3 & B4). repeat split; congruence. Qed.

(* no update: every queue is left as it is *)
Lemma broadcast_nil actor cs ss : forall i, broadcast [] actor cs i ss = Some ss.
Proof.
  induction ss as [|s t IH]; intros i; cbn [broadcast]; [reflexivity|].
  rewrite IH. destruct s as [sel st q idle]. cbn [ss_sel ss_st ss_queue ss_idle fold_left]. rewrite app_nil_r.
  destruct actor as [a|]; [destruct (Nat.eqb a i)|]; reflexivity.
Qed.

Lemma nth_upd_other {A} (f : A -> A) : forall l k j, j <> k -> nth_error (nth_upd k f l) j = nth_error l j.
Proof.
  induction l as [|x r IH]; intros k j Hne; [destruct k; reflexivity|].
  destruct k as [|k], j as [|j]; cbn; try reflexivity; [congruence|]. apply IH. congruence.
Qed.

Lemma nth_upd_same {A} (f : A -> A) : forall l k x, nth_error l k = Some x -> nth_error (nth_upd k f l) k = Some (f x).
Proof.
  induction l as [|y r IH]; intros k x H; [destruct k; discriminate|].
  destruct k as [|k]; cbn in *; [injection H as ->; reflexivity|]. apply IH. exact H.
Qed.

(* the command as the model runs it: the fetch data, then the handler's flushes of the session's own pending responders *)
Theorem readonly_fetch_step w i ps b w' out oc :
  do_cmd w i (CFetchBodyRO ps b) = (w', out, oc) ->
  same_db w w' /\ (forall mb, fresh_view w' mb = fresh_view w mb) /\
  (forall j, j <> i -> get_sess w' j = get_sess w j).
Proof.
  unfold do_cmd. destruct (get_sess w i) as [s|] eqn:G.
  2:{ intros H. injection H as <- _ _. split; [apply same_db_refl|]. split; reflexivity. }
  assert (Triv : forall (o1 : list resp) (c1 : outcome), (w, o1, c1) = (w', out, oc) ->
            same_db w w' /\ (forall mb, fresh_view w' mb = fresh_view w mb) /\ (forall j, j <> i -> get_sess w' j = get_sess w j)).
  { intros o1 c1 H. injection H as <- _ _. split; [apply same_db_refl|]. split; reflexivity. }
  destruct (ss_idle s); [apply Triv|].
  destruct (ss_sel s) as [sel|]; [|apply Triv].
  destruct (msgs_at (s_snap (ss_st s)) ps) as [xs|]; [|apply Triv].
  unfold finish_issued. rewrite broadcast_nil.
  assert (Hset : set_sess (w_sess w) w = w) by (destruct w; reflexivity). rewrite Hset. rewrite G.
  destruct (sess_flushes (removelast (sel_permits "Fetch")) s) as [[s1 o1]|]; [|apply Triv].
  destruct (sess_flushes _ s1) as [[s2 o2]|]; [|apply Triv].
  intros H. injection H as <- _ _.
  split; [apply put_sess_db|]. split.
  - intros mb. apply same_db_fresh. split; [|split; [|split]]; reflexivity.
  - intros j Hj. unfold get_sess, put_sess, set_sess. cbn [w_sess]. apply nth_upd_other. exact Hj.
Qed.

(* with nothing pending the session's own snapshot is left as it is, too: no \Seen appears in it *)
Lemma flush_nothing_pending p sn : flush p (mkS sn []) = FOk (mkS sn []) [].
Proof. destruct p; vm_compute; reflexivity. Qed.

Lemma sess_flushes_nothing_pending permits : forall s, s_res (ss_st s) = [] ->
  sess_flushes permits s = Some (s, []).
Proof.
  induction permits as [|p t IH]; intros s Hs; cbn [sess_flushes]; [reflexivity|].
  unfold sess_flush. destruct s as [sel [sn res] q idle]. cbn [ss_st s_res] in *. subst res.
  rewrite flush_nothing_pending. cbn [ss_sel ss_queue ss_idle].
  rewrite (IH (mkSess sel (mkS sn []) q idle) eq_refl). reflexivity.
Qed.

Theorem readonly_fetch_keeps_own_view w i ps s sel xs :
  get_sess w i = Some s -> ss_idle s = false -> ss_sel s = Some sel -> s_res (ss_st s) = [] ->
  msgs_at (s_snap (ss_st s)) ps = Some xs ->
  do_cmd w i (CFetchBodyRO ps false) = (w, [], OOk).
Proof.
  intros G Hi Hsel Hres Hat. unfold do_cmd. rewrite G, Hi, Hsel, Hat.
  unfold finish_issued. rewrite broadcast_nil.
  assert (Hset : set_sess (w_sess w) w = w) by (destruct w; reflexivity). rewrite Hset, G.
  rewrite (sess_flushes_nothing_pending _ s Hres).
  assert (Hiss : expunge_issued (ss_st s) = false) by (unfold expunge_issued; rewrite Hres; reflexivity). rewrite Hiss.
  rewrite (sess_flushes_nothing_pending _ s Hres). cbn [app].
  assert (Hput : put_sess i s w = w).
  { unfold put_sess, set_sess, get_sess in *. destruct w as [fl mb nx ni ss]. cbn [w_sess w_flags w_mbox w_next w_nextid] in *.
    f_equal. clear -G. revert i G. induction ss as [|y r IH]; intros [|k] G; cbn in *; try discriminate; try reflexivity.
    - injection G as ->. reflexivity.
    - f_equal. apply IH. exact G. }
  rewrite Hput. reflexivity.
Qed.

(* a change attempted in a read-only selection (and a refused SEARCH) runs the trailing flush only *)
Theorem refused_command_changes_nothing_shared w i w' out oc :
  do_cmd w i CSearchBad = (w', out, oc) ->
  same_db w w' /\ (forall mb, fresh_view w' mb = fresh_view w mb) /\
  (forall j, j <> i -> get_sess w' j = get_sess w j).
Proof.
  unfold do_cmd. destruct (get_sess w i) as [s|] eqn:G.
  2:{ intros H. injection H as <- _ _. split; [apply same_db_refl|]. split; reflexivity. }
  assert (Triv : forall (o1 : list resp) (c1 : outcome), (w, o1, c1) = (w', out, oc) ->
            same_db w w' /\ (forall mb, fresh_view w' mb = fresh_view w mb) /\ (forall j, j <> i -> get_sess w' j = get_sess w j)).
  { intros o1 c1 H. injection H as <- _ _. split; [apply same_db_refl|]. split; reflexivity. }
  destruct (ss_idle s); [apply Triv|].
  destruct (ss_sel s) as [sel|]; [|apply Triv].
  unfold finish. rewrite broadcast_nil.
  assert (Hset : set_sess (w_sess w) w = w) by (destruct w; reflexivity). rewrite Hset. rewrite G.
  destruct (sess_flushes _ s) as [[s1 o1]|]; [|apply Triv].
  intros H. injection H as <- _ _.
  split; [apply put_sess_db|]. split.
  - intros mb. apply same_db_fresh. split; [|split; [|split]]; reflexivity.
  - intros j Hj. unfold get_sess, put_sess, set_sess. cbn [w_sess]. apply nth_upd_other. exact Hj.
Qed.

(* satisfiable: an unseen message, the examining session fetches its body; the database and the view stay unseen *)
Definition ro_w0 : world :=
  mkW [(1, [])] [[mkRow 1 1 false]] [2] 2 [mkSess (Some 0) (mkS [mkSmsg 1 1 []] []) [] false].

Example readonly_example :
  do_cmd ro_w0 0 (CFetchBodyRO [1%nat] false) = (ro_w0, [], OOk) /\
  fst (fst (do_cmd ro_w0 0 (CFetchBody [1%nat]))) <> ro_w0.
Proof. split; [vm_compute; reflexivity|]. vm_compute. intros H. discriminate H. Qed.
