(* MailStore - model of gluon's mailbox/message index as the client commands and connector updates change it
   (properties C04, C17, C20).  No proofs here (Proofs/MailStore*.v).

   Go code mirrored (function -> definition):
     internal/db_impl/sqlite3/v1/mailbox.go CreateMailboxMessageTableQuery  `uid INTEGER PRIMARY KEY AUTOINCREMENT`
        -> per-mailbox counter mb_seq (sqlite_sequence row): every insert takes seq+1, deletes never lower it, a rolled
           back transaction restores it (an operation that fails returns the store it started from), DROP TABLE (mailbox
           deleted) removes it together with the mailbox; the mailbox id itself is AUTOINCREMENT (s_nextid).
     read_ops.go GetMailboxUID / GetMailboxMessageCountAndUID -> (length rows, mb_seq + 1)
     write_ops.go AddMessagesToMailbox / CreateMessageAndAddToMailbox / RemoveMessagesFromMailbox -> mb_ins / mb_del
     limits/imap.go Check*                       -> Gen.FactsLimits (translated by T1), wrapped as lim_*
     imap/uid_validity_generator.go Generate     -> Model.UidValidityGen.uv_generate, field lastUID = s_gen (in memory:
                                                    reset by op Restart), clock = any function nat -> Z read at s_tick
     internal/state/state.go Create/Delete/Rename(+renameInbox)/List/AppendOnlyMailbox -> op_create/op_delete/op_rename/listed
     internal/state/mailbox.go AppendRegular/Append/Copy/Move/Expunge -> append_check + append_write / op_copy / op_move / op_expunge
     internal/state/actions.go actionCreateMessage, actionCreateRecoveredMessage (recover), actionAddMessagesToMailbox
        (add_messages), actionMoveMessages (op_move), action{Copy,Move}MessagesOutOfRecoveryMailbox (out_of_recovery)
     internal/state/updates_mailbox.go AddMessagesToMailbox/MoveMessagesFromMailbox -> db_add (limit checks inside the
        write transaction)
     internal/backend/connector_updates.go applyMailboxCreated/applyMessagesCreated/applyUIDValidityBumped
        -> op_conn_create / op_conn_msgs / op_conn_bump ; internal/backend/user.go newUser -> op_restart
     internal/utils/message_hashmap.go Insert/Erase -> hash_known / s_hashes ; rfc822/hash.go GetMessageHash -> `hash`
        (abstract: a Section variable of the theorems; None = the hash cannot be computed, e.g. a text part
        declared base64 that does not decode: such a message is stored without de-duplication)

   Where the code's behaviour depends on a structural fact that T1 extracts (position of a limit check, ...), the model
   takes it from the record `codefacts`; Props instantiate it with the facts regenerated from the working tree.

   Simplifications (inputs the harness controls): message flags are not modelled; the sequence set of COPY/MOVE/EXPUNGE
   is given as the resolved list of UIDs (any order, duplicates allowed); literals carry no X-Pm-Gluon-Id header (the duplicate-append shortcut of
   AppendRegular is not taken); the connector never returns an already known remote message ID; a failing connector
   call / refused check rolls the whole write transaction back. *)
From Coq Require Import List ZArith NArith Bool Lia.
From Gluon Require Import Gen.FactsLimits Model.UidValidityGen.
Import ListNotations.
Open Scope Z_scope.

Definition path := list N.                 (* mailbox name split at the delimiter *)
Definition recov_c : N := 0%N.             (* the component "Recovered Messages" (any letter case) *)
Definition recov_name : path := [recov_c].
Definition inbox_name : path := [1%N].
Definition recov_id : N := 1%N.            (* internal id of the recovery mailbox: first row of a fresh mailboxes table *)

Definition msg := (N * N)%type.            (* (internal message id, literal) *)
Definition row := (Z * msg)%type.          (* (uid, message) *)

Record mbox := mkMbox { mb_id : N; mb_name : path; mb_uidv : Z; mb_seq : Z; mb_rows : list row }.

Record store := mkStore {
  s_mboxes : list mbox;
  s_nextid : N;                            (* AUTOINCREMENT of the mailboxes table *)
  s_nextmsg : N;                           (* fresh internal message ids *)
  s_gen : Z;                               (* EpochUIDValidityGenerator.lastUID (in memory) *)
  s_tick : nat;                            (* number of clock readings so far *)
  s_hashes : list (N * N);                 (* MessageHashesMap: internal id -> hash (in memory, not rolled back) *)
  s_log : list (N * Z * Z * msg)           (* ghost: every (mailbox id, uidvalidity, uid, message) ever assigned *)
}.

Record cfg := mkCfg { c_max_mbox : Z; c_max_msgs : Z; c_max_uidv : Z; c_max_uid : Z }.

Record codefacts := mkFacts {
  cf_recheck : bool;          (* AppendRegular re-checks the limits inside the write transaction *)
  cf_create_sum : bool;       (* Create checks count + number of mailboxes to create *)
  cf_rename_check : bool;     (* Rename checks the count for the mailboxes it creates *)
  cf_limit_norecover : bool;  (* Append does not fall back to the recovery mailbox on a limit error *)
  cf_erase_late : bool;       (* move out of recovery erases the hashes after the label step *)
  cf_raw_fallback : bool;     (* MessageHashesMap.Insert tracks a literal without content hash by the hash of its bytes *)
  cf_create_gen_in_tx : bool  (* State.Create generates the UIDVALIDITY inside the write transaction: a name refused before
                                 the transaction starts consumes no value *)
}.

Definition facts_now : codefacts :=
  mkFacts fact_append_rechecks_in_write_tx fact_create_counts_new_mailboxes fact_rename_checks_count
          fact_append_limit_error_skips_recovery fact_recovery_erase_after_add fact_insert_falls_back_to_raw_hash
          fact_create_generates_in_write_tx.
Definition facts_fixed : codefacts := mkFacts true true true true true true true.

(* ---- limits (true = refused) ---- *)
Definition lim_count (c : cfg) (n : Z) : bool :=
  CheckMailBoxCount (c_max_mbox c) (c_max_msgs c) (c_max_uidv c) (c_max_uid c) n.
Definition lim_msgs (c : cfg) (existing new : Z) : bool :=
  CheckMailBoxMessageCount (c_max_mbox c) (c_max_msgs c) (c_max_uidv c) (c_max_uid c) existing new.
Definition lim_uid (c : cfg) (uidnext new : Z) : bool :=
  CheckUIDCount (c_max_mbox c) (c_max_msgs c) (c_max_uidv c) (c_max_uid c) uidnext new.
Definition lim_uidv (c : cfg) (v : Z) : bool :=
  CheckUIDValidity (c_max_mbox c) (c_max_msgs c) (c_max_uidv c) (c_max_uid c) v.

Definition zlen {A} (l : list A) : Z := Z.of_nat (length l).

(* GetMailboxMessageCountAndUID + CheckMailBoxMessageCount + CheckUIDCount: is there room for k more messages *)
Definition room (c : cfg) (m : mbox) (k : Z) : bool :=
  negb (lim_msgs c (zlen (mb_rows m)) k) && negb (lim_uid c (mb_seq m + 1) k).

(* ---- names ---- *)
Fixpoint path_eqb (a b : path) : bool :=
  match a, b with
  | [], [] => true
  | x :: a', y :: b' => N.eqb x y && path_eqb a' b'
  | _, _ => false
  end.
Definition is_recov (p : path) : bool := path_eqb p recov_name.
Definition is_inbox (p : path) : bool := path_eqb p inbox_name.
Definition recov_prefixed (p : path) : bool := match p with c :: _ => N.eqb c recov_c | [] => false end.
Fixpoint prefixes (p : path) : list path :=
  match p with [] => [] | c :: t => [c] :: map (cons c) (prefixes t) end.
Definition superiors (p : path) : list path := removelast (prefixes p).
(* strip_prefix a b = Some r  iff  b = a ++ r *)
Fixpoint strip_prefix (a b : path) : option path :=
  match a, b with
  | [], _ => Some b
  | x :: a', y :: b' => if N.eqb x y then strip_prefix a' b' else None
  | _ :: _, [] => None
  end.

(* ---- mailbox list ---- *)
Fixpoint find_name (p : path) (l : list mbox) : option mbox :=
  match l with [] => None | m :: t => if path_eqb (mb_name m) p then Some m else find_name p t end.
Fixpoint find_id (i : N) (l : list mbox) : option mbox :=
  match l with [] => None | m :: t => if N.eqb (mb_id m) i then Some m else find_id i t end.
Definition exists_name (p : path) (l : list mbox) : bool :=
  match find_name p l with Some _ => true | None => false end.
Definition upd (i : N) (f : mbox -> mbox) (l : list mbox) : list mbox :=
  map (fun m => if N.eqb (mb_id m) i then f m else m) l.
Definition del (i : N) (l : list mbox) : list mbox := filter (fun m => negb (N.eqb (mb_id m) i)) l.

(* ---- rows ---- *)
Fixpoint assign (seq : Z) (ms : list msg) : list row :=
  match ms with [] => [] | m :: t => (seq + 1, m) :: assign (seq + 1) t end.
Definition mb_ins (ms : list msg) (m : mbox) : mbox :=
  mkMbox (mb_id m) (mb_name m) (mb_uidv m) (mb_seq m + zlen ms) (mb_rows m ++ assign (mb_seq m) ms).
Definition nmem (x : N) (l : list N) : bool := existsb (N.eqb x) l.
Definition mb_del (ids : list N) (m : mbox) : mbox :=
  mkMbox (mb_id m) (mb_name m) (mb_uidv m) (mb_seq m) (filter (fun r => negb (nmem (fst (snd r)) ids)) (mb_rows m)).
Definition mb_set_name (p : path) (m : mbox) : mbox := mkMbox (mb_id m) p (mb_uidv m) (mb_seq m) (mb_rows m).
Definition mb_set_uidv (v : Z) (m : mbox) : mbox := mkMbox (mb_id m) (mb_name m) v (mb_seq m) (mb_rows m).
Definition log_of (m : mbox) (ms : list msg) : list (N * Z * Z * msg) :=
  map (fun r => (mb_id m, mb_uidv m, fst r, snd r)) (assign (mb_seq m) ms).

Fixpoint find_row (u : Z) (rows : list row) : option row :=
  match rows with [] => None | r :: t => if Z.eqb (fst r) u then Some r else find_row u t end.
Fixpoint zmem (x : Z) (l : list Z) : bool := match l with [] => false | y :: t => Z.eqb x y || zmem x t end.
Fixpoint zdedup (l : list Z) : list Z :=
  match l with [] => [] | x :: t => if zmem x t then zdedup t else x :: zdedup t end.
(* the messages a resolved UID list selects (each once) *)
Fixpoint select_rows (rows : list row) (uids : list Z) : list row :=
  match uids with
  | [] => []
  | u :: t => match find_row u rows with Some r => r :: select_rows rows t | None => select_rows rows t end
  end.
(* Mailbox.Copy / Mailbox.Move hand the selected messages over in ascending UID order (whatever the order of the
   sequence set), so that the sorted UID sets of COPYUID correspond position by position *)
Fixpoint zinsert (x : Z) (l : list Z) : list Z :=
  match l with [] => [x] | y :: t => if Z.leb x y then x :: l else y :: zinsert x t end.
Definition zsort (l : list Z) : list Z := fold_right zinsert [] l.
Definition selection (m : mbox) (uids : list Z) : list row := select_rows (mb_rows m) (zsort (zdedup uids)).

(* ---- store updates ---- *)
Definition set_mboxes (l : list mbox) (s : store) : store :=
  mkStore l (s_nextid s) (s_nextmsg s) (s_gen s) (s_tick s) (s_hashes s) (s_log s).
Definition set_hashes (h : list (N * N)) (s : store) : store :=
  mkStore (s_mboxes s) (s_nextid s) (s_nextmsg s) (s_gen s) (s_tick s) h (s_log s).
Definition add_log (l : list (N * Z * Z * msg)) (s : store) : store :=
  mkStore (s_mboxes s) (s_nextid s) (s_nextmsg s) (s_gen s) (s_tick s) (s_hashes s) (s_log s ++ l).
Definition bump_msg (k : N) (s : store) : store :=
  mkStore (s_mboxes s) (s_nextid s) (s_nextmsg s + k)%N (s_gen s) (s_tick s) (s_hashes s) (s_log s).
(* in-memory parts survive a rollback *)
Definition keep_mem (mem : store) (db : store) : store :=
  mkStore (s_mboxes db) (s_nextid db) (s_nextmsg mem) (s_gen mem) (s_tick mem) (s_hashes mem) (s_log db).

Definition add_mbox (p : path) (v : Z) (s : store) : store :=
  mkStore (s_mboxes s ++ [mkMbox (s_nextid s) p v 0 []]) (s_nextid s + 1)%N (s_nextmsg s) (s_gen s) (s_tick s)
          (s_hashes s) (s_log s).

(* insert messages into mailbox i, assigning the next UIDs (no checks) *)
Definition ins_msgs (i : N) (ms : list msg) (s : store) : store :=
  match find_id i (s_mboxes s) with
  | None => s
  | Some m => add_log (log_of m ms) (set_mboxes (upd i (mb_ins ms) (s_mboxes s)) s)
  end.
Definition del_msgs (i : N) (ids : list N) (s : store) : store := set_mboxes (upd i (mb_del ids) (s_mboxes s)) s.

(* state.AddMessagesToMailbox: limit checks inside the write transaction, then insert. None = limit error *)
Definition db_add (c : cfg) (i : N) (ms : list msg) (s : store) : option store :=
  match find_id i (s_mboxes s) with
  | None => None
  | Some m => if room c m (zlen ms) then Some (ins_msgs i ms s) else None
  end.

(* ---- UIDVALIDITY generator ---- *)
Definition gen_next (clock : nat -> Z) (s : store) : option Z * store :=
  let t := S (s_tick s) in
  match uv_generate (clock (s_tick s)) (s_gen s) with
  | UvOk v => (Some v, mkStore (s_mboxes s) (s_nextid s) (s_nextmsg s) v t (s_hashes s) (s_log s))
  | _ => (None, mkStore (s_mboxes s) (s_nextid s) (s_nextmsg s) (s_gen s) t (s_hashes s) (s_log s))
  end.

(* ---- results ---- *)
Inductive result :=
| ResOk (announced : list (Z * Z))   (* APPENDUID: [(0, uid)] ; COPYUID: [(source uid, destination uid)] *)
| ResNoLimit                         (* refused by a configured limit *)
| ResNo                              (* any other refusal / failure *)
| ResNoKnown                         (* rejected remotely, already known recovered message *)
| ResNoSize.                         (* rejected remotely because of its size *)

Inductive rout := RemOk | RemFail | RemSize.   (* outcome of the connector's CreateMessage *)

Inductive op :=
| OCreate (name : path) (remote_ok : bool)
| ODelete (name : path) (remote_ok : bool)
| ORename (old new : path) (remote_ok : bool)
| OAppend (name : path) (lit : N) (r : rout)
| OCopy (src : path) (uids : list Z) (dst : path) (create_ok label_ok : bool)
| OMove (src : path) (uids : list Z) (dst : path) (create_ok label_ok : bool)
| OExpunge (name : path) (uids : list Z) (remote_ok : bool)
| OConnCreate (name : path)
| OConnMsgs (batch : list (N * list path))      (* (literal, mailboxes) per new remote message *)
| OConnBump
| ORestart.

Section WithEnv.
Variable hash : N -> option N.   (* content hash; None: GetMessageHash fails for this literal *)
Variable fx : codefacts.
Variable c : cfg.
Variable clock : nat -> Z.

(* ---- recovery (actionCreateRecoveredMessage) ---- *)
Definition hash_known (h : N) (s : store) : bool := existsb (fun e => N.eqb (snd e) h) (s_hashes s).
(* returns (store, known) *)
(* MessageHashesMap.Insert: the de-duplication key of a literal is its content hash (rfc822.GetMessageHash); when that
   cannot be computed the key is the hash of the raw bytes ("raw:..." - distinct per distinct literal, disjoint from
   the content hashes: modelled as odd / even numbers). Without the fallback (the code before a164a71) such a literal
   has no key: Insert returns the error, the literal is never "known" and leaves no entry. *)
Definition dkey (lit : N) : option N :=
  match hash lit with
  | Some h => Some (2 * h)%N
  | None => if cf_raw_fallback fx then Some (2 * lit + 1)%N else None
  end.
Definition lit_known (lit : N) (s : store) : bool :=
  match dkey lit with Some h => hash_known h s | None => false end.
Definition hash_entry (id lit : N) : list (N * N) :=
  match dkey lit with Some h => [(id, h)] | None => [] end.
Definition recover (s : store) (lit : N) : store * bool :=
  if lit_known lit s then (s, true)
  else
    let id := s_nextmsg s in
    let s1 := set_hashes (s_hashes s ++ hash_entry id lit) (bump_msg 1 s) in
    (ins_msgs recov_id [(id, lit)] s1, false).
Definition erase_hashes (ids : list N) (s : store) : store :=
  set_hashes (filter (fun e => negb (nmem (fst e) ids)) (s_hashes s)) s.
Definition recover_res (s : store) (lit : N) : store * result :=
  let (s', known) := recover s lit in (s', if known then ResNoKnown else ResNo).
Definition limit_refuse (s : store) (lit : N) : store * result :=
  if cf_limit_norecover fx then (s, ResNoLimit) else (fst (recover s lit), ResNoLimit).

(* ---- APPEND: check (read transaction) and write (write transaction) ---- *)
Definition append_check (m : mbox) : bool := room c m 1.
Definition append_write (s : store) (i : N) (lit : N) (r : rout) : store * result :=
  match find_id i (s_mboxes s) with
  | None => recover_res s lit        (* mailbox dropped meanwhile: the insert fails, fallback to recovery *)
  | Some m =>
    if cf_recheck fx && negb (room c m 1) then limit_refuse s lit
    else match r with
         | RemOk => let id := s_nextmsg s in
                    (ins_msgs i [(id, lit)] (bump_msg 1 s), ResOk [(0, mb_seq m + 1)])
         | RemSize => (s, ResNoSize)
         | RemFail => recover_res s lit
         end
  end.
Definition op_append (s : store) (name : path) (lit : N) (r : rout) : store * result :=
  if is_recov name then (s, ResNo)
  else match find_name name (s_mboxes s) with
       | None => (s, ResNo)
       | Some m => if append_check m then append_write s (mb_id m) lit r else limit_refuse s lit
       end.

(* ---- actionAddMessagesToMailbox: messages already in the destination are removed first ---- *)
Definition has_msg (m : mbox) (id : N) : bool := existsb (fun r => N.eqb (fst (snd r)) id) (mb_rows m).
Definition zip_uids (src : list row) (dstseq : Z) : list (Z * Z) :=
  map (fun p => (fst (fst p), fst (snd p))) (combine src (assign dstseq (map snd src))).
Definition add_messages (s : store) (d : mbox) (sel : list row) (label_ok : bool) : store * result :=
  let ids := map (fun r => fst (snd r)) sel in
  let dups := filter (fun id => has_msg d id) ids in
  let s1 := del_msgs (mb_id d) dups s in
  if negb label_ok then (s, ResNo)
  else match db_add c (mb_id d) (map snd sel) s1 with
       | None => (s, ResNoLimit)
       | Some s2 => (s2, ResOk (zip_uids sel (mb_seq d)))
       end.

(* ---- copy / move out of the recovery mailbox ---- *)
Fixpoint fresh_msgs (id : N) (sel : list row) : list msg :=
  match sel with [] => [] | r :: t => (id, snd (snd r)) :: fresh_msgs (id + 1)%N t end.
Definition out_of_recovery (s : store) (d : mbox) (sel : list row) (move create_ok label_ok : bool) : store * result :=
  if negb create_ok then (s, ResNo)
  else
    let news := fresh_msgs (s_nextmsg s) sel in
    let olds := map (fun r => fst (snd r)) sel in
    let s0 := bump_msg (N.of_nat (length sel)) s in
    let s1 := if move then del_msgs recov_id olds s0 else s0 in
    let s1e := if move && negb (cf_erase_late fx) then erase_hashes olds s1 else s1 in
    let failed := keep_mem s1e s in
    if negb label_ok then (failed, ResNo)
    else match db_add c (mb_id d) news s1e with
         | None => (failed, ResNoLimit)
         | Some s2 =>
           ((if move && cf_erase_late fx then erase_hashes olds s2 else s2),
            ResOk (map (fun p => (fst (fst p), fst (snd p))) (combine sel (assign (mb_seq d) news))))
         end.

Definition op_copy (s : store) (src : path) (uids : list Z) (dst : path) (create_ok label_ok : bool) : store * result :=
  if is_recov dst then (s, ResNo)
  else match find_name dst (s_mboxes s), find_name src (s_mboxes s) with
       | Some d, Some m =>
         let sel := selection m uids in
         if N.eqb (mb_id m) recov_id then out_of_recovery s d sel false create_ok label_ok
         else add_messages s d sel label_ok
       | _, _ => (s, ResNo)
       end.

(* ---- actionMoveMessages + MoveMessagesFromMailbox ---- *)
Definition op_move (s : store) (src : path) (uids : list Z) (dst : path) (create_ok label_ok : bool) : store * result :=
  if is_recov dst then (s, ResNo)
  else match find_name dst (s_mboxes s), find_name src (s_mboxes s) with
       | Some d, Some m =>
         let sel := selection m uids in
         let ids := map (fun r => fst (snd r)) sel in
         if N.eqb (mb_id m) recov_id then out_of_recovery s d sel true create_ok label_ok
         else if N.eqb (mb_id m) (mb_id d) then
           (* same mailbox: remove, then add again under new UIDs *)
           if negb label_ok then (s, ResNo)
           else match db_add c (mb_id d) (map snd sel) (del_msgs (mb_id d) ids s) with
                | None => (s, ResNoLimit)
                | Some s2 => (s2, ResOk (zip_uids sel (mb_seq d)))
                end
         else
           let dups := filter (fun id => has_msg d id) ids in
           let s1 := del_msgs (mb_id d) dups s in
           if negb label_ok then (s, ResNo)
           else match find_id (mb_id d) (s_mboxes s1) with
                | None => (s, ResNo)
                | Some d1 =>
                  if room c d1 (zlen sel) then
                    (ins_msgs (mb_id d) (map snd sel) (del_msgs (mb_id m) ids s1), ResOk (zip_uids sel (mb_seq d)))
                  else (s, ResNoLimit)
                end
       | _, _ => (s, ResNo)
       end.

Definition op_expunge (s : store) (name : path) (uids : list Z) (remote_ok : bool) : store * result :=
  match find_name name (s_mboxes s) with
  | None => (s, ResNo)
  | Some m =>
    let ids := map (fun r => fst (snd r)) (selection m uids) in
    if match ids with [] => true | _ => false end then (s, ResOk [])   (* nothing to remove: no connector call *)
    else if N.eqb (mb_id m) recov_id then (del_msgs recov_id ids (erase_hashes ids s), ResOk [])
    else if negb remote_ok then (s, ResNo)
    else (del_msgs (mb_id m) ids s, ResOk [])
  end.

(* ---- CREATE / DELETE / RENAME ---- *)
Definition missing (l : list mbox) (ps : list path) : list path := filter (fun p => negb (exists_name p l)) ps.
Definition add_all (ps : list path) (v : Z) (s : store) : store := fold_left (fun st p => add_mbox p v st) ps s.

Definition bad_create_name (name : path) : bool :=
  recov_prefixed name || is_inbox name || match name with [] => true | _ => false end.
Definition op_create (s : store) (name : path) (remote_ok : bool) : store * result :=
  if cf_create_gen_in_tx fx && bad_create_name name then (s, ResNo) else
  let (g, s1) := gen_next clock s in
  match g with
  | None => (s1, ResNo)
  | Some v =>
    if lim_uidv c v then (s1, ResNoLimit)
    else if recov_prefixed name || is_inbox name || match name with [] => true | _ => false end then (s1, ResNo)
    else
      let count := zlen (s_mboxes s1) in
      if negb (cf_create_sum fx) && lim_count c count then (s1, ResNoLimit)
      else if exists_name name (s_mboxes s1) then (s1, ResNo)
      else
        let todo := missing (s_mboxes s1) (superiors name) ++ [name] in
        if cf_create_sum fx && lim_count c (count + zlen todo - 1) then (s1, ResNoLimit)
        else if negb remote_ok then (s1, ResNo)
        else (add_all todo v s1, ResOk [])
  end.

Definition op_delete (s : store) (name : path) (remote_ok : bool) : store * result :=
  if is_recov name || is_inbox name then (s, ResNo)
  else match find_name name (s_mboxes s) with
       | None => (s, ResNo)
       | Some m => if remote_ok then (set_mboxes (del (mb_id m) (s_mboxes s)) s, ResOk []) else (s, ResNo)
       end.

(* one generated UIDVALIDITY per created superior *)
Fixpoint add_each (ps : list path) (s : store) : option store :=
  match ps with
  | [] => Some s
  | p :: t => match gen_next clock s with
              | (Some v, s1) => add_each t (add_mbox p v s1)
              | (None, _) => None
              end
  end.
Fixpoint path_nodupb (l : list path) : bool :=
  match l with [] => true | p :: t => negb (existsb (path_eqb p) t) && path_nodupb t end.
(* listInferiors: mailboxes that have `old` among their superiors (superiors are non-empty proper prefixes) *)
Definition rename_one (old new : path) (m : mbox) : mbox :=
  match old with
  | [] => m
  | _ => match strip_prefix old (mb_name m) with
         | Some (x :: r) => mb_set_name (new ++ x :: r) m
         | _ => m
         end
  end.
Definition rename_inferiors (old new : path) (l : list mbox) : list mbox := map (rename_one old new) l.

Definition op_rename (s : store) (old new : path) (remote_ok : bool) : store * result :=
  if is_recov old || is_recov new || match new with [] => true | _ => false end then (s, ResNo)
  else match find_name old (s_mboxes s) with
       | None => (s, ResNo)
       | Some m =>
         if exists_name new (s_mboxes s) || existsb (path_eqb old) (superiors new) then (s, ResNo)
         else
           let todo := missing (s_mboxes s) (superiors new) in
           let nnew := zlen todo + (if is_inbox old then 1 else 0) in
           if cf_rename_check fx && (0 <? nnew) && lim_count c (zlen (s_mboxes s) + nnew - 1) then (s, ResNoLimit)
           else if negb remote_ok then (s, ResNo)
           else match add_each todo s with
                | None => (s, ResNo)
                | Some s1 =>
                  if is_inbox old then
                    (* renameInbox: a new mailbox takes all messages of INBOX *)
                    match gen_next clock s1 with
                    | (None, _) => (keep_mem s1 s, ResNo)
                    | (Some v, s2) =>
                      let nid := s_nextid s2 in
                      let s3 := add_mbox new v s2 in
                      let ms := map snd (mb_rows m) in
                      match db_add c nid ms (del_msgs (mb_id m) (map fst ms) s3) with
                      | None => (keep_mem s3 s, ResNoLimit)
                      | Some s4 => (s4, ResOk [])
                      end
                    end
                  else
                    let l1 := upd (mb_id m) (mb_set_name new) (s_mboxes s1) in
                    let l2 := rename_inferiors old new l1 in
                    if path_nodupb (map mb_name l2) then (set_mboxes l2 s1, ResOk [])
                    else (keep_mem s1 s, ResNo)
                end
       end.

(* ---- connector updates ---- *)
Definition op_conn_create (s : store) (name : path) : store * result :=
  let (g, s1) := gen_next clock s in
  match g with
  | None => (s1, ResNo)
  | Some v =>
    if lim_uidv c v then (s1, ResNoLimit)
    else if lim_count c (zlen (s_mboxes s1)) then (s1, ResNoLimit)
    else if exists_name name (s_mboxes s1) then (s1, ResNo)
    else (add_mbox name v s1, ResOk [])
  end.

(* messages of the batch that go to mailbox i, in batch order *)
Fixpoint batch_msgs (id : N) (batch : list (N * list path)) : list (msg * list path) :=
  match batch with [] => [] | (lit, ps) :: t => ((id, lit), ps) :: batch_msgs (id + 1)%N t end.
Definition for_mbox (p : path) (bm : list (msg * list path)) : list msg :=
  map fst (filter (fun e => existsb (path_eqb p) (snd e)) bm).
Fixpoint path_dedup (l : list path) : list path :=
  match l with [] => [] | p :: t => if existsb (path_eqb p) t then path_dedup t else p :: path_dedup t end.
Fixpoint add_per_mbox (ps : list path) (bm : list (msg * list path)) (s : store) : option (store * bool) :=
  match ps with
  | [] => Some (s, true)
  | p :: t => match find_name p (s_mboxes s) with
              | None => Some (s, false)                  (* unknown mailbox: error *)
              | Some m => match db_add c (mb_id m) (for_mbox p bm) s with
                          | None => None                 (* limit *)
                          | Some s1 => add_per_mbox t bm s1
                          end
              end
  end.
Definition op_conn_msgs (s : store) (batch : list (N * list path)) : store * result :=
  (* messages addressed to the recovery mailbox are skipped *)
  let batch' := filter (fun e => negb (existsb is_recov (snd e))) batch in
  let bm := batch_msgs (s_nextmsg s) batch' in
  let targets := path_dedup (flat_map snd bm) in
  let s0 := bump_msg (N.of_nat (length batch')) s in
  match add_per_mbox targets bm s0 with
  | None => (s, ResNoLimit)
  | Some (s1, true) => (s1, ResOk [])
  | Some (_, false) => (s, ResNo)
  end.

Fixpoint bump_all (ids : list N) (s : store) : option store :=
  match ids with
  | [] => Some s
  | i :: t => match gen_next clock s with
              | (Some v, s1) => bump_all t (set_mboxes (upd i (mb_set_uidv v) (s_mboxes s1)) s1)
              | (None, _) => None
              end
  end.
Definition op_conn_bump (s : store) : store * result :=
  match bump_all (map mb_id (s_mboxes s)) s with
  | Some s1 => (s1, ResOk [])
  | None => (s, ResNo)
  end.

(* ---- restart: the database persists; lastUID and the hash map live in memory ---- *)
Definition rebuild_hashes (rows : list row) : list (N * N) :=
  fold_left (fun acc r => match dkey (snd (snd r)) with
                          | None => acc
                          | Some h => if existsb (fun e => N.eqb (snd e) h) acc then acc else acc ++ [(fst (snd r), h)]
                          end) rows [].
Definition op_restart (s : store) : store * result :=
  let s0 := mkStore (s_mboxes s) (s_nextid s) (s_nextmsg s) 0 (s_tick s) [] (s_log s) in
  (* newUser: one Generate for GetOrCreateMailbox of the recovery mailbox (which exists) *)
  let s1 := snd (gen_next clock s0) in
  let rows := match find_id recov_id (s_mboxes s1) with Some m => mb_rows m | None => [] end in
  (set_hashes (rebuild_hashes rows) s1, ResOk []).

Definition step (s : store) (o : op) : store * result :=
  match o with
  | OCreate n r => op_create s n r
  | ODelete n r => op_delete s n r
  | ORename a b r => op_rename s a b r
  | OAppend n l r => op_append s n l r
  | OCopy a u b x y => op_copy s a u b x y
  | OMove a u b x y => op_move s a u b x y
  | OExpunge n u r => op_expunge s n u r
  | OConnCreate n => op_conn_create s n
  | OConnMsgs b => op_conn_msgs s b
  | OConnBump => op_conn_bump s
  | ORestart => op_restart s
  end.

Fixpoint run (s : store) (h : list op) : store :=
  match h with [] => s | o :: t => run (fst (step s o)) t end.
Fixpoint run_results (s : store) (h : list op) : list result :=
  match h with [] => [] | o :: t => snd (step s o) :: run_results (fst (step s o)) t end.

(* State.List: the recovery mailbox is listed only while it holds messages *)
Definition listed (s : store) : list path :=
  map mb_name (filter (fun m => negb (N.eqb (mb_id m) recov_id && match mb_rows m with [] => true | _ => false end))
                      (s_mboxes s)).

(* ---- interleaved sessions: the check of APPEND (read transaction) and its insert (write transaction) are separate
        steps; every other operation runs inside one write transaction (client.go wrapTx holds the write lock) ---- *)
Inductive iop :=
| IAtomic (o : op)
| ICheck (sid : N) (name : path)                 (* AppendOnlyMailbox + read transaction of AppendRegular *)
| IWrite (sid : N) (lit : N) (r : rout).         (* the write transaction of AppendRegular (+ recovery fallback) *)

Definition pending := list (N * (N * bool)).       (* session -> (mailbox id, check passed) *)
Fixpoint pend_get (sid : N) (p : pending) : option (N * bool) :=
  match p with [] => None | (x, v) :: t => if N.eqb x sid then Some v else pend_get sid t end.
Definition pend_del (sid : N) (p : pending) : pending := filter (fun e => negb (N.eqb (fst e) sid)) p.

Definition istep (st : store * pending) (o : iop) : store * pending :=
  let (s, p) := st in
  match o with
  | IAtomic x => (fst (step s x), p)
  | ICheck sid name =>
    if is_recov name then st
    else match find_name name (s_mboxes s) with
         | None => st
         | Some m => (s, (sid, (mb_id m, append_check m)) :: pend_del sid p)
         end
  | IWrite sid lit r =>
    match pend_get sid p with
    | None => st
    | Some (i, true) => (fst (append_write s i lit r), pend_del sid p)
    | Some (_, false) => (fst (limit_refuse s lit), pend_del sid p)
    end
  end.
Fixpoint irun (st : store * pending) (h : list iop) : store * pending :=
  match h with [] => st | o :: t => irun (istep st o) t end.

End WithEnv.

(* a fresh server: the recovery mailbox (created by newUser with the first generated value), INBOX announced by the
   connector *)
Definition init_store (v0 : Z) : store :=
  mkStore [mkMbox recov_id recov_name v0 0 []] 2%N 1%N v0 1%nat [] [].
