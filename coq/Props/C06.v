(* C06 — Connector updates: applied as described, acknowledged once, idempotent on replay.
   Property theorems only; every proof is `exact <lemma>` and is followed by Print Assumptions.
   Model: Model/ConnUpdates.v (connector_updates.go after fixes C08-fix-3 / C06-fix-2 / C06-fix-3); lemmas: Proofs/ConnUpdatesProofs.v.
   Runtime part outside the model (labelled partial, exercised by harness/cmd/c06): the goroutine that takes updates from
   the channel, the one-shot waiter channel (Done called exactly once, value + close), timing. *)
From Coq Require Import List NArith Bool PeanoNat.
From Gluon Require Import Model.ConnUpdates Proofs.ConnUpdatesProofs Gen.FactsConnUpdates.
From Gluon Require Import Model.CrashSteps Proofs.ChunkTuples.
Import ListNotations.
Open Scope N_scope.

(* ---- acknowledgement: one result per update; an error leaves no trace; the pipeline continues ---- *)

(* cu_apply is a total function returning exactly one acknowledgement; when it is an error the relational state is the
   one before the update and nothing was queued for any session (transaction rolled back). *)
Theorem C06_error_ack_leaves_state_unchanged : forall s e u s' sus,
  cu_apply s e u = (s', AErr, sus) -> s' = s /\ sus = [].
Proof. exact apply_error_unchanged. Qed.
Print Assumptions C06_error_ack_leaves_state_unchanged.

(* every update of every sequence is acknowledged exactly once, whatever the outcome of the others *)
Theorem C06_one_ack_per_update : forall l s, length (snd (cu_run s l)) = length l.
Proof. exact run_acks_length. Qed.
Print Assumptions C06_one_ack_per_update.

(* whatever came before (unknown ids, protected mailbox, duplicates, errors): the updates that follow are all processed,
   from the state the prefix left *)
Theorem C06_later_updates_keep_being_processed : forall l1 l2 s, exists a2,
  snd (cu_run s (l1 ++ l2)) = snd (cu_run s l1) ++ a2 /\ length a2 = length l2.
Proof. exact run_continues. Qed.
Print Assumptions C06_later_updates_keep_being_processed.

(* ---- idempotence: an update that only restates the current state (echo of the server's own action, duplicate
        delivery) is acknowledged OK, changes nothing and queues nothing a client can see — for every kind ---- *)
Theorem C06_restating_update_changes_nothing : forall s e u, cu_wf s -> cu_restates s u ->
  exists sus, cu_apply s e u = (s, AOk, sus) /\ filter cu_visible sus = [].
Proof. exact restated_update_is_noop. Qed.
Print Assumptions C06_restating_update_changes_nothing.

(* duplicate delivery of an update that was applied successfully: the second application is a no-op.
   Full statement (all kinds except UIDValidityBumped, which carries no state to restate):
     forall s e e' u s1 sus, cu_wf s -> u <> UUIDValidityBumped -> cu_tx s e u = Some (s1, sus) ->
       exists sus', cu_apply s1 e' u = (s1, AOk, sus') /\ filter cu_visible sus' = [].
   Proved here for MailboxCreated/Deleted/Updated/IDChanged, MessageDeleted, MessageIDChanged, Noop (_partial),
   MessageFlagsUpdated and MessageMailboxesUpdated (the two theorems that follow);
   for MessagesCreated and MessageUpdated the second delivery is covered by C06_restating_update_changes_nothing once
   the state restates them (checked on the implementation by the harness' "dup" steps and on the model by the Examples
   below) — the implication "applied => restated" is not proved for these two. *)
Theorem C06_duplicate_is_noop_partial : forall s e e' u s1 sus, cu_wf s -> cu_simple_kind u = true ->
  cu_tx s e u = Some (s1, sus) ->
  exists sus', cu_apply s1 e' u = (s1, AOk, sus') /\ filter cu_visible sus' = [].
Proof. exact duplicate_simple_is_noop. Qed.
Print Assumptions C06_duplicate_is_noop_partial.

Theorem C06_duplicate_flags_is_noop : forall s e e' rid flags s1 sus, cu_wf s ->
  cu_tx s e (UMessageFlagsUpdated rid flags) = Some (s1, sus) ->
  cu_apply s1 e' (UMessageFlagsUpdated rid flags) = (s1, AOk, []).
Proof. exact duplicate_flags_is_noop. Qed.
Print Assumptions C06_duplicate_flags_is_noop.

Theorem C06_duplicate_mailboxes_is_noop : forall s e e' rid mboxes flags s1 sus, cu_wf s ->
  cu_tx s e (UMessageMailboxesUpdated rid mboxes flags) = Some (s1, sus) ->
  exists sus', cu_apply s1 e' (UMessageMailboxesUpdated rid mboxes flags) = (s1, AOk, sus') /\ filter cu_visible sus' = [].
Proof. exact duplicate_mailboxes_is_noop. Qed.
Print Assumptions C06_duplicate_mailboxes_is_noop.

(* UIDValidityBumped, however often delivered: no message, UID, flag, name, subscription or membership changes and
   nothing but the invalidation is queued — only the UIDVALIDITY values are replaced by the generated ones *)
Theorem C06_uidvalidity_bump_touches_only_uidvalidity : forall s e, (length (st_mb s) <= length (e_uidv e))%nat ->
  exists s1, cu_apply s e UUIDValidityBumped = (s1, AOk, [SuUidValidityBumped]) /\
    st_ms s1 = st_ms s /\ st_me s1 = st_me s /\ st_seq s1 = st_seq s /\ st_dsub s1 = st_dsub s /\
    map (fun m => (mb_id m, mb_rid m, mb_name m, mb_sub m)) (st_mb s1) = map (fun m => (mb_id m, mb_rid m, mb_name m, mb_sub m)) (st_mb s) /\
    map mb_uidv (st_mb s1) = firstn (length (st_mb s)) (e_uidv e).
Proof. exact uidvalidity_bumped_effect. Qed.
Print Assumptions C06_uidvalidity_bump_touches_only_uidvalidity.

(* ---- a valid update is applied successfully and produces exactly the change it describes ---- *)
Theorem C06_mailbox_created_effect : forall s e rid name fl pf att v vs,
  rid <> cu_recovery_rid -> cu_find_mb_rid s rid = None -> cu_find_mb_name s (cu_canon_name name) = None -> e_uidv e = v :: vs ->
  cu_apply s e (UMailboxCreated rid name fl pf att) =
    (mkSt (st_mb s ++ [mkMb (st_nextmb s) rid (cu_canon_name name) v true fl pf att]) (st_ms s) (st_me s) (st_seq s) (st_nextmb s + 1) (st_dsub s), AOk, []).
Proof. exact mailbox_created_effect. Qed.
Print Assumptions C06_mailbox_created_effect.

(* T1: what the translator reads from connector_updates.go on every run: applyMailboxUpdated compares the names EXACTLY
   (a change of letter case is a rename) and applyMessageMailboxesUpdated queues the membership updates before the flag
   updates, applyMailboxCreated stores FLAGS, PERMANENTFLAGS and attributes of the update each in its place *)
Theorem C06_source_facts : mailbox_rename_compares_exactly = true /\ mailbox_updates_before_flag_updates = true /\
  mailbox_created_passes_three_sets = true /\ created_size_is_stored_size = true /\ recovery_mailbox_guards_first = true.
Proof. exact (conj eq_refl (conj eq_refl (conj eq_refl (conj eq_refl eq_refl)))). Qed.
Print Assumptions C06_source_facts.

(* a MailboxUpdated whose canonical name differs from the stored one in any way — letter case included — renames the
   mailbox (and only it; identity, UIDVALIDITY, subscription, messages and UIDs stay) *)
Theorem C06_mailbox_updated_effect : forall s e rid name m, rid <> cu_recovery_rid -> cu_find_mb_rid s rid = Some m ->
  mb_name m <> cu_canon_name name ->
  existsb (fun x => (mb_name x =? cu_canon_name name) && negb (mb_rid x =? rid)) (st_mb s) = false ->
  exists s1 m1, cu_apply s e (UMailboxUpdated rid name) = (s1, AOk, []) /\ cu_find_mb_rid s1 rid = Some m1 /\
    mb_name m1 = cu_canon_name name /\ mb_id m1 = mb_id m /\ mb_uidv m1 = mb_uidv m /\ mb_sub m1 = mb_sub m /\
    st_ms s1 = st_ms s /\ st_me s1 = st_me s /\ st_seq s1 = st_seq s /\
    (forall x, In x (st_mb s) -> mb_rid x <> rid -> In x (st_mb s1)).
Proof. exact mailbox_updated_effect. Qed.
Print Assumptions C06_mailbox_updated_effect.

(* MessageMailboxesUpdated queues its state updates in this order: first everything about membership (EXISTS for the
   mailboxes the message enters, EXPUNGE for those it leaves), then the flag changes — a session that has a destination
   mailbox selected learns the message before its new flags *)
Theorem C06_mailboxes_updated_membership_before_flags : forall s e rid mboxes flags s1 sus,
  cu_tx s e (UMessageMailboxesUpdated rid mboxes flags) = Some (s1, sus) ->
  exists a b, sus = a ++ b /\ forallb su_membership a = true /\ forallb su_flag b = true.
Proof. exact mailboxes_updated_order. Qed.
Print Assumptions C06_mailboxes_updated_membership_before_flags.

(* MessageUpdated with another literal: afterwards the remote id leads to a message that is not marked for deletion and
   whose announced size (RFC822.SIZE = size of the stored literal, [size_of] of the literal token) is the size of the NEW
   literal as stored — together with the fact created_size_is_stored_size of C06_source_facts *)
Theorem C06_replaced_message_has_new_literal_and_size : forall (size_of : N -> N) s e rid lit flags mboxes allow m s1 sus,
  cu_wf s -> cu_find_ms_rid s rid = Some m -> ms_lit m <> lit ->
  cu_tx s e (UMessageUpdated rid lit flags mboxes allow) = Some (s1, sus) ->
  exists m1, cu_find_ms_rid s1 rid = Some m1 /\ ms_del m1 = false /\ cu_announced_size size_of m1 = size_of lit.
Proof. exact message_replaced_size. Qed.
Print Assumptions C06_replaced_message_has_new_literal_and_size.

Theorem C06_mailbox_deleted_effect : forall s e rid m, rid <> cu_recovery_rid -> cu_find_mb_rid s rid = Some m ->
  exists s1, cu_apply s e (UMailboxDeleted rid) = (s1, AOk, [SuMailboxDeleted (mb_id m)]) /\
    cu_find_mb_rid s1 rid = None /\ st_ms s1 = st_ms s /\
    (forall x, In x (st_mb s1) <-> In x (st_mb s) /\ mb_rid x <> rid) /\
    (forall x, In x (st_me s1) <-> In x (st_me s) /\ me_mb x <> mb_id m).
Proof. exact mailbox_deleted_effect. Qed.
Print Assumptions C06_mailbox_deleted_effect.

(* the message ends with exactly the given flags (as a set); its identity, literal, memberships and UIDs and every
   other message are untouched *)
Theorem C06_flags_updated_effect : forall s e rid flags m, cu_wf s -> cu_find_ms_rid s rid = Some m ->
  exists s1 sus m1, cu_apply s e (UMessageFlagsUpdated rid flags) = (s1, AOk, sus) /\
    st_mb s1 = st_mb s /\ st_me s1 = st_me s /\ st_seq s1 = st_seq s /\
    cu_find_ms_id s1 (ms_id m) = Some m1 /\ ms_id m1 = ms_id m /\ ms_rid m1 = ms_rid m /\ ms_lit m1 = ms_lit m /\
    ms_del m1 = ms_del m /\ (forall f, cu_mem f (ms_flags m1) = cu_mem f flags) /\
    (forall x, In x (st_ms s) -> ms_id x <> ms_id m -> In x (st_ms s1)).
Proof. exact flags_updated_effect. Qed.
Print Assumptions C06_flags_updated_effect.

(* the message leaves every mailbox, is marked for deletion and gives its remote id back; every other row stays *)
Theorem C06_message_deleted_effect : forall s e rid m, cu_wf s -> cu_find_ms_rid s rid = Some m ->
  exists s1 sus, cu_apply s e (UMessageDeleted rid) = (s1, AOk, sus) /\
    st_mb s1 = st_mb s /\ cu_find_ms_rid s1 rid = None /\
    (forall x, In x (st_me s1) <-> In x (st_me s) /\ me_ms x <> ms_id m) /\
    (forall x, In x (st_ms s) -> ms_id x <> ms_id m -> In x (st_ms s1)) /\
    (exists m1, cu_find_ms_id s1 (ms_id m) = Some m1 /\ ms_del m1 = true /\ ms_rid m1 = None /\ ms_lit m1 = ms_lit m).
Proof. exact message_deleted_effect. Qed.
Print Assumptions C06_message_deleted_effect.

(* the message row and EVERY mailbox row of the message carry the new remote id; mailboxes, UIDs, other rows unchanged *)
Theorem C06_message_id_changed_effect : forall s e iid rid m, cu_find_ms_id s iid = Some m ->
  existsb (fun x => cu_rid_is (ms_rid x) rid && negb (ms_id x =? iid)) (st_ms s) = false ->
  existsb (fun x => (me_rid x =? rid) && negb (me_ms x =? iid) && cu_mem (me_mb x) (cu_ms_mailboxes s iid)) (st_me s) = false ->
  exists s1, cu_apply s e (UMessageIDChanged iid rid) = (s1, AOk, [SuMessageRid iid rid]) /\ st_mb s1 = st_mb s /\ st_seq s1 = st_seq s /\
    (exists m1, cu_find_ms_id s1 iid = Some m1 /\ ms_rid m1 = Some rid /\ ms_lit m1 = ms_lit m /\ ms_flags m1 = ms_flags m) /\
    (forall x, In x (st_me s1) -> me_ms x = iid -> me_rid x = rid) /\
    map (fun x => (me_mb x, me_uid x, me_ms x)) (st_me s1) = map (fun x => (me_mb x, me_uid x, me_ms x)) (st_me s) /\
    (forall x, In x (st_me s) -> me_ms x <> iid -> In x (st_me s1)).
Proof. exact message_id_changed_effect. Qed.
Print Assumptions C06_message_id_changed_effect.

(* ---- the protected mailbox ---- *)
(* an update that names the recovery mailbox — MailboxCreated / MailboxDeleted / MailboxUpdated by its remote id,
   MailboxIDChanged by its INTERNAL id — is acknowledged with an error and changes nothing (the guards are the first
   statement of the four functions: recovery_mailbox_guards_first in C06_source_facts) *)
Theorem C06_update_aimed_at_recovery_mailbox_is_refused : forall s e u,
  cu_aimed_at_recovery s u = true -> cu_apply s e u = (s, AErr, []).
Proof. exact aimed_at_recovery_refused. Qed.
Print Assumptions C06_update_aimed_at_recovery_mailbox_is_refused.

(* no update on the mailbox table — whatever it names, valid or not, acknowledged or refused — removes, renames or
   re-labels the recovery mailbox: its entry is in the table afterwards exactly as before *)
Theorem C06_recovery_mailbox_survives_every_mailbox_update : forall s e u s' a sus m, cu_wf s ->
  cu_mailbox_kind u = true -> In m (st_mb s) -> mb_rid m = cu_recovery_rid -> cu_apply s e u = (s', a, sus) ->
  In m (st_mb s').
Proof. exact recovery_mailbox_kept. Qed.
Print Assumptions C06_recovery_mailbox_survives_every_mailbox_update.

(* ---- the flags of a MessagesCreated batch: a flat list of (message, flag) pairs cut into chunks ---- *)
(* cutting a flat list of k-tuples into chunks of n values is cutting the list of tuples into chunks of n/k tuples —
   every statement gets whole rows — when k divides n *)
Theorem C06_chunks_keep_tuples : forall (A : Type) k, (0 < k)%nat -> forall n (rows : list (list A)), (0 < n)%nat ->
  Nat.divide k n -> Forall (fun r => length r = k) rows ->
  cs_chunks n (concat rows) = cs_row_chunks k n rows.
Proof. exact (@chunks_keep_tuples). Qed.
Print Assumptions C06_chunks_keep_tuples.

(* and only then: every chunk of every such list holds a whole number of tuples iff k divides n (when it does not, the
   first chunk of any list with more than n values ends inside a tuple — the statement has a value too many) *)
Theorem C06_chunks_keep_tuples_iff : forall (A : Type) k, (0 < k)%nat -> forall n (x : A), (0 < n)%nat ->
  (forall rows : list (list A), Forall (fun r => length r = k) rows ->
     Forall (fun c => Nat.divide k (length c)) (cs_chunks n (concat rows)))
  <-> Nat.divide k n.
Proof. exact (@chunks_keep_tuples_iff). Qed.
Print Assumptions C06_chunks_keep_tuples_iff.

(* T1: db.ChunkLimit and the flat chunk loops of the SQLite layer as the translator finds them on every run (the flag
   pairs of writeOps.CreateMessages): every group has as many question marks as the divisor of len(chunk)/K says and K
   divides the chunk size; every such loop was understood and there is at least one *)
Theorem C06_chunk_limit_fits_flat_groups :
  cs_flat_groups_ok flat_chunk_groups = true /\ flat_chunk_loops_not_understood = 0 /\ (0 <? N.of_nat (length flat_chunk_groups)) = true /\
  (0 <? conn_chunk_limit) = true.
Proof. exact (conj eq_refl (conj eq_refl (conj eq_refl eq_refl))). Qed.
Print Assumptions C06_chunk_limit_fits_flat_groups.

(* hence, for every flat chunk loop FOUND IN THE SOURCE, rows of its group size stay whole in every chunk, for every
   number of rows (does not type-check when db.ChunkLimit is not a multiple of a group size) *)
Theorem C06_source_flat_chunks_keep_rows : forall (A : Type) q k n (rows : list (list A)),
  In (q, k, n) flat_chunk_groups -> 0 < n -> Forall (fun r => length r = N.to_nat k) rows ->
  cs_chunks (N.to_nat n) (concat rows) = cs_row_chunks (N.to_nat k) (N.to_nat n) rows.
Proof. exact (flat_groups_keep_rows flat_chunk_groups eq_refl). Qed.
Print Assumptions C06_source_flat_chunks_keep_rows.

(* ---- non-vacuity ---- *)
(* INBOX (remote id 1), a mailbox "3" (remote id 5), the recovery mailbox; message 1 in both, message 2 in one *)
Definition ex_state : cu_state :=
  mkSt [mkMb 1 0 9 100 true [] [] []; mkMb 2 1 0 101 true [1] [1] []; mkMb 3 5 3 102 true [1; 2] [1] [3]]
       [mkMs 1 (Some 7) 1 [1] false; mkMs 2 (Some 8) 2 [] false]
       [mkMe 2 1 1 7; mkMe 3 1 1 7; mkMe 3 2 2 8] [(2, 1); (3, 2)] 4 [].

Example C06_ex_wf : cu_wf ex_state.
Proof.
  constructor; cbn [ex_state st_mb st_ms st_me]; intros x.
  - intros [H|[H|[H|[]]]]; subst x; reflexivity.
  - intros [H|[H|[H|[]]]]; subst x; reflexivity.
  - intros [H|[H|[]]]; subst x; reflexivity.
  - intros r [H|[H|[]]] Hr; subst x; cbn [ms_rid] in Hr; injection Hr as Hr; subst r; reflexivity.
  - intros [H|[H|[H|[]]]]; subst x; cbn [me_ms me_rid].
    + exists (mkMs 1 (Some 7) 1 [1] false). cbn. auto.
    + exists (mkMs 1 (Some 7) 1 [1] false). cbn. auto.
    + exists (mkMs 2 (Some 8) 2 [] false). cbn. auto.
Qed.

(* the echo of a client's COPY/STORE: MessageMailboxesUpdated naming the mailboxes and flags the message already has *)
Example C06_ex_restates : cu_restates ex_state (UMessageMailboxesUpdated 7 [5; 1] [1]).
Proof.
  cbn [cu_restates]. split; [reflexivity|]. exists (mkMs 1 (Some 7) 1 [1] false). split; [reflexivity|].
  split; intros x; vm_compute; destruct x as [|p]; try reflexivity;
    repeat (destruct p as [p|p|]; try reflexivity).
Qed.

(* a batch (new message 9 in two mailboxes, known message 7, a repeated entry, a message aimed at the recovery mailbox),
   a replaced literal, a mailbox-set update: applied, then delivered again as is — nothing changes, nothing is queued *)
Example C06_ex_duplicates :
  let u1 := UMessagesCreated false [mkItem 9 3 [1; 2] [5; 1]; mkItem 7 1 [1] [5]; mkItem 9 3 [1; 2] [1]; mkItem 10 4 [] [0]] in
  let u2 := UMessageUpdated 8 5 [2] [1; 5] false in
  let u3 := UMessageMailboxesUpdated 7 [1] [2; 3] in
  let '(s1, a1, q1) := cu_apply ex_state (mkEnv [3] []) u1 in
  let '(s2, a2, q2) := cu_apply s1 (mkEnv [4] []) u2 in
  let '(s3, a3, q3) := cu_apply s2 (mkEnv [] []) u3 in
  a1 = AOk /\ a2 = AOk /\ a3 = AOk /\ q1 <> [] /\ q2 <> [] /\ q3 <> [] /\
  cu_apply s1 (mkEnv [50] []) u1 = (s1, AOk, []) /\
  cu_apply s2 (mkEnv [51] []) u2 = (s2, AOk, []) /\
  cu_apply s3 (mkEnv [52] []) u3 = (s3, AOk, []).
Proof. vm_compute. repeat split; discriminate. Qed.

(* an update on an unknown message / the protected mailbox is acknowledged with an error and the next one is applied *)
Example C06_ex_pipeline :
  snd (cu_run ex_state [(mkEnv [] [], UMessageFlagsUpdated 99 [1]); (mkEnv [] [], UMailboxDeleted 0);
                        (mkEnv [] [], UMessageFlagsUpdated 7 [2])]) = [AErr; AErr; AOk].
Proof. vm_compute. reflexivity. Qed.
