#!/usr/bin/env python3
"""Driver for one property check (DESIGN.md section 2.4).

  bin/check <Cxx> <quick|thorough> [--replay FILE]

Steps: regenerate coq/Gen/Facts.v from /repo (T1) -> build the Coq targets of the property (proof
obligations, Print Assumptions, no-axiom gate) -> build and run the Go harness against /repo with -tags verif
(T2 + property oracle) -> evaluate the Impl model on the harness' cases inside Coq (vm_compute) -> decide.
"""
import fcntl
import hashlib
import json
import os
import re
import subprocess
import sys
import time

VERIF = os.path.dirname(os.path.dirname(os.path.abspath(__file__)))
REPO = os.environ.get("VERIF_REPO", "/repo")
ALT = REPO != "/repo"
# a scratch repository gets private build/run/evidence directories, keyed by its path, so that several scratch runs can
# go on side by side and never touch the evidence of /repo
ALTTAG = ("alt-" + __import__("hashlib").sha1(REPO.encode()).hexdigest()[:8]) if ALT else ""
COQ = os.path.join(VERIF, "coq")
BUILD = os.path.join(VERIF, "build")
RUN = os.path.join(VERIF, "run")

GOENV = dict(os.environ, GOFLAGS="-mod=mod", GOPROXY="off", GOSUMDB="off", GOTOOLCHAIN="local",
             CGO_ENABLED="1")

TRUSTED_COMMON = [
    "Coq 8.16.1 kernel (coqc); vm_compute used for model evaluation, witnesses and finite sweeps; no native_compute",
    "no axioms declared by the development (grep gate on every run); Print Assumptions output of every property theorem is recorded in 'assumptions_report'",
    "T1 translator /verif/translator/srcfacts (Go, go/ast + execution of /repo's rfcparser tables) regenerating coq/Gen/Facts.v from the working tree",
    "T2 correspondence harness /verif/harness (Go, built against /repo with -tags verif) and its canonicalisation; Impl model evaluated inside Coq on the same inputs",
    "coq/Model/*.v are hand-written models of the Go functions named in their headers; the Go code, runtime, SQLite, go-sqlite3, LZ4, AES-GCM are modelled/assumed, not verified",
]


def sh(cmd, cwd=None, timeout=None, env=None):
    t0 = time.time()
    try:
        p = subprocess.run(cmd, cwd=cwd, timeout=timeout, env=env, stdout=subprocess.PIPE,
                           stderr=subprocess.STDOUT, shell=isinstance(cmd, str))
        return p.returncode, p.stdout.decode("utf-8", "replace"), time.time() - t0
    except subprocess.TimeoutExpired as e:
        out = (e.stdout or b"").decode("utf-8", "replace")
        return 124, out + "\n[timeout]", time.time() - t0


class Lock:
    def __enter__(self):
        os.makedirs(BUILD, exist_ok=True)
        self.f = open(os.path.join(BUILD, ".lock"), "w")
        fcntl.flock(self.f, fcntl.LOCK_EX)
        return self

    def __exit__(self, *a):
        fcntl.flock(self.f, fcntl.LOCK_UN)
        self.f.close()


def prepare_go_dir(name):
    """Returns the directory to build <name> (harness/translator) from; when VERIF_REPO points elsewhere a copy with a
    rewritten replace directive is used."""
    src = os.path.join(VERIF, name)
    if REPO == "/repo":
        subprocess.run(["cp", os.path.join(REPO, "go.sum"), os.path.join(src, "go.sum")])
        return src
    dst = os.path.join(BUILD, ALTTAG + "-" + name)
    subprocess.run(["rsync", "-a", "--delete", src + "/", dst + "/"])
    gm = open(os.path.join(dst, "go.mod")).read().replace("=> /repo", "=> " + REPO)
    open(os.path.join(dst, "go.mod"), "w").write(gm)
    subprocess.run(["cp", os.path.join(REPO, "go.sum"), os.path.join(dst, "go.sum")])
    return dst


def regen_facts(log, repo=None):
    """T1: rebuild the translator and regenerate coq/Gen/Facts*.v from the repository. Returns (ok, message)."""
    repo = repo or REPO
    tdir = prepare_go_dir("translator")
    binp = os.path.join(BUILD, "srcfacts" if not ALT else ALTTAG + "-srcfacts")
    rc, out, _ = sh(["go", "build", "-o", binp, "."], cwd=tdir, timeout=600, env=GOENV)
    if rc != 0:
        log.append("translator build failed:\n" + out)
        return False, "translator build failed: " + out[-2000:]
    rc, out, _ = sh([binp, repo, os.path.join(COQ, "Gen")], cwd=tdir, timeout=300, env=GOENV)
    log.append("srcfacts: " + out.strip()[-300:])
    if rc != 0:
        return False, "translator failed: " + out[-2000:]
    return True, out.strip()


def coq_project():
    rc, out, _ = sh(["sh", os.path.join(COQ, "mkproject.sh")], cwd=COQ, timeout=120)
    return rc == 0


def coq_build(targets, log, timeout=1500):
    """Build the given .vo targets (and their dependencies). Returns (ok, output)."""
    if not os.path.exists(os.path.join(COQ, "Makefile")):
        coq_project()
    rc, out, dt = sh(["make", "-j16"] + targets, cwd=COQ, timeout=timeout)
    if rc != 0 and "No rule to make target" in out:
        coq_project()
        rc, out, dt = sh(["make", "-j16"] + targets, cwd=COQ, timeout=timeout)
    log.append("make %s: rc=%d %.1fs" % (" ".join(targets), rc, dt))
    return rc == 0, out


FORBIDDEN = re.compile(r"\b(Admitted|admit|Axiom|Axioms|Parameter|Parameters|Conjecture|Conjectures|Hypothesis|Hypotheses|Variable|Variables|Admit Obligations|bypass_check|Unset Guard Checking|Unset Positivity Checking|Unset Universe Checking|type-in-type)\b")


def strip_comments(src):
    out = []
    depth = 0
    i = 0
    while i < len(src):
        if src.startswith("(*", i):
            depth += 1
            i += 2
        elif src.startswith("*)", i) and depth > 0:
            depth -= 1
            i += 2
        else:
            if depth == 0:
                out.append(src[i])
            i += 1
    return "".join(out)


def axiom_gate():
    """No Admitted/admit/Axiom/Parameter/... anywhere; Variable/Hypothesis only inside a Section."""
    bad = []
    for root, _, files in os.walk(COQ):
        for fn in files:
            if not fn.endswith(".v"):
                continue
            path = os.path.join(root, fn)
            src = strip_comments(open(path).read())
            depth = 0
            for ln, line in enumerate(src.split("\n"), 1):
                if re.match(r"\s*Section\b", line):
                    depth += 1
                if re.match(r"\s*End\b", line) and depth > 0:
                    depth -= 1
                for m in FORBIDDEN.finditer(line):
                    w = m.group(1)
                    if w in ("Variable", "Variables", "Hypothesis", "Hypotheses") and depth > 0:
                        continue
                    bad.append("%s:%d: %s" % (os.path.relpath(path, VERIF), ln, w))
    return bad


def props_report(pid, log):
    """Recompile Props/<pid>.v, collect theorem names and Print Assumptions output."""
    src = open(os.path.join(COQ, "Props", pid + ".v")).read()
    theorems = re.findall(r"^\s*Theorem\s+(\w+)", strip_comments(src), flags=re.M)
    rc, out, dt = sh(["coqc", "-Q", ".", "Gluon", "-w", "-notation-overridden,-deprecated-hint-without-locality,-deprecated-instance-without-locality", "Props/%s.v" % pid], cwd=COQ, timeout=900)
    log.append("coqc Props/%s.v rc=%d %.1fs" % (pid, rc, dt))
    closed = out.count("Closed under the global context")
    axioms = []
    if "Axioms:" in out:
        for blk in out.split("Axioms:")[1:]:
            for line in blk.split("\n"):
                m = re.match(r"^(\S+)\s*:", line)
                if m:
                    axioms.append(m.group(1))
    return rc == 0, theorems, closed, sorted(set(axioms)), out


def build_harness(pid, log):
    hdir = prepare_go_dir("harness")
    binp = os.path.join(BUILD, ("" if not ALT else ALTTAG + "-") + "harness-" + pid)
    rc, out, dt = sh(["go", "build", "-tags", "verif", "-o", binp, "./cmd/" + pid.lower()],
                     cwd=hdir, timeout=1200, env=GOENV)
    log.append("go build harness rc=%d %.1fs" % (rc, dt))
    return rc == 0, out


def run_harness(pid, tier, seed, outdir, log, timeout, extra=None):
    os.makedirs(outdir, exist_ok=True)
    for fn in ("result.json", "cases.v", "current.json"):
        p = os.path.join(outdir, fn)
        if os.path.exists(p):
            os.remove(p)
    binp = os.path.join(BUILD, ("" if not ALT else ALTTAG + "-") + "harness-" + pid)
    cmd = [binp, "-out", outdir, "-seed", str(seed), "-tier", tier] + (extra or [])
    rc, out, dt = sh(cmd, cwd=VERIF, timeout=timeout, env=GOENV)
    log.append("harness %s rc=%d %.1fs" % (pid, rc, dt))
    res = None
    rp = os.path.join(outdir, "result.json")
    if os.path.exists(rp):
        try:
            res = json.load(open(rp))
        except Exception as e:  # noqa
            res = None
    cp = os.path.join(outdir, "current.json")
    if res is None and rc != 0 and os.path.exists(cp) and re.search(r"^(panic:|fatal error:)", out, flags=re.M):
        # the implementation crashed the process while the recorded case was running: that case is the failing input
        try:
            cur = json.load(open(cp))
        except Exception:  # noqa
            cur = {"canonical": "?", "case": None}
        m = re.search(r"^(panic:.*|fatal error:.*)$", out, flags=re.M)
        res = {"property": pid, "evaluations": 1, "distinct_nontrivial": 0, "rule": "crash", "samples": [cur],
               "distribution": {}, "infra_errors": [], "model_cases": 0, "crashed": True,
               "failures": [{"canonical": "CRASH " + cur.get("canonical", "?"),
                             "detail": "process crashed: " + (m.group(1) if m else "") + "\n" + out[-3000:],
                             "case": cur.get("case")}]}
        rc = 0
    return rc, out, res


def run_model(outdir, log, timeout=1200):
    """Evaluate the Impl model on the harness cases inside Coq. Returns (ok, mismatch ids or None, output)."""
    cv = os.path.join(outdir, "cases.v")
    if not os.path.exists(cv):
        return True, [], "no cases.v"
    rc, out, dt = sh(["coqc", "-Q", COQ, "Gluon", "-w", "-notation-overridden", "cases.v"], cwd=outdir, timeout=timeout)
    log.append("coqc cases.v rc=%d %.1fs" % (rc, dt))
    if rc != 0:
        return False, None, out
    m = re.search(r"M\s*=\s*(\[.*?\])\s*:", out, flags=re.S)
    if not m:
        return False, None, out
    body = m.group(1).replace("\n", " ")
    ids = [int(x) for x in re.findall(r"\d+", body)]
    return True, ids, out


def load_known():
    p = os.path.join(VERIF, "known_findings.json")
    if not os.path.exists(p):
        return []
    return json.load(open(p)).get("findings", [])


def match_known(pid, canonical, known):
    for k in known:
        if k.get("property") != pid or k.get("status") != "finding":
            continue
        sig = k.get("signature", {})
        if sig.get("kind") == "exact" and canonical == sig.get("canonical"):
            return k
        if sig.get("kind") == "regex" and re.fullmatch(sig.get("pattern", ""), canonical, flags=re.S):
            return k
    return None


def write_replay(pid, payload):
    os.makedirs(os.path.join(VERIF, "replays"), exist_ok=True)
    h = hashlib.sha1(json.dumps(payload, sort_keys=True, default=str).encode()).hexdigest()[:10]
    path = os.path.join(VERIF, "replays", "%s-%s.json" % (pid, h))
    with open(path, "w") as f:
        json.dump(payload, f, indent=1, default=str)
    return path


def write_evidence(pid, ev):
    evdir = os.path.join(VERIF, "evidence") if not ALT else os.path.join(RUN, ALTTAG + "-evidence")
    os.makedirs(evdir, exist_ok=True)
    with open(os.path.join(evdir, pid + ".json"), "w") as f:
        json.dump(ev, f, indent=1, default=str)


def check(pid, tier, cfg, replay=None):
    t0 = time.time()
    seed = int(os.environ.get("VERIF_SEED", "1") or "1")
    log = []
    violations = []       # (replay_path, suffix)
    known_lines = []
    notes = []
    known = load_known()
    outdir = os.path.join(RUN, pid if not ALT else ALTTAG + "-" + pid)
    proof_ok = True
    proof_msg = ""
    theorems, closed, axioms, passum = [], 0, [], ""
    res = None
    mismatches = []
    model_ok = True
    harness_ok = True
    infra = []

    alt = REPO != "/repo"
    global COQ
    if alt:
        # a scratch repository: work on a private copy of the Coq tree so that the generated facts of the scratch
        # repository never touch /verif/coq and no lock is held while the harness and the model run
        altcoq = os.path.join(BUILD, ALTTAG + "-coq-" + pid)
        with Lock():
            subprocess.run(["rsync", "-a", "--delete", os.path.join(VERIF, "coq") + "/", altcoq + "/"])
        COQ = altcoq
    biglock = None
    try:
        # 1. T1 + proofs (shared Coq build directory: under the lock)
        lk = None if alt else Lock()
        if lk:
            lk.__enter__()
        try:
            ok, msg = regen_facts(log)
            if not ok:
                proof_ok, proof_msg = False, msg
            coq_project()
            targets = ["Props/%s.vo" % pid] + ["Run/%s.vo" % r for r in cfg.get("run_modules", ["Run" + pid])]
            if proof_ok:
                ok, out = coq_build(targets, log)
                if not ok:
                    proof_ok = False
                    proof_msg = out[-3000:]
            gate = axiom_gate()
            if gate:
                proof_ok = False
                proof_msg += "\nforbidden declarations: " + "; ".join(gate[:20])
            if proof_ok:
                ok, theorems, closed, axioms, passum = props_report(pid, log)
                allowed = set(cfg.get("allowed_axioms", []))
                if not ok:
                    proof_ok, proof_msg = False, passum[-3000:]
                elif set(axioms) - allowed:
                    proof_ok = False
                    proof_msg = "unexpected axioms: %s" % sorted(set(axioms) - allowed)
        finally:
            if lk:
                lk.__exit__()
        # 2. harness
        ok, out = build_harness(pid, log)
        if not ok:
            harness_ok = False
            infra.append("harness build failed: " + out[-3000:])
        else:
            htimeout = cfg.get("harness_timeout", {}).get(tier, 900 if tier == "quick" else 3600)
            extra = ["-replay", replay] if replay else None
            hung = []
            for attempt in range(2):
                rc, out, res = run_harness(pid, tier, seed, outdir, log, htimeout, extra)
                if res is not None and rc == 0 and not res.get("infra_errors"):
                    break
                if res is None and rc == 124:
                    # the harness did not return within a timeout that is many times its normal run time: remember the
                    # case it was running; the same case on both attempts = the implementation does not return on it
                    try:
                        hung.append(json.load(open(os.path.join(outdir, "current.json"))))
                    except Exception:  # noqa
                        hung.append(None)
                    if len(hung) == 2 and hung[0] is not None and hung[1] is not None \
                            and hung[0].get("canonical") == hung[1].get("canonical"):
                        cur = hung[1]
                        res = {"property": pid, "evaluations": 1, "distinct_nontrivial": 0, "rule": "hang", "samples": [cur],
                               "distribution": {}, "infra_errors": [], "model_cases": 0, "crashed": True,
                               "failures": [{"canonical": "HANG " + cur.get("canonical", "?"),
                                             "detail": "the implementation did not return on this case within %ds (twice)" % htimeout,
                                             "case": cur.get("case")}]}
                        rc = 0
                        break
                notes.append("harness attempt %d: rc=%s infra=%s tail=%s" % (attempt, rc, (res or {}).get("infra_errors"), out[-1500:]))
                if res is not None and res.get("failures"):
                    break
            if res is None or rc != 0 or res.get("infra_errors"):
                harness_ok = False
                infra.append("harness did not complete: rc=%s %s %s" % (rc, (res or {}).get("infra_errors"), out[-2000:]))
        # 3. model evaluation (reads the compiled .vo files; retried once in case another check was rebuilding them)
        if res is not None and proof_ok:
            for attempt in range(2):
                ok, ids, mout = run_model(outdir, log)
                if ok:
                    break
                time.sleep(5)
            if not ok:
                model_ok = False
                notes.append("model evaluation failed: " + mout[-2000:])
            else:
                mismatches = ids
    finally:
        pass

    # 3b. thorough tier: independent re-check of the compiled theorems (and everything they depend on) with coqchk
    coqchk_report = None
    if tier == "thorough" and proof_ok:
        rc_c, out_c, dt_c = sh(["coqchk", "-silent", "-o", "-Q", ".", "Gluon", "Gluon.Props." + pid], cwd=COQ, timeout=3000)
        log.append("coqchk Gluon.Props.%s rc=%d %.1fs" % (pid, rc_c, dt_c))
        m_ax = re.search(r"\* Axioms:(.*?)\n\s*\n\* Constants", out_c, flags=re.S)
        coqchk_report = {"rc": rc_c, "axioms": " ".join((m_ax.group(1) if m_ax else "?").split()), "tail": out_c[-600:]}
        if rc_c != 0:
            proof_ok = False
            proof_msg = "coqchk failed: " + out_c[-2000:]

    # 4. decide
    failures = (res or {}).get("failures", [])
    seen = set()
    for f in failures:
        canon = f.get("canonical", "")
        k = match_known(pid, canon, known)
        if k is not None:
            line = "KNOWN-FINDING: property=%s %s [%s]" % (pid, k.get("what", ""), k.get("id", ""))
            if line not in seen:
                known_lines.append(line)
                seen.add(line)
            continue
        if canon in seen:
            continue
        seen.add(canon)
        path = write_replay(pid, {"property": pid, "kind": "oracle-failure", "canonical": canon, "detail": f.get("detail"),
                                  "case": f.get("case"), "seed": seed, "tier": tier,
                                  "replay_cmd": "bin/check %s %s --replay <this file>" % (pid, tier)})
        violations.append((path, ""))
        if len(violations) >= 5:
            break

    unexplained = []
    if not violations:
        if not proof_ok:
            unexplained.append({"what": "proof obligation or translated fact no longer checks", "detail": proof_msg})
        if mismatches:
            unexplained.append({"what": "correspondence: Impl model and implementation differ", "case_ids": mismatches[:50],
                                "cases_file": os.path.join(outdir, "cases.v")})
        if not model_ok:
            unexplained.append({"what": "model evaluation (coqc cases.v) failed", "detail": notes[-1] if notes else ""})
        if not harness_ok:
            unexplained.append({"what": "harness could not complete against the implementation", "detail": infra})
        if unexplained:
            # widen the search for a concrete failing input (more cases, other seeds)
            found = None
            if harness_ok or res is not None:
                for s2 in (seed + 1000, seed + 2000, seed + 3000):
                    sn = cfg.get("search_n")
                    rc, out, r2 = run_harness(pid, "quick" if not sn else "thorough", s2, outdir + "-search", log,
                                              cfg.get("harness_timeout", {}).get("search", 1200),
                                              ["-n", str(sn)] if sn else None)
                    if r2 is not None:
                        for f in r2.get("failures", []):
                            if match_known(pid, f.get("canonical", ""), known) is None:
                                found = (f, s2)
                                break
                    if found:
                        break
            if found:
                f, s2 = found
                path = write_replay(pid, {"property": pid, "kind": "oracle-failure (found by widened search)",
                                          "canonical": f.get("canonical"), "detail": f.get("detail"), "case": f.get("case"),
                                          "seed": s2, "tier": "thorough", "broken": unexplained})
                violations.append((path, ""))
            else:
                path = write_replay(pid, {"property": pid, "kind": "no-failing-input-found",
                                          "no_longer_checks": unexplained,
                                          "theorems": theorems, "seed": seed})
                violations.append((path, " no-failing-input-found"))

    # 5. evidence
    cov = {
        "obligations": max(len(theorems), 1),
        "discharged": closed + (len(theorems) - closed if proof_ok and axioms and not (set(axioms) - set(cfg.get("allowed_axioms", []))) else 0) if proof_ok else 0,
        "checker_cmd": "make -C coq %s && coqc -Q coq Gluon coq/Props/%s.v (Print Assumptions) && coqc run/%s/cases.v" % (" ".join(targets), pid, pid),
        "trusted_base": TRUSTED_COMMON + cfg.get("trusted", []),
        "theorems": theorems,
        "axioms_reported": axioms,
        "evaluations": (res or {}).get("evaluations", 0),
        "distinct_nontrivial": (res or {}).get("distinct_nontrivial", 0),
        "rule": (res or {}).get("rule", ""),
        "samples": (res or {}).get("samples", []) or [{"theorems": theorems}],
        "distribution": (res or {}).get("distribution", {}),
        "model_cases": (res or {}).get("model_cases", 0),
        "model_mismatches": len(mismatches),
        "oracle_failures": len(failures),
        "known_findings_matched": known_lines,
        "harness_notes": (res or {}).get("notes", []),
        "coqchk": coqchk_report,
        "log": log,
    }
    ev = {
        "property_id": pid, "tier": tier, "seed": seed, "level": "proof", "coverage": cov,
        "assumptions": cfg.get("assumptions", []),
        "wall_s": round(time.time() - t0, 2), "violations": len(violations),
    }
    write_evidence(pid, ev)
    for line in known_lines:
        print(line)
    for path, suffix in violations:
        print("VIOLATION property=%s replay=%s%s" % (pid, path, suffix))
    print("%s %s: theorems=%d closed=%d evaluations=%d nontrivial=%d model_cases=%d mismatches=%d oracle_failures=%d known=%d wall=%.1fs" % (
        pid, tier, len(theorems), closed, cov["evaluations"], cov["distinct_nontrivial"], cov["model_cases"],
        len(mismatches), len(failures), len(known_lines), time.time() - t0))
    if notes:
        for n in notes[-3:]:
            print("note:", n[:500])
    return 1 if violations else 0


def main():
    if len(sys.argv) < 3:
        print(__doc__)
        sys.exit(2)
    pid, tier = sys.argv[1], sys.argv[2]
    replay = None
    if "--replay" in sys.argv:
        replay = sys.argv[sys.argv.index("--replay") + 1]
    sys.path.insert(0, os.path.join(VERIF, "lib"))
    cp = os.path.join(VERIF, "lib", "cfg", pid + ".json")
    cfg = json.load(open(cp)) if os.path.exists(cp) else {}
    # two runs of one property's check on the same tree share run/<id> and evidence/<id>.json: one at a time
    os.makedirs(BUILD, exist_ok=True)
    plock = open(os.path.join(BUILD, ".run-%s%s.lock" % (ALTTAG + "-" if ALT else "", pid)), "w")
    fcntl.flock(plock, fcntl.LOCK_EX)
    rc = check(pid, tier, cfg, replay)
    if ALT and not os.environ.get("VERIF_ALT_KEEP"):
        import glob, shutil
        for d in glob.glob(os.path.join(BUILD, ALTTAG + "-*")) + glob.glob(os.path.join(RUN, ALTTAG + "-*")) + glob.glob(os.path.join(BUILD, ".run-" + ALTTAG + "-*")):
            if os.path.isdir(d):
                shutil.rmtree(d, ignore_errors=True)
            else:
                os.remove(d)
    sys.exit(rc)


if __name__ == "__main__":
    main()
