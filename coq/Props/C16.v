(* C16 — Message sets select exactly the messages RFC 3501 says, or the command fails.
   Property theorems only; every proof is `exact <lemma>` and is followed by Print Assumptions. *)
From Coq Require Import List NArith ZArith Bool.
From Coq Require Import Sorted.
From Gluon Require Import Model.SeqSet Proofs.SeqSetProofs.
From Gluon Require Import Gen.FactsUidRange Proofs.UidRangeCodeProofs.
From Gluon Require Import Gen.FactsInterval Gen.FactsResolve Proofs.IntervalCodeProofs.
From Gluon Require Model.Responders Model.Session Proofs.SetProofs.
Import ListNotations.
Open Scope N_scope.

(* Sequence-number sets: for every view size and every written set (numbers of any magnitude) the
   implementation either answers BAD or selects, in order, exactly the positions the set denotes. *)
Theorem C16_seq_exact : forall cnt s, cnt < two32 ->
  impl_seq cnt s = if set_ok cnt s then Some (dedup_first (spec_seq_list cnt s)) else None.
Proof. exact impl_seq_correct. Qed.
Print Assumptions C16_seq_exact.

Theorem C16_seq_selected_iff_denoted : forall cnt s l p, cnt < two32 -> impl_seq cnt s = Some l ->
  (In p l <-> spec_seq_mem cnt s p).
Proof. exact seq_selected_iff_denoted. Qed.
Print Assumptions C16_seq_selected_iff_denoted.

(* each selected message is selected once *)
Theorem C16_no_duplicates : forall cnt s l, impl_seq cnt s = Some l -> NoDup l.
Proof. exact seq_nodup. Qed.
Print Assumptions C16_no_duplicates.

(* never mapped onto some other message: everything selected is a position of the view *)
Theorem C16_seq_selected_in_view : forall cnt s l p, cnt < two32 -> impl_seq cnt s = Some l -> In p l ->
  1 <= p <= cnt.
Proof. exact seq_in_view. Qed.
Print Assumptions C16_seq_selected_in_view.

(* any number beyond the count — however large — gives BAD *)
Theorem C16_seq_beyond_count_is_BAD : forall cnt s r n, cnt < two32 -> In r s ->
  (fst r = WNum n \/ snd r = WNum n) -> cnt < n -> impl_seq cnt s = None.
Proof. exact seq_beyond_count_is_bad. Qed.
Print Assumptions C16_seq_beyond_count_is_BAD.

Theorem C16_seq_empty_mailbox_is_BAD : forall s, s <> [] -> impl_seq 0 s = None.
Proof. exact seq_empty_mailbox_is_bad. Qed.
Print Assumptions C16_seq_empty_mailbox_is_BAD.

(* BAD is given only when the set requires it *)
Theorem C16_seq_BAD_only_if_required : forall cnt s, cnt < two32 -> impl_seq cnt s = None ->
  exists r, In r s /\ (w_ok cnt (fst r) = false \/ w_ok cnt (snd r) = false).
Proof. exact seq_bad_only_if_required. Qed.
Print Assumptions C16_seq_BAD_only_if_required.

(* UID sets: exactly the existing UIDs inside a non-exempt range; the exempt case (n:* with n above the
   highest UID) selects nothing. *)
Theorem C16_uid_exact : forall uids s, srt uids -> set32 s = true ->
  exists l, impl_uid uids s = Some l /\ forall u, In u l <-> spec_uid_mem' uids s u.
Proof. exact impl_uid_correct. Qed.
Print Assumptions C16_uid_exact.

(* a number that is not a 32-bit nz-number is refused, never narrowed onto an existing UID *)
Theorem C16_uid_invalid_number_is_BAD : forall uids s, set32 s = false -> impl_uid uids s = None.
Proof. exact impl_uid_invalid_is_bad. Qed.
Print Assumptions C16_uid_invalid_number_is_BAD.

(* UID mode: each selected message is selected once, and everything selected is a UID of the view *)
Theorem C16_uid_no_duplicates : forall uids s l, impl_uid uids s = Some l -> NoDup l.
Proof. exact uid_nodup. Qed.
Print Assumptions C16_uid_no_duplicates.

Theorem C16_uid_selected_exist : forall uids s l u, srt uids -> impl_uid uids s = Some l -> In u l -> In u uids.
Proof. exact uid_selected_exist. Qed.
Print Assumptions C16_uid_selected_exist.

(* T1: the model above is the code. Gen/FactsUidRange.v is regenerated from internal/state/snapshot_messages.go on every
   check (uidRange, getWithSeqID, existsWithSeqID translated statement by statement). For every view and every UID
   interval lo < hi the translated index arithmetic followed by the Go slice list.msg[a:b] does not panic and yields
   exactly what the model's uid_interval_msgs yields; the i-th message of the slice gets sequence number a+i+1; and the
   model of getMessagesInSeqRange is the translated bounds checks. *)
Theorem C16_uid_range_model_is_translated_code : forall uids lo hi, lo <= hi -> (lo =? hi) = false ->
  uid_range_by_code uids lo hi = Some (uid_interval_msgs uids (lo, hi)).
Proof. exact uid_range_code_is_model. Qed.
Print Assumptions C16_uid_range_model_is_translated_code.

Theorem C16_uid_range_seq_is_position : forall (len i1 i2 : Z) o1 o2 (i : Z),
  uid_range_seq_code len i1 i2 o1 o2 i = (i1 + i + 1)%Z :> Z.
Proof. exact uid_range_seq_is_position. Qed.
Print Assumptions C16_uid_range_seq_is_position.

Theorem C16_seq_interval_model_is_translated_code : forall cnt lo hi, 1 <= lo -> 1 <= hi ->
  seq_interval_msgs cnt (lo, hi) =
  if (lo =? hi) then (if get_with_seq_fails_code (Z.of_N cnt) (Z.of_N lo) then None else Some [lo])
  else if exists_with_seq_fails_code (Z.of_N cnt) (Z.of_N lo) || exists_with_seq_fails_code (Z.of_N cnt) (Z.of_N hi)
       then None else Some (interval_list lo hi).
Proof. exact seq_interval_by_code. Qed.
Print Assumptions C16_seq_interval_model_is_translated_code.

(* T1: the normalisation of one written range a:b (either order, `*` on either side) in the model is the loop body of
   resolveSeqInterval and of resolveUIDInterval, translated from the Go source by symbolic execution (Gen/FactsInterval.v):
   for every resolver and every pair of parsed numbers both translated bodies yield the model's interval. *)
Theorem C16_interval_model_is_translated_code : forall code, code = seq_interval_code \/ code = uid_interval_code ->
  forall (r : pnum -> N) b e, pnz b -> pnz e ->
  code (resZ r) seqnum_asterisk_value (enc b) (enc e) = pairZ (resolve_interval r (b, e)).
Proof. exact interval_code_is_model. Qed.
Print Assumptions C16_interval_model_is_translated_code.

(* T1: resolveSeq and resolveUID as translated (Gen/FactsResolve.v; the uint32 conversions written as narrowZ = mod 2^32):
   resolveSeq never fails and is the model's resolve_seq; resolveUID fails exactly on the empty view - the case
   impl_uid answers with the empty selection before resolving anything - and otherwise is the model's resolve_uid. *)
Theorem C16_resolve_seq_model_is_translated_code : forall cnt lastuid a, pnz a ->
  resolve_seq_code narrowZ (Z.of_N cnt) lastuid seqnum_asterisk_value (enc a) = Some (Z.of_N (resolve_seq cnt a)).
Proof. exact resolve_seq_code_is_model. Qed.
Print Assumptions C16_resolve_seq_model_is_translated_code.

Theorem C16_resolve_uid_model_is_translated_code : forall uids a, pnz a ->
  resolve_uid_code narrowZ (Z.of_nat (length uids)) (Z.of_N (last_uid uids)) seqnum_asterisk_value (enc a) =
  match uids with [] => None | _ => Some (Z.of_N (resolve_uid uids a)) end.
Proof. exact resolve_uid_code_is_model. Qed.
Print Assumptions C16_resolve_uid_model_is_translated_code.

Example C16_interval_code_example :
  seq_interval_code (resZ (resolve_seq 5)) seqnum_asterisk_value (enc PStar) (enc (PNum 7)) = (7, 7)%Z /\
  seq_interval_code (resZ (resolve_seq 5)) seqnum_asterisk_value (enc (PNum 4)) (enc (PNum 2)) = (2, 4)%Z /\
  uid_interval_code (resZ (resolve_uid [2;5;6;9])) seqnum_asterisk_value (enc (PNum 3)) (enc PStar) = (3, 9)%Z /\
  pnz (PNum 7) /\ pnz PStar.
Proof. vm_compute. repeat split; discriminate. Qed.

Example C16_translated_code_example :
  uid_range_by_code [2;5;6;9] 3 6 = Some [5;6] /\ uid_range_by_code [2;5;6;9] 3 100 = Some [5;6;9] /\
  uid_range_by_code [2;5;6;9] 10 100 = Some [] /\ uid_range_by_code [2;5;6;9] 1 2 = Some [2].
Proof. vm_compute. repeat split. Qed.

(* non-vacuity: a view of 5 messages, set "2:4,*,1" ; UIDs with gaps, set "3:7,*" *)
Example C16_seq_example :
  impl_seq 5 [(WNum 4, WNum 2); (WStar, WStar); (WNum 1, WNum 1); (WNum 3, WNum 3)] = Some [2;3;4;5;1]
  /\ impl_seq 5 [(WNum 4294967297, WNum 4294967297)] = None
  /\ impl_seq 5 [(WNum 18446744073709551617, WNum 18446744073709551617)] = None.
Proof. vm_compute. repeat split. Qed.
Example C16_uid_example :
  srt [2;5;6;9] /\ impl_uid [2;5;6;9] [(WNum 3, WNum 7); (WStar, WStar)] = Some [5;6;9]
  /\ impl_uid [2;5;6;9] [(WNum 10, WStar)] = Some [].
Proof. vm_compute. repeat split; reflexivity. Qed.

(* the session model (C01/C02/C05 histories) applies a command to the SET of positions it names: strictly ascending,
   each once, exactly the numbers written - and two ways of writing one set (3,1 / 1,3 / 1,3,1) address the same
   messages in the same order, so COPY/MOVE keep the source order whatever the client wrote *)
Theorem C16_session_set_ascending_once : forall ps, StronglySorted lt (Session.norm_ps ps) /\ (forall q, In q (Session.norm_ps ps) <-> In q ps).
Proof. intros ps. split; [exact (SetProofs.norm_ps_sorted ps)|exact (SetProofs.norm_ps_in ps)]. Qed.
Print Assumptions C16_session_set_ascending_once.

Theorem C16_session_same_set_same_messages : forall sn a b, (forall q, In q a <-> In q b) -> Session.msgs_at sn a = Session.msgs_at sn b.
Proof. exact SetProofs.msgs_at_same_set. Qed.
Print Assumptions C16_session_same_set_same_messages.

Example C16_session_sets_example :
  Session.norm_ps [3; 1]%nat = [1; 3]%nat /\ Session.norm_ps [2; 3; 2]%nat = [2; 3]%nat /\
  Session.msgs_at [Responders.mkSmsg 7 1 []; Responders.mkSmsg 8 2 []; Responders.mkSmsg 9 3 []] [3; 1]%nat = Some [Responders.mkSmsg 7 1 []; Responders.mkSmsg 9 3 []] /\
  Session.msgs_at [Responders.mkSmsg 7 1 []; Responders.mkSmsg 8 2 []; Responders.mkSmsg 9 3 []] [1; 3; 1]%nat = Some [Responders.mkSmsg 7 1 []; Responders.mkSmsg 9 3 []].
Proof. exact SetProofs.sets_example. Qed.
