(* C10 — round trip of whole commands and of Parser.Parse: parse (print c) = c for every encoding. *)
From Coq Require Import List NArith Bool Lia String Arith.
From Gluon Require Import Gen.FactsTokens Model.ImapTokens Model.ImapGrammar Model.ImapPrinter
  Proofs.ImapTokenFacts Proofs.ImapRoundTrip Proofs.ImapRoundTripFetch Proofs.ImapRoundTripSearch.
Import ListNotations.
Open Scope N_scope.
Local Notation length := List.length.

(* what follows a command: the CR of its CRLF *)
Definition F_end (r : bytes) : Prop := exists r', r = 13 :: r'.

Lemma F_end_astring : forall r, F_end r -> is_astring_char (cur_tok r) = false.
Proof. intros r (r' & ->). reflexivity. Qed.
Lemma F_end_atom : forall r, F_end r -> is_atom_char (cur_tok r) = false.
Proof. intros r (r' & ->). reflexivity. Qed.
Lemma F_end_list : forall r, F_end r -> is_list_char (cur_tok r) = false.
Proof. intros r (r' & ->). reflexivity. Qed.
Lemma F_end_char : forall r, F_end r -> tok_is TT_Char (cur_tok r) = false.
Proof. intros r (r' & ->). reflexivity. Qed.
Lemma F_end_seq : forall r, F_end r -> F_seq r.
Proof. intros r (r' & ->). repeat split. Qed.
Lemma F_end_sp : forall r, F_end r -> tok_is TT_SP (cur_tok r) = false.
Proof. intros r (r' & ->). reflexivity. Qed.
Lemma F_sp_astring : forall x, is_astring_char (cur_tok (32 :: x)) = false.
Proof. reflexivity. Qed.
Lemma F_sp_seq : forall x, F_seq (32 :: x).
Proof. intro. repeat split. Qed.
Lemma F_sp_char : forall x, tok_is TT_Char (cur_tok (32 :: x)) = false.
Proof. reflexivity. Qed.

Lemma sp_rt : forall rest, sp (32 :: rest) = ROk 32 rest.
Proof. reflexivity. Qed.

(* ------------------------------------------------------------------ argument parsers of the simple commands *)
Lemma login_rt : forall u p e1 e2 rest, EncAString u e1 -> EncAString p e2 -> F_end rest ->
  p_login (32 :: e1 ++ 32 :: e2 ++ rest) = ROk (CLogin u p) rest.
Proof.
  intros u p e1 e2 rest H1 H2 Hr. unfold p_login.
  step ltac:(apply sp_rt). step ltac:(apply astring_rt; [exact H1|reflexivity]).
  step ltac:(apply sp_rt). step ltac:(apply astring_rt; [exact H2|apply F_end_astring; exact Hr]). reflexivity.
Qed.

Lemma mbox_rt : forall k m e rest, EncMailbox m e -> F_end rest -> p_mbox k (32 :: e ++ rest) = ROk (CMbox k m) rest.
Proof.
  intros k m e rest H Hr. unfold p_mbox. step ltac:(apply sp_rt).
  step ltac:(apply mailbox_rt; [exact H|apply F_end_astring; exact Hr]). reflexivity.
Qed.

Lemma rename_rt : forall a b e1 e2 rest, EncMailbox a e1 -> EncMailbox b e2 -> F_end rest ->
  p_rename (32 :: e1 ++ 32 :: e2 ++ rest) = ROk (CRename a b) rest.
Proof.
  intros a b e1 e2 rest H1 H2 Hr. unfold p_rename.
  step ltac:(apply sp_rt). step ltac:(apply mailbox_rt; [exact H1|reflexivity]).
  step ltac:(apply sp_rt). step ltac:(apply mailbox_rt; [exact H2|apply F_end_astring; exact Hr]). reflexivity.
Qed.

Lemma list_rt : forall lsub m p e1 e2 rest, EncMailbox m e1 -> EncListMailbox p e2 -> F_end rest ->
  p_list lsub (32 :: e1 ++ 32 :: e2 ++ rest) = ROk (CList lsub m p) rest.
Proof.
  intros lsub m p e1 e2 rest H1 H2 Hr. unfold p_list.
  step ltac:(apply sp_rt). step ltac:(apply mailbox_rt; [exact H1|reflexivity]).
  step ltac:(apply sp_rt). step ltac:(apply list_mailbox_rt; [exact H2|apply F_end_list; exact Hr]). reflexivity.
Qed.

Lemma status_att_rt : forall a e r, EncStatusAtt a e -> tok_is TT_Char (cur_tok r) = false ->
  p_status_att (e ++ r) = ROk a r.
Proof.
  intros a e r H Hr. unfold p_status_att.
  destruct a; (step ltac:(apply (kw_step _ e r H); [reflexivity|exact Hr])); reflexivity.
Qed.

Lemma status_rt : forall m atts e1 e2 rest fuel, EncMailbox m e1 -> EncSepList EncStatusAtt 32 atts e2 ->
  (length atts <= S fuel)%nat -> F_end rest ->
  p_status fuel (32 :: e1 ++ 32 :: 40 :: e2 ++ 41 :: rest) = ROk (CStatus m atts) rest.
Proof.
  intros m atts e1 e2 rest fuel H1 H2 Hl Hr. unfold p_status.
  step ltac:(apply sp_rt). step ltac:(apply mailbox_rt; [exact H1|reflexivity]).
  step ltac:(apply sp_rt). step ltac:(apply consume_rt; reflexivity).
  step ltac:(apply (sep_list_rt EncStatusAtt p_status_att (fun r => tok_is TT_Char (cur_tok r) = false) 32 TT_SP);
             [intros a e r Ha Hf; apply status_att_rt; assumption|reflexivity|reflexivity|exact H2|exact Hl|reflexivity|reflexivity]).
  step ltac:(apply consume_rt; reflexivity). reflexivity.
Qed.

Lemma copy_rt : forall mv s m e1 e2 rest fuel, EncSeqSet s e1 -> EncMailbox m e2 -> (length s <= S fuel)%nat ->
  F_end rest -> p_copy fuel mv (32 :: e1 ++ 32 :: e2 ++ rest) = ROk (SCopy mv s m) rest.
Proof.
  intros mv s m e1 e2 rest fuel H1 H2 Hl Hr. unfold p_copy.
  step ltac:(apply sp_rt). step ltac:(apply seqset_rt; [exact H1|exact Hl|apply F_sp_seq]).
  step ltac:(apply sp_rt). step ltac:(apply mailbox_rt; [exact H2|apply F_end_astring; exact Hr]). reflexivity.
Qed.

(* ------------------------------------------------------------------ STORE *)
Lemma fold_first_letter : forall cs c0 cs' k x, s2b cs = c0 :: cs' -> is_lower_alpha (to_lower c0) = true ->
  EncFold cs k -> cur_tok (k ++ x) = TT_Char.
Proof.
  intros cs c0 cs' k x Ecs Hc H. unfold EncFold in H. rewrite Ecs in H. destruct k as [|b t]; [discriminate H|].
  unfold lower in H. cbn [map] in H. injection H as Hb _. cbn [app cur_tok]. apply letter_ok. rewrite Hb. exact Hc.
Qed.

Lemma flag_first : forall f e x, EncFlag f e -> tok_is TT_LParen (cur_tok (e ++ x)) = false.
Proof.
  intros f e x (-> & [Ha|(a & -> & _)]); [|reflexivity].
  destruct Ha as (_ & Hne & Ha). destruct f as [|b t]; [congruence|]. cbn [app cur_tok]. unfold tok_is.
  apply N.eqb_neq. intro X. pose proof (atom_byte_ok b (Ha b (or_introl eq_refl))) as Y. rewrite X in Y. discriminate Y.
Qed.

Lemma store_flags_rt : forall fl ef rest fuel, EncStoreFlags fl ef -> (length fl <= S fuel)%nat -> F_end rest ->
  p_store_flags fuel (ef ++ rest) = ROk fl rest.
Proof.
  intros fl ef rest fuel [H|H] Hl Hr; unfold p_store_flags.
  - assert (S : cur_tok (ef ++ rest) =? TT_LParen = true).
    { destruct fl; [cbn in H; subst ef; reflexivity|]. destruct H as (inner & -> & _). reflexivity. }
    rewrite S. apply flag_list_rt; assumption.
  - assert (S : cur_tok (ef ++ rest) =? TT_LParen = false).
    { destruct fl as [|f fl]; [contradiction|]. destruct H as (e & t & -> & Hf & _). rewrite <- app_assoc.
      apply (flag_first f e _ Hf). }
    rewrite S. apply (sep_list_rt EncFlag p_flag F_atom 32 TT_SP); try reflexivity.
    + intros a e r Ha Hf. apply flag_rt; assumption.
    + exact H.
    + exact Hl.
    + apply F_end_atom. exact Hr.
    + apply F_end_sp. exact Hr.
Qed.

Lemma store_rt : forall s a (silent : bool) fl e1 ea kf ks ef rest fuel,
  EncSeqSet s e1 -> EncStoreAction a ea -> EncFold "FLAGS" kf ->
  (if silent then exists x, ks = 46 :: x /\ EncFold "SILENT" x else ks = []) ->
  EncStoreFlags fl ef -> (length s <= S fuel)%nat -> (length fl <= S fuel)%nat -> F_end rest ->
  p_store fuel (32 :: e1 ++ 32 :: ea ++ kf ++ ks ++ 32 :: ef ++ rest) = ROk (SStore s a silent fl) rest.
Proof.
  intros s a silent fl e1 ea kf ks ef rest fuel H1 Ha Hk Hs Hf L1 L2 Hr. unfold p_store.
  step ltac:(apply sp_rt). step ltac:(apply seqset_rt; [exact H1|exact L1|apply F_sp_seq]).
  step ltac:(apply sp_rt).
  assert (KF : forall x, cur_tok (kf ++ x) = TT_Char) by (intro x; apply (fold_first_letter "FLAGS" 70 (s2b "LAGS") kf x eq_refl eq_refl Hk)).
  (* the action *)
  assert (ACT : forall (X : store_action -> P selcmd), (pl <- p_matchb (tok_is TT_Plus);;
                           a0 <- (if pl then ret StAdd
                                  else mi <- p_matchb (tok_is TT_Minus);; ret (if mi then StRem else StSet));;
                           X a0) (ea ++ kf ++ ks ++ 32 :: ef ++ rest) = X a (kf ++ ks ++ 32 :: ef ++ rest)).
  { intro X. destruct a; cbn in Ha; subst ea; cbn [app].
    - step ltac:(apply matchb_yes; reflexivity). cbv beta iota. unfold bind at 1, ret. reflexivity.
    - step ltac:(apply matchb_no; reflexivity). cbv beta iota.
      unfold bind at 1. unfold bind at 1. rewrite matchb_yes by reflexivity. unfold ret. reflexivity.
    - step ltac:(apply matchb_no; unfold tok_is; rewrite KF; reflexivity). cbv beta iota.
      unfold bind at 1. unfold bind at 1. rewrite matchb_no by (unfold tok_is; rewrite KF; reflexivity). unfold ret. reflexivity. }
  cbv beta iota. rewrite ACT. cbv beta.
  step ltac:(apply bytes_fold_rt; exact Hk).
  destruct silent.
  - destruct Hs as (x & -> & Hx). cbn [app]. step ltac:(apply matchb_yes; reflexivity). cbv beta iota.
    unfold bind at 1. unfold bind at 1. rewrite (bytes_fold_rt (s2b "SILENT") x _ Hx). unfold ret at 1. cbv beta iota.
    step ltac:(apply sp_rt). step ltac:(apply store_flags_rt; eassumption). reflexivity.
  - subst ks. cbn [app]. step ltac:(apply matchb_no; reflexivity). cbv beta iota.
    unfold bind at 1, ret at 1. step ltac:(apply sp_rt). step ltac:(apply store_flags_rt; eassumption). reflexivity.
Qed.

(* ------------------------------------------------------------------ dispatch *)
Definition sel_kw (c : selcmd) : string :=
  match c with
  | SCopy mv _ _ => if mv then "move" else "copy"
  | SStore _ _ _ _ => "store"
  | SFetch _ _ => "fetch"
  | SSearch _ _ => "search"
  end.
Definition sel_parser (fuel : nat) (c : selcmd) : P selcmd :=
  match c with
  | SCopy mv _ _ => p_copy fuel mv
  | SStore _ _ _ _ => p_store fuel
  | SFetch _ _ => p_fetch fuel
  | SSearch _ _ => p_search fuel
  end.

Lemma sel_split : forall c e, EncSel c e -> forall fuel rest, (length e < fuel)%nat -> F_end rest ->
  exists k args, e = k ++ args /\ EncKw (sel_kw c) k /\ kw_ok (sel_kw c) = true /\
                 tok_is TT_Char (cur_tok (args ++ rest)) = false /\
                 sel_parser fuel c (args ++ rest) = ROk c rest.
Proof.
  intros c e H fuel rest Hl Hr. destruct H as [mv s m k e1 e2 Hk H1 H2|s a silent fl k e1 ea kf ks ef Hk H1 Ha Hf Hs Hfl|s atts k e1 e2 Hk H1 H2|cs keys k e Hk He].
  - exists k, (32 :: e1 ++ 32 :: e2). split; [reflexivity|]. split; [exact Hk|]. split; [destruct mv; reflexivity|].
    split; [reflexivity|]. cbn [sel_parser app]. repeat (rewrite <- app_assoc; cbn [app]).
    apply copy_rt; try assumption.
    pose proof (sep_list_length _ _ _ _ _ H1) as L. rewrite !app_length in Hl. cbn [length] in Hl. rewrite !app_length in Hl. cbn [length] in Hl. lia.
  - exists k, (32 :: e1 ++ 32 :: ea ++ kf ++ ks ++ 32 :: ef). split; [reflexivity|]. split; [exact Hk|]. split; [reflexivity|].
    split; [reflexivity|]. cbn [sel_parser app].
    repeat (rewrite <- app_assoc; cbn [app]).
    pose proof (sep_list_length _ _ _ _ _ H1) as L1.
    assert (L2 : (length fl <= S (length ef))%nat).
    { destruct Hfl as [Hx|Hx]; [|apply (sep_list_length _ _ _ _ _ Hx)].
      destruct fl; [cbn; lia|]. destruct Hx as (inner & -> & Hx). apply sep_list_length in Hx.
      cbn [length]. rewrite app_length. cbn [length] in *. lia. }
    repeat (rewrite app_length in Hl; cbn [length] in Hl).
    apply store_rt; try assumption; lia.
  - exists k, (32 :: e1 ++ 32 :: e2). split; [reflexivity|]. split; [exact Hk|]. split; [reflexivity|].
    split; [reflexivity|]. cbn [sel_parser app]. repeat (rewrite <- app_assoc; cbn [app]).
    pose proof (sep_list_length _ _ _ _ _ H1) as L1.
    repeat (rewrite app_length in Hl; cbn [length] in Hl).
    destruct Hr as (r' & ->). apply fetch_rt; try assumption; try lia. exists r'. reflexivity.
  - exists k, e. split; [reflexivity|]. split; [exact Hk|]. split; [reflexivity|].
    split.
    + destruct He as [(_ & Hne & Ht)|(K & ecs & t & -> & _)]; [|reflexivity].
      destruct Ht; [congruence|reflexivity].
    + cbn [sel_parser]. rewrite app_length in Hl. destruct Hr as (r' & ->).
      apply search_rt; [exact He|lia|exists r'; reflexivity].
Qed.

Lemma payload_sel : forall fuel c, True ->
  p_payload fuel (s2b (sel_kw c)) = (x <- sel_parser fuel c ;; ret (CSel false x)).
Proof. intros fuel [[|] s m|s a si fl|s a|cs k] H; reflexivity. Qed.

Lemma uid_sel_dispatch : forall fuel c, True ->
  (fun k => if kw_is k "expunge" then sp ;;; s <- p_seqset fuel ;; ret (CUidExpunge s)
            else if kw_is k "copy" then c <- p_copy fuel false ;; ret (CSel true c)
            else if kw_is k "move" then c <- p_copy fuel true ;; ret (CSel true c)
            else if kw_is k "fetch" then c <- p_fetch fuel ;; ret (CSel true c)
            else if kw_is k "search" then c <- p_search fuel ;; ret (CSel true c)
            else if kw_is k "store" then c <- p_store fuel ;; ret (CSel true c)
            else fail) (s2b (sel_kw c)) = (x <- sel_parser fuel c ;; ret (CSel true x)).
Proof. intros fuel [[|] s m|s a si fl|s a|cs k] H; reflexivity. Qed.

Lemma uid_sel : forall fuel c rest args, True ->
  forall k, EncKw (sel_kw c) k -> kw_ok (sel_kw c) = true -> tok_is TT_Char (cur_tok (args ++ rest)) = false ->
  sel_parser fuel c (args ++ rest) = ROk c rest ->
  p_uid fuel (32 :: k ++ args ++ rest) = ROk (CSel true c) rest.
Proof.
  intros fuel c rest args Hc k Hk Hok Hch Hp. unfold p_uid.
  step ltac:(apply sp_rt). step ltac:(apply (kw_step _ k _ Hk Hok Hch)).
  rewrite (uid_sel_dispatch fuel c Hc). step ltac:(exact Hp). reflexivity.
Qed.

(* ------------------------------------------------------------------ ID *)
Lemma nstring_val_rt : forall s bs rest, EncNString s bs ->
  exists v, p_nstring (bs ++ rest) = ROk v rest /\ match v with Some x => x | None => [] end = s.
Proof.
  intros s bs rest H. rewrite (nstring_rt s bs rest H). destruct H as [H|(-> & H)].
  - rewrite (string_starts s bs rest H). exists (Some s). split; reflexivity.
  - destruct (starts_string (bs ++ rest)); [exists (Some []); split; reflexivity|exists None; split; reflexivity].
Qed.

Lemma id_params_rt : forall l e, EncIdParams l e -> forall fuel rest, (length l <= fuel)%nat ->
  p_id_params fuel (e ++ 41 :: rest) = ROk l (41 :: rest).
Proof.
  intros l e H. induction H as [|k v ek ev Hk Hv|k v ek ev l t Hk Hv Hne _ IH]; intros fuel rest Hl.
  - cbn [app]. destruct fuel; reflexivity.
  - destruct fuel as [|fuel]; [cbn in Hl; lia|]. cbn [p_id_params]. rewrite <- app_assoc. cbn [app].
    rewrite (string_starts k ek _ Hk).
    destruct (nstring_val_rt v ev (41 :: rest) Hv) as (vv & Ev & Evv).
    assert (P : (k0 <- p_string;; sp;;; v0 <- p_nstring;; rp <- p_check (tok_is TT_RParen);;
                 (if rp then ret tt else sp;;; ret tt);;; ret (k0, match v0 with Some s => s | None => [] end))
                (ek ++ 32 :: ev ++ 41 :: rest) = ROk (k, v) (41 :: rest)).
    { step ltac:(apply string_rt; exact Hk). step ltac:(apply sp_rt). step ltac:(exact Ev).
      step ltac:(reflexivity). cbv beta iota. change (tok_is TT_RParen (cur_tok (41 :: rest))) with true. cbv iota.
      step ltac:(reflexivity). cbv beta. rewrite Evv. reflexivity. }
    rewrite P. destruct fuel; reflexivity.
  - destruct fuel as [|fuel]; [cbn in Hl; lia|]. cbn [p_id_params]. repeat (rewrite <- app_assoc; cbn [app]).
    rewrite (string_starts k ek _ Hk).
    destruct (nstring_val_rt v ev (32 :: t ++ 41 :: rest) Hv) as (vv & Ev & Evv).
    assert (P : (k0 <- p_string;; sp;;; v0 <- p_nstring;; rp <- p_check (tok_is TT_RParen);;
                 (if rp then ret tt else sp;;; ret tt);;; ret (k0, match v0 with Some s => s | None => [] end))
                (ek ++ 32 :: ev ++ 32 :: t ++ 41 :: rest) = ROk (k, v) (t ++ 41 :: rest)).
    { step ltac:(apply string_rt; exact Hk). step ltac:(apply sp_rt). step ltac:(exact Ev).
      step ltac:(reflexivity). cbv beta iota. change (tok_is TT_RParen (cur_tok (32 :: t ++ 41 :: rest))) with false. cbv iota.
      step ltac:(cbv beta iota; erewrite bind_ok; [|apply sp_rt]; reflexivity). cbv beta. rewrite Evv. reflexivity. }
    rewrite P. rewrite IH; [reflexivity|cbn in Hl; lia].
Qed.

Lemma id_params_length : forall l e, EncIdParams l e -> (length l <= S (length e))%nat.
Proof.
  intros l e H. induction H; cbn [length]; [lia| |]; repeat (rewrite app_length; cbn [length]); lia.
Qed.

(* ------------------------------------------------------------------ APPEND *)
Lemma append_rt : forall m fl dt lit em efl edt elit rest fuel,
  EncMailbox m em -> EncAppendFlags fl efl -> EncAppendDate dt edt -> EncLiteral lit elit ->
  (length fl <= S fuel)%nat ->
  p_append fuel (32 :: em ++ 32 :: efl ++ edt ++ elit ++ rest) = ROk (CAppend m fl dt lit) rest.
Proof.
  intros m fl dt lit em efl edt elit rest fuel Hm Hf Hd Hlit Hl. unfold p_append.
  step ltac:(apply sp_rt). step ltac:(apply mailbox_rt; [exact Hm|reflexivity]). step ltac:(apply sp_rt).
  assert (LitStart : forall x, cur_tok (elit ++ x) = TT_LCurly) by (intro x; destruct Hlit as (ds & -> & _); reflexivity).
  assert (DateStart : forall d x y, EncDateTime d x -> cur_tok (x ++ y) = TT_DQuote).
  { intros d x y (ed & em' & ey & eh & emi & es & sign & ezh & ezm & zh & zm & -> & _). reflexivity. }
  (* the date part, common to both flag forms *)
  assert (Tail : forall fl0, (fun fl1 => dt0 <- (fun bs => if cur_tok bs =? TT_LCurly then ROk None bs
                                                       else (d <- p_date_time;; sp;;; ret (Some d)) bs);;
                                   lit0 <- p_literal;; ret (CAppend m fl1 dt0 lit0)) fl0 (edt ++ elit ++ rest)
                             = ROk (CAppend m fl0 dt lit) rest).
  { intro fl0. cbv beta. destruct dt as [d|]; cbn in Hd.
    - destruct Hd as (x & -> & Hx). repeat (rewrite <- app_assoc; cbn [app]).
      step ltac:(rewrite (DateStart d x _ Hx); cbv iota;
                 cbv beta iota; erewrite bind_ok; [|apply date_time_rt; exact Hx];
                 cbv beta iota; erewrite bind_ok; [|apply sp_rt]; reflexivity).
      step ltac:(apply literal_rt; exact Hlit). reflexivity.
    - subst edt. cbn [app]. step ltac:(rewrite LitStart; reflexivity).
      step ltac:(apply literal_rt; exact Hlit). reflexivity. }
  destruct Hf as [[-> ->]|(x & -> & Hx)].
  - cbn [app]. step ltac:(idtac).
    2:{ assert (NP : (cur_tok (edt ++ elit ++ rest) =? TT_LParen) = false).
        { destruct dt as [d|]; cbn in Hd.
          - destruct Hd as (y & -> & Hy). rewrite <- app_assoc. rewrite (DateStart d y _ Hy). reflexivity.
          - subst edt. cbn [app]. rewrite LitStart. reflexivity. }
        rewrite NP. reflexivity. }
    apply Tail.
  - repeat (rewrite <- app_assoc; cbn [app]). step ltac:(idtac).
    2:{ assert (P : (cur_tok (x ++ 32 :: edt ++ elit ++ rest) =? TT_LParen) = true).
        { destruct fl; [cbn in Hx; subst x; reflexivity|]. destruct Hx as (inner & -> & _). reflexivity. }
        rewrite P. cbv beta iota; erewrite bind_ok; [|apply flag_list_rt; [exact Hx|exact Hl]].
        cbv beta iota; erewrite bind_ok; [|apply sp_rt]. reflexivity. }
    apply Tail.
Qed.

Lemma enc_sel_kind : forall c e, EncSel c e -> True.
Proof. intros; exact I. Qed.

Lemma F_end_cons : forall r, F_end r -> tok_is TT_Char (cur_tok r) = false.
Proof. exact F_end_char. Qed.

(* the command after the tag: keyword, dispatch, arguments *)
Lemma cmd_rt : forall c e, EncCmd c e -> forall fuel rest, (length e < fuel)%nat -> F_end rest ->
  (k <- p_kw ;; p_payload fuel k) (e ++ rest) = ROk c rest.
Proof.
  intros c e H fuel rest Hl Hr.
  destruct H as [k e Hk|k m e1 e2 Hk Hm|a b k e1 e2 Hk H1 H2|lsub m p k e1 e2 Hk H1 H2|u p k e1 e2 Hk H1 H2
                |m atts k e1 e2 Hk H1 H2|c e Hs|c k e Hk Hs|s k1 k2 e Hk1 Hk2 Hs
                |k e Hk Hn|l k e Hk Hp|m fl dt lit k em efl edt elit Hk Hm Hf Hd Hlit].
  - step ltac:(apply (kw_step _ e rest Hk); [destruct k; reflexivity|apply F_end_char; exact Hr]).
    destruct k; reflexivity.
  - rewrite <- app_assoc. cbn [app].
    step ltac:(apply (kw_step _ e1 _ Hk); [destruct k; reflexivity|reflexivity]).
    replace (p_payload fuel (s2b (mbox_kw k))) with (p_mbox k) by (destruct k; reflexivity).
    apply mbox_rt; assumption.
  - repeat (rewrite <- app_assoc; cbn [app]).
    step ltac:(apply (kw_step _ k _ Hk); reflexivity).
    change (p_payload fuel (s2b "rename")) with p_rename. apply rename_rt; assumption.
  - repeat (rewrite <- app_assoc; cbn [app]).
    step ltac:(apply (kw_step _ k _ Hk); [destruct lsub; reflexivity|reflexivity]).
    replace (p_payload fuel (s2b (if lsub then "lsub" else "list"))) with (p_list lsub) by (destruct lsub; reflexivity).
    apply list_rt; assumption.
  - repeat (rewrite <- app_assoc; cbn [app]).
    step ltac:(apply (kw_step _ k _ Hk); reflexivity).
    change (p_payload fuel (s2b "login")) with p_login. apply login_rt; assumption.
  - repeat (rewrite <- app_assoc; cbn [app]).
    step ltac:(apply (kw_step _ k _ Hk); reflexivity).
    change (p_payload fuel (s2b "status")) with (p_status fuel). apply status_rt; try assumption.
    pose proof (sep_list_length _ _ _ _ _ H2) as L. repeat (rewrite app_length in Hl; cbn [length] in Hl). lia.
  - destruct (sel_split c e Hs fuel rest Hl Hr) as (k & args & -> & Hk & Hok & Hch & Hp).
    rewrite <- app_assoc. step ltac:(apply (kw_step _ k _ Hk Hok Hch)).
    rewrite (payload_sel fuel c (enc_sel_kind _ _ Hs)). step ltac:(exact Hp). reflexivity.
  - rewrite <- app_assoc. cbn [app].
    step ltac:(apply (kw_step _ k _ Hk); reflexivity).
    change (p_payload fuel (s2b "uid")) with (p_uid fuel).
    assert (Hl' : (length e < fuel)%nat) by (rewrite app_length in Hl; cbn [length] in Hl; lia).
    destruct (sel_split c e Hs fuel rest Hl' Hr) as (k' & args & -> & Hk' & Hok & Hch & Hp).
    rewrite <- app_assoc. apply uid_sel; try assumption. apply (enc_sel_kind _ _ Hs).
  - repeat (rewrite <- app_assoc; cbn [app]).
    step ltac:(apply (kw_step _ k1 _ Hk1); reflexivity).
    change (p_payload fuel (s2b "uid")) with (p_uid fuel). unfold p_uid.
    step ltac:(apply sp_rt). step ltac:(apply (kw_step _ k2 _ Hk2); reflexivity).
    change (kw_is (s2b "expunge") "expunge") with true. cbv iota.
    step ltac:(apply sp_rt).
    step ltac:(apply seqset_rt; [exact Hs| |apply F_end_seq; exact Hr]).
    + reflexivity.
    + pose proof (sep_list_length _ _ _ _ _ Hs) as L. repeat (rewrite app_length in Hl; cbn [length] in Hl). lia.
  - repeat (rewrite <- app_assoc; cbn [app]).
    step ltac:(apply (kw_step _ k _ Hk); reflexivity).
    change (p_payload fuel (s2b "id")) with (p_id fuel). unfold p_id.
    step ltac:(apply sp_rt). cbv beta.
    rewrite (fold_first_letter "NIL" 78 (s2b "IL") e rest eq_refl eq_refl Hn). cbv iota.
    step ltac:(apply bytes_fold_rt; exact Hn). reflexivity.
  - repeat (rewrite <- app_assoc; cbn [app]).
    step ltac:(apply (kw_step _ k _ Hk); reflexivity).
    change (p_payload fuel (s2b "id")) with (p_id fuel). unfold p_id.
    step ltac:(apply sp_rt). cbv beta. change (cur_tok (40 :: e ++ 41 :: rest) =? TT_Char) with false. cbv iota.
    step ltac:(apply consume_rt; reflexivity).
    step ltac:(apply (id_params_rt l e Hp)).
    + step ltac:(apply consume_rt; reflexivity). reflexivity.
    + pose proof (id_params_length l e Hp) as L. repeat (rewrite app_length in Hl; cbn [length] in Hl). lia.
  - repeat (rewrite <- app_assoc; cbn [app]).
    step ltac:(apply (kw_step _ k _ Hk); reflexivity).
    change (p_payload fuel (s2b "append")) with (p_append fuel).
    apply append_rt; try assumption.
    assert (L : (length fl <= S (length efl))%nat).
    { destruct Hf as [[-> ->]|(x & -> & Hx)]; [cbn; lia|].
      destruct fl; [cbn; lia|]. destruct Hx as (inner & -> & Hx). apply sep_list_length in Hx.
      cbn [length]. repeat (rewrite app_length; cbn [length]). cbn [length] in Hx. lia. }
    repeat (rewrite app_length in Hl; cbn [length] in Hl). lia.
Qed.

(* ------------------------------------------------------------------ Parser.Parse *)
Lemma tag_rt : forall t rest, t <> [] -> (forall b, In b t -> is_tag_char (tok_of_byte b) = true) ->
  is_tag_char (cur_tok rest) = false -> p_tag (t ++ rest) = ROk t rest.
Proof.
  intros t rest Hne Ht Hr. destruct t as [|b t']; [congruence|]. unfold p_tag. cbn [app].
  step ltac:(apply consume_rt; apply Ht; left; reflexivity).
  step ltac:(apply collect_rt; [intros c Hc; apply Ht; right; exact Hc|exact Hr]). reflexivity.
Qed.

Theorem parse_roundtrip : forall t c bs, EncLine t c bs -> forall rest fuel, (length bs < fuel)%nat ->
  parse_command fuel (bs ++ rest) = POk t c rest.
Proof.
  intros t c bs H rest fuel Hl. destruct H as [t c e (Hne & Ht & Hd) He|e Hk].
  - unfold parse_command. repeat (rewrite <- app_assoc; cbn [app]).
    rewrite (tag_rt t (32 :: e ++ 13 :: 10 :: rest) Hne); [|intros b Hb; apply tag_byte_ok; apply Ht; exact Hb|reflexivity].
    rewrite Hd.
    assert (B : (sp;;; k <- p_kw;; p_payload fuel k) (32 :: e ++ 13 :: 10 :: rest) = ROk c (13 :: 10 :: rest)).
    { step ltac:(apply sp_rt). apply cmd_rt; [exact He| |exists (10 :: rest); reflexivity].
      repeat (rewrite app_length in Hl; cbn [length] in Hl). lia. }
    rewrite B. reflexivity.
  - unfold parse_command. repeat (rewrite <- app_assoc; cbn [app]).
    assert (L : forall b, In b e -> tok_of_byte b = TT_Char).
    { intros b Hb. apply letter_ok. unfold EncKw in Hk.
      assert (X : In (to_lower b) (s2b "done")) by (rewrite <- Hk; apply lower_in; exact Hb).
      change (s2b "done") with [100; 111; 110; 101] in X.
      destruct X as [E|[E|[E|[E|[]]]]]; rewrite <- E; reflexivity. }
    rewrite (tag_rt e (13 :: 10 :: rest)); [| |intros b Hb; rewrite (L b Hb); reflexivity|reflexivity].
    + unfold EncKw in Hk. rewrite Hk. reflexivity.
    + intros ->. discriminate Hk.
Qed.

(* corollaries: the result does not depend on the encoding chosen (string forms, keyword case, optional forms) *)
Corollary parse_encoding_independent : forall t c b1 b2 rest1 rest2,
  EncLine t c b1 -> EncLine t c b2 ->
  exists r1 r2, parse_command (length b1 + 1) (b1 ++ rest1) = POk t c r1 /\
                parse_command (length b2 + 1) (b2 ++ rest2) = POk t c r2 /\ r1 = rest1 /\ r2 = rest2.
Proof.
  intros t c b1 b2 rest1 rest2 H1 H2. exists rest1, rest2.
  split; [apply parse_roundtrip; [exact H1|lia]|]. split; [apply parse_roundtrip; [exact H2|lia]|]. split; reflexivity.
Qed.
