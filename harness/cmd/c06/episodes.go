package main

import (
	"fmt"
	"sort"
	"strings"

	"verifharness/common"
	"verifharness/imapc"
)

// withDup runs the update and, when it was acknowledged OK, replays it as a fresh object.
func (w *world) withDup(u *upd, tag string) (*stepRec, error) {
	rec, err := w.step(u, tag)
	if err != nil {
		return rec, err
	}
	if rec.Ack == "ok" && u.Kind != "UIDValidityBumped" {
		cp := *u
		cp.Fresh, cp.Gens = nil, nil
		if _, err := w.step(&cp, "dup"); err != nil {
			return rec, err
		}
	}
	return rec, nil
}

func (w *world) snap() *dbSnap {
	s, err := readSnap(w.cap.client)
	if err != nil {
		panic(err)
	}
	for _, mb := range s.Mb {
		if mb.IID > w.maxMb {
			w.maxMb = mb.IID
		}
	}
	return s
}

// probeMessageID checks the ids handed to the connector after a MessageIDChanged: a STORE from a session that
// selects the mailbox afresh, and one from a session that had it selected before the change.
func (w *world) probeMessageID(mbox string, uid int, want string, old *imapc.Client, rec *stepRec, dests [2]string) error {
	res := w.ctx.Res
	check := func(c *imapc.Client, how string, dest string) error {
		w.conn.TakeCalls()
		if _, err := okCmd(c, fmt.Sprintf("UID COPY %d %s", uid, imapc.Quote(dest))); err != nil {
			return err
		}
		for _, call := range w.conn.TakeCalls() {
			switch call.Op {
			case "AddMessagesToMailbox", "RemoveMessagesFromMailbox", "MoveMessages":
				if len(call.Args) > 0 && call.Args[0] != want {
					res.Fail("connector-called-with-stale-message-id ("+how+") | "+rec.Tag+":"+rec.Upd.canon()+" | state: "+rec.Before,
						fmt.Sprintf("after MessageIDChanged to %s a COPY of that message called the connector with %s(%s, ...)", want, call.Op, call.Args[0]), rec)
					return nil
				}
			}
		}
		w.hist = append(w.hist, fmt.Sprintf("C:UID COPY %d %s (in %s, %s)", uid, dest, mbox, how))
		return nil
	}
	c, err := w.s.Login()
	if err != nil {
		return err
	}
	defer c.Close()
	if _, err := okCmd(c, "SELECT "+imapc.Quote(mbox)); err != nil {
		return err
	}
	if err := check(c, "fresh session", dests[0]); err != nil {
		return err
	}
	c.Cmd("LOGOUT")
	if old != nil {
		if err := check(old, "session selected before the change", dests[1]); err != nil {
			return err
		}
	}
	return nil
}

func (w *world) probeMailboxID(srcMbox string, uid int, dest string, want string, rec *stepRec) error {
	c, err := w.s.Login()
	if err != nil {
		return err
	}
	defer c.Close()
	if _, err := okCmd(c, "SELECT "+imapc.Quote(srcMbox)); err != nil {
		return err
	}
	w.conn.TakeCalls()
	if _, err := okCmd(c, fmt.Sprintf("UID COPY %d %s", uid, imapc.Quote(dest))); err != nil {
		return err
	}
	for _, call := range w.conn.TakeCalls() {
		if call.Op == "AddMessagesToMailbox" && len(call.Args) > 1 && call.Args[1] != want {
			w.ctx.Res.Fail("connector-called-with-stale-mailbox-id | "+rec.Tag+":"+rec.Upd.canon()+" | state: "+rec.Before,
				fmt.Sprintf("after MailboxIDChanged to %s the connector was called AddMessagesToMailbox(.., %s)", want, call.Args[1]), rec)
		}
	}
	c.Cmd("LOGOUT")
	w.hist = append(w.hist, fmt.Sprintf("C:UID COPY %d %s (from %s)", uid, dest, srcMbox))
	return nil
}

func scripted(ctx *common.Ctx, em *emitter) error {
	w, err := startWorld(ctx, 0, em)
	if err != nil {
		return err
	}
	defer w.stop()
	S := func(u *upd, tag string) *stepRec {
		if err != nil {
			return &stepRec{}
		}
		var r *stepRec
		r, err = w.withDup(u, tag)
		if r == nil {
			r = &stepRec{}
		}
		return r
	}
	one := func(u *upd, tag string) *stepRec {
		if err != nil {
			return &stepRec{}
		}
		var r *stepRec
		r, err = w.step(u, tag)
		if r == nil {
			r = &stepRec{}
		}
		return r
	}
	m1, m2, m3, m4, m5 := w.marker(), w.marker(), w.marker(), w.marker(), w.marker()
	S(&upd{Kind: "Noop"}, "fresh")
	S(&upd{Kind: "MailboxCreated", MboxRID: "b1", Name: "A"}, "fresh")
	// FLAGS, PERMANENTFLAGS and attributes are three independent sets
	S(&upd{Kind: "MailboxCreated", MboxRID: "b2", Name: "B", MbFlags: []string{`\Seen`, `\Flagged`, `\Deleted`, `\Answered`, "kw1"},
		MbPerm: []string{`\Seen`, `\Deleted`, `\*`}, MbAttrs: []string{`\Archive`}}, "fresh")
	S(&upd{Kind: "MessagesCreated", Items: []mcItem{
		{RID: "r1", Marker: m1, Flags: []string{`\Seen`}, Mboxes: []string{"b1"}},
		{RID: "r2", Marker: m2, Flags: nil, Mboxes: []string{"b1", "b2"}},
		{RID: "r1", Marker: m1, Flags: []string{`\Seen`}, Mboxes: []string{"b2", "b1"}},
		{RID: "r3", Marker: m3, Flags: []string{"kw1"}, Mboxes: nil},
	}}, "fresh")
	// a batch of messages that are all known already, naming a mailbox one of them is not in yet
	S(&upd{Kind: "MessagesCreated", Items: []mcItem{
		{RID: "r3", Marker: m3, Flags: []string{"kw1"}, Mboxes: []string{"b2"}},
		{RID: "r2", Marker: m2, Flags: nil, Mboxes: []string{"b1"}},
	}}, "fresh")
	// a new message that is in no mailbox (yet); the next update puts it into one
	mLone := w.marker()
	S(&upd{Kind: "MessagesCreated", Items: []mcItem{{RID: "r5", Marker: mLone, Mboxes: nil}}}, "fresh")
	S(&upd{Kind: "MessageMailboxesUpdated", MsgRID: "r5", Mboxes: []string{"b1"}, Flags: nil}, "fresh")
	S(&upd{Kind: "MessageDeleted", MsgRID: "r5"}, "fresh")
	S(&upd{Kind: "MessageMailboxesUpdated", MsgRID: "r3", Mboxes: nil, Flags: []string{"kw1"}}, "fresh")
	S(&upd{Kind: "MessageFlagsUpdated", MsgRID: "r1", Flags: []string{`\Flagged`, "kw1"}}, "fresh")
	S(&upd{Kind: "MessageMailboxesUpdated", MsgRID: "r1", Mboxes: []string{"b2", "0"}, Flags: []string{`\Seen`}}, "fresh")
	S(&upd{Kind: "MessageMailboxesUpdated", MsgRID: "r3", Mboxes: []string{"b1"}, Flags: []string{"kw1"}}, "fresh")
	S(&upd{Kind: "MessageUpdated", MsgRID: "r2", Marker: m2, Flags: []string{`\Flagged`}, Mboxes: []string{"b1"}}, "fresh")
	S(&upd{Kind: "MessageUpdated", MsgRID: "r2", Marker: m4, Flags: []string{`\Answered`}, Mboxes: []string{"b1", "b2"}}, "fresh")
	S(&upd{Kind: "MessageUpdated", MsgRID: "r9", Marker: m5, Flags: nil, Mboxes: []string{"b2"}, Allow: true}, "fresh")
	S(&upd{Kind: "MessageUpdated", MsgRID: "r10", Marker: m5, Flags: nil, Mboxes: []string{"b2"}, Allow: false}, "invalid")
	if err != nil {
		return err
	}
	// MessageIDChanged
	{
		sn := w.snap()
		if m := sn.msByRID("r1"); m != nil {
			// a session that has B selected before the change
			old, e := w.s.Login()
			if e != nil {
				return e
			}
			defer old.Close()
			if _, e := okCmd(old, "SELECT B"); e != nil {
				return e
			}
			rec := S(&upd{Kind: "MessageIDChanged", MsgIID: m.IID, MsgRID: "r1x"}, "fresh")
			if err != nil {
				return err
			}
			if rec.Ack == "ok" {
				sn = w.snap()
				if mb := sn.mbByName("B"); mb != nil {
					for _, row := range mb.Rows {
						if row.Msg == m.IID {
							if e := w.probeMessageID("B", row.UID, "r1x", old, rec, [2]string{"A", "INBOX"}); e != nil {
								return e
							}
						}
					}
				}
			}
			S(&upd{Kind: "MessageFlagsUpdated", MsgRID: "r1x", Flags: []string{`\Seen`, `\Draft`}}, "fresh")
			one(&upd{Kind: "MessageFlagsUpdated", MsgRID: "r1", Flags: []string{`\Seen`}}, "invalid")
			// a new remote message may now take the old id
			S(&upd{Kind: "MessagesCreated", Items: []mcItem{{RID: "r1", Marker: w.marker(), Mboxes: []string{"b2"}}}}, "fresh")
			one(&upd{Kind: "MessageIDChanged", MsgIID: m.IID, MsgRID: "r2"}, "invalid") // id in use
			one(&upd{Kind: "MessageIDChanged", MsgIID: "00000000-0000-4000-8000-000000000001", MsgRID: "r77"}, "invalid")
		}
	}
	// MailboxIDChanged
	{
		sn := w.snap()
		if mb := sn.mbByRID("b2"); mb != nil && err == nil {
			rec := S(&upd{Kind: "MailboxIDChanged", MboxIID: mb.IID, MboxRID: "b2x"}, "fresh")
			if err != nil {
				return err
			}
			if rec.Ack == "ok" {
				sn = w.snap()
				if a := sn.mbByName("A"); a != nil && len(a.Rows) > 0 {
					if e := w.probeMailboxID("A", a.Rows[0].UID, "B", "b2x", rec); e != nil {
						return e
					}
				}
			}
			one(&upd{Kind: "MailboxUpdated", MboxRID: "b2", Name: "Bold"}, "invalid")
			S(&upd{Kind: "MailboxUpdated", MboxRID: "b2x", Name: "B2"}, "fresh")
			one(&upd{Kind: "MailboxIDChanged", MboxIID: mb.IID, MboxRID: "b1"}, "invalid")
			one(&upd{Kind: "MailboxIDChanged", MboxIID: 9999, MboxRID: "b77"}, "invalid")
			if r := sn.mbByRID(recoveryRID); r != nil {
				one(&upd{Kind: "MailboxIDChanged", MboxIID: r.IID, MboxRID: "b78"}, "invalid")
			}
		}
	}
	S(&upd{Kind: "MailboxUpdated", MboxRID: "b1", Name: "A2"}, "fresh")
	S(&upd{Kind: "MailboxUpdated", MboxRID: "b1", Name: "a2"}, "fresh") // only the letter case changes: still a rename
	S(&upd{Kind: "MailboxUpdated", MboxRID: "b1", Name: "A2"}, "fresh")
	one(&upd{Kind: "MailboxUpdated", MboxRID: "0", Name: "inbox"}, "restate")
	one(&upd{Kind: "MailboxUpdated", MboxRID: "0", Name: "INBOX"}, "restate")
	one(&upd{Kind: "MailboxUpdated", MboxRID: "b1", Name: "B2"}, "invalid") // name taken
	one(&upd{Kind: "MailboxCreated", MboxRID: "b3", Name: "B2"}, "invalid")
	// protected / unknown objects, then a valid one: the pipeline keeps going
	one(&upd{Kind: "MailboxCreated", MboxRID: recoveryRID, Name: "X"}, "invalid")
	one(&upd{Kind: "MailboxDeleted", MboxRID: recoveryRID}, "invalid")
	one(&upd{Kind: "MailboxUpdated", MboxRID: recoveryRID, Name: "Y"}, "invalid")
	one(&upd{Kind: "MessageMailboxesUpdated", MsgRID: "r2", Mboxes: []string{"b1", recoveryRID}}, "invalid")
	one(&upd{Kind: "MessagesCreated", Items: []mcItem{{RID: "r30", Marker: w.marker(), Mboxes: []string{recoveryRID}}}}, "invalid")
	// the recovery mailbox named by its INTERNAL id: its remote id cannot be changed; afterwards the updates a connector
	// would send for the new remote id find nothing (a deletion of an unknown mailbox restates, a rename of one is outside
	// "valid"), and the reserved remote id cannot be given to another mailbox
	one(&upd{Kind: "MailboxIDChanged", MboxIID: recoveryIID, MboxRID: "rec-new"}, "invalid")
	one(&upd{Kind: "MailboxUpdated", MboxRID: "rec-new", Name: "Renamed"}, "invalid")
	one(&upd{Kind: "MailboxDeleted", MboxRID: "rec-new"}, "restate")
	one(&upd{Kind: "MailboxIDChanged", MboxIID: recoveryIID, MboxRID: recoveryRID}, "invalid")
	if b := w.snap().mbByRID("b1"); b != nil {
		one(&upd{Kind: "MailboxIDChanged", MboxIID: b.IID, MboxRID: recoveryRID}, "invalid")
	}
	one(&upd{Kind: "MessageFlagsUpdated", MsgRID: "nope", Flags: []string{`\Seen`}}, "invalid")
	one(&upd{Kind: "MessageMailboxesUpdated", MsgRID: "nope", Mboxes: []string{"b1"}}, "invalid")
	one(&upd{Kind: "MessagesCreated", Items: []mcItem{{RID: "r31", Marker: w.marker(), Mboxes: []string{"b1", "nope"}}}}, "invalid")
	S(&upd{Kind: "MessagesCreated", Ignore: true, Items: []mcItem{{RID: "r32", Marker: w.marker(), Mboxes: []string{"nope", "b1"}}}}, "invalid")
	one(&upd{Kind: "MessageDeleted", MsgRID: "nope"}, "restate")
	one(&upd{Kind: "MailboxDeleted", MboxRID: "nope"}, "restate")
	S(&upd{Kind: "MessagesCreated", Items: []mcItem{{RID: "r33", Marker: w.marker(), Flags: []string{`\Seen`}, Mboxes: []string{"0", "b1"}}}}, "fresh")
	S(&upd{Kind: "MessageDeleted", MsgRID: "r33"}, "fresh")
	S(&upd{Kind: "MessageDeleted", MsgRID: "r2"}, "fresh")
	one(&upd{Kind: "UIDValidityBumped"}, "fresh")
	one(&upd{Kind: "UIDValidityBumped"}, "fresh")
	S(&upd{Kind: "MailboxDeleted", MboxRID: "b1"}, "fresh")
	S(&upd{Kind: "MessagesCreated", Items: []mcItem{{RID: "r40", Marker: w.marker(), Mboxes: []string{"b2x"}}}}, "fresh")
	if err != nil {
		return err
	}
	// echo of the server's own actions: client commands followed by the update a connector would send back
	if e := echoScenario(w); e != nil {
		return e
	}
	if e := zombieScenario(w); e != nil {
		return e
	}
	return err
}

// zombieScenario: a message deleted by the connector whose row is still waiting for the purge (an idle session
// still shows it) is created again by the connector; it must stay once the purge runs.
func zombieScenario(w *world) error {
	var err error
	one := func(u *upd, tag string) *stepRec {
		if err != nil {
			return &stepRec{}
		}
		var r *stepRec
		r, err = w.step(u, tag)
		if r == nil {
			r = &stepRec{}
		}
		return r
	}
	mk := w.marker()
	one(&upd{Kind: "MailboxCreated", MboxRID: "z1", Name: "Z1"}, "fresh")
	one(&upd{Kind: "MailboxCreated", MboxRID: "z2", Name: "Z2"}, "fresh")
	one(&upd{Kind: "MessagesCreated", Items: []mcItem{{RID: "rz", Marker: mk, Flags: []string{`\Seen`, `\Deleted`}, Mboxes: []string{"z1"}}}}, "fresh")
	one(&upd{Kind: "MessageFlagsUpdated", MsgRID: "rz", Flags: []string{`\Seen`}}, "fresh")
	one(&upd{Kind: "MessageFlagsUpdated", MsgRID: "rz", Flags: []string{`\Deleted`}}, "fresh")
	one(&upd{Kind: "MessageFlagsUpdated", MsgRID: "rz", Flags: []string{`\Deleted`}}, "dup")
	one(&upd{Kind: "MessageFlagsUpdated", MsgRID: "rz", Flags: nil}, "fresh")
	if err != nil {
		return err
	}
	// an idle session keeps the message in its snapshot, so the purge at the end of other sessions skips it
	holder, e := w.s.Login()
	if e != nil {
		return e
	}
	if _, e := okCmd(holder, "SELECT Z1"); e != nil {
		return e
	}
	w.hist = append(w.hist, "C2:SELECT Z1 (idle)")
	one(&upd{Kind: "MessageDeleted", MsgRID: "rz"}, "fresh")
	one(&upd{Kind: "MessagesCreated", Items: []mcItem{{RID: "rz", Marker: mk, Mboxes: []string{"z2"}}}}, "fresh")
	one(&upd{Kind: "MessagesCreated", Items: []mcItem{{RID: "rz", Marker: mk, Mboxes: []string{"z2"}}}}, "dup")
	holder.Cmd("LOGOUT")
	holder.Close()
	w.hist = append(w.hist, "C2:LOGOUT")
	// the purge of messages marked deleted has run now: the re-created message must still be there
	one(&upd{Kind: "Noop"}, "zombie-check")
	return err
}

// echoScenario: the client acts, the connector echoes the result as an update restating the new state.
func echoScenario(w *world) error {
	var err error
	one := func(u *upd, tag string) {
		if err == nil {
			_, err = w.step(u, tag)
		}
	}
	if e := w.client("CREATE E1", "CREATE E2"); e != nil {
		return e
	}
	id1, _ := w.conn.MailboxIDByName([]string{"E1"})
	id2, _ := w.conn.MailboxIDByName([]string{"E2"})
	one(&upd{Kind: "MailboxCreated", MboxRID: string(id1), Name: "E1"}, "restate")
	mk := w.marker()
	w.conn.TakeCalls()
	if e := w.clientAppend("E1", mk, `\Seen`); e != nil {
		return e
	}
	rid := ""
	for _, c := range w.conn.TakeCalls() {
		if c.Op == "CreateMessage" && len(c.Args) == 2 {
			rid = c.Args[1]
		}
	}
	if rid == "" {
		return fmt.Errorf("no CreateMessage call seen")
	}
	one(&upd{Kind: "MessagesCreated", Items: []mcItem{{RID: rid, Marker: mk, Flags: []string{`\Seen`}, Mboxes: []string{string(id1)}}}}, "restate")
	one(&upd{Kind: "MessageUpdated", MsgRID: rid, Marker: mk, Flags: []string{`\Seen`}, Mboxes: []string{string(id1)}}, "restate")
	if e := w.client("SELECT E1", "COPY 1 E2", "STORE 1 +FLAGS (\\Flagged kw1)"); e != nil {
		return e
	}
	one(&upd{Kind: "MessageMailboxesUpdated", MsgRID: rid, Mboxes: []string{string(id1), string(id2)}, Flags: []string{`\Seen`, `\Flagged`, "kw1"}}, "restate")
	one(&upd{Kind: "MessageFlagsUpdated", MsgRID: rid, Flags: []string{"KW1", `\flagged`, `\Seen`}}, "restate")
	if e := w.client("STORE 1 +FLAGS (\\Deleted)", "EXPUNGE"); e != nil {
		return e
	}
	one(&upd{Kind: "MessageMailboxesUpdated", MsgRID: rid, Mboxes: []string{string(id2)}, Flags: []string{`\Seen`, `\Flagged`, "kw1"}}, "restate")
	if e := w.client("CLOSE", "RENAME E2 E3"); e != nil {
		return e
	}
	one(&upd{Kind: "MailboxUpdated", MboxRID: string(id2), Name: "E3"}, "restate")
	if e := w.client("DELETE E1"); e != nil {
		return e
	}
	one(&upd{Kind: "MailboxDeleted", MboxRID: string(id1)}, "restate")
	if e := w.client("SELECT E3", "MOVE 1 INBOX", "CLOSE"); e != nil {
		return e
	}
	one(&upd{Kind: "MessageMailboxesUpdated", MsgRID: rid, Mboxes: []string{"0"}, Flags: []string{`\Seen`, `\Flagged`, "kw1"}}, "restate")
	return err
}

// ---- random episodes ----

var flagPool = []string{`\Seen`, `\Flagged`, `\Answered`, `\Draft`, "kw1", "kw2"}
var namePool = []string{"A", "B", "C", "D", "Arch", "Work"}

func pickFlags(rng *common.Rng) []string {
	var r []string
	for _, f := range flagPool {
		if rng.Chance(0.3) {
			r = append(r, f)
		}
	}
	return r
}

func pickSome(rng *common.Rng, xs []string, p float64) []string {
	var r []string
	for _, x := range xs {
		if rng.Chance(p) {
			r = append(r, x)
		}
	}
	return r
}

func randomEpisode(ctx *common.Ctx, em *emitter, epi int, steps int) error {
	w, err := startWorld(ctx, epi, em)
	if err != nil {
		return err
	}
	defer w.stop()
	rng := ctx.Rng
	w.nRID = 100 * epi
	w.nMb = 100 * epi
	var goneMsg, goneMb []string
	for i := 0; i < steps; i++ {
		sn := w.snap()
		var mbs, msgs []string
		for _, mb := range sn.Mb {
			if !isRecovery(mb) {
				mbs = append(mbs, mb.RID)
			}
		}
		for _, m := range sn.Ms {
			if !m.Deleted && !strings.HasPrefix(m.RID, "DELETED") {
				msgs = append(msgs, m.RID)
			}
		}
		sort.Strings(msgs) // the snapshot orders messages by their (random) internal id
		pickMb := func() string {
			if len(mbs) == 0 || rng.Chance(0.08) {
				return "nope-mb"
			}
			if rng.Chance(0.05) {
				return recoveryRID // MailboxCreated / MailboxDeleted / MailboxUpdated / MailboxIDChanged aimed at the protected mailbox
			}
			return mbs[rng.Pick(len(mbs))]
		}
		pickMsg := func() string {
			if len(msgs) == 0 || rng.Chance(0.08) {
				return "nope-msg"
			}
			return msgs[rng.Pick(len(msgs))]
		}
		someMbs := func() []string {
			r := pickSome(rng, mbs, 0.45)
			if rng.Chance(0.06) {
				r = append(r, "nope-mb")
			}
			if rng.Chance(0.04) {
				r = append(r, recoveryRID)
			}
			return r
		}
		// restating update derived from the snapshot
		if rng.Chance(0.22) {
			if u := restating(rng, sn, w, goneMsg, goneMb); u != nil {
				if _, err := w.step(u, "restate"); err != nil {
					return err
				}
				continue
			}
		}
		// a client command now and then
		if rng.Chance(0.15) && len(mbs) > 0 {
			mb := sn.mbByRID(mbs[rng.Pick(len(mbs))])
			switch rng.Pick(3) {
			case 0:
				if err := w.clientAppend(mb.Name, w.marker(), ""); err != nil {
					return err
				}
			case 1:
				if len(mb.Rows) > 0 {
					if err := w.client("SELECT "+imapc.Quote(mb.Name), "STORE 1 +FLAGS (\\Seen)", "CLOSE"); err != nil {
						return err
					}
				}
			case 2:
				if len(mb.Rows) > 0 {
					o := sn.mbByRID(mbs[rng.Pick(len(mbs))])
					if o != mb {
						if err := w.client("SELECT "+imapc.Quote(mb.Name), "COPY 1 "+imapc.Quote(o.Name), "CLOSE"); err != nil {
							return err
						}
					}
				}
			}
			continue
		}
		var u *upd
		switch k := rng.Pick(100); {
		case k < 10:
			rid := w.newMbRID()
			if rng.Chance(0.1) {
				rid = pickMb()
			}
			u = &upd{Kind: "MailboxCreated", MboxRID: rid, Name: namePool[rng.Pick(len(namePool))]}
			if rng.Chance(0.7) {
				// the three sets are drawn independently of each other
				u.MbFlags = append([]string{`\Seen`, `\Flagged`, `\Deleted`}, pickSome(rng, []string{`\Answered`, `\Draft`, "kw1", "kw2"}, 0.4)...)
				u.MbPerm = pickSome(rng, []string{`\Seen`, `\Flagged`, `\Deleted`, `\Answered`, `\Draft`, "kw1", `\*`}, 0.5)
				u.MbAttrs = pickSome(rng, []string{`\Archive`, `\Sent`, `\Trash`, `\Junk`}, 0.3)
				if u.MbPerm == nil {
					u.MbPerm = []string{}
				}
				if u.MbAttrs == nil {
					u.MbAttrs = []string{}
				}
			}
		case k < 15:
			u = &upd{Kind: "MailboxDeleted", MboxRID: pickMb()}
			if u.MboxRID == "0" {
				u.MboxRID = "nope-mb"
			}
		case k < 22:
			u = &upd{Kind: "MailboxUpdated", MboxRID: pickMb(), Name: namePool[rng.Pick(len(namePool))]}
			if u.MboxRID == "0" { // INBOX keeps its name (a connector may only restate it, in any case)
				u.Name = []string{"INBOX", "inbox", "Inbox"}[rng.Pick(3)]
			} else if mb := sn.mbByRID(u.MboxRID); mb != nil && rng.Chance(0.3) {
				// a rename that changes nothing but the letter case
				if x := strings.ToLower(mb.Name); x != mb.Name {
					u.Name = x
				} else {
					u.Name = strings.ToUpper(mb.Name)
				}
			}
		case k < 26:
			if len(mbs) > 0 {
				mb := sn.mbByRID(mbs[rng.Pick(len(mbs))])
				u = &upd{Kind: "MailboxIDChanged", MboxIID: mb.IID, MboxRID: w.newMbRID()}
				if rng.Chance(0.15) {
					u.MboxRID = pickMb()
				}
				if rng.Chance(0.12) {
					u.MboxIID = recoveryIID // the protected mailbox named by its internal id
				}
			}
		case k < 48:
			n := 1 + rng.Pick(4)
			u = &upd{Kind: "MessagesCreated", Ignore: rng.Chance(0.3)}
			for j := 0; j < n; j++ {
				it := mcItem{RID: w.newRID(), Marker: w.marker(), Flags: pickFlags(rng), Mboxes: someMbs()}
				if rng.Chance(0.15) && len(u.Items) > 0 {
					it.RID, it.Marker = u.Items[0].RID, u.Items[0].Marker
				} else if rng.Chance(0.1) && len(msgs) > 0 {
					it.RID = msgs[rng.Pick(len(msgs))]
					if m := sn.msByRID(it.RID); m != nil && w.litOf[m.IID] != "" {
						it.Marker = w.litOf[m.IID]
					}
				}
				u.Items = append(u.Items, it)
			}
		case k < 60:
			u = &upd{Kind: "MessageMailboxesUpdated", MsgRID: pickMsg(), Mboxes: someMbs(), Flags: pickFlags(rng)}
		case k < 70:
			u = &upd{Kind: "MessageFlagsUpdated", MsgRID: pickMsg(), Flags: pickFlags(rng)}
		case k < 82:
			u = &upd{Kind: "MessageUpdated", MsgRID: pickMsg(), Marker: w.marker(), Flags: pickFlags(rng), Mboxes: someMbs(), Allow: rng.Chance(0.5)}
			if m := sn.msByRID(u.MsgRID); m != nil && rng.Chance(0.5) && w.litOf[m.IID] != "" {
				u.Marker = w.litOf[m.IID]
			}
		case k < 88:
			u = &upd{Kind: "MessageDeleted", MsgRID: pickMsg()}
		case k < 94:
			if len(msgs) > 0 {
				m := sn.msByRID(msgs[rng.Pick(len(msgs))])
				u = &upd{Kind: "MessageIDChanged", MsgIID: m.IID, MsgRID: w.newRID()}
				if rng.Chance(0.15) {
					u.MsgRID = pickMsg()
				}
			}
		case k < 97:
			u = &upd{Kind: "UIDValidityBumped"}
		default:
			u = &upd{Kind: "Noop"}
		}
		if u == nil {
			continue
		}
		rec, err := w.withDup(u, "fresh")
		if err != nil {
			return err
		}
		if rec.Ack == "ok" {
			switch u.Kind {
			case "MessageDeleted":
				goneMsg = append(goneMsg, u.MsgRID)
			case "MailboxDeleted":
				goneMb = append(goneMb, u.MboxRID)
			}
		}
	}
	return nil
}

// restating builds an update that only restates the snapshot (what a connector echo / duplicate delivery carries).
func restating(rng *common.Rng, sn *dbSnap, w *world, goneMsg, goneMb []string) *upd {
	var mbs []*dbMb
	for _, mb := range sn.Mb {
		if !isRecovery(mb) {
			mbs = append(mbs, mb)
		}
	}
	var msgs []*dbMsg
	for _, m := range sn.Ms {
		inRecovery := false
		for _, mb := range sn.mailboxesOf(m.IID) {
			if isRecovery(mb) {
				inRecovery = true
			}
		}
		// a message that sits in the protected mailbox (MessageUpdated does not refuse it) cannot be restated by a valid
		// update: naming the mailbox is refused, not naming it would take the message out of it
		if !m.Deleted && !strings.HasPrefix(m.RID, "DELETED") && w.litOf[m.IID] != "" && !inRecovery {
			msgs = append(msgs, m)
		}
	}
	sort.Slice(msgs, func(i, j int) bool { return msgs[i].RID < msgs[j].RID })
	ridsOf := func(m *dbMsg) []string {
		var r []string
		for _, mb := range sn.mailboxesOf(m.IID) {
			r = append(r, mb.RID)
		}
		return r
	}
	for try := 0; try < 6; try++ {
		switch rng.Pick(10) {
		case 0:
			if len(mbs) > 0 {
				mb := mbs[rng.Pick(len(mbs))]
				return &upd{Kind: "MailboxCreated", MboxRID: mb.RID, Name: mb.Name}
			}
		case 1:
			if len(mbs) > 0 {
				mb := mbs[rng.Pick(len(mbs))]
				return &upd{Kind: "MailboxUpdated", MboxRID: mb.RID, Name: mb.Name}
			}
		case 2:
			if len(goneMb) > 0 {
				rid := goneMb[rng.Pick(len(goneMb))]
				if sn.mbByRID(rid) == nil {
					return &upd{Kind: "MailboxDeleted", MboxRID: rid}
				}
			}
		case 3:
			if len(mbs) > 0 {
				mb := mbs[rng.Pick(len(mbs))]
				return &upd{Kind: "MailboxIDChanged", MboxIID: mb.IID, MboxRID: mb.RID}
			}
		case 4:
			if len(msgs) > 0 {
				u := &upd{Kind: "MessagesCreated", Ignore: rng.Chance(0.5)}
				for _, m := range msgs {
					if rng.Chance(0.5) {
						u.Items = append(u.Items, mcItem{RID: m.RID, Marker: w.litOf[m.IID], Flags: m.Flags, Mboxes: pickSome(rng, ridsOf(m), 0.8)})
					}
				}
				if len(u.Items) > 0 {
					return u
				}
			}
		case 5:
			if len(msgs) > 0 {
				m := msgs[rng.Pick(len(msgs))]
				return &upd{Kind: "MessageMailboxesUpdated", MsgRID: m.RID, Mboxes: ridsOf(m), Flags: m.Flags}
			}
		case 6:
			if len(msgs) > 0 {
				m := msgs[rng.Pick(len(msgs))]
				return &upd{Kind: "MessageFlagsUpdated", MsgRID: m.RID, Flags: m.Flags}
			}
		case 7:
			if len(msgs) > 0 {
				m := msgs[rng.Pick(len(msgs))]
				return &upd{Kind: "MessageUpdated", MsgRID: m.RID, Marker: w.litOf[m.IID], Flags: m.Flags, Mboxes: ridsOf(m), Allow: rng.Chance(0.5)}
			}
		case 8:
			if len(goneMsg) > 0 {
				rid := goneMsg[rng.Pick(len(goneMsg))]
				if m := sn.msByRID(rid); m == nil || m.Deleted {
					return &upd{Kind: "MessageDeleted", MsgRID: rid}
				}
			}
		case 9:
			if len(msgs) > 0 {
				m := msgs[rng.Pick(len(msgs))]
				return &upd{Kind: "MessageIDChanged", MsgIID: m.IID, MsgRID: m.RID}
			}
		}
	}
	return nil
}

// bigBatch: ONE MessagesCreated update with more than db.ChunkLimit (1000) new messages, on a server of its own, created
// once and delivered twice. The wire view after it is compared message by message (UID, marker, flags) and the bytes of
// EVERY message — first chunk, 1000th, 1001st included — are compared with the literal that was handed over.
func bigBatch(ctx *common.Ctx, em *emitter) error {
	w, err := startWorld(ctx, 99, em)
	if err != nil {
		return err
	}
	defer w.stop()
	for _, u := range []*upd{
		{Kind: "MailboxCreated", MboxRID: "big", Name: "Big"},
		{Kind: "MailboxCreated", MboxRID: "big2", Name: "Big2"},
	} {
		if _, err := w.step(u, "fresh"); err != nil {
			return err
		}
	}
	// flags of the new messages go into the flag table as one flat list of (message, flag) pairs, chunked by db.ChunkLimit
	// values = ChunkLimit/2 pairs: batches with exactly 500 and 501 pairs (the first chunk is full / one pair spills into a
	// second statement), then the big batch with more than 2*ChunkLimit pairs (three of four messages carry three flags).
	// Every message must exist afterwards with exactly its flags (the view comparison of step).
	three := []string{`\Seen`, `\Flagged`, "kw1"}
	for _, b := range []struct {
		pfx   string
		n     int
		flags []string
	}{{"fa", 250, three[:2]}, {"fb", 167, three}} {
		fu := &upd{Kind: "MessagesCreated"}
		for i := 0; i < b.n; i++ {
			fu.Items = append(fu.Items, mcItem{RID: fmt.Sprintf("%s%d", b.pfx, i), Marker: fmt.Sprintf("m%s-%d", b.pfx, i), Flags: b.flags, Mboxes: []string{"big2"}})
		}
		if _, err := w.step(fu, "fresh"); err != nil {
			return err
		}
	}
	u := &upd{Kind: "MessagesCreated"}
	for i := 0; i < 1001; i++ {
		mbs := []string{"big"}
		if i%250 == 0 || i >= 999 {
			mbs = append(mbs, "big2")
		}
		it := mcItem{RID: fmt.Sprintf("big%d", i), Marker: fmt.Sprintf("mbig-%d", i), Mboxes: mbs}
		if i%4 != 0 {
			it.Flags = three
		}
		u.Items = append(u.Items, it)
	}
	_, err = w.withDup(u, "fresh")
	return err
}
