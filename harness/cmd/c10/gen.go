package main

import (
	"fmt"
	"strings"

	"verifharness/common"
)

// gen produces, in one pass, the bytes of a syntactically valid command (RFC 3501 / 2971 / 4315 / 6851 / 2177) under
// randomly chosen encodings and the S-expression of the command that was written.
type gen struct {
	rng   *common.Rng
	out   []byte
	gates []int           // offsets just after each literal header "{n}CRLF" (the client would wait for "+" there)
	feat  map[string]bool // features used (for the evidence distribution and the non-triviality rule)
	canon bool            // canonical encoding: upper-case keywords, atom if possible else quoted else literal
	depth int
	// knobs for known deviations of the implementation (see notes/C10-defects.md)
	allowLBracket   bool // '[' inside atoms (RFC: ATOM-CHAR)
	allowEmptyLit   bool // "{0}" literals
	forceFirstBytes string
}

func newGen(rng *common.Rng) *gen { return &gen{rng: rng, feat: map[string]bool{}} }

func (g *gen) w(s string)    { g.out = append(g.out, s...) }
func (g *gen) wb(b []byte)   { g.out = append(g.out, b...) }
func (g *gen) f(name string) { g.feat[name] = true }

// kw writes a keyword with random letter case.
func (g *gen) kw(s string) {
	for i := 0; i < len(s); i++ {
		c := s[i]
		if !g.canon && c >= 'A' && c <= 'Z' && g.rng.Chance(0.4) {
			c = c + 32
			g.f("lower-case-keyword")
		}
		g.out = append(g.out, c)
	}
}

func (g *gen) sp() { g.w(" ") }

// ---- character classes (RFC 3501) ----
func isAtomSpecial(c byte) bool {
	return c == '(' || c == ')' || c == '{' || c == ' ' || c < 32 || c == 127 || c == '%' || c == '*' || c == '"' || c == '\\' || c == ']' || c >= 128
}
func (g *gen) isAtomChar(c byte) bool {
	if c == '[' && !g.allowLBracket {
		return false
	}
	return c != 0 && !isAtomSpecial(c)
}
func (g *gen) isAStringChar(c byte) bool { return g.isAtomChar(c) || c == ']' }
func (g *gen) isListChar(c byte) bool    { return g.isAtomChar(c) || c == '%' || c == '*' || c == ']' }
func isQuotable(c byte) bool             { return c >= 1 && c <= 127 && c != '\r' && c != '\n' }

func all(s []byte, f func(byte) bool) bool {
	for _, c := range s {
		if !f(c) {
			return false
		}
	}
	return true
}

// ---- string contents ----
const alnum = "abcdefghijklmnopqrstuvwxyzABCDEFGHIJKLMNOPQRSTUVWXYZ0123456789"
const atomExtra = "!#$&'+,-./:;<=>?@^_`|~"

func (g *gen) randString() []byte {
	n := 0
	switch x := g.rng.Pick(100); {
	case x < 6:
		n = 0
	case x < 70:
		n = g.rng.Range(1, 8)
	case x < 95:
		n = g.rng.Range(9, 30)
	default:
		n = g.rng.Range(31, 300)
	}
	kind := g.rng.Pick(100)
	b := make([]byte, n)
	for i := range b {
		switch {
		case kind < 45: // plain
			b[i] = alnum[g.rng.Pick(len(alnum))]
		case kind < 65: // atom characters
			s := alnum + atomExtra + "]"
			b[i] = s[g.rng.Pick(len(s))]
		case kind < 85: // quoted-specials, spaces, parentheses, wildcards ...
			s := alnum + " \"\\(){}[]%*\t" + atomExtra
			b[i] = s[g.rng.Pick(len(s))]
		case kind < 93: // anything 7 bit
			b[i] = byte(g.rng.Range(1, 127))
		default: // 8 bit / CR LF (literal only)
			b[i] = byte(g.rng.Range(1, 255))
		}
	}
	return b
}

func (g *gen) atomString(listChars bool) []byte {
	n := g.rng.Range(1, 10)
	s := alnum + atomExtra
	if g.allowLBracket {
		s += "["
	}
	if listChars {
		s += "%*]"
	}
	b := make([]byte, n)
	for i := range b {
		if g.rng.Chance(0.75) {
			b[i] = alnum[g.rng.Pick(len(alnum))]
		} else {
			b[i] = s[g.rng.Pick(len(s))]
		}
	}
	return b
}

func (g *gen) quoted(s []byte) {
	g.w("\"")
	for _, c := range s {
		if c == '"' || c == '\\' {
			g.out = append(g.out, '\\')
			g.f("quoted-escape")
		}
		g.out = append(g.out, c)
	}
	g.w("\"")
	g.f("quoted")
}

func (g *gen) literal(s []byte) {
	g.w(fmt.Sprintf("{%d}\r\n", len(s)))
	g.gates = append(g.gates, len(g.out))
	g.wb(s)
	g.f("literal")
}

// str writes `string` (quoted / literal)
func (g *gen) str(s []byte) {
	canQ := all(s, isQuotable)
	canL := len(s) > 0 || g.allowEmptyLit
	switch {
	case g.canon:
		if canQ {
			g.quoted(s)
		} else {
			g.literal(s)
		}
	case canQ && (!canL || g.rng.Chance(0.7)):
		g.quoted(s)
	case canL:
		g.literal(s)
	default:
		g.quoted(s)
	}
}

// astring writes `astring` (atom / quoted / literal)
func (g *gen) astring(s []byte) {
	if len(s) > 0 && all(s, g.isAStringChar) && (g.canon || g.rng.Chance(0.6)) {
		g.wb(s)
		g.f("atom")
		return
	}
	g.str(s)
}

// mailbox: astring; the name INBOX is case-insensitive
func (g *gen) mailbox() *sx {
	var s []byte
	switch x := g.rng.Pick(100); {
	case x < 12:
		s = []byte("INBOX")
		for i := range s {
			if g.rng.Chance(0.5) {
				s[i] += 32
			}
		}
		g.f("inbox-fold")
	case x < 70:
		s = g.atomString(false)
	default:
		s = g.randString()
	}
	g.astring(s)
	if strings.EqualFold(string(s), "INBOX") {
		return xstr("INBOX")
	}
	return xb(s)
}

func (g *gen) astringArg() *sx {
	var s []byte
	if g.rng.Chance(0.5) {
		s = g.atomString(false)
	} else {
		s = g.randString()
	}
	g.astring(s)
	return xb(s)
}

// ---- numbers ----
func (g *gen) number32() uint64 {
	switch x := g.rng.Pick(100); {
	case x < 10:
		return 0
	case x < 60:
		return uint64(g.rng.Range(1, 1000))
	case x < 80:
		return uint64(g.rng.Int63n(1 << 32))
	case x < 90:
		return 1<<32 - 1
	default:
		return 1<<31 - uint64(g.rng.Range(0, 2))
	}
}
func (g *gen) nz32() uint64 {
	for {
		if n := g.number32(); n != 0 {
			return n
		}
	}
}
func (g *gen) wnum(n uint64, leadingZerosOK bool) {
	if leadingZerosOK && !g.canon && g.rng.Chance(0.1) {
		g.w(strings.Repeat("0", g.rng.Range(1, 3)))
		g.f("leading-zeros")
	}
	g.w(fmt.Sprint(n))
}

func (g *gen) seqnum() uint64 {
	if g.rng.Chance(0.2) {
		g.w("*")
		return 0
	}
	n := g.nz32()
	g.wnum(n, false)
	return n
}

func (g *gen) seqset() *sx {
	n := 1
	if g.rng.Chance(0.4) {
		n = g.rng.Range(2, 4)
	}
	var rs [][2]uint64
	for i := 0; i < n; i++ {
		if i > 0 {
			g.w(",")
		}
		a := g.seqnum()
		if g.rng.Chance(0.5) {
			g.w(":")
			b := g.seqnum()
			rs = append(rs, [2]uint64{a, b})
		} else {
			rs = append(rs, [2]uint64{a, a})
		}
	}
	if n > 1 {
		g.f("seqset-multi")
	}
	return xseq(rs)
}

// ---- flags ----
var sysFlags = []string{"\\Answered", "\\Flagged", "\\Deleted", "\\Seen", "\\Draft"}

func (g *gen) flag() []byte {
	switch x := g.rng.Pick(100); {
	case x < 50:
		f := []byte(sysFlags[g.rng.Pick(len(sysFlags))])
		if !g.canon {
			for i := 1; i < len(f); i++ {
				if g.rng.Chance(0.2) && f[i] >= 'A' && f[i] <= 'Z' {
					f[i] += 32
				}
			}
		}
		g.wb(f)
		return f
	case x < 58: // a KEYWORD (no backslash) that collides case-insensitively with a system flag name: an ordinary atom
		names := []string{"recent", "Recent", "RECENT", "rEcEnT", "seen", "SEEN", "Seen", "deleted", "Deleted", "answered", "FLAGGED", "draft", "Draft"}
		f := []byte(names[g.rng.Pick(len(names))])
		g.wb(f)
		g.f("keyword-like-system-flag")
		return f
	case x < 64: // flag-extension
		for {
			a := g.atomString(false)
			if !strings.EqualFold(string(a), "recent") {
				f := append([]byte{'\\'}, a...)
				g.wb(f)
				return f
			}
		}
	default:
		a := g.atomString(false)
		g.wb(a)
		return a
	}
}

func (g *gen) flagsSpaced(n int) [][]byte {
	var fl [][]byte
	for i := 0; i < n; i++ {
		if i > 0 {
			g.sp()
		}
		fl = append(fl, g.flag())
	}
	return fl
}

// ---- dates ----
var months = []string{"Jan", "Feb", "Mar", "Apr", "May", "Jun", "Jul", "Aug", "Sep", "Oct", "Nov", "Dec"}

func daysIn(m, y int) int {
	switch m {
	case 2:
		if (y%4 == 0 && y%100 != 0) || y%400 == 0 {
			return 29
		}
		return 28
	case 4, 6, 9, 11:
		return 30
	}
	return 31
}

func (g *gen) ymd() (int, int, int) {
	y := 0
	switch x := g.rng.Pick(100); {
	case x < 80:
		y = g.rng.Range(1970, 2100)
	case x < 90:
		y = g.rng.Range(1000, 9999)
	case x < 95:
		y = 9999
	default:
		y = 1
	}
	m := g.rng.Range(1, 12)
	d := g.rng.Range(1, daysIn(m, y))
	if g.rng.Chance(0.2) {
		d = daysIn(m, y)
	}
	return y, m, d
}

func (g *gen) month(m int) { g.kw(strings.ToUpper(months[m-1][:1]) + months[m-1][1:]); _ = m }

func (g *gen) monthMixed(m int) {
	s := months[m-1]
	for i := 0; i < 3; i++ {
		c := s[i]
		if !g.canon && g.rng.Chance(0.3) {
			if c >= 'a' {
				c -= 32
			} else {
				c += 32
			}
		}
		g.out = append(g.out, c)
	}
}

// date (SEARCH): date-text or DQUOTE date-text DQUOTE; date-day = 1*2DIGIT
func (g *gen) date(name string) *sx {
	y, m, d := g.ymd()
	q := !g.canon && g.rng.Chance(0.4)
	if q {
		g.w("\"")
		g.f("date-quoted")
	}
	if d < 10 && (g.canon || g.rng.Chance(0.5)) {
		g.w(fmt.Sprint(d))
	} else {
		g.w(fmt.Sprintf("%02d", d))
	}
	g.w("-")
	g.monthMixed(m)
	g.w("-")
	g.w(fmt.Sprintf("%04d", y))
	if q {
		g.w("\"")
	}
	return xl(xs(name), xn(uint64(y)), xn(uint64(m)), xn(uint64(d)))
}

// date-time (APPEND)
func (g *gen) dateTime() *sx {
	y, m, d := g.ymd()
	h, mi, s := g.rng.Range(0, 23), g.rng.Range(0, 59), g.rng.Range(0, 59)
	zh, zm := g.rng.Range(0, 14), []int{0, 0, 30, 45, 59}[g.rng.Pick(5)]
	neg := g.rng.Chance(0.5)
	g.w("\"")
	if d < 10 && (g.canon || g.rng.Chance(0.5)) {
		g.w(fmt.Sprintf(" %d", d))
	} else {
		g.w(fmt.Sprintf("%02d", d))
	}
	g.w("-")
	g.monthMixed(m)
	g.w(fmt.Sprintf("-%04d %02d:%02d:%02d ", y, h, mi, s))
	if neg {
		g.w("-")
	} else {
		g.w("+")
	}
	g.w(fmt.Sprintf("%02d%02d\"", zh, zm))
	off := zh*3600 + zm*60
	g.f("date-time")
	return xl(xn(uint64(y)), xn(uint64(m)), xn(uint64(d)), xn(uint64(h)), xn(uint64(mi)), xn(uint64(s)), xbool(neg && off != 0), xn(uint64(off)))
}

// ---- FETCH ----
func (g *gen) headerList() *sx {
	n := g.rng.Range(1, 3)
	g.w("(")
	var l [][]byte
	for i := 0; i < n; i++ {
		if i > 0 {
			g.sp()
		}
		var s []byte
		if g.rng.Chance(0.8) {
			s = g.atomString(false)
		} else {
			s = g.randString()
		}
		g.astring(s)
		l = append(l, s)
	}
	g.w(")")
	return xstrs(l)
}

// msgtext: HEADER / HEADER.FIELDS[.NOT] header-list / TEXT (/ MIME when allowed)
func (g *gen) msgText(mime bool) *sx {
	k := g.rng.Pick(4)
	if mime && g.rng.Chance(0.25) {
		g.kw("MIME")
		return xl(xs("mime"))
	}
	switch k {
	case 0:
		g.kw("HEADER")
		return xl(xs("header"))
	case 1:
		g.kw("TEXT")
		return xl(xs("text"))
	default:
		g.kw("HEADER")
		g.w(".")
		g.kw("FIELDS")
		neg := k == 3
		if neg {
			g.w(".")
			g.kw("NOT")
		}
		g.sp()
		l := g.headerList()
		g.f("header-fields")
		return xl(xs("headerfields"), xbool(neg), l)
	}
}

func (g *gen) section() *sx {
	switch x := g.rng.Pick(10); {
	case x < 2:
		return xl()
	case x < 5:
		return g.msgText(false)
	default:
		n := g.rng.Range(1, 4)
		var nums []*sx
		for i := 0; i < n; i++ {
			if i > 0 {
				g.w(".")
			}
			v := uint64(g.rng.Range(1, 12))
			if g.rng.Chance(0.1) {
				v = g.nz32()
			}
			g.wnum(v, false)
			nums = append(nums, xn(v))
		}
		g.f("section-part")
		if g.rng.Chance(0.5) {
			g.w(".")
			t := g.msgText(true)
			return xl(xs("part"), xl(nums...), t)
		}
		return xl(xs("part"), xl(nums...), xl())
	}
}

func (g *gen) fetchAtt() *sx {
	simple := []string{"ENVELOPE", "FLAGS", "INTERNALDATE", "RFC822", "RFC822.HEADER", "RFC822.SIZE", "RFC822.TEXT", "BODY", "BODYSTRUCTURE", "UID"}
	names := []string{"envelope", "flags", "internaldate", "rfc822", "rfc822header", "rfc822size", "rfc822text", "body", "bodystructure", "uid"}
	if g.rng.Chance(0.55) {
		i := g.rng.Pick(len(simple))
		g.kw(simple[i])
		return xs(names[i])
	}
	peek := g.rng.Chance(0.5)
	g.kw("BODY")
	if peek {
		g.w(".")
		g.kw("PEEK")
	}
	g.w("[")
	sec := g.section()
	g.w("]")
	part := xl()
	if g.rng.Chance(0.4) {
		o, c := g.number32(), g.nz32()
		g.w("<")
		g.wnum(o, true)
		g.w(".")
		g.wnum(c, false)
		g.w(">")
		part = xl(xn(o), xn(c))
		g.f("partial")
	}
	g.f("body-section")
	return xl(xs("bodysection"), xbool(peek), sec, part)
}

func (g *gen) fetch() *sx {
	g.kw("FETCH")
	g.sp()
	s := g.seqset()
	g.sp()
	var atts []*sx
	switch x := g.rng.Pick(10); {
	case x < 2:
		m := []string{"ALL", "FULL", "FAST"}[g.rng.Pick(3)]
		g.kw(m)
		atts = []*sx{xs(strings.ToLower(m))}
		g.f("fetch-macro")
	case x < 4:
		atts = []*sx{g.fetchAtt()}
	default:
		n := g.rng.Range(1, 4)
		g.w("(")
		for i := 0; i < n; i++ {
			if i > 0 {
				g.sp()
			}
			atts = append(atts, g.fetchAtt())
		}
		g.w(")")
	}
	return xl(xs("fetch"), s, xl(atts...))
}

// ---- SEARCH ----
var skFlag = []string{"ALL", "ANSWERED", "DELETED", "FLAGGED", "NEW", "OLD", "RECENT", "SEEN", "UNANSWERED", "UNDELETED", "UNFLAGGED", "UNSEEN", "DRAFT", "UNDRAFT"}
var skStr = []string{"BCC", "BODY", "CC", "FROM", "SUBJECT", "TEXT", "TO"}
var skDate = []string{"BEFORE", "ON", "SINCE", "SENTBEFORE", "SENTON", "SENTSINCE"}

func (g *gen) searchKey(depth int) *sx {
	x := g.rng.Pick(100)
	if depth >= 6 && x >= 60 {
		x = g.rng.Pick(60)
	}
	switch {
	case x < 20:
		k := skFlag[g.rng.Pick(len(skFlag))]
		g.kw(k)
		return xl(xs(strings.ToLower(k)))
	case x < 35:
		k := skStr[g.rng.Pick(len(skStr))]
		g.kw(k)
		g.sp()
		return xl(xs(strings.ToLower(k)), g.astringArg())
	case x < 43:
		k := skDate[g.rng.Pick(len(skDate))]
		g.kw(k)
		g.sp()
		return g.date(strings.ToLower(k))
	case x < 48:
		k := []string{"KEYWORD", "UNKEYWORD"}[g.rng.Pick(2)]
		g.kw(k)
		g.sp()
		a := g.atomString(false)
		g.wb(a)
		return xl(xs(strings.ToLower(k)), xb(a))
	case x < 53:
		k := []string{"LARGER", "SMALLER"}[g.rng.Pick(2)]
		g.kw(k)
		g.sp()
		n := g.number32()
		g.wnum(n, true)
		return xl(xs(strings.ToLower(k)), xn(n))
	case x < 57:
		g.kw("HEADER")
		g.sp()
		f := g.astringArg()
		g.sp()
		v := g.astringArg()
		return xl(xs("header"), f, v)
	case x < 60:
		g.kw("UID")
		g.sp()
		return xl(xs("uid"), g.seqset())
	case x < 66:
		return xl(xs("seqset"), g.seqset())
	case x < 76:
		g.kw("NOT")
		g.sp()
		g.f("search-nested")
		return xl(xs("not"), g.searchKey(depth+1))
	case x < 88:
		g.kw("OR")
		g.sp()
		a := g.searchKey(depth + 1)
		g.sp()
		b := g.searchKey(depth + 1)
		g.f("search-nested")
		return xl(xs("or"), a, b)
	default:
		n := g.rng.Range(1, 3)
		l := []*sx{xs("list")}
		g.w("(")
		for i := 0; i < n; i++ {
			if i > 0 {
				g.sp()
			}
			l = append(l, g.searchKey(depth+1))
		}
		g.w(")")
		g.f("search-nested")
		return xl(l...)
	}
}

func (g *gen) search() *sx {
	g.kw("SEARCH")
	cs := []byte{}
	if g.rng.Chance(0.3) {
		g.sp()
		g.kw("CHARSET")
		g.sp()
		names := []string{"UTF-8", "US-ASCII", "utf-8", "ISO-8859-1", "x"}
		cs = []byte(names[g.rng.Pick(len(names))])
		g.astring(cs)
		g.f("search-charset")
	}
	n := g.rng.Range(1, 3)
	var keys []*sx
	for i := 0; i < n; i++ {
		g.sp()
		keys = append(keys, g.searchKey(1))
	}
	return xl(xs("search"), xb(cs), xl(keys...))
}

// ---- the other commands ----
func (g *gen) store() *sx {
	g.kw("STORE")
	g.sp()
	s := g.seqset()
	g.sp()
	act := []string{"add", "rem", "set"}[g.rng.Pick(3)]
	switch act {
	case "add":
		g.w("+")
	case "rem":
		g.w("-")
	}
	g.kw("FLAGS")
	silent := g.rng.Chance(0.5)
	if silent {
		g.w(".")
		g.kw("SILENT")
	}
	g.sp()
	var fl [][]byte
	if g.rng.Chance(0.6) {
		g.w("(")
		fl = g.flagsSpaced(g.rng.Range(0, 4))
		g.w(")")
	} else {
		fl = g.flagsSpaced(g.rng.Range(1, 3))
		g.f("store-bare-flags")
	}
	return xl(xs("store"), s, xs(act), xbool(silent), xstrs(fl))
}

func (g *gen) copyMove(name string) *sx {
	g.kw(strings.ToUpper(name))
	g.sp()
	s := g.seqset()
	g.sp()
	m := g.mailbox()
	return xl(xs(name), s, m)
}

func (g *gen) listMailbox() *sx {
	if g.rng.Chance(0.6) {
		a := g.atomString(true)
		g.wb(a)
		g.f("list-atom")
		return xb(a)
	}
	s := g.randString()
	if g.rng.Chance(0.5) {
		s = []byte([]string{"", "*", "%", "INBOX/%", "a b*"}[g.rng.Pick(5)])
	}
	g.str(s)
	return xb(s)
}

func (g *gen) appendCmd() *sx {
	g.kw("APPEND")
	g.sp()
	m := g.mailbox()
	g.sp()
	var fl [][]byte
	if g.rng.Chance(0.6) {
		g.w("(")
		fl = g.flagsSpaced(g.rng.Range(0, 3))
		g.w(")")
		g.sp()
	}
	dt := xl()
	if g.rng.Chance(0.5) {
		dt = g.dateTime()
		g.sp()
	}
	n := g.rng.Range(1, 120)
	if g.rng.Chance(0.1) {
		n = g.rng.Range(4000, 9000) // crosses the 4096-byte bufio buffer
	}
	msg := make([]byte, n)
	for i := range msg {
		switch g.rng.Pick(12) {
		case 0:
			msg[i] = '\r'
		case 1:
			msg[i] = '\n'
		case 2:
			msg[i] = byte(g.rng.Range(1, 255))
		default:
			msg[i] = alnum[g.rng.Pick(len(alnum))]
		}
	}
	g.literal(msg)
	return xl(xs("append"), m, xstrs(fl), dt, xb(msg))
}

func (g *gen) id() *sx {
	g.kw("ID")
	g.sp()
	if g.rng.Chance(0.3) {
		g.kw("NIL")
		return xl(xs("idget"))
	}
	n := g.rng.Range(0, 3)
	var ks, vs [][]byte
	g.w("(")
	for i := 0; i < n; i++ {
		if i > 0 {
			g.sp()
		}
		k := []byte(fmt.Sprintf("%s%d", []string{"name", "version", "os", "vendor"}[g.rng.Pick(4)], i))
		if g.rng.Chance(0.2) {
			k = append(k, g.randString()...)
		}
		g.str(k)
		g.sp()
		var v []byte
		if g.rng.Chance(0.25) {
			g.kw("NIL")
			g.f("id-nil-value")
		} else {
			v = g.randString()
			g.str(v)
		}
		ks = append(ks, k)
		vs = append(vs, v)
	}
	g.w(")")
	return xl(xs("idset"), xkv(ks, vs))
}

func (g *gen) status() *sx {
	g.kw("STATUS")
	g.sp()
	m := g.mailbox()
	g.sp()
	names := []string{"MESSAGES", "RECENT", "UIDNEXT", "UIDVALIDITY", "UNSEEN"}
	n := g.rng.Range(1, 5)
	g.w("(")
	var l []*sx
	for i := 0; i < n; i++ {
		if i > 0 {
			g.sp()
		}
		k := names[g.rng.Pick(len(names))]
		g.kw(k)
		l = append(l, xs(strings.ToLower(k)))
	}
	g.w(")")
	return xl(xs("status"), m, xl(l...))
}

var commandKinds = []string{
	"capability", "idle", "noop", "logout", "check", "close", "expunge", "unselect", "starttls",
	"select", "examine", "create", "delete", "subscribe", "unsubscribe", "rename", "list", "lsub", "login", "status",
	"append", "copy", "move", "store", "fetch", "search", "uid copy", "uid move", "uid store", "uid fetch", "uid search",
	"uid expunge", "id", "done",
}

func (g *gen) tag() []byte {
	n := g.rng.Range(1, 6)
	s := alnum + ".-_:;<>=?@!#$&',/^|~"
	if g.allowLBracket {
		s += "["
	}
	b := make([]byte, n)
	for i := range b {
		if g.rng.Chance(0.85) {
			b[i] = alnum[g.rng.Pick(len(alnum))]
		} else {
			b[i] = s[g.rng.Pick(len(s))]
		}
	}
	if strings.EqualFold(string(b), "done") {
		b[0] = 'x'
	}
	return b
}

// command writes "<tag> <command> CRLF" of the given kind and returns (tag, written command).
func (g *gen) command(kind string) ([]byte, *sx) {
	if kind == "done" {
		g.kw("DONE")
		g.w("\r\n")
		return nil, xl(xs("done"))
	}
	tag := g.tag()
	g.wb(tag)
	g.sp()
	var x *sx
	switch kind {
	case "capability", "idle", "noop", "logout", "check", "close", "expunge", "unselect", "starttls":
		g.kw(strings.ToUpper(kind))
		x = xl(xs(kind))
	case "select", "examine", "create", "delete", "subscribe", "unsubscribe":
		g.kw(strings.ToUpper(kind))
		g.sp()
		x = xl(xs(kind), g.mailbox())
	case "rename":
		g.kw("RENAME")
		g.sp()
		a := g.mailbox()
		g.sp()
		x = xl(xs("rename"), a, g.mailbox())
	case "list", "lsub":
		g.kw(strings.ToUpper(kind))
		g.sp()
		var m *sx
		if g.rng.Chance(0.5) {
			g.w("\"\"")
			m = xstr("")
		} else {
			m = g.mailbox()
		}
		g.sp()
		x = xl(xs(kind), m, g.listMailbox())
	case "login":
		g.kw("LOGIN")
		g.sp()
		u := g.astringArg()
		g.sp()
		x = xl(xs("login"), u, g.astringArg())
	case "status":
		x = g.status()
	case "append":
		x = g.appendCmd()
	case "copy", "move":
		x = g.copyMove(kind)
	case "store":
		x = g.store()
	case "fetch":
		x = g.fetch()
	case "search":
		x = g.search()
	case "uid copy", "uid move", "uid store", "uid fetch", "uid search":
		g.kw("UID")
		g.sp()
		var in *sx
		switch kind[4:] {
		case "copy", "move":
			in = g.copyMove(kind[4:])
		case "store":
			in = g.store()
		case "fetch":
			in = g.fetch()
		case "search":
			in = g.search()
		}
		x = xl(xs("uid"), in)
	case "uid expunge":
		g.kw("UID")
		g.sp()
		g.kw("EXPUNGE")
		g.sp()
		x = xl(xs("uidexpunge"), g.seqset())
	case "id":
		x = g.id()
	default:
		panic("unknown kind " + kind)
	}
	g.w("\r\n")
	return tag, x
}
