module srcfacts

go 1.21

require github.com/ProtonMail/gluon v0.0.0

replace github.com/ProtonMail/gluon => /repo
