// Harness for C17: configured limits are never exceeded, refusals have no partial effect, fitting operations are
// accepted - sequentially and with two sessions interleaved inside the check-then-insert window of APPEND (the
// database client is wrapped with a gate that parks the write transaction of the command in flight).
package main

import (
	"errors"
	"fmt"
	"strings"
	"time"

	"github.com/ProtonMail/gluon"
	"github.com/ProtonMail/gluon/limits"

	"verifharness/common"
	"verifharness/imapc"
	"verifharness/mstore"
)

func main() { common.Main("C17", runC17) }

type violation struct{ Kind, Detail string }

type c17Case struct {
	ID     int         `json:"id"`
	Limits [4]uint32   `json:"limits"` // maxMailboxes maxMessages maxUID maxUIDValidity
	Ops    []mstore.Op `json:"ops"`
	Inter  string      `json:"interleaving,omitempty"`
}

func limStr(l [4]uint32) string { return fmt.Sprintf("mbox=%d msgs=%d uid=%d", l[0], l[1], l[2]) }

// ---- oracle ----

func sameMbox(a, b *mstore.MboxDump) bool {
	if (a == nil) != (b == nil) {
		return false
	}
	if a == nil {
		return true
	}
	if a.UIDV != b.UIDV || a.UIDNext != b.UIDNext || len(a.Rows) != len(b.Rows) {
		return false
	}
	for i := range a.Rows {
		if a.Rows[i].UID != b.Rows[i].UID || a.Rows[i].Lit != b.Rows[i].Lit {
			return false
		}
	}
	return true
}

func withinLimits(l [4]uint32, d mstore.Dump, injected bool) []violation {
	var vs []violation
	if len(d.Mboxes) > int(l[0]) {
		vs = append(vs, violation{"mailbox-count-exceeded", fmt.Sprintf("%d mailboxes, limit %d", len(d.Mboxes), l[0])})
	}
	for _, m := range d.Mboxes {
		if m.Name == mstore.RecoveryName && injected {
			continue // messages rejected by the remote are kept there by design (C20)
		}
		if m.Count > int(l[1]) || len(m.Rows) > int(l[1]) {
			vs = append(vs, violation{"message-count-exceeded", fmt.Sprintf("%q holds %d messages, limit %d", m.Name, m.Count, l[1])})
		}
		for _, r := range m.Rows {
			if r.UID > int(l[2]) {
				vs = append(vs, violation{"uid-exceeded", fmt.Sprintf("%q has UID %d, limit %d", m.Name, r.UID, l[2])})
			}
		}
	}
	return vs
}

// fits tells whether the property demands acceptance of the operation ("" = no demand).
func fits(l [4]uint32, o mstore.Op, before mstore.Dump, id *ident) string {
	room := func(m *mstore.MboxDump, n int) bool {
		return m.Count+n <= int(l[1]) && m.UIDNext+n <= int(l[2])
	}
	switch o.Kind {
	case "append":
		m := before.Get(o.Name)
		if m != nil && o.Name != mstore.RecoveryName && o.Remote == "ok" && room(m, 1) {
			return "append fits"
		}
	case "create":
		if !o.RemoteOK || before.Get(o.Name) != nil || strings.EqualFold(o.Name, "INBOX") || strings.HasPrefix(strings.ToLower(o.Name), "recovered messages") {
			return ""
		}
		parts := strings.Split(o.Name, "/")
		missing := 1
		for i := 1; i < len(parts); i++ {
			if before.Get(strings.Join(parts[:i], "/")) == nil {
				missing++
			}
		}
		if len(before.Mboxes)+missing <= int(l[0]) {
			return "create fits"
		}
	case "copy", "move":
		src, dst := before.Get(o.Name), before.Get(o.Name2)
		if src == nil || dst == nil || !o.LabelOK || o.Name == mstore.RecoveryName || o.Name2 == mstore.RecoveryName {
			return ""
		}
		// messages of the selection that the destination already holds are replaced, not added
		n, dups := 0, 0
		for _, r := range src.Rows {
			for _, u := range o.UIDs {
				if r.UID == u {
					n++
					if id.has(o.Name2, id.get(o.Name, r.UID)) {
						dups++
					}
				}
			}
		}
		if dst.Count-dups+n <= int(l[1]) && dst.UIDNext+n <= int(l[2]) {
			return fmt.Sprintf("%s fits: %d selected, %d of them already in the destination (%d messages, UIDNEXT %d)", o.Kind, n, dups, dst.Count, dst.UIDNext)
		}
	case "connrestate", "connremsg":
		return "restates what exists"
	case "statecreate":
		missing := 0
		for _, n := range o.Names {
			if before.Get(n) == nil {
				missing++
			}
		}
		if missing == 0 {
			return "restates what exists"
		}
		if len(before.Mboxes)+missing <= int(l[0]) {
			return "state write fits"
		}
	case "conncreate":
		if before.Get(o.Name) == nil && len(before.Mboxes)+1 <= int(l[0]) {
			return "connector mailbox fits"
		}
	case "connmsgs":
		// every message is new: fits iff every target has room for the messages addressed to it
		per := map[string]int{}
		for _, b := range o.Batch {
			for _, n := range b.Mboxes {
				if n == mstore.RecoveryName || before.Get(n) == nil {
					return ""
				}
				per[n]++
			}
		}
		for n, k := range per {
			if !room(before.Get(n), k) {
				return ""
			}
		}
		return "connector batch fits"
	}
	return ""
}

func observe(l [4]uint32, o mstore.Op, ob mstore.Obs, before, after mstore.Dump, injected bool, id *ident) []violation {
	defer id.apply(o, ob, before, after)
	vs := withinLimits(l, after, injected)
	if ob.Class == "other" {
		vs = append(vs, violation{"unexpected-response", o.String() + ": " + ob.Text})
	}
	if ob.Class != "ok" {
		// all-or-nothing: nothing changed in any mailbox (the recovery mailbox is judged by C20 and by the counts above)
		names := map[string]bool{}
		for _, m := range before.Mboxes {
			names[m.Name] = true
		}
		for _, m := range after.Mboxes {
			names[m.Name] = true
		}
		for n := range names {
			if n == mstore.RecoveryName {
				continue
			}
			if !sameMbox(before.Get(n), after.Get(n)) {
				vs = append(vs, violation{"refused-with-partial-effect", fmt.Sprintf("%s answered %s but mailbox %q changed", o, ob.Class, n)})
				break
			}
		}
	} else if o.Kind == "copy" || o.Kind == "move" {
		// accepted multi-message operation: every selected message arrived
		src, dst := before.Get(o.Name), after.Get(o.Name2)
		if src != nil && dst != nil {
			n := 0
			for _, r := range src.Rows {
				for _, u := range o.UIDs {
					if r.UID == u {
						n++
					}
				}
			}
			if len(ob.Pairs) != n {
				vs = append(vs, violation{"accepted-partially", fmt.Sprintf("%s: %d selected, %d announced", o, n, len(ob.Pairs))})
			}
		}
	}
	if o.Kind == "connrestate" || o.Kind == "connremsg" || (o.Kind == "statecreate" && fits(l, o, before, id) == "restates what exists") {
		for _, m := range after.Mboxes {
			if !sameMbox(before.Get(m.Name), after.Get(m.Name)) {
				vs = append(vs, violation{"restating-operation-changed-a-mailbox", fmt.Sprintf("%s changed %q", o, m.Name)})
				break
			}
		}
		if len(before.Mboxes) != len(after.Mboxes) {
			vs = append(vs, violation{"restating-operation-changed-a-mailbox", fmt.Sprintf("%s: %d mailboxes before, %d after", o, len(before.Mboxes), len(after.Mboxes))})
		}
	}
	// a refused operation leaves nothing behind in memory either: the recovery mailbox never holds one literal twice
	if rec := after.Get(mstore.RecoveryName); rec != nil {
		seen := map[int]bool{}
		for _, r := range rec.Rows {
			if r.Lit >= 0 && seen[r.Lit] {
				vs = append(vs, violation{"recovered-twice", fmt.Sprintf("after %s the recovery mailbox holds literal %d more than once", o, r.Lit)})
				break
			}
			seen[r.Lit] = true
		}
	}
	if f := fits(l, o, before, id); f != "" && ob.Class != "ok" {
		vs = append(vs, violation{"fitting-operation-refused", fmt.Sprintf("%s (%s) answered %s %s", o, f, ob.Class, ob.Text)})
	}
	return vs
}

// ---- message identity (which rows are the same message: a COPY onto a mailbox that holds the message replaces it) ----

type ident struct {
	tok  map[string]map[int]int // mailbox -> uid -> token
	next int
}

func newIdent() *ident { return &ident{tok: map[string]map[int]int{}} }

func (t *ident) get(name string, uid int) int {
	if t == nil {
		return -1
	}
	if v, ok := t.tok[name][uid]; ok {
		return v
	}
	return -1
}

func (t *ident) has(name string, token int) bool {
	if t == nil || token < 0 {
		return false
	}
	for _, v := range t.tok[name] {
		if v == token {
			return true
		}
	}
	return false
}

func (t *ident) set(name string, uid, token int) {
	if t.tok[name] == nil {
		t.tok[name] = map[int]int{}
	}
	t.tok[name][uid] = token
}

func (t *ident) fresh() int { t.next++; return t.next }

// apply updates the tokens after an operation; rows it cannot attribute get a fresh token (then they are never
// counted as "already there", which only makes the acceptance oracle demand less).
func (t *ident) apply(o mstore.Op, ob mstore.Obs, before, after mstore.Dump) {
	if t == nil {
		return
	}
	if ob.Class == "ok" {
		switch o.Kind {
		case "copy", "move":
			if o.Name != mstore.RecoveryName {
				src := map[int]int{}
				for u, v := range t.tok[o.Name] {
					src[u] = v
				}
				for _, p := range ob.Pairs {
					if v, ok := src[p[0]]; ok {
						t.set(o.Name2, p[1], v)
					}
				}
			}
		case "connmsgs":
			toks := make([]int, len(o.Batch))
			for i := range toks {
				toks[i] = t.fresh()
			}
			per := map[string][]int{}
			for i, b := range o.Batch {
				for _, n := range b.Mboxes {
					per[n] = append(per[n], toks[i])
				}
			}
			for n, ts := range per {
				b, a := before.Get(n), after.Get(n)
				if a == nil {
					continue
				}
				old := map[int]bool{}
				if b != nil {
					for _, r := range b.Rows {
						old[r.UID] = true
					}
				}
				k := 0
				for _, r := range a.Rows {
					if !old[r.UID] && k < len(ts) {
						t.set(n, r.UID, ts[k])
						k++
					}
				}
			}
		case "rename":
			if o.Name == "INBOX" {
				b, a := before.Get("INBOX"), after.Get(o.Name2)
				if b != nil && a != nil && len(a.Rows) == len(b.Rows) {
					for i, r := range a.Rows {
						t.set(o.Name2, r.UID, t.get("INBOX", b.Rows[i].UID))
					}
				}
			} else {
				moved := map[string]map[int]int{}
				for n, m := range t.tok {
					if n == o.Name {
						moved[o.Name2] = m
					} else if strings.HasPrefix(n, o.Name+"/") {
						moved[o.Name2+n[len(o.Name):]] = m
					} else {
						continue
					}
					delete(t.tok, n)
				}
				for n, m := range moved {
					t.tok[n] = m
				}
			}
		}
	}
	// synchronise with what is there now
	for n := range t.tok {
		if after.Get(n) == nil {
			delete(t.tok, n)
		}
	}
	for _, m := range after.Mboxes {
		present := map[int]bool{}
		for _, r := range m.Rows {
			present[r.UID] = true
			if v, ok := t.tok[m.Name][r.UID]; !ok || v < 0 {
				t.set(m.Name, r.UID, t.fresh())
			}
		}
		for u := range t.tok[m.Name] {
			if !present[u] {
				delete(t.tok[m.Name], u)
			}
		}
	}
}

// ---- generator ----

var createPool = []string{"a", "a/b", "a/b/c", "a/b/c/d/e", "p/q", "p/q/r/s", "z", "y/y"}
var renamePool = []string{"n", "n/m", "n/m/x/y", "a/r", "q"}

func genOp(rng *common.Rng, d mstore.Dump, nlits int) mstore.Op {
	var existing, normal []string
	var withMsgs []mstore.MboxDump
	for _, m := range d.Mboxes {
		existing = append(existing, m.Name)
		if m.Name != mstore.RecoveryName {
			normal = append(normal, m.Name)
			if len(m.Rows) > 0 {
				withMsgs = append(withMsgs, m)
			}
		}
	}
	pick := func(xs []string) string { return xs[rng.Pick(len(xs))] }
	uids := func(m mstore.MboxDump) []int {
		var u []int
		for _, r := range m.Rows {
			if rng.Chance(0.6) {
				u = append(u, r.UID)
			}
		}
		if len(u) == 0 {
			u = []int{m.Rows[rng.Pick(len(m.Rows))].UID}
		}
		return u
	}
	for {
		switch x := rng.Pick(100); {
		case x < 34:
			rem := "ok"
			if rng.Chance(0.04) {
				rem = "fail"
			}
			return mstore.Op{Kind: "append", Name: pick(normal), Lit: rng.Pick(nlits), Remote: rem, Sess: rng.Pick(2)}
		case x < 48:
			if len(withMsgs) == 0 {
				continue
			}
			m := withMsgs[rng.Pick(len(withMsgs))]
			return mstore.Op{Kind: "copy", Name: m.Name, UIDs: uids(m), Name2: pick(normal), CreateOK: true, LabelOK: !rng.Chance(0.05), Sess: rng.Pick(2)}
		case x < 58:
			if len(withMsgs) == 0 {
				continue
			}
			m := withMsgs[rng.Pick(len(withMsgs))]
			return mstore.Op{Kind: "move", Name: m.Name, UIDs: uids(m), Name2: pick(normal), CreateOK: true, LabelOK: !rng.Chance(0.05), Sess: rng.Pick(2)}
		case x < 72:
			return mstore.Op{Kind: "create", Name: pick(createPool), RemoteOK: !rng.Chance(0.05), Sess: rng.Pick(2)}
		case x < 77:
			n := pick(normal)
			if n == "INBOX" {
				continue
			}
			return mstore.Op{Kind: "delete", Name: n, RemoteOK: true, Sess: rng.Pick(2)}
		case x < 83:
			n := pick(normal)
			if n == "INBOX" && !rng.Chance(0.3) {
				continue
			}
			return mstore.Op{Kind: "rename", Name: n, Name2: pick(renamePool), RemoteOK: true, Sess: rng.Pick(2)}
		case x < 92:
			var b []mstore.BatchMsg
			for i := 0; i < rng.Range(1, 4); i++ {
				ms := []string{pick(normal)}
				if rng.Chance(0.4) {
					ms = append(ms, pick(normal))
				}
				if ms[0] != ms[len(ms)-1] || len(ms) == 1 {
					b = append(b, mstore.BatchMsg{Lit: rng.Pick(nlits), Mboxes: ms})
				}
			}
			if len(b) == 0 {
				continue
			}
			return mstore.Op{Kind: "connmsgs", Batch: b}
		case x < 95:
			return mstore.Op{Kind: "conncreate", Name: pick([]string{"k", "k/l", "w"})}
		case x < 96:
			// operations that restate what exists: they must be accepted at every limit and change nothing
			switch rng.Pick(3) {
			case 0:
				return mstore.Op{Kind: "connrestate", Name: pick(normal)}
			case 1:
				names := []string{pick(normal)}
				if rng.Chance(0.5) {
					names = append(names, pick(normal))
				}
				if rng.Chance(0.4) {
					names = append(names, pick([]string{"sw1", "sw2"})) // at most one new mailbox per state write
				}
				return mstore.Op{Kind: "statecreate", Names: dedup(names)}
			default:
				return mstore.Op{Kind: "connremsg"}
			}
		default:
			if len(withMsgs) == 0 {
				continue
			}
			m := withMsgs[rng.Pick(len(withMsgs))]
			return mstore.Op{Kind: "expunge", Name: m.Name, UIDs: uids(m), RemoteOK: true, Sess: rng.Pick(2)}
		}
	}
}

func dedup(xs []string) []string {
	var r []string
	for _, x := range xs {
		d := false
		for _, y := range r {
			d = d || x == y
		}
		if !d {
			r = append(r, x)
		}
	}
	return r
}

func newLits(n int) *mstore.Literals {
	l := &mstore.Literals{}
	for i := 0; i < n; i++ {
		l.Add(i, 0)
	}
	return l
}

// startRefused: the server could not start because the connector's announcement of INBOX was refused by a limit although
// the recovery mailbox and INBOX fit (maximum >= 2): an operation that fits was refused.
func startRefused(lim [4]uint32, err error) *violation {
	if err != nil && lim[0] >= 2 && errors.Is(err, limits.ErrMaxMailboxCountReached) {
		return &violation{"fitting-operation-refused", fmt.Sprintf("server start: the connector's MailboxCreated for INBOX (second mailbox, limit %d) was refused: %v", lim[0], err)}
	}
	return nil
}

func runOps(lim [4]uint32, ops []mstore.Op, nlits int) (*violation, error) {
	lits := newLits(nlits)
	w, err := mstore.NewWorld(mstore.Config{Burn: 20, Limits: &lim}, lits)
	if v := startRefused(lim, err); v != nil {
		return v, nil
	}
	if err != nil {
		return nil, err
	}
	defer w.Close()
	var first *violation
	idt := newIdent()
	_, _, err = mstore.Replay(w, ops, func(i int, o mstore.Op, ob mstore.Obs, before, aft mstore.Dump) bool {
		if vs := observe(lim, o, ob, before, aft, w.Injected, idt); len(vs) > 0 {
			first = &vs[0]
			return false
		}
		return true
	})
	if what, ok := mstore.AsProbe(err); ok && first == nil {
		return &violation{"mailbox-unreadable", what}, nil
	}
	return first, err
}

// ---- interleaving: session 0's APPEND is parked just before its write transaction ----

type interResult struct {
	steps []mstore.Step
	final mstore.Dump
	viol  *violation
	aObs  mstore.Obs
	g0    int
}

func interleave(lim [4]uint32, pre []mstore.Op, target string, litA int, other mstore.Op, nlits int) (*interResult, error) {
	gate := &Gate{}
	lits := newLits(nlits)
	w, err := mstore.NewWorld(mstore.Config{Burn: 20, Limits: &lim, DB: gateIface{inner: gluon.VerifSQLiteClientInterface(), g: gate}}, lits)
	if err != nil {
		return nil, err
	}
	defer w.Close()
	res := &interResult{g0: w.G0}
	steps, _, err := mstore.Replay(w, pre, func(i int, o mstore.Op, ob mstore.Obs, before, aft mstore.Dump) bool { return true })
	if err != nil {
		return nil, err
	}
	res.steps = steps
	before, err := w.DumpAll()
	if err != nil {
		return nil, err
	}
	// session 0: APPEND, parked at its first write transaction
	gate.Arm("write")
	type done struct {
		r   imapc.Result
		err error
	}
	ch := make(chan done, 1)
	go func() {
		r, err := w.Sess[0].Append(target, "", lits.Bytes[litA])
		ch <- done{r, err}
	}()
	parked := false
	var d done
	select {
	case <-gate.Parked():
		parked = true
	case d = <-ch:
	case <-time.After(60 * time.Second):
		gate.Release()
		return nil, fmt.Errorf("interleave: APPEND neither parked nor completed")
	}
	gate.Disarm()
	res.steps = append(res.steps, mstore.Step{IKind: "check", ISess: 0, IName: target})
	if parked {
		// session 1 runs its operation to completion inside the window
		other.Sess = 1
		ob, err := w.Do(other)
		if err != nil {
			gate.Release()
			<-ch
			return nil, err
		}
		oc := other
		res.steps = append(res.steps, mstore.Step{Op: &oc, Obs: ob})
		gate.Release()
		select {
		case d = <-ch:
		case <-time.After(60 * time.Second):
			return nil, fmt.Errorf("interleave: parked APPEND did not complete")
		}
	}
	if d.err != nil {
		return nil, d.err
	}
	res.aObs = mstore.Obs{Class: mstore.Classify(d.r), Text: d.r.Text}
	res.steps = append(res.steps, mstore.Step{IKind: "write", ISess: 0, ILit: litA, IRem: "ok"})
	after, err := w.DumpAll()
	if err != nil {
		return nil, err
	}
	res.final = after
	if vs := withinLimits(lim, after, w.Injected); len(vs) > 0 {
		res.viol = &vs[0]
	} else if res.aObs.Class != "ok" && !sameMbox(before.Get(target), after.Get(target)) && (other.Kind == "" || !parked) {
		res.viol = &violation{"refused-with-partial-effect", "parked APPEND refused but target changed"}
	}
	return res, nil
}

// interleaveN: n sessions send APPEND to the same mailbox; every one is parked just before its write transaction (all
// have passed the limit checks of their read transaction), then all are released.
func interleaveN(lim [4]uint32, pre []mstore.Op, target string, lit, n, nlits int) (*interResult, error) {
	gate := &Gate{}
	lits := newLits(nlits)
	w, err := mstore.NewWorld(mstore.Config{Burn: 20, Limits: &lim, DB: gateIface{inner: gluon.VerifSQLiteClientInterface(), g: gate}}, lits)
	if err != nil {
		return nil, err
	}
	defer w.Close()
	res := &interResult{g0: w.G0}
	steps, _, err := mstore.Replay(w, pre, func(i int, o mstore.Op, ob mstore.Obs, before, aft mstore.Dump) bool { return true })
	if err != nil {
		return nil, err
	}
	res.steps = steps
	clients := append([]*imapc.Client{}, w.Sess...)
	for len(clients) < n {
		c, err := w.S.Login()
		if err != nil {
			return nil, err
		}
		defer c.Close()
		clients = append(clients, c)
	}
	clients = clients[:n]
	gate.ArmN("write", n)
	type done struct {
		r   imapc.Result
		err error
	}
	ch := make(chan done, n)
	for _, c := range clients {
		c := c
		go func() {
			r, err := c.Append(target, "", lits.Bytes[lit])
			ch <- done{r, err}
		}()
	}
	var early []done
	allParked := false
	for !allParked && len(early) < n {
		select {
		case <-gate.Parked():
			allParked = true
		case d := <-ch:
			early = append(early, d) // refused before its write transaction
		case <-time.After(60 * time.Second):
			gate.Release()
			return nil, fmt.Errorf("interleaveN: APPENDs neither parked nor completed")
		}
	}
	gate.Disarm()
	gate.Release()
	okCount := 0
	for i := 0; i < n; i++ {
		var d done
		if i < len(early) {
			d = early[i]
		} else {
			select {
			case d = <-ch:
			case <-time.After(60 * time.Second):
				return nil, fmt.Errorf("interleaveN: parked APPEND did not complete")
			}
		}
		if d.err != nil {
			return nil, d.err
		}
		if d.r.Status == "OK" {
			okCount++
		}
	}
	res.aObs = mstore.Obs{Class: fmt.Sprintf("%d-ok", okCount)}
	for i := 0; i < n; i++ {
		res.steps = append(res.steps, mstore.Step{IKind: "check", ISess: i, IName: target})
	}
	for i := 0; i < n; i++ {
		res.steps = append(res.steps, mstore.Step{IKind: "write", ISess: i, ILit: lit, IRem: "ok"})
	}
	after, err := w.DumpAll()
	if err != nil {
		return nil, err
	}
	res.final = after
	if vs := withinLimits(lim, after, w.Injected); len(vs) > 0 {
		res.viol = &vs[0]
	}
	return res, nil
}

func runC17(ctx *common.Ctx) error {
	res := ctx.Res
	rng := ctx.Rng
	if err := newLits(6).Validate(); err != nil {
		return err
	}
	res.Rule = "wire histories under small limits (mailboxes 3-8, messages 1-5, UID 3-10): APPEND, multi-message UID COPY/MOVE, CREATE with implicit superiors, RENAME creating superiors, connector batches and mailbox creations, approaching the limits from below; after every operation: counts and UIDs within the maxima, refused => no mailbox changed, fitting => accepted; plus two sessions interleaved inside APPEND's check-then-insert window (gated database client); non-trivial = distinct histories in which a limit refusal or an operation ending exactly at a limit occurred"
	const nlits = 5
	var lines []string
	id := 0
	ncases := ctx.Budget(40, 500)
	nops := 16
	if ctx.Tier == "thorough" {
		nops = 30
	}

	report := func(cs *c17Case, v violation) {
		ops := mstore.Shrink(cs.Ops, 40, func(c []mstore.Op) bool {
			v2, err := runOps(cs.Limits, c, nlits)
			return err == nil && v2 != nil && v2.Kind == v.Kind
		})
		res.Fail(fmt.Sprintf("%s limits(%s) [%s]", v.Kind, limStr(cs.Limits), mstore.OpsString(ops)), v.Detail, cs)
	}

	// ---- corpus: minimal histories of the defects found earlier ----
	corpus := []c17Case{
		{Limits: [4]uint32{4, 5, 100, 1 << 31}, Ops: []mstore.Op{{Kind: "create", Name: "a/b/c/d/e", RemoteOK: true}}},
		{Limits: [4]uint32{3, 5, 100, 1 << 31}, Ops: []mstore.Op{{Kind: "create", Name: "a", RemoteOK: true}, {Kind: "rename", Name: "a", Name2: "n/m/x/y", RemoteOK: true}}},
		{Limits: [4]uint32{6, 1, 100, 1 << 31}, Ops: []mstore.Op{{Kind: "append", Name: "INBOX", Lit: 0, Remote: "ok"}, {Kind: "append", Name: "INBOX", Lit: 1, Remote: "ok"}, {Kind: "append", Name: "INBOX", Lit: 2, Remote: "ok"}}},
		{Limits: [4]uint32{2, 5, 100, 1 << 31}, Ops: []mstore.Op{{Kind: "rename", Name: "INBOX", Name2: "q", RemoteOK: true}}},
	}
	cp := func(kind, src string, uids []int, dst string) mstore.Op {
		return mstore.Op{Kind: kind, Name: src, UIDs: uids, Name2: dst, CreateOK: true, LabelOK: true}
	}
	ap := func(name string, lit int) mstore.Op {
		return mstore.Op{Kind: "append", Name: name, Lit: lit, Remote: "ok"}
	}
	mk := func(name string) mstore.Op { return mstore.Op{Kind: "create", Name: name, RemoteOK: true} }
	corpus = append(corpus,
		// multi-message operations whose FIRST UID fits and whose last does not (UID limit 5, destination UIDNEXT 3)
		c17Case{Limits: [4]uint32{6, 50, 5, 1 << 31}, Ops: []mstore.Op{mk("t"), ap("INBOX", 0), ap("INBOX", 1), ap("INBOX", 2), ap("INBOX", 3), ap("t", 4), ap("t", 0),
			cp("copy", "INBOX", []int{1, 2, 3, 4}, "t"), cp("move", "INBOX", []int{1, 2, 3}, "t"), cp("copy", "INBOX", []int{1, 2}, "t")}},
		c17Case{Limits: [4]uint32{6, 50, 5, 1 << 31}, Ops: []mstore.Op{mk("t"), ap("t", 4), ap("t", 0),
			{Kind: "connmsgs", Batch: []mstore.BatchMsg{{Lit: 1, Mboxes: []string{"t"}}, {Lit: 2, Mboxes: []string{"t"}}, {Lit: 3, Mboxes: []string{"t", "INBOX"}}, {Lit: 0, Mboxes: []string{"t"}}}},
			{Kind: "connmsgs", Batch: []mstore.BatchMsg{{Lit: 1, Mboxes: []string{"t"}}, {Lit: 2, Mboxes: []string{"t"}}}}}},
		// ... and whose first message fits the message limit but not all of them
		c17Case{Limits: [4]uint32{6, 3, 50, 1 << 31}, Ops: []mstore.Op{mk("t"), ap("INBOX", 0), ap("INBOX", 1), ap("INBOX", 2), ap("t", 4), ap("t", 0),
			cp("copy", "INBOX", []int{1, 2, 3}, "t"), cp("move", "INBOX", []int{2, 3}, "t"), cp("copy", "INBOX", []int{3}, "t")}},
		// COPY / MOVE onto a FULL mailbox that already holds the messages: they are replaced, the count stays - fits
		c17Case{Limits: [4]uint32{6, 2, 50, 1 << 31}, Ops: []mstore.Op{mk("t"), ap("INBOX", 0), ap("INBOX", 1), cp("copy", "INBOX", []int{1, 2}, "t"),
			cp("copy", "INBOX", []int{1, 2}, "t"), cp("copy", "INBOX", []int{2}, "t"), cp("copy", "INBOX", []int{1, 2}, "INBOX"), cp("copy", "t", []int{5}, "INBOX"),
			cp("move", "t", []int{4, 5}, "INBOX"), ap("t", 3), cp("copy", "INBOX", []int{6, 7}, "t")}},
		c17Case{Limits: [4]uint32{6, 3, 50, 1 << 31}, Ops: []mstore.Op{mk("t"), ap("INBOX", 0), ap("INBOX", 1), ap("t", 2), cp("copy", "INBOX", []int{1, 2}, "t"),
			cp("copy", "INBOX", []int{1, 2}, "t"), ap("INBOX", 3), cp("copy", "INBOX", []int{1, 2, 3}, "t"), cp("move", "INBOX", []int{1}, "t")}},
		// at the mailbox limit (recovery + INBOX + a = 3): restating operations of every entry path are accepted, new ones refused
		c17Case{Limits: [4]uint32{3, 2, 4, 1 << 31}, Ops: []mstore.Op{{Kind: "statecreate", Names: []string{"INBOX", "a"}}, {Kind: "statecreate", Names: []string{"INBOX", "a"}},
			{Kind: "connrestate", Name: "a"}, {Kind: "connrestate", Name: "INBOX"}, {Kind: "statecreate", Names: []string{"a", "extra"}}, {Kind: "conncreate", Name: "extra"},
			mk("extra"), {Kind: "statecreate", Names: []string{"a"}},
			// ... and at the message / UID limit of a mailbox
			{Kind: "connmsgs", Batch: []mstore.BatchMsg{{Lit: 0, Mboxes: []string{"a", "INBOX"}}, {Lit: 1, Mboxes: []string{"a"}}}}, {Kind: "connremsg"},
			cp("copy", "a", []int{1, 2}, "a"), {Kind: "connremsg"}, cp("copy", "a", []int{9}, "INBOX"), {Kind: "connrestate", Name: "a"}, {Kind: "statecreate", Names: []string{"INBOX", "a"}}}},
	)
	rej := func(name string, lit int) mstore.Op {
		return mstore.Op{Kind: "append", Name: name, Lit: lit, Remote: "fail"}
	}
	corpus = append(corpus,
		// CREATE with missing superiors when fewer slots are free than new names: refused, and nothing is left behind, neither
		// in gluon nor at the connector (its echo is drained after every refused CREATE)
		c17Case{Limits: [4]uint32{4, 5, 100, 1 << 31}, Ops: []mstore.Op{mk("a/b/c"), mk("x"), mk("x/y/z"), mk("x/y"), mk("q")}},
		c17Case{Limits: [4]uint32{5, 5, 100, 1 << 31}, Ops: []mstore.Op{mk("a"), mk("a/b/c/d"), mk("a/b/c"), mk("a/b"), mk("p/q")}},
		// the connector creates mailboxes up to exactly the limit; the one that fills the last slot must be accepted
		c17Case{Limits: [4]uint32{4, 5, 100, 1 << 31}, Ops: []mstore.Op{{Kind: "conncreate", Name: "k"}, {Kind: "conncreate", Name: "w"}, {Kind: "conncreate", Name: "x"},
			{Kind: "statecreate", Names: []string{"k", "w"}}}},
		c17Case{Limits: [4]uint32{3, 5, 100, 1 << 31}, Ops: []mstore.Op{{Kind: "statecreate", Names: []string{"INBOX", "s"}}, {Kind: "conncreate", Name: "k"}}},
		// a MOVE out of the recovery mailbox refused because the destination is full, then the same messages rejected again:
		// they are still known, each literal stays in the recovery mailbox once
		c17Case{Limits: [4]uint32{6, 1, 100, 1 << 31}, Ops: []mstore.Op{mk("t"), rej("t", 1), rej("t", 2), ap("INBOX", 0),
			cp("move", mstore.RecoveryName, []int{1, 2}, "INBOX"), rej("t", 1), rej("t", 2), cp("move", mstore.RecoveryName, []int{1}, "t"), rej("t", 1)}},
		c17Case{Limits: [4]uint32{6, 2, 4, 1 << 31}, Ops: []mstore.Op{mk("t"), rej("t", 3), rej("t", 4), ap("t", 0), ap("t", 1),
			cp("move", mstore.RecoveryName, []int{1, 2}, "t"), cp("copy", mstore.RecoveryName, []int{2}, "t"), rej("INBOX", 4), rej("INBOX", 3)}},
	)
	runFixed := func(cs *c17Case) error {
		ctx.Current(fmt.Sprintf("history limits(%s) [%s]", limStr(cs.Limits), mstore.OpsString(cs.Ops)), cs)
		lits := newLits(nlits)
		lim := cs.Limits
		w, err := mstore.NewWorld(mstore.Config{Burn: 20, Limits: &lim}, lits)
		if v := startRefused(lim, err); v != nil {
			res.Fail(fmt.Sprintf("%s limits(%s) [server start: connector announces INBOX]", v.Kind, limStr(lim)), v.Detail, cs)
			return nil
		}
		if err != nil {
			return err
		}
		g0 := w.G0
		names := mstore.NewNames()
		var viol *violation
		idt := newIdent()
		steps, final, err := mstore.Replay(w, cs.Ops, func(i int, o mstore.Op, ob mstore.Obs, before, aft mstore.Dump) bool {
			res.Evaluations++
			if vs := observe(lim, o, ob, before, aft, w.Injected, idt); len(vs) > 0 {
				viol = &vs[0]
				return false
			}
			return true
		})
		w.Close()
		if what, ok := mstore.AsProbe(err); ok {
			viol = &violation{"mailbox-unreadable", what}
		} else if err != nil {
			return err
		}
		if viol != nil {
			report(cs, *viol)
		} else {
			lines = append(lines, mstore.CoqCase(cs.ID, &lim, lits, g0, names, steps, final))
		}
		res.Nontrivial(fmt.Sprintf("%s [%s]", limStr(cs.Limits), mstore.OpsString(cs.Ops)))
		return nil
	}
	for i := range corpus {
		id++
		corpus[i].ID = id
		if err := runFixed(&corpus[i]); err != nil {
			return err
		}
		res.Count("corpus")
	}

	// ---- random sequential histories ----
	for ci := 0; ci < ncases; ci++ {
		id++
		lim := [4]uint32{uint32(rng.Range(3, 8)), uint32(rng.Range(1, 5)), uint32(rng.Range(3, 10)), 1 << 31}
		cs := &c17Case{ID: id, Limits: lim}
		lits := newLits(nlits)
		w, err := mstore.NewWorld(mstore.Config{Burn: 20, Limits: &lim}, lits)
		if v := startRefused(lim, err); v != nil {
			res.Fail(fmt.Sprintf("%s limits(%s) [server start: connector announces INBOX]", v.Kind, limStr(lim)), v.Detail, cs)
			continue
		}
		if err != nil {
			return err
		}
		g0 := w.G0
		names := mstore.NewNames()
		var viol *violation
		interesting := false
		idt := newIdent()
		steps, final, err := mstore.RunHistory(w, func(d mstore.Dump, i int) *mstore.Op {
			if i >= nops {
				return nil
			}
			o := genOp(rng, d, nlits)
			cs.Ops = append(cs.Ops, o)
			ctx.Current(fmt.Sprintf("history limits(%s) [%s]", limStr(lim), mstore.OpsString(cs.Ops)), cs)
			return &o
		}, func(i int, o mstore.Op, ob mstore.Obs, before, aft mstore.Dump) bool {
			res.Evaluations++
			res.Count("op:" + o.Kind)
			res.Count("result:" + ob.Class)
			if ob.Class == "nolimit" {
				interesting = true
			}
			for _, m := range aft.Mboxes {
				if m.Count == int(lim[1]) || m.UIDNext == int(lim[2]) {
					interesting = true
				}
			}
			if len(aft.Mboxes) == int(lim[0]) {
				interesting = true
			}
			if vs := observe(lim, o, ob, before, aft, w.Injected, idt); len(vs) > 0 {
				viol = &vs[0]
				return false
			}
			return true
		})
		w.Close()
		if what, ok := mstore.AsProbe(err); ok {
			viol = &violation{"mailbox-unreadable", what}
		} else if err != nil {
			return fmt.Errorf("case %d limits(%s) [%s]: %w", id, limStr(lim), mstore.OpsString(cs.Ops), err)
		}
		if viol != nil {
			report(cs, *viol)
		} else {
			lines = append(lines, mstore.CoqCase(id, &lim, lits, g0, names, steps, final))
		}
		if interesting {
			res.Nontrivial(fmt.Sprintf("%s [%s]", limStr(lim), mstore.OpsString(cs.Ops)))
		}
		res.Sample(cs)
	}

	// ---- interleaved: APPEND of session 0 parked before its write transaction ----
	ninter := ctx.Budget(14, 120)
	for ci := 0; ci < ninter; ci++ {
		id++
		k := rng.Range(1, 3) // message limit
		lim := [4]uint32{6, uint32(k), 50, 1 << 31}
		uidVariant := ci%4 == 3
		if uidVariant {
			lim = [4]uint32{6, 50, uint32(k + 1), 1 << 31} // UIDNEXT may reach k+1: k UIDs
		}
		target := []string{"INBOX", "t"}[rng.Pick(2)]
		var pre []mstore.Op
		pre = append(pre, mstore.Op{Kind: "create", Name: "t", RemoteOK: true}, mstore.Op{Kind: "create", Name: "s", RemoteOK: true},
			mstore.Op{Kind: "append", Name: "s", Lit: 4, Remote: "ok"})
		for i := 0; i < k-1; i++ {
			pre = append(pre, mstore.Op{Kind: "append", Name: target, Lit: i % nlits, Remote: "ok"})
		}
		var other mstore.Op
		switch rng.Pick(4) {
		case 0, 1:
			other = mstore.Op{Kind: "append", Name: target, Lit: 3, Remote: "ok"}
		case 2:
			other = mstore.Op{Kind: "copy", Name: "s", UIDs: []int{1}, Name2: target, CreateOK: true, LabelOK: true}
		case 3:
			other = mstore.Op{Kind: "connmsgs", Batch: []mstore.BatchMsg{{Lit: 2, Mboxes: []string{target}}}}
		}
		desc := fmt.Sprintf("limits(%s) pre[%s] A=append(%s,L1) parked-before-write; B=%s; A resumes", limStr(lim), mstore.OpsString(pre), target, other)
		cs := &c17Case{ID: id, Limits: lim, Ops: pre, Inter: desc}
		ctx.Current("interleaving "+desc, cs)
		ir, err := interleave(lim, pre, target, 1, other, nlits)
		if what, ok := mstore.AsProbe(err); ok {
			res.Fail("interleaved mailbox-unreadable: "+desc, what, cs)
			continue
		}
		if err != nil {
			return fmt.Errorf("interleaving %s: %w", desc, err)
		}
		res.Evaluations++
		res.Count("interleaving:" + other.Kind)
		res.Count("interleaving-A:" + ir.aObs.Class)
		kind := "message"
		if uidVariant {
			kind = "uid"
		}
		res.Nontrivial(fmt.Sprintf("interleave %s-limit=%d target=%s B=%s", kind, k, target, other.Kind))
		if ir.viol != nil {
			// canonical: independent of the random parts that do not matter
			res.Fail(fmt.Sprintf("interleaved %s: APPEND parked before its write transaction, B=%s completes, A resumes (%s limit %d)", ir.viol.Kind, other.Kind, kind, k),
				ir.viol.Detail+" | "+desc, cs)
			continue
		}
		names := mstore.NewNames()
		lits := newLits(nlits)
		lines = append(lines, mstore.CoqCase(id, &lim, lits, ir.g0, names, ir.steps, ir.final))
	}

	// ---- N sessions APPEND at once when exactly one more message / UID fits ----
	nsim := ctx.Budget(4, 30)
	for ci := 0; ci < nsim; ci++ {
		id++
		p := rng.Range(0, 3)                            // messages already in the target
		n := rng.Range(3, 4)                            // simultaneous sessions
		uidLimit := ci%2 == 0                           // otherwise the message-count limit
		lim := [4]uint32{6, 50, uint32(p + 2), 1 << 31} // UIDNEXT = p+1: one more UID may be handed out
		kind := "uid"
		if !uidLimit {
			lim = [4]uint32{6, uint32(p + 1), 50, 1 << 31}
			kind = "message"
		}
		target := []string{"INBOX", "t"}[rng.Pick(2)]
		pre := []mstore.Op{{Kind: "create", Name: "t", RemoteOK: true}}
		for i := 0; i < p; i++ {
			pre = append(pre, mstore.Op{Kind: "append", Name: target, Lit: i % nlits, Remote: "ok"})
		}
		desc := fmt.Sprintf("limits(%s) pre[%s] %d sessions APPEND %s at once, all parked before their write transaction, then released", limStr(lim), mstore.OpsString(pre), n, target)
		cs := &c17Case{ID: id, Limits: lim, Ops: pre, Inter: desc}
		ctx.Current("simultaneous "+desc, cs)
		ir, err := interleaveN(lim, pre, target, 1, n, nlits)
		if what, ok := mstore.AsProbe(err); ok {
			res.Fail("simultaneous mailbox-unreadable: "+desc, what, cs)
			continue
		}
		if err != nil {
			return fmt.Errorf("simultaneous %s: %w", desc, err)
		}
		res.Evaluations++
		res.Count("simultaneous:" + kind)
		res.Count("simultaneous-accepted:" + ir.aObs.Class)
		res.Nontrivial(fmt.Sprintf("simultaneous %s-limit p=%d n=%d target=%s", kind, p, n, target))
		if ir.viol != nil {
			res.Fail(fmt.Sprintf("simultaneous %s: %d sessions APPEND at once with room for one (%s limit), all parked before their write transaction", ir.viol.Kind, n, kind),
				ir.viol.Detail+" | "+desc, cs)
			continue
		}
		if ir.aObs.Class != "1-ok" {
			res.Fail(fmt.Sprintf("simultaneous fitting-operation-refused: %d sessions APPEND at once with room for one (%s limit): %s", n, kind, ir.aObs.Class), desc, cs)
			continue
		}
		names := mstore.NewNames()
		lines = append(lines, mstore.CoqCase(id, &lim, newLits(nlits), ir.g0, names, ir.steps, ir.final))
	}

	res.ModelCases = len(lines)
	// one failure of every kind first (the driver reports the first few)
	seenKind := map[string]bool{}
	var first, rest []common.Failure
	for _, f := range res.Failures {
		k := strings.SplitN(f.Canonical, " limits(", 2)[0]
		k = strings.SplitN(k, ":", 2)[0]
		if !seenKind[k] {
			seenKind[k] = true
			first = append(first, f)
		} else {
			rest = append(rest, f)
		}
	}
	res.Failures = append(first, rest...)
	return mstore.WriteCases(ctx.Out, "Run.RunC17", lines, nil)
}
