// Package imapc is a minimal raw IMAP client: it sends command lines (with literals) and
// collects the untagged responses up to the tagged completion.
package imapc

import (
	"bufio"
	"errors"
	"fmt"
	"net"
	"regexp"
	"strconv"
	"strings"
	"time"
)

type Line struct {
	Text string   // the line without CRLF; literals appear as {n} and continue after it
	Lits [][]byte // literal payloads in order
}

type Result struct {
	Tag      string
	Status   string // OK NO BAD, or "" if the connection closed / BYE
	Text     string // text after the status
	Untagged []Line
	Closed   bool
}

type Client struct {
	conn     net.Conn
	r        *bufio.Reader
	n        int
	Timeout  time.Duration
	Greeting string
	TagPfx   string
}

func Dial(addr string) (*Client, error) {
	conn, err := net.DialTimeout("tcp", addr, 10*time.Second)
	if err != nil {
		return nil, err
	}
	c := &Client{conn: conn, r: bufio.NewReaderSize(conn, 1<<16), Timeout: 60 * time.Second, TagPfx: "T"}
	l, err := c.readLine()
	if err != nil {
		conn.Close()
		return nil, err
	}
	c.Greeting = l.Text
	return c, nil
}

func (c *Client) Close() error { return c.conn.Close() }

var litRe = regexp.MustCompile(`\{(\d+)\}$`)

func (c *Client) readLine() (Line, error) {
	var ln Line
	var sb strings.Builder
	for {
		c.conn.SetReadDeadline(time.Now().Add(c.Timeout))
		s, err := c.r.ReadString('\n')
		if err != nil {
			return ln, err
		}
		s = strings.TrimRight(s, "\r\n")
		sb.WriteString(s)
		m := litRe.FindStringSubmatch(s)
		if m == nil {
			break
		}
		n, _ := strconv.Atoi(m[1])
		buf := make([]byte, n)
		got := 0
		for got < n {
			c.conn.SetReadDeadline(time.Now().Add(c.Timeout))
			k, err := c.r.Read(buf[got:])
			got += k
			if err != nil {
				return ln, err
			}
		}
		ln.Lits = append(ln.Lits, buf)
	}
	ln.Text = sb.String()
	return ln, nil
}

func (c *Client) NextTag() string {
	c.n++
	return fmt.Sprintf("%s%04d", c.TagPfx, c.n)
}

// SendRaw writes bytes as they are.
func (c *Client) SendRaw(b []byte) error {
	c.conn.SetWriteDeadline(time.Now().Add(c.Timeout))
	_, err := c.conn.Write(b)
	return err
}

// ReadUntilTag reads lines until "<tag> STATUS ...". Continuation requests ("+ ...") are returned as untagged.
func (c *Client) ReadUntilTag(tag string) (Result, error) {
	res := Result{Tag: tag}
	for {
		l, err := c.readLine()
		if err != nil {
			res.Closed = true
			return res, err
		}
		if strings.HasPrefix(l.Text, tag+" ") {
			rest := l.Text[len(tag)+1:]
			sp := strings.SplitN(rest, " ", 2)
			res.Status = sp[0]
			if len(sp) > 1 {
				res.Text = sp[1]
			}
			return res, nil
		}
		res.Untagged = append(res.Untagged, l)
	}
}

// ReadLine reads a single response line (for IDLE and continuation handling).
func (c *Client) ReadLine(timeout time.Duration) (Line, error) {
	old := c.Timeout
	c.Timeout = timeout
	defer func() { c.Timeout = old }()
	return c.readLine()
}

// Cmd sends one command without literals.
func (c *Client) Cmd(line string) (Result, error) {
	tag := c.NextTag()
	if err := c.SendRaw([]byte(tag + " " + line + "\r\n")); err != nil {
		return Result{Tag: tag, Closed: true}, err
	}
	return c.ReadUntilTag(tag)
}

// CmdParts sends a command whose parts are separated by literals: parts[0] {len(lits[0])} CRLF lits[0] parts[1] ...
// (synchronising literals: waits for the continuation request).
func (c *Client) CmdParts(parts []string, lits [][]byte) (Result, error) {
	if len(parts) != len(lits)+1 {
		return Result{}, errors.New("imapc: parts/lits mismatch")
	}
	tag := c.NextTag()
	res := Result{Tag: tag}
	cur := tag + " " + parts[0]
	for i, lit := range lits {
		if err := c.SendRaw([]byte(fmt.Sprintf("%s{%d}\r\n", cur, len(lit)))); err != nil {
			res.Closed = true
			return res, err
		}
		// wait for continuation or tagged completion
		for {
			l, err := c.readLine()
			if err != nil {
				res.Closed = true
				return res, err
			}
			if strings.HasPrefix(l.Text, "+") {
				break
			}
			if strings.HasPrefix(l.Text, tag+" ") {
				rest := l.Text[len(tag)+1:]
				sp := strings.SplitN(rest, " ", 2)
				res.Status = sp[0]
				if len(sp) > 1 {
					res.Text = sp[1]
				}
				return res, nil
			}
			res.Untagged = append(res.Untagged, l)
		}
		if err := c.SendRaw(lit); err != nil {
			res.Closed = true
			return res, err
		}
		cur = parts[i+1]
	}
	if err := c.SendRaw([]byte(cur + "\r\n")); err != nil {
		res.Closed = true
		return res, err
	}
	r2, err := c.ReadUntilTag(tag)
	r2.Untagged = append(res.Untagged, r2.Untagged...)
	return r2, err
}

// Append is APPEND mbox (flags) {literal}.
func (c *Client) Append(mbox string, flags string, lit []byte) (Result, error) {
	p := "APPEND " + Quote(mbox) + " "
	if flags != "" {
		p += "(" + flags + ") "
	}
	return c.CmdParts([]string{p, ""}, [][]byte{lit})
}

func Quote(s string) string {
	return `"` + strings.ReplaceAll(strings.ReplaceAll(s, `\`, `\\`), `"`, `\"`) + `"`
}

// ---- small parsers for common untagged responses ----

var (
	reExists  = regexp.MustCompile(`^\* (\d+) EXISTS$`)
	reRecent  = regexp.MustCompile(`^\* (\d+) RECENT$`)
	reExpunge = regexp.MustCompile(`^\* (\d+) EXPUNGE$`)
	reFetch   = regexp.MustCompile(`^\* (\d+) FETCH \((.*)\)$`)
	reUID     = regexp.MustCompile(`(?:^| )UID (\d+)`)
	reFlags   = regexp.MustCompile(`FLAGS \(([^)]*)\)`)
	reSearch  = regexp.MustCompile(`^\* SEARCH(.*)$`)
)

type Ev struct {
	Kind  string // EXISTS EXPUNGE FETCH RECENT SEARCH OTHER
	N     int
	UID   int      // FETCH: 0 if absent
	Flags []string // FETCH: nil if absent (lower-cased, sorted by caller)
	HasFl bool
	Nums  []int // SEARCH
	Raw   string
	Lits  [][]byte
}

func ParseEv(l Line) Ev {
	t := l.Text
	if m := reExists.FindStringSubmatch(t); m != nil {
		n, _ := strconv.Atoi(m[1])
		return Ev{Kind: "EXISTS", N: n, Raw: t}
	}
	if m := reRecent.FindStringSubmatch(t); m != nil {
		n, _ := strconv.Atoi(m[1])
		return Ev{Kind: "RECENT", N: n, Raw: t}
	}
	if m := reExpunge.FindStringSubmatch(t); m != nil {
		n, _ := strconv.Atoi(m[1])
		return Ev{Kind: "EXPUNGE", N: n, Raw: t}
	}
	if m := reFetch.FindStringSubmatch(t); m != nil {
		n, _ := strconv.Atoi(m[1])
		e := Ev{Kind: "FETCH", N: n, Raw: t, Lits: l.Lits}
		if u := reUID.FindStringSubmatch(m[2]); u != nil {
			e.UID, _ = strconv.Atoi(u[1])
		}
		// a FETCH response may carry FLAGS twice (requested item + the implicit \Seen): the last one is current
		if all := reFlags.FindAllStringSubmatch(m[2], -1); len(all) > 0 {
			f := all[len(all)-1]
			e.HasFl = true
			for _, x := range strings.Fields(f[1]) {
				e.Flags = append(e.Flags, strings.ToLower(x))
			}
		}
		return e
	}
	if m := reSearch.FindStringSubmatch(t); m != nil {
		e := Ev{Kind: "SEARCH", Raw: t}
		for _, x := range strings.Fields(m[1]) {
			n, err := strconv.Atoi(x)
			if err == nil {
				e.Nums = append(e.Nums, n)
			}
		}
		return e
	}
	return Ev{Kind: "OTHER", Raw: t, Lits: l.Lits}
}

func Evs(r Result) []Ev {
	out := make([]Ev, 0, len(r.Untagged))
	for _, l := range r.Untagged {
		out = append(out, ParseEv(l))
	}
	return out
}

// DialTimeout is Dial with its own bound on the wait for the greeting (added for C19).
func DialTimeout(addr string, greeting time.Duration) (*Client, error) {
	conn, err := net.DialTimeout("tcp", addr, 10*time.Second)
	if err != nil {
		return nil, err
	}
	c := &Client{conn: conn, r: bufio.NewReaderSize(conn, 1<<16), Timeout: greeting, TagPfx: "T"}
	l, err := c.readLine()
	if err != nil {
		conn.Close()
		return nil, err
	}
	c.Timeout = 60 * time.Second
	c.Greeting = l.Text
	return c, nil
}

// Abort drops the connection the hard way (SO_LINGER 0: the peer gets a reset, its next write fails at once) (added for C19).
func (c *Client) Abort() error {
	if tc, ok := c.conn.(*net.TCPConn); ok {
		_ = tc.SetLinger(0)
	}
	return c.conn.Close()
}
