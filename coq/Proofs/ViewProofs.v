(* C02 (whole view: membership, UIDs, order AND flags): a session that receives foreign updates in database order and
   then performs a permitting flush ends up with exactly the snapshot that the plain meaning of those updates describes
   (view_apply). Generalises Proofs/MembershipProofs.v from the (id, uid) projection to the snapshot itself. *)
From Coq Require Import List NArith Bool Lia Arith.
From Gluon Require Import Model.Responders Model.Session Proofs.PopProofs Proofs.MembershipProofs.
Import ListNotations.
Open Scope N_scope.

(* ---------- the plain meaning of an update for a session that has mailbox mb selected ---------- *)
Definition flag_op (op : fop) (f cur : flagset) : flagset :=
  match op with FAdd => fl_add cur f | FRem => fl_rem cur f | FSet => f end.

(* set the flags of message m to g(current flags); \Recent is the session's own and survives; absent: nothing *)
Definition view_set (m : msgid) (g : flagset -> flagset) (v : snap) : snap :=
  snap_set_flags m (g (snap_get_flags m v)) v.

(* a flag change that stems from another mailbox leaves \Deleted (which is per mailbox) alone *)
Definition keep_deleted (foreign_mbox : bool) (cur nf : flagset) : flagset :=
  if foreign_mbox then fl_set fl_deleted (fl_mem fl_deleted cur) nf else nf.

Definition view_add (m : msgid) (u : uid) (f : flagset) (v : snap) : snap :=
  if snap_has m v then v else snap_insert_by_uid (mkSmsg m u (fl_rem f [fl_recent])) v.

Definition view_apply (mb : N) (u : update) (v : snap) : snap :=
  match u with
  | UExists mb' items _ =>
      if mb' =? mb then fold_left (fun acc it => match it with (m, u', f) => view_add m u' f acc end) items v else v
  | UExpunge mb' m => if mb' =? mb then snap_remove m v else v
  | UFlags mb' parts _ _ =>
      fold_left (fun acc p => match p with (ms, f, op) =>
        fold_left (fun acc m => view_set m (fun cur => keep_deleted (negb (mb =? mb')) cur (flag_op op f cur)) acc) ms acc end)
        parts v
  | URemoteFlag m flag add => view_set m (fun cur => flag_op (if add then FAdd else FRem) [flag] cur) v
  end.

(* ---------- one responder as a total function on snapshots ---------- *)
Definition resp_view (r : responder) (v : snap) : snap :=
  match handle r v with Some (s', _) => s' | None => v end.

Lemma snap_remove_absent m v : snap_has m v = false -> snap_remove m v = v.
Proof. induction v as [|x r IH]; [reflexivity|]. cbn [snap_has existsb snap_remove]. intros H.
  apply orb_false_iff in H as [H1 H2]. unfold msgid in *. rewrite H1. f_equal. apply IH. exact H2. Qed.

Lemma snap_set_flags_absent m f v : snap_has m v = false -> snap_set_flags m f v = v.
Proof. induction v as [|x r IH]; [reflexivity|]. cbn [snap_has existsb snap_set_flags]. intros H.
  apply orb_false_iff in H as [H1 H2]. unfold msgid in *. rewrite H1. f_equal. apply IH. exact H2. Qed.

Lemma resp_view_exists m u f v : resp_view (RExists m u f false false) v = view_add m u f v.
Proof. unfold resp_view, view_add. cbn [handle]. destruct (snap_has m v); reflexivity. Qed.

Lemma resp_view_expunge m v : resp_view (RExpunge m) v = snap_remove m v.
Proof. unfold resp_view. cbn [handle]. destruct (snap_seq_of m v 1) eqn:E; [reflexivity|].
  apply seq_of_none_iff in E. symmetry. apply snap_remove_absent. exact E. Qed.

Lemma resp_view_fetch m f op au si fo v :
  resp_view (RFetch m f op au si fo) v = view_set m (fun cur => keep_deleted fo cur (flag_op op f cur)) v.
Proof.
  unfold resp_view, view_set, keep_deleted, flag_op. cbn [handle].
  destruct (snap_seq_of m v 1) eqn:E.
  - destruct op; destruct (_ || si); reflexivity.
  - apply seq_of_none_iff in E. symmetry. apply snap_set_flags_absent. exact E.
Qed.

Lemma handle_view r v : foreign_resp r -> exists out, handle r v = Some (resp_view r v, out).
Proof. intros H. destruct (handle_mem r v H) as (s' & out & Hh & _). exists out. unfold resp_view. rewrite Hh. reflexivity. Qed.

Lemma ids_resp_view r v : foreign_resp r -> ids_of (resp_view r v) = resp_mem r (ids_of v).
Proof. intros H. destruct (handle_mem r v H) as (s' & out & Hh & Hi). unfold resp_view. rewrite Hh. exact Hi. Qed.

Lemma run_responders_view rs : forall v, Forall foreign_resp rs ->
  exists out, run_responders rs v = Some (fold_left (fun a r => resp_view r a) rs v, out).
Proof.
  induction rs as [|r t IH]; intros v Hf; cbn [run_responders fold_left]; [eexists; reflexivity|].
  inversion Hf as [|? ? Hr Ht]; subst. destruct (handle_view r v Hr) as (o1 & ->).
  destruct (IH (resp_view r v) Ht) as (o2 & ->). eexists. reflexivity.
Qed.

Lemma ids_fold_view rs : forall v, Forall foreign_resp rs ->
  ids_of (fold_left (fun a r => resp_view r a) rs v) = fold_left (fun l r => resp_mem r l) rs (ids_of v).
Proof.
  induction rs as [|r t IH]; intros v Hf; cbn [fold_left]; [reflexivity|].
  inversion Hf as [|? ? Hr Ht]; subst. rewrite (IH _ Ht). rewrite (ids_resp_view r v Hr). reflexivity.
Qed.

(* ---------- the observer ---------- *)
Section ObserverView.
  Variable o : nat.
  Variable mb : N.
  Variable snap0 : snap.

  Let view_of (pre : list responder) : snap := fold_left (fun a r => resp_view r a) pre snap0.

  (* a message that is neither in the snapshot nor announced by a pending exists responder is not in the view *)
  Lemma absent_from_view m pre : Forall foreign_resp pre ->
    has_or_pending m (ss_st (obs mb snap0 pre [])) = false -> snap_has m (view_of pre) = false.
  Proof.
    intros Hp H. unfold view_of. rewrite ids_has, (ids_fold_view pre snap0 Hp).
    destruct (idl_has m _) eqn:E; [|reflexivity]. exfalso.
    apply fold_has_origin in E. unfold has_or_pending in H. cbn [ss_st obs s_snap s_res] in H.
    apply orb_false_iff in H as [H1 H2]. destruct E as [E|E]; [rewrite <- ids_has in E; congruence|congruence].
  Qed.

  Lemma fold_exists_view mbx items og s v : foreign_upd o (UExists mbx items og) ->
    fold_left (fun a r => resp_view r a) (upd_responders (UExists mbx items og) o s false) v
    = fold_left (fun acc it => match it with (m, u', f) => view_add m u' f acc end) items v.
  Proof.
    intros Hf.
    assert (Hb : match og with Some a => Nat.eqb a o | None => false end = false).
    { destruct og as [a|]; [|reflexivity]. cbn [foreign_upd] in Hf. destruct (Nat.eqb_spec a o); [contradiction|reflexivity]. }
    clear Hf. cbn [upd_responders]. revert v. induction items as [|[[m u'] f] t IH]; intros v; [reflexivity|].
    cbn [map fold_left]. rewrite <- IH. f_equal.
    rewrite Hb. apply resp_view_exists.
  Qed.

  Lemma fold_fetch_part (ms : list msgid) f op au (si : msgid -> bool) fo : forall v,
    fold_left (fun a r => resp_view r a) (map (fun m => RFetch m f op au (si m) fo) ms) v
    = fold_left (fun acc m => view_set m (fun cur => keep_deleted fo cur (flag_op op f cur)) acc) ms v.
  Proof. induction ms as [|m t IH]; intros v; [reflexivity|]. cbn [map fold_left]. rewrite resp_view_fetch. apply IH. Qed.

  Lemma delivered_step_view u pre : Forall foreign_resp pre -> foreign_upd o u ->
    fold_left (fun a r => resp_view r a) (delivered u o (obs mb snap0 pre [])) (view_of pre) = view_apply mb u (view_of pre).
  Proof.
    intros Hp Hf. unfold delivered.
    destruct u as [mb' items og | mb' m | mb' parts og si | m fl ad]; cbn [upd_filter ss_sel obs view_apply].
    - rewrite (N.eqb_sym mb mb'). destruct (mb' =? mb); [|reflexivity]. apply fold_exists_view. exact Hf.
    - rewrite (N.eqb_sym mb mb'). destruct (mb' =? mb); cbn [andb]; [|reflexivity].
      destruct (has_or_pending m (ss_st (obs mb snap0 pre []))) eqn:H.
      + cbn [upd_responders fold_left]. apply resp_view_expunge.
      + cbn [fold_left]. symmetry. apply snap_remove_absent. apply absent_from_view; assumption.
    - clear Hf. cbn [upd_responders ss_sel obs]. generalize (view_of pre). induction parts as [|[[ms f] op] t IH]; intros v; [reflexivity|].
      cbn [map concat fold_left]. rewrite fold_left_app.
      rewrite (fold_fetch_part ms f op false (fun m => Nat.eqb og o && si && false && negb (pending_exists m (ss_st (obs mb snap0 pre [])))) _). apply IH.
    - destruct (has_or_pending m (ss_st (obs mb snap0 pre []))) eqn:H.
      + cbn [upd_responders fold_left]. rewrite resp_view_fetch. unfold keep_deleted. reflexivity.
      + cbn [fold_left]. symmetry. unfold view_set. apply snap_set_flags_absent. apply absent_from_view; assumption.
  Qed.

  Lemma deliver_all_view us : forall pre, Forall foreign_resp pre -> Forall (foreign_upd o) us ->
    view_of (deliver_all o mb snap0 us pre) = fold_left (fun v u => view_apply mb u v) us (view_of pre).
  Proof.
    induction us as [|u t IH]; intros pre Hp Hf; cbn [deliver_all fold_left]; [reflexivity|].
    inversion Hf as [|? ? Hu Ht]; subst.
    rewrite IH; [|apply Forall_app; split; [exact Hp|apply delivered_foreign; exact Hu]|exact Ht].
    f_equal. unfold view_of at 1. rewrite fold_left_app. apply delivered_step_view; assumption.
  Qed.

  (* The observer holds snapshot snap0 with nothing pending; the foreign updates us reach it in order (each filtered
     against snapshot + pending responders, as the code does); it then performs a permitting flush (NOOP). The flush
     succeeds, nothing stays pending, and the snapshot is exactly what the updates describe: the same messages under the
     same UIDs in the same order with the same flags. *)
  Theorem observer_view us : Forall (foreign_upd o) us ->
    exists st' out,
      flush_raw true (mkS snap0 (deliver_all o mb snap0 us [])) = Some (st', out) /\
      s_res st' = [] /\
      s_snap st' = fold_left (fun v u => view_apply mb u v) us snap0.
  Proof.
    intros Hf. unfold flush_raw, pop_responders. rewrite pop_go_true. cbn [s_res s_snap].
    assert (Hd := deliver_all_foreign o mb snap0 us [] (Forall_nil _) Hf).
    destruct (run_responders_view (deliver_all o mb snap0 us []) snap0 Hd) as (out & ->).
    eexists _, _. split; [reflexivity|]. split; [reflexivity|]. cbn [s_snap].
    exact (deliver_all_view us [] (Forall_nil _) Hf).
  Qed.
End ObserverView.
