(* Correspondence runner for C08: the harness drives the real SQLite db.Client with sequences of transactions and
   writes them here with what it observed (per operation: the projected result or "the Write returned an error";
   after the transaction: a dump of all tables read back through raw SQL).  `mismatches` lists the case ids on
   which the Impl model (Model/RelDb.v, exec_impl with the GENERATED statement facts) predicts something else. *)
From Coq Require Import String Ascii.
From Coq Require Import List NArith Bool.
From Gluon Require Export Base.ListX Model.RelDb Gen.FactsSqlBind.
Import ListNotations.
Open Scope list_scope.
Open Scope N_scope.

(* ---- compact argument lists ---- *)
Fixpoint seg_expand (start : N) (count : nat) : list N :=
  match count with O => [] | S k => start :: seg_expand (start + 1) k end.
Definition segs (l : list (N * N)) : list N := flat_map (fun p => seg_expand (fst p) (N.to_nat (snd p))) l.
(* (message start, remote start, count): the pairs (m+i, r+i) *)
Definition pair_segs (l : list (N * N * N)) : list (N * N) :=
  flat_map (fun t => let '(m, r, n) := t in
                     map (fun i => (m + i, r + i)) (seg_expand 0 (N.to_nat n))) l.
(* (id start, remote start, count, flags): create requests; the data field is the id *)
Definition req_segs (l : list (N * N * N * list flag)) : list creq :=
  flat_map (fun t => let '(m, r, n, fs) := t in
                     map (fun i => mkReq (m + i) (r + i) (m + i) fs) (seg_expand 0 (N.to_nat n))) l.

(* (uid, msg, remote, count, deleted, recent, flags): count snapshot rows (uid+i, msg+i, remote+i) *)
Definition snap_segs (l : list (N * N * N * N * bool * bool * list flag)) : list snaprow :=
  flat_map (fun t => let '(u, m, r, n, dl, rc, fs) := t in
                     map (fun i => mkSnap (u + i) (m + i) (r + i) dl rc fs) (seg_expand 0 (N.to_nat n))) l.
(* (id, remote, count, flags) *)
Definition mf_segs (l : list (N * N * N * list flag)) : list (N * N * list flag) :=
  flat_map (fun t => let '(m, r, n, fs) := t in
                     map (fun i => (m + i, r + i, fs)) (seg_expand 0 (N.to_nat n))) l.

(* ---- comparing results (lists that the interface does not order are compared as sets) ---- *)
Definition nsubset (a b : list N) : bool := forallb (fun x => nmem x b) a.
Definition nseteq (a b : list N) : bool := Nat.eqb (length a) (length b) && nsubset a b && nsubset b a.
Definition fsubset (a b : list flag) : bool := forallb (fun f => fmem_ci f b) a.
Definition fseteq (a b : list flag) : bool := fsubset a b && fsubset b a.
Definition fsubset_cs (a b : list flag) : bool := forallb (fun f => fmem f b) a.
Definition fseteq_cs (a b : list flag) : bool := Nat.eqb (length a) (length b) && fsubset_cs a b && fsubset_cs b a.
Definition pair_eqb (a b : N * N) : bool := N.eqb (fst a) (fst b) && N.eqb (snd a) (snd b).
Definition psubset (a b : list (N * N)) : bool := forallb (fun x => existsb (pair_eqb x) b) a.
Definition pseteq (a b : list (N * N)) : bool := Nat.eqb (length a) (length b) && psubset a b && psubset b a.
Definition mbox_eqb (a b : mbox) : bool :=
  N.eqb (mb_id a) (mb_id b) && N.eqb (mb_remote a) (mb_remote b) && N.eqb (mb_name a) (mb_name b)
  && N.eqb (mb_uidv a) (mb_uidv b) && Bool.eqb (mb_sub a) (mb_sub b).
(* `a &&& b`: b is only evaluated when a holds (vm_compute evaluates the arguments of andb eagerly) *)
Notation "a &&& b" := (if a then b else false) (at level 40, left associativity).

Definition snap_rest_eqb (a b : snaprow) : bool :=
  N.eqb (s_msg a) (s_msg b) &&& N.eqb (s_remote a) (s_remote b)
  &&& Bool.eqb (s_deleted a) (s_deleted b) &&& Bool.eqb (s_recent a) (s_recent b) &&& fseteq (s_flags a) (s_flags b).
(* rows are identified by their UID, the rest is compared once *)
Definition snap_in (x : snaprow) (l : list snaprow) : bool :=
  match find (fun y => N.eqb (s_uid y) (s_uid x)) l with Some y => snap_rest_eqb x y | None => false end.
Definition mf_in (x : N * N * list flag) (l : list (N * N * list flag)) : bool :=
  match find (fun y => N.eqb (fst (fst y)) (fst (fst x))) l with
  | Some y => N.eqb (snd (fst x)) (snd (fst y)) &&& fseteq (snd x) (snd y)
  | None => false
  end.
Definition optn_eqb (a b : option N) : bool :=
  match a, b with Some x, Some y => N.eqb x y | None, None => true | _, _ => false end.

(* snapshot rows: ordered by uid in the code; the harness sorts the observed rows by uid, the model rows are in uid order *)
Definition rval_match (m o : rval) : bool :=
  match m, o with
  | RUnit, RUnit => true
  | RBool a, RBool b => Bool.eqb a b
  | RNum a, RNum b => N.eqb a b
  | RNums a, RNums b => nseteq a b
  | RPairs a, RPairs b => pseteq a b
  | RMbox a, RMbox b => mbox_eqb a b
  | RFlags a, RFlags b => fseteq a b
  | RSnap a, RSnap b => Nat.eqb (length a) (length b) &&& forallb (fun x => snap_in x b) a
  | RMsgFlags a, RMsgFlags b => Nat.eqb (length a) (length b) &&& forallb (fun x => mf_in x b) a
  | RCountUid a b, RCountUid c d => N.eqb a c && N.eqb b d
  | ROptNum a, ROptNum b => optn_eqb a b
  | RUidFlags a x, RUidFlags b y => N.eqb a b &&& fseteq x y
  | _, _ => false
  end.

(* ---- observed dump (run-length compressed) ---- *)
Inductive drow := DRow (uid msg remote count : N) (deleted recent : bool).     (* count rows (uid+i, msg+i, remote+i) *)
Record dump := mkDump {
  du_mboxes : list mbox;
  du_msgs : list (N * N * N * bool);                 (* (id, remote, count, deleted): count messages (id+i, remote+i) *)
  du_flags : list (N * N * list flag);               (* (id, count, flags): each of the count messages has exactly these flags *)
  du_m2m : list (N * N * list N);                    (* (id, count, mailboxes) *)
  du_tabs : list (N * N * list drow);                (* (mailbox, sqlite_sequence value, rows in uid order) *)
  du_subs : list (N * N);
  du_settings : option N
}.

Definition row_eqb (a b : mrow) : bool :=
  N.eqb (r_uid a) (r_uid b) && N.eqb (r_msg a) (r_msg b) && N.eqb (r_remote a) (r_remote b)
  && Bool.eqb (r_deleted a) (r_deleted b) && Bool.eqb (r_recent a) (r_recent b).
Definition drows_expand (l : list drow) : list mrow :=
  flat_map (fun r => match r with DRow u m rm n dl rc =>
     map (fun i => mkRow (u + i) (m + i) (rm + i) dl rc) (seg_expand 0 (N.to_nat n)) end) l.

Definition msg_eqb (a b : msg) : bool :=
  N.eqb (mg_id a) (mg_id b) && N.eqb (mg_remote a) (mg_remote b) && Bool.eqb (mg_deleted a) (mg_deleted b).

Definition dump_ok (d : db) (u : dump) : bool :=
  (* mailboxes *)
  Nat.eqb (length (d_mboxes d)) (length (du_mboxes u))
  && forallb (fun x => existsb (mbox_eqb x) (d_mboxes d)) (du_mboxes u)
  (* messages *)
  && (let obs := flat_map (fun t => let '(m, r, n, dl) := t in
                   map (fun i => mkMsg (m + i) (r + i) 0 dl) (seg_expand 0 (N.to_nat n))) (du_msgs u) in
      Nat.eqb (length obs) (length (d_msgs d)) && forallb (fun x => existsb (msg_eqb x) (d_msgs d)) obs)
  (* flags per message (exact spelling), and no flag row outside the listed messages *)
  && forallb (fun t => let '(m, n, fs) := t in
        forallb (fun i => fseteq_cs (flags_of (m + i) (d_flags d)) fs) (seg_expand 0 (N.to_nat n))) (du_flags u)
  && Nat.eqb (length (d_flags d))
       (fold_right (fun t acc => let '(_, n, fs) := t in (N.to_nat n * length fs + acc)%nat) 0%nat (du_flags u))
  (* membership relation *)
  && forallb (fun t => let '(m, n, bs) := t in
        forallb (fun i => nseteq (map snd (filter (fun p => N.eqb (fst p) (m + i)) (d_m2m d))) bs) (seg_expand 0 (N.to_nat n))) (du_m2m u)
  && Nat.eqb (length (d_m2m d))
       (fold_right (fun t acc => let '(_, n, bs) := t in (N.to_nat n * length bs + acc)%nat) 0%nat (du_m2m u))
  (* per-mailbox tables *)
  && Nat.eqb (length (d_tabs d)) (length (du_tabs u))
  && forallb (fun t => let '(b, sq, rows) := t in
        match find_tab b (d_tabs d) with
        | Some mt => N.eqb (t_seq mt) sq && list_eqb row_eqb (t_rows mt) (drows_expand rows)
        | None => false
        end) (du_tabs u)
  && pseteq (d_subs d) (du_subs u)
  && optn_eqb (d_settings d) (du_settings u).

(* ---- cases ---- *)
Record otx := mkOtx {
  o_ops : list op;
  o_abort : bool;                     (* the callback returned an error after the last operation *)
  o_res : option (list rval);         (* observed results; None = the Write returned an error *)
  o_dump : option dump                (* dump after the transaction (None = not recorded) *)
}.
Record case := mkCase { c_id : nat; c_txs : list otx }.

Definition ex : op -> db -> result := exec_impl stmt_facts remove_flag_nocase.

Fixpoint list_match (ms os : list rval) : bool :=
  match ms, os with
  | [], [] => true
  | m :: ms', o :: os' => rval_match m o && list_match ms' os'
  | _, _ => false
  end.

Fixpoint run_otxs (ts : list otx) (d : db) : bool :=
  match ts with
  | [] => true
  | t :: r =>
    let (d', res) := run_tx ex (mkTx (o_ops t) (o_abort t)) d in
    (match res, o_res t with
     | Some ms, Some os => list_match ms os
     | None, None => true
     | _, _ => false
     end)
    && (match o_dump t with Some u => dump_ok d' u | None => true end)
    && run_otxs r d'
  end.

Definition case_ok (c : case) : bool := run_otxs (c_txs c) empty_db.
Definition mismatches (cs : list case) : list nat := map c_id (filter (fun c => negb (case_ok c)) cs).
