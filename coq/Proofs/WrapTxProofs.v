(* C08 — proofs about Model/WrapTx.v *)
From Coq Require Import String Ascii.
From Coq Require Import List Bool.
From Gluon Require Import Model.RelDb Model.WrapTx.
Import ListNotations.
Open Scope list_scope.

(* ANY error returned by the body leaves the connection as it was before the transaction: same committed database, no
   open transaction; the caller gets that error *)
Lemma wrap_tx_any_error : forall (state err res : Type) (rolls : bool), rolls = true ->
  forall (body : state -> state * (res + err)) (c : conn state) (e : err),
  open_tx c = None -> snd (body (committed c)) = inr e ->
  wrap_tx (fun _ => negb rolls) body c = (c, inr e).
Proof.
  intros state err res rolls -> body c e Hc Hb. unfold wrap_tx. rewrite Hb. cbn.
  destruct c as [d o]. cbn in *. subst o. reflexivity.
Qed.

Lemma wrap_tx_usable : forall (state err res : Type) (rolls : bool), rolls = true ->
  forall (body : state -> state * (res + err)) (c : conn state),
  usable (fst (wrap_tx (fun _ => negb rolls) body c)) = true.
Proof.
  intros state err res rolls -> body c. unfold wrap_tx. destruct (snd (body (committed c))); reflexivity.
Qed.

Lemma wrap_tx_commit : forall (state err res : Type) early (body : state -> state * (res + err)) (c : conn state) r,
  snd (body (committed c)) = inl r -> wrap_tx early body c = (mkConn (fst (body (committed c))) None, inl r).
Proof. intros state err res early body c r H. unfold wrap_tx. rewrite H. reflexivity. Qed.

(* wrap_tx over the operations of a transaction is the functional transaction run_tx, whatever error value aborts it *)
Lemma wrap_tx_is_run_tx : forall (err : Type) (rolls : bool), rolls = true ->
  forall ex (op_err : err) ops (abort : option err) d,
  committed (fst (wrap_tx (fun _ => negb rolls) (ops_body ex op_err ops abort) (mkConn d None))) =
    fst (run_tx ex (mkTx ops (match abort with Some _ => true | None => false end)) d) /\
  open_tx (fst (wrap_tx (fun _ => negb rolls) (ops_body ex op_err ops abort) (mkConn d None))) = None /\
  (match snd (wrap_tx (fun _ => negb rolls) (ops_body ex op_err ops abort) (mkConn d None)) with inl rs => Some rs | inr _ => None end) =
    snd (run_tx ex (mkTx ops (match abort with Some _ => true | None => false end)) d).
Proof.
  intros err rolls -> ex op_err ops abort d. unfold wrap_tx, ops_body, run_tx. cbn.
  destruct (run_ops ex ops d []) as [[d' rs]|]; [|cbn; repeat split].
  destruct abort; cbn; repeat split.
Qed.

(* an error for which the branch returns early leaves the transaction open with its writes: the client is not usable *)
Lemma wrap_tx_early_return_refuted :
  let body : nat -> nat * (unit + bool) := fun s => (S s, inr true) in   (* writes, then returns the error `true` *)
  let early : bool -> bool := fun e => e in                              (* ... which the branch treats as "already rolled back" *)
  wrap_tx early body (mkConn 0 None) = (mkConn 0 (Some 1), inr true) /\
  usable (fst (wrap_tx early body (mkConn 0 None))) = false /\
  usable (fst (wrap_tx (fun _ => false) body (mkConn 0 None))) = true.
Proof. vm_compute. repeat split; reflexivity. Qed.
