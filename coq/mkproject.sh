#!/bin/sh
# regenerate _CoqProject and Makefile from the files present
cd "$(dirname "$0")"
{ echo "-Q . Gluon"; echo "-arg -w -arg -notation-overridden,-deprecated-hint-without-locality,-deprecated-instance-without-locality"; ls Base/*.v Gen/*.v Model/*.v Spec/*.v Proofs/*.v Props/*.v Run/*.v 2>/dev/null; } > _CoqProject
coq_makefile -f _CoqProject -o Makefile >/dev/null
