package main

// T1 extractor for C16: translates (*snapMsgList).resolveSeq and resolveUID (internal/state/snapshot_messages.go):
// a sequence of `if <cond> { return <value>, <err> }` followed by a final `return <value>, <err>`.
// list.len() is the parameter cnt, list.last().UID the parameter lastuid, the argument is n,
// command.SeqNumValueAsterisk is star; the conversions imap.SeqID(..) / imap.UID(..) (uint32) are written as narrow32.
// A return whose error is not nil is None. Anything else makes the extractor fail.

import (
	"fmt"
	"go/ast"
	"go/token"
	"strings"
)

func init() { register("Resolve", factsResolve) }

type rsTr struct {
	recv string
	arg  string
}

func (p *rsTr) expr(e ast.Expr) (string, error) {
	switch x := e.(type) {
	case *ast.ParenExpr:
		return p.expr(x.X)
	case *ast.Ident:
		if x.Name == p.arg {
			return "n", nil
		}
	case *ast.BasicLit:
		if x.Kind == token.INT {
			return "(" + x.Value + ")", nil
		}
	case *ast.SelectorExpr:
		if x.Sel.Name == "SeqNumValueAsterisk" {
			return "star", nil
		}
		// list.last().UID
		if x.Sel.Name == "UID" {
			if call, ok := x.X.(*ast.CallExpr); ok && len(call.Args) == 0 {
				if sel, ok := call.Fun.(*ast.SelectorExpr); ok && sel.Sel.Name == "last" {
					if id, ok := sel.X.(*ast.Ident); ok && id.Name == p.recv {
						return "lastuid", nil
					}
				}
			}
		}
	case *ast.CallExpr:
		if sel, ok := x.Fun.(*ast.SelectorExpr); ok {
			if id, ok := sel.X.(*ast.Ident); ok && id.Name == p.recv && sel.Sel.Name == "len" && len(x.Args) == 0 {
				return "cnt", nil
			}
			if (sel.Sel.Name == "SeqID" || sel.Sel.Name == "UID") && len(x.Args) == 1 {
				a, err := p.expr(x.Args[0])
				if err != nil {
					return "", err
				}
				return "(narrow32 " + a + ")", nil
			}
		}
	}
	return "", fmt.Errorf("unsupported expression %T", e)
}

func (p *rsTr) cond(e ast.Expr) (string, error) {
	b, ok := e.(*ast.BinaryExpr)
	if !ok {
		return "", fmt.Errorf("unsupported condition %T", e)
	}
	x, err := p.expr(b.X)
	if err != nil {
		return "", err
	}
	y, err := p.expr(b.Y)
	if err != nil {
		return "", err
	}
	switch b.Op {
	case token.EQL:
		return "(" + x + " =? " + y + ")", nil
	case token.NEQ:
		return "(negb (" + x + " =? " + y + "))", nil
	case token.LSS:
		return "(" + x + " <? " + y + ")", nil
	case token.LEQ:
		return "(" + x + " <=? " + y + ")", nil
	case token.GTR:
		return "(" + y + " <? " + x + ")", nil
	case token.GEQ:
		return "(" + y + " <=? " + x + ")", nil
	}
	return "", fmt.Errorf("unsupported comparison")
}

func (p *rsTr) ret(r *ast.ReturnStmt) (string, error) {
	if len(r.Results) != 2 {
		return "", fmt.Errorf("return with %d values", len(r.Results))
	}
	if id, ok := r.Results[1].(*ast.Ident); !ok || id.Name != "nil" {
		return "None", nil
	}
	v, err := p.expr(r.Results[0])
	if err != nil {
		return "", err
	}
	return "Some " + v, nil
}

func (p *rsTr) function(f *ast.File, name string) (string, error) {
	fd := FuncDecl(f, "snapMsgList", name)
	if fd == nil {
		return "", fmt.Errorf("snapMsgList.%s not found", name)
	}
	p.recv = recvName(fd)
	params := paramNames(fd)
	if len(params) != 1 {
		return "", fmt.Errorf("%s: one parameter expected", name)
	}
	p.arg = params[0]
	var parts []string
	for i, st := range fd.Body.List {
		switch s := st.(type) {
		case *ast.IfStmt:
			if s.Init != nil || s.Else != nil || len(s.Body.List) != 1 {
				return "", fmt.Errorf("%s: unsupported if shape", name)
			}
			r, ok := s.Body.List[0].(*ast.ReturnStmt)
			if !ok {
				return "", fmt.Errorf("%s: if without return", name)
			}
			c, err := p.cond(s.Cond)
			if err != nil {
				return "", fmt.Errorf("%s: %v", name, err)
			}
			v, err := p.ret(r)
			if err != nil {
				return "", fmt.Errorf("%s: %v", name, err)
			}
			parts = append(parts, "if "+c+" then "+v+" else")
		case *ast.ReturnStmt:
			if i != len(fd.Body.List)-1 {
				return "", fmt.Errorf("%s: return before the end", name)
			}
			v, err := p.ret(s)
			if err != nil {
				return "", fmt.Errorf("%s: %v", name, err)
			}
			parts = append(parts, v)
			return strings.Join(parts, "\n    "), nil
		default:
			return "", fmt.Errorf("%s: unsupported statement %T", name, st)
		}
	}
	return "", fmt.Errorf("%s: no final return", name)
}

func factsResolve(t *T) (string, error) {
	const file = "internal/state/snapshot_messages.go"
	f, err := t.ParseFile(file)
	if err != nil {
		return "", err
	}
	seq, err := (&rsTr{}).function(f, "resolveSeq")
	if err != nil {
		return "", err
	}
	uid, err := (&rsTr{}).function(f, "resolveUID")
	if err != nil {
		return "", err
	}
	var b strings.Builder
	b.WriteString("(* C16: snapMsgList.resolveSeq and resolveUID of " + file + ", translated statement by statement.\n")
	b.WriteString("   cnt = list.len(), lastuid = list.last().UID, n = the argument, star = command.SeqNumValueAsterisk;\n")
	b.WriteString("   narrow32 = conversion to the uint32 types imap.SeqID / imap.UID; None = an error is returned. *)\n")
	b.WriteString("From Coq Require Import ZArith Bool.\nLocal Open Scope Z_scope.\nLocal Open Scope bool_scope.\n\n")
	b.WriteString("Definition resolve_seq_code (narrow32 : Z -> Z) (cnt lastuid star n : Z) : option Z :=\n    " + seq + ".\n\n")
	b.WriteString("Definition resolve_uid_code (narrow32 : Z -> Z) (cnt lastuid star n : Z) : option Z :=\n    " + uid + ".\n")
	return b.String(), nil
}
