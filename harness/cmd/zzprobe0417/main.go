package main

import (
	"errors"
	"fmt"
	"strings"

	"github.com/ProtonMail/gluon/limits"

	"verifharness/common"
	"verifharness/imapc"
	"verifharness/srv"
)

func show(tag string, r imapc.Result, err error) {
	var u []string
	for _, l := range r.Untagged {
		u = append(u, l.Text)
	}
	fmt.Printf("%-28s -> %s %s | %v | err=%v\n", tag, r.Status, r.Text, strings.Join(u, " ; "), err)
}

func main() {
	lim := limits.NewIMAPLimits(6, 2, 5, 1<<31)
	s, err := srv.Start(srv.Options{Limits: &lim})
	if err != nil {
		panic(err)
	}
	defer s.Stop()
	c, err := s.Login()
	if err != nil {
		panic(err)
	}
	cmd := func(l string) imapc.Result { r, e := c.Cmd(l); show(l, r, e); return r }
	app := func(mb, marker string) imapc.Result {
		r, e := c.Append(mb, "", common.Message(marker, "body "+marker))
		show("APPEND "+mb+" "+marker, r, e)
		return r
	}
	cmd(`LIST "" *`)
	cmd(`STATUS INBOX (MESSAGES UIDNEXT UIDVALIDITY)`)
	app("INBOX", "m1")
	app("INBOX", "m2")
	app("INBOX", "m3")
	app("INBOX", "m4")
	app("INBOX", "m5")
	cmd(`LIST "" *`)
	cmd(`STATUS "Recovered Messages" (MESSAGES UIDNEXT UIDVALIDITY)`)
	cmd(`STATUS INBOX (MESSAGES UIDNEXT UIDVALIDITY)`)
	// uid limit: expunge and append until uid 5
	cmd(`SELECT INBOX`)
	cmd(`STORE 1:* +FLAGS (\Deleted)`)
	cmd(`EXPUNGE`)
	app("INBOX", "n3")
	app("INBOX", "n4")
	cmd(`STORE 1:* +FLAGS (\Deleted)`)
	cmd(`EXPUNGE`)
	app("INBOX", "n5")
	app("INBOX", "n6")
	cmd(`STATUS INBOX (MESSAGES UIDNEXT UIDVALIDITY)`)
	cmd(`STATUS "Recovered Messages" (MESSAGES UIDNEXT UIDVALIDITY)`)
	// mailbox count
	cmd(`CREATE a/b/c/d/e/f/g`)
	cmd(`LIST "" *`)
	cmd(`CREATE h`)
	cmd(`RENAME a x/y/z/w`)
	cmd(`LIST "" *`)
	// remote failure
	s.Conn0().SetFailNext("CreateMessage", errors.New("remote says no"))
	cmd(`DELETE x/y/z/w/b/c/d/e/f/g`)
	app("x", "r1")
	app("x", "r1")
	cmd(`STATUS "Recovered Messages" (MESSAGES UIDNEXT UIDVALIDITY)`)
	cmd(`APPEND "Recovered Messages" {3}`)
	cmd(`CREATE "Recovered Messages"`)
	cmd(`CREATE "Recovered Messages/x"`)
	cmd(`CREATE "recovered messages2"`)
	cmd(`RENAME "Recovered Messages" foo`)
	cmd(`RENAME x "Recovered Messages"`)
	cmd(`DELETE "Recovered Messages"`)
	cmd(`SELECT x`)
	cmd(`COPY 1 "Recovered Messages"`)
	cmd(`MOVE 1 "Recovered Messages"`)
}
