(* C08 — The SQLite message index behaves like a plain relational model.
   Property theorems only; every proof is `exact <lemma>` (or a computation over the GENERATED fact tables of
   Gen/FactsSqlBind.v) and is followed by Print Assumptions.

   Model/RelDb.v gives every modelled operation of the db interface at two levels: `exec_spec` (the operation on
   the whole argument list over plain tables) and `exec_impl F` (the statement sequence of write_ops.go/read_ops.go:
   one statement per chunk, placeholders and bind arguments as the statement facts F say, the driver's
   first-k-arguments rule).  The theorems hold for EVERY fact table F that passes `facts_ok` — in particular for
   every positive chunk size — and every argument list (no bound on its length); `C08_facts_ok` then checks the
   table generated from the current source. *)
From Coq Require Import String Ascii.
From Coq Require Import List NArith Bool.
From Gluon Require Import Model.Chunks Model.SqlBindFacts Model.RelDb Model.RelDbFacts
  Proofs.ChunksProofs Proofs.RelDbProofs Gen.FactsSqlBind.
From Gluon Require Import Model.WrapTx Proofs.WrapTxProofs Gen.FactsWrapTx.
Import ListNotations.
Open Scope list_scope.
Open Scope N_scope.

(* Every operation: same error/success, same resulting tables (exact equality), same result; lists the interface
   does not order (MailboxFilterContains, GetMessagesFlags, MailboxTranslateRemoteIDs, the rows returned by
   AddMessagesToMailbox) are compared as sets. *)
Theorem C08_op_refines : forall F ci o d, facts_ok F = true ->
  result_equiv (exec_impl F ci o d) (exec_spec ci o d).
Proof. exact op_refines. Qed.
Print Assumptions C08_op_refines.

(* The bulk writes are equalities, for any list length and any chunk size carried by F. *)
Theorem C08_remove_messages_exact : forall F ci b ids d, facts_ok F = true ->
  exec_impl F ci (ORemoveMessages b ids) d = exec_spec ci (ORemoveMessages b ids) d.
Proof. exact remove_messages_refines. Qed.
Print Assumptions C08_remove_messages_exact.

Theorem C08_set_flags_exact : forall F ci ids fs d, facts_ok F = true ->
  exec_impl F ci (OSetFlags ids fs) d = exec_spec ci (OSetFlags ids fs) d.
Proof. exact set_flags_refines. Qed.
Print Assumptions C08_set_flags_exact.

Theorem C08_create_messages_exact : forall F ci rs d, facts_ok F = true ->
  exec_impl F ci (OCreateMessages rs) d = exec_spec ci (OCreateMessages rs) d.
Proof. exact create_messages_refines. Qed.
Print Assumptions C08_create_messages_exact.

(* Chunking is irrelevant: two fact tables that pass the check (e.g. with different chunk sizes) give the same
   behaviour. *)
Theorem C08_chunking_irrelevant : forall F1 F2 ci o d, facts_ok F1 = true -> facts_ok F2 = true ->
  result_equiv (exec_impl F1 ci o d) (exec_impl F2 ci o d).
Proof. exact chunking_irrelevant. Qed.
Print Assumptions C08_chunking_irrelevant.

(* The lemma family behind it: for every L > 0 and every list, the chunks concatenate to the list, and a
   statement that is a list homomorphism run chunk by chunk equals the statement on the whole list. *)
Theorem C08_concat_chunks : forall (A : Type) L (l : list A), (0 < L)%nat -> concat (chunks L l) = l.
Proof. exact (@concat_chunks). Qed.
Print Assumptions C08_concat_chunks.

Theorem C08_chunked_stmt_eq : forall (S A : Type) (g : list A -> S -> option S), stmt_hom g ->
  forall L l s, (0 < L)%nat -> foldM g (chunks L l) s = g l s.
Proof. exact (@chunked_stmt_eq). Qed.
Print Assumptions C08_chunked_stmt_eq.

(* utils.GenSQLIn(0) panics: no statement is built for an empty chunk; no statement exceeds the chunk size *)
Theorem C08_chunks_wellformed : forall (A : Type) L (l : list A), (0 < L)%nat ->
  Forall (fun c => c <> [] /\ (length c <= L)%nat) (chunks L l).
Proof. exact (@chunks_wellformed). Qed.
Print Assumptions C08_chunks_wellformed.

(* Any sequence of transactions: same final tables; per transaction same success/abort and same results. *)
Theorem C08_tx_refines : forall F ci t d, facts_ok F = true ->
  fst (run_tx (exec_impl F ci) t d) = fst (run_tx (exec_spec ci) t d) /\
  match snd (run_tx (exec_impl F ci) t d), snd (run_tx (exec_spec ci) t d) with
  | Some r1, Some r2 => Forall2 rval_equiv r1 r2
  | None, None => True
  | _, _ => False
  end.
Proof. exact tx_refines. Qed.
Print Assumptions C08_tx_refines.

Theorem C08_histories_refine : forall F ci ts d, facts_ok F = true ->
  run_txs (exec_impl F ci) ts d = run_txs (exec_spec ci) ts d.
Proof. exact txs_refine. Qed.
Print Assumptions C08_histories_refine.

(* A transaction that returns an error leaves no trace (functional transaction of client.go wrapTx: the work is
   done on a private copy that is dropped on error; that SQLite's ROLLBACK does the same is tied by the harness). *)
Theorem C08_aborted_tx_no_trace : forall ex t d, tx_abort t = true -> run_tx ex t d = (d, None).
Proof. exact aborted_tx_no_trace. Qed.
Print Assumptions C08_aborted_tx_no_trace.

Theorem C08_failed_tx_no_trace : forall ex t d, snd (run_tx ex t d) = None -> fst (run_tx ex t d) = d.
Proof. exact failed_tx_no_trace. Qed.
Print Assumptions C08_failed_tx_no_trace.

Theorem C08_failing_op_aborts_tx : forall ex ops1 o ops2 ab d d1 rs e,
  run_ops ex ops1 d [] = Some (d1, rs) -> ex o d1 = Fail e ->
  run_tx ex (mkTx (ops1 ++ o :: ops2) ab) d = (d, None).
Proof. exact failing_op_aborts_tx. Qed.
Print Assumptions C08_failing_op_aborts_tx.

(* ---- wrapTx at the level of the connection (Model/WrapTx.v): the error of the body is an arbitrary value ---- *)
(* source fact: in wrapTx the branch taken when the body returns an error reaches tx.Rollback() on every path (no return,
   goto, panic or exit before the first statement that calls it unconditionally) *)
Theorem C08_error_branch_rolls_back : rollback_on_every_path wraptx_error_branch = true.
Proof. vm_compute. reflexivity. Qed.
Print Assumptions C08_error_branch_rolls_back.

(* whatever error value the body returns (an ordinary error, context.Canceled of a derived context, a wrapper, ...) and
   whatever it wrote before: the connection is as before the transaction, same committed database, no open transaction,
   and the caller gets that error *)
Theorem C08_any_error_leaves_no_trace : forall (state err res : Type) (body : state -> state * (res + err)) (c : conn state) (e : err),
  open_tx c = None -> snd (body (committed c)) = inr e ->
  wrap_tx (fun _ => negb (rollback_on_every_path wraptx_error_branch)) body c = (c, inr e).
Proof. exact (fun state err res => wrap_tx_any_error state err res (rollback_on_every_path wraptx_error_branch) eq_refl). Qed.
Print Assumptions C08_any_error_leaves_no_trace.

(* and the next Read / Write finds no transaction left open *)
Theorem C08_client_usable_after_any_transaction : forall (state err res : Type) (body : state -> state * (res + err)) (c : conn state),
  usable (fst (wrap_tx (fun _ => negb (rollback_on_every_path wraptx_error_branch)) body c)) = true.
Proof. exact (fun state err res => wrap_tx_usable state err res (rollback_on_every_path wraptx_error_branch) eq_refl). Qed.
Print Assumptions C08_client_usable_after_any_transaction.

(* over the operations of the interface this is the functional transaction run_tx of the theorems above, for every
   error value that aborts it *)
Theorem C08_wraptx_is_functional_tx : forall (err : Type) ex (op_err : err) ops (abort : option err) d,
  let w := wrap_tx (fun _ => negb (rollback_on_every_path wraptx_error_branch)) (ops_body ex op_err ops abort) (mkConn d None) in
  let t := mkTx ops (match abort with Some _ => true | None => false end) in
  committed (fst w) = fst (run_tx ex t d) /\ open_tx (fst w) = None /\
  (match snd w with inl rs => Some rs | inr _ => None end) = snd (run_tx ex t d).
Proof. exact (fun err => wrap_tx_is_run_tx err (rollback_on_every_path wraptx_error_branch) eq_refl). Qed.
Print Assumptions C08_wraptx_is_functional_tx.

(* a branch that returns early for some error leaves the transaction open with its writes *)
Theorem C08_early_return_refuted :
  let body : nat -> nat * (unit + bool) := fun s => (S s, inr true) in
  let early : bool -> bool := fun e => e in
  wrap_tx early body (mkConn 0%nat None) = (mkConn 0%nat (Some 1%nat), inr true) /\
  usable (fst (wrap_tx early body (mkConn 0%nat None))) = false /\
  usable (fst (wrap_tx (fun _ => false) body (mkConn 0%nat None))) = true.
Proof. exact wrap_tx_early_return_refuted. Qed.
Print Assumptions C08_early_return_refuted.

(* ---- the facts of the current source (generated table; proved by computation) ---- *)
(* every statement of every chunk loop binds its arguments from the chunk and has as many placeholders as arguments,
   in the shape the model gives to it *)
Theorem C08_facts_ok : facts_ok stmt_facts = true.
Proof. vm_compute. reflexivity. Qed.
Print Assumptions C08_facts_ok.

Theorem C08_args_from_chunk_and_groups_match : forall f, In f stmt_facts ->
  sf_args_src f = FromChunk /\ groups_match f = true.
Proof.
  assert (H : forallb (fun f => src_is_chunk (sf_args_src f) && groups_match f) stmt_facts = true) by (vm_compute; reflexivity).
  intros f Hin. rewrite forallb_forall in H. specialize (H f Hin). apply andb_true_iff in H. destruct H as [H1 H2].
  split; [destruct (sf_args_src f); cbn in H1; try discriminate; reflexivity | exact H2].
Qed.
Print Assumptions C08_args_from_chunk_and_groups_match.

(* no chunk loop with a statement the model does not know *)
Theorem C08_all_bulk_statements_modelled : facts_all_known stmt_facts = true.
Proof. vm_compute. reflexivity. Qed.
Print Assumptions C08_all_bulk_statements_modelled.

(* every query text starts with an SQL verb and names a table (not a column constant) at the table position *)
Theorem C08_sql_wellformed : forallb sql_ok sql_facts = true.
Proof. vm_compute. reflexivity. Qed.
Print Assumptions C08_sql_wellformed.

(* ChunkLimit is positive and even (CreateMessages cuts a flat (id, flag, id, flag, ...) list with it), its half is positive *)
Theorem C08_chunk_limit : (0 <? chunk_limit) && N.even chunk_limit && (0 <? chunk_limit / 2) = true.
Proof. vm_compute. reflexivity. Qed.
Print Assumptions C08_chunk_limit.

(* no statement of a full chunk needs more bind variables than SQLite accepts (SQLITE_MAX_VARIABLE_NUMBER of the linked
   go-sqlite3, read from its amalgamation): e.g. CreateMessages binds 7 values per row, so ChunkLimit must stay <= 4680 *)
Theorem C08_statement_size_ok : vars_ok sqlite_max_variable_number stmt_facts = true.
Proof. vm_compute. reflexivity. Qed.
Print Assumptions C08_statement_size_ok.

(* the tracing wrappers (utils.ReadTracer / utils.WriteTracer, enabled by sqlite3.Trace()) hand every call on to the method
   of the same name with the same arguments: the interface behaves the same whichever wrapper is on *)
Theorem C08_tracer_delegates : forallb tracer_ok tracer_facts = true.
Proof. vm_compute. reflexivity. Qed.
Print Assumptions C08_tracer_delegates.

(* bind order: where the statement text names the column of a placeholder, the Go type of the argument bound to it is one the
   column takes (a remote id is not bound to a name column, an internal id not to a remote id column, ...) *)
Theorem C08_bind_order : forallb bind_ok bind_facts = true.
Proof. vm_compute. reflexivity. Qed.
Print Assumptions C08_bind_order.

(* AddDeletedSubscription for a name that is already recorded replaces the remote id of that entry: afterwards the name has
   exactly one entry, with the new id, and the table has not grown *)
Theorem C08_deleted_subscription_replaced : forall name r1 r2 d d1 d2,
  op_add_deleted_subscription name r1 d = Ok d1 RUnit -> op_add_deleted_subscription name r2 d1 = Ok d2 RUnit ->
  In (name, r2) (d_subs d2) /\ (forall r, In (name, r) (d_subs d2) -> r = r2) /\ length (d_subs d2) = length (d_subs d1).
Proof. exact deleted_subscription_replaced. Qed.
Print Assumptions C08_deleted_subscription_replaced.

(* flag removal compares case-insensitively *)
Theorem C08_remove_flag_nocase : remove_flag_nocase = true.
Proof. vm_compute. reflexivity. Qed.
Print Assumptions C08_remove_flag_nocase.

(* ---- the theorems are about the generated facts ---- *)
Theorem C08_current_source_refines : forall o d,
  result_equiv (exec_impl stmt_facts remove_flag_nocase o d) (exec_spec remove_flag_nocase o d).
Proof. exact (fun o d => op_refines stmt_facts remove_flag_nocase o d C08_facts_ok). Qed.
Print Assumptions C08_current_source_refines.

(* ---- non-vacuity and necessity of the hypothesis ---- *)
Definition with_chunk (n : N) (F : list stmt_fact) : list stmt_fact :=
  map (fun f => mkStmtFact (sf_op f) (sf_idx f) n (sf_chunk_text f) (sf_ph f) (sf_args f) (sf_args_src f) (sf_needs_even f)) F.

(* a chunk size of 2 passes the check as well: the theorems cover it *)
Example C08_facts_ok_chunk2 : facts_ok (with_chunk 2 stmt_facts) = true.
Proof. vm_compute. reflexivity. Qed.

(* the statement facts of the code BEFORE the repairs C08-fix-1 / C08-fix-2 (RemoveMessagesFromMailbox binds the whole
   list against len(chunk) placeholders; SetFlagsOnMessages has len(flags) groups for len(flags)*len(chunk) pairs) *)
Definition unrepaired (F : list stmt_fact) : list stmt_fact :=
  map (fun f =>
    if String.eqb (sf_op f) "RemoveMessagesFromMailbox" then
      mkStmtFact (sf_op f) (sf_idx f) (sf_chunk f) (sf_chunk_text f) (sf_ph f)
        (map (fun t => mkTerm (t_coef t) (map (fun v => match v with VChunk => VWhole | x => x end) (t_vars t))) (sf_args f))
        FromWhole (sf_needs_even f)
    else if String.eqb (sf_op f) "SetFlagsOnMessages" && Nat.eqb (sf_idx f) 2 then
      mkStmtFact (sf_op f) (sf_idx f) (sf_chunk f) (sf_chunk_text f) [mkTerm 2 [VOther "flagSlice"%string]] (sf_args f) FromChunk false
    else f) F.

Definition db3 : db :=
  mkDb [mkMbox 1 1 1 1 true] 1 [] [] [] [mkMsg 1 1 1 false; mkMsg 2 2 2 false; mkMsg 3 3 3 false] []
       [(1, 1); (2, 1); (3, 1)] [mkTab 1 3 [mkRow 1 1 1 false true; mkRow 2 2 2 false true; mkRow 3 3 3 false true]] [] None.

(* with those facts and chunk size 2 the model shows the defects: message 3 stays in the mailbox and the join table
   keeps all three rows; STORE FLAGS on three messages stores the flags of the first only *)
Example C08_unrepaired_refuted :
  facts_ok (unrepaired (with_chunk 2 stmt_facts)) = false /\
  (match exec_impl (unrepaired (with_chunk 2 stmt_facts)) true (ORemoveMessages 1 [1; 2; 3]) db3 with
   | Ok d _ => (map r_msg (flat_map t_rows (d_tabs d)), d_m2m d)
   | Fail _ => ([], []) end) = ([3], [(1, 1); (2, 1); (3, 1)]) /\
  (match exec_spec true (ORemoveMessages 1 [1; 2; 3]) db3 with
   | Ok d _ => (map r_msg (flat_map t_rows (d_tabs d)), d_m2m d)
   | Fail _ => ([0], []) end) = ([], []) /\
  (match exec_impl (unrepaired (with_chunk 4 stmt_facts)) true (OSetFlags [1; 2; 3] ["\Seen"%string; "x"%string]) db3 with
   | Ok d _ => map fst (d_flags d) | Fail _ => [] end) = [1; 1] /\
  (match exec_spec true (OSetFlags [1; 2; 3] ["\Seen"%string; "x"%string]) db3 with
   | Ok d _ => map fst (d_flags d) | Fail _ => [] end) = [1; 1; 2; 2; 3; 3].
Proof. vm_compute. repeat split; reflexivity. Qed.

(* an odd chunk size breaks CreateMessages (the flat argument list is cut between an id and its flag): the check
   demands an even one *)
Example C08_odd_chunk_rejected :
  facts_ok (with_chunk 3 stmt_facts) = false /\
  (match exec_impl (with_chunk 3 stmt_facts) true
           (OCreateMessages [mkReq 1 1 1 ["a"%string; "b"%string]; mkReq 2 2 2 ["c"%string]]) empty_db with
   | Ok _ _ => true | Fail _ => false end) = false /\
  (match exec_spec true (OCreateMessages [mkReq 1 1 1 ["a"%string; "b"%string]; mkReq 2 2 2 ["c"%string]]) empty_db with
   | Ok d _ => d_flags d | Fail _ => [] end) = [(1, "a"%string); (1, "b"%string); (2, "c"%string)].
Proof. vm_compute. repeat split; reflexivity. Qed.
