package main

// The server process of the C07 harness: a gluon server on a persistent directory with recording / fault-injecting
// wrappers around the message store and the database client, driven by the parent over stdin/stdout (JSON lines).
// The connector journals the remote messages it knows to <dir>/remote.journal so that a restarted child serves the
// same remote state.

import (
	"bufio"
	"context"
	"encoding/json"
	"fmt"
	"io"
	"net"
	"os"
	"path/filepath"
	"sort"
	"strings"
	"sync"
	"time"

	"github.com/ProtonMail/gluon"
	"github.com/ProtonMail/gluon/connector"
	"github.com/ProtonMail/gluon/db"
	"github.com/ProtonMail/gluon/imap"
	"github.com/ProtonMail/gluon/store"
	"github.com/sirupsen/logrus"

	"verifharness/common"
	"verifharness/hconn"
)

var fixedDate = time.Date(2024, 1, 1, 10, 0, 0, 0, time.UTC)

// literalOf: the literal that belongs to a marker. Markers ending in "BIG" get 600 KiB of pseudo-random printable text
// (does not compress below 256 KiB: the cache file has more than one sealed block).
func literalOf(marker string) []byte {
	if strings.HasSuffix(marker, "BIG") {
		var sb strings.Builder
		x := uint32(2463534242)
		for sb.Len() < 600*1024 {
			for i := 0; i < 72; i++ {
				x ^= x << 13
				x ^= x >> 17
				x ^= x << 5
				sb.WriteByte(byte(33 + x%90))
			}
			sb.WriteString("\r\n")
		}
		return common.Message(marker, sb.String())
	}
	return common.Message(marker, "body of "+marker)
}

// ---- connector with a journal ----
type jconn struct {
	*hconn.Conn
	mu   sync.Mutex
	path string
	// off: messages the connector accepts are NOT journalled (after a restart the connector cannot deliver them again)
	off bool
}

type jrec struct {
	ID   string `json:"id"`
	Lit  []byte `json:"lit"`
	Gone bool   `json:"gone,omitempty"` // the connector no longer has the message
}

func (j *jconn) journal(id string, lit []byte) {
	j.mu.Lock()
	defer j.mu.Unlock()
	f, err := os.OpenFile(j.path, os.O_APPEND|os.O_CREATE|os.O_WRONLY, 0o600)
	if err != nil {
		return
	}
	b, _ := json.Marshal(jrec{ID: id, Lit: lit})
	f.Write(append(b, '\n'))
	f.Close()
}

func (j *jconn) load() {
	f, err := os.Open(j.path)
	if err != nil {
		return
	}
	defer f.Close()
	sc := bufio.NewScanner(f)
	sc.Buffer(make([]byte, 1<<20), 1<<26)
	for sc.Scan() {
		var r jrec
		if json.Unmarshal(sc.Bytes(), &r) == nil {
			if r.Gone {
				delete(j.Conn.Messages, imap.MessageID(r.ID))
				continue
			}
			j.Conn.Messages[imap.MessageID(r.ID)] = &hconn.Msg{Literal: r.Lit, Flags: imap.NewFlagSet(), Mboxes: map[imap.MailboxID]bool{}}
		}
	}
}

func (j *jconn) CreateMessage(ctx context.Context, cache connector.IMAPStateWrite, mboxID imap.MailboxID, literal []byte, flags imap.FlagSet, date time.Time) (imap.Message, []byte, error) {
	m, l, err := j.Conn.CreateMessage(ctx, cache, mboxID, literal, flags, date)
	if err == nil && !j.off {
		j.journal(string(m.ID), literal)
	}
	return m, l, err
}

// ---- updates (same shape as in the C06 harness) ----
type mcItem struct {
	RID    string   `json:"rid"`
	Marker string   `json:"marker"`
	Flags  []string `json:"flags"`
	Mboxes []string `json:"mboxes"`
}

type upd struct {
	Kind    string   `json:"kind"`
	MboxRID string   `json:"mbox,omitempty"`
	Name    string   `json:"name,omitempty"`
	MsgRID  string   `json:"msg,omitempty"`
	Items   []mcItem `json:"items,omitempty"`
	Ignore  bool     `json:"ignore,omitempty"`
	Mboxes  []string `json:"mboxes,omitempty"`
	Flags   []string `json:"flags,omitempty"`
	Marker  string   `json:"marker,omitempty"`
	Allow   bool     `json:"allow,omitempty"`
}

func flagSet(fs []string) imap.FlagSet {
	r := imap.NewFlagSet()
	for _, f := range fs {
		r.AddToSelf(f)
	}
	return r
}

func mboxIDs(xs []string) []imap.MailboxID {
	r := make([]imap.MailboxID, len(xs))
	for i, x := range xs {
		r[i] = imap.MailboxID(x)
	}
	return r
}

func (u *upd) build(j *jconn) (imap.Update, error) {
	switch u.Kind {
	case "MailboxCreated":
		fl := imap.NewFlagSet(imap.FlagSeen, imap.FlagFlagged, imap.FlagDeleted)
		return imap.NewMailboxCreated(imap.Mailbox{ID: imap.MailboxID(u.MboxRID), Name: strings.Split(u.Name, "/"), Flags: fl, PermanentFlags: fl, Attributes: imap.NewFlagSet()}), nil
	case "MessagesCreated":
		var items []*imap.MessageCreated
		for _, it := range u.Items {
			lit := literalOf(it.Marker)
			pm, err := imap.NewParsedMessage(lit)
			if err != nil {
				return nil, err
			}
			j.journal(it.RID, lit)
			items = append(items, &imap.MessageCreated{Message: imap.Message{ID: imap.MessageID(it.RID), Flags: flagSet(it.Flags), Date: fixedDate}, Literal: lit, MailboxIDs: mboxIDs(it.Mboxes), ParsedMessage: pm})
		}
		return imap.NewMessagesCreated(u.Ignore, items...), nil
	case "MessageUpdated":
		lit := literalOf(u.Marker)
		pm, err := imap.NewParsedMessage(lit)
		if err != nil {
			return nil, err
		}
		j.journal(u.MsgRID, lit)
		return imap.NewMessageUpdated(imap.Message{ID: imap.MessageID(u.MsgRID), Flags: flagSet(u.Flags), Date: fixedDate}, lit, mboxIDs(u.Mboxes), pm, u.Allow), nil
	case "MessageDeleted":
		return imap.NewMessagesDeleted(imap.MessageID(u.MsgRID)), nil
	case "Noop":
		return imap.NewNoop(), nil
	}
	return nil, fmt.Errorf("unknown kind %s", u.Kind)
}

// ---- database snapshot ----
type snapMb struct {
	IID  uint64 `json:"iid"`
	RID  string `json:"rid"`
	Name string `json:"name"`
	UIDV int    `json:"uidv"`
	Sub  bool   `json:"sub"`
	Next int    `json:"next"`
}

type snapRow struct {
	Mb  uint64 `json:"mb"`
	UID int    `json:"uid"`
	Msg string `json:"msg"`
}

type snapMsg struct {
	IID     string   `json:"iid"`
	RID     string   `json:"rid"`
	Deleted bool     `json:"del"`
	Flags   []string `json:"flags"`
}

type dbSnap struct {
	Mb   []snapMb  `json:"mb"`
	Rows []snapRow `json:"rows"`
	Ms   []snapMsg `json:"ms"`
}

func readSnap(cl db.Client) (*dbSnap, error) {
	s := &dbSnap{}
	err := cl.Read(context.Background(), func(ctx context.Context, r db.ReadOnly) error {
		mbs, err := r.GetAllMailboxesWithAttr(ctx)
		if err != nil {
			return err
		}
		for _, mb := range mbs {
			next, err := r.GetMailboxUID(ctx, mb.ID)
			if err != nil {
				return err
			}
			s.Mb = append(s.Mb, snapMb{IID: uint64(mb.ID), RID: string(mb.RemoteID), Name: mb.Name, UIDV: int(mb.UIDValidity), Sub: mb.Subscribed, Next: int(next)})
			rows, err := r.GetMailboxMessageForNewSnapshot(ctx, mb.ID)
			if err != nil {
				return err
			}
			for _, row := range rows {
				s.Rows = append(s.Rows, snapRow{Mb: uint64(mb.ID), UID: int(row.UID), Msg: row.InternalID.String()})
			}
		}
		idm, err := r.GetAllMessagesIDsAsMap(ctx)
		if err != nil {
			return err
		}
		for id := range idm {
			rid, err := r.GetMessageRemoteID(ctx, id)
			if err != nil {
				return err
			}
			del, err := r.GetMessageDeletedFlag(ctx, id)
			if err != nil {
				return err
			}
			fl, err := r.GetMessagesFlags(ctx, []imap.InternalMessageID{id})
			if err != nil {
				return err
			}
			var flags []string
			if len(fl) == 1 {
				flags = fl[0].FlagSet.ToSlice()
			}
			s.Ms = append(s.Ms, snapMsg{IID: id.String(), RID: string(rid), Deleted: del, Flags: flags})
		}
		return nil
	})
	sort.Slice(s.Ms, func(i, j int) bool { return s.Ms[i].IID < s.Ms[j].IID })
	return s, err
}

// ---- protocol ----
type req struct {
	Op     string `json:"op"`
	Name   string `json:"name,omitempty"`
	K      int    `json:"k,omitempty"`
	Cut    int    `json:"cut,omitempty"`
	Mode   string `json:"mode,omitempty"`
	Update *upd   `json:"update,omitempty"`
}

type resp struct {
	OK     bool    `json:"ok"`
	Err    string  `json:"err,omitempty"`
	Addr   string  `json:"addr,omitempty"`
	Ack    string  `json:"ack,omitempty"`
	Seen   int     `json:"seen,omitempty"`
	Total  int     `json:"total,omitempty"`
	Open   int     `json:"open,omitempty"`
	Fired  bool    `json:"fired,omitempty"`
	Events []event `json:"events,omitempty"`
	Snap   *dbSnap `json:"snap,omitempty"`
	Calls  []hconn.Call `json:"calls,omitempty"`
}

func childMain() {
	logrus.SetOutput(io.Discard)
	logrus.SetLevel(logrus.PanicLevel)
	dir := os.Getenv("VERIF_C07_DIR")
	out := json.NewEncoder(os.Stdout)
	fail := func(err error) {
		out.Encode(resp{Err: err.Error()})
		os.Exit(4)
	}
	rec := &recorder{}
	if a := os.Getenv("VERIF_C07_ARM_START"); a != "" {
		var k int
		var mode string
		fmt.Sscanf(a, "%d:%s", &k, &mode)
		rec.armed, rec.left, rec.mode = true, k, mode
	}
	if os.Getenv("VERIF_C07_TRACE_START") != "" {
		rec.tracing = true
	}
	dbi := &dbIface{inner: gluon.VerifSQLiteClientInterface(), rec: rec}
	g, err := gluon.New(
		gluon.WithDataDir(filepath.Join(dir, "store")),
		gluon.WithDatabaseDir(filepath.Join(dir, "db")),
		gluon.WithDelimiter("/"),
		gluon.WithLoginJailTime(0),
		gluon.WithIdleBulkTime(0),
		gluon.WithDBClient(dbi),
		gluon.WithStoreBuilder(&storeBuilder{inner: &store.OnDiskStoreBuilder{}, rec: rec}),
	)
	if err != nil {
		fail(err)
	}
	hc := hconn.New([]string{"user"}, "pass")
	hc.IDPrefix = os.Getenv("VERIF_C07_PREFIX")
	jc := &jconn{Conn: hc, path: filepath.Join(dir, "remote.journal")}
	jc.load()
	ctx := context.Background()
	if _, err := g.LoadUser(ctx, jc, "user-0", []byte("pass")); err != nil {
		fail(fmt.Errorf("LoadUser: %w", err))
	}
	startSeen, startFired := rec.seen, rec.fired
	rec.mu.Lock()
	rec.armed = false
	rec.mu.Unlock()
	if err := hc.Sync(30 * time.Second); err != nil {
		fail(fmt.Errorf("sync: %w", err))
	}
	l, err := net.Listen("tcp", "127.0.0.1:0")
	if err != nil {
		fail(err)
	}
	if err := g.Serve(ctx, l); err != nil {
		fail(err)
	}
	out.Encode(resp{OK: true, Addr: l.Addr().String(), Seen: startSeen, Fired: startFired})

	in := bufio.NewScanner(os.Stdin)
	in.Buffer(make([]byte, 1<<20), 1<<26)
	for in.Scan() {
		var q req
		if err := json.Unmarshal(in.Bytes(), &q); err != nil {
			out.Encode(resp{Err: err.Error()})
			continue
		}
		switch q.Op {
		case "arm":
			rec.mu.Lock()
			rec.armed, rec.left, rec.mode, rec.fired, rec.seen, rec.cut = true, q.K, q.Mode, false, 0, q.Cut
			rec.mu.Unlock()
			out.Encode(resp{OK: true})
		case "disarm":
			rec.mu.Lock()
			r := resp{OK: true, Seen: rec.seen, Fired: rec.fired}
			rec.armed = false
			rec.mu.Unlock()
			out.Encode(r)
		case "seen":
			rec.mu.Lock()
			r := resp{OK: true, Seen: rec.seen, Fired: rec.fired, Total: rec.total, Open: rec.open}
			rec.mu.Unlock()
			out.Encode(r)
		case "trace_start":
			rec.mu.Lock()
			rec.tracing, rec.events = true, nil
			rec.mu.Unlock()
			out.Encode(resp{OK: true})
		case "trace_take":
			rec.mu.Lock()
			ev := rec.events
			rec.events, rec.tracing = nil, false
			rec.mu.Unlock()
			out.Encode(resp{OK: true, Events: ev})
		case "push":
			u, err := q.Update.build(jc)
			if err != nil {
				out.Encode(resp{Err: err.Error()})
				continue
			}
			e, acked := hc.Push(u, 60*time.Second)
			r := resp{OK: true, Ack: "ok"}
			if !acked {
				r.Ack = "none"
			} else if e != nil {
				r.Ack, r.Err = "err", e.Error()
			}
			out.Encode(r)
		case "snap":
			s, err := readSnap(dbi.last.inner)
			if err != nil {
				out.Encode(resp{Err: err.Error()})
				continue
			}
			out.Encode(resp{OK: true, Snap: s})
		case "forget":
			// the connector loses a message: it cannot deliver it any more, now and after a restart
			jc.mu.Lock()
			if f, err := os.OpenFile(jc.path, os.O_APPEND|os.O_CREATE|os.O_WRONLY, 0o600); err == nil {
				b, _ := json.Marshal(jrec{ID: q.Name, Gone: true})
				f.Write(append(b, '\n'))
				f.Close()
			}
			jc.mu.Unlock()
			delete(hc.Messages, imap.MessageID(q.Name))
			out.Encode(resp{OK: true})
		case "journal":
			jc.off = q.Mode == "off"
			out.Encode(resp{OK: true})
		case "failnext":
			hc.SetFailNext(q.Name, fmt.Errorf("verif: connector refuses %s", q.Name))
			out.Encode(resp{OK: true})
		case "calls":
			out.Encode(resp{OK: true, Calls: hc.TakeCalls()})
		case "quit":
			c2, cancel := context.WithTimeout(ctx, 30*time.Second)
			e1 := g.RemoveUser(c2, "user-0", false)
			e2 := g.Close(c2)
			cancel()
			l.Close()
			r := resp{OK: true}
			if e1 != nil || e2 != nil {
				r.Err = fmt.Sprint(e1, e2)
			}
			out.Encode(r)
			os.Exit(0)
		default:
			out.Encode(resp{Err: "unknown op " + q.Op})
		}
	}
	os.Exit(0)
}
