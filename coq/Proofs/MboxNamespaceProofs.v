(* C14 — the namespace: well-formedness (names unique, ids unique, outlived subscriptions disjoint from the
   mailboxes) is kept by every operation; INBOX and recovery mailbox rules. *)
From Coq Require Import List NArith Bool Lia PeanoNat Arith.
From Gluon Require Import Model.MboxNames Model.WildcardSpec Model.MboxNamespace Model.MboxMatch.
From Gluon Require Import Proofs.MboxNamesProofs Proofs.MboxListProofs.
Import ListNotations.
Open Scope N_scope.

(* ---------- lookups ---------- *)
Lemma db_exists_In : forall rows n, db_exists rows n = true <-> In n (names_of rows).
Proof.
  intros rows n. unfold db_exists, names_of. rewrite existsb_exists, in_map_iff. split.
  - intros [r [H1 H2]]. apply name_eqb_eq in H2. exists r. auto.
  - intros [r [H1 H2]]. exists r. split; auto. apply name_eqb_eq. auto.
Qed.

Lemma db_exists_false : forall rows n, db_exists rows n = false <-> ~ In n (names_of rows).
Proof.
  intros rows n. split; intro H.
  - intro X. apply db_exists_In in X. rewrite X in H. discriminate.
  - destruct (db_exists rows n) eqn:E; auto. apply db_exists_In in E. exfalso; auto.
Qed.

Lemma db_by_name_some : forall rows n r, db_by_name rows n = Some r -> In r rows /\ m_name r = n.
Proof.
  intros rows n r H. unfold db_by_name in H. apply find_some in H. destruct H as [H1 H2].
  apply name_eqb_eq in H2. auto.
Qed.

Lemma db_by_name_none : forall rows n, db_by_name rows n = None -> ~ In n (names_of rows).
Proof.
  intros rows n H X. unfold names_of in X. apply in_map_iff in X. destruct X as [r [R1 R2]].
  assert (Y := find_none _ _ H r R2). simpl in Y. rewrite R1, name_eqb_refl in Y. discriminate.
Qed.

Lemma db_by_id_some : forall rows i r, db_by_id rows i = Some r -> In r rows /\ m_id r = i.
Proof.
  intros rows i r H. unfold db_by_id in H. apply find_some in H. destruct H as [H1 H2].
  apply N.eqb_eq in H2. auto.
Qed.

Lemma db_by_id_none : forall rows i, db_by_id rows i = None -> ~ In i (ids_of rows).
Proof.
  intros rows i H X. unfold ids_of in X. apply in_map_iff in X. destruct X as [r [R1 R2]].
  assert (Y := find_none _ _ H r R2). simpl in Y. rewrite R1, N.eqb_refl in Y. discriminate.
Qed.

Lemma nodup_map_inj : forall (A B : Type) (f : A -> B) (l : list A) a b,
  NoDup (map f l) -> In a l -> In b l -> f a = f b -> a = b.
Proof.
  induction l as [|x l IH]; intros a b N Ia Ib E; [destruct Ia|].
  simpl in N. inversion N as [|? ? N1 N2]; subst.
  destruct Ia as [Ia|Ia]; destruct Ib as [Ib|Ib]; subst; auto.
  - exfalso. apply N1. rewrite E. apply in_map. auto.
  - exfalso. apply N1. rewrite <- E. apply in_map. auto.
Qed.

Lemma remove_name_In : forall n l x, In x (remove_name n l) <-> In x l /\ x <> n.
Proof.
  intros n l x. unfold remove_name. rewrite filter_In. split; intros [H1 H2]; split; auto.
  - apply negb_true_iff in H2. apply name_eqb_neq in H2. auto.
  - apply negb_true_iff. apply name_eqb_neq. auto.
Qed.

Lemma remove_name_NoDup : forall n l, NoDup l -> NoDup (remove_name n l).
Proof. intros n l H. unfold remove_name. apply NoDup_filter. auto. Qed.

Lemma names_of_app : forall a b, names_of (a ++ b) = names_of a ++ names_of b.
Proof. intros. unfold names_of. apply map_app. Qed.
Lemma ids_of_app : forall a b, ids_of (a ++ b) = ids_of a ++ ids_of b.
Proof. intros. unfold ids_of. apply map_app. Qed.

(* ---------- the write operations keep the state well-formed ---------- *)
Lemma wf_create : forall st n st', ns_wf st -> db_create st n = Some st' -> ns_wf st'.
Proof.
  intros st n st' [W1 [W2 [W3 [W4 W5]]]] H. unfold db_create in H.
  destruct (db_exists (st_rows st) n) eqn:E; [discriminate|]. injection H as H. subst st'.
  apply db_exists_false in E. unfold ns_wf. cbn [st_rows st_dsubs st_next].
  rewrite names_of_app, ids_of_app. cbn [names_of ids_of map m_name m_id].
  split; [apply NoDup_app_single; auto|].
  split; [apply NoDup_app_single; auto; intro X; apply in_map_iff in X; destruct X as [r [R1 R2]];
          specialize (W3 r R2); lia|].
  split; [intros r R; apply in_app_iff in R; destruct R as [R|[R|[]]]; [specialize (W3 r R); lia | subst r; cbn [m_id]; lia]|].
  split; [|apply remove_name_NoDup; auto].
  intros x X. apply remove_name_In in X. destruct X as [X1 X2]. rewrite in_app_iff. intros [Y|[Y|[]]].
  - apply (W4 x X1 Y).
  - auto.
Qed.

Lemma ids_set_name : forall i n rows, ids_of (map (set_name i n) rows) = ids_of rows.
Proof.
  intros i n rows. unfold ids_of. rewrite map_map. apply map_ext. intro r. unfold set_name.
  destruct (m_id r =? i); reflexivity.
Qed.

Lemma nodup_set_name : forall i n rows, NoDup (names_of rows) -> NoDup (ids_of rows) ->
  (forall r, In r rows -> m_name r = n -> m_id r = i) -> NoDup (names_of (map (set_name i n) rows)).
Proof.
  induction rows as [|r t IH]; intros Nn Ni H; simpl; [constructor|].
  simpl in Nn, Ni. inversion Nn as [|? ? Nn1 Nn2]; inversion Ni as [|? ? Ni1 Ni2]; subst.
  constructor.
  - intro X. unfold names_of in X. rewrite map_map in X. apply in_map_iff in X. destruct X as [r2 [E R2]].
    unfold set_name in E. destruct (m_id r =? i) eqn:A; destruct (m_id r2 =? i) eqn:B; cbn [m_name] in E.
    + apply N.eqb_eq in A. apply N.eqb_eq in B. apply Ni1. rewrite A, <- B. apply in_map. auto.
    + apply N.eqb_neq in B. apply B. apply (H r2); auto. right. auto.
    + apply N.eqb_neq in A. apply A. apply (H r); auto. left. auto.
    + apply Nn1. rewrite <- E. apply in_map. auto.
  - apply IH; auto. intros r2 R2. apply H. right. auto.
Qed.

Lemma names_set_name_In : forall i n rows x, In x (names_of (map (set_name i n) rows)) -> x = n \/ In x (names_of rows).
Proof.
  intros i n rows x X. unfold names_of in *. rewrite map_map in X. apply in_map_iff in X.
  destruct X as [r [E R]]. unfold set_name in E. destruct (m_id r =? i); cbn [m_name] in E; auto.
  right. rewrite <- E. apply in_map. auto.
Qed.

Lemma wf_rename : forall st i n st', ns_wf st -> db_rename st i n = Some st' -> ns_wf st'.
Proof.
  intros st i n st' [W1 [W2 [W3 [W4 W5]]]] H. unfold db_rename in H.
  destruct (db_by_id (st_rows st) i) as [r0|] eqn:B; [|discriminate].
  destruct (existsb (fun r => name_eqb (m_name r) n && negb (m_id r =? i)) (st_rows st)) eqn:E; [discriminate|].
  injection H as H. subst st'. unfold ns_wf. cbn [st_rows st_dsubs st_next].
  assert (U : forall r, In r (st_rows st) -> m_name r = n -> m_id r = i).
  { intros r R Nm. destruct (m_id r =? i) eqn:A; [apply N.eqb_eq; auto|]. exfalso.
    assert (X : existsb (fun r => name_eqb (m_name r) n && negb (m_id r =? i)) (st_rows st) = true).
    { apply existsb_exists. exists r. split; auto. rewrite Nm, name_eqb_refl, A. auto. }
    rewrite X in E. discriminate. }
  split; [apply nodup_set_name; auto|].
  split; [rewrite ids_set_name; auto|].
  split.
  { intros r R. apply in_map_iff in R. destruct R as [r1 [E1 R1]]. specialize (W3 r1 R1).
    unfold set_name in E1. destruct (m_id r1 =? i); subst r; cbn [m_id]; auto. }
  split; [|apply remove_name_NoDup; auto].
  intros x X Y. apply remove_name_In in X. destruct X as [X1 X2].
  apply names_set_name_In in Y. destruct Y as [Y|Y]; auto. apply (W4 x X1 Y).
Qed.

Lemma add_dsub_In : forall n l x, In x (add_dsub n l) <-> In x l \/ x = n.
Proof.
  intros n l x. unfold add_dsub. destruct (mb_contains l n) eqn:C.
  - apply mb_contains_In in C. split; auto. intros [H|H]; subst; auto.
  - rewrite in_app_iff. simpl. split; intros [H|H]; auto. destruct H as [H|[]]; auto.
Qed.

Lemma add_dsub_NoDup : forall n l, NoDup l -> NoDup (add_dsub n l).
Proof.
  intros n l H. unfold add_dsub. destruct (mb_contains l n) eqn:C; auto.
  apply NoDup_app_single; auto. apply mb_contains_false. auto.
Qed.

Lemma wf_delete : forall st i, ns_wf st -> ns_wf (db_delete st i).
Proof.
  intros st i W. assert (W' := W). destruct W' as [W1 [W2 [W3 [W4 W5]]]]. unfold db_delete.
  destruct (db_by_id (st_rows st) i) as [r|] eqn:B; auto.
  apply db_by_id_some in B. destruct B as [B1 B2].
  unfold ns_wf. cbn [st_rows st_dsubs st_next].
  assert (Sub : forall x, In x (names_of (filter (fun x => negb (m_id x =? i)) (st_rows st))) -> In x (names_of (st_rows st))).
  { intros x X. unfold names_of in *. apply in_map_iff in X. destruct X as [r1 [E R1]]. apply filter_In in R1.
    rewrite <- E. apply in_map. tauto. }
  split; [apply NoDup_map_filter; auto|].
  split; [apply NoDup_map_filter; auto|].
  split; [intros r1 R1; apply filter_In in R1; apply W3; tauto|].
  assert (Gone : ~ In (m_name r) (names_of (filter (fun x => negb (m_id x =? i)) (st_rows st)))).
  { intro X. unfold names_of in X. apply in_map_iff in X. destruct X as [r1 [E R1]]. apply filter_In in R1.
    destruct R1 as [R1 R2]. assert (r1 = r) by (apply (nodup_map_inj _ _ m_name (st_rows st)); auto).
    subst r1. rewrite B2, N.eqb_refl in R2. discriminate. }
  destruct (m_sub r).
  - split; [|apply add_dsub_NoDup; auto].
    intros x X. apply add_dsub_In in X. destruct X as [X|X].
    + intro Y. apply (W4 x X). auto.
    + subst x. auto.
  - split; auto. intros x X Y. apply (W4 x X). auto.
Qed.

Lemma wf_set_sub : forall st i b, ns_wf st -> ns_wf (db_set_sub st i b).
Proof.
  intros st i b [W1 [W2 [W3 [W4 W5]]]]. unfold db_set_sub, ns_wf. cbn [st_rows st_dsubs st_next].
  assert (Nm : names_of (map (set_sub i b) (st_rows st)) = names_of (st_rows st)).
  { unfold names_of. rewrite map_map. apply map_ext. intro r. unfold set_sub. destruct (m_id r =? i); reflexivity. }
  assert (Id : ids_of (map (set_sub i b) (st_rows st)) = ids_of (st_rows st)).
  { unfold ids_of. rewrite map_map. apply map_ext. intro r. unfold set_sub. destruct (m_id r =? i); reflexivity. }
  rewrite Nm, Id. repeat split; auto.
  intros r R. apply in_map_iff in R. destruct R as [r1 [E R1]]. specialize (W3 r1 R1).
  unfold set_sub in E. destruct (m_id r1 =? i); subst r; cbn [m_id]; auto.
Qed.

Lemma wf_drop_dsub : forall st n, ns_wf st -> ns_wf (mkSt (st_rows st) (remove_name n (st_dsubs st)) (st_next st)).
Proof.
  intros st n [W1 [W2 [W3 [W4 W5]]]]. unfold ns_wf. cbn [st_rows st_dsubs st_next]. repeat split; auto.
  - intros x X. apply remove_name_In in X. apply W4. tauto.
  - apply remove_name_NoDup. auto.
Qed.

Lemma wf_create_all : forall ns st st', ns_wf st -> create_all st ns = Some st' -> ns_wf st'.
Proof.
  unfold create_all. induction ns as [|n ns IH]; intros st st' W H; simpl in H.
  - injection H as H. subst. auto.
  - destruct (db_create st n) as [s1|] eqn:C.
    + apply (IH s1 st'); auto. apply (wf_create st n); auto.
    + exfalso. clear -H. induction ns as [|x ns IH]; simpl in H; [discriminate | auto].
Qed.

Lemma fold_none : forall (A B : Type) (f : B -> A -> option B) (l : list A),
  fold_left (fun acc x => match acc with None => None | Some s => f s x end) l None = None.
Proof. induction l; simpl; auto. Qed.

Lemma wf_move_inferiors : forall o n infs st st', ns_wf st -> move_inferiors o n infs st = Some st' -> ns_wf st'.
Proof.
  unfold move_inferiors. induction infs as [|x infs IH]; intros st st' W H; simpl in H.
  - injection H as H. subst. auto.
  - destruct (db_by_name (st_rows st) x) as [r|] eqn:B.
    + destruct (db_rename st (m_id r) (n ++ trim_prefix o x)) as [s1|] eqn:R.
      * apply (IH s1 st'); auto. apply (wf_rename st (m_id r) (n ++ trim_prefix o x)); auto.
      * rewrite fold_none in H. discriminate.
    + rewrite fold_none in H. discriminate.
Qed.

Lemma wf_init : ns_wf ns_init.
Proof.
  unfold ns_wf, ns_init. cbn [st_rows st_dsubs st_next names_of ids_of map m_name m_id].
  split; [repeat constructor; simpl; intuition discriminate|].
  split; [repeat constructor; simpl; intuition discriminate|].
  split; [intros r [R|[R|[]]]; subst r; cbn [m_id]; unfold INBOX_ID, REC_ID; lia|].
  split; [intros x []|constructor].
Qed.

Lemma wf_step : forall d st op, ns_wf st -> ns_wf (fst (impl_step d st op)).
Proof.
  intros d st op W. destruct op; cbn [impl_step].
  - (* CREATE *) unfold impl_create.
    repeat match goal with |- context [if ?c then _ else _] => destruct c; auto end;
    match goal with |- context [create_all ?s ?l] => destruct (create_all s l) eqn:C end; auto;
    cbn [fst]; apply (wf_create_all _ _ _ W C).
  - (* DELETE *) unfold impl_delete.
    repeat match goal with |- context [if ?c then _ else _] => destruct c; auto end.
    destruct (db_by_name (st_rows st) (canon_first d n)); auto. cbn [fst]. apply wf_delete. auto.
  - (* RENAME *) unfold impl_rename.
    destruct (mb_eqfold (canon_first d o) RECOVERY); auto.
    destruct (bad_new_name d (canon_first d n)); auto.
    destruct (db_by_name (st_rows st) (canon_first d o)) as [mb|]; auto.
    destruct (db_exists (st_rows st) (trim_suffix d (canon_first d n))); auto.
    match goal with |- context [if existsb ?f ?l then _ else _] => destruct (existsb f l); auto end.
    match goal with |- context [create_all ?s ?l] => destruct (create_all s l) as [st1|] eqn:C end; auto.
    assert (W1 := wf_create_all _ _ _ W C).
    destruct (name_eqb (canon_first d o) INBOX).
    + match goal with |- context [db_create ?s ?l] => destruct (db_create s l) as [st2|] eqn:C2 end; auto.
      cbn [fst]. apply (wf_create _ _ _ W1 C2).
    + match goal with |- context [db_rename ?s ?i ?l] => destruct (db_rename s i l) as [st2|] eqn:C2 end; auto.
      assert (W2 := wf_rename _ _ _ _ W1 C2).
      match goal with |- context [move_inferiors ?a ?b ?c ?e] => destruct (move_inferiors a b c e) as [st3|] eqn:C3 end; auto.
      cbn [fst]. apply (wf_move_inferiors _ _ _ _ _ W2 C3).
  - (* SUBSCRIBE *) unfold impl_subscribe.
    destruct (db_by_name (st_rows st) (canon_first d n)) as [r|]; auto.
    destruct (m_sub r); auto. cbn [fst]. apply wf_set_sub. auto.
  - (* UNSUBSCRIBE *) unfold impl_unsubscribe.
    destruct (db_by_name (st_rows st) (canon_first d n)) as [r|].
    + destruct (m_sub r); auto. cbn [fst]. apply wf_set_sub. auto.
    + destruct (mb_contains (st_dsubs st) (canon_first d n)); auto. cbn [fst]. apply wf_drop_dsub. auto.
  - (* connector: created *) unfold impl_conn_create. destruct oid as [i|].
    + destruct (i =? REC_ID); auto.
    + destruct (db_create st (conn_name d levels)) eqn:C; auto. cbn [fst]. apply (wf_create _ _ _ W C).
  - (* connector: deleted *) unfold impl_conn_delete. destruct (i =? REC_ID); auto.
    destruct (db_by_id (st_rows st) i) as [r|]; auto. cbn [fst].
    apply (wf_drop_dsub (db_delete st i)). apply wf_delete. auto.
  - (* connector: updated *) unfold impl_conn_rename. destruct (i =? REC_ID); auto.
    destruct (db_by_id (st_rows st) i) as [r|]; auto.
    destruct (name_eqb (m_name r) (conn_name d levels)); auto.
    destruct (db_rename st i (conn_name d levels)) eqn:C; auto. cbn [fst]. apply (wf_rename _ _ _ _ W C).
Qed.

Lemma wf_run : forall d ops st, ns_wf st -> ns_wf (fst (impl_run d st ops)).
Proof.
  induction ops as [|op ops IH]; intros st W; simpl; auto.
  assert (W1 := wf_step d st op W). destruct (impl_step d st op) as [st1 r]. cbn [fst] in W1.
  specialize (IH st1 W1). destruct (impl_run d st1 ops) as [st2 rs]. auto.
Qed.

(* names are unique after every history *)
Lemma names_unique : forall d ops, NoDup (names_of (st_rows (fst (impl_run d ns_init ops)))).
Proof. intros d ops. destruct (wf_run d ops ns_init wf_init) as [W _]. auto. Qed.

Lemma run_wf : forall d ops, ns_wf (fst (impl_run d ns_init ops)).
Proof. intros d ops. apply wf_run. apply wf_init. Qed.

(* ---------- INBOX is case-insensitive: a command acts on the canonical name ---------- *)
Definition op_canon (d : N) (op : nop) : nop :=
  match op with
  | OCreate n => OCreate (canon_first d n)
  | ODelete n => ODelete (canon_first d n)
  | ORename o n => ORename (canon_first d o) (canon_first d n)
  | OSub n => OSub (canon_first d n)
  | OUnsub n => OUnsub (canon_first d n)
  | op => op
  end.

Lemma step_canon : forall d st op, delim_ok d -> impl_step d st (op_canon d op) = impl_step d st op.
Proof.
  intros d st op D. destruct op; cbn [op_canon impl_step]; auto.
  - unfold impl_create. rewrite canon_first_idem; auto.
  - unfold impl_delete. rewrite canon_first_idem; auto.
  - unfold impl_rename. rewrite !canon_first_idem; auto.
  - unfold impl_subscribe. rewrite canon_first_idem; auto.
  - unfold impl_unsubscribe. rewrite canon_first_idem; auto.
Qed.

(* ---------- a mailbox that no command may remove or rename ---------- *)
Definition row_kept (k : N) (nm : name) (st : nstate) : Prop :=
  exists r, In r (st_rows st) /\ m_id r = k /\ m_name r = nm.

Lemma kept_create : forall k nm st x st', row_kept k nm st -> db_create st x = Some st' -> row_kept k nm st'.
Proof.
  intros k nm st x st' [r [R1 [R2 R3]]] H. unfold db_create in H.
  destruct (db_exists (st_rows st) x); [discriminate|]. injection H as H. subst st'.
  exists r. cbn [st_rows]. rewrite in_app_iff. auto.
Qed.

Lemma kept_create_all : forall k nm ns st st', row_kept k nm st -> create_all st ns = Some st' -> row_kept k nm st'.
Proof.
  unfold create_all. induction ns as [|n ns IH]; intros st st' K H; simpl in H.
  - injection H as H. subst. auto.
  - destruct (db_create st n) as [s1|] eqn:C.
    + apply (IH s1 st'); auto. apply (kept_create k nm st n); auto.
    + rewrite fold_none in H. discriminate.
Qed.

Lemma kept_rename : forall k nm st i x st', row_kept k nm st -> i <> k -> db_rename st i x = Some st' -> row_kept k nm st'.
Proof.
  intros k nm st i x st' [r [R1 [R2 R3]]] Ne H. unfold db_rename in H.
  destruct (db_by_id (st_rows st) i); [|discriminate].
  destruct (existsb _ (st_rows st)); [discriminate|]. injection H as H. subst st'.
  exists r. cbn [st_rows]. split; auto. apply in_map_iff. exists r. split; auto.
  unfold set_name. assert (X : (m_id r =? i) = false) by (apply N.eqb_neq; rewrite R2; auto).
  rewrite X. auto.
Qed.

Lemma kept_delete : forall k nm st i, row_kept k nm st -> i <> k -> row_kept k nm (db_delete st i).
Proof.
  intros k nm st i [r [R1 [R2 R3]]] Ne. unfold db_delete.
  destruct (db_by_id (st_rows st) i); [|exists r; auto].
  exists r. cbn [st_rows]. split; auto. apply filter_In. split; auto.
  apply negb_true_iff. apply N.eqb_neq. rewrite R2. auto.
Qed.

Lemma kept_set_sub : forall k nm st i b, row_kept k nm st -> row_kept k nm (db_set_sub st i b).
Proof.
  intros k nm st i b [r [R1 [R2 R3]]]. unfold db_set_sub. cbn [st_rows].
  exists (set_sub i b r). split; [apply in_map; auto|].
  unfold set_sub. destruct (m_id r =? i); cbn [m_id m_name]; auto.
Qed.

Lemma by_name_other_id : forall k nm st x r, ns_wf st -> row_kept k nm st ->
  db_by_name (st_rows st) x = Some r -> x <> nm -> m_id r <> k.
Proof.
  intros k nm st x r [W1 [W2 _]] [r0 [R1 [R2 R3]]] B Ne E.
  apply db_by_name_some in B. destruct B as [B1 B2].
  assert (r = r0) by (apply (nodup_map_inj _ _ m_id (st_rows st)); auto; rewrite E, R2; auto).
  subst r0. apply Ne. rewrite <- B2, R3. auto.
Qed.

Lemma kept_move_inferiors : forall k nm o n infs st st', ns_wf st -> row_kept k nm st ->
  (forall x, In x infs -> x <> nm) -> move_inferiors o n infs st = Some st' -> row_kept k nm st'.
Proof.
  unfold move_inferiors. induction infs as [|x infs IH]; intros st st' W K Ne H; simpl in H.
  - injection H as H. subst. auto.
  - destruct (db_by_name (st_rows st) x) as [r|] eqn:B; [|rewrite fold_none in H; discriminate].
    destruct (db_rename st (m_id r) (n ++ trim_prefix o x)) as [s1|] eqn:R; [|rewrite fold_none in H; discriminate].
    apply (IH s1 st'); auto.
    + apply (wf_rename st (m_id r) (n ++ trim_prefix o x)); auto.
    + apply (kept_rename k nm st (m_id r) (n ++ trim_prefix o x)); auto.
      apply (by_name_other_id k nm st x r); auto. apply Ne. left. auto.
    + intros y Y. apply Ne. right. auto.
Qed.

(* membership in the sorted lists *)
Lemma lex_insert_In : forall x y l, In x (lex_insert y l) <-> x = y \/ In x l.
Proof.
  induction l as [|z l IH]; simpl.
  - split; intros [H|H]; auto.
  - destruct (lex_leb y z); simpl; [split; intros [H|H]; auto|].
    rewrite IH. split; intros H; tauto.
Qed.
Lemma lex_sort_In : forall x l, In x (lex_sort l) <-> In x l.
Proof.
  induction l as [|y l IH]; simpl; [tauto|]. unfold lex_sort in *. simpl. rewrite lex_insert_In, IH.
  split; intros [H|H]; auto.
Qed.
Lemma len_insert_In : forall x y l, In x (len_insert y l) <-> x = y \/ In x l.
Proof.
  induction l as [|z l IH]; simpl.
  - split; intros [H|H]; auto.
  - destruct (Nat.leb (length y) (length z)); simpl; [split; intros [H|H]; auto|].
    rewrite IH. split; intros H; tauto.
Qed.
Lemma len_sort_In : forall x l, In x (len_sort l) <-> In x l.
Proof.
  induction l as [|y l IH]; simpl; [tauto|]. unfold len_sort in *. simpl. rewrite len_insert_In, IH.
  split; intros [H|H]; auto.
Qed.

Lemma rename_order_In : forall d o names x, In x (rename_order d o names) <-> In x names /\ is_superior d o x.
Proof.
  intros d o names x. unfold rename_order, list_inferiors.
  rewrite len_sort_In, <- in_rev, lex_sort_In, filter_In, mb_contains_In, list_superiors_spec. tauto.
Qed.

Lemma superior_has_delim : forall d o x, is_superior d o x -> In d x.
Proof. intros d o x [r E]. subst. apply in_app_iff. right. left. auto. Qed.

Lemma eqfold_refl : forall a, mb_eqfold a a = true.
Proof. intro a. unfold mb_eqfold. apply name_eqb_refl. Qed.

(* the rules for INBOX (id 0, session commands) and the recovery mailbox (id 1, every operation) in one statement *)
Lemma step_keeps : forall d st op k nm, ns_wf st -> row_kept k nm st ->
  (nm = INBOX \/ nm = RECOVERY) -> ~ In d nm -> (is_session_op op = true \/ k = REC_ID) ->
  row_kept k nm (fst (impl_step d st op)).
Proof.
  intros d st op k nm W K P ND S. destruct op; cbn [impl_step].
  - (* CREATE *) unfold impl_create.
    repeat match goal with |- context [if ?c then _ else _] => destruct c; auto end;
    match goal with |- context [create_all ?s ?l] => destruct (create_all s l) eqn:C end; auto;
    cbn [fst]; apply (kept_create_all k nm _ _ _ K C).
  - (* DELETE *) unfold impl_delete.
    destruct (mb_eqfold (canon_first d n) INBOX) eqn:E1; auto.
    destruct (mb_eqfold (canon_first d n) RECOVERY) eqn:E2; auto.
    destruct (db_by_name (st_rows st) (canon_first d n)) as [r|] eqn:B; auto. cbn [fst].
    apply kept_delete; auto. apply (by_name_other_id k nm st (canon_first d n) r); auto.
    intro X. rewrite X in E1, E2. destruct P; subst nm; rewrite eqfold_refl in *; discriminate.
  - (* RENAME *) unfold impl_rename.
    destruct (mb_eqfold (canon_first d o) RECOVERY) eqn:E1; auto.
    destruct (bad_new_name d (canon_first d n)); auto.
    destruct (db_by_name (st_rows st) (canon_first d o)) as [mb|] eqn:B; auto.
    destruct (db_exists (st_rows st) (trim_suffix d (canon_first d n))); auto.
    match goal with |- context [if existsb ?f ?l then _ else _] => destruct (existsb f l); auto end.
    match goal with |- context [create_all ?s ?l] => destruct (create_all s l) as [st1|] eqn:C end; auto.
    assert (W1 := wf_create_all _ _ _ W C). assert (K1 := kept_create_all k nm _ _ _ K C).
    destruct (name_eqb (canon_first d o) INBOX) eqn:E2.
    + match goal with |- context [db_create ?s ?l] => destruct (db_create s l) as [st2|] eqn:C2 end; auto.
      cbn [fst]. apply (kept_create k nm _ _ _ K1 C2).
    + match goal with |- context [db_rename ?s ?i ?l] => destruct (db_rename s i l) as [st2|] eqn:C2 end; auto.
      assert (W2 := wf_rename _ _ _ _ W1 C2).
      assert (Ne : m_id mb <> k).
      { apply (by_name_other_id k nm st (canon_first d o) mb); auto.
        intro X. rewrite X in E1, E2. destruct P; subst nm; [rewrite name_eqb_refl in E2 | rewrite eqfold_refl in E1]; discriminate. }
      assert (K2 := kept_rename k nm _ _ _ _ K1 Ne C2).
      match goal with |- context [move_inferiors ?a ?b ?c ?e] => destruct (move_inferiors a b c e) as [st3|] eqn:C3 end; auto.
      cbn [fst]. apply (kept_move_inferiors k nm _ _ _ _ _ W2 K2) in C3; auto.
      intros x X Y. apply rename_order_In in X. destruct X as [_ X]. apply superior_has_delim in X. subst x. auto.
  - (* SUBSCRIBE *) unfold impl_subscribe.
    destruct (db_by_name (st_rows st) (canon_first d n)) as [r|]; auto.
    destruct (m_sub r); auto. cbn [fst]. apply kept_set_sub. auto.
  - (* UNSUBSCRIBE *) unfold impl_unsubscribe.
    destruct (db_by_name (st_rows st) (canon_first d n)) as [r|].
    + destruct (m_sub r); auto. cbn [fst]. apply kept_set_sub. auto.
    + destruct (mb_contains (st_dsubs st) (canon_first d n)); auto.
  - (* connector: created *) unfold impl_conn_create. destruct oid as [i|].
    + destruct (i =? REC_ID); auto.
    + destruct (db_create st (conn_name d levels)) eqn:C; auto. cbn [fst]. apply (kept_create k nm _ _ _ K C).
  - (* connector: deleted *) destruct S as [S|S]; [discriminate|]. subst k.
    unfold impl_conn_delete. destruct (i =? REC_ID) eqn:E; auto. apply N.eqb_neq in E.
    destruct (db_by_id (st_rows st) i) as [r|]; auto. cbn [fst].
    destruct (kept_delete REC_ID nm st i K E) as [r0 R0]. exists r0. auto.
  - (* connector: updated *) destruct S as [S|S]; [discriminate|]. subst k.
    unfold impl_conn_rename. destruct (i =? REC_ID) eqn:E; auto. apply N.eqb_neq in E.
    destruct (db_by_id (st_rows st) i) as [r|]; auto.
    destruct (name_eqb (m_name r) (conn_name d levels)); auto.
    destruct (db_rename st i (conn_name d levels)) eqn:C; auto. cbn [fst]. apply (kept_rename REC_ID nm _ _ _ _ K E C).
Qed.

Lemma run_keeps : forall d k nm ops st, ns_wf st -> row_kept k nm st ->
  (nm = INBOX \/ nm = RECOVERY) -> ~ In d nm -> (forallb is_session_op ops = true \/ k = REC_ID) ->
  row_kept k nm (fst (impl_run d st ops)).
Proof.
  induction ops as [|op ops IH]; intros st W K P ND S; simpl; auto.
  assert (S1 : is_session_op op = true \/ k = REC_ID).
  { destruct S as [S|S]; auto. simpl in S. apply andb_true_iff in S. tauto. }
  assert (S2 : forallb is_session_op ops = true \/ k = REC_ID).
  { destruct S as [S|S]; auto. simpl in S. apply andb_true_iff in S. tauto. }
  assert (W1 := wf_step d st op W). assert (K1 := step_keeps d st op k nm W K P ND S1).
  destruct (impl_step d st op) as [st1 r]. cbn [fst] in *.
  specialize (IH st1 W1 K1 P ND S2). destruct (impl_run d st1 ops) as [st2 rs]. auto.
Qed.

Lemma inbox_kept_init : row_kept INBOX_ID INBOX ns_init.
Proof. exists (mkRow INBOX_ID INBOX true). simpl. auto. Qed.
Lemma recovery_kept_init : row_kept REC_ID RECOVERY ns_init.
Proof. exists (mkRow REC_ID RECOVERY true). simpl. auto. Qed.

(* INBOX cannot be deleted or renamed away by any sequence of session commands *)
Lemma inbox_undeletable : forall d ops, ~ In d INBOX -> forallb is_session_op ops = true ->
  row_kept INBOX_ID INBOX (fst (impl_run d ns_init ops)).
Proof. intros d ops ND S. apply run_keeps; auto. apply wf_init. apply inbox_kept_init. Qed.

(* the recovery mailbox survives every history, session commands and connector updates alike *)
Lemma recovery_protected : forall d ops, ~ In d RECOVERY ->
  row_kept REC_ID RECOVERY (fst (impl_run d ns_init ops)).
Proof. intros d ops ND. apply run_keeps; auto. apply wf_init. apply recovery_kept_init. Qed.

(* ... and refuses the commands aimed at it *)
Lemma recovery_refuses : forall d st n x, mb_eqfold (canon_first d n) RECOVERY = true ->
  impl_step d st (ODelete n) = (st, RNo) /\ impl_step d st (ORename n x) = (st, RNo) /\
  impl_step d st (OCreate n) = (st, RNo) /\ impl_step d st (ORename x n) = (st, RNo).
Proof.
  intros d st n x E. assert (P : mb_recovery_prefixed (canon_first d n) = true).
  { unfold mb_recovery_prefixed. unfold mb_eqfold in E. apply name_eqb_eq in E.
    apply mb_prefixb_spec. exists []. rewrite app_nil_r.
    unfold RECOVERY_LOWER. 
    assert (L : forall a, map mb_lower a = map mb_lower (map mb_upper a)).
    { induction a as [|c a IH]; simpl; auto. rewrite <- IH. f_equal.
      unfold mb_lower, mb_upper.
      destruct ((97 <=? c) && (c <=? 122)) eqn:A.
      - apply andb_true_iff in A as [A1 A2]. apply N.leb_le in A1. apply N.leb_le in A2.
        assert (X1 : (65 <=? c) && (c <=? 90) = false).
        { apply andb_false_iff. right. apply N.leb_gt. lia. }
        assert (X2 : (65 <=? c - 32) && (c - 32 <=? 90) = true).
        { apply andb_true_iff. split; apply N.leb_le; lia. }
        rewrite X1, X2. lia.
      - reflexivity. }
    rewrite (L (canon_first d n)), E. reflexivity. }
  assert (B : bad_new_name d (canon_first d n) = true) by (unfold bad_new_name; rewrite P; auto).
  cbn [impl_step]. unfold impl_delete, impl_rename, impl_create. rewrite E, B.
  repeat split.
  - destruct (mb_eqfold (canon_first d n) INBOX); auto.
  - destruct (mb_eqfold (canon_first d n) INBOX); auto.
  - destruct (mb_eqfold (canon_first d x) RECOVERY); auto.
Qed.

Lemma inbox_refuses : forall d st n, mb_eqfold (canon_first d n) INBOX = true ->
  impl_step d st (ODelete n) = (st, RNo) /\ impl_step d st (OCreate n) = (st, RNo).
Proof. intros d st n E. cbn [impl_step]. unfold impl_delete, impl_create. rewrite E. auto. Qed.
