(* C12 — a collecting loop ends for every input iff its token class rejects the EOF token. *)
From Coq Require Import List NArith Bool Arith Lia.
From Gluon Require Import Base.DecBytes Model.TokenLoop Gen.FactsRfc5322.
Import ListNotations.

Lemma collect_while_terminates : forall cls, cls TEOF = false ->
  forall s fuel acc, length s < fuel -> collect_while fuel cls s acc <> None.
Proof.
  intros cls He. induction s as [|b t IH]; intros fuel acc Hf.
  - destruct fuel; [cbn in Hf; lia|]. cbn [collect_while current]. rewrite He. discriminate.
  - destruct fuel; [lia|]. cbn [collect_while current advance]. cbn [length] in Hf.
    destruct (cls (TByte b)); [apply IH; lia|discriminate].
Qed.

(* what is collected is a prefix of the input whose bytes are all in the class, and the loop stops at the first token
   outside the class *)
Lemma collect_while_result : forall cls s fuel acc out rest, collect_while fuel cls s acc = Some (out, rest) ->
  exists pre, out = acc ++ pre /\ (cls TEOF = false -> s = pre ++ rest) /\ cls (current rest) = false.
Proof.
  intros cls s fuel. revert s. induction fuel as [|f IH]; intros s acc out rest H; [discriminate|].
  cbn [collect_while] in H. destruct (cls (current s)) eqn:Ec.
  - apply IH in H. destruct H as (pre & Ho & Hs & Hr).
    exists (tok_value (current s) :: pre). split; [rewrite Ho, <- app_assoc; reflexivity|]. split; [|exact Hr].
    intros He. destruct s as [|b t]; [cbn in Ec; congruence|]. cbn [current tok_value advance] in *.
    rewrite (Hs He). reflexivity.
  - inversion H; subst. exists []. rewrite app_nil_r. auto.
Qed.

(* a class that accepts EOF never lets the loop end once the input is exhausted: for every amount of fuel the loop is
   still running, and what it has collected keeps growing *)
Lemma collect_while_spins : forall cls, cls TEOF = true -> forall fuel acc, collect_while fuel cls [] acc = None.
Proof.
  intros cls He. induction fuel as [|f IH]; intros acc; [reflexivity|].
  cbn [collect_while current advance]. rewrite He. apply IH.
Qed.

(* the facts T1 extracted from the current source: no token class of package rfc5322 accepts EOF *)
Lemma eof_rejected_by_all_classes : forallb negb eof_in_token_classes = true.
Proof. vm_compute. reflexivity. Qed.
