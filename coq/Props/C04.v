(* C04 - UIDs are strictly increasing, never reused; UIDVALIDITY only ever grows.
   Property theorems only; every proof is `exact <lemma>` (witnesses by vm_compute) followed by Print Assumptions.
   Model: Model/MailStore.v (per-mailbox AUTOINCREMENT counter, ghost log of every assignment), Model/UidValidityGen.v.
   The theorems hold for every `codefacts` (they do not depend on where the limit checks sit), every limit
   configuration, every clock (any function nat -> Z, not assumed monotone), every abstract hash, every history of
   CREATE/DELETE/RENAME/APPEND/COPY/MOVE/EXPUNGE (any UID list, so also the highest UID)/connector mailbox creation,
   message batches, UIDVALIDITY bump/Restart, with any pattern of failing connector calls. *)
From Coq Require Import List ZArith NArith Bool.
From Gluon Require Import Gen.FactsLimits Model.UidValidityGen Model.MailStore Model.MailStoreUpdate Proofs.MailStoreBase Proofs.MailStoreWf
  Proofs.MailStoreC04 Proofs.MailStoreUpdate.
Import ListNotations.
Open Scope Z_scope.

(* UIDs are handed out in strictly increasing order: of two assignments in the same mailbox (same internal id, hence
   same name+UIDVALIDITY incarnation) the later one has the larger UID - along any history, including expunge of the
   highest UID, failed commands and restarts. (s_log is the ghost list of all assignments in order.) *)
Theorem C04_uid_strictly_increasing : forall hash fx c clock s h l1 e l2 e' l3, wf s ->
  s_log (run hash fx c clock s h) = l1 ++ e :: l2 ++ e' :: l3 -> e_id e = e_id e' -> e_uid e < e_uid e'.
Proof. exact uid_strictly_increasing. Qed.
Print Assumptions C04_uid_strictly_increasing.

(* never reused: the relation (mailbox, uid) -> message only grows and is a function; what a mailbox contains now is
   part of it *)
Theorem C04_uid_never_reused : forall hash fx c clock s h, wf s ->
  (exists n, s_log (run hash fx c clock s h) = s_log s ++ n) /\
  (forall e e', In e (s_log (run hash fx c clock s h)) -> In e' (s_log (run hash fx c clock s h)) ->
                e_id e = e_id e' -> e_uid e = e_uid e' -> e = e') /\
  (forall m r, In m (s_mboxes (run hash fx c clock s h)) -> In r (mb_rows m) ->
               exists v, In (mb_id m, v, fst r, snd r) (s_log (run hash fx c clock s h))).
Proof. exact uid_never_reused. Qed.
Print Assumptions C04_uid_never_reused.

(* session views: whatever subset of the announcements (EXISTS with its UID, APPENDUID, COPYUID) a session has applied,
   in whatever order and at whatever flush, the pairs it holds are pairs of the mailbox's UID table: two announcements of
   one UID name one message, and an announced UID still present names the message of that row. (That the session pipeline
   itself ends with exactly the in-order view is proved for C01/C02: Proofs/InterleaveProofs.v pop_reorder_view,
   Proofs/ObserverProofs.v observer_converges; the harness family sessview.go checks the live sessions against it.) *)
Theorem C04_session_view_pairs_are_table_pairs : forall hash fx c clock s h e, wf s ->
  In e (s_log (run hash fx c clock s h)) ->
  (forall e', In e' (s_log (run hash fx c clock s h)) -> e_id e' = e_id e -> e_uid e' = e_uid e -> e_msg e' = e_msg e) /\
  (forall m r, In m (s_mboxes (run hash fx c clock s h)) -> mb_id m = e_id e -> In r (mb_rows m) -> fst r = e_uid e ->
               snd r = e_msg e).
Proof. exact view_pairs_consistent. Qed.
Print Assumptions C04_session_view_pairs_are_table_pairs.

(* UIDNEXT (= counter + 1) is greater than every UID ever assigned in the mailbox ... *)
Theorem C04_uidnext_bounds : forall hash fx c clock s h m e, wf s ->
  In m (s_mboxes (run hash fx c clock s h)) -> In e (s_log (run hash fx c clock s h)) -> e_id e = mb_id m ->
  1 <= e_uid e < mb_seq m + 1.
Proof. exact uidnext_bounds. Qed.
Print Assumptions C04_uidnext_bounds.

Theorem C04_uidnext_above_present_uids : forall hash fx c clock s h m r, wf s ->
  In m (s_mboxes (run hash fx c clock s h)) -> In r (mb_rows m) -> 1 <= fst r < mb_seq m + 1.
Proof. exact uidnext_rows. Qed.
Print Assumptions C04_uidnext_above_present_uids.

(* ... and never decreases while the mailbox exists *)
Theorem C04_uidnext_monotone : forall hash fx c clock s h m m', wf s ->
  In m (s_mboxes s) -> In m' (s_mboxes (run hash fx c clock s h)) -> mb_id m = mb_id m' -> mb_seq m + 1 <= mb_seq m' + 1.
Proof. exact uidnext_monotone. Qed.
Print Assumptions C04_uidnext_monotone.

(* APPENDUID: an OK answer announces the UID under which the literal is found in the target mailbox afterwards *)
Theorem C04_announced_uids_are_actual_append : forall hash fx c s n lit r s' a, wf s ->
  op_append hash fx c s n lit r = (s', ResOk a) ->
  exists u id m', a = [(0, u)] /\ find_name n (s_mboxes s') = Some m' /\ In (u, (id, lit)) (mb_rows m').
Proof. exact append_announced. Qed.
Print Assumptions C04_announced_uids_are_actual_append.

(* COPYUID (COPY and MOVE): every announced pair (source uid, destination uid) names a message of the source mailbox
   and the place where its literal is found in the destination afterwards *)
Theorem C04_announced_uids_are_actual_copy : forall fx c s a u b cr lab s' pairs, wf s ->
  op_copy fx c s a u b cr lab = (s', ResOk pairs) -> announced_ok s s' a b pairs.
Proof. exact copy_announced. Qed.
Print Assumptions C04_announced_uids_are_actual_copy.
Theorem C04_announced_uids_are_actual_move : forall fx c s a u b cr lab s' pairs, wf s ->
  op_move fx c s a u b cr lab = (s', ResOk pairs) -> announced_ok s s' a b pairs.
Proof. exact move_announced. Qed.
Print Assumptions C04_announced_uids_are_actual_move.

(* the generator: the loop of Generate computes the closed form; every value is strictly above the previous one for
   ANY clock reading (even a clock that jumps back) and never exceeds 2^32-1 *)
Theorem C04_generator_closed_form : forall now last, uv_generate now last = uv_closed now last.
Proof. exact uv_generate_closed. Qed.
Print Assumptions C04_generator_closed_form.
Theorem C04_generator_strictly_increasing : forall now last v, uv_generate now last = UvOk v -> last < v /\ v <= u32max.
Proof. exact uv_generate_gt. Qed.
Print Assumptions C04_generator_strictly_increasing.

(* The model treats CREATE as one atomic step (generation and insertion together). That is the code's behaviour only if
   State.Create generates the UIDVALIDITY inside its write transaction - a structural fact extracted by T1; otherwise two
   sessions creating / deleting / re-creating one name at the same time can leave the later mailbox with the lower value
   (reproduced with the gated database client; fix C04-fix-2). *)
Theorem C04_create_generates_under_write_lock : cf_create_gen_in_tx facts_now = true.
Proof. reflexivity. Qed.
Print Assumptions C04_create_generates_under_write_lock.

(* UIDVALIDITY within one process: take any state s in which no mailbox carries a value above the generator's last
   value (true at start-up, preserved), and any later state without a restart in between. A mailbox m' of the later
   state either still is a mailbox of s with the value it had there, or its value (created, re-created under an old
   name, bumped) is strictly greater than every value present at s and than everything generated up to s. *)
Theorem C04_uidvalidity_monotone_in_process : forall hash fx c clock h s, gen_bound s -> no_restart h ->
  uv s (run hash fx c clock s h).
Proof. exact uv_run. Qed.
Print Assumptions C04_uidvalidity_monotone_in_process.
Theorem C04_uidvalidity_bound_preserved : forall s x, uv s x -> gen_bound x.
Proof. exact uv_gen_bound. Qed.
Print Assumptions C04_uidvalidity_bound_preserved.

(* across a restart the same holds if the clock reading at start-up is above everything generated before
   (C04_uidvalidity_monotone_partial) ... *)
Theorem C04_uidvalidity_monotone_partial : forall hash fx c clock s, gen_bound s ->
  s_gen s < clock (s_tick s) <= u32max -> 0 <= s_gen s -> uv s (fst (step hash fx c clock s ORestart)).
Proof. exact uv_restart_clock_ahead. Qed.
Print Assumptions C04_uidvalidity_monotone_partial.

(* ... but not in general. Full statement:
     forall clock s h, gen_bound s -> uv s (run hash fx c clock s h)        (h may contain ORestart)
   refuted: lastUID lives in memory only. Clock standing at 100 (INBOX got 101): CREATE a, CREATE b, CREATE c run ahead
   of the clock (102, 103, 104); restart; DELETE c; CREATE c yields 101 < 104; CREATE d (102); DELETE b; CREATE b
   yields 103 - the value the old b had - and UID 1 of (b, 103) now denotes another message than before the restart. *)
Definition c04_witness_history : list op :=
  [OConnCreate inbox_name; OCreate [2%N] true; OCreate [3%N] true; OCreate [4%N] true; OAppend [3%N] 7%N RemOk;
   ORestart; ODelete [4%N] true; OCreate [4%N] true; OCreate [5%N] true; ODelete [3%N] true; OCreate [3%N] true;
   OAppend [3%N] 8%N RemOk].
Definition uidv_of (n : path) (s : store) : option Z := option_map mb_uidv (find_name n (s_mboxes s)).
Definition rows_of (n : path) (s : store) : list (Z * N) :=
  match find_name n (s_mboxes s) with Some m => map (fun r => (fst r, snd (snd r))) (mb_rows m) | None => [] end.
Theorem C04_uidvalidity_monotone_refuted :
  exists (clock : nat -> Z) (h1 h2 : list op),
    let run0 := run (fun l => Some l) facts_fixed (mkCfg 1000 1000 100000 1000) clock (init_store 100) in
    no_restart h1 /\ gen_bound (run0 h1) /\
    (* the name c: re-created after the restart with a smaller value *)
    uidv_of [4%N] (run0 h1) = Some 104 /\ uidv_of [4%N] (run0 (h1 ++ h2)) = Some 101 /\
    (* the name b: same UIDVALIDITY as before, UID 1 denotes a different message *)
    uidv_of [3%N] (run0 h1) = Some 103 /\ uidv_of [3%N] (run0 (h1 ++ h2)) = Some 103 /\
    rows_of [3%N] (run0 h1) = [(1, 7%N)] /\ rows_of [3%N] (run0 (h1 ++ h2)) = [(1, 8%N)].
Proof.
  exists (fun _ => 100), (firstn 5 c04_witness_history), (skipn 5 c04_witness_history).
  cbv zeta. split; [vm_compute; repeat split; discriminate|].
  split; [apply gen_boundb_ok; vm_compute; reflexivity|].
  vm_compute. repeat split.
Qed.
Print Assumptions C04_uidvalidity_monotone_refuted.

(* ---- connector MessageUpdated (Model/MailStoreUpdate.v: applyMessageUpdated + setMessageMailboxes) ----
   `xrun` interleaves MessageUpdated - refresh (the literal gluon has) or replacement (another literal), announcing any
   list of mailboxes - with all the operations above. The UID theorems hold for these histories as well: *)
Theorem C04_update_uid_strictly_increasing : forall hash fx c clock s h l1 e l2 e' l3, wf s ->
  s_log (xrun hash fx c clock s h) = l1 ++ e :: l2 ++ e' :: l3 -> e_id e = e_id e' -> e_uid e < e_uid e'.
Proof. exact xuid_strictly_increasing. Qed.
Print Assumptions C04_update_uid_strictly_increasing.

Theorem C04_update_uid_never_reused : forall hash fx c clock s h, wf s ->
  (exists n, s_log (xrun hash fx c clock s h) = s_log s ++ n) /\
  (forall e e', In e (s_log (xrun hash fx c clock s h)) -> In e' (s_log (xrun hash fx c clock s h)) ->
                e_id e = e_id e' -> e_uid e = e_uid e' -> e = e') /\
  (forall m r, In m (s_mboxes (xrun hash fx c clock s h)) -> In r (mb_rows m) ->
               exists v, In (mb_id m, v, fst r, snd r) (s_log (xrun hash fx c clock s h))).
Proof. exact xuid_never_reused. Qed.
Print Assumptions C04_update_uid_never_reused.

Theorem C04_update_uidnext_bounds : forall hash fx c clock s h m e, wf s ->
  In m (s_mboxes (xrun hash fx c clock s h)) -> In e (s_log (xrun hash fx c clock s h)) -> e_id e = mb_id m ->
  1 <= e_uid e < mb_seq m + 1.
Proof. exact xuidnext_bounds. Qed.
Print Assumptions C04_update_uidnext_bounds.

Theorem C04_update_uidnext_monotone : forall hash fx c clock s h m m', wf s ->
  In m (s_mboxes s) -> In m' (s_mboxes (xrun hash fx c clock s h)) -> mb_id m = mb_id m' -> mb_seq m + 1 <= mb_seq m' + 1.
Proof. exact xuidnext_monotone. Qed.
Print Assumptions C04_update_uidnext_monotone.

(* a refresh that announces exactly the mailboxes the message is in changes nothing at all: no UID is assigned, no
   UIDNEXT moves *)
Theorem C04_refresh_is_identity : forall c s n u ns m r targets,
  find_name n (s_mboxes s) = Some m -> find_row u (mb_rows m) = Some r -> target_ids ns (s_mboxes s) = Some targets ->
  (forall i, In i targets -> nmem i (holder_ids (fst (snd r)) (s_mboxes s)) = true) ->
  (forall i, In i (holder_ids (fst (snd r)) (s_mboxes s)) -> nmem i targets = true) ->
  conn_update c s n u None ns = (s, ResOk []).
Proof. exact refresh_identity. Qed.
Print Assumptions C04_refresh_is_identity.

(* any successful refresh: a mailbox that holds the message and is announced - and a mailbox that neither holds it nor is
   announced - keeps its rows (UID -> message) and its UIDNEXT *)
Theorem C04_refresh_keeps_uid_table : forall c s n u ns s' a m0 r targets,
  find_name n (s_mboxes s) = Some m0 -> find_row u (mb_rows m0) = Some r ->
  target_ids ns (s_mboxes s) = Some targets -> conn_update c s n u None ns = (s', ResOk a) ->
  forall j m, find_id j (s_mboxes s) = Some m ->
  nmem j targets = nmem j (holder_ids (fst (snd r)) (s_mboxes s)) ->
  exists m', find_id j (s_mboxes s') = Some m' /\ mb_rows m' = mb_rows m /\ mb_seq m' = mb_seq m.
Proof. exact refresh_keeps_held. Qed.
Print Assumptions C04_refresh_keeps_uid_table.

(* a successful replacement: in every mailbox the rows of the old message go, every other row keeps its UID, and the new
   message (a new internal id, the new literal) gets the UIDs from the mailbox's UIDNEXT on - hence above every UID ever
   assigned there (C04_uidnext_bounds), the old UID is not handed out again - in exactly the announced mailboxes (k > 0) *)
Theorem C04_replacement_assigns_fresh_uids : forall c s n u l ns s' a m0 r,
  find_name n (s_mboxes s) = Some m0 -> find_row u (mb_rows m0) = Some r ->
  conn_update c s n u (Some l) ns = (s', ResOk a) ->
  exists targets, target_ids ns (s_mboxes s) = Some targets /\
  forall j m, find_id j (s_mboxes s) = Some m ->
  exists m' k, find_id j (s_mboxes s') = Some m' /\
    mb_rows m' = without (fst (snd r)) (mb_rows m) ++ assign (mb_seq m) (repeat (s_nextmsg s, l) k) /\
    mb_seq m' = mb_seq m + Z.of_nat k /\ ((0 < k)%nat <-> nmem j targets = true).
Proof. exact replacement_rows. Qed.
Print Assumptions C04_replacement_assigns_fresh_uids.

(* non-vacuity: the start state satisfies the hypotheses; expunging the highest UID and appending again yields a
   higher UID, also across a restart *)
Example C04_init_ok : wf (init_store 100) /\ gen_bound (init_store 100).
Proof. split; [apply wf_init | apply gen_boundb_ok; vm_compute; reflexivity]. Qed.
Example C04_expunge_highest_then_append :
  rows_of inbox_name (run (fun l => Some l) facts_fixed (mkCfg 1000 1000 100000 1000) (fun _ => 100) (init_store 100)
    [OConnCreate inbox_name; OAppend inbox_name 1%N RemOk; OAppend inbox_name 2%N RemOk; OExpunge inbox_name [2] true;
     ORestart; OAppend inbox_name 3%N RemFail; OAppend inbox_name 3%N RemOk])
  = [(1, 1%N); (3, 3%N)].
Proof. vm_compute. reflexivity. Qed.
(* MessageUpdated: a refresh leaves UID 2 where it is; a replacement of the message at UID 2 by literal 9 removes UID 2
   and puts literal 9 at UID 3 (and at UID 1 of the second announced mailbox); UID 2 is never handed out again *)
Example C04_refresh_then_replacement :
  let cf := mkCfg 1000 1000 100000 1000 in
  let s2 := xrun (fun l => Some l) facts_fixed cf (fun _ => 100) (init_store 100)
    [XOp (OConnCreate inbox_name); XOp (OCreate [3%N] true); XOp (OAppend inbox_name 1%N RemOk);
     XOp (OAppend inbox_name 2%N RemOk); XUpdate inbox_name 2 None [inbox_name]] in
  let s3 := xrun (fun l => Some l) facts_fixed cf (fun _ => 100) s2
    [XUpdate inbox_name 2 (Some 9%N) [inbox_name; [3%N]]; XOp (OAppend inbox_name 4%N RemOk)] in
  rows_of inbox_name s2 = [(1, 1%N); (2, 2%N)] /\
  rows_of inbox_name s3 = [(1, 1%N); (3, 9%N); (4, 4%N)] /\ rows_of [3%N] s3 = [(1, 9%N)].
Proof. vm_compute. repeat split. Qed.
