(* Lemmas behind the theorems of Props/C20.v: how every operation changes the recovery mailbox and the in-memory hash
   map; the invariant tying the two together; protection and move/copy out. *)
From Coq Require Import List ZArith NArith Bool Lia.
From Gluon Require Import Gen.FactsLimits Model.UidValidityGen Model.MailStore Proofs.MailStoreBase Proofs.MailStoreWf.
Import ListNotations.
Open Scope Z_scope.

Definition rec_rows (s : store) : list row :=
  match find_id recov_id (s_mboxes s) with Some m => mb_rows m | None => [] end.
Definition row_id (r : row) : N := fst (snd r).
Definition row_lit (r : row) : N := snd (snd r).
Definition keep_rows (ids : list N) (rows : list row) : list row := filter (fun r => negb (nmem (fst (snd r)) ids)) rows.
Definition keep_hashes (ids : list N) (h : list (N * N)) : list (N * N) := filter (fun e => negb (nmem (fst e) ids)) h.

Lemma fresh_msgs_length : forall sel id, length (fresh_msgs id sel) = length sel.
Proof. induction sel as [|r t IH]; intro id; cbn [fresh_msgs length]; [reflexivity | rewrite IH; reflexivity]. Qed.
Lemma fresh_msgs_len : forall sel id, zlen (fresh_msgs id sel) = zlen sel.
Proof. intros. unfold zlen. rewrite fresh_msgs_length. reflexivity. Qed.

Lemma nodup_app_r : forall A (a b : list A), NoDup (a ++ b) -> NoDup b.
Proof. induction a as [|x a IH]; cbn [app]; intros b H; [assumption|]. inversion H; subst. apply IH. assumption. Qed.

Section C20.
Variable hash : N -> option N.
Variable fx : codefacts.
(* the de-duplication key MessageHashesMap works with *)
Notation key := (dkey hash fx).

Definition knownb (h : N) (hs : list (N * N)) : bool := existsb (fun e => N.eqb (snd e) h) hs.
Lemma knownb_in : forall h hs, knownb h hs = true <-> exists id, In (id, h) hs.
Proof.
  intros h hs. unfold knownb. rewrite existsb_exists. split.
  - intros ([id x] & Hin & E). cbn [snd] in E. apply N.eqb_eq in E. subst. exists id. assumption.
  - intros (id & Hin). exists (id, h). split; [assumption | cbn [snd]; apply N.eqb_refl].
Qed.

(* the hashes of the rows that have one *)
Definition row_hashes (r : row) : list N := match key (row_lit r) with Some h => [h] | None => [] end.
Definition hashes_of (R : list row) : list N := flat_map row_hashes R.
Definition entry_of (id lit : N) : list (N * N) := match key lit with Some h => [(id, h)] | None => [] end.

(* the invariant between the rows of the recovery mailbox R and the hash map H; rows whose literal has no hash
   (GetMessageHash fails) take no part in it: they have no entry and are never de-duplicated *)
Record wfC2 (R : list row) (H : list (N * N)) : Prop := mkWfC {
  c_entry : forall id h, In (id, h) H -> exists u lit, In (u, (id, lit)) R /\ key lit = Some h;
  c_known : forall r h, In r R -> key (row_lit r) = Some h -> knownb h H = true;
  c_nodup : NoDup (hashes_of R)
}.
Definition wfC (s : store) : Prop := wfC2 (rec_rows s) (s_hashes s).

Lemma in_hashes_of : forall R h, In h (hashes_of R) <-> exists r, In r R /\ key (row_lit r) = Some h.
Proof.
  intros R h. unfold hashes_of. rewrite in_flat_map. split; intros (r & Hr & E); exists r; split; try assumption.
  - unfold row_hashes in E. destruct (key (row_lit r)); [destruct E as [<-|[]]; reflexivity | contradiction].
  - unfold row_hashes. rewrite E. left. reflexivity.
Qed.
Lemma hashes_of_app : forall a b, hashes_of (a ++ b) = hashes_of a ++ hashes_of b.
Proof. intros. unfold hashes_of. apply flat_map_app. Qed.
Lemma nodup_hashes_inj : forall R a b h, NoDup (hashes_of R) -> In a R -> In b R ->
  key (row_lit a) = Some h -> key (row_lit b) = Some h -> a = b.
Proof.
  induction R as [|x t IH]; intros a b h Hn Ha Hb Ea Eb; [contradiction|].
  change (hashes_of (x :: t)) with (row_hashes x ++ hashes_of t) in Hn.
  assert (Ht : NoDup (hashes_of t)) by (apply nodup_app_r in Hn; assumption).
  assert (Hx : forall y, In y t -> key (row_lit x) = Some h -> key (row_lit y) = Some h -> False).
  { intros y Hy E1 E2. unfold row_hashes in Hn. rewrite E1 in Hn. cbn [app] in Hn. inversion Hn as [|? ? N1 _]; subst.
    apply N1. apply in_hashes_of. exists y. split; assumption. }
  destruct Ha as [<-|Ha]; destruct Hb as [<-|Hb]; try reflexivity.
  - exfalso. eapply Hx; eassumption.
  - exfalso. eapply Hx; eassumption.
  - eapply IH; eassumption.
Qed.
Lemma nodup_hashes_filter : forall (k : row -> bool) R, NoDup (hashes_of R) -> NoDup (hashes_of (filter k R)).
Proof.
  intros k. induction R as [|x t IH]; cbn [filter]; intro H; [constructor|].
  change (hashes_of (x :: t)) with (row_hashes x ++ hashes_of t) in H.
  assert (Ht : NoDup (hashes_of t)) by (apply nodup_app_r in H; assumption).
  destruct (k x); [|apply IH; assumption].
  change (hashes_of (x :: filter k t)) with (row_hashes x ++ hashes_of (filter k t)).
  unfold row_hashes in *. destruct (key (row_lit x)) as [h|]; cbn [app] in *; [|apply IH; assumption].
  inversion H as [|? ? N1 _]; subst. constructor; [|apply IH; assumption].
  intro Hin. apply N1. apply in_hashes_of in Hin. destruct Hin as (r & Hr & E). apply filter_In in Hr. destruct Hr.
  apply in_hashes_of. exists r. split; assumption.
Qed.

Lemma wfC2_remove : forall R H ids, wfC2 R H -> wfC2 (keep_rows ids R) (keep_hashes ids H).
Proof.
  intros R H ids [C1 C2 C3]. constructor.
  - intros id h Hin. unfold keep_hashes in Hin. apply filter_In in Hin. destruct Hin as [Hin K]. cbn [fst] in K.
    destruct (C1 id h Hin) as (u & lit & Hr & E). exists u, lit. split; [|assumption].
    unfold keep_rows. apply filter_In. split; [assumption | exact K].
  - intros r h Hr Eh. unfold keep_rows in Hr. apply filter_In in Hr. destruct Hr as [Hr K].
    pose proof (C2 r h Hr Eh) as Kn. apply knownb_in in Kn. destruct Kn as (id & Hin).
    destruct (C1 id _ Hin) as (u & lit & Hr2 & E).
    assert (r = (u, (id, lit))) by (apply (nodup_hashes_inj R _ _ h); assumption).
    subst r. apply knownb_in. exists id. unfold keep_hashes. apply filter_In. split; [assumption | exact K].
  - unfold keep_rows. apply nodup_hashes_filter. assumption.
Qed.

Lemma knownb_app : forall h a b, knownb h (a ++ b) = knownb h a || knownb h b.
Proof. intros. unfold knownb. apply existsb_app. Qed.
Lemma wfC2_add : forall R H u id lit, wfC2 R H -> (forall h, key lit = Some h -> knownb h H = false) ->
  wfC2 (R ++ [(u, (id, lit))]) (H ++ entry_of id lit).
Proof.
  intros R H u id lit [C1 C2 C3] K. constructor.
  - intros i h Hin. apply in_app_or in Hin. destruct Hin as [Hin|Hin].
    + destruct (C1 i h Hin) as (u' & l' & Hr & E). exists u', l'. split; [apply in_or_app; left; assumption | assumption].
    + unfold entry_of in Hin. destruct (key lit) as [h0|] eqn:E; [|contradiction]. destruct Hin as [Hin|[]].
      inversion Hin; subst. exists u, lit. split; [apply in_or_app; right; left; reflexivity | assumption].
  - intros r h Hr Eh. rewrite knownb_app. apply in_app_or in Hr. destruct Hr as [Hr|[<-|[]]].
    + rewrite (C2 r h Hr Eh). reflexivity.
    + unfold row_lit in Eh. cbn [snd] in Eh. unfold entry_of. rewrite Eh. cbn [knownb existsb snd]. rewrite N.eqb_refl.
      cbn [orb]. apply orb_true_r.
  - rewrite hashes_of_app. unfold hashes_of at 2. cbn [flat_map]. rewrite app_nil_r. unfold row_hashes, row_lit. cbn [snd].
    destruct (key lit) as [h|] eqn:E; [|rewrite app_nil_r; assumption].
    apply nodup_snoc; [assumption|]. intro Hin. apply in_hashes_of in Hin. destruct Hin as (r & Hr & Er).
    pose proof (C2 r h Hr Er) as Kn. rewrite (K h eq_refl) in Kn. discriminate.
Qed.

(* rebuilding the map from the rows (newUser) *)
Definition rebuild_step (acc : list (N * N)) (r : row) : list (N * N) :=
  match key (snd (snd r)) with
  | None => acc
  | Some h => if existsb (fun e => N.eqb (snd e) h) acc then acc else acc ++ [(fst (snd r), h)]
  end.
Lemma rebuild_fold : forall rows acc,
  let res := fold_left rebuild_step rows acc in
  (forall id h, In (id, h) res -> In (id, h) acc \/ exists u lit, In (u, (id, lit)) rows /\ key lit = Some h) /\
  (forall h, knownb h acc = true -> knownb h res = true) /\
  (forall r h, In r rows -> key (row_lit r) = Some h -> knownb h res = true).
Proof.
  induction rows as [|r t IH]; intro acc; cbn [fold_left].
  - split; [intros; left; assumption|]. split; [trivial | intros r h []].
  - specialize (IH (rebuild_step acc r)). cbv zeta in IH. destruct IH as (I1 & I2 & I3). split; [|split].
    + intros id h Hin. destruct (I1 id h Hin) as [A|(u & lit & A & B)].
      * unfold rebuild_step in A. destruct (key (snd (snd r))) as [h0|] eqn:Eh; [|left; assumption].
        destruct (existsb _ acc); [left; assumption|].
        apply in_app_or in A. destruct A as [A|[A|[]]]; [left; assumption|]. inversion A; subst.
        right. destruct r as [u [i l]]. exists u, l. split; [left; reflexivity | exact Eh].
      * right. exists u, lit. split; [right; assumption | assumption].
    + intros h K. apply I2. unfold rebuild_step. destruct (key (snd (snd r))); [|assumption].
      destruct (existsb _ acc); [assumption|]. rewrite knownb_app, K. reflexivity.
    + intros r0 h [<-|Hr] Eh; [|eapply I3; eassumption]. apply I2. unfold rebuild_step. unfold row_lit in Eh. rewrite Eh.
      destruct (existsb (fun e => N.eqb (snd e) h) acc) eqn:E; [exact E|].
      rewrite knownb_app. cbn [knownb existsb snd]. rewrite N.eqb_refl. cbn [orb]. apply orb_true_r.
Qed.
Lemma wfC2_rebuild : forall R H, wfC2 R H -> wfC2 R (rebuild_hashes hash fx R).
Proof.
  intros R H [_ _ C3]. unfold rebuild_hashes. pose proof (rebuild_fold R []) as F. cbv zeta in F.
  change (fun (acc : list (N * N)) (r : row) => _) with rebuild_step. destruct F as (F1 & _ & F3). constructor.
  - intros id h Hin. destruct (F1 id h Hin) as [[]|A]. exact A.
  - exact F3.
  - exact C3.
Qed.

(* ---------- how the operations change the recovery rows and the hash map ---------- *)
(* ad = true: the operation may add one message to the recovery mailbox *)
Inductive rchange (ad : bool) (s s' : store) : Prop :=
| rc_same : rec_rows s' = rec_rows s -> s_hashes s' = s_hashes s -> rchange ad s s'
| rc_remove : forall ids, rec_rows s' = keep_rows ids (rec_rows s) -> s_hashes s' = keep_hashes ids (s_hashes s) -> rchange ad s s'
| rc_add : forall u id lit, ad = true -> (forall h, key lit = Some h -> knownb h (s_hashes s) = false) ->
    rec_rows s' = rec_rows s ++ [(u, (id, lit))] -> s_hashes s' = s_hashes s ++ entry_of id lit -> rchange ad s s'
| rc_rebuild : rec_rows s' = rec_rows s -> s_hashes s' = rebuild_hashes hash fx (rec_rows s) -> rchange ad s s'.

Lemma wfC_rchange : forall ad s s', wfC s -> rchange ad s s' -> wfC s'.
Proof.
  intros ad s s' C [A B|ids A B|u id lit _ K A B|A B]; unfold wfC in *; rewrite A, B.
  - assumption.
  - apply wfC2_remove. assumption.
  - apply wfC2_add; assumption.
  - eapply wfC2_rebuild. eassumption.
Qed.
Lemma rchange_mono : forall a b s s', (a = true -> b = true) -> rchange a s s' -> rchange b s s'.
Proof.
  intros a b s s' H [A B|ids A B|u id lit E K A B|A B].
  - apply rc_same; assumption.
  - eapply rc_remove; eassumption.
  - eapply rc_add; [apply H; assumption | eassumption..].
  - apply rc_rebuild; assumption.
Qed.
Lemma rchange_noadd_le : forall s s', rchange false s s' -> zlen (rec_rows s') <= zlen (rec_rows s).
Proof.
  intros s s' [A B|ids A B|u id lit E K A B|A B]; try discriminate; rewrite A; try lia.
  unfold keep_rows. apply zlen_filter_le.
Qed.

(* "same": recovery rows and hash map untouched *)
Definition same_rec (s s' : store) : Prop := rec_rows s' = rec_rows s /\ s_hashes s' = s_hashes s.
Lemma same_rec_refl : forall s, same_rec s s. Proof. intro. split; reflexivity. Qed.
Lemma same_rec_trans : forall a b d, same_rec a b -> same_rec b d -> same_rec a d.
Proof. intros a b d [A1 A2] [B1 B2]. split; congruence. Qed.
Lemma same_rec_mem : forall s x, s_mboxes x = s_mboxes s -> s_hashes x = s_hashes s -> same_rec s x.
Proof. intros s x A B. split; [unfold rec_rows; rewrite A; reflexivity | assumption]. Qed.

Lemma rec_rows_upd_other : forall l i f, i <> recov_id -> (forall m, mb_id (f m) = mb_id m) ->
  match find_id recov_id (upd i f l) with Some m => mb_rows m | None => [] end =
  match find_id recov_id l with Some m => mb_rows m | None => [] end.
Proof.
  intros l i f Hi Fi. rewrite find_id_upd by assumption. destruct (find_id recov_id l) as [m|] eqn:F; [|reflexivity].
  destruct (find_id_in _ _ _ F) as [_ E]. rewrite E. destruct (N.eqb recov_id i) eqn:E2; [apply N.eqb_eq in E2; congruence | reflexivity].
Qed.
Lemma same_rec_ins : forall s i ms, i <> recov_id -> same_rec s (ins_msgs i ms s).
Proof.
  intros s i ms Hi. unfold ins_msgs. destruct (find_id i (s_mboxes s)); [|apply same_rec_refl].
  split; [|reflexivity]. unfold rec_rows. cbn [add_log set_mboxes s_mboxes]. apply rec_rows_upd_other; [assumption | reflexivity].
Qed.
Lemma same_rec_del_msgs : forall s i ids, i <> recov_id -> same_rec s (del_msgs i ids s).
Proof.
  intros s i ids Hi. split; [|reflexivity]. unfold rec_rows, del_msgs. cbn [set_mboxes s_mboxes].
  apply rec_rows_upd_other; [assumption | reflexivity].
Qed.
Lemma same_rec_db_add : forall c s i ms s2, i <> recov_id -> db_add c i ms s = Some s2 -> same_rec s s2.
Proof. intros c s i ms s2 Hi D. apply db_add_some in D. subst. apply same_rec_ins. assumption. Qed.
Lemma same_rec_map : forall s g, (forall m, mb_id (g m) = mb_id m) -> (forall m, mb_rows (g m) = mb_rows m) ->
  same_rec s (set_mboxes (map g (s_mboxes s)) s).
Proof.
  intros s g Gi Gr. split; [|reflexivity]. unfold rec_rows. cbn [set_mboxes s_mboxes]. rewrite find_id_map by assumption.
  destruct (find_id recov_id (s_mboxes s)); cbn [option_map]; [apply Gr | reflexivity].
Qed.
Lemma same_rec_add_mbox : forall s p v, wf s -> same_rec s (add_mbox p v s).
Proof.
  intros s p v W. split; [|reflexivity]. unfold rec_rows. cbn [add_mbox s_mboxes].
  destruct (wf_recov _ _ _ W) as (mr & Fr & Ir). destruct (find_name_in _ _ _ Fr) as [Hin _].
  pose proof (find_id_nodup _ mr (wf_nodup _ _ _ W) Hin) as F. rewrite Ir in F.
  rewrite (find_id_app _ _ _ _ F), F. reflexivity.
Qed.
Lemma same_rec_del_mbox : forall s i, wf s -> i <> recov_id -> same_rec s (set_mboxes (del i (s_mboxes s)) s).
Proof.
  intros s i W Hi. split; [|reflexivity]. unfold rec_rows. cbn [set_mboxes s_mboxes].
  destruct (wf_recov _ _ _ W) as (mr & Fr & Ir). destruct (find_name_in _ _ _ Fr) as [Hin _].
  pose proof (find_id_nodup _ mr (wf_nodup _ _ _ W) Hin) as F. rewrite Ir in F.
  unfold del. rewrite (find_id_filter _ _ _ _ F), F; [reflexivity|]. rewrite Ir. apply negb_true_iff. apply N.eqb_neq. congruence.
Qed.
Lemma same_rec_gen_next : forall clock s g s1, gen_next clock s = (g, s1) -> same_rec s s1.
Proof. intros clock s g s1 G. apply gen_next_db in G. destruct G as (A & _ & _ & B & _). apply same_rec_mem; assumption. Qed.

Lemma same_rec_add_all : forall ps v s, wf s -> same_rec s (add_all ps v s).
Proof.
  induction ps as [|p t IH]; intros v s W; unfold add_all; cbn [fold_left]; [apply same_rec_refl|].
  eapply same_rec_trans; [apply same_rec_add_mbox; assumption|]. apply IH. apply (good_add_mbox s W p v).
Qed.
Lemma same_rec_add_each : forall clock ps s s', wf s -> add_each clock ps s = Some s' -> same_rec s s'.
Proof.
  induction ps as [|p t IH]; intros s s' W H; cbn [add_each] in H; [inversion H; subst; apply same_rec_refl|].
  destruct (gen_next clock s) as [[v|] s1] eqn:G; [|discriminate].
  assert (W1 : wf s1) by (apply (good_gen_next clock s _ s1 W G)).
  eapply same_rec_trans; [eapply same_rec_gen_next; eassumption|].
  eapply same_rec_trans; [apply same_rec_add_mbox; assumption|]. apply IH; [apply (good_add_mbox s1 W1 p v) | assumption].
Qed.
Lemma same_rec_bump_all : forall clock ids s s', bump_all clock ids s = Some s' -> same_rec s s'.
Proof.
  induction ids as [|i t IH]; intros s s' H; cbn [bump_all] in H; [inversion H; subst; apply same_rec_refl|].
  destruct (gen_next clock s) as [[v|] s1] eqn:G; [|discriminate].
  eapply same_rec_trans; [eapply same_rec_gen_next; eassumption|].
  eapply same_rec_trans; [|apply IH; eassumption].
  unfold upd. apply same_rec_map; intro m; destruct (N.eqb (mb_id m) i); reflexivity.
Qed.
Lemma same_rec_add_per_mbox : forall c ps bm s s' b, wf s -> (forall p, In p ps -> is_recov p = false) ->
  add_per_mbox c ps bm s = Some (s', b) -> same_rec s s'.
Proof.
  induction ps as [|p t IH]; intros bm s s' b W Hp H; cbn [add_per_mbox] in H; [inversion H; subst; apply same_rec_refl|].
  destruct (find_name p (s_mboxes s)) as [m|] eqn:F; [|inversion H; subst; apply same_rec_refl].
  destruct (db_add c (mb_id m) (for_mbox p bm) s) as [s1|] eqn:D; [|discriminate].
  assert (Hi : mb_id m <> recov_id) by (apply (not_recov_id s W p m F); apply Hp; left; reflexivity).
  eapply same_rec_trans; [eapply same_rec_db_add; eassumption|].
  apply (IH bm s1 s' b); [apply (good_db_add c _ _ s s1 W D) | intros q Hq; apply Hp; right; assumption | assumption].
Qed.

Variable c : cfg.
Variable clock : nat -> Z.
Notation step' := (step hash fx c clock).

Lemma hash_known_knownb : forall h s, hash_known h s = knownb h (s_hashes s).
Proof. reflexivity. Qed.
Lemma hash_entry_entry_of : forall id lit, hash_entry hash fx id lit = entry_of id lit.
Proof. reflexivity. Qed.
Lemma lit_known_false : forall lit s, lit_known hash fx lit s = false -> forall h, key lit = Some h -> knownb h (s_hashes s) = false.
Proof. intros lit s K h E. unfold lit_known in K. rewrite E in K. exact K. Qed.

(* the rows of the recovery mailbox after inserting one message there *)
Lemma rec_rows_recover_ins : forall s x id lit, wf s -> s_mboxes x = s_mboxes s ->
  exists u, rec_rows (ins_msgs recov_id [(id, lit)] x) = rec_rows s ++ [(u, (id, lit))].
Proof.
  intros s x id lit W Ex. destruct (wf_recov _ _ _ W) as (mr & Fr & Ir). destruct (find_name_in _ _ _ Fr) as [Hin _].
  pose proof (find_id_nodup _ mr (wf_nodup _ _ _ W) Hin) as F. rewrite Ir in F. exists (mb_seq mr + 1).
  unfold rec_rows, ins_msgs. rewrite Ex, F. cbn [add_log set_mboxes s_mboxes].
  rewrite find_id_upd by reflexivity. rewrite F. destruct (find_id_in _ _ _ F) as [_ E]. rewrite E, N.eqb_refl.
  cbn [mb_ins mb_rows assign]. reflexivity.
Qed.

Lemma rchange_recover : forall s lit, wf s -> rchange true s (fst (recover hash fx s lit)).
Proof.
  intros s lit W. unfold recover. destruct (lit_known hash fx lit s) eqn:K; cbn [fst]; [apply rc_same; reflexivity|].
  destruct (rec_rows_recover_ins s (set_hashes (s_hashes s ++ hash_entry hash fx (s_nextmsg s) lit) (bump_msg 1 s)) (s_nextmsg s) lit W eq_refl) as (u & Q).
  apply (rc_add true s _ u (s_nextmsg s) lit); [reflexivity | apply lit_known_false; exact K | exact Q |].
  unfold ins_msgs. cbn [set_hashes bump_msg s_mboxes]. destruct (find_id recov_id (s_mboxes s)); reflexivity.
Qed.
Lemma rchange_recover_res : forall s lit, wf s -> rchange true s (fst (recover_res hash fx s lit)).
Proof. intros s lit W. unfold recover_res. pose proof (rchange_recover s lit W) as H. destruct (recover hash fx s lit). exact H. Qed.
Lemma rchange_limit_refuse : forall s lit, wf s -> rchange (negb (cf_limit_norecover fx)) s (fst (limit_refuse hash fx s lit)).
Proof.
  intros s lit W. unfold limit_refuse. destruct (cf_limit_norecover fx); cbn [fst negb]; [apply rc_same; reflexivity | apply rchange_recover; assumption].
Qed.

Lemma rc_of_same : forall ad s s', same_rec s s' -> rchange ad s s'.
Proof. intros ad s s' [A B]. apply rc_same; assumption. Qed.

(* does an APPEND with this connector outcome possibly reach the recovery mailbox *)
Definition adds (r : rout) : bool := match r with RemFail => true | _ => negb (cf_limit_norecover fx) end.
Lemma rchange_append : forall s n lit r, wf s -> rchange (adds r) s (fst (op_append hash fx c s n lit r)).
Proof.
  intros s n lit r W. unfold op_append. destruct (is_recov n) eqn:Rn; [apply rc_same; reflexivity|].
  destruct (find_name n (s_mboxes s)) as [m|] eqn:F; [|apply rc_same; reflexivity].
  assert (L : rchange (adds r) s (fst (limit_refuse hash fx s lit))).
  { apply (rchange_mono (negb (cf_limit_norecover fx))); [|apply rchange_limit_refuse; assumption]. destruct r; cbn [adds]; trivial. }
  destruct (append_check c m); [|exact L].
  unfold append_write. rewrite (find_id_of_name s W n m F).
  destruct (cf_recheck fx && negb (room c m 1)); [exact L|].
  destruct r; cbn [fst]; [|apply rchange_recover_res; assumption | apply rc_same; reflexivity].
  apply rc_of_same. eapply same_rec_trans; [apply (same_rec_mem s (bump_msg 1 s)); reflexivity|].
  apply same_rec_ins. apply (not_recov_id s W n m F Rn).
Qed.

Lemma rec_rows_del_recov : forall s ids, rec_rows (del_msgs recov_id ids s) = keep_rows ids (rec_rows s).
Proof.
  intros s ids. unfold rec_rows, del_msgs. cbn [set_mboxes s_mboxes]. rewrite find_id_upd by reflexivity.
  destruct (find_id recov_id (s_mboxes s)) as [m|] eqn:F; [|reflexivity].
  destruct (find_id_in _ _ _ F) as [_ E]. rewrite E, N.eqb_refl. reflexivity.
Qed.

Lemma rchange_out_of_recovery : forall ad s d sel mv cr lab, wf s -> cf_erase_late fx = true -> mb_id d <> recov_id ->
  rchange ad s (fst (out_of_recovery fx c s d sel mv cr lab)).
Proof.
  intros ad s d sel mv cr lab W Fe Hd. unfold out_of_recovery. rewrite Fe. cbn [negb]. rewrite andb_false_r, andb_true_r.
  destruct (negb cr); cbn [fst]; [apply rc_same; reflexivity|]. cbv zeta.
  destruct (negb lab); cbn [fst]; [apply rc_same; [reflexivity | destruct mv; reflexivity]|].
  match goal with |- context[db_add c ?i ?ms ?x] => destruct (db_add c i ms x) as [s2|] eqn:D end; cbn [fst];
    [|apply rc_same; [reflexivity | destruct mv; reflexivity]].
  pose proof (same_rec_db_add _ _ _ _ _ Hd D) as [A B]. destruct mv.
  - apply (rc_remove ad s _ (map (fun r : row => fst (snd r)) sel)).
    + unfold erase_hashes. unfold rec_rows at 1. cbn [set_hashes s_mboxes]. fold (rec_rows s2). rewrite A.
      rewrite rec_rows_del_recov. reflexivity.
    + unfold erase_hashes. cbn [set_hashes s_hashes]. rewrite B. reflexivity.
  - apply rc_same; [rewrite A | rewrite B]; reflexivity.
Qed.

Lemma same_rec_add_messages : forall s d sel lab, mb_id d <> recov_id -> same_rec s (fst (add_messages c s d sel lab)).
Proof.
  intros s d sel lab Hd. unfold add_messages. destruct (negb lab); cbn [fst]; [apply same_rec_refl|].
  match goal with |- context[db_add c ?i ?ms ?x] => destruct (db_add c i ms x) as [s2|] eqn:D end; cbn [fst]; [|apply same_rec_refl].
  eapply same_rec_trans; [apply same_rec_del_msgs; exact Hd | eapply same_rec_db_add; eassumption].
Qed.

Lemma rchange_copy : forall ad s a u b cr lab, wf s -> cf_erase_late fx = true -> rchange ad s (fst (op_copy fx c s a u b cr lab)).
Proof.
  intros ad s a u b cr lab W Fe. unfold op_copy. destruct (is_recov b) eqn:Rb; [apply rc_same; reflexivity|].
  destruct (find_name b (s_mboxes s)) as [d|] eqn:Fb; [|apply rc_same; reflexivity].
  destruct (find_name a (s_mboxes s)) as [m|] eqn:Fa; [|apply rc_same; reflexivity].
  pose proof (not_recov_id s W b d Fb Rb) as Hd.
  destruct (N.eqb (mb_id m) recov_id); [apply rchange_out_of_recovery; assumption | apply rc_of_same; apply same_rec_add_messages; assumption].
Qed.

Lemma rchange_move : forall ad s a u b cr lab, wf s -> cf_erase_late fx = true -> rchange ad s (fst (op_move fx c s a u b cr lab)).
Proof.
  intros ad s a u b cr lab W Fe. unfold op_move. destruct (is_recov b) eqn:Rb; [apply rc_same; reflexivity|].
  destruct (find_name b (s_mboxes s)) as [d|] eqn:Fb; [|apply rc_same; reflexivity].
  destruct (find_name a (s_mboxes s)) as [m|] eqn:Fa; [|apply rc_same; reflexivity].
  pose proof (not_recov_id s W b d Fb Rb) as Hd. cbv zeta.
  destruct (N.eqb (mb_id m) recov_id) eqn:Em; [apply rchange_out_of_recovery; assumption|].
  apply N.eqb_neq in Em. apply rc_of_same.
  destruct (N.eqb (mb_id m) (mb_id d)).
  - destruct (negb lab); cbn [fst]; [apply same_rec_refl|].
    match goal with |- context[db_add c ?i ?ms ?x] => destruct (db_add c i ms x) as [s2|] eqn:D end; cbn [fst]; [|apply same_rec_refl].
    eapply same_rec_trans; [apply same_rec_del_msgs; exact Hd | apply (same_rec_db_add _ _ _ _ _ Hd D)].
  - destruct (negb lab); cbn [fst]; [apply same_rec_refl|].
    match goal with |- context[find_id ?i ?l] => destruct (find_id i l) as [d1|] end; cbn [fst]; [|apply same_rec_refl].
    match goal with |- context[room c d1 ?k] => destruct (room c d1 k) end; cbn [fst]; [|apply same_rec_refl].
    eapply same_rec_trans; [apply same_rec_del_msgs; exact Hd|].
    eapply same_rec_trans; [apply same_rec_del_msgs; exact Em|]. apply same_rec_ins. exact Hd.
Qed.

Lemma rchange_expunge : forall ad s n u r, wf s -> rchange ad s (fst (op_expunge s n u r)).
Proof.
  intros ad s n u r W. unfold op_expunge. destruct (find_name n (s_mboxes s)) as [m|] eqn:F; [|apply rc_same; reflexivity]. cbv zeta.
  match goal with |- context[map ?f (selection m u)] => destruct (map f (selection m u)) as [|i0 ids0] eqn:Ei end; cbn [fst];
    [apply rc_same; reflexivity|].
  destruct (N.eqb (mb_id m) recov_id) eqn:Em; cbn [fst].
  - apply (rc_remove ad s _ (i0 :: ids0)).
    + rewrite rec_rows_del_recov. reflexivity.
    + reflexivity.
  - apply N.eqb_neq in Em. destruct (negb r); cbn [fst]; [apply rc_same; reflexivity|].
    apply rc_of_same. apply same_rec_del_msgs. assumption.
Qed.

Definition op_adds (o : op) : bool := match o with OAppend _ _ r => adds r | _ => false end.
Lemma rchange_step : forall s o, wf s -> cf_erase_late fx = true -> rchange (op_adds o) s (fst (step' s o)).
Proof.
  intros s o W Fe. destruct o; cbn [step op_adds].
  - (* create *) apply rc_of_same. unfold op_create. destruct (cf_create_gen_in_tx fx && bad_create_name name); [apply same_rec_refl|].
    destruct (gen_next clock s) as [g s1] eqn:G.
    pose proof (same_rec_gen_next _ _ _ _ G) as S1. destruct g as [v|]; [|assumption].
    repeat match goal with |- same_rec _ (fst (if ?b then _ else _)) => destruct b; cbn [fst]; [assumption|] end.
    eapply same_rec_trans; [exact S1|]. apply same_rec_add_all. apply (good_gen_next clock s _ s1 W G).
  - (* delete *) apply rc_of_same. unfold op_delete. destruct (is_recov name || is_inbox name) eqn:E; [apply same_rec_refl|].
    apply orb_false_iff in E. destruct E as [E _].
    destruct (find_name name (s_mboxes s)) as [m|] eqn:F; [|apply same_rec_refl]. destruct remote_ok; cbn [fst]; [|apply same_rec_refl].
    apply same_rec_del_mbox; [assumption | apply (not_recov_id s W name m F E)].
  - (* rename *) apply rc_of_same. unfold op_rename.
    destruct (is_recov old || is_recov new || match new with [] => true | _ => false end) eqn:E; [apply same_rec_refl|].
    apply orb_false_iff in E. destruct E as [E _]. apply orb_false_iff in E. destruct E as [Ea _].
    destruct (find_name old (s_mboxes s)) as [m|] eqn:F; [|apply same_rec_refl].
    match goal with |- same_rec _ (fst (if ?x then _ else _)) => destruct x; [apply same_rec_refl|] end.
    match goal with |- same_rec _ (fst (if ?x then _ else _)) => destruct x; [apply same_rec_refl|] end.
    destruct (negb remote_ok); [apply same_rec_refl|].
    match goal with |- context[add_each clock ?ps s] => destruct (add_each clock ps s) as [s1|] eqn:A end; [|apply same_rec_refl].
    pose proof (same_rec_add_each _ _ _ _ W A) as S1. pose proof (good_add_each clock _ s s1 W A) as [W1 _].
    pose proof (not_recov_id s W old m F Ea) as Hm.
    destruct (is_inbox old).
    + destruct (gen_next clock s1) as [[v|] s2] eqn:G; [|split; [reflexivity | cbn [keep_mem s_hashes]; apply S1]].
      pose proof (same_rec_gen_next _ _ _ _ G) as S2. assert (W2 : wf s2) by (apply (good_gen_next clock s1 _ s2 W1 G)).
      match goal with |- context[db_add c ?i ?ms ?x] => destruct (db_add c i ms x) as [s4|] eqn:D end; cbn [fst].
      * eapply same_rec_trans; [exact S1|]. eapply same_rec_trans; [exact S2|].
        eapply same_rec_trans; [apply same_rec_add_mbox; exact W2|].
        eapply same_rec_trans; [apply same_rec_del_msgs; exact Hm|].
        eapply same_rec_db_add; [|exact D]. cbn [add_mbox s_nextid].
        apply gen_next_db in G. destruct G as (_ & G2 & _). rewrite G2.
        destruct (wf_recov _ _ _ W1) as (mr & Fr & Ir). destruct (find_name_in _ _ _ Fr) as [Hin _].
        pose proof (wf_ids _ _ _ W1 mr Hin). intro Q. rewrite Q, <- Ir in H. lia.
      * split; [reflexivity|]. cbn [keep_mem s_hashes add_mbox]. destruct S1 as [_ S1]. destruct S2 as [_ S2]. congruence.
    + cbv zeta. match goal with |- same_rec _ (fst (if ?x then _ else _)) => destruct x end; cbn [fst];
        [|split; [reflexivity | cbn [keep_mem s_hashes]; apply S1]].
      eapply same_rec_trans; [exact S1|]. unfold rename_inferiors, upd. rewrite map_map. apply same_rec_map.
      * intro x. unfold rename_one. destruct old; [destruct (N.eqb _ _); reflexivity|].
        destruct (strip_prefix _ _) as [[|? ?]|]; destruct (N.eqb (mb_id x) (mb_id m)); reflexivity.
      * intro x. unfold rename_one. destruct old; [destruct (N.eqb _ _); reflexivity|].
        destruct (strip_prefix _ _) as [[|? ?]|]; destruct (N.eqb (mb_id x) (mb_id m)); reflexivity.
  - apply rchange_append; assumption.
  - apply rchange_copy; assumption.
  - apply rchange_move; assumption.
  - apply rchange_expunge; assumption.
  - (* connector: mailbox *) apply rc_of_same. unfold op_conn_create. destruct (gen_next clock s) as [g s1] eqn:G.
    pose proof (same_rec_gen_next _ _ _ _ G) as S1. destruct g as [v|]; [|assumption].
    repeat match goal with |- same_rec _ (fst (if ?b then _ else _)) => destruct b; cbn [fst]; [assumption|] end.
    eapply same_rec_trans; [exact S1|]. apply same_rec_add_mbox. apply (good_gen_next clock s _ s1 W G).
  - (* connector: messages *) apply rc_of_same. unfold op_conn_msgs. cbv zeta.
    match goal with |- context[add_per_mbox c ?ps ?bm ?x] => destruct (add_per_mbox c ps bm x) as [[s1 [|]]|] eqn:A end; cbn [fst];
      try apply same_rec_refl.
    match type of A with add_per_mbox _ _ _ (bump_msg ?k s) = _ => eapply same_rec_trans; [apply (same_rec_mem s (bump_msg k s)); reflexivity|] end.
    eapply same_rec_add_per_mbox; [apply (good_bump_msg s _ W) | | exact A].
    intros p Hp. clear A.
    (* targets come from messages that do not address the recovery mailbox *)
    match type of Hp with In p (path_dedup ?l) => assert (Hin : In p l) end.
    { clear -Hp. match type of Hp with In p (path_dedup ?l) => induction l as [|q t IH] end; cbn [path_dedup] in Hp; [contradiction|].
      destruct (existsb (path_eqb q) t); [right; apply IH; assumption|]. destruct Hp as [<-|Hp]; [left; reflexivity | right; apply IH; assumption]. }
    apply in_flat_map in Hin. destruct Hin as ([mm ps] & Hb & Hps). cbn [snd] in Hps.
    assert (Q : forall b id e, In e (batch_msgs id b) -> exists l, In (l, snd e) b).
    { induction b as [|[l qs] t IH]; intros id e He; cbn [batch_msgs] in He; [contradiction|].
      destruct He as [<-|He]; [exists l; left; reflexivity|]. destruct (IH _ _ He) as (l' & Hl). exists l'. right. assumption. }
    destruct (Q _ _ _ Hb) as (l & Hl). cbn [snd] in Hl. apply filter_In in Hl. destruct Hl as [_ Hl]. cbn [snd] in Hl.
    apply negb_true_iff in Hl. destruct (is_recov p) eqn:Rp; [|reflexivity].
    exfalso. assert (existsb is_recov ps = true) by (apply existsb_exists; exists p; split; assumption). congruence.
  - (* connector: bump *) apply rc_of_same. unfold op_conn_bump.
    destruct (bump_all clock (map mb_id (s_mboxes s)) s) as [s1|] eqn:B; cbn [fst]; [eapply same_rec_bump_all; eassumption | apply same_rec_refl].
  - (* restart *) unfold op_restart. cbv zeta. cbn [fst].
    match goal with |- context[gen_next clock ?x] => destruct (gen_next clock x) as [g s1] eqn:G end.
    apply gen_next_db in G. destruct G as (A & _). cbn [snd].
    apply rc_rebuild.
    + unfold rec_rows. cbn [set_hashes s_mboxes]. rewrite A. reflexivity.
    + cbn [set_hashes s_hashes]. rewrite A. reflexivity.
Qed.

Theorem wfC_step : forall s o, wf s -> cf_erase_late fx = true -> wfC s -> wfC (fst (step' s o)).
Proof. intros s o W Fe C. eapply wfC_rchange; [exact C | apply rchange_step; assumption]. Qed.
(* the recovery mailbox grows only when the remote rejects an APPEND (given that limit errors skip the fallback) *)
Theorem recovery_grows_only_on_rejection : forall s o, wf s -> cf_erase_late fx = true -> cf_limit_norecover fx = true ->
  (forall n l, o <> OAppend n l RemFail) -> zlen (rec_rows (fst (step' s o))) <= zlen (rec_rows s).
Proof.
  intros s o W Fe Fl H. apply rchange_noadd_le. pose proof (rchange_step s o W Fe) as R.
  assert (E : op_adds o = false); [|rewrite E in R; exact R].
  destruct o; cbn [op_adds]; try reflexivity. destruct r; cbn [adds]; try (rewrite Fl; reflexivity). exfalso. eapply H. reflexivity.
Qed.
Theorem wfC_run : forall h s, wf s -> cf_erase_late fx = true -> wfC s -> wfC (run hash fx c clock s h).
Proof.
  induction h as [|o t IH]; intros s W Fe C; cbn [run]; [assumption|].
  apply IH; [apply (good_step_op hash fx c clock s o W) | assumption | apply wfC_step; assumption].
Qed.

(* ---------- rejected => recovered ---------- *)
Definition has_hash (h : N) (r : row) : bool := match key (row_lit r) with Some x => N.eqb x h | None => false end.
Definition count_hash (h : N) (R : list row) : nat := length (filter (has_hash h) R).
Definition count_lit (l : N) (R : list row) : nat := length (filter (fun r => N.eqb (row_lit r) l) R).

Lemma has_hash_true : forall h r, has_hash h r = true <-> key (row_lit r) = Some h.
Proof.
  intros h r. unfold has_hash. destruct (key (row_lit r)) as [x|]; split; intro E; try discriminate.
  - apply N.eqb_eq in E. subst. reflexivity.
  - inversion E. apply N.eqb_refl.
Qed.
Lemma count_hash_none : forall h R, (forall r, In r R -> key (row_lit r) <> Some h) -> count_hash h R = 0%nat.
Proof.
  intros h R H. unfold count_hash. induction R as [|x t IH]; cbn [filter length]; [reflexivity|].
  destruct (has_hash h x) eqn:E; [apply has_hash_true in E; exfalso; apply (H x); [left; reflexivity | assumption]|].
  apply IH. intros r Hr. apply H. right. assumption.
Qed.
Lemma count_hash_nodup : forall h R r, NoDup (hashes_of R) -> In r R -> key (row_lit r) = Some h -> count_hash h R = 1%nat.
Proof.
  intros h R. induction R as [|x t IH]; intros r Hn Hr E; [contradiction|].
  assert (Ht : NoDup (hashes_of t)).
  { change (hashes_of (x :: t)) with (row_hashes x ++ hashes_of t) in Hn. apply nodup_app_r in Hn. assumption. }
  unfold count_hash. cbn [filter]. destruct (has_hash h x) eqn:Ex.
  - apply has_hash_true in Ex. cbn [length]. f_equal. apply count_hash_none. intros y Hy Ey.
    assert (x = y) by (apply (nodup_hashes_inj (x :: t) x y h); [assumption | left; reflexivity | right; assumption | assumption | assumption]).
    subst y. change (hashes_of (x :: t)) with (row_hashes x ++ hashes_of t) in Hn. unfold row_hashes in Hn. rewrite Ex in Hn.
    cbn [app] in Hn. inversion Hn as [|? ? N1 _]; subst. apply N1. apply in_hashes_of. exists x. split; assumption.
  - destruct Hr as [<-|Hr]; [apply has_hash_true in E; congruence|]. apply (IH r Ht Hr E).
Qed.
Lemma count_hash_app : forall h a b, count_hash h (a ++ b) = (count_hash h a + count_hash h b)%nat.
Proof. intros. unfold count_hash. rewrite filter_app, app_length. reflexivity. Qed.

Lemma op_append_rejected : forall s n lit m, wf s -> is_recov n = false -> find_name n (s_mboxes s) = Some m -> room c m 1 = true ->
  op_append hash fx c s n lit RemFail = recover_res hash fx s lit.
Proof.
  intros s n lit m W Rn F Rm. unfold op_append. rewrite Rn, F. unfold append_check. rewrite Rm.
  unfold append_write. rewrite (find_id_of_name s W n m F). rewrite Rm. cbn [negb]. rewrite andb_false_r. reflexivity.
Qed.

(* the remote was asked and rejected (not for size), the literal has a hash: that hash is in the recovery mailbox
   exactly once afterwards *)
Lemma rejected_recovered_once_hash : forall s n lit m h, wf s -> wfC s -> is_recov n = false ->
  find_name n (s_mboxes s) = Some m -> room c m 1 = true -> key lit = Some h ->
  (snd (op_append hash fx c s n lit RemFail) = ResNo \/ snd (op_append hash fx c s n lit RemFail) = ResNoKnown) /\
  count_hash h (rec_rows (fst (op_append hash fx c s n lit RemFail))) = 1%nat.
Proof.
  intros s n lit m h W [C1 C2 C3] Rn F Rm Eh. rewrite (op_append_rejected s n lit m W Rn F Rm).
  unfold recover_res, recover. destruct (lit_known hash fx lit s) eqn:K; cbn [fst snd].
  - split; [right; reflexivity|]. unfold lit_known in K. rewrite Eh, hash_known_knownb in K.
    apply knownb_in in K. destruct K as (id & Hin). destruct (C1 id _ Hin) as (u & l & Hr & E).
    apply (count_hash_nodup _ _ (u, (id, l))); [assumption | assumption | exact E].
  - split; [left; reflexivity|].
    destruct (rec_rows_recover_ins s (set_hashes (s_hashes s ++ hash_entry hash fx (s_nextmsg s) lit) (bump_msg 1 s)) (s_nextmsg s) lit W eq_refl) as (u & Q).
    rewrite Q, count_hash_app. rewrite count_hash_none.
    + unfold count_hash. cbn [filter]. unfold has_hash, row_lit. cbn [snd]. rewrite Eh, N.eqb_refl. reflexivity.
    + intros r Hr E. pose proof (C2 r h Hr E) as Kn. rewrite (lit_known_false lit s K h Eh) in Kn. discriminate.
Qed.

(* the literal has no hash: it is stored, always (never answered "known") *)
Lemma rejected_hashless_stored : forall s n lit m, wf s -> is_recov n = false ->
  find_name n (s_mboxes s) = Some m -> room c m 1 = true -> key lit = None ->
  snd (op_append hash fx c s n lit RemFail) = ResNo /\
  exists u id, rec_rows (fst (op_append hash fx c s n lit RemFail)) = rec_rows s ++ [(u, (id, lit))].
Proof.
  intros s n lit m W Rn F Rm Eh. rewrite (op_append_rejected s n lit m W Rn F Rm).
  unfold recover_res, recover, lit_known. rewrite Eh. cbn [fst snd]. split; [reflexivity|].
  destruct (rec_rows_recover_ins s (set_hashes (s_hashes s ++ hash_entry hash fx (s_nextmsg s) lit) (bump_msg 1 s)) (s_nextmsg s) lit W eq_refl) as (u & Q).
  exists u, (s_nextmsg s). exact Q.
Qed.

(* every rejected APPEND is recoverable: afterwards the recovery mailbox holds the literal itself or a message with
   the literal's hash *)
Lemma rejected_recoverable : forall s n lit m, wf s -> wfC s -> is_recov n = false ->
  find_name n (s_mboxes s) = Some m -> room c m 1 = true ->
  exists r, In r (rec_rows (fst (op_append hash fx c s n lit RemFail))) /\
            (row_lit r = lit \/ exists h, key lit = Some h /\ key (row_lit r) = Some h).
Proof.
  intros s n lit m W C Rn F Rm. destruct (key lit) as [h|] eqn:Eh.
  - destruct (rejected_recovered_once_hash s n lit m h W C Rn F Rm Eh) as [_ Cnt].
    unfold count_hash in Cnt.
    destruct (filter (has_hash h) (rec_rows (fst (op_append hash fx c s n lit RemFail)))) as [|r t] eqn:Fl; [discriminate|].
    assert (Hin : In r (filter (has_hash h) (rec_rows (fst (op_append hash fx c s n lit RemFail))))) by (rewrite Fl; left; reflexivity).
    apply filter_In in Hin. destruct Hin as [Hin Hh]. exists r. split; [assumption|]. right. exists h. split; [reflexivity|].
    apply has_hash_true. assumption.
  - destruct (rejected_hashless_stored s n lit m W Rn F Rm Eh) as [_ (u & id & Q)].
    exists (u, (id, lit)). split; [rewrite Q; apply in_or_app; right; left; reflexivity | left; reflexivity].
Qed.

(* if the hash identifies the literal, "once per distinct message" holds literally *)
Lemma count_lit_hash : forall l h R, (forall a b x, key a = Some x -> key b = Some x -> a = b) -> key l = Some h ->
  count_lit l R = count_hash h R.
Proof.
  intros l h R Inj Eh. unfold count_lit, count_hash. f_equal. apply filter_ext. intro r.
  destruct (N.eqb (row_lit r) l) eqn:E.
  - apply N.eqb_eq in E. symmetry. apply has_hash_true. rewrite E. assumption.
  - apply N.eqb_neq in E. destruct (has_hash h r) eqn:E2; [|reflexivity].
    apply has_hash_true in E2. exfalso. apply E. eapply Inj; eassumption.
Qed.

(* ---------- with the raw-bytes fallback every literal has a key ---------- *)
Lemma key_total : cf_raw_fallback fx = true -> forall lit, exists k, key lit = Some k.
Proof. intros Fr lit. unfold dkey. destruct (hash lit) as [h|]; [eexists; reflexivity|]. rewrite Fr. eexists. reflexivity. Qed.
Lemma key_raw : cf_raw_fallback fx = true -> forall lit, hash lit = None -> key lit = Some (2 * lit + 1)%N.
Proof. intros Fr lit E. unfold dkey. rewrite E, Fr. reflexivity. Qed.
(* a raw key identifies the literal and never equals a content-hash key *)
Lemma key_raw_inj : forall lit l', hash lit = None -> key l' = Some (2 * lit + 1)%N -> l' = lit.
Proof.
  intros lit l' E K. unfold dkey in K. destruct (hash l') as [h|].
  - assert (K' : (2 * h = 2 * lit + 1)%N) by congruence. lia.
  - destruct (cf_raw_fallback fx); [|discriminate]. assert (K' : (2 * l' + 1 = 2 * lit + 1)%N) by congruence. lia.
Qed.

(* once per distinct message, for EVERY literal, in terms of the key *)
Lemma rejected_recovered_once_key : forall s n lit m, cf_raw_fallback fx = true -> wf s -> wfC s -> is_recov n = false ->
  find_name n (s_mboxes s) = Some m -> room c m 1 = true ->
  exists k, key lit = Some k /\
    (snd (op_append hash fx c s n lit RemFail) = ResNo \/ snd (op_append hash fx c s n lit RemFail) = ResNoKnown) /\
    count_hash k (rec_rows (fst (op_append hash fx c s n lit RemFail))) = 1%nat.
Proof.
  intros s n lit m Fr W C Rn F Rm. destruct (key_total Fr lit) as (k & Ek). exists k. split; [exact Ek|].
  exact (rejected_recovered_once_hash s n lit m k W C Rn F Rm Ek).
Qed.
(* a literal whose content hash cannot be computed is in the recovery mailbox exactly once - literally *)
Lemma rejected_hashless_once : forall s n lit m, cf_raw_fallback fx = true -> wf s -> wfC s -> is_recov n = false ->
  find_name n (s_mboxes s) = Some m -> room c m 1 = true -> hash lit = None ->
  count_lit lit (rec_rows (fst (op_append hash fx c s n lit RemFail))) = 1%nat.
Proof.
  intros s n lit m Fr W C Rn F Rm Eh. pose proof (key_raw Fr lit Eh) as Ek.
  destruct (rejected_recovered_once_hash s n lit m _ W C Rn F Rm Ek) as [_ Cnt]. rewrite <- Cnt.
  unfold count_lit, count_hash. f_equal. apply filter_ext. intro r.
  destruct (N.eqb (row_lit r) lit) eqn:E.
  - apply N.eqb_eq in E. symmetry. apply has_hash_true. rewrite E. exact Ek.
  - apply N.eqb_neq in E. destruct (has_hash (2 * lit + 1)%N r) eqn:E2; [|reflexivity].
    apply has_hash_true in E2. exfalso. apply E. apply (key_raw_inj lit (row_lit r) Eh E2).
Qed.

(* ---------- the recovery mailbox is protected against client commands ---------- *)
Lemma protected_append : forall s lit r, op_append hash fx c s recov_name lit r = (s, ResNo).
Proof. reflexivity. Qed.
Lemma protected_delete : forall s r, op_delete s recov_name r = (s, ResNo).
Proof. reflexivity. Qed.
Lemma protected_rename_from : forall s b r, op_rename fx c clock s recov_name b r = (s, ResNo).
Proof. reflexivity. Qed.
Lemma protected_rename_to : forall s a r, op_rename fx c clock s a recov_name r = (s, ResNo).
Proof. intros. unfold op_rename. replace (is_recov recov_name) with true by reflexivity. rewrite orb_true_r. reflexivity. Qed.
Lemma protected_copy_into : forall s a u cr lab, op_copy fx c s a u recov_name cr lab = (s, ResNo).
Proof. reflexivity. Qed.
Lemma protected_move_into : forall s a u cr lab, op_move fx c s a u recov_name cr lab = (s, ResNo).
Proof. reflexivity. Qed.
(* CREATE of the name itself or of anything below it *)
Lemma protected_create : forall s n r, recov_prefixed n = true ->
  snd (op_create fx c clock s n r) <> ResOk [] /\ (forall a, snd (op_create fx c clock s n r) <> ResOk a) /\
  s_mboxes (fst (op_create fx c clock s n r)) = s_mboxes s /\ s_hashes (fst (op_create fx c clock s n r)) = s_hashes s.
Proof.
  intros s n r P. unfold op_create. destruct (cf_create_gen_in_tx fx && bad_create_name n); [cbn [fst snd]; repeat split; try discriminate; reflexivity|].
  destruct (gen_next clock s) as [g s1] eqn:G. apply gen_next_db in G. destruct G as (A & _ & _ & B & _).
  destruct g as [v|]; cbn [fst snd]; [|repeat split; try discriminate; assumption].
  destruct (lim_uidv c v); cbn [fst snd]; [repeat split; try discriminate; assumption|].
  rewrite P. cbn [orb fst snd]. repeat split; try discriminate; assumption.
Qed.
(* and no operation whatsoever removes or renames it: this is part of wf (wf_recov), preserved by every step *)

(* listed exactly while non-empty: the recovery mailbox passes the filter of LIST iff it holds a message *)
Definition listed_mboxes (s : store) : list mbox :=
  filter (fun m => negb (N.eqb (mb_id m) recov_id && match mb_rows m with [] => true | _ => false end)) (s_mboxes s).
Lemma listed_is_map : forall s, listed s = map mb_name (listed_mboxes s).
Proof. reflexivity. Qed.
Lemma listed_iff_nonempty : forall s mr, In mr (s_mboxes s) -> mb_id mr = recov_id -> (In mr (listed_mboxes s) <-> mb_rows mr <> []).
Proof.
  intros s mr Hin Hid. unfold listed_mboxes. rewrite filter_In. rewrite Hid, N.eqb_refl. cbn [andb]. split.
  - intros [_ H]. destruct (mb_rows mr); [discriminate | discriminate].
  - intro H. split; [assumption|]. destruct (mb_rows mr); [contradiction | reflexivity].
Qed.
Lemma others_always_listed : forall s m, In m (s_mboxes s) -> mb_id m <> recov_id -> In m (listed_mboxes s).
Proof.
  intros s m Hin Hid. unfold listed_mboxes. apply filter_In. split; [assumption|].
  destruct (N.eqb (mb_id m) recov_id) eqn:E; [apply N.eqb_eq in E; contradiction | reflexivity].
Qed.

(* ---------- messages can be moved / copied out ---------- *)
Lemma out_of_recovery_accepted : forall s d sel mv, wf s -> In d (s_mboxes s) -> mb_id d <> recov_id ->
  room c d (zlen sel) = true ->
  exists s' pairs, out_of_recovery fx c s d sel mv true true = (s', ResOk pairs) /\ length pairs = length sel.
Proof.
  intros s d sel mv W Hin Hd R. unfold out_of_recovery. cbn [negb]. cbv zeta.
  match goal with |- context[db_add c ?i ?ms ?x] => assert (D : db_add c i ms x = Some (ins_msgs i ms x)) end.
  { unfold db_add.
    match goal with |- context[find_id (mb_id d) (s_mboxes ?x)] => assert (F : find_id (mb_id d) (s_mboxes x) = Some d) end.
    { pose proof (find_id_nodup _ d (wf_nodup _ _ _ W) Hin) as F0.
      destruct mv, (cf_erase_late fx); cbn [andb negb erase_hashes set_hashes s_mboxes bump_msg del_msgs set_mboxes];
        try exact F0; rewrite find_id_upd by reflexivity; rewrite F0;
        (destruct (N.eqb (mb_id d) recov_id) eqn:E; [apply N.eqb_eq in E; contradiction | reflexivity]). }
    rewrite F. rewrite fresh_msgs_len. rewrite R. reflexivity. }
  rewrite D. eexists. eexists. split; [reflexivity|].
  rewrite map_length, combine_length, assign_length, fresh_msgs_length. apply Nat.min_id.
Qed.
End C20.
