package main

import (
	"fmt"
	"go/ast"
	"go/token"
	"os"
	"os/exec"
	"path/filepath"
	"regexp"
	"sort"
	"strconv"
	"strings"
)

// FactsSqlBind (types in coq/Model/SqlBindFacts.v, consumed by Props/C08.v):
//
//	chunk_limit  const ChunkLimit of db/client.go
//	stmt_facts   for every SQL statement executed inside a `for _, chunk := range xslices.Chunk(X, N)` loop of a
//	             writeOps/readOps method: the number of '?' placeholders and the number of bind arguments as symbolic
//	             sums of products of slice lengths, and whether the arguments are built from the chunk or from X
//	sql_facts    for every query text of every writeOps/readOps method: the SQL verb and the table expression
//
// Everything is syntactic (go/ast); a pattern that cannot be resolved yields a term `VOther "?<source>"` and
// FromUnknown, so that the Coq check fails visibly instead of silently passing.
func init() { register("SqlBind", extractSqlBind) }

const (
	sbClientFile = "db/client.go"
	sbWriteFile  = "internal/db_impl/sqlite3/write_ops.go"
	sbReadFile   = "internal/db_impl/sqlite3/read_ops.go"
	sbTracerFile = "internal/db_impl/sqlite3/utils/tracer.go"
)

// ---------------------------------------------------------------------------------------------------------------------
// counts: sums of  coef * len(v1) * len(v2) ...   (a variable is the Coq text of a lenvar)

type sbTerm struct {
	coef int64
	vars []string
}
type sbPoly []sbTerm

const sbChunk, sbWhole = "VChunk", "VWhole"

func sbOther(name string) string { return "VOther " + coqString(name) }
func sbConst(k int64) sbPoly     { return sbNorm(sbPoly{{coef: k}}) }
func sbLen(v string) sbPoly      { return sbPoly{{coef: 1, vars: []string{v}}} }
func sbAdd(a, b sbPoly) sbPoly   { return sbNorm(append(append(sbPoly{}, a...), b...)) }

func sbMul(a, b sbPoly) sbPoly {
	var r sbPoly
	for _, x := range a {
		for _, y := range b {
			r = append(r, sbTerm{x.coef * y.coef, append(append([]string{}, x.vars...), y.vars...)})
		}
	}
	return sbNorm(r)
}

// sbVarKey orders VChunk < VWhole < VOther by name.
func sbVarKey(v string) string {
	switch v {
	case sbChunk:
		return "0"
	case sbWhole:
		return "1"
	}
	return "2" + v
}

// sbNorm sorts the variables of each term, merges like terms, drops zero terms and orders the terms by descending
// degree (constants last), then by variable names.
func sbNorm(p sbPoly) sbPoly {
	key := func(t sbTerm) string {
		ks := make([]string, len(t.vars))
		for i, v := range t.vars {
			ks[i] = sbVarKey(v)
		}
		return strings.Join(ks, "\x00")
	}
	m := map[string]*sbTerm{}
	var keys []string
	for _, t := range p {
		vs := append([]string{}, t.vars...)
		sort.Slice(vs, func(i, j int) bool { return sbVarKey(vs[i]) < sbVarKey(vs[j]) })
		nt := &sbTerm{t.coef, vs}
		k := key(*nt)
		if old, ok := m[k]; ok {
			old.coef += nt.coef
		} else {
			m[k] = nt
			keys = append(keys, k)
		}
	}
	sort.Slice(keys, func(i, j int) bool {
		a, b := m[keys[i]], m[keys[j]]
		if len(a.vars) != len(b.vars) {
			return len(a.vars) > len(b.vars)
		}
		return keys[i] < keys[j]
	})
	var r sbPoly
	for _, k := range keys {
		if m[k].coef != 0 {
			r = append(r, *m[k])
		}
	}
	return r
}

func (p sbPoly) mentions(v string) bool {
	for _, t := range p {
		for _, x := range t.vars {
			if x == v {
				return true
			}
		}
	}
	return false
}

func (p sbPoly) coq() string {
	ts := make([]string, len(p))
	for i, t := range p {
		ts[i] = fmt.Sprintf("mkTerm %d [%s]", t.coef, strings.Join(t.vars, "; "))
	}
	return "[" + strings.Join(ts, "; ") + "]"
}

// ---------------------------------------------------------------------------------------------------------------------
// small syntactic helpers

func sbUnparen(e ast.Expr) ast.Expr {
	for {
		p, ok := e.(*ast.ParenExpr)
		if !ok {
			return e
		}
		e = p.X
	}
}

// sbCallee returns the qualifier and name of the called function: utils.MapQueryRows[T](..) -> "utils", "MapQueryRows".
func sbCallee(c *ast.CallExpr) (string, string) {
	fun := sbUnparen(c.Fun)
	switch x := fun.(type) {
	case *ast.IndexExpr:
		fun = x.X
	case *ast.IndexListExpr:
		fun = x.X
	}
	switch x := fun.(type) {
	case *ast.Ident:
		return "", x.Name
	case *ast.SelectorExpr:
		if id, ok := x.X.(*ast.Ident); ok {
			return id.Name, x.Sel.Name
		}
		return "?", x.Sel.Name
	}
	return "", ""
}

// sbStrConst folds a string literal or a `+` concatenation of string literals.
func sbStrConst(e ast.Expr) (string, bool) {
	switch x := sbUnparen(e).(type) {
	case *ast.BasicLit:
		if x.Kind == token.STRING {
			s, err := strconv.Unquote(x.Value)
			return s, err == nil
		}
	case *ast.BinaryExpr:
		if x.Op == token.ADD {
			a, ok1 := sbStrConst(x.X)
			b, ok2 := sbStrConst(x.Y)
			return a + b, ok1 && ok2
		}
	}
	return "", false
}

func sbIntLit(e ast.Expr) (int64, bool) {
	if l, ok := sbUnparen(e).(*ast.BasicLit); ok && l.Kind == token.INT {
		n, err := strconv.ParseInt(l.Value, 0, 64)
		return n, err == nil
	}
	return 0, false
}

// sbScanFormat parses a fmt format: canon is the format with every verb rewritten to the explicit form %[n]v (n the
// 1-based operand it consumes), verbs the 0-based operand index of every verb in order, qmarks the number of '?'.
func sbScanFormat(f string) (canon string, verbs []int, qmarks int) {
	var b strings.Builder
	next := 0
	for i := 0; i < len(f); i++ {
		if f[i] == '?' {
			qmarks++
		}
		if f[i] != '%' {
			b.WriteByte(f[i])
			continue
		}
		i++
		if i >= len(f) || f[i] == '%' {
			b.WriteString("%%")
			continue
		}
		for i < len(f) && strings.IndexByte("+-#0", f[i]) >= 0 { // flags
			i++
		}
		if i < len(f) && f[i] == '[' { // explicit operand index
			if j := strings.IndexByte(f[i:], ']'); j > 0 {
				if n, err := strconv.Atoi(f[i+1 : i+j]); err == nil {
					next = n - 1
				}
				i += j + 1
			}
		}
		for i < len(f) && (f[i] == '.' || (f[i] >= '0' && f[i] <= '9')) { // width, precision
			i++
		}
		verbs = append(verbs, next) // f[i] is the verb letter
		fmt.Fprintf(&b, "%%[%d]v", next+1)
		next++
	}
	return b.String(), verbs, qmarks
}

// ---------------------------------------------------------------------------------------------------------------------
// per-file / per-method context

type sbFile struct {
	t      *T
	rel    string
	src    string
	consts map[string]int64 // integer constants of db/client.go
}

var sbSpace = regexp.MustCompile(`\s+`)

// text returns the source text of a node with white space collapsed.
func (f *sbFile) text(n ast.Node) string {
	s := f.src[f.t.Fset.Position(n.Pos()).Offset:f.t.Fset.Position(n.End()).Offset]
	return strings.TrimSpace(sbSpace.ReplaceAllString(s, " "))
}

type sbDef struct { // name := rhs   /   var name = rhs
	name     string
	rhs      ast.Expr
	pos      token.Pos // end of the defining statement: the name is visible in (pos, scopeEnd)
	scopeEnd token.Pos
}

type sbAppend struct { // name = append(name, ...)
	name string
	call *ast.CallExpr
	pos  token.Pos
	encl []ast.Node // enclosing for / range / if / switch / select / func literal, outermost first
}

type sbLoop struct { // for _, v := range xslices.Chunk(x, n) { ... }
	rng     *ast.RangeStmt
	varName string
	x, n    ast.Expr
}

type sbExec struct { // an executed statement inside a Chunk loop
	call *ast.CallExpr
	loop *sbLoop
}

type sbFunc struct {
	*sbFile
	fd      *ast.FuncDecl
	defs    []sbDef
	appends []sbAppend
	loops   []*sbLoop
	execs   []sbExec
}

// sbIsExec recognises the query helpers of internal/db_impl/sqlite3/utils that take (ctx, qw, query[, mapper], args...).
func sbIsExec(c *ast.CallExpr) (isExec, hasMapper bool) {
	q, name := sbCallee(c)
	if q != "utils" || len(c.Args) < 3 {
		return false, false
	}
	switch {
	case name == "ExecQuery", name == "ExecQueryAndCheckUpdatedNotZero", name == "QueryExists":
		return true, false
	case name == "QueryForEachRow":
		return true, true
	case strings.HasPrefix(name, "MapQueryRow"):
		return true, strings.HasSuffix(name, "Fn")
	}
	return false, false
}

// collect walks the method body once and records definitions, appends, Chunk loops and executed statements.
func (f *sbFunc) collect() {
	var stack []ast.Node
	scopeEnd := func() token.Pos {
		for i := len(stack) - 1; i >= 0; i-- {
			switch stack[i].(type) {
			case *ast.BlockStmt, *ast.CaseClause, *ast.CommClause:
				return stack[i].End()
			}
		}
		return f.fd.Body.End()
	}
	loopOf := map[*ast.RangeStmt]*sbLoop{}
	ast.Inspect(f.fd.Body, func(n ast.Node) bool {
		if n == nil {
			stack = stack[:len(stack)-1]
			return true
		}
		switch x := n.(type) {
		case *ast.AssignStmt:
			if x.Tok == token.DEFINE && len(x.Lhs) == len(x.Rhs) {
				for i, l := range x.Lhs {
					if id, ok := l.(*ast.Ident); ok {
						f.defs = append(f.defs, sbDef{id.Name, x.Rhs[i], x.End(), scopeEnd()})
					}
				}
			}
			if x.Tok == token.ASSIGN && len(x.Lhs) == 1 && len(x.Rhs) == 1 {
				id, ok1 := x.Lhs[0].(*ast.Ident)
				call, ok2 := x.Rhs[0].(*ast.CallExpr)
				if ok1 && ok2 && len(call.Args) > 0 {
					if _, name := sbCallee(call); name == "append" {
						if a0, ok := call.Args[0].(*ast.Ident); ok && a0.Name == id.Name {
							var encl []ast.Node
							for _, s := range stack {
								switch s.(type) {
								case *ast.RangeStmt, *ast.ForStmt, *ast.IfStmt, *ast.SwitchStmt, *ast.TypeSwitchStmt, *ast.SelectStmt, *ast.FuncLit:
									encl = append(encl, s)
								}
							}
							f.appends = append(f.appends, sbAppend{id.Name, call, x.Pos(), encl})
						}
					}
				}
			}
		case *ast.ValueSpec:
			if len(x.Names) == len(x.Values) {
				for i, id := range x.Names {
					f.defs = append(f.defs, sbDef{id.Name, x.Values[i], x.End(), scopeEnd()})
				}
			}
		case *ast.RangeStmt:
			if call, ok := sbUnparen(x.X).(*ast.CallExpr); ok && len(call.Args) == 2 {
				if q, name := sbCallee(call); q == "xslices" && name == "Chunk" {
					l := &sbLoop{rng: x, x: call.Args[0], n: call.Args[1]}
					if id, ok := x.Value.(*ast.Ident); ok {
						l.varName = id.Name
					}
					f.loops = append(f.loops, l)
					loopOf[x] = l
				}
			}
		case *ast.CallExpr:
			if ok, _ := sbIsExec(x); ok {
				for i := len(stack) - 1; i >= 0; i-- { // innermost Chunk loop whose BODY contains the call
					if r, ok := stack[i].(*ast.RangeStmt); ok && loopOf[r] != nil && x.Pos() >= r.Body.Pos() {
						f.execs = append(f.execs, sbExec{x, loopOf[r]})
						break
					}
				}
			}
		}
		stack = append(stack, n)
		return true
	})
}

// lookupDef finds the definition of an identifier that is visible at position use (latest one wins).
func (f *sbFunc) lookupDef(name string, use token.Pos) *sbDef {
	var best *sbDef
	for i := range f.defs {
		d := &f.defs[i]
		if d.name == name && d.pos <= use && use < d.scopeEnd && (best == nil || d.pos > best.pos) {
			best = d
		}
	}
	return best
}

// sbCtx is the state of the analysis of one side (placeholders or arguments) of one statement.
type sbCtx struct {
	f         *sbFunc
	loop      *sbLoop
	unknown   bool
	needsEven bool
	depth     int
}

func (c *sbCtx) fail(e ast.Node) sbPoly {
	c.unknown = true
	return sbLen(sbOther("?" + c.f.text(e)))
}

// lenVar classifies the slice V of a len(V): the loop variable, the chunked slice, or something else.
func (c *sbCtx) lenVar(v ast.Expr) string {
	v = sbUnparen(v)
	if id, ok := v.(*ast.Ident); ok {
		var bind *sbLoop // the innermost Chunk loop that binds this name at this position
		for _, l := range c.f.loops {
			if l.varName == id.Name && l.rng.Body.Pos() <= id.Pos() && id.Pos() < l.rng.Body.End() &&
				(bind == nil || l.rng.Pos() > bind.rng.Pos()) {
				bind = l
			}
		}
		if bind == c.loop {
			return sbChunk
		}
		if bind != nil {
			return sbOther(id.Name + " (variable of another Chunk loop)")
		}
	}
	if c.f.text(v) == c.f.text(c.loop.x) {
		return sbWhole
	}
	return sbOther(c.f.text(v))
}

// count evaluates an int expression built from len(V), integer literals, + and *.
func (c *sbCtx) count(e ast.Expr) sbPoly {
	c.depth++
	defer func() { c.depth-- }()
	if c.depth > 50 {
		return c.fail(e)
	}
	switch x := sbUnparen(e).(type) {
	case *ast.BasicLit:
		if n, ok := sbIntLit(x); ok {
			return sbConst(n)
		}
	case *ast.CallExpr:
		if q, name := sbCallee(x); q == "" && name == "len" && len(x.Args) == 1 {
			return sbLen(c.lenVar(x.Args[0]))
		}
	case *ast.BinaryExpr:
		switch x.Op {
		case token.ADD:
			return sbAdd(c.count(x.X), c.count(x.Y))
		case token.MUL:
			return sbMul(c.count(x.X), c.count(x.Y))
		case token.QUO: // only an exact division by a literal
			if d, ok := sbIntLit(x.Y); ok && d > 0 {
				p := c.count(x.X)
				for i := range p {
					if p[i].coef%d != 0 {
						return c.fail(e)
					}
					p[i].coef /= d
				}
				return p
			}
		}
	case *ast.Ident:
		if d := c.f.lookupDef(x.Name, x.Pos()); d != nil {
			return c.count(d.rhs)
		}
	}
	return c.fail(e)
}

// gen recognises the placeholder generators utils.GenSQLIn(E) and strings.Join(xslices.Repeat("(?,?)", E), ",").
func (c *sbCtx) gen(e ast.Expr) (sbPoly, bool) {
	switch x := sbUnparen(e).(type) {
	case *ast.Ident:
		if d := c.f.lookupDef(x.Name, x.Pos()); d != nil && c.depth < 50 {
			c.depth++
			defer func() { c.depth-- }()
			return c.gen(d.rhs)
		}
	case *ast.CallExpr:
		_, name := sbCallee(x)
		if name == "GenSQLIn" && len(x.Args) == 1 {
			return c.count(x.Args[0]), true
		}
		if name == "Join" && len(x.Args) == 2 {
			rep, ok := sbUnparen(x.Args[0]).(*ast.CallExpr)
			if !ok {
				return nil, false
			}
			if _, rn := sbCallee(rep); rn != "Repeat" || len(rep.Args) != 2 {
				return nil, false
			}
			group, ok1 := sbStrConst(rep.Args[0])
			sep, ok2 := sbStrConst(x.Args[1])
			if !ok1 || !ok2 || strings.Contains(sep, "?") {
				return c.fail(e), true
			}
			k := int64(strings.Count(group, "?"))
			// len(V)/2 groups of 2 placeholders: len(V) placeholders, right only when len(V) is even
			if be, ok := sbUnparen(rep.Args[1]).(*ast.BinaryExpr); ok && be.Op == token.QUO && k == 2 {
				if d, ok := sbIntLit(be.Y); ok && d == 2 {
					c.needsEven = true
					return c.count(be.X), true
				}
			}
			return sbMul(sbConst(k), c.count(rep.Args[1])), true
		}
	}
	return nil, false
}

// placeholders counts the '?' of the query expression q (normally an identifier bound to a fmt.Sprintf).
func (c *sbCtx) placeholders(q ast.Expr) sbPoly {
	e := sbUnparen(q)
	for i := 0; i < 10; i++ {
		id, ok := e.(*ast.Ident)
		if !ok {
			break
		}
		d := c.f.lookupDef(id.Name, id.Pos())
		if d == nil {
			return c.fail(q)
		}
		e = sbUnparen(d.rhs)
	}
	if s, ok := sbStrConst(e); ok {
		return sbConst(int64(strings.Count(s, "?")))
	}
	call, ok := e.(*ast.CallExpr)
	if !ok || len(call.Args) == 0 {
		return c.fail(q)
	}
	if pk, name := sbCallee(call); pk != "fmt" || name != "Sprintf" {
		return c.fail(q)
	}
	format, ok := sbStrConst(call.Args[0])
	if !ok {
		return c.fail(q)
	}
	_, verbs, qm := sbScanFormat(format)
	p := sbConst(int64(qm))
	for _, vi := range verbs {
		if vi < 0 || vi+1 >= len(call.Args) {
			return sbAdd(p, c.fail(call))
		}
		if g, ok := c.gen(call.Args[vi+1]); ok {
			p = sbAdd(p, g)
		}
	}
	return p
}

// elems counts the values of an argument list `a, b, s...`.
func (c *sbCtx) elems(args []ast.Expr, ellipsis bool, use token.Pos) sbPoly {
	if ellipsis && len(args) > 0 {
		return sbAdd(sbConst(int64(len(args)-1)), c.slice(args[len(args)-1], use))
	}
	return sbConst(int64(len(args)))
}

// slice evaluates the length of a []any expression that is used at position use.
func (c *sbCtx) slice(e ast.Expr, use token.Pos) sbPoly {
	c.depth++
	defer func() { c.depth-- }()
	if c.depth > 50 {
		return c.fail(e)
	}
	switch x := sbUnparen(e).(type) {
	case *ast.CompositeLit:
		return sbConst(int64(len(x.Elts)))
	case *ast.CallExpr:
		switch _, name := sbCallee(x); {
		case name == "MapSliceToAny" && len(x.Args) == 1:
			return sbLen(c.lenVar(x.Args[0]))
		case name == "append" && len(x.Args) >= 1:
			return sbAdd(c.slice(x.Args[0], use), c.elems(x.Args[1:], x.Ellipsis.IsValid(), use))
		case name == "make" && len(x.Args) >= 2:
			return c.count(x.Args[1])
		case name == "make":
			return nil
		}
	case *ast.Ident:
		if x.Name == "nil" {
			return nil
		}
		if c.lenVar(x) == sbChunk {
			return sbLen(sbChunk)
		}
		d := c.f.lookupDef(x.Name, x.Pos())
		if d == nil { // a parameter or a variable of another loop
			return sbLen(c.lenVar(x))
		}
		p := c.slice(d.rhs, d.pos)
		for _, a := range c.f.appends {
			if a.name != x.Name || a.pos < d.pos || a.pos >= use || a.pos >= d.scopeEnd {
				continue
			}
			n := c.elems(a.call.Args[1:], a.call.Ellipsis.IsValid(), a.pos)
			for _, s := range a.encl { // every loop entered after the definition multiplies the contribution
				if s.Pos() < d.pos {
					continue
				}
				if r, ok := s.(*ast.RangeStmt); ok {
					n = sbMul(n, sbLen(c.lenVar(r.X)))
				} else {
					n = sbMul(n, c.fail(a.call)) // conditional append or a three-clause for loop
				}
			}
			p = sbAdd(p, n)
		}
		return p
	}
	return c.fail(e)
}

// foldInt constant-folds the chunk size (integer division, constants of db/client.go, local definitions).
func (f *sbFunc) foldInt(e ast.Expr, depth int) (int64, bool) {
	switch x := sbUnparen(e).(type) {
	case *ast.BasicLit:
		return sbIntLit(x)
	case *ast.SelectorExpr:
		if id, ok := x.X.(*ast.Ident); ok && id.Name == "db" {
			v, ok := f.consts[x.Sel.Name]
			return v, ok
		}
	case *ast.Ident:
		if d := f.lookupDef(x.Name, x.Pos()); d != nil && depth < 20 {
			return f.foldInt(d.rhs, depth+1)
		}
	case *ast.BinaryExpr:
		a, ok1 := f.foldInt(x.X, depth+1)
		b, ok2 := f.foldInt(x.Y, depth+1)
		if ok1 && ok2 {
			return sbFoldOp(x.Op, a, b)
		}
	}
	return 0, false
}

func sbFoldOp(op token.Token, a, b int64) (int64, bool) {
	switch op {
	case token.ADD:
		return a + b, true
	case token.SUB:
		return a - b, true
	case token.MUL:
		return a * b, true
	case token.QUO:
		if b != 0 {
			return a / b, true
		}
	case token.REM:
		if b != 0 {
			return a % b, true
		}
	}
	return 0, false
}

// stmtFacts renders the stmt_fact entries of one method.
func (f *sbFunc) stmtFacts() []string {
	var out []string
	for idx, ex := range f.execs {
		_, hasMapper := sbIsExec(ex.call)
		args := ex.call.Args[3:]
		if hasMapper && len(args) > 0 {
			args = args[1:]
		}
		ph := &sbCtx{f: f, loop: ex.loop}
		phCnt := ph.placeholders(ex.call.Args[2])
		ar := &sbCtx{f: f, loop: ex.loop}
		arCnt := ar.elems(args, ex.call.Ellipsis.IsValid(), ex.call.Pos())
		src := "FromChunk"
		switch {
		case ar.unknown:
			src = "FromUnknown"
		case arCnt.mentions(sbWhole):
			src = "FromWhole"
		}
		n, ok := f.foldInt(ex.loop.n, 0)
		if !ok || n < 0 {
			n = 0 // stmt_ok demands 0 < sf_chunk
		}
		out = append(out, fmt.Sprintf("mkStmtFact %s %d%%nat %d %s %s %s %s %v",
			coqString(f.fd.Name.Name), idx, n, coqString(f.text(ex.loop.n)), phCnt.coq(), arCnt.coq(), src, ph.needsEven))
	}
	return out
}

// ---------------------------------------------------------------------------------------------------------------------
// Part B: verb and table of every query text

var (
	sbWord      = regexp.MustCompile(`[A-Za-z]+`)
	sbVerbTok   = regexp.MustCompile(`^%\[(\d+)\]v`)
	sbIdentTok  = regexp.MustCompile(`^[A-Za-z_][A-Za-z0-9_.]*`)
	sbSQLWords  = map[string]bool{"FROM": true, "INTO": true, "UPDATE": true, "TABLE": true}
	sbLitStarts = []string{"SELECT ", "INSERT ", "UPDATE ", "DELETE "}
)

// sqlFact computes verb and table of one query text; args are the Sprintf operands (nil for a plain literal).
func (f *sbFunc) sqlFact(text string, isFormat bool, args []ast.Expr) (verb, table string) {
	if isFormat {
		text, _, _ = sbScanFormat(text)
	}
	words := strings.Fields(strings.TrimPrefix(strings.TrimSpace(text), "`"))
	if len(words) == 0 {
		return "", "?"
	}
	verb = words[0]
	after := func(kws ...string) string {
		for i, w := range words {
			for _, kw := range kws {
				if w == kw {
					for i++; i < len(words); i++ { // TABLE IF [NOT] EXISTS name
						if words[i] != "IF" && words[i] != "NOT" && words[i] != "EXISTS" {
							return words[i]
						}
					}
					return ""
				}
			}
		}
		return ""
	}
	tok := ""
	switch verb {
	case "INSERT", "REPLACE":
		tok = after("INTO")
	case "UPDATE":
		tok = after("UPDATE")
	case "DELETE", "SELECT":
		tok = after("FROM")
	case "DROP", "CREATE", "ALTER":
		tok = after("TABLE")
	default:
		tok = after("FROM", "INTO")
	}
	tok = strings.ReplaceAll(tok, "`", "")
	if m := sbVerbTok.FindStringSubmatch(tok); m != nil && isFormat {
		n, _ := strconv.Atoi(m[1])
		if n < 1 || n > len(args) {
			return verb, fmt.Sprintf("?missing operand %d", n)
		}
		return verb, f.text(args[n-1])
	}
	if name := sbIdentTok.FindString(tok); name != "" {
		return verb, "lit:" + name
	}
	return verb, "?" + tok
}

// sbLooksLikeSQL decides whether a string literal that is not a Sprintf format is a statement: it starts with one of the
// four DML verbs (any case, so that a lower-case verb is reported rather than dropped) or, to catch a misspelt verb,
// its second or a later word is FROM / INTO.
func sbLooksLikeSQL(s string) bool {
	t := strings.TrimPrefix(strings.TrimSpace(s), "`")
	for _, p := range sbLitStarts {
		if len(t) >= len(p) && strings.EqualFold(t[:len(p)], p) {
			return true
		}
	}
	for i, w := range strings.Fields(t) {
		if i > 0 && (w == "FROM" || w == "INTO") {
			return true
		}
	}
	return false
}

// sqlFacts renders the sql_fact entries of one method: every fmt.Sprintf whose format contains FROM / INTO / UPDATE /
// TABLE and every other string literal that looks like a statement (sbLooksLikeSQL), in source order.
func (f *sbFunc) sqlFacts() []string {
	var out []string
	emit := func(text string, isFormat bool, args []ast.Expr) {
		verb, table := f.sqlFact(text, isFormat, args)
		out = append(out, fmt.Sprintf("mkSqlFact %s %d%%nat %s %s", coqString(f.fd.Name.Name), len(out), coqString(verb), coqString(table)))
	}
	var visit func(n ast.Node) bool
	visit = func(n ast.Node) bool {
		switch x := n.(type) {
		case *ast.CallExpr:
			if pk, name := sbCallee(x); pk == "fmt" && name == "Sprintf" && len(x.Args) > 0 {
				if format, ok := sbStrConst(x.Args[0]); ok {
					for _, w := range sbWord.FindAllString(format, -1) {
						if sbSQLWords[w] {
							emit(format, true, x.Args[1:])
							break
						}
					}
					for _, a := range x.Args[1:] { // the format literal itself is not visited again
						ast.Inspect(a, visit)
					}
					return false
				}
			}
		case *ast.BinaryExpr, *ast.BasicLit:
			if s, ok := sbStrConst(x.(ast.Expr)); ok {
				if sbLooksLikeSQL(s) {
					emit(s, false, nil)
				}
				return false
			}
		}
		return true
	}
	ast.Inspect(f.fd.Body, visit)
	return out
}

// ---------------------------------------------------------------------------------------------------------------------

// sbRecv returns the receiver type name of a method ("" for functions).
func sbRecv(fd *ast.FuncDecl) string {
	if fd.Recv == nil || len(fd.Recv.List) != 1 {
		return ""
	}
	ty := fd.Recv.List[0].Type
	if s, ok := ty.(*ast.StarExpr); ok {
		ty = s.X
	}
	if id, ok := ty.(*ast.Ident); ok {
		return id.Name
	}
	return ""
}

var (
	reVerb      = regexp.MustCompile("%(?:\\[(\\d+)\\])?v")
	reEqPh      = regexp.MustCompile("`(%(?:\\[\\d+\\])?v)`\\s*=\\s*$")
	reColsValue = regexp.MustCompile("\\(((?:\\s*`%(?:\\[\\d+\\])?v`\\s*,?)+)\\)\\s*VALUES\\s*\\(((?:\\s*\\?\\s*,?)+)\\)")
)

// bindFacts: for every executed statement of the method whose placeholders are all literal `?` and as many as the bind
// arguments, the column each placeholder belongs to and the declared type of the argument bound to it.
func (f *sbFunc) bindFacts() []string {
	params := map[string]string{}
	for _, fl := range f.fd.Type.Params.List {
		for _, n := range fl.Names {
			params[n.Name] = f.text(fl.Type)
		}
	}
	var out []string
	idx := -1
	ast.Inspect(f.fd.Body, func(n ast.Node) bool {
		c, ok := n.(*ast.CallExpr)
		if !ok {
			return true
		}
		isExec, hasMapper := sbIsExec(c)
		if !isExec {
			return true
		}
		idx++
		args := c.Args[3:]
		if hasMapper && len(args) > 0 {
			args = args[1:]
		}
		if c.Ellipsis.IsValid() {
			return true
		}
		q := sbUnparen(c.Args[2])
		if id, ok := q.(*ast.Ident); ok {
			if d := f.lookupDef(id.Name, c.Pos()); d != nil {
				q = sbUnparen(d.rhs)
			}
		}
		var format string
		var fargs []ast.Expr
		if call, ok := q.(*ast.CallExpr); ok {
			if pk, name := sbCallee(call); pk == "fmt" && name == "Sprintf" && len(call.Args) > 0 {
				if s, ok := sbStrConst(call.Args[0]); ok {
					format, fargs = s, call.Args[1:]
				}
			}
		} else if s, ok := sbStrConst(q); ok {
			format = s
		}
		if format == "" || strings.Count(format, "?") != len(args) || len(args) == 0 {
			return true
		}
		// the Sprintf argument a verb at text position p stands for
		verbArg := func(verbText string, p int) string {
			m := reVerb.FindStringSubmatch(verbText)
			k := -1
			if m != nil && m[1] != "" {
				n, _ := strconv.Atoi(m[1])
				k = n - 1
			} else {
				k = len(reVerb.FindAllStringIndex(format[:p], -1))
			}
			if k >= 0 && k < len(fargs) {
				return f.text(fargs[k])
			}
			return ""
		}
		// columns of the placeholders inside `(cols) VALUES (?,...)`
		valueCols := map[int]string{} // text position of '?' -> column expression
		for _, m := range reColsValue.FindAllStringSubmatchIndex(format, -1) {
			colsText, colsAt := format[m[2]:m[3]], m[2]
			var cols []string
			for _, v := range reVerb.FindAllStringIndex(colsText, -1) {
				cols = append(cols, verbArg(colsText[v[0]:v[1]], colsAt+v[0]))
			}
			k := 0
			for p := m[4]; p < m[5]; p++ {
				if format[p] == '?' {
					if k < len(cols) {
						valueCols[p] = cols[k]
					}
					k++
				}
			}
		}
		ph := 0
		for p := 0; p < len(format); p++ {
			if format[p] != '?' {
				continue
			}
			col := valueCols[p]
			if col == "" {
				if m := reEqPh.FindStringSubmatchIndex(format[:p]); m != nil {
					col = verbArg(format[m[2]:m[3]], m[2])
				}
			}
			if col != "" {
				a := sbUnparen(args[ph])
				typ := "?"
				if id, ok := a.(*ast.Ident); ok {
					if t, ok := params[id.Name]; ok {
						typ = t
					} else if id.Name == "true" || id.Name == "false" {
						typ = "bool"
					}
				}
				out = append(out, fmt.Sprintf("mkBindFact %s %d%%nat %d%%nat %s %s %s", coqString(f.fd.Name.Name), idx, ph, coqString(col), coqString(f.text(args[ph])), coqString(typ)))
			}
			ph++
		}
		return true
	})
	return out
}

// tracerFacts: for every method of ReadTracer / WriteTracer the method it calls on the wrapped object in its return
// statement (`return r.RD.Name(args...)` / `return w.TX.Name(args...)`) and whether the arguments are the parameters in order.
func tracerFacts(t *T) ([]string, error) {
	af, err := t.ParseFile(sbTracerFile)
	if err != nil {
		return nil, err
	}
	var out []string
	for _, d := range af.Decls {
		fd, ok := d.(*ast.FuncDecl)
		if !ok || fd.Body == nil {
			continue
		}
		recv := sbRecv(fd)
		if recv != "ReadTracer" && recv != "WriteTracer" {
			continue
		}
		recvName := ""
		if len(fd.Recv.List[0].Names) == 1 {
			recvName = fd.Recv.List[0].Names[0].Name
		}
		var params []string
		variadic := false
		for _, f := range fd.Type.Params.List {
			if _, ok := f.Type.(*ast.Ellipsis); ok {
				variadic = true
			}
			for _, n := range f.Names {
				params = append(params, n.Name)
			}
		}
		callee, same := "?", false
		// the call on the wrapped object: the last statement, either `return x.F.M(...)` or the expression statement `x.F.M(...)`
		if n := len(fd.Body.List); n > 0 {
			var call *ast.CallExpr
			switch st := fd.Body.List[n-1].(type) {
			case *ast.ReturnStmt:
				if len(st.Results) == 1 {
					call, _ = st.Results[0].(*ast.CallExpr)
				}
			case *ast.ExprStmt:
				call, _ = st.X.(*ast.CallExpr)
			}
			if call != nil {
				if sel, ok := call.Fun.(*ast.SelectorExpr); ok {
					if inner, ok := sel.X.(*ast.SelectorExpr); ok {
						if id, ok := inner.X.(*ast.Ident); ok && id.Name == recvName && (inner.Sel.Name == "RD" || inner.Sel.Name == "TX") {
							callee = sel.Sel.Name
							same = len(call.Args) == len(params) && (call.Ellipsis.IsValid() == variadic)
							for i := 0; same && i < len(params); i++ {
								id, ok := call.Args[i].(*ast.Ident)
								same = ok && id.Name == params[i]
							}
						}
					}
				}
			}
			// nothing but the trace line may precede the call
			for _, st := range fd.Body.List[:n-1] {
				es, ok := st.(*ast.ExprStmt)
				if !ok {
					same = false
					continue
				}
				c, ok := es.X.(*ast.CallExpr)
				if !ok {
					same = false
					continue
				}
				if sel, ok := c.Fun.(*ast.SelectorExpr); !ok || !strings.HasPrefix(sel.Sel.Name, "Trace") {
					same = false
				}
			}
		}
		b := "false"
		if same {
			b = "true"
		}
		out = append(out, fmt.Sprintf("mkTracerFact %s %s %s %s", coqString(recv), coqString(fd.Name.Name), coqString(callee), b))
	}
	if len(out) == 0 {
		return nil, fmt.Errorf("no ReadTracer/WriteTracer methods found in %s", sbTracerFile)
	}
	return out, nil
}

var reMaxVars = regexp.MustCompile(`(?m)^#\s*define\s+SQLITE_MAX_VARIABLE_NUMBER\s+(\d+)`)

// sqliteMaxVariables reads SQLITE_MAX_VARIABLE_NUMBER from the sqlite3 amalgamation of the go-sqlite3 version that the
// repository's go.mod requires (module cache). Returns the value and a description of where it came from.
func sqliteMaxVariables(t *T) (int64, string) {
	const assumed = 32766
	gomod, err := t.ReadFile("go.mod")
	if err != nil {
		return assumed, "assumed (go.mod not readable): default of SQLite >= 3.32"
	}
	m := regexp.MustCompile(`github.com/mattn/go-sqlite3\s+(v\S+)`).FindStringSubmatch(gomod)
	if m == nil {
		return assumed, "assumed (go-sqlite3 not in go.mod): default of SQLite >= 3.32"
	}
	var roots []string
	if out, err := exec.Command("go", "env", "GOMODCACHE").Output(); err == nil {
		roots = append(roots, strings.TrimSpace(string(out)))
	}
	if h, err := os.UserHomeDir(); err == nil {
		roots = append(roots, filepath.Join(h, "go", "pkg", "mod"))
	}
	for _, r := range roots {
		file := filepath.Join(r, "github.com", "mattn", "go-sqlite3@"+m[1], "sqlite3-binding.c")
		b, err := os.ReadFile(file)
		if err != nil {
			continue
		}
		// the amalgamation defines it under `#ifndef`; go-sqlite3's cgo flags do not override it
		if mm := reMaxVars.FindSubmatch(b); mm != nil {
			v, err := strconv.ParseInt(string(mm[1]), 10, 64)
			if err == nil {
				return v, "go-sqlite3@" + m[1] + "/sqlite3-binding.c"
			}
		}
	}
	return assumed, "assumed (amalgamation of go-sqlite3@" + m[1] + " not found in the module cache): default of SQLite >= 3.32"
}

func extractSqlBind(t *T) (string, error) {
	// integer constants of db/client.go, in particular ChunkLimit
	cf, err := t.ParseFile(sbClientFile)
	if err != nil {
		return "", err
	}
	consts := map[string]int64{}
	var fold func(e ast.Expr) (int64, bool)
	fold = func(e ast.Expr) (int64, bool) {
		switch x := sbUnparen(e).(type) {
		case *ast.BasicLit:
			return sbIntLit(x)
		case *ast.Ident:
			v, ok := consts[x.Name]
			return v, ok
		case *ast.BinaryExpr:
			a, ok1 := fold(x.X)
			b, ok2 := fold(x.Y)
			if ok1 && ok2 {
				return sbFoldOp(x.Op, a, b)
			}
		}
		return 0, false
	}
	for _, d := range cf.Decls {
		gd, ok := d.(*ast.GenDecl)
		if !ok || gd.Tok != token.CONST {
			continue
		}
		for _, s := range gd.Specs {
			vs := s.(*ast.ValueSpec)
			for i, id := range vs.Names {
				if i < len(vs.Values) {
					if v, ok := fold(vs.Values[i]); ok {
						consts[id.Name] = v
					}
				}
			}
		}
	}
	limit, ok := consts["ChunkLimit"]
	if !ok {
		return "", fmt.Errorf("const ChunkLimit not found (or not an integer constant) in %s", sbClientFile)
	}

	var stmts, sqls, binds []string
	removeFlagNoCase, removeFlagSeen := false, false
	for _, rel := range []string{sbWriteFile, sbReadFile} {
		af, err := t.ParseFile(rel)
		if err != nil {
			return "", err
		}
		src, err := t.ReadFile(rel)
		if err != nil {
			return "", err
		}
		file := &sbFile{t: t, rel: rel, src: src, consts: consts}
		for _, d := range af.Decls {
			fd, ok := d.(*ast.FuncDecl)
			if !ok || fd.Body == nil {
				continue
			}
			if r := sbRecv(fd); r != "writeOps" && r != "readOps" {
				continue
			}
			fn := &sbFunc{sbFile: file, fd: fd}
			fn.collect()
			if fd.Name.Name == "RemoveFlagFromMessages" {
				// is the flag text compared case-insensitively (value = ? COLLATE NOCASE, or LOWER(value) = LOWER(?)) ?
				removeFlagSeen = true
				ast.Inspect(fd.Body, func(n ast.Node) bool {
					if c, ok := n.(*ast.CallExpr); ok {
						if pk, name := sbCallee(c); pk == "fmt" && name == "Sprintf" && len(c.Args) > 0 {
							if format, ok := sbStrConst(c.Args[0]); ok {
								up := strings.ToUpper(format)
								if strings.Contains(up, "= ? COLLATE NOCASE") || strings.Contains(up, "=? COLLATE NOCASE") ||
									(strings.Contains(up, "LOWER(`%V`)") && strings.Contains(up, "LOWER(?)")) {
									removeFlagNoCase = true
								}
							}
						}
					}
					return true
				})
			}
			stmts = append(stmts, fn.stmtFacts()...)
			sqls = append(sqls, fn.sqlFacts()...)
			binds = append(binds, fn.bindFacts()...)
		}
	}
	if !removeFlagSeen {
		return "", fmt.Errorf("method RemoveFlagFromMessages not found in %s", sbWriteFile)
	}
	if len(stmts) == 0 || len(sqls) == 0 {
		return "", fmt.Errorf("no chunked statements (%d) or no query texts (%d) found", len(stmts), len(sqls))
	}

	var sb strings.Builder
	fmt.Fprintf(&sb, "(* Source facts for C08 (SQL bind arguments / placeholders) extracted by translator/facts_sqlbind.go from\n     %s\n     %s\n     %s *)\n", sbClientFile, sbWriteFile, sbReadFile)
	sb.WriteString("From Coq Require Import String List NArith Bool.\nFrom Gluon Require Import Model.SqlBindFacts.\nImport ListNotations.\nOpen Scope string_scope.\nOpen Scope N_scope.\n\n")
	fmt.Fprintf(&sb, "(* const ChunkLimit in %s, constant-folded *)\nDefinition chunk_limit : N := %d.\n\n", sbClientFile, limit)
	fmt.Fprintf(&sb, "(* RemoveFlagFromMessages compares the flag text case-insensitively (COLLATE NOCASE / LOWER) *)\nDefinition remove_flag_nocase : bool := %v.\n\n", removeFlagNoCase)
	list := func(name, ty string, items []string) {
		fmt.Fprintf(&sb, "Definition %s : list %s := [\n  %s\n].\n", name, ty, strings.Join(items, ";\n  "))
	}
	sb.WriteString("(* one entry per statement executed inside a `range xslices.Chunk(X, N)` loop:\n   method, index, N, text of N, placeholders, bind arguments, origin of the arguments, needs an even chunk *)\n")
	list("stmt_facts", "stmt_fact", stmts)
	sb.WriteString("\n(* one entry per query text: method, index, first word, expression at the table position *)\n")
	list("sql_facts", "sql_fact", sqls)
	sb.WriteString("\n(* bind order: method, statement, placeholder, column of the placeholder, bind argument, declared type of the argument *)\n")
	list("bind_facts", "bind_fact", binds)
	tr, err := tracerFacts(t)
	if err != nil {
		return "", err
	}
	sb.WriteString("\n(* " + sbTracerFile + ": receiver, method, method called on the wrapped object, arguments = parameters in order *)\n")
	list("tracer_facts", "tracer_fact", tr)
	maxv, src := sqliteMaxVariables(t)
	fmt.Fprintf(&sb, "\n(* SQLITE_MAX_VARIABLE_NUMBER: %s *)\nDefinition sqlite_max_variable_number : N := %d.\nDefinition sqlite_max_variable_source : string := %s.\n", src, maxv, coqString(src))
	return sb.String(), nil
}
