package main

// Boundary IDs and the listing (C09: "listing yields exactly the stored IDs").
// Message IDs are UUIDs; the nil UUID and the all-ff UUID are IDs like any other, and IDs may differ in a single bit.
// With only store-written files in the directory the oracle demands List = stored IDs (as a multiset).  With other files
// present (names that are no IDs, an upper-case spelling of a stored ID, a file in a sub-directory) List must at least not
// invent IDs (a name that is no ID must not be listed as the nil UUID: C09-fix-3); the rest of the behaviour is recorded and
// compared with the model (Run/RunC09 KListing).

import (
	"bytes"
	"fmt"
	"os"
	"path/filepath"
	"sort"
	"strings"

	"github.com/ProtonMail/gluon/imap"
	"github.com/ProtonMail/gluon/store"
	"github.com/google/uuid"
)

func nilID() imap.InternalMessageID { return imap.InternalMessageID{UUID: uuid.Nil} }
func ffID() imap.InternalMessageID {
	var u uuid.UUID
	for i := range u {
		u[i] = 0xff
	}
	return imap.InternalMessageID{UUID: u}
}
func flipBit(id imap.InternalMessageID, bit int) imap.InternalMessageID {
	u := id.UUID
	u[bit/8] ^= 1 << uint(bit%8)
	return imap.InternalMessageID{UUID: u}
}

// boundaryIDs: nil, all-ff, a random ID and two IDs one bit away from it (first and last bit), one bit away from nil.
func (x *h) boundaryIDs() []imap.InternalMessageID {
	r := x.newID()
	return []imap.InternalMessageID{nilID(), ffID(), r, flipBit(r, 0), flipBit(r, 127), flipBit(nilID(), 7)}
}

func sortedIDs(l []imap.InternalMessageID) []string {
	var s []string
	for _, id := range l {
		s = append(s, id.String())
	}
	sort.Strings(s)
	return s
}

func (x *h) listings() error {
	ctx, res := x.ctx, x.ctx.Res
	for _, wrapped := range []bool{false, true} {
		dir := filepath.Join(filepath.Dir(x.dir), fmt.Sprintf("listing-%v", wrapped))
		base, err := store.NewOnDiskStore(dir, x.pass)
		if err != nil {
			return err
		}
		var st store.Store = base
		if wrapped {
			st = store.NewWriteControlledStore(base)
		}
		st = x.watch(st, "listing")
		canon := fmt.Sprintf("listing boundary-ids wrapped=%v", wrapped)
		ctx.Current(canon, nil)
		x.sit = situation{Scenario: canon}
		ids := x.boundaryIDs()
		content := map[string][]byte{}
		check := func(step string) {
			res.Evaluations++
			res.Count("listing")
			var want []imap.InternalMessageID
			for _, id := range ids {
				d, ok := content[id.String()]
				got, gerr := st.Get(id)
				if ok {
					want = append(want, id)
					if gerr != nil || !bytes.Equal(got, d) {
						res.Fail(canon+" result=get-mismatch", fmt.Sprintf("%s: Get(%s): err=%v, %d bytes, %d stored", step, id, gerr, len(got), len(d)), step)
					}
				} else if gerr == nil {
					res.Fail(canon+" result=get-of-absent-id", fmt.Sprintf("%s: Get(%s) answers although the ID is not stored", step, id), step)
				}
			}
			l, lerr := st.List()
			if lerr != nil {
				res.Fail(canon+" result=list-error", lerr.Error(), step)
				return
			}
			if g, w := sortedIDs(l), sortedIDs(want); strings.Join(g, ",") != strings.Join(w, ",") {
				res.Fail(canon+" result=list-differs", fmt.Sprintf("%s: List = %v, stored = %v", step, g, w), map[string]interface{}{"step": step, "listed": g, "stored": w})
			}
		}
		for k, id := range ids {
			d := x.content([]string{"text", "rand", "zero"}[k%3], []int{0, 1, 700, 70000}[k%4])
			if err := st.Set(id, bytes.NewReader(d)); err != nil {
				res.Fail(canon+" result=set-error", err.Error(), id.String())
				continue
			}
			content[id.String()] = d
			check(fmt.Sprintf("after Set #%d (%s)", k, id))
		}
		// overwrite the nil UUID, delete its one-bit neighbour, delete and store the all-ff ID again
		d := x.content("rand", 300)
		if err := st.Set(ids[0], bytes.NewReader(d)); err == nil {
			content[ids[0].String()] = d
		}
		check("after overwriting the nil UUID")
		if err := st.Delete(ids[5]); err != nil {
			res.Fail(canon+" result=delete-error", err.Error(), nil)
		}
		delete(content, ids[5].String())
		check("after deleting the neighbour of the nil UUID")
		if err := st.Delete(ids[1], ids[3]); err != nil {
			res.Fail(canon+" result=delete-error", err.Error(), nil)
		}
		delete(content, ids[1].String())
		delete(content, ids[3].String())
		check("after Delete(all-ff, neighbour)")
		d = x.content("text", 50)
		if err := st.Set(ids[1], bytes.NewReader(d)); err == nil {
			content[ids[1].String()] = d
		}
		check("after storing the all-ff ID again")
		res.Nontrivial(canon)

		// ---- other files in the directory: recorded for the model, not judged ----
		stored := len(content)
		_, zeroStored := content[nilID().String()]
		strays := []struct {
			name      string
			parseable bool
		}{
			{"README.txt", false},
			{".tmp-12345", false},
			{strings.ToUpper(ids[2].String()), true}, // another spelling of a stored ID
			{filepath.Join("sub", x.newID().String()), true},
			{filepath.Join("sub", "notes"), false},
		}
		nStray, nUnparsable := 0, 0
		for _, s := range strays {
			p := filepath.Join(dir, s.name)
			if err := os.MkdirAll(filepath.Dir(p), 0o700); err != nil {
				return err
			}
			if err := os.WriteFile(p, []byte("not a store file"), 0o600); err != nil {
				return err
			}
			nStray++
			if !s.parseable {
				nUnparsable++
			}
			l, lerr := st.List()
			listed, listedZero := 0, 0
			if lerr == nil {
				listed = len(l)
				for _, id := range l {
					if id == nilID() {
						listedZero++
					}
				}
			}
			// whatever List does with files that are not the store's, it must not invent IDs: every listed ID is the
			// name of a file of the directory (the nil UUID only if it is stored)
			wantZero := 0
			if zeroStored {
				wantZero = 1
			}
			if lerr == nil && listedZero > wantZero {
				res.Fail(canon+" result=foreign-file-listed-as-nil-id",
					fmt.Sprintf("the directory holds %d store files and the foreign file %q: List yields the nil UUID %d time(s) although it is stored %d time(s) (cleanupStaleStoreData then tries to delete it and gives up)", stored, s.name, listedZero, wantZero),
					map[string]interface{}{"foreign_file": s.name, "listed": sortedIDs(l)})
			}
			caseNo++
			res.Evaluations++
			res.Count("listing-with-other-files")
			x.cases = append(x.cases, fmt.Sprintf("mkCase %d 0 0 (KListing %d %d %d %s %d %d) OExact", caseNo, stored, nStray, nUnparsable,
				map[bool]string{true: "true", false: "false"}[zeroStored], listed, listedZero))
		}
		_ = os.RemoveAll(dir)
	}
	return nil
}
