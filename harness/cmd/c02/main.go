// Command c02: harness of property C02 (see verifharness/sess).
package main

import (
	"verifharness/common"
	"verifharness/sess"
)

func main() { common.Main("C02", sess.Harness("C02")) }
