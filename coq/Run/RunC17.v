(* Correspondence runner for C17: see Run/RunMailStore.v (shared by C04, C17, C20). *)
From Gluon Require Export Run.RunMailStore.
