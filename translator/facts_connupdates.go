package main

import (
	"fmt"
	"go/ast"
	"go/token"
	"strings"
)

// FactsConnUpdates (C06): two syntactic facts of internal/backend/connector_updates.go the model relies on.
//   - applyMailboxUpdated decides "nothing to rename" with the EXACT comparison `currentName == remoteName`
//     (a change of letter case is a rename);
//   - applyMessageMailboxesUpdated returns `append(stateUpdates, flagUpdates...)`: the membership updates (EXISTS /
//     EXPUNGE) of the update are queued BEFORE its flag updates.
func init() { register("ConnUpdates", extractConnUpdates) }

func extractConnUpdates(t *T) (string, error) {
	var sb strings.Builder
	sb.WriteString("From Coq Require Import Bool.\n\n")
	def := func(name, val, comment string) {
		if val == "" {
			fmt.Fprintf(&sb, "(* %s : pattern not found *)\n", name)
			return
		}
		fmt.Fprintf(&sb, "(* %s *)\nDefinition %s : bool := %s.\n", comment, name, val)
	}
	f, err := t.ParseFile("internal/backend/connector_updates.go")
	if err != nil {
		return "", err
	}
	v := ""
	if fd := FuncDecl(f, "user", "applyMailboxUpdated"); fd != nil {
		ast.Inspect(fd.Body, func(n ast.Node) bool {
			is, ok := n.(*ast.IfStmt)
			if !ok {
				return true
			}
			mentions := func(e ast.Expr) bool {
				found := false
				ast.Inspect(e, func(m ast.Node) bool {
					if id, ok := m.(*ast.Ident); ok && id.Name == "currentName" {
						found = true
					}
					return true
				})
				return found
			}
			if !mentions(is.Cond) {
				return true
			}
			v = "false"
			if be, ok := is.Cond.(*ast.BinaryExpr); ok && be.Op == token.EQL && isIdentNamed(be.X, "currentName") && isIdentNamed(be.Y, "remoteName") {
				v = "true"
			}
			return false
		})
	}
	def("mailbox_rename_compares_exactly", v, "applyMailboxUpdated: `if currentName == remoteName { return nil }`")
	v = ""
	if fd := FuncDecl(f, "user", "applyMessageMailboxesUpdated"); fd != nil {
		ast.Inspect(fd.Body, func(n ast.Node) bool {
			rs, ok := n.(*ast.ReturnStmt)
			if !ok || len(rs.Results) != 2 {
				return true
			}
			c, ok := rs.Results[0].(*ast.CallExpr)
			if !ok || !isIdentNamed(c.Fun, "append") || len(c.Args) != 2 {
				return true
			}
			v = "false"
			if isIdentNamed(c.Args[0], "stateUpdates") && isIdentNamed(c.Args[1], "flagUpdates") && c.Ellipsis != token.NoPos {
				v = "true"
			}
			return true
		})
	}
	def("mailbox_updates_before_flag_updates", v, "applyMessageMailboxesUpdated: `return append(stateUpdates, flagUpdates...), nil`")
	// applyMailboxCreated hands the three sets of the update to CreateMailbox, each in its place
	v = ""
	if fd := FuncDecl(f, "user", "applyMailboxCreated"); fd != nil {
		ast.Inspect(fd.Body, func(n ast.Node) bool {
			c, ok := n.(*ast.CallExpr)
			if !ok {
				return true
			}
			sel, ok := c.Fun.(*ast.SelectorExpr)
			if !ok || sel.Sel.Name != "CreateMailbox" || len(c.Args) != 7 {
				return true
			}
			v = "true"
			for i, want := range []string{"Flags", "PermanentFlags", "Attributes"} {
				if strings.Join(strings.Fields(t.Src("internal/backend/connector_updates.go", c.Args[3+i])), "") != "update.Mailbox."+want {
					v = "false"
				}
			}
			return false
		})
	}
	def("mailbox_created_passes_three_sets", v, "applyMailboxCreated: tx.CreateMailbox(ctx, id, name, update.Mailbox.Flags, update.Mailbox.PermanentFlags, update.Mailbox.Attributes, uidValidity)")
	// the LiteralSize of every message row a connector update inserts is the size returned by the function that builds the
	// stored literal (rfc822.SetHeaderValueNoMemCopy), not the length of the update's raw literal
	v = ""
	for _, fn := range []string{"applyMessagesCreated", "applyMessageUpdated"} {
		fd := FuncDecl(f, "user", fn)
		if fd == nil {
			v = ""
			break
		}
		sizeVars := map[string]bool{}
		ast.Inspect(fd.Body, func(n ast.Node) bool {
			as, ok := n.(*ast.AssignStmt)
			if !ok || len(as.Rhs) != 1 || len(as.Lhs) != 3 {
				return true
			}
			if c, ok := as.Rhs[0].(*ast.CallExpr); ok {
				if sel, ok := c.Fun.(*ast.SelectorExpr); ok && sel.Sel.Name == "SetHeaderValueNoMemCopy" {
					if id, ok := as.Lhs[1].(*ast.Ident); ok && id.Name != "_" {
						sizeVars[id.Name] = true
					}
				}
			}
			return true
		})
		found := false
		ast.Inspect(fd.Body, func(n ast.Node) bool {
			kv, ok := n.(*ast.KeyValueExpr)
			if !ok || !isIdentNamed(kv.Key, "LiteralSize") {
				return true
			}
			found = true
			if v == "" {
				v = "true"
			}
			if id, ok := kv.Value.(*ast.Ident); !ok || !sizeVars[id.Name] {
				v = "false"
			}
			return true
		})
		if !found {
			v = ""
			break
		}
	}
	def("created_size_is_stored_size", v, "applyMessagesCreated / applyMessageUpdated: `LiteralSize: literalSize` with `_, literalSize, _ := rfc822.SetHeaderValueNoMemCopy(...)`")
	return sb.String(), nil
}
