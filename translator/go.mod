module srcfacts

go 1.21

require (
	github.com/ProtonMail/gluon v0.0.0
	golang.org/x/text v0.9.0
)

require (
	github.com/bradenaw/juniper v0.12.0 // indirect
	github.com/google/uuid v1.3.0 // indirect
	github.com/pierrec/lz4/v4 v4.1.17 // indirect
	github.com/sirupsen/logrus v1.9.2 // indirect
	golang.org/x/exp v0.0.0-20230510235704-dd950f8aeaea // indirect
	golang.org/x/sys v0.8.0 // indirect
)

replace github.com/ProtonMail/gluon => /repo
