(* C14 — LIST/LSUB: getMatches returns exactly the names RFC matching selects among the offered names and their
   superiors, each once, with \Noselect as specified. *)
From Coq Require Import List NArith Bool Lia PeanoNat Arith.
From Gluon Require Import Model.MboxNames Model.WildcardSpec Model.MboxNamespace Model.MboxMatch.
From Gluon Require Import Proofs.MboxNamesProofs Proofs.MboxMatchProofs.
Import ListNotations.
Open Scope N_scope.

(* ---------- match() against RFC matching ---------- *)
Lemma ends_pct_app : forall a b, b <> [] -> ends_pct (a ++ b) = ends_pct b.
Proof.
  induction a as [|x a IH]; intros b H; auto.
  simpl app. rewrite ends_pct_cons; auto. destruct a; simpl; auto. discriminate.
Qed.

Lemma eqfold_inbox_not_pct : forall f, mb_eqfold f INBOX = true -> ends_pct f = false.
Proof.
  intros f H. unfold mb_eqfold in H. apply name_eqb_eq in H.
  destruct f as [|a [|b [|c [|e [|g [|h t]]]]]]; try discriminate H.
  cbn [map] in H. injection H as _ _ _ _ G.
  cbn [ends_pct]. destruct (g =? PCT) eqn:X; auto.
  apply N.eqb_eq in X. subst g. discriminate G.
Qed.

Lemma ends_pct_canon_first : forall d x, ends_pct (canon_first d x) = ends_pct x.
Proof.
  intros d x. unfold canon_first. assert (A := first_comp_app d x).
  destruct (first_comp d x) as [f r]. destruct (mb_eqfold f INBOX) eqn:F; auto.
  subst x. destruct r as [|y r].
  - rewrite !app_nil_r. rewrite (eqfold_inbox_not_pct f F). reflexivity.
  - rewrite !ends_pct_app; auto; discriminate.
Qed.

Lemma ends_pct_list_pattern : forall d ref pat, pat <> [] -> ends_pct (list_pattern d ref pat) = ends_pct pat.
Proof. intros d ref pat H. unfold list_pattern. rewrite ends_pct_canon_first. apply ends_pct_app; auto. Qed.

Lemma impl_match_unfold : forall d ref pat c, pat <> [] ->
  impl_match d ref pat c = rmatch (negb (ends_pct pat)) d (compile (list_pattern d ref pat)) c.
Proof. intros d ref pat c H. unfold impl_match. destruct pat; [exfalso; auto | reflexivity]. Qed.

(* what match() returns is a name RFC matching selects: the candidate itself, or — pattern ending in % — a superior *)
Lemma impl_match_sound : forall d ref pat c m, pat <> [] -> impl_match d ref pat c = Some m ->
  wm d (list_pattern d ref pat) m /\ (m = c \/ (ends_pct pat = true /\ is_superior d m c)).
Proof.
  intros d ref pat c m P H. rewrite impl_match_unfold in H; auto.
  destruct (rmatch_sound _ _ _ _ _ H) as [rest [E [W A]]]. split; auto.
  destruct rest as [|x rest].
  - left. rewrite app_nil_r in E. auto.
  - destruct (ends_pct pat) eqn:EP.
    + right. split; auto. simpl in H.
      assert (x = d).
      { apply (rmatch_boundary d (list_pattern d ref pat) c m x rest); auto.
        rewrite ends_pct_list_pattern; auto. }
      subst x. exists rest. auto.
    + simpl in A. specialize (A eq_refl). discriminate.
Qed.

(* a name RFC matching selects is returned as it is *)
Lemma impl_match_complete : forall d ref pat m, pat <> [] ->
  wm d (list_pattern d ref pat) m -> impl_match d ref pat m = Some m.
Proof. intros d ref pat m P W. rewrite impl_match_unfold; auto. apply rmatch_full; auto. Qed.

Lemma impl_match_iff : forall d ref pat m, pat <> [] ->
  (impl_match d ref pat m = Some m <-> wm d (list_pattern d ref pat) m).
Proof.
  intros d ref pat m P. split.
  - intro H. apply impl_match_sound in H; tauto.
  - apply impl_match_complete; auto.
Qed.

(* matchRoot: the root of the reference *)
Lemma hd_split_first_comp : forall d ref, hd [] (mb_split d ref) = fst (first_comp d ref).
Proof.
  induction ref as [|c ref IH]; [reflexivity|].
  cbn [mb_split first_comp]. destruct (c =? d); [reflexivity|].
  assert (NE := mb_split_nonempty d ref).
  destruct (mb_split d ref) as [|h r]; [exfalso; auto|].
  destruct (first_comp d ref) as [f r0]. cbn [hd fst] in *. subst. reflexivity.
Qed.

Lemma existsb_delim_app : forall d f r, ~ In d f ->
  existsb (N.eqb d) (f ++ r) = match r with [] => false | _ => existsb (N.eqb d) r end.
Proof.
  induction f as [|c f IH]; intros r H.
  - simpl. destruct r; reflexivity.
  - cbn [app existsb]. assert (X : (d =? c) = false).
    { apply N.eqb_neq. intro E. apply H. left. auto. }
    rewrite X. cbn [orb]. apply IH. intro Y. apply H. right. auto.
Qed.

Lemma spec_root_app : forall d f r', ~ In d f -> spec_root d (f ++ d :: r') = f ++ [d].
Proof.
  induction f as [|c f IH]; intros r' H.
  - simpl. rewrite N.eqb_refl. reflexivity.
  - cbn [app spec_root]. assert (X : (c =? d) = false).
    { apply N.eqb_neq. intro E. apply H. left. auto. }
    rewrite X. rewrite IH; [|intro Y; apply H; right; auto].
    destruct f; reflexivity.
Qed.

Lemma spec_root_nodelim : forall d f, ~ In d f -> spec_root d f = [].
Proof.
  induction f as [|c f IH]; intro H; [reflexivity|].
  cbn [spec_root]. assert (X : (c =? d) = false).
  { apply N.eqb_neq. intro E. apply H. left. auto. }
  rewrite X, IH; auto. intro Y. apply H. right. auto.
Qed.

Lemma match_root_spec : forall d ref, match_root d ref = spec_root d ref.
Proof.
  intros d ref. unfold match_root. rewrite hd_split_first_comp.
  assert (A := first_comp_app d ref).
  destruct (first_comp d ref) as [f r] eqn:E.
  destruct (first_comp_nodelim d ref f r E) as [NF R]. cbn [fst]. subst ref.
  rewrite existsb_delim_app; auto.
  destruct R as [R|[r' R]]; subst r.
  - cbn [negb]. rewrite app_nil_r. symmetry. apply spec_root_nodelim; auto.
  - cbn [existsb]. rewrite N.eqb_refl. cbn [orb negb].
    rewrite spec_root_app; auto.
    destruct f as [|c f].
    + cbn [app mb_begins]. rewrite N.eqb_refl. cbn [app]. rewrite name_eqb_refl.
      destruct (name_eqb [d] []); reflexivity.
    + cbn [app mb_begins]. assert (X : (c =? d) = false).
      { apply N.eqb_neq. intro Y. apply NF. left. auto. }
      rewrite X. cbn [app].
      assert (Y : name_eqb (c :: f) [] = false) by reflexivity.
      assert (Z : name_eqb (c :: f) [d] = false) by (cbn [name_eqb]; rewrite X; reflexivity).
      rewrite Y, Z. reflexivity.
Qed.

Lemma NoDup_app_single : forall (A : Type) (l : list A) a, NoDup l -> ~ In a l -> NoDup (l ++ [a]).
Proof.
  induction l as [|x l IH]; intros a N H; simpl.
  - constructor; auto.
  - inversion N; subst. constructor.
    + rewrite in_app_iff. intros [X|[X|[]]]; auto. subst. apply H. left. auto.
    + apply IH; auto. intro X. apply H. right. auto.
Qed.

(* ---------- getMatches ---------- *)
Section GetMatches.
Variables (d : N) (lsub : bool) (ref pat : name) (mbs : list mmbox).
Hypothesis Hpat : pat <> [].
Hypothesis Hnodup : NoDup (map fst mbs).

Definition entry (m : name) : option lmatch :=
  match mm_lookup mbs m with
  | Some e => Some (m, negb (name_eqb m []) && snd e)
  | None => if lsub && negb (ends_pct pat) then None else Some (m, false)
  end.

Definition gm_step (mb : mmbox) (acc : list lmatch) (cand : name) : list lmatch :=
  match impl_match d ref pat cand with
  | None => acc
  | Some m =>
      if lm_has acc m then acc
      else match prepare_match lsub (ends_pct pat) m (mm_lookup mbs m) (name_eqb (fst mb) m) with
           | Some x => acc ++ [x]
           | None => acc
           end
  end.

Lemma get_matches_unfold :
  get_matches d lsub ref pat mbs =
  fold_left (fun acc mb => fold_left (gm_step mb) (list_superiors d (fst mb) ++ [fst mb]) acc) mbs [].
Proof. reflexivity. Qed.

Lemma mm_lookup_some : forall m e, mm_lookup mbs m = Some e -> In e mbs /\ fst e = m.
Proof.
  intros m e H. unfold mm_lookup in H. apply find_some in H. destruct H as [H1 H2].
  apply in_rev in H1. apply name_eqb_eq in H2. auto.
Qed.

Lemma mm_lookup_none : forall m, mm_lookup mbs m = None -> ~ In m (map fst mbs).
Proof.
  intros m H X. unfold mm_lookup in H. apply in_map_iff in X. destruct X as [e [E I]].
  assert (Y := find_none _ _ H e). rewrite <- in_rev in Y. specialize (Y I).
  simpl in Y. rewrite E, name_eqb_refl in Y. discriminate.
Qed.

Lemma nodup_fst_unique : forall (l : list mmbox) e1 e2, NoDup (map fst l) -> In e1 l -> In e2 l -> fst e1 = fst e2 -> e1 = e2.
Proof.
  induction l as [|x l IH]; intros e1 e2 N I1 I2 E; [destruct I1|].
  simpl in N. inversion N as [|? ? N1 N2]; subst.
  destruct I1 as [I1|I1]; destruct I2 as [I2|I2]; subst; auto.
  - exfalso. apply N1. rewrite E. apply in_map. auto.
  - exfalso. apply N1. rewrite <- E. apply in_map. auto.
Qed.

Lemma mm_lookup_in : forall e, In e mbs -> mm_lookup mbs (fst e) = Some e.
Proof.
  intros e I. destruct (mm_lookup mbs (fst e)) as [e'|] eqn:L.
  - apply mm_lookup_some in L. destruct L as [L1 L2].
    f_equal. apply (nodup_fst_unique mbs); auto.
  - exfalso. apply mm_lookup_none in L. apply L. apply in_map. auto.
Qed.

Lemma prepare_is_entry : forall mb m, In mb mbs ->
  prepare_match lsub (ends_pct pat) m (mm_lookup mbs m) (name_eqb (fst mb) m) = entry m.
Proof.
  intros mb m I. unfold prepare_match, entry.
  destruct (mm_lookup mbs m) as [e|] eqn:L.
  - destruct lsub; simpl; destruct (name_eqb m []); simpl; reflexivity.
  - assert (X : name_eqb (fst mb) m = false).
    { apply name_eqb_neq. intro E. apply mm_lookup_none in L. apply L. rewrite <- E. apply in_map. auto. }
    rewrite X. destruct lsub; simpl; destruct (ends_pct pat); simpl; reflexivity.
Qed.

Lemma entry_fst : forall m x, entry m = Some x -> fst x = m.
Proof.
  intros m x H. unfold entry in H. destruct (mm_lookup mbs m).
  - injection H as H. subst. auto.
  - destruct (lsub && negb (ends_pct pat)); [discriminate|]. injection H as H. subst. auto.
Qed.

Definition acc_inv (acc : list lmatch) : Prop :=
  (forall y, In y acc -> entry (fst y) = Some y) /\ NoDup (map fst acc).

Lemma lm_has_spec : forall acc m, lm_has acc m = true <-> exists y, In y acc /\ fst y = m.
Proof.
  intros acc m. unfold lm_has. rewrite existsb_exists. split; intros [y [H1 H2]]; exists y; split; auto.
  - apply name_eqb_eq; auto.
  - apply name_eqb_eq; auto.
Qed.

Definition hit (c : name) (x : lmatch) : Prop := impl_match d ref pat c = Some (fst x) /\ entry (fst x) = Some x.

Lemma gm_step_spec : forall mb acc c, In mb mbs -> acc_inv acc ->
  acc_inv (gm_step mb acc c) /\ (forall x, In x (gm_step mb acc c) <-> In x acc \/ hit c x).
Proof.
  intros mb acc c I [A1 A2]. unfold gm_step, hit.
  destruct (impl_match d ref pat c) as [m|] eqn:M.
  - destruct (lm_has acc m) eqn:Hs.
    + split; [split; auto|]. intro x. split; [auto|]. intros [H|[H1 H2]]; auto.
      injection H1 as H1. subst m.
      apply lm_has_spec in Hs. destruct Hs as [y [Y1 Y2]].
      assert (Y3 := A1 y Y1). rewrite Y2, H2 in Y3. injection Y3 as Y3. subst. auto.
    + rewrite prepare_is_entry; auto. destruct (entry m) as [x0|] eqn:En.
      * assert (F := entry_fst m x0 En).
        split; [split|].
        -- intros y Y. apply in_app_iff in Y. destruct Y as [Y|[Y|[]]]; auto. subst y. rewrite F. auto.
        -- rewrite map_app. simpl. apply NoDup_app_single; auto.
           rewrite F. intro X. apply in_map_iff in X. destruct X as [y [Y1 Y2]].
           assert (Z : lm_has acc m = true) by (apply lm_has_spec; exists y; auto).
           rewrite Z in Hs. discriminate.
        -- intro x. rewrite in_app_iff. simpl. split.
           ++ intros [H|[H|[]]]; auto. subst x0. right. rewrite F. auto.
           ++ intros [H|[H1 H2]]; auto. injection H1 as H1. rewrite <- H1 in H2. rewrite H2 in En. injection En as En. auto.
      * split; [split; auto|]. intro x. split; auto. intros [H|[H1 H2]]; auto.
        injection H1 as H1. rewrite <- H1 in H2. rewrite H2 in En. discriminate.
  - split; [split; auto|]. intro x. split; auto. intros [H|[H1 H2]]; auto. discriminate.
Qed.

Lemma inner_fold_spec : forall mb cands acc, In mb mbs -> acc_inv acc ->
  acc_inv (fold_left (gm_step mb) cands acc) /\
  (forall x, In x (fold_left (gm_step mb) cands acc) <-> In x acc \/ exists c, In c cands /\ hit c x).
Proof.
  induction cands as [|a cands IH]; intros acc I A; simpl.
  - split; auto. intro x. split; auto. intros [H|[c [[] _]]]; auto.
  - destruct (gm_step_spec mb acc a I A) as [A' S].
    destruct (IH (gm_step mb acc a) I A') as [A'' S'']. split; auto.
    intro x. rewrite S'', S. split.
    + intros [[H|H]|[c [C H]]]; auto; right; [exists a | exists c]; auto.
    + intros [H|[c [[C|C] H]]]; auto; [subst; auto | right; exists c; auto].
Qed.

Definition cands_of (mb : mmbox) : list name := list_superiors d (fst mb) ++ [fst mb].

Lemma outer_fold_spec : forall l acc, (forall mb, In mb l -> In mb mbs) -> acc_inv acc ->
  acc_inv (fold_left (fun acc mb => fold_left (gm_step mb) (cands_of mb) acc) l acc) /\
  (forall x, In x (fold_left (fun acc mb => fold_left (gm_step mb) (cands_of mb) acc) l acc) <->
             In x acc \/ exists mb c, In mb l /\ In c (cands_of mb) /\ hit c x).
Proof.
  induction l as [|a l IH]; intros acc Sub A; simpl.
  - split; auto. intro x. split; auto. intros [H|[mb [c [[] _]]]]; auto.
  - assert (Ia : In a mbs) by (apply Sub; left; auto).
    destruct (inner_fold_spec a (cands_of a) acc Ia A) as [A' S].
    destruct (IH (fold_left (gm_step a) (cands_of a) acc) (fun mb H => Sub mb (or_intror H)) A') as [A'' S''].
    split; auto. intro x. rewrite S'', S. split.
    + intros [[H|[c [C H]]]|[mb [c [M [C H]]]]]; auto; right; [exists a, c | exists mb, c]; auto.
    + intros [H|[mb [c [[M|M] [C H]]]]]; auto.
      * subst. left. right. exists c. auto.
      * right. exists mb, c. auto.
Qed.

Lemma get_matches_spec :
  NoDup (map fst (get_matches d lsub ref pat mbs)) /\
  (forall x, In x (get_matches d lsub ref pat mbs) <-> exists mb c, In mb mbs /\ In c (cands_of mb) /\ hit c x).
Proof.
  rewrite get_matches_unfold.
  assert (A : acc_inv []) by (split; [intros y []|constructor]).
  destruct (outer_fold_spec mbs [] (fun mb H => H) A) as [[A1 A2] S]. split; auto.
  intro x. rewrite S. split; [intros [[]|H]; auto | auto].
Qed.

Lemma existsb_unique : forall e, In e mbs ->
  existsb (fun x => name_eqb (fst x) (fst e) && snd x) mbs = snd e.
Proof.
  intros e I. destruct (snd e) eqn:S.
  - apply existsb_exists. exists e. rewrite name_eqb_refl, S. auto.
  - destruct (existsb (fun x => name_eqb (fst x) (fst e) && snd x) mbs) eqn:X; auto.
    apply existsb_exists in X. destruct X as [y [Y1 Y2]]. apply andb_true_iff in Y2 as [Y2 Y3].
    apply name_eqb_eq in Y2. assert (y = e) by (apply (nodup_fst_unique mbs); auto). subst y.
    rewrite S in Y3. discriminate.
Qed.
End GetMatches.

(* ---------- LIST / LSUB are exact ---------- *)
Lemma in_cands_of : forall d mb c, In c (cands_of d mb) <-> c = fst mb \/ is_superior d c (fst mb).
Proof.
  intros d mb c. unfold cands_of. rewrite in_app_iff, list_superiors_spec. simpl. split.
  - intros [H|[H|[]]]; auto.
  - intros [H|H]; auto.
Qed.

Lemma get_matches_exact : forall d st lsub ref pat, NoDup (offered st lsub) -> pat <> [] ->
  NoDup (map fst (get_matches d lsub ref pat (list_input st lsub))) /\
  forall m sel, In (m, sel) (get_matches d lsub ref pat (list_input st lsub)) <-> spec_listed d st lsub ref pat m sel.
Proof.
  intros d st lsub ref pat ND P. unfold offered in *.
  set (mbs := list_input st lsub) in *.
  destruct (get_matches_spec d lsub ref pat mbs) as [N S]. split; auto.
  intros m sel. rewrite S. unfold spec_listed, hit, offered, offered_selectable. fold mbs. cbn [fst].
  split.
  - intros [mb [c [I [C [M En]]]]].
    destruct (impl_match_sound d ref pat c m P M) as [W B]. split; auto.
    unfold entry in En. destruct (mm_lookup mbs m) as [e|] eqn:L.
    + left. destruct (mm_lookup_some mbs m e L) as [L1 L2]. split.
      * rewrite <- L2. apply in_map. auto.
      * injection En as En. subst sel. subst m. rewrite (existsb_unique mbs ND e L1). apply andb_comm.
    + right. assert (NI := mm_lookup_none mbs m L).
      destruct (lsub && negb (ends_pct pat)) eqn:Q; [discriminate|]. injection En as En.
      split; auto. split; [|split; auto].
      * exists (fst mb). split; [apply in_map; auto|].
        apply in_cands_of in C.
        destruct B as [B|[B1 B2]]; destruct C as [C|C]; subst.
        -- exfalso. apply NI. apply in_map. auto.
        -- auto.
        -- auto.
        -- apply (is_superior_trans d m c (fst mb)); auto.
      * intro Ls. subst lsub. simpl in Q. apply negb_false_iff in Q. auto.
  - intros [W [[I Sel]|[NI [[n [In Sup]] [Sel Q]]]]].
    + apply in_map_iff in I. destruct I as [e [E I]].
      exists e, m. split; auto. split; [apply in_cands_of; auto|].
      split; [apply impl_match_complete; auto|].
      unfold entry. subst m. rewrite (mm_lookup_in mbs ND e I). f_equal. f_equal.
      rewrite Sel. rewrite (existsb_unique mbs ND e I). apply andb_comm.
    + apply in_map_iff in In. destruct In as [e [E In]].
      exists e, m. split; auto. split; [apply in_cands_of; right; rewrite E; auto|].
      split; [apply impl_match_complete; auto|].
      unfold entry. destruct (mm_lookup mbs m) as [e'|] eqn:L.
      * exfalso. apply NI. destruct (mm_lookup_some mbs m e' L) as [L1 L2]. rewrite <- L2. apply in_map. auto.
      * subst sel. destruct lsub; simpl; auto. rewrite (Q eq_refl). reflexivity.
Qed.

Lemma list_exact_lemma : forall d st lsub ref pat, NoDup (offered st lsub) -> pat <> [] ->
  NoDup (map fst (impl_list d st lsub ref pat)) /\
  forall m sel, In (m, sel) (impl_list d st lsub ref pat) <-> spec_listed d st lsub (parse_mailbox ref) pat m sel.
Proof. intros d st lsub ref pat ND P. unfold impl_list. apply get_matches_exact; auto. Qed.

(* the offered names are distinct in a well-formed state *)
Lemma NoDup_map_filter : forall (A B : Type) (f : A -> B) (p : A -> bool) l, NoDup (map f l) -> NoDup (map f (filter p l)).
Proof.
  induction l as [|x l IH]; intro N; simpl; auto.
  simpl in N. inversion N; subst. destruct (p x); simpl; auto.
  constructor; auto. intro X. apply in_map_iff in X. destruct X as [y [Y1 Y2]].
  apply filter_In in Y2. destruct Y2 as [Y2 _]. apply H1. rewrite <- Y1. apply in_map. auto.
Qed.

Lemma NoDup_app_disjoint : forall (A : Type) (a b : list A), NoDup a -> NoDup b -> (forall x, In x b -> ~ In x a) -> NoDup (a ++ b).
Proof.
  induction a as [|x a IH]; intros b Na Nb D; simpl; auto.
  inversion Na; subst. constructor.
  - rewrite in_app_iff. intros [X|X]; auto. apply (D x X). left. auto.
  - apply IH; auto. intros y Y Z. apply (D y Y). right. auto.
Qed.

Lemma offered_nodup : forall st lsub, ns_wf st -> NoDup (offered st lsub).
Proof.
  intros st lsub [W1 [W2 [W3 [W4 W5]]]]. unfold offered, list_input, visible_rows.
  destruct lsub.
  - rewrite map_app, !map_map. cbn [fst].
    apply NoDup_app_disjoint.
    + change (fun x : mrow => m_name x) with m_name. apply NoDup_map_filter. apply NoDup_map_filter. exact W1.
    + rewrite map_id. exact W5.
    + intros x X Y. rewrite map_id in X. apply (W4 x X).
      apply in_map_iff in Y. destruct Y as [r [R1 R2]]. apply filter_In in R2. destruct R2 as [R2 _].
      apply filter_In in R2. destruct R2 as [R2 _]. rewrite <- R1. apply in_map. auto.
  - rewrite map_map. cbn [fst]. change (fun x : mrow => m_name x) with m_name. apply NoDup_map_filter. exact W1.
Qed.
