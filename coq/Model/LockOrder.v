(* C19 — lock order.  Model of threads holding and requesting locks (sync.Mutex / sync.RWMutex / sync.Cond.L of
   server.go, internal/backend/{backend,user}.go, internal/session/session.go, internal/db_impl/sqlite3/client.go,
   store/write_controlled_store.go, async/queued_channel.go, internal/utils/message_hashmap.go).
   The nestings themselves are NOT written here: they are extracted from the source on every run
   (coq/Gen/FactsLocks.v, translator/facts_locks.go).  This file holds the generic notions, the ranking that the
   extracted table is checked against, and the names of the locks that are confined to one session.
   No proofs in this file. *)
From Coq Require Import List String Arith Bool.
From Gluon Require Import Gen.FactsLocks.
Import ListNotations.
Open Scope string_scope.

Definition lock := string.

(* what a thread (goroutine) holds and, if it is blocked on a lock, which one it is waiting for *)
Record thread := mkThread { held : list lock; waiting : option lock }.

(* thread i is blocked on a lock that thread j holds *)
Definition waits_for (ts : list thread) (i j : nat) : Prop :=
  exists ti tj w, nth_error ts i = Some ti /\ nth_error ts j = Some tj /\ waiting ti = Some w /\ In w (held tj).

(* a chain i -> ... -> k of n >= 1 such waits *)
Inductive chain (ts : list thread) : nat -> nat -> nat -> Prop :=
| chain_one i j : waits_for ts i j -> chain ts i j 1
| chain_step i j k n : waits_for ts i j -> chain ts j k n -> chain ts i k (S n).

(* the discipline: whatever a thread waits for ranks above everything it holds *)
Definition respects (rank : lock -> nat) (t : thread) : Prop :=
  forall w l, waiting t = Some w -> In l (held t) -> rank l < rank w.

(* ---- the ranking the extracted table is checked against ---- *)
(* Session.userLock / Session.capsLock belong to ONE session and are only taken by the goroutine that executes that
   session's current command (commands of a session run one at a time: Session.serve waits for the handler before it
   reads the next command) and by addSession before the session starts: they are never contended, so no thread ever
   WAITS for them.  handleCapability takes capsLock then userLock while handleLogin/handleLogout take them the other way
   round; between different threads that would be an inversion, within one sequential session it is not. *)
Definition confined_locks : list lock := ["Session.userLock"; "Session.capsLock"].
Definition confined (l : lock) : bool := existsb (String.eqb l) confined_locks.

Definition rank_table : list (lock * nat) :=
  [("Session.userLock", 0); ("Session.capsLock", 0);
   ("Server.sessionsLock", 1);
   ("Server.nextIDLock", 2); ("Server.watchersLock", 2);
   ("Backend.usersLock", 3);
   ("Backend.loginLock", 4);
   ("Client.lock", 5);                       (* the SQLite client's RWMutex: held for a whole transaction *)
   ("user.statesLock", 6); ("MessageHashesMap.lock", 6); ("WriteControlledStore.lock", 6); ("syncRef.lock", 6);
   ("Cond.L", 7);                            (* QueuedChannel: the innermost lock *)
   ("ExistsStateUpdate.lock", 8); ("Abortable.abortLock", 8); ("Semaphore.rw", 8);
   (* introduced by notes/C19-fix-1.diff (guards of a state's snapshot against State.HasMessage from other goroutines):
      innermost, nothing is requested while they are held *)
   ("State.snapLock", 8); ("snapMsgList.idxLock", 8)].

Fixpoint lookup (l : lock) (t : list (lock * nat)) : option nat :=
  match t with [] => None | (k, v) :: r => if String.eqb l k then Some v else lookup l r end.

(* a lock that is not in the table has no rank: the check below then fails and the table must be revisited *)
Definition rank (l : lock) : nat := match lookup l rank_table with Some n => n | None => 0 end.
Definition ranked (l : lock) : bool := match lookup l rank_table with Some _ => true | None => false end.

Definition edge_outer (e : string * string * string) : lock := fst (fst e).
Definition edge_inner (e : string * string * string) : lock := snd (fst e).

(* an extracted nesting is in order when the requested lock is confined (never waited for) or ranks strictly higher *)
Definition edge_ok (e : string * string * string) : bool :=
  ranked (edge_outer e) && ranked (edge_inner e) &&
  (confined (edge_inner e) || Nat.ltb (rank (edge_outer e)) (rank (edge_inner e))).

Definition table_ok : bool := forallb edge_ok lock_edges && forallb ranked lock_names.

(* the thread only nests locks the way some extracted edge says *)
Definition follows_table (t : thread) : Prop :=
  forall w l, waiting t = Some w -> In l (held t) -> In (l, w) (map fst lock_edges).
Definition never_waits_confined (t : thread) : Prop :=
  forall w, waiting t = Some w -> confined w = false.
