package main

// T1 extractor for C12: which rule imap/structure.go structure() uses to choose between singlePartStructure and the
// multipart form. Recognised: the `if <cond> { return singlePartStructure(...) }` statement of func structure with
//
//	<cond> = len(children) == 0                                     -> structure_msg_single = false
//	<cond> = len(children) == 0 || (<...> "message" ... "rfc822")   -> structure_msg_single = true
//
// (the second operand must mention both string literals). Anything else fails.

import (
	"fmt"
	"go/ast"
	"go/token"
	"strings"
)

func init() { register("Structure", factsStructure) }

func isLenZero(e ast.Expr) bool {
	if p, ok := e.(*ast.ParenExpr); ok {
		return isLenZero(p.X)
	}
	b, ok := e.(*ast.BinaryExpr)
	if !ok || b.Op != token.EQL {
		return false
	}
	call, ok := b.X.(*ast.CallExpr)
	if !ok || len(call.Args) != 1 {
		return false
	}
	if f, ok := call.Fun.(*ast.Ident); !ok || f.Name != "len" {
		return false
	}
	lit, ok := b.Y.(*ast.BasicLit)
	return ok && lit.Value == "0"
}

// isEqString: <ident> == "<s>"
func isEqString(e ast.Expr, s string) bool {
	if p, ok := e.(*ast.ParenExpr); ok {
		return isEqString(p.X, s)
	}
	b, ok := e.(*ast.BinaryExpr)
	if !ok || b.Op != token.EQL {
		return false
	}
	l, ok := b.Y.(*ast.BasicLit)
	return ok && l.Kind == token.STRING && strings.Trim(l.Value, "\"`") == s
}

func mentionsStrings(e ast.Expr, want ...string) bool {
	found := map[string]bool{}
	ast.Inspect(e, func(n ast.Node) bool {
		if l, ok := n.(*ast.BasicLit); ok && l.Kind == token.STRING {
			found[strings.Trim(l.Value, "\"`")] = true
		}
		return true
	})
	for _, w := range want {
		if !found[w] {
			return false
		}
	}
	return true
}

func factsStructure(t *T) (string, error) {
	const file = "imap/structure.go"
	f, err := t.ParseFile(file)
	if err != nil {
		return "", err
	}
	fd := FuncDecl(f, "", "structure")
	if fd == nil || fd.Body == nil {
		return "", fmt.Errorf("func structure not found in %s", file)
	}
	var cond ast.Expr
	for _, st := range fd.Body.List {
		is, ok := st.(*ast.IfStmt)
		if !ok || is.Else != nil || len(is.Body.List) != 1 {
			continue
		}
		ret, ok := is.Body.List[0].(*ast.ReturnStmt)
		if !ok || len(ret.Results) != 1 {
			continue
		}
		call, ok := ret.Results[0].(*ast.CallExpr)
		if !ok {
			continue
		}
		if id, ok := call.Fun.(*ast.Ident); ok && id.Name == "singlePartStructure" {
			if cond != nil {
				return "", fmt.Errorf("more than one `return singlePartStructure` in structure()")
			}
			cond = is.Cond
		}
	}
	if cond == nil {
		return "", fmt.Errorf("`if ... { return singlePartStructure(...) }` not found in structure()")
	}
	val := ""
	switch {
	case isLenZero(cond):
		val = "false"
	default:
		if b, ok := cond.(*ast.BinaryExpr); ok && b.Op == token.LOR && isLenZero(b.X) && mentionsStrings(b.Y, "message", "rfc822") {
			val = "true"
		}
	}
	if val == "" {
		return "", fmt.Errorf("unrecognised condition: %s", t.Src(file, cond))
	}
	// which single parts get a line count: the `if` in singlePartStructure that guards addNumber(writer, countLines(...))
	sp := FuncDecl(f, "", "singlePartStructure")
	if sp == nil || sp.Body == nil {
		return "", fmt.Errorf("func singlePartStructure not found in %s", file)
	}
	var lcond ast.Expr
	for _, st := range sp.Body.List {
		is, ok := st.(*ast.IfStmt)
		if !ok || is.Else != nil {
			continue
		}
		uses := false
		ast.Inspect(is.Body, func(n ast.Node) bool {
			if id, ok := n.(*ast.Ident); ok && id.Name == "countLines" {
				uses = true
			}
			return true
		})
		if uses {
			if lcond != nil {
				return "", fmt.Errorf("more than one statement calls countLines in singlePartStructure")
			}
			lcond = is.Cond
		}
	}
	if lcond == nil {
		return "", fmt.Errorf("`if ... { ... countLines ... }` not found in singlePartStructure")
	}
	// <x> == "text" || (<x> == "message" && <y> == "rfc822")  -> false ;  <x> == "text" || <x> == "message" -> true
	lval := ""
	if b, ok := lcond.(*ast.BinaryExpr); ok && b.Op == token.LOR && isEqString(b.X, "text") {
		y := b.Y
		if p, ok := y.(*ast.ParenExpr); ok {
			y = p.X
		}
		if isEqString(y, "message") {
			lval = "true"
		} else if a, ok := y.(*ast.BinaryExpr); ok && a.Op == token.LAND && isEqString(a.X, "message") && isEqString(a.Y, "rfc822") {
			lval = "false"
		}
	}
	if lval == "" {
		return "", fmt.Errorf("unrecognised line-count condition: %s", t.Src(file, lcond))
	}
	lsrc := strings.ReplaceAll(strings.ReplaceAll(strings.ReplaceAll(t.Src(file, lcond), "*)", "* )"), "(*", "( *"), "\"", "'")
	src := strings.ReplaceAll(strings.ReplaceAll(t.Src(file, cond), "*)", "* )"), "(*", "( *")
	src = strings.ReplaceAll(src, "\"", "'")
	return "(* C12: imap/structure.go structure(): singlePartStructure is chosen when\n     " + src + "\n   true = a message/rfc822 section is always a single part; false = only the number of children decides. *)\n" +
		"Definition structure_msg_single : bool := " + val + ".\n" +
		"(* singlePartStructure(): a line count is written when\n     " + lsrc + "\n   false = type text and message/rfc822 only; true = type text and every message/... type. *)\n" +
		"Definition structure_lines_any_message : bool := " + lval + ".\n", nil
}
