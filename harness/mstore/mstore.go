// Package mstore drives histories of mailbox/message operations (properties C04, C17, C20) against an in-process
// gluon server over the wire, observes the results and the full mailbox contents through a separate probe
// session, and renders histories + observations as Gallina terms for coq/Run/RunMailStore.v.
package mstore

import (
	"bytes"
	"context"
	"errors"
	"fmt"
	"regexp"
	"sort"
	"strconv"
	"strings"
	"time"

	"github.com/ProtonMail/gluon/connector"
	"github.com/ProtonMail/gluon/db"
	"github.com/ProtonMail/gluon/imap"
	"github.com/ProtonMail/gluon/limits"
	"github.com/ProtonMail/gluon/rfc822"
	"github.com/ProtonMail/gluon/store"

	"verifharness/hconn"
	"verifharness/imapc"
	"verifharness/srv"
)

const RecoveryName = "Recovered Messages"

// ---- histories ----

type BatchMsg struct {
	Lit    int      `json:"lit"`
	Mboxes []string `json:"mboxes"`
}

type Op struct {
	Kind     string     `json:"kind"` // create delete rename append copy move expunge conncreate connmsgs connbump restart
	Name     string     `json:"name,omitempty"`
	Name2    string     `json:"name2,omitempty"`
	Lit      int        `json:"lit,omitempty"`
	Remote   string     `json:"remote,omitempty"` // append: ok fail size
	UIDs     []int      `json:"uids,omitempty"`
	CreateOK bool       `json:"create_ok"`
	LabelOK  bool       `json:"label_ok"`
	RemoteOK bool       `json:"remote_ok"`
	Batch    []BatchMsg `json:"batch,omitempty"`
	Flags    string     `json:"flags,omitempty"` // append: flag list, e.g. `\\Seen \\Deleted`
	Names    []string   `json:"names,omitempty"` // statecreate: mailboxes announced through connector.IMAPStateWrite.CreateMailbox; connupdate: the announced mailboxes
	// connupdate: the connector sends MessageUpdated for the message at Name / UIDs[0], announcing the mailboxes Names and
	// the flags Flags; Replace = with another literal (Lit), otherwise with the literal the message has
	Replace bool `json:"replace,omitempty"`
	// append with Remote "fail": the local message store refuses the write of the recovery copy (needs Config.Store)
	StoreFails bool `json:"store_fails,omitempty"`
	Sess     int        `json:"sess,omitempty"`
}

func (o Op) String() string {
	fl := ""
	switch o.Kind {
	case "append":
		sf := ""
		if o.StoreFails {
			sf = ",local-store-write-fails"
		}
		if o.Flags != "" {
			return fmt.Sprintf("append(%s,(%s),L%d,%s%s)", o.Name, o.Flags, o.Lit, o.Remote, sf)
		}
		return fmt.Sprintf("append(%s,L%d,%s%s)", o.Name, o.Lit, o.Remote, sf)
	case "copy", "move":
		if !o.CreateOK {
			fl += ",create-fails"
		}
		if !o.LabelOK {
			fl += ",label-fails"
		}
		return fmt.Sprintf("%s(%s,%v,%s%s)", o.Kind, o.Name, o.UIDs, o.Name2, fl)
	case "expunge":
		if !o.RemoteOK {
			fl = ",remote-fails"
		}
		return fmt.Sprintf("expunge(%s,%v%s)", o.Name, o.UIDs, fl)
	case "create", "delete":
		if !o.RemoteOK {
			fl = ",remote-fails"
		}
		return fmt.Sprintf("%s(%s%s)", o.Kind, o.Name, fl)
	case "rename":
		return fmt.Sprintf("rename(%s,%s)", o.Name, o.Name2)
	case "conncreate":
		return fmt.Sprintf("conncreate(%s)", o.Name)
	case "connrestate":
		return fmt.Sprintf("connrestate(%s)", o.Name)
	case "statecreate":
		return fmt.Sprintf("statecreate(%s)", strings.Join(o.Names, "+"))
	case "connremsg":
		return "connremsg(last batch again)"
	case "connupdate":
		u := 0
		if len(o.UIDs) > 0 {
			u = o.UIDs[0]
		}
		what := "same-literal"
		if o.Replace {
			what = fmt.Sprintf("new-literal-L%d", o.Lit)
		}
		return fmt.Sprintf("connupdate(%s:%d,%s,(%s)>%s)", o.Name, u, what, o.Flags, strings.Join(o.Names, "+"))
	case "connmsgs":
		var p []string
		for _, b := range o.Batch {
			p = append(p, fmt.Sprintf("L%d>%s", b.Lit, strings.Join(b.Mboxes, "+")))
		}
		return "connmsgs(" + strings.Join(p, ";") + ")"
	}
	return o.Kind
}

type Obs struct {
	Class string   `json:"class"` // ok nolimit no noknown nosize other
	Pairs [][2]int `json:"pairs,omitempty"`
	Text  string   `json:"text,omitempty"`
	UIDV  int      `json:"uidv,omitempty"` // UIDVALIDITY announced with APPENDUID/COPYUID
	// SetLens: number of UIDs in the source and destination set of COPYUID (they must be equal)
	SetLens [2]int `json:"set_lens,omitempty"`
	// ModelOps: what the operation is for the model (nil: itself; empty: nothing - it restates what exists)
	ModelOps []Op `json:"-"`
	// connupdate: the mailboxes that held the message before the update (rows with the same X-Pm-Gluon-Id), the literal
	// it had, and whether the update was sent at all (the remote message of a row cannot always be told)
	Holders []string `json:"holders,omitempty"`
	OldLit  int      `json:"old_lit,omitempty"`
	Skipped bool     `json:"skipped,omitempty"`
	// append with StoreFails: the injected store failure was hit (the recovery copy could not be written)
	StoreFailed bool `json:"store_failed,omitempty"`
}

type Row struct {
	UID int
	Lit int // index into the literal table, -1 if the bytes are not a known literal
	Raw []byte
}

type MboxDump struct {
	Name    string
	UIDV    int
	UIDNext int
	Count   int
	Rows    []Row
}

type Dump struct {
	Mboxes []MboxDump // sorted by name; includes the recovery mailbox even while hidden
	Listed bool       // the recovery mailbox appears in LIST
}

func (d Dump) Get(name string) *MboxDump {
	for i := range d.Mboxes {
		if d.Mboxes[i].Name == name {
			return &d.Mboxes[i]
		}
	}
	return nil
}

// ---- literals ----

// Literal i has a hash class; literals of one class differ only in headers outside the hashed set (Date, Message-Id,
// X-Variant), which rfc822.GetMessageHash ignores. Class -1 ("raw"): GetMessageHash fails for the literal (a text part
// declared base64 whose body is base64 followed by a plain-text footer) - such a message is APPEND-able; the recovery
// mailbox de-duplicates it by the hash of its raw bytes.
type Literals struct {
	Class []int
	Bytes [][]byte
}

func (l *Literals) Add(class int, variant int) int {
	i := len(l.Bytes)
	day := 1 + variant%27
	b := fmt.Sprintf("Date: Mon, %02d Jan 2024 10:00:%02d +0000\r\nFrom: a@example.com\r\nTo: b@example.com\r\nSubject: class %d\r\nMessage-Id: <c%d.v%d@example.com>\r\n", day, variant%60, class, class, variant)
	if variant > 0 {
		b += fmt.Sprintf("X-Variant: %d\r\n", variant)
	}
	b += fmt.Sprintf("\r\nbody of class %d\r\n", class)
	l.Class = append(l.Class, class)
	l.Bytes = append(l.Bytes, []byte(b))
	return i
}

// AddUnhashable adds a literal for which rfc822.GetMessageHash returns an error.
func (l *Literals) AddUnhashable(k int) int {
	i := len(l.Bytes)
	b := fmt.Sprintf("Date: Tue, 02 Jan 2024 11:00:%02d +0000\r\nFrom: list@example.com\r\nTo: b@example.com\r\nSubject: list mail %d\r\n"+
		"Content-Type: text/plain; charset=utf-8\r\nContent-Transfer-Encoding: base64\r\n\r\nSGVsbG8gd29ybGQ=\r\n-- \r\n"+
		"You receive mail %d because you are subscribed to the list.\r\n", k%60, k, k)
	l.Class = append(l.Class, -1)
	l.Bytes = append(l.Bytes, []byte(b))
	return i
}

// AddRaw adds an arbitrary literal with the hash class the harness expects for it.
func (l *Literals) AddRaw(class int, literal string) int {
	l.Class = append(l.Class, class)
	l.Bytes = append(l.Bytes, []byte(literal))
	return len(l.Bytes) - 1
}

// AddHashFamily adds literals that differ from a base message in exactly one thing. Those that differ in something the
// de-duplication hash covers (one address of a multi-address From/To/Cc/Reply-To field at the first, middle or last
// position, In-Reply-To, Subject, the Content-Type / a Content-Type parameter / Content-Disposition / decoded body of one
// leaf part) get classes of their own (firstClass, firstClass+1, ...); those that differ only in Date, Message-Id or an
// X- header share the class of the base message. Returns the indices (base first) and the index of the first same-class
// variant.
func (l *Literals) AddHashFamily(firstClass int) (all []int, sameFrom int) {
	type msg struct {
		date, msgid, from, to, cc, replyTo, inReplyTo, subject, x string
		ct1, cd1, body1, ct2, cd2, body2                          string
	}
	base := msg{date: "Wed, 03 Jan 2024 09:00:00 +0000", msgid: "<fam.0@example.com>",
		from: "ann@example.com, bob@example.com", to: "alice@example.com, team@example.com, zed@example.com",
		cc: "c1@example.com, c2@example.com", replyTo: "r1@example.com, r2@example.com", inReplyTo: "<parent.1@example.com>",
		subject: "family", ct1: "text/plain; charset=utf-8", cd1: "inline", body1: "first part",
		ct2: "application/octet-stream; name=\"a.bin\"", cd2: "attachment; filename=\"a.bin\"", body2: "second part"}
	render := func(m msg) string {
		h := "Date: " + m.date + "\r\nFrom: " + m.from + "\r\nSender: ann@example.com\r\nTo: " + m.to + "\r\nCc: " + m.cc + "\r\nReply-To: " + m.replyTo +
			"\r\nIn-Reply-To: " + m.inReplyTo + "\r\nSubject: " + m.subject + "\r\nMessage-Id: " + m.msgid + "\r\n"
		if m.x != "" {
			h += "X-Trace: " + m.x + "\r\n"
		}
		h += "MIME-Version: 1.0\r\nContent-Type: multipart/mixed; boundary=\"famb\"\r\n\r\n"
		h += "--famb\r\nContent-Type: " + m.ct1 + "\r\nContent-Disposition: " + m.cd1 + "\r\n\r\n" + m.body1 + "\r\n"
		h += "--famb\r\nContent-Type: " + m.ct2 + "\r\nContent-Disposition: " + m.cd2 + "\r\n\r\n" + m.body2 + "\r\n--famb--\r\n"
		return h
	}
	distinct := []func(*msg){
		func(m *msg) { m.to = "alex@example.com, team@example.com, zed@example.com" },  // first address of To
		func(m *msg) { m.to = "alice@example.com, crew@example.com, zed@example.com" }, // middle
		func(m *msg) { m.to = "alice@example.com, team@example.com, zoe@example.com" }, // last
		func(m *msg) { m.from = "amy@example.com, bob@example.com" },                   // first address of From
		func(m *msg) { m.cc = "d1@example.com, c2@example.com" },                       // first address of Cc
		func(m *msg) { m.cc = "c1@example.com, d2@example.com" },                       // last address of Cc
		func(m *msg) { m.replyTo = "s1@example.com, r2@example.com" },                  // first address of Reply-To
		func(m *msg) { m.inReplyTo = "<parent.2@example.com>" },
		func(m *msg) { m.subject = "family (other subject)" },
		func(m *msg) { m.ct1 = "text/html; charset=utf-8" },
		func(m *msg) { m.ct1 = "text/plain; charset=iso-8859-1" },
		func(m *msg) { m.cd2 = "attachment; filename=\"b.bin\"" },
		func(m *msg) { m.body1 = "first part, edited" },
		func(m *msg) { m.body2 = "second part, edited" },
	}
	same := []func(*msg){
		func(m *msg) { m.date = "Thu, 04 Jan 2024 10:30:00 +0000" },
		func(m *msg) { m.msgid = "<fam.other@example.com>" },
		func(m *msg) { m.x = "relay-7" },
	}
	all = append(all, l.AddRaw(firstClass, render(base)))
	for i, f := range distinct {
		m := base
		f(&m)
		all = append(all, l.AddRaw(firstClass+1+i, render(m)))
	}
	sameFrom = len(l.Bytes)
	for _, f := range same {
		m := base
		f(&m)
		all = append(all, l.AddRaw(firstClass, render(m)))
	}
	return all, sameFrom
}

// EncodingNames: the Content-Transfer-Encoding declarations of AddEncodingFamily, in the order of its result.
var EncodingNames = []string{"binary", "x-raw", "7bit", "8bit", "(absent)", "base64", "quoted-printable"}

// AddEncodingFamily adds single-part text/plain messages (Content-Type with six parameters) that agree in every header
// except Content-Transfer-Encoding and carry one of two bodies (after decoding): for every encoding of EncodingNames the
// pair (body A, body B). All A literals share class classA, all B literals classB: the de-duplication hash covers the
// DECODED body and not the declared encoding. Then two literals equal to "7bit, body A" except for the ORDER of the
// Content-Type parameters (class classA: the parameters are hashed in sorted order).
// Returns pairs[e] = {index of A, index of B} and the indices of the re-ordered ones.
func (l *Literals) AddEncodingFamily(classA, classB int) (pairs [][2]int, reordered []int) {
	params := []string{"charset=utf-8", "format=flowed", "delsp=yes", "x-app=report", "x-run=nightly", "x-zone=eu"}
	render := func(ps []string, enc, body string) string {
		h := "Date: Fri, 05 Jan 2024 06:00:00 +0000\r\nFrom: reports@example.com\r\nTo: ops@example.com\r\nSubject: nightly report\r\n" +
			"Message-Id: <report@example.com>\r\nMIME-Version: 1.0\r\nContent-Type: text/plain; " + strings.Join(ps, "; ") + "\r\n"
		if enc != "" {
			h += "Content-Transfer-Encoding: " + enc + "\r\n"
		}
		return h + "\r\n" + body + "\r\n"
	}
	bodies := map[string][2]string{
		"base64":           {"cmVwb3J0IGJvZHkgYWxwaGE=", "cmVwb3J0IGJvZHkgYnJhdm8="},
		"quoted-printable": {"report body =61lpha", "report body =62ravo"},
	}
	for _, e := range EncodingNames {
		b, ok := bodies[e]
		if !ok {
			b = [2]string{"report body alpha", "report body bravo"}
		}
		enc := e
		if e == "(absent)" {
			enc = ""
		}
		pairs = append(pairs, [2]int{l.AddRaw(classA, render(params, enc, b[0])), l.AddRaw(classB, render(params, enc, b[1]))})
	}
	for _, order := range [][]int{{5, 2, 0, 4, 1, 3}, {5, 4, 3, 2, 1, 0}} {
		var ps []string
		for _, i := range order {
			ps = append(ps, params[i])
		}
		reordered = append(reordered, l.AddRaw(classA, render(ps, "7bit", "report body alpha")))
	}
	return pairs, reordered
}

// HashCalls: how often Validate computes the hash of every literal (the value must not differ between calls).
const HashCalls = 20

// Validate checks the table against the real rfc822.GetMessageHash: class -1 <=> error, equal hashes <=> equal class,
// and the hash of a literal is the same on every one of HashCalls calls.
func (l *Literals) Validate() error {
	hs := make([]string, len(l.Bytes))
	for i, b := range l.Bytes {
		h, err := rfc822.GetMessageHash(b)
		if (err != nil) != (l.Class[i] < 0) {
			return fmt.Errorf("literal %d: class %d but GetMessageHash error = %v", i, l.Class[i], err)
		}
		hs[i] = h
		for k := 1; k < HashCalls && err == nil; k++ {
			if h2, err2 := rfc822.GetMessageHash(b); err2 != nil || h2 != h {
				return &UnstableHash{Lit: i, Call: k + 1}
			}
		}
	}
	for i := range hs {
		for j := range hs {
			if l.Class[i] >= 0 && l.Class[j] >= 0 && (hs[i] == hs[j]) != (l.Class[i] == l.Class[j]) {
				return fmt.Errorf("literals %d and %d: classes %d/%d, hashes equal = %v", i, j, l.Class[i], l.Class[j], hs[i] == hs[j])
			}
		}
	}
	return nil
}

// UnstableHash: rfc822.GetMessageHash returned different values for the same bytes.
type UnstableHash struct{ Lit, Call int }

func (e *UnstableHash) Error() string {
	return fmt.Sprintf("literal %d: call %d of GetMessageHash on the same bytes returned another value than call 1", e.Lit, e.Call)
}

var reGluonID = regexp.MustCompile(`(?i)^X-Pm-Gluon-Id: [^\r\n]*\r\n`)

func (l *Literals) Find(raw []byte) int {
	raw = reGluonID.ReplaceAll(raw, nil)
	for i, b := range l.Bytes {
		if bytes.Equal(b, raw) {
			return i
		}
	}
	return -1
}

// ---- world ----

type Config struct {
	Limits *[4]uint32 // maxMailboxes, maxMessages, maxUID, maxUIDValidity (nil = defaults)
	DB     db.ClientInterface
	// BurnTo: the UIDVALIDITY generator of every server incarnation is advanced by this many calls before the server
	// starts, so that its values do not depend on the wall clock during the case (0 = plain epoch generator).
	Burn int
	// BurnStep is added to Burn for every further incarnation (restart): with a positive step the values generated
	// after a restart lie above everything generated before it.
	BurnStep int
	// Dedup: the scripted remote de-duplicates (hconn.Conn.Dedup)
	Dedup bool
	// Epoch offset in seconds: the generator's epoch start is now - EpochAgo.
	EpochAgo int
	// Store: message store whose writes can be made to fail (nil = the plain on-disk store); needed for Op.StoreFails
	Store *FailingStore
}

type World struct {
	Cfg         Config
	S           *srv.Server
	Conn        *hconn.Conn
	Dir         string
	Sess        []*imapc.Client
	Probe       *imapc.Client
	Lits        *Literals
	Gen         *imap.EpochUIDValidityGenerator
	G0          int // last value generated by the harness before the current incarnation started
	Epoch       time.Time
	Injected    bool                   // a remote failure was injected at least once
	lastBatch   []*imap.MessageCreated // the connector batch applied last (connremsg announces it again)
	Incarnation int
}

func (w *World) limits() *limits.IMAP {
	if w.Cfg.Limits == nil {
		return nil
	}
	l := limits.NewIMAPLimits(w.Cfg.Limits[0], w.Cfg.Limits[1], imap.UID(w.Cfg.Limits[2]), imap.UID(w.Cfg.Limits[3]))
	return &l
}

func (w *World) newGen() error {
	if w.Epoch.IsZero() {
		ago := w.Cfg.EpochAgo
		if ago == 0 {
			ago = 1000
		}
		w.Epoch = time.Now().Add(-time.Duration(ago) * time.Second)
	}
	w.Gen = imap.NewEpochUIDValidityGenerator(w.Epoch)
	w.G0 = 0
	burn := w.Cfg.Burn + w.Cfg.BurnStep*w.Incarnation
	w.Incarnation++
	for i := 0; i < burn; i++ {
		v, err := w.Gen.Generate()
		if err != nil {
			return err
		}
		w.G0 = int(v)
	}
	return nil
}

func NewWorld(cfg Config, lits *Literals) (*World, error) {
	w := &World{Cfg: cfg, Lits: lits}
	if err := w.newGen(); err != nil {
		return nil, err
	}
	w.Conn = hconn.New([]string{"user"}, "pass")
	w.Conn.Dedup = cfg.Dedup
	if err := w.start(""); err != nil {
		return nil, err
	}
	return w, nil
}

func (w *World) start(dir string) error {
	var sb store.Builder
	if w.Cfg.Store != nil {
		sb = w.Cfg.Store
	}
	s, err := srv.Start(srv.Options{Dir: dir, Limits: w.limits(), DB: w.Cfg.DB, UIDValidity: w.Gen, KeepDir: true, StoreBuilder: sb,
		Users: []srv.User{{Names: []string{"user"}, Pass: "pass", Conn: w.Conn}}})
	if err != nil {
		return err
	}
	w.S = s
	w.Dir = s.Dir
	w.Sess = nil
	for i := 0; i < 2; i++ {
		c, err := s.Login()
		if err != nil {
			return err
		}
		c.TagPfx = fmt.Sprintf("S%d", i)
		w.Sess = append(w.Sess, c)
	}
	p, err := s.Login()
	if err != nil {
		return err
	}
	p.TagPfx = "P"
	w.Probe = p
	return nil
}

func (w *World) closeSessions() {
	for _, c := range w.Sess {
		c.Close()
	}
	if w.Probe != nil {
		w.Probe.Close()
	}
}

// Restart stops the server and starts a new one on the same directories with a fresh generator.
func (w *World) Restart() error {
	w.closeSessions()
	if err := w.S.Stop(); err != nil {
		return fmt.Errorf("stop: %w", err)
	}
	w.Conn.Reopen()
	if err := w.newGen(); err != nil {
		return err
	}
	return w.start(w.Dir)
}

func (w *World) Close() {
	w.closeSessions()
	if w.S != nil {
		w.S.Stop()
	}
	if w.Dir != "" {
		removeAll(w.Dir)
	}
}

// ---- executing operations ----

var (
	reAppendUID = regexp.MustCompile(`\[APPENDUID (\d+) (\d+)\]`)
	reCopyUID   = regexp.MustCompile(`\[COPYUID (\d+) (\S+) (\S+)\]`)
	ErrInjected = errors.New("injected remote failure")
)

func Classify(r imapc.Result) string {
	switch r.Status {
	case "OK":
		return "ok"
	case "NO":
		t := r.Text
		switch {
		case strings.Contains(t, "known recovered message"):
			return "noknown"
		case strings.Contains(t, "max mailbox count reached"), strings.Contains(t, "max mailbox message count reached"),
			strings.Contains(t, "max UID value reached"), strings.Contains(t, "max UIDValidity value reached"):
			return "nolimit"
		case strings.Contains(t, connector.ErrMessageSizeExceedsLimits.Error()):
			return "nosize"
		}
		return "no"
	}
	return "other"
}

func ExpandSet(s string) []int {
	var out []int
	for _, p := range strings.Split(s, ",") {
		if i := strings.Index(p, ":"); i >= 0 {
			a, _ := strconv.Atoi(p[:i])
			b, _ := strconv.Atoi(p[i+1:])
			if a > b {
				a, b = b, a
			}
			for x := a; x <= b; x++ {
				out = append(out, x)
			}
		} else {
			a, _ := strconv.Atoi(p)
			out = append(out, a)
		}
	}
	return out
}

func uidSet(u []int) string {
	s := make([]string, len(u))
	for i, x := range u {
		s[i] = strconv.Itoa(x)
	}
	return strings.Join(s, ",")
}

// CopyPairs parses COPYUID (tagged or untagged): position-wise pairs, the UIDVALIDITY and the sizes of the two sets.
func CopyPairs(r imapc.Result) ([][2]int, int, [2]int) {
	var lens [2]int
	texts := []string{r.Text}
	for _, l := range r.Untagged {
		texts = append(texts, l.Text)
	}
	for _, t := range texts {
		if m := reCopyUID.FindStringSubmatch(t); m != nil {
			lens = [2]int{len(ExpandSet(m[2])), len(ExpandSet(m[3]))}
		}
	}
	p, v := copyPairs(r)
	return p, v, lens
}

func copyPairs(r imapc.Result) ([][2]int, int) {
	texts := []string{r.Text}
	for _, l := range r.Untagged {
		texts = append(texts, l.Text)
	}
	for _, t := range texts {
		if m := reCopyUID.FindStringSubmatch(t); m != nil {
			v, _ := strconv.Atoi(m[1])
			a, b := ExpandSet(m[2]), ExpandSet(m[3])
			var p [][2]int
			for i := range a {
				if i < len(b) {
					p = append(p, [2]int{a[i], b[i]})
				}
			}
			return p, v
		}
	}
	return nil, 0
}

func (w *World) mboxID(name string) (imap.MailboxID, bool) {
	return w.Conn.MailboxIDByName(strings.Split(name, "/"))
}

func limitClass(err error) string {
	if err == nil {
		return "ok"
	}
	if limits.IsIMAPLimitErr(err) {
		return "nolimit"
	}
	return "no"
}

// Do executes one operation and returns what the issuing client / connector observed.
func (w *World) Do(o Op) (Obs, error) {
	defer w.Conn.ClearFailNext()
	switch o.Kind {
	case "copy", "move", "expunge", "delete", "rename", "restart":
		// the messages of the last connector batch may no longer be where the batch put them: announcing the batch again
		// would not be a restatement any more
		w.lastBatch = nil
	}
	c := w.Sess[o.Sess%len(w.Sess)]
	fail := func(call string) {
		w.Injected = true
		w.Conn.SetFailNext(call, ErrInjected)
	}
	obsOf := func(r imapc.Result, err error) (Obs, error) {
		if err != nil {
			return Obs{}, fmt.Errorf("%s: %w", o, err)
		}
		return Obs{Class: Classify(r), Text: r.Text}, nil
	}
	switch o.Kind {
	case "create":
		if !o.RemoteOK {
			fail("CreateMailbox")
		}
		ob, err := obsOf(c.Cmd("CREATE " + imapc.Quote(o.Name)))
		if err == nil && ob.Class != "ok" {
			// the connector announces every mailbox it has (its echo): a refused CREATE must not have left anything there
			w.Conn.Announce(60 * time.Second)
		}
		return ob, err
	case "delete":
		if !o.RemoteOK {
			fail("DeleteMailbox")
		}
		return obsOf(c.Cmd("DELETE " + imapc.Quote(o.Name)))
	case "rename":
		if !o.RemoteOK {
			fail("UpdateMailboxName")
		}
		r, err := c.Cmd("RENAME " + imapc.Quote(o.Name) + " " + imapc.Quote(o.Name2))
		if err == nil && r.Status == "OK" {
			// gluon renames the inferiors locally; a real remote does the same on its side
			w.Conn.RenameInferiors(strings.Split(o.Name, "/"), strings.Split(o.Name2, "/"))
		}
		return obsOf(r, err)
	case "append":
		switch o.Remote {
		case "fail":
			fail("CreateMessage")
		case "size":
			w.Conn.SetFailNext("CreateMessage", connector.ErrMessageSizeExceedsLimits)
		}
		armed := o.StoreFails && o.Remote == "fail" && w.Cfg.Store != nil
		if armed {
			w.Cfg.Store.FailSets(1)
		}
		r, err := c.Append(o.Name, o.Flags, w.Lits.Bytes[o.Lit])
		ob, err := obsOf(r, err)
		if armed && w.Cfg.Store.FailSets(0) == 0 {
			// the write of the recovery copy failed: for the model nothing happened (local storage faults are outside it)
			ob.StoreFailed = true
			ob.ModelOps = []Op{}
		}
		if err != nil {
			return ob, err
		}
		if m := reAppendUID.FindStringSubmatch(r.Text); m != nil {
			v, _ := strconv.Atoi(m[1])
			u, _ := strconv.Atoi(m[2])
			ob.Pairs = [][2]int{{0, u}}
			ob.UIDV = v
		}
		return ob, nil
	case "copy", "move":
		if r, err := c.Cmd("SELECT " + imapc.Quote(o.Name)); err != nil || r.Status != "OK" {
			return Obs{}, fmt.Errorf("%s: select source: %v %s", o, err, r.Text)
		}
		fromRecovery := strings.EqualFold(o.Name, RecoveryName)
		if !o.CreateOK && fromRecovery {
			fail("CreateMessage")
		}
		if !o.LabelOK {
			switch {
			case o.Kind == "move" && !fromRecovery && o.Name != o.Name2:
				fail("MoveMessages")
			default:
				fail("AddMessagesToMailbox")
			}
		}
		verb := "UID COPY "
		if o.Kind == "move" {
			verb = "UID MOVE "
		}
		r, err := c.Cmd(verb + uidSet(o.UIDs) + " " + imapc.Quote(o.Name2))
		ob, err := obsOf(r, err)
		if err != nil {
			return ob, err
		}
		if ob.Class == "ok" {
			ob.Pairs, ob.UIDV, ob.SetLens = CopyPairs(r)
		}
		// leave the selected state through a read-only selection (CLOSE then expunges nothing)
		if r2, err := c.Cmd("EXAMINE " + imapc.Quote(o.Name)); err != nil || r2.Status != "OK" {
			return ob, fmt.Errorf("%s: examine: %v %s", o, err, r2.Text)
		}
		if r2, err := c.Cmd("CLOSE"); err != nil || r2.Status != "OK" {
			return ob, fmt.Errorf("%s: close: %v %s", o, err, r2.Text)
		}
		return ob, nil
	case "expunge":
		if r, err := c.Cmd("SELECT " + imapc.Quote(o.Name)); err != nil || r.Status != "OK" {
			return Obs{}, fmt.Errorf("%s: select: %v %s", o, err, r.Text)
		}
		if r, err := c.Cmd("UID STORE " + uidSet(o.UIDs) + ` +FLAGS.SILENT (\Deleted)`); err != nil || r.Status != "OK" {
			return Obs{}, fmt.Errorf("%s: store: %v %s", o, err, r.Text)
		}
		if !o.RemoteOK {
			fail("RemoveMessagesFromMailbox")
		}
		r, err := c.Cmd("UID EXPUNGE " + uidSet(o.UIDs))
		ob, err := obsOf(r, err)
		if err != nil {
			return ob, err
		}
		if ob.Class != "ok" {
			if r, err := c.Cmd("UID STORE " + uidSet(o.UIDs) + ` -FLAGS.SILENT (\Deleted)`); err != nil || r.Status != "OK" {
				return ob, fmt.Errorf("%s: unstore: %v %s", o, err, r.Text)
			}
		}
		// leave the selected state without expunging anything else
		if r2, err := c.Cmd("EXAMINE " + imapc.Quote(o.Name)); err != nil || r2.Status != "OK" {
			return ob, fmt.Errorf("%s: examine: %v %s", o, err, r2.Text)
		}
		if r2, err := c.Cmd("CLOSE"); err != nil || r2.Status != "OK" {
			return ob, fmt.Errorf("%s: close: %v %s", o, err, r2.Text)
		}
		return ob, nil
	case "conncreate":
		id := w.Conn.NewMailboxID()
		w.Conn.PutMailbox(id, strings.Split(o.Name, "/"))
		err, acked := w.Conn.Push(imap.NewMailboxCreated(w.Conn.MailboxObj(id)), 60*time.Second)
		if !acked {
			return Obs{}, fmt.Errorf("%s: no acknowledgement", o)
		}
		if err != nil {
			w.Conn.DropMailbox(id)
		}
		return Obs{Class: limitClass(err), Text: fmt.Sprint(err)}, nil
	case "connmsgs":
		var ms []*imap.MessageCreated
		for _, b := range o.Batch {
			var ids []imap.MailboxID
			for _, n := range b.Mboxes {
				if strings.EqualFold(n, RecoveryName) {
					ids = append(ids, "GLUON-INTERNAL-RECOVERY-MBOX")
					continue
				}
				id, ok := w.mboxID(n)
				if !ok {
					id = imap.MailboxID("unknown-" + n)
				}
				ids = append(ids, id)
			}
			lit := w.Lits.Bytes[b.Lit]
			pm, err := imap.NewParsedMessage(lit)
			if err != nil {
				return Obs{}, err
			}
			mid := w.Conn.PutMessage(lit, ids)
			ms = append(ms, &imap.MessageCreated{Message: imap.Message{ID: mid, Flags: imap.NewFlagSet(), Date: time.Unix(1700000000, 0)},
				Literal: lit, MailboxIDs: ids, ParsedMessage: pm})
		}
		err, acked := w.Conn.Push(imap.NewMessagesCreated(false, ms...), 60*time.Second)
		if !acked {
			return Obs{}, fmt.Errorf("%s: no acknowledgement", o)
		}
		if err == nil {
			w.lastBatch = ms
		}
		return Obs{Class: limitClass(err), Text: fmt.Sprint(err)}, nil
	case "connremsg":
		// the connector announces the messages of its last batch once more (same remote IDs, same mailboxes)
		if len(w.lastBatch) == 0 {
			return Obs{Class: "ok", ModelOps: []Op{}}, nil
		}
		err, acked := w.Conn.Push(imap.NewMessagesCreated(false, w.lastBatch...), 60*time.Second)
		if !acked {
			return Obs{}, fmt.Errorf("%s: no acknowledgement", o)
		}
		return Obs{Class: limitClass(err), Text: fmt.Sprint(err), ModelOps: []Op{}}, nil
	case "connupdate":
		return w.connUpdate(o)
	case "connrestate":
		// the connector announces a mailbox gluon already knows (same remote ID)
		id, ok := w.mboxID(o.Name)
		if !ok {
			return Obs{}, fmt.Errorf("%s: no such remote mailbox", o)
		}
		err, acked := w.Conn.Push(imap.NewMailboxCreated(w.Conn.MailboxObj(id)), 60*time.Second)
		if !acked {
			return Obs{}, fmt.Errorf("%s: no acknowledgement", o)
		}
		return Obs{Class: limitClass(err), Text: fmt.Sprint(err), ModelOps: []Op{}}, nil
	case "statecreate":
		// the connector synchronises mailboxes through connector.IMAPState.Write / IMAPStateWrite.CreateMailbox
		var boxes []imap.Mailbox
		var fresh []imap.MailboxID
		model := []Op{}
		for _, n := range o.Names {
			id, ok := w.mboxID(n)
			if !ok {
				id = w.Conn.NewMailboxID()
				w.Conn.PutMailbox(id, strings.Split(n, "/"))
				fresh = append(fresh, id)
				model = append(model, Op{Kind: "conncreate", Name: n})
			}
			boxes = append(boxes, w.Conn.MailboxObj(id))
		}
		err := w.Conn.StateWrite(context.Background(), func(ctx context.Context, sw connector.IMAPStateWrite) error {
			for _, b := range boxes {
				if err := sw.CreateMailbox(ctx, b); err != nil {
					return err
				}
			}
			return nil
		})
		if err != nil {
			for _, id := range fresh {
				w.Conn.DropMailbox(id)
			}
		}
		return Obs{Class: limitClass(err), Text: fmt.Sprint(err), ModelOps: model}, nil
	case "connbump":
		err, acked := w.Conn.Push(imap.NewUIDValidityBumped(), 60*time.Second)
		if !acked {
			return Obs{}, fmt.Errorf("%s: no acknowledgement", o)
		}
		return Obs{Class: limitClass(err), Text: fmt.Sprint(err)}, nil
	case "restart":
		if err := w.Restart(); err != nil {
			return Obs{}, err
		}
		return Obs{Class: "ok"}, nil
	}
	return Obs{}, fmt.Errorf("unknown op kind %q", o.Kind)
}

// ---- observing the whole store through the probe session ----

var (
	reList   = regexp.MustCompile(`^\* LIST \(([^)]*)\) "[^"]*" (.*)$`)
	reStatus = regexp.MustCompile(`MESSAGES (\d+) UIDNEXT (\d+) UIDVALIDITY (\d+)`)
)

var reGluonIDVal = regexp.MustCompile(`(?i)^X-Pm-Gluon-Id: ([^\r\n]*)\r\n`)

func gluonID(raw []byte) string {
	if m := reGluonIDVal.FindSubmatch(raw); m != nil {
		return string(m[1])
	}
	return ""
}

// connUpdate: the connector sends imap.MessageUpdated for the message found at o.Name / o.UIDs[0].
// The remote message of that row is the one whose literal carries the row's X-Pm-Gluon-Id (messages gluon sent to the
// remote), or - for messages the connector created - the only remote message of that mailbox with these bytes, provided
// the mailbox has only one such row; otherwise nothing is sent (Skipped).
func (w *World) connUpdate(o Op) (Obs, error) {
	skip := func(why string) (Obs, error) {
		return Obs{Class: "ok", Text: "not sent: " + why, Skipped: true, ModelOps: []Op{}}, nil
	}
	if len(o.UIDs) != 1 {
		return skip("no UID")
	}
	d, err := w.DumpAll()
	if err != nil {
		return Obs{}, err
	}
	mb := d.Get(o.Name)
	mid, ok := w.mboxID(o.Name)
	if mb == nil || !ok {
		return skip("no such mailbox")
	}
	var row *Row
	for i := range mb.Rows {
		if mb.Rows[i].UID == o.UIDs[0] {
			row = &mb.Rows[i]
		}
	}
	if row == nil || row.Lit < 0 {
		return skip("no such message")
	}
	gid := gluonID(row.Raw)
	if gid == "" {
		return skip("no X-Pm-Gluon-Id in the literal")
	}
	cands := w.Conn.MessagesWhere(mid, func(l []byte) bool { return bytes.Equal(l, row.Raw) })
	if len(cands) != 1 {
		// every leading X-Pm-Gluon-Id goes: a literal the connector handed in may carry one of its own, gluon puts its id
		// in front of it
		stripAll := func(b []byte) []byte {
			for reGluonID.Match(b) {
				b = reGluonID.ReplaceAll(b, nil)
			}
			return b
		}
		stripped := stripAll(row.Raw)
		same := 0
		for _, r := range mb.Rows {
			if r.Lit == row.Lit {
				same++
			}
		}
		cands = w.Conn.MessagesWhere(mid, func(l []byte) bool { return bytes.Equal(stripAll(l), stripped) })
		if len(cands) != 1 || same != 1 {
			return skip("the remote message of the row cannot be told")
		}
	}
	remoteID := cands[0]
	var holders []string
	for _, m := range d.Mboxes {
		for _, r := range m.Rows {
			if gluonID(r.Raw) == gid {
				holders = append(holders, m.Name)
				break
			}
		}
	}
	for _, h := range holders {
		if strings.EqualFold(h, RecoveryName) {
			return skip("the message is also in the recovery mailbox")
		}
	}
	oldLit, _, date, _ := w.Conn.MessageInfo(remoteID)
	var ids []imap.MailboxID
	for _, n := range o.Names {
		id, ok := w.mboxID(n)
		if !ok {
			id = imap.MailboxID("unknown-" + n)
		}
		ids = append(ids, id)
	}
	lit := oldLit
	model := o
	if o.Replace {
		lit = w.Lits.Bytes[o.Lit]
		if o.Lit == row.Lit {
			model.Replace = false // the same bytes: gluon finds nothing changed
		}
	}
	pm, err := imap.NewParsedMessage(lit)
	if err != nil {
		return Obs{}, err
	}
	flags := imap.NewFlagSet()
	for _, f := range strings.Fields(o.Flags) {
		flags.AddToSelf(f)
	}
	if date.IsZero() {
		date = time.Unix(1700000000, 0)
	}
	err, acked := w.Conn.Push(imap.NewMessageUpdated(imap.Message{ID: remoteID, Flags: flags, Date: date}, lit, ids, pm, false), 60*time.Second)
	if !acked {
		return Obs{}, fmt.Errorf("%s: no acknowledgement", o)
	}
	if err == nil {
		var nl []byte
		if model.Replace {
			nl = lit
		}
		w.Conn.SetMessage(remoteID, nl, flags, ids)
	}
	return Obs{Class: limitClass(err), Text: fmt.Sprint(err), Holders: holders, OldLit: row.Lit, ModelOps: []Op{model}}, nil
}

func unquote(s string) string {
	if len(s) >= 2 && s[0] == '"' && s[len(s)-1] == '"' {
		s = s[1 : len(s)-1]
		s = strings.ReplaceAll(s, `\"`, `"`)
		s = strings.ReplaceAll(s, `\\`, `\`)
	}
	return s
}

// ProbeError: the server did not answer a plain LIST/STATUS/EXAMINE/FETCH of the probe session with OK. After an
// operation that was answered normally this is a failure of the implementation, not of the harness.
type ProbeError struct{ What string }

func (e *ProbeError) Error() string { return "probe: " + e.What }

func (w *World) DumpAll() (Dump, error) {
	d, err := w.dumpAll()
	if err != nil {
		if _, ok := err.(*ProbeError); !ok {
			return d, err
		}
	}
	return d, err
}

func probeErr(what string, err error, text string) error {
	if err != nil {
		return fmt.Errorf("%s: %w", what, err) // connection-level problem: infrastructure
	}
	return &ProbeError{What: what + ": " + text}
}

func (w *World) dumpAll() (Dump, error) {
	var d Dump
	p := w.Probe
	r, err := p.Cmd(`LIST "" "*"`)
	if err != nil || r.Status != "OK" {
		return d, probeErr("LIST", err, r.Text)
	}
	names := []string{}
	for _, l := range r.Untagged {
		if m := reList.FindStringSubmatch(l.Text); m != nil {
			n := unquote(m[2])
			if strings.Contains(strings.ToLower(m[1]), `\noselect`) {
				continue // a name that only exists as the superior of another mailbox
			}
			if n == RecoveryName {
				d.Listed = true
			}
			names = append(names, n)
		}
	}
	if !d.Listed {
		names = append(names, RecoveryName)
	}
	sort.Strings(names)
	for _, n := range names {
		md := MboxDump{Name: n}
		r, err := p.Cmd("STATUS " + imapc.Quote(n) + " (MESSAGES UIDNEXT UIDVALIDITY)")
		if err != nil || r.Status != "OK" {
			return d, probeErr("STATUS "+n, err, r.Text)
		}
		for _, l := range r.Untagged {
			if m := reStatus.FindStringSubmatch(l.Text); m != nil {
				md.Count, _ = strconv.Atoi(m[1])
				md.UIDNext, _ = strconv.Atoi(m[2])
				md.UIDV, _ = strconv.Atoi(m[3])
			}
		}
		if md.Count > 0 {
			if r, err := p.Cmd("EXAMINE " + imapc.Quote(n)); err != nil || r.Status != "OK" {
				return d, probeErr("EXAMINE "+n, err, r.Text)
			}
			r, err := p.Cmd("UID FETCH 1:* (UID BODY.PEEK[])")
			if err != nil || r.Status != "OK" {
				return d, probeErr("FETCH "+n, err, r.Text)
			}
			for _, e := range imapc.Evs(r) {
				if e.Kind == "FETCH" {
					row := Row{UID: e.UID, Lit: -1}
					if len(e.Lits) > 0 {
						row.Raw = e.Lits[0]
						row.Lit = w.Lits.Find(e.Lits[0])
					}
					md.Rows = append(md.Rows, row)
				}
			}
			sort.Slice(md.Rows, func(i, j int) bool { return md.Rows[i].UID < md.Rows[j].UID })
			if r, err := p.Cmd("CLOSE"); err != nil || r.Status != "OK" {
				return d, probeErr("CLOSE "+n, err, r.Text)
			}
		}
		d.Mboxes = append(d.Mboxes, md)
	}
	return d, nil
}
