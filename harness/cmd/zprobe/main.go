package main

import (
	"fmt"
	"verifharness/common"
	"verifharness/srv"
)

func main() {
	s, err := srv.Start(srv.Options{})
	if err != nil { panic(err) }
	defer s.Stop()
	c, _ := s.Login()
	c.Cmd("CREATE b2")
	c.Cmd("SELECT b2")
	c.Append("b2", "", common.Message("m1", "x"))
	for _, cmd := range []string{"FETCH 1 (FLAGS BODY[HEADER.FIELDS (TO)])", "FETCH 1 (FLAGS)"} {
		r, err := c.Cmd(cmd)
		fmt.Println(cmd, "->", r.Status, r.Text, err, len(r.Untagged))
		for _, l := range r.Untagged { fmt.Println("   ", l.Text) }
	}
}
