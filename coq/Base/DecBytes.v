(* Bytes as N, decimal rendering of numbers (strconv.Itoa / fmt %v of a non-negative int) and its inverse.
   Shared by the C12/C13 models (literal framing {n}CRLF, numbers inside parenthesised lists). *)
From Coq Require Import List NArith Bool Lia DecimalN.
Import ListNotations.
Local Open Scope N_scope.

Definition byte := N.
Definition bytes := list N.

Definition is_digit (b : N) : bool := (48 <=? b) && (b <=? 57).

Fixpoint uint_bytes (u : Decimal.uint) : bytes :=
  match u with
  | Decimal.Nil => []
  | Decimal.D0 r => 48 :: uint_bytes r | Decimal.D1 r => 49 :: uint_bytes r
  | Decimal.D2 r => 50 :: uint_bytes r | Decimal.D3 r => 51 :: uint_bytes r
  | Decimal.D4 r => 52 :: uint_bytes r | Decimal.D5 r => 53 :: uint_bytes r
  | Decimal.D6 r => 54 :: uint_bytes r | Decimal.D7 r => 55 :: uint_bytes r
  | Decimal.D8 r => 56 :: uint_bytes r | Decimal.D9 r => 57 :: uint_bytes r
  end.

(* digits (all of them must be digits) -> uint *)
Fixpoint bytes_uint (l : bytes) : option Decimal.uint :=
  match l with
  | [] => Some Decimal.Nil
  | b :: t =>
    match bytes_uint t with
    | None => None
    | Some r =>
      if b =? 48 then Some (Decimal.D0 r) else if b =? 49 then Some (Decimal.D1 r)
      else if b =? 50 then Some (Decimal.D2 r) else if b =? 51 then Some (Decimal.D3 r)
      else if b =? 52 then Some (Decimal.D4 r) else if b =? 53 then Some (Decimal.D5 r)
      else if b =? 54 then Some (Decimal.D6 r) else if b =? 55 then Some (Decimal.D7 r)
      else if b =? 56 then Some (Decimal.D8 r) else if b =? 57 then Some (Decimal.D9 r)
      else None
    end
  end.

(* strconv.Itoa for n >= 0 *)
Definition dec (n : N) : bytes := uint_bytes (N.to_uint n).
(* value of a digit string (None if a non-digit occurs or the string is empty) *)
Definition undec (l : bytes) : option N :=
  match l with [] => None | _ => match bytes_uint l with Some u => Some (N.of_uint u) | None => None end end.

Lemma bytes_uint_bytes : forall u, bytes_uint (uint_bytes u) = Some u.
Proof. induction u; cbn [uint_bytes bytes_uint]; try rewrite IHu; reflexivity. Qed.

Lemma uint_bytes_digits : forall u, forallb is_digit (uint_bytes u) = true.
Proof. induction u; cbn [uint_bytes forallb]; try rewrite IHu; reflexivity. Qed.

Lemma to_uint_nonnil : forall n, N.to_uint n <> Decimal.Nil.
Proof.
  intros n H. destruct n as [|p]; [discriminate|].
  cbn in H. unfold Pos.to_uint in H.
  pose proof (DecimalPos.Unsigned.to_uint_nonnil p) as Hn. unfold Pos.to_uint in Hn. contradiction.
Qed.

Lemma dec_nonempty : forall n, dec n <> [].
Proof.
  intros n. unfold dec. pose proof (to_uint_nonnil n) as H.
  destruct (N.to_uint n); try contradiction; discriminate.
Qed.

Lemma dec_digits : forall n, forallb is_digit (dec n) = true.
Proof. intros; apply uint_bytes_digits. Qed.

Lemma undec_dec : forall n, undec (dec n) = Some n.
Proof.
  intros n. unfold undec. pose proof (dec_nonempty n) as Hne.
  destruct (dec n) eqn:E; [contradiction|]. rewrite <- E. unfold dec.
  rewrite bytes_uint_bytes. rewrite DecimalN.Unsigned.of_to. reflexivity.
Qed.

(* leading run of digits and the rest *)
Fixpoint span_digits (s : bytes) : bytes * bytes :=
  match s with
  | [] => ([], [])
  | b :: t => if is_digit b then let '(d, r) := span_digits t in (b :: d, r) else ([], s)
  end.

Lemma span_digits_app : forall d r, forallb is_digit d = true ->
  (match r with [] => true | b :: _ => negb (is_digit b) end) = true ->
  span_digits (d ++ r) = (d, r).
Proof.
  induction d as [|b d IH]; intros r Hd Hr.
  - cbn [app]. destruct r as [|c r']; [reflexivity|]. cbn [span_digits].
    destruct (is_digit c); [discriminate|reflexivity].
  - cbn [forallb] in Hd. apply andb_true_iff in Hd as [Hb Hd].
    cbn [app span_digits]. rewrite Hb. rewrite (IH r Hd Hr). reflexivity.
Qed.

Lemma span_digits_sound : forall s d r, span_digits s = (d, r) -> s = d ++ r /\ forallb is_digit d = true.
Proof.
  induction s as [|b t IH]; intros d r H; cbn [span_digits] in H.
  - inversion H; subst. split; reflexivity.
  - destruct (is_digit b) eqn:Eb.
    + destruct (span_digits t) as [d' r'] eqn:E. inversion H; subst.
      destruct (IH d' r eq_refl) as [-> Hd]. split; [reflexivity|].
      cbn [forallb]. rewrite Eb, Hd. reflexivity.
    + inversion H; subst. split; reflexivity.
Qed.
