package main

import (
	"fmt"
	"go/ast"
	"strings"
)

// FactsTargetOrder (C03): internal/state/mailbox.go Mailbox.Copy and Mailbox.Move hand the selected messages to the
// database in ascending source-UID order: the statement that sorts `messages` (the result of getMessagesInRange, which
// lists the messages in the order the sequence set names them) comes before the first other statement that mentions
// `messages` (the loop that fills msgIDs), and it compares `.UID <`.
func init() { register("TargetOrder", extractTargetOrder) }

func mentionsIdent(n ast.Node, name string) bool {
	found := false
	ast.Inspect(n, func(x ast.Node) bool {
		if id, ok := x.(*ast.Ident); ok && id.Name == name {
			found = true
		}
		return !found
	})
	return found
}

func extractTargetOrder(t *T) (string, error) {
	const file = "internal/state/mailbox.go"
	f, err := t.ParseFile(file)
	if err != nil {
		return "", err
	}
	var rows []string
	for _, fn := range []string{"Copy", "Move"} {
		fd := FuncDecl(f, "Mailbox", fn)
		if fd == nil || fd.Body == nil {
			return "", fmt.Errorf("%s: Mailbox.%s not found", file, fn)
		}
		// the variable that receives getMessagesInRange
		v, from := "", -1
		for i, st := range fd.Body.List {
			as, ok := st.(*ast.AssignStmt)
			if !ok || len(as.Rhs) != 1 || len(as.Lhs) < 1 {
				continue
			}
			if c, ok := as.Rhs[0].(*ast.CallExpr); ok && calleeName(c.Fun) == "getMessagesInRange" {
				if id, ok := as.Lhs[0].(*ast.Ident); ok {
					v, from = id.Name, i
				}
			}
		}
		if from < 0 {
			return "", fmt.Errorf("%s: Mailbox.%s: no call of getMessagesInRange", file, fn)
		}
		sortIdx, useIdx, less, sorter := -1, -1, "", ""
		for i := from + 1; i < len(fd.Body.List); i++ {
			st := fd.Body.List[i]
			if es, ok := st.(*ast.ExprStmt); ok {
				if c, ok := es.X.(*ast.CallExpr); ok && len(c.Args) == 2 {
					name := oneLine(t.Src(file, c.Fun))
					if id, ok := c.Args[0].(*ast.Ident); ok && id.Name == v && strings.HasPrefix(name, "sort.") && sortIdx < 0 {
						sortIdx, sorter = i, name
						if fl, ok := c.Args[1].(*ast.FuncLit); ok && len(fl.Body.List) == 1 {
							if r, ok := fl.Body.List[0].(*ast.ReturnStmt); ok && len(r.Results) == 1 {
								less = oneLine(t.Src(file, r.Results[0]))
							}
						}
						continue
					}
				}
			}
			if useIdx < 0 && mentionsIdent(st, v) {
				useIdx = i
			}
		}
		first := sortIdx >= 0 && (useIdx < 0 || sortIdx < useIdx)
		rows = append(rows, fmt.Sprintf("(%s, %v, %s, %s)", coqString(fn), first, coqString(sorter), coqString(less)))
	}
	var b strings.Builder
	b.WriteString("From Coq Require Import List String Bool.\nImport ListNotations.\nOpen Scope string_scope.\n\n")
	b.WriteString("(* internal/state/mailbox.go: (method of Mailbox, the sort of the selected messages precedes every other statement that\n   mentions them, the sorting function, the comparison) *)\n")
	fmt.Fprintf(&b, "Definition target_order_facts : list (string * bool * string * string) := [\n  %s\n].\n", strings.Join(rows, ";\n  "))
	return b.String(), nil
}
