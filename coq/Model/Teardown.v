(* C19 — teardown of one user's part of the server, as an abstract transition system.
   Models internal/backend/user.go (newUser's update goroutine, close, closeStates, removeState, statesWG / updateWG),
   internal/backend/update_injector.go (forward, Close: forwardQuitCh / forwardWG), internal/backend/backend.go
   (RemoveUser / Close call user.close while holding usersLock), internal/session/session.go (serve leaves its loop on
   state.Done(), on a closed connection or LOGOUT; done() releases the state), internal/state/state.go (SignalClose,
   Close) and server.go Close (stop serving, close the connections, close the backend).
   N sessions own a state each.  A session may end at any moment (LOGOUT, abrupt disconnect in any protocol state,
   connection closed by Server.Close); ending means user.removeState: leave the states map, delete what only it still
   held, close the state, statesWG.Done().  New sessions cannot obtain a state while the closer runs (GetState needs
   usersLock, which RemoveUser/Close hold) and are not part of the model.
   Assumption (runtime, not modelled): a blocked socket write fails or completes, i.e. a session that has been signalled
   always reaches its next step.  No proofs in this file. *)
From Coq Require Import List Arith Bool.
Import ListNotations.

Inductive sphase :=
| SActive      (* owns a state registered in user.states; executes commands (reads/writes the database) *)
| SRelease1    (* the session ended; removeState: reading the ids marked for deletion, state still registered *)
| SRelease2    (* state removed from user.states; deleting messages, closing the state; statesWG not yet released *)
| SGone.       (* statesWG.Done() has run *)

Record sess := mkSess { ph : sphase; signalled : bool }.

(* progress of user.close: each constructor is "about to do ..." *)
Inductive cphase :=
| C0   (* close(updateQuitCh) *)
| C1   (* updateWG.Wait() *)
| C2   (* updateInjector.Close: close(forwardQuitCh) *)
| C2q  (* forwardWG.Wait() *)
| C3   (* connector.Close *)
| C4   (* closeStates: SignalClose on every registered state *)
| C5   (* statesWG.Wait() *)
| C6   (* store.Close *)
| C7   (* db.Close *)
| C8.  (* returned *)

Definition cidx (c : cphase) : nat :=
  match c with C0 => 0 | C1 => 1 | C2 => 2 | C2q => 3 | C3 => 4 | C4 => 5 | C5 => 6 | C6 => 7 | C7 => 8 | C8 => 9 end.

Record tstate := mkT {
  ss : list sess;
  upd_running : bool;     (* the goroutine applying connector updates *)
  fwd_running : bool;     (* the injector's forward goroutine *)
  cl : cphase;
  wg : nat;               (* statesWG *)
  db_open : bool;
  store_open : bool }.

Inductive label :=
| LCommand (i : nat)      (* session i executes a command (idle step: changes nothing at this level) *)
| LApply                  (* the update goroutine applies one connector update (idle step) *)
| LEnd (i : nat)          (* session i leaves its serve loop *)
| LRel1 (i : nat)
| LRel2 (i : nat)
| LUpdStop
| LFwdStop
| LCloser.                (* user.close takes its next action *)

Definition is_idle (l : label) : bool := match l with LCommand _ | LApply => true | _ => false end.

Fixpoint set_nth (i : nat) (x : sess) (l : list sess) : list sess :=
  match l, i with
  | [], _ => []
  | _ :: t, O => x :: t
  | y :: t, S k => y :: set_nth k x t
  end.

Definition signal_all (l : list sess) : list sess := map (fun s => mkSess (ph s) true) l.

Definition with_ss (s : tstate) (l : list sess) : tstate :=
  mkT l (upd_running s) (fwd_running s) (cl s) (wg s) (db_open s) (store_open s).
Definition with_cl (s : tstate) (c : cphase) : tstate :=
  mkT (ss s) (upd_running s) (fwd_running s) c (wg s) (db_open s) (store_open s).

(* the next action of user.close, when it is not blocked *)
Definition closer_step (s : tstate) : option tstate :=
  match cl s with
  | C0 => Some (with_cl s C1)
  | C1 => if upd_running s then None else Some (with_cl s C2)
  | C2 => Some (with_cl s C2q)
  | C2q => if fwd_running s then None else Some (with_cl s C3)
  | C3 => Some (with_cl s C4)
  | C4 => Some (with_cl (with_ss s (signal_all (ss s))) C5)
  | C5 => match wg s with O => Some (with_cl s C6) | S _ => None end
  | C6 => Some (mkT (ss s) (upd_running s) (fwd_running s) C7 (wg s) (db_open s) false)
  | C7 => Some (mkT (ss s) (upd_running s) (fwd_running s) C8 (wg s) false (store_open s))
  | C8 => None
  end.

Definition step (s : tstate) (l : label) : option tstate :=
  match l with
  | LCommand i =>
      match nth_error (ss s) i with
      | Some (mkSess SActive false) => Some s
      | _ => None end
  | LApply => if upd_running s then Some s else None
  | LEnd i =>
      match nth_error (ss s) i with
      | Some (mkSess SActive sg) => Some (with_ss s (set_nth i (mkSess SRelease1 sg) (ss s)))
      | _ => None end
  | LRel1 i =>
      match nth_error (ss s) i with
      | Some (mkSess SRelease1 sg) => Some (with_ss s (set_nth i (mkSess SRelease2 sg) (ss s)))
      | _ => None end
  | LRel2 i =>
      match nth_error (ss s) i with
      | Some (mkSess SRelease2 sg) =>
          Some (mkT (set_nth i (mkSess SGone sg) (ss s)) (upd_running s) (fwd_running s) (cl s) (pred (wg s))
                    (db_open s) (store_open s))
      | _ => None end
  | LUpdStop =>
      (* the select in newUser's goroutine may take the quit branch once updateQuitCh is closed *)
      if upd_running s && (1 <=? cidx (cl s))
      then Some (mkT (ss s) false (fwd_running s) (cl s) (wg s) (db_open s) (store_open s)) else None
  | LFwdStop =>
      if fwd_running s && (3 <=? cidx (cl s))
      then Some (mkT (ss s) (upd_running s) false (cl s) (wg s) (db_open s) (store_open s)) else None
  | LCloser => closer_step s
  end.

Fixpoint run (s : tstate) (tr : list label) : option tstate :=
  match tr with
  | [] => Some s
  | l :: t => match step s l with Some s' => run s' t | None => None end
  end.

Definition init (n : nat) : tstate :=
  mkT (repeat (mkSess SActive false) n) true true C0 n true true.

Definition reachable (n : nat) (s : tstate) : Prop := exists tr, run (init n) tr = Some s.

Definition final (s : tstate) : bool := match cl s with C8 => true | _ => false end.

(* who may still touch the database: a session that is not gone, or the update goroutine *)
Definition session_alive (x : sess) : bool := match ph x with SGone => false | _ => true end.
Definition db_user_exists (s : tstate) : bool := existsb session_alive (ss s) || upd_running s.

Fixpoint total (f : sess -> nat) (l : list sess) : nat :=
  match l with [] => 0 | x :: t => f x + total f t end.

Definition weight (x : sess) : nat :=
  match ph x with SActive => 3 | SRelease1 => 2 | SRelease2 => 1 | SGone => 0 end.
Definition measure (s : tstate) : nat :=
  (9 - cidx (cl s)) + total weight (ss s) + (if upd_running s then 1 else 0) + (if fwd_running s then 1 else 0).

Fixpoint count_nonidle (tr : list label) : nat :=
  match tr with [] => 0 | l :: t => (if is_idle l then 0 else 1) + count_nonidle t end.

(* what the harness can observe around the close of a user's database, and what this model allows:
   no database / store operation after the respective Close, none in flight when db.Close returned, the store closed
   before the database, the database closed when RemoveUser / Close returned *)
Definition observation_ok (db_ops_after_close db_inflight_at_close store_ops_after_close : nat)
  (store_before_db db_closed closed_before_return : bool) : bool :=
  Nat.eqb db_ops_after_close 0 && Nat.eqb db_inflight_at_close 0 && Nat.eqb store_ops_after_close 0 &&
  store_before_db && db_closed && closed_before_return.
