(* Lemmas for the lock table model (Model/LockTable.v): with the release done in one critical section (and the counter
   reset on insertion) every schedule keeps writers alone per message ID; with the old two-step release, or without the
   counter reset, there are schedules that do not. *)
From Coq Require Import List NArith ZArith Bool Lia.
From Gluon Require Import Model.LockTable.
Import ListNotations.

(* ---------- lists of goroutines ---------- *)
Lemma nth_set_same : forall {A} (l : list A) t x p, nth_error l t = Some p -> nth_error (set_nth t x l) t = Some x.
Proof.
  induction l as [|y l IH]; intros [|t] x p H; cbn in *; try discriminate; [reflexivity|eauto].
Qed.

Lemma nth_set_other : forall {A} (l : list A) t t' x, t <> t' -> nth_error (set_nth t x l) t' = nth_error l t'.
Proof.
  induction l as [|y l IH]; intros [|t] [|t'] x H; cbn; try reflexivity; try congruence. apply IH. congruence.
Qed.

Lemma nth_set_cases : forall {A} (l : list A) t t' x p0 p, nth_error l t = Some p0 ->
  nth_error (set_nth t x l) t' = Some p -> (t' = t /\ p = x) \/ (t' <> t /\ nth_error l t' = Some p).
Proof.
  intros A l t t' x p0 p H0 H. destruct (Nat.eq_dec t' t) as [->|Hne].
  - rewrite (nth_set_same l t x p0 H0) in H. left. split; congruence.
  - right. split; [exact Hne|]. rewrite nth_set_other in H by congruence. exact H.
Qed.

Fixpoint count (f : pc -> bool) (l : list pc) : nat :=
  match l with [] => 0 | p :: t => (if f p then 1 else 0) + count f t end.

Lemma count_set : forall f l t x p, nth_error l t = Some p ->
  (count f (set_nth t x l) + (if f p then 1 else 0) = count f l + (if f x then 1 else 0))%nat.
Proof.
  induction l as [|y l IH]; intros [|t] x p H; cbn in *; try discriminate.
  - inversion H; subst. lia.
  - specialize (IH t x p H). lia.
Qed.

Lemma count_zero : forall f l, (forall t p, nth_error l t = Some p -> f p = false) -> count f l = 0%nat.
Proof.
  induction l as [|y l IH]; intros H; [reflexivity|]. cbn.
  rewrite (H 0%nat y eq_refl). rewrite IH; [reflexivity|]. intros t p Hp. apply (H (S t) p Hp).
Qed.

Lemma count_zero_inv : forall f l t p, count f l = 0%nat -> nth_error l t = Some p -> f p = false.
Proof.
  induction l as [|y l IH]; intros [|t] p Hc H; cbn in *; try discriminate.
  - inversion H; subst. destruct (f p); [lia|reflexivity].
  - apply (IH t p); [destruct (f y); lia|exact H].
Qed.

Lemma forallb_nth : forall {A} (f : A -> bool) l t p, forallb f l = true -> nth_error l t = Some p -> f p = true.
Proof. intros A f l t p Hf Hn. rewrite forallb_forall in Hf. apply Hf. eapply nth_error_In. exact Hn. Qed.

Lemma take_spec : forall pick l r l', take pick l = Some (r, l') ->
  In r l /\ (forall x, In x l' -> In x l) /\ (NoDup l -> NoDup l' /\ ~ In r l').
Proof.
  induction pick as [|p IH]; intros [|x l] r l' H; cbn in H; try discriminate.
  - inversion H; subst. split; [left; reflexivity|]. split; [intros y Hy; right; exact Hy|].
    intros Hnd. inversion Hnd; subst. split; assumption.
  - destruct (take p l) as [[y rest]|] eqn:E; [|discriminate]. inversion H; subst.
    destruct (IH l r rest E) as (H1 & H2 & H3). split; [right; exact H1|]. split.
    + intros z [->|Hz]; [left; reflexivity|right; apply H2; exact Hz].
    + intros Hnd. inversion Hnd as [|? ? Hx Hl]; subst. destruct (H3 Hl) as [Hn1 Hn2]. split.
      * constructor; [intros Hin; apply Hx; apply H2; exact Hin|exact Hn1].
      * intros [->|Hin]; [apply Hx; exact H1|apply Hn2; exact Hin].
Qed.

(* ---------- who holds what ---------- *)
Definition holder (p : pc) : option (N * N) :=
  match p with PAcq i r _ _ | PIn i r _ _ | POut i r _ => Some (i, r) | _ => None end.
Definition holds (r : N) (p : pc) : bool :=
  match holder p with Some (_, r') => N.eqb r' r | None => false end.

Lemma holds_true : forall r p, holds r p = true <-> exists i, holder p = Some (i, r).
Proof.
  intros r p. unfold holds. destruct (holder p) as [[i r']|].
  - split.
    + intros H. apply N.eqb_eq in H. subst. eauto.
    + intros [j Hj]. inversion Hj; subst. apply N.eqb_refl.
  - split; [discriminate|intros [j Hj]; discriminate].
Qed.

Lemma holds_none : forall r p, holder p = None -> holds r p = false.
Proof. intros r p H. unfold holds. rewrite H. reflexivity. Qed.
Lemma holds_acq : forall r i r' w b, holds r (PAcq i r' w b) = N.eqb r' r.
Proof. reflexivity. Qed.
Lemma holds_out : forall r i r' b, holds r (POut i r' b) = N.eqb r' r.
Proof. reflexivity. Qed.

Lemma upd_same : forall {A} (f : N -> A) k v, upd f k v k = v.
Proof. intros. unfold upd. rewrite N.eqb_refl. reflexivity. Qed.
Lemma upd_other : forall {A} (f : N -> A) k v x, x <> k -> upd f k v x = f x.
Proof. intros. unfold upd. destruct (N.eqb_spec x k); [congruence|reflexivity]. Qed.

(* a goroutine that holds no lock object and is not in the old intermediate release state *)
Definition quiet (p : pc) : Prop := holder p = None /\ forall i r b, p <> PDec i r b.

Lemma quiet_idle : quiet PIdle.
Proof. split; [reflexivity|discriminate]. Qed.
Lemma quiet_next : forall b, quiet (PNext b).
Proof. split; [reflexivity|discriminate]. Qed.
Lemma quiet_after_release : forall b, quiet (after_release b).
Proof. intros [k [|x l]]; [apply quiet_idle|apply quiet_next]. Qed.
Lemma quiet_not_in : forall p i r w b, quiet p -> p <> PIn i r w b.
Proof. intros p i r w b [H _] ->. discriminate. Qed.

(* ---------- the invariant of the fixed protocol ---------- *)
Record inv (s : state) : Prop := mkInv {
  i_hold : forall t p i r, nth_error (s_thr s) t = Some p -> holder p = Some (i, r) -> s_table s i = Some r;
  i_inj : forall i j r, s_table s i = Some r -> s_table s j = Some r -> i = j;
  i_cnt : forall i r, s_table s i = Some r -> s_cnt s r = Z.of_nat (count (holds r) (s_thr s));
  i_pool_nodup : NoDup (s_pool s);
  i_pool_free : forall r i, In r (s_pool s) -> s_table s i <> Some r;
  i_next_tab : forall i r, s_table s i = Some r -> (r < s_next s)%N;
  i_next_pool : forall r, In r (s_pool s) -> (r < s_next s)%N;
  i_nodec : forall t i r b, nth_error (s_thr s) t <> Some (PDec i r b);
  i_rw : forall t1 t2 i1 i2 r w1 w2 b1 b2, t1 <> t2 ->
           nth_error (s_thr s) t1 = Some (PIn i1 r w1 b1) -> nth_error (s_thr s) t2 = Some (PIn i2 r w2 b2) ->
           w1 = false /\ w2 = false
}.

Lemma inv_init : forall n, inv (init n).
Proof.
  intros n. assert (Hall : forall t p, nth_error (repeat PIdle n) t = Some p -> p = PIdle).
  { intros t p H. apply nth_error_In in H. apply repeat_spec in H. exact H. }
  constructor; cbn [init s_thr s_table s_pool s_cnt s_next].
  all: try discriminate.
  all: try (intros; match goal with H : nth_error (repeat PIdle _) _ = Some _ |- _ => apply Hall in H; subst; discriminate end).
  all: try (intros; match goal with H : In _ [] |- _ => destruct H end).
  all: try constructor.
  intros t i r b H. apply Hall in H. discriminate.
Qed.

(* nobody holds an object that is not in the table *)
Lemma free_not_held : forall s r, inv s -> (forall i, s_table s i <> Some r) -> count (holds r) (s_thr s) = 0%nat.
Proof.
  intros s r Hi Hfree. apply count_zero. intros t p Hp.
  destruct (holds r p) eqn:E; [|reflexivity]. apply holds_true in E. destruct E as [i Hh].
  exfalso. apply (Hfree i). eapply i_hold; eauto.
Qed.

(* the per-thread parts of the invariant when goroutine t changes from p0 to x and x is not inside *)
Lemma thr_nodec : forall s t p0 x, inv s -> nth_error (s_thr s) t = Some p0 -> (forall i r b, x <> PDec i r b) ->
  forall t' i r b, nth_error (set_nth t x (s_thr s)) t' <> Some (PDec i r b).
Proof.
  intros s t p0 x Hi Ht Hx t' i r b Hn. destruct (nth_set_cases _ _ _ _ _ _ Ht Hn) as [[-> Hbad]|[Hne Hold]].
  - eapply Hx; eauto.
  - eapply (i_nodec s Hi); eauto.
Qed.

Lemma thr_rw : forall s t p0 x, inv s -> nth_error (s_thr s) t = Some p0 -> (forall i r w b, x <> PIn i r w b) ->
  forall t1 t2 i1 i2 r w1 w2 b1 b2, t1 <> t2 ->
    nth_error (set_nth t x (s_thr s)) t1 = Some (PIn i1 r w1 b1) ->
    nth_error (set_nth t x (s_thr s)) t2 = Some (PIn i2 r w2 b2) -> w1 = false /\ w2 = false.
Proof.
  intros s t p0 x Hi Ht Hx t1 t2 i1 i2 r w1 w2 b1 b2 Hne H1 H2.
  destruct (nth_set_cases _ _ _ _ _ _ Ht H1) as [[-> E1]|[Hn1 O1]]; [exfalso; eapply Hx; eauto|].
  destruct (nth_set_cases _ _ _ _ _ _ Ht H2) as [[-> E2]|[Hn2 O2]]; [exfalso; eapply Hx; eauto|].
  apply (i_rw s Hi t1 t2 i1 i2 r w1 w2 b1 b2 Hne O1 O2).
Qed.

(* a goroutine moves on with the same object: Acq -> In -> Out *)
Lemma inv_same_holder : forall s t p0 x i r, inv s -> nth_error (s_thr s) t = Some p0 ->
  holder p0 = Some (i, r) -> holder x = Some (i, r) -> (forall j q b, x <> PDec j q b) ->
  (forall t2 i2 w w2 b b2, x = PIn i r w b -> t2 <> t -> nth_error (s_thr s) t2 = Some (PIn i2 r w2 b2) ->
     w = false /\ w2 = false) ->
  (forall i' r' w' b', x = PIn i' r' w' b' -> i' = i /\ r' = r) ->
  inv (mkS (s_table s) (s_pool s) (s_next s) (s_cnt s) (set_nth t x (s_thr s))).
Proof.
  intros s t p0 x i r Hi Ht Hp0 Hx Hnd Hrw Hxin. pose proof Hi as Hi'. destruct Hi.
  constructor; cbn [s_thr s_table s_pool s_cnt s_next]; eauto.
  - intros t' p i' r' Hn Hh. destruct (nth_set_cases _ _ _ _ _ _ Ht Hn) as [[-> ->]|[Hne Hold]].
    + rewrite Hx in Hh. inversion Hh; subst. eapply i_hold0; eauto.
    + eapply i_hold0; eauto.
  - intros i' r' Htab. rewrite (i_cnt0 i' r' Htab). f_equal.
    pose proof (count_set (holds r') (s_thr s) t x p0 Ht) as Hc.
    unfold holds in *. rewrite Hp0, Hx in Hc. lia.
  - eapply thr_nodec; eauto.
  - intros t1 t2 i1 i2 r' w1 w2 b1 b2 Hne H1 H2.
    destruct (nth_set_cases _ _ _ _ _ _ Ht H1) as [[-> E1]|[Hn1 O1]];
      destruct (nth_set_cases _ _ _ _ _ _ Ht H2) as [[-> E2]|[Hn2 O2]].
    + congruence.
    + destruct (Hxin _ _ _ _ (eq_sym E1)) as [-> ->]. apply (Hrw t2 i2 w1 w2 b1 b2 (eq_sym E1) Hn2 O2).
    + destruct (Hxin _ _ _ _ (eq_sym E2)) as [-> ->].
      destruct (Hrw t1 i1 w2 w1 b2 b1 (eq_sym E2) Hn1 O1) as [A B]. split; assumption.
    + apply (i_rw0 t1 t2 i1 i2 r' w1 w2 b1 b2 Hne O1 O2).
Qed.

(* a goroutine that holds nothing changes into another state in which it holds nothing *)
Lemma inv_quiet : forall s t p0 x, inv s -> nth_error (s_thr s) t = Some p0 -> quiet p0 -> quiet x ->
  inv (mkS (s_table s) (s_pool s) (s_next s) (s_cnt s) (set_nth t x (s_thr s))).
Proof.
  intros s t p0 x Hi Ht [Hp0 _] Hq. pose proof Hi as Hi'. destruct Hi.
  constructor; cbn [s_thr s_table s_pool s_cnt s_next]; eauto.
  - intros t' p i' r' Hn Hh. destruct (nth_set_cases _ _ _ _ _ _ Ht Hn) as [[-> ->]|[Hne Hold]].
    + destruct Hq as [Hq _]. congruence.
    + eapply i_hold0; eauto.
  - intros i' r' Htab. rewrite (i_cnt0 i' r' Htab). f_equal.
    pose proof (count_set (holds r') (s_thr s) t x p0 Ht) as Hc.
    rewrite (holds_none r' p0 Hp0), (holds_none r' x (proj1 Hq)) in Hc. lia.
  - eapply thr_nodec; eauto. apply Hq.
  - eapply thr_rw; eauto. intros. apply quiet_not_in. exact Hq.
Qed.

(* acquireSyncRef by a goroutine that holds nothing *)
Lemma inv_acquire : forall s t p0 i w b pick, inv s -> nth_error (s_thr s) t = Some p0 -> quiet p0 ->
  inv (acquire true s t i w b pick).
Proof.
  intros s t p0 i w b pick Hi Ht [Hp0 Hp0d]. unfold acquire.
  assert (Hcs : forall r' r, (count (holds r') (set_nth t (PAcq i r w b) (s_thr s))
                              = count (holds r') (s_thr s) + (if N.eqb r r' then 1 else 0))%nat).
  { intros r' r. pose proof (count_set (holds r') (s_thr s) t (PAcq i r w b) p0 Ht) as Hc.
    rewrite (holds_none r' p0 Hp0), holds_acq in Hc. lia. }
  destruct (s_table s i) as [r|] eqn:Htab.
  - (* entry found: counter + 1 *)
    pose proof Hi as Hi'. destruct Hi. constructor; cbn [s_thr s_table s_pool s_cnt s_next]; eauto.
    + intros t' p i' r' Hn Hh. destruct (nth_set_cases _ _ _ _ _ _ Ht Hn) as [[-> ->]|[Hne Hold]].
      * cbn in Hh. inversion Hh; subst. exact Htab.
      * eapply i_hold0; eauto.
    + intros i' r' Htab'. rewrite Hcs. destruct (N.eqb_spec r' r) as [->|Hne].
      * rewrite upd_same. rewrite (i_cnt0 _ _ Htab'). rewrite N.eqb_refl. lia.
      * rewrite upd_other by exact Hne. rewrite (i_cnt0 _ _ Htab').
        destruct (N.eqb_spec r r'); [congruence|]. f_equal. lia.
    + eapply thr_nodec; eauto. discriminate.
    + eapply thr_rw; eauto. discriminate.
  - (* no entry: an object from the pool, or a new one; in both cases an object nobody holds *)
    assert (Hnew : forall r pool' nxt,
               (forall j, s_table s j <> Some r) -> NoDup pool' -> ~ In r pool' ->
               (forall x, In x pool' -> In x (s_pool s)) -> (r < nxt)%N -> (s_next s <= nxt)%N ->
               inv (mkS (upd (s_table s) i (Some r)) pool' nxt (upd (s_cnt s) r 1%Z)
                        (set_nth t (PAcq i r w b) (s_thr s)))).
    { intros r pool' nxt Hfree Hnd Hnin Hsub Hlt Hle.
      pose proof (free_not_held s r Hi Hfree) as Hzero. pose proof Hi as Hi'. destruct Hi.
      constructor; cbn [s_thr s_table s_pool s_cnt s_next]; eauto.
      - intros t' p i' r' Hn Hh. destruct (nth_set_cases _ _ _ _ _ _ Ht Hn) as [[-> ->]|[Hne Hold]].
        + cbn in Hh. inversion Hh; subst. apply upd_same.
        + pose proof (i_hold0 _ _ _ _ Hold Hh) as Hold'.
          rewrite upd_other; [exact Hold'|]. intros ->. congruence.
      - intros i' j' r' H1 H2. unfold upd in H1, H2.
        destruct (N.eqb_spec i' i) as [->|N1]; destruct (N.eqb_spec j' i) as [->|N2]; auto.
        + inversion H1; subst. exfalso. eapply Hfree; eauto.
        + inversion H2; subst. exfalso. eapply Hfree; eauto.
        + eapply i_inj0; eauto.
      - intros i' r' Htab'. unfold upd in Htab'. rewrite Hcs.
        destruct (N.eqb_spec i' i) as [->|N1].
        + inversion Htab'; subst r'. rewrite upd_same. rewrite N.eqb_refl. lia.
        + assert (r' <> r) by (intros ->; eapply Hfree; eauto).
          rewrite upd_other by assumption. rewrite (i_cnt0 _ _ Htab').
          destruct (N.eqb_spec r r'); [congruence|]. f_equal. lia.
      - intros x i' Hin Htab'. unfold upd in Htab'. destruct (N.eqb_spec i' i) as [->|N1].
        + inversion Htab'; subst. contradiction.
        + eapply i_pool_free0; eauto.
      - intros i' r' Htab'. unfold upd in Htab'. destruct (N.eqb_spec i' i) as [->|N1].
        + inversion Htab'; subst. exact Hlt.
        + pose proof (i_next_tab0 _ _ Htab'). lia.
      - intros x Hin. pose proof (i_next_pool0 x (Hsub x Hin)). lia.
      - eapply thr_nodec; eauto. discriminate.
      - eapply thr_rw; eauto. discriminate. }
    destruct (take pick (s_pool s)) as [[r pool']|] eqn:Etake.
    + destruct (take_spec _ _ _ _ Etake) as (Hin & Hsub & Hnd). destruct (Hnd (i_pool_nodup s Hi)) as [Hnd' Hnin].
      apply Hnew; auto.
      * intros j. apply (i_pool_free s Hi). exact Hin.
      * apply (i_next_pool s Hi). exact Hin.
      * lia.
    + apply Hnew; auto.
      * intros j Hc. pose proof (i_next_tab s Hi _ _ Hc). lia.
      * apply (i_pool_nodup s Hi).
      * intros Hin. pose proof (i_next_pool s Hi _ Hin). lia.
      * lia.
      * lia.
Qed.

Lemma inv_step : forall s m, inv s -> inv (step true true true s m).
Proof.
  intros s m Hi. unfold step.
  destruct (nth_error (s_thr s) (m_thr m)) as [p0|] eqn:Ht; [|exact Hi].
  destruct p0 as [|b|i r w b|i r w b|i r b|i r b].
  - (* an operation starts *)
    eapply inv_acquire; eauto. apply quiet_idle.
  - (* the next ID of a Delete batch *)
    destruct (snd b) as [|i rest] eqn:Eb.
    + eapply inv_quiet; eauto; [apply quiet_next|apply quiet_idle].
    + eapply inv_acquire; eauto. apply quiet_next.
  - (* enter *)
    destruct (can_enter r w (s_thr s)) eqn:Hcan; [|exact Hi].
    eapply (inv_same_holder s (m_thr m) (PAcq i r w b) (PIn i r w b) i r); eauto.
    + intros; discriminate.
    + intros t2 i2 w' w2 b' b2 E Hne H2. inversion E; subst w'.
      pose proof (forallb_nth _ _ _ _ Hcan H2) as Hal. cbn [allows] in Hal. rewrite N.eqb_refl in Hal. cbn [negb orb] in Hal.
      apply andb_true_iff in Hal. destruct Hal as [A B]. apply negb_true_iff in A. apply negb_true_iff in B. split; assumption.
    + intros i' r' w' b' E. inversion E; subst. split; reflexivity.
  - (* leave *)
    eapply (inv_same_holder s (m_thr m) (PIn i r w b) (POut i r b) i r); eauto.
    + intros; discriminate.
    + intros; discriminate.
    + intros; discriminate.
  - (* release, one critical section, under the ID that was acquired *)
    pose proof (quiet_after_release b) as Hq. set (x := after_release b) in *.
    pose proof (i_hold s Hi _ _ i r Ht eq_refl) as Htab.
    pose proof (i_cnt s Hi _ _ Htab) as Hcnt.
    assert (Hcs : forall r', (count (holds r') (set_nth (m_thr m) x (s_thr s)) + (if N.eqb r r' then 1 else 0)
                              = count (holds r') (s_thr s))%nat).
    { intros r'. pose proof (count_set (holds r') (s_thr s) (m_thr m) x (POut i r b) Ht) as Hc.
      rewrite (holds_none r' x (proj1 Hq)), holds_out in Hc. lia. }
    pose proof (Hcs r) as Hc. rewrite N.eqb_refl in Hc.
    assert (Hother : forall r', r' <> r ->
              count (holds r') (set_nth (m_thr m) x (s_thr s)) = count (holds r') (s_thr s)).
    { intros r' Hne. pose proof (Hcs r') as Hc'. destruct (N.eqb_spec r r'); [congruence|]. lia. }
    destruct (Z.leb_spec (s_cnt s r - 1) 0) as [Hle|Hgt].
    + (* last user: remove the entry, pool the object *)
      assert (Hzero : count (holds r) (set_nth (m_thr m) x (s_thr s)) = 0%nat) by lia.
      pose proof Hi as Hi'. destruct Hi. constructor; cbn [s_thr s_table s_pool s_cnt s_next]; eauto.
      * intros t' p i' r' Hn Hh. destruct (nth_set_cases _ _ _ _ _ _ Ht Hn) as [[-> ->]|[Hne Hold]].
        -- destruct Hq as [Hq _]. congruence.
        -- pose proof (i_hold0 _ _ _ _ Hold Hh) as Hold'.
           rewrite upd_other; [exact Hold'|]. intros ->. rewrite Htab in Hold'. inversion Hold'; subst r'.
           pose proof (count_zero_inv _ _ _ _ Hzero Hn) as Hf.
           assert (holds r p = true) by (apply holds_true; eauto). congruence.
      * intros i' j' r' H1 H2. unfold upd in H1, H2.
        destruct (N.eqb_spec i' i); [discriminate|]. destruct (N.eqb_spec j' i); [discriminate|]. eapply i_inj0; eauto.
      * intros i' r' Htab'. unfold upd in Htab'. destruct (N.eqb_spec i' i) as [->|N1]; [discriminate|].
        assert (r' <> r) by (intros ->; apply N1; eapply i_inj0; eauto).
        rewrite upd_other by assumption. rewrite Hother by assumption. eapply i_cnt0; eauto.
      * constructor; [|exact i_pool_nodup0]. intros Hin. eapply i_pool_free0; eauto.
      * intros y i' Hin Htab'. unfold upd in Htab'. destruct (N.eqb_spec i' i) as [E|N1]; [discriminate|].
        destruct Hin as [<-|Hin]; [apply N1; eapply i_inj0; eauto|eapply i_pool_free0; eauto].
      * intros i' r' Htab'. unfold upd in Htab'. destruct (N.eqb_spec i' i); [discriminate|]. eapply i_next_tab0; eauto.
      * intros y [<-|Hin]; [eapply i_next_tab0; eauto|eapply i_next_pool0; eauto].
      * eapply thr_nodec; eauto. apply Hq.
      * eapply thr_rw; eauto. intros. apply quiet_not_in. exact Hq.
    + (* others still use the entry *)
      pose proof Hi as Hi'. destruct Hi. constructor; cbn [s_thr s_table s_pool s_cnt s_next]; eauto.
      * intros t' p i' r' Hn Hh. destruct (nth_set_cases _ _ _ _ _ _ Ht Hn) as [[-> ->]|[Hne Hold]].
        -- destruct Hq as [Hq _]. congruence.
        -- eapply i_hold0; eauto.
      * intros i' r' Htab'. destruct (N.eqb_spec r' r) as [->|Hne].
        -- rewrite upd_same. lia.
        -- rewrite upd_other by exact Hne. rewrite Hother by exact Hne. eapply i_cnt0; eauto.
      * eapply thr_nodec; eauto. apply Hq.
      * eapply thr_rw; eauto. intros. apply quiet_not_in. exact Hq.
  - exfalso. eapply (i_nodec s Hi); eauto.
Qed.

Lemma inv_run : forall sched s, inv s -> inv (run true true true s sched).
Proof.
  induction sched as [|m t IH]; intros s Hi; [exact Hi|]. cbn [run fold_left]. apply IH. apply inv_step. exact Hi.
Qed.

Lemma inv_exclusive : forall s, inv s -> exclusive s.
Proof.
  intros s Hi t1 t2 i r1 r2 w1 w2 Hne b1 b2 H1 H2.
  pose proof (i_hold s Hi _ _ i r1 H1 eq_refl) as E1. pose proof (i_hold s Hi _ _ i r2 H2 eq_refl) as E2.
  rewrite E1 in E2. inversion E2; subst r2. eapply (i_rw s Hi); eauto.
Qed.

(* every schedule of any number of goroutines over any message IDs, single operations and Delete batches *)
Lemma exclusive_fixed : forall n sched, exclusive (run true true true (init n) sched).
Proof. intros. apply inv_exclusive. apply inv_run. apply inv_init. Qed.

(* ---------- the old release protocol: a writer is not alone ---------- *)
(* goroutines 0..3, message 7.  0: Set, leaves, counter 1->0, waits for w.lock.  1: Get (counter 0->1), leaves, 1->0, takes
   w.lock, removes the entry, pools object 0.  2: Set creates a new entry (object 1) and is inside.  0: takes w.lock, sees
   0, removes the entry of goroutine 2 and pools object 0 again.  3: Get creates another entry (object 2) and is inside. *)
Definition go (t : nat) : move := mkM t 0 false 0 [].
Definition old_witness : list move :=
  [mkM 0 7 true 9 []; go 0; go 0; go 0;
   mkM 1 7 false 9 []; go 1; go 1; go 1; go 1;
   mkM 2 7 true 9 []; go 2;
   go 0;
   mkM 3 7 false 9 []; go 3].

Lemma old_release_not_exclusive :
  exists n sched, ~ exclusive (run false true true (init n) sched).
Proof.
  exists 4%nat, old_witness. intros H.
  destruct (H 2%nat 3%nat 7%N 1%N 2%N true false ltac:(discriminate) (7%N, []) (7%N, []))
    as [Hbad _]; [vm_compute; reflexivity..|discriminate].
Qed.

Lemma old_release_double_put :
  s_pool (run false true true (init 4) old_witness) = [0%N; 0%N].
Proof. vm_compute. reflexivity. Qed.

(* ---------- without `v.counter = 1` for a pooled object ---------- *)
(* 0: Set on 7 (object 0), done: object 0 pooled with counter 0.  1: Set takes object 0 from the pool, counter stays 0, is
   inside.  2: acquires the entry (counter 1), waits.  1 leaves and releases: 1-1 = 0, entry removed although 2 holds it.
   2 enters (object 0).  3: Get creates a new entry (object 1) and is inside. *)
Definition noreset_witness : list move :=
  [mkM 0 7 true 9 []; go 0; go 0; go 0;
   mkM 1 7 true 0 []; go 1;
   mkM 2 7 true 9 [];
   go 1; go 1;
   go 2;
   mkM 3 7 false 9 []; go 3].

Lemma noreset_not_exclusive :
  exists n sched, ~ exclusive (run true false true (init n) sched).
Proof.
  exists 4%nat, noreset_witness. intros H.
  destruct (H 2%nat 3%nat 7%N 0%N 1%N true false ltac:(discriminate) (7%N, []) (7%N, []))
    as [Hbad _]; [vm_compute; reflexivity..|discriminate].
Qed.

(* ---------- Delete(ids...) releasing every lock object under the FIRST ID of the batch ---------- *)
(* messages 7 and 8.  0: Delete(7, 8): 7 is done (entry removed, object 0 pooled), is inside deleting 8 (object 1).
   1: Set(7) creates a new entry (object 2) and is inside.  0: leaves and releases object 1 under key 7: counter 0, so the
   entry of goroutine 1 is removed.  2: Get(7) creates another entry (object 3) and is inside together with the writer. *)
Definition wrongkey_witness : list move :=
  [mkM 0 7 true 9 [8%N]; go 0; go 0; go 0;
   mkM 0 0 false 9 []; go 0;
   mkM 1 7 true 9 []; go 1;
   go 0; go 0;
   mkM 2 7 false 9 []; go 2].

Lemma wrongkey_not_exclusive :
  exists n sched, ~ exclusive (run true true false (init n) sched).
Proof.
  exists 3%nat, wrongkey_witness. intros H.
  destruct (H 1%nat 2%nat 7%N 2%N 3%N true false ltac:(discriminate) (7%N, []) (7%N, []))
    as [Hbad _]; [vm_compute; reflexivity..|discriminate].
Qed.
