(* C15 — SEARCH returns exactly the messages of the session's view that match.
   Property theorems only; every proof is `exact <lemma>` followed by Print Assumptions.
   `search` is the Impl model of internal/state/mailbox_search.go (Model/SearchImpl.v: key tree compiled into
   closures with short-circuit and error propagation, one result slot per snapshot position, zero filtering);
   `eval` is the denotation of a key tree on one message (Model/SearchSpec.v).  `snap` is the SESSION's snapshot:
   its own sequence numbers, UIDs and flags; a message expunged by another session is still in it until the
   session has been told, and is searched like any other (C15_uses_session_view). *)
From Coq Require Import List NArith Bool String.
From Gluon Require Import Model.SeqSet Proofs.SeqSetProofs Model.SearchSpec Model.SearchImpl Proofs.SearchProofs.
Import ListNotations.
Open Scope N_scope.

(* Main statement: when nothing forces a refusal (no_error: no key requires BAD and every message the keys need
   can be read), SEARCH / UID SEARCH return, in view order, the numbers of exactly the messages of the view on
   which the key tree evaluates to true. *)
Theorem C15_compile_correct : forall cs uidmode keys snap, wf_snap snap -> no_error keys snap ->
  search cs uidmode keys snap =
  ROk (map (mapfn_of uidmode) (filter (eval cs (snap_cnt snap) (snap_uids snap) (KList keys)) snap)).
Proof. exact search_no_error. Qed.
Print Assumptions C15_compile_correct.

(* Complete characterisation, including the refusals. *)
Theorem C15_search_total : forall cs uidmode keys snap, wf_snap snap ->
  search cs uidmode keys snap =
  if key_bad (snap_cnt snap) (KList keys) then RBad
  else if existsb (msg_unreadable (KList keys)) snap then RNo
  else ROk (map (mapfn_of uidmode) (sel_of cs keys snap)).
Proof. exact search_correct. Qed.
Print Assumptions C15_search_total.

(* ascending order, no duplicates *)
Theorem C15_ascending_nodup : forall cs uidmode keys snap l, wf_snap snap ->
  search cs uidmode keys snap = ROk l -> srt l /\ NoDup l.
Proof. exact search_ascending. Qed.
Print Assumptions C15_ascending_nodup.

(* UID SEARCH returns the UIDs of the same messages (and is refused exactly when SEARCH is) *)
Theorem C15_uid_search_same_messages : forall cs keys snap, wf_snap snap ->
  match search cs false keys snap with
  | ROk ls => ls = map m_seq (sel_of cs keys snap) /\ search cs true keys snap = ROk (map m_uid (sel_of cs keys snap))
  | r => search cs true keys snap = r
  end.
Proof. exact search_uid_same. Qed.
Print Assumptions C15_uid_search_same_messages.

(* Boolean structure, on the result SETS *)
Theorem C15_not_is_complement : forall cs uidmode k snap l, wf_snap snap ->
  search cs uidmode [KNot k] snap = ROk l ->
  exists l', search cs uidmode [k] snap = ROk l' /\
             forall p, In p l <-> In p (map (mapfn_of uidmode) snap) /\ ~ In p l'.
Proof. exact search_not. Qed.
Print Assumptions C15_not_is_complement.

Theorem C15_or_is_union : forall cs uidmode a b snap l, wf_snap snap ->
  search cs uidmode [KOr a b] snap = ROk l ->
  exists la lb, search cs uidmode [a] snap = ROk la /\ search cs uidmode [b] snap = ROk lb /\
                forall p, In p l <-> In p la \/ In p lb.
Proof. exact search_or. Qed.
Print Assumptions C15_or_is_union.

Theorem C15_juxtaposition_is_intersection : forall cs uidmode k1 k2 snap l, wf_snap snap ->
  search cs uidmode (k1 ++ k2) snap = ROk l ->
  exists l1 l2, search cs uidmode k1 snap = ROk l1 /\ search cs uidmode k2 snap = ROk l2 /\
                forall p, In p l <-> In p l1 /\ In p l2.
Proof. exact search_and. Qed.
Print Assumptions C15_juxtaposition_is_intersection.

Theorem C15_parenthesised_list : forall cs uidmode ks snap, wf_snap snap ->
  search cs uidmode [KList ks] snap = search cs uidmode ks snap.
Proof. exact search_paren. Qed.
Print Assumptions C15_parenthesised_list.

(* the session's view is what is searched: every message it holds is reported iff it satisfies the keys *)
Theorem C15_uses_session_view : forall cs uidmode keys snap m, wf_snap snap -> no_error keys snap -> In m snap ->
  exists l, search cs uidmode keys snap = ROk l /\
            (In (mapfn_of uidmode m) l <-> eval cs (snap_cnt snap) (snap_uids snap) (KList keys) m = true).
Proof. exact search_uses_view. Qed.
Print Assumptions C15_uses_session_view.

(* refusals: BAD exactly when a key of the tree requires it; a sequence number beyond the view always does *)
Theorem C15_bad_iff : forall cs uidmode keys snap, wf_snap snap ->
  (search cs uidmode keys snap = RBad <-> key_bad (snap_cnt snap) (KList keys) = true).
Proof. exact search_bad_iff. Qed.
Print Assumptions C15_bad_iff.

Theorem C15_seq_beyond_view_requires_BAD : forall cnt s r n, In r s ->
  (fst r = WNum n \/ snd r = WNum n) -> cnt < n -> leaf_bad cnt (LSeqSet s) = true.
Proof. exact key_bad_seq_beyond. Qed.
Print Assumptions C15_seq_beyond_view_requires_BAD.

(* non-vacuity: a view of three messages (UIDs 2,5,9; the second one flagged \Seen, Date: unparsable on the third) *)
Definition ex_msg (seq uid : N) (fl : list bytes) (sent : option N) (subj : string) : msgdata :=
  mkMsg seq uid fl 100 738000 sent [(bs "Subject", bs subj); (bs "X-Tag", bs "one"); (bs "x-tag", bs "two")]
        (bs "body") (bs "text") true true true.
Definition ex_snap : list msgdata :=
  [ex_msg 1 2 [] (Some 738000) "Hello"; ex_msg 2 5 [f_seen] (Some 738005) "hello again"; ex_msg 3 9 [f_recent] None "bye"].

Example C15_example_hypotheses : wf_snap ex_snap /\
  no_error [KOr (KLeaf LSeen) (KNot (KLeaf (LSubject (bs "HELLO")))); KLeaf (LSeqSet [(WNum 2, WStar)])] ex_snap.
Proof. vm_compute. repeat split. Qed.

Example C15_example_results :
  let cs := CsNone in
  search cs false [KOr (KLeaf LSeen) (KNot (KLeaf (LSubject (bs "HELLO")))); KLeaf (LSeqSet [(WNum 2, WStar)])] ex_snap
    = ROk [2; 3]
  /\ search cs true [KLeaf (LSentSince 738000)] ex_snap = ROk [2; 5]
  /\ search cs false [KNot (KLeaf (LSentSince 738000))] ex_snap = ROk [3]
  /\ search cs false [KLeaf (LHeader (bs "X-TAG") (bs "two"))] ex_snap = ROk [1; 2; 3]
  /\ search cs false [KLeaf (LHeader (bs "X-Other") [])] ex_snap = ROk []
  /\ search cs false [KLeaf (LSeqSet [(WNum 4, WNum 4)])] ex_snap = RBad
  /\ search cs false [KNot (KLeaf (LSeqSet [(WNum 4294967297, WNum 4294967297)]))] ex_snap = RBad.
Proof. vm_compute. repeat split. Qed.

(* CHARSET: the key "rÉUnion" sent as ISO-8859-1 (É = 0xC9) finds the message whose Subject says "Réunion" in UTF-8;
   decoding comes first, folding second — folding the undecoded key would have destroyed the byte 0xC9 *)
Definition ex_latin_key : bytes := [114; 201; 85; 110; 105; 111; 110].
Definition ex_snap2 : list msgdata :=
  [mkMsg 1 1 [] 50 738000 None [(bs "Subject", [82; 195; 169] ++ bs "union au caf" ++ [195; 169])] (bs "x") (bs "y") true true true;
   mkMsg 2 2 [] 50 738000 None [(bs "Subject", bs "Reunion au cafe")] (bs "x") (bs "y") true true true].
Example C15_example_charset :
  search CsLatin1 false [KLeaf (LSubject ex_latin_key)] ex_snap2 = ROk [1]
  /\ search CsLatin1 true [KNot (KLeaf (LSubject ex_latin_key))] ex_snap2 = ROk [2]
  /\ keynorm CsLatin1 ex_latin_key = bs "r" ++ [195; 169] ++ bs "union"
  /\ decode CsLatin1 (ufold ex_latin_key) <> keynorm CsLatin1 ex_latin_key.
Proof. vm_compute. repeat split. discriminate. Qed.
