#!/usr/bin/env python3
"""Regenerates MANIFEST.json from lib/manifest_data.py (kept as a script so the file always validates)."""
import json, os, sys
sys.path.insert(0, os.path.dirname(os.path.abspath(__file__)))
import manifest_data as d
V = os.path.dirname(os.path.dirname(os.path.abspath(__file__)))
import glob
CHECKS = {}
for f in sorted(glob.glob(os.path.join(V, "lib", "cfg", "C*.json"))):
    c = json.load(open(f))
    if c.get("manifest") and not c.get("disabled") and os.path.basename(f)[:-5] in d.READY:
        CHECKS[os.path.basename(f)[:-5]] = c["manifest"]
checks = []
for pid, c in sorted(CHECKS.items()):
    checks.append({
        "property_id": pid,
        "quick_cmd": "bin/check %s quick" % pid,
        "thorough_cmd": "bin/check %s thorough" % pid,
        "evidence_file": "/verif/evidence/%s.json" % pid,
        "replay_cmd_template": "bin/check %s quick --replay {path}" % pid,
        "engine": "coq-proof+correspondence",
        "level_claimed": {"category": "proof", "text": c["text"], "design_ref": c.get("design_ref", "DESIGN.md section 5 / " + pid)},
        "level_note": c["note"],
        "technique": c["technique"],
    })
m = {
    "version": 1,
    "setup_cmd": "sh bin/setup",
    "hooks": d.HOOKS,
    "engines": [{"name": "coq-proof+correspondence", "path": "/verif/bin/check",
                 "serves_properties": sorted(CHECKS.keys()),
                 "kind_free_text": "Coq 8.16.1 theorems about executable Gallina models (coq/), tied to /repo by a translator (translator/srcfacts -> coq/Gen/Facts.v) and by a Go correspondence harness (harness/) whose cases are evaluated by the model inside Coq (vm_compute); property oracle evaluated on the implementation for the failing-input search"}],
    "checks": checks,
    "notes": d.NOTES,
    "not_applicable": [{"property_id": p, "reason": d.NA_REASONS.get(p, "check under construction in this round; not claimed yet")} for p in d.ALL if p not in CHECKS],
}
json.dump(m, open(os.path.join(V, "MANIFEST.json"), "w"), indent=1)
print("wrote MANIFEST.json with", len(checks), "checks")
