(* Correspondence runner for C19: per user, what the stress harness observed around the close of the user's database;
   `mismatches` lists the observations the teardown model does not allow (Model/Teardown.v observation_ok, justified
   by C19_states_removed_before_db_close / C19_db_steps_need_open_db / C19_closed_on_return). *)
From Coq Require Import List NArith Bool.
From Gluon Require Export Model.Teardown.
Import ListNotations.

Record case := mkCase {
  c_id : nat;
  c_db_ops_after_close : N;
  c_db_inflight_at_close : N;
  c_store_ops_after_close : N;
  c_store_before_db : bool;
  c_db_closed : bool;
  c_closed_before_return : bool }.

Definition case_ok (c : case) : bool :=
  observation_ok (N.to_nat (c_db_ops_after_close c)) (N.to_nat (c_db_inflight_at_close c))
                 (N.to_nat (c_store_ops_after_close c)) (c_store_before_db c) (c_db_closed c) (c_closed_before_return c).

Definition mismatches (cs : list case) : list nat :=
  map c_id (filter (fun c => negb (case_ok c)) cs).
