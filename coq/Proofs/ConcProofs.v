(* C19 — lemmas: lock order (no cycle of waiting threads) and the teardown transition system. *)
From Coq Require Import List String Arith Bool Lia.
From Gluon Require Import Gen.FactsLocks Model.LockOrder Model.Teardown.
Import ListNotations.
Open Scope nat_scope.

(* ================= lock order ================= *)
Section Order.
  Variable rank : lock -> nat.

  Lemma chain_rank ts i j n : Forall (respects rank) ts -> chain ts i j n ->
    forall tj wj, nth_error ts j = Some tj -> waiting tj = Some wj ->
    exists ti wi, nth_error ts i = Some ti /\ waiting ti = Some wi /\ rank wi < rank wj.
  Proof.
    intros HR C. induction C as [i j W|i j k n W C IH]; intros tk wk Hk Hw.
    - destruct W as (ti & tj & w & Hi & Hj & Hwi & Hin).
      rewrite Hk in Hj. injection Hj as <-.
      exists ti, w. repeat split; auto.
      rewrite Forall_forall in HR. apply (HR tk (nth_error_In _ _ Hk) wk w Hw Hin).
    - destruct (IH tk wk Hk Hw) as (tj & wj & Hj & Hwj & Hlt).
      destruct W as (ti & tj' & w & Hi & Hj' & Hwi & Hin).
      rewrite Hj in Hj'. injection Hj' as <-.
      exists ti, w. repeat split; auto.
      rewrite Forall_forall in HR. pose proof (HR tj (nth_error_In _ _ Hj) wj w Hwj Hin). lia.
  Qed.

  Lemma chain_head_waits ts i j n : chain ts i j n -> exists ti wi, nth_error ts i = Some ti /\ waiting ti = Some wi.
  Proof. intros C. destruct C as [i j W|i j k n W _]; destruct W as (ti & _ & w & Hi & _ & Hw & _); eauto. Qed.

  (* for any number of threads: if every thread respects the ranking there is no cycle of threads each waiting for a
     lock held by the next *)
  Theorem no_wait_cycle ts : Forall (respects rank) ts -> forall i n, ~ chain ts i i n.
  Proof.
    intros HR i n C. destruct (chain_head_waits ts i i n C) as (ti & wi & Hi & Hw).
    destruct (chain_rank ts i i n HR C ti wi Hi Hw) as (ti' & wi' & Hi' & Hw' & Hlt).
    rewrite Hi in Hi'. injection Hi' as <-. rewrite Hw in Hw'. injection Hw' as <-. lia.
  Qed.
End Order.

Lemma table_ok_true : table_ok = true.
Proof. vm_compute. reflexivity. Qed.

Lemma table_respects t : table_ok = true -> follows_table t -> never_waits_confined t -> respects LockOrder.rank t.
Proof.
  intros T F NC w l Hw Hl. unfold table_ok in T. apply andb_true_iff in T as [T _].
  rewrite forallb_forall in T.
  specialize (F w l Hw Hl). apply in_map_iff in F as (e & He & Hin). specialize (T e Hin).
  unfold edge_ok in T. apply andb_true_iff in T as [_ T]. apply orb_true_iff in T as [T|T].
  - unfold edge_inner in T. rewrite He in T. cbn [snd] in T. rewrite (NC w Hw) in T. discriminate.
  - apply Nat.ltb_lt in T. unfold edge_outer, edge_inner in T. rewrite He in T. exact T.
Qed.

Theorem no_lock_deadlock_lemma ts : Forall follows_table ts -> Forall never_waits_confined ts ->
  forall i n, ~ chain ts i i n.
Proof.
  intros F NC. apply (no_wait_cycle LockOrder.rank).
  rewrite Forall_forall in *. intros t Ht. apply table_respects; auto using table_ok_true.
Qed.

Lemma release_path_avoids_usersLock :
  existsb (String.eqb "Backend.usersLock") release_path_locks = false /\
  existsb (String.eqb "Backend.loginLock") release_path_locks = false.
Proof. vm_compute. split; reflexivity. Qed.

(* ================= teardown ================= *)
Notation cnt := total.
Definition alive_n (x : sess) : nat := if session_alive x then 1 else 0.

Lemma cnt_set_nth f l i x y : nth_error l i = Some y -> cnt f (set_nth i x l) + f y = cnt f l + f x.
Proof.
  revert i. induction l as [|z t IH]; intros [|i] H; cbn in H; try discriminate.
  - injection H as ->. cbn [set_nth total]. lia.
  - cbn [set_nth total]. specialize (IH i H). lia.
Qed.

Lemma nth_set_nth_same l i x y : nth_error l i = Some y -> nth_error (set_nth i x l) i = Some x.
Proof. revert i. induction l as [|z t IH]; intros [|i] H; cbn in *; try discriminate; auto. Qed.

Lemma Forall_set_nth (P : sess -> Prop) l i x : Forall P l -> P x -> Forall P (set_nth i x l).
Proof.
  revert i. induction l as [|z t IH]; intros i HF Hx; [destruct i; constructor|].
  inversion HF; subst. destruct i; cbn; constructor; auto.
Qed.

Lemma cnt_alive_pos l : 0 < cnt alive_n l -> exists i x, nth_error l i = Some x /\ session_alive x = true.
Proof.
  induction l as [|z t IH]; cbn [total]; [lia|]. intros H.
  destruct (session_alive z) eqn:E.
  - exists 0, z. auto.
  - unfold alive_n at 1 in H. rewrite E in H. destruct (IH H) as (i & x & Hi & Hx). exists (S i), x. auto.
Qed.

Lemma cnt_alive_zero l : cnt alive_n l = 0 -> existsb session_alive l = false.
Proof.
  induction l as [|z t IH]; cbn [total existsb]; [reflexivity|]. unfold alive_n at 1.
  destruct (session_alive z); cbn [orb]; [lia|]. intros H. apply IH. exact H.
Qed.

Lemma cnt_signal_all f l : (forall x, f (mkSess (ph x) true) = f x) -> cnt f (signal_all l) = cnt f l.
Proof.
  intros E. unfold signal_all. induction l as [|z t IH]; cbn [map total]; [reflexivity|]. rewrite E, IH. reflexivity.
Qed.

Record Inv (s : tstate) : Prop := mkInv {
  inv_wg : wg s = cnt alive_n (ss s);
  inv_db : db_open s = false -> cidx (cl s) = 9;
  inv_db2 : cidx (cl s) = 9 -> db_open s = false;
  inv_upd : 2 <= cidx (cl s) -> upd_running s = false;
  inv_fwd : 4 <= cidx (cl s) -> fwd_running s = false;
  inv_wait : 7 <= cidx (cl s) -> wg s = 0;
  inv_store : store_open s = false -> 8 <= cidx (cl s);
  inv_store2 : 8 <= cidx (cl s) -> store_open s = false;
  inv_sig : 6 <= cidx (cl s) -> Forall (fun x => signalled x = true) (ss s) }.

Lemma cnt_repeat f x n : cnt f (repeat x n) = n * f x.
Proof. induction n as [|n IH]; cbn [repeat total]; [reflexivity|]. rewrite IH. lia. Qed.

Lemma inv_init n : Inv (init n).
Proof.
  constructor; cbn; try (intros; lia); try discriminate.
  rewrite cnt_repeat. cbn. lia.
Qed.

Ltac inv_phase :=
  match goal with
  | H : nth_error _ _ = Some ?x |- _ => destruct x as [[] sg]; try discriminate
  end.

Lemma inv_step s l s' : Inv s -> step s l = Some s' -> Inv s'.
Proof.
  intros I H. destruct I as [Iwg Idb Idb2 Iupd Ifwd Iwait Istore Istore2 Isig].
  destruct l as [i| |i|i|i| | |]; cbn [step] in H.
  - (* command *) destruct (nth_error (ss s) i) as [[[] []]|]; try discriminate. injection H as <-. constructor; auto.
  - destruct (upd_running s) eqn:Eu; [|discriminate]. injection H as <-. constructor; auto.
    intros Hc. rewrite Eu. apply Iupd. exact Hc.
  - (* end *) destruct (nth_error (ss s) i) as [x|] eqn:E; [|discriminate]. destruct x as [[] sg]; try discriminate.
    injection H as <-. constructor; cbn; auto.
    + pose proof (cnt_set_nth alive_n (ss s) i (mkSess SRelease1 sg) _ E) as C. cbn in C. lia.
    + intros Hc. apply Forall_set_nth; [auto|]. specialize (Isig Hc). rewrite Forall_forall in Isig.
      apply (Isig _ (nth_error_In _ _ E)).
  - destruct (nth_error (ss s) i) as [x|] eqn:E; [|discriminate]. destruct x as [[] sg]; try discriminate.
    injection H as <-. constructor; cbn; auto.
    + pose proof (cnt_set_nth alive_n (ss s) i (mkSess SRelease2 sg) _ E) as C. cbn in C. lia.
    + intros Hc. apply Forall_set_nth; [auto|]. specialize (Isig Hc). rewrite Forall_forall in Isig.
      apply (Isig _ (nth_error_In _ _ E)).
  - destruct (nth_error (ss s) i) as [x|] eqn:E; [|discriminate]. destruct x as [[] sg]; try discriminate.
    injection H as <-. constructor; cbn; auto.
    + pose proof (cnt_set_nth alive_n (ss s) i (mkSess SGone sg) _ E) as C. cbn in C. lia.
    + intros Hc. specialize (Iwait Hc). lia.
    + intros Hc. apply Forall_set_nth; [auto|]. specialize (Isig Hc). rewrite Forall_forall in Isig.
      apply (Isig _ (nth_error_In _ _ E)).
  - destruct (upd_running s && (1 <=? cidx (cl s))); [|discriminate]. injection H as <-. constructor; cbn; auto.
  - destruct (fwd_running s && (3 <=? cidx (cl s))); [|discriminate]. injection H as <-. constructor; cbn; auto.
  - (* closer *) unfold closer_step in H.
    assert (FIN: forall P : Prop, P -> P) by auto.
    destruct (cl s) eqn:Ec; cbn [cidx] in *;
      try (destruct (upd_running s) eqn:Eu; [discriminate|]);
      try (destruct (fwd_running s) eqn:Ef; [discriminate|]);
      try (destruct (wg s) eqn:Ew; [|discriminate]);
      try discriminate;
      injection H as <-; constructor; cbn [ss upd_running fwd_running cl wg db_open store_open with_cl with_ss cidx];
      auto; try (intros; lia);
      try (intros D; specialize (Idb D); lia);
      try (intros D; specialize (Istore D); lia);
      try (intros; apply Isig; lia); try (intros; apply Iupd; lia); try (intros; apply Ifwd; lia);
      try (intros; apply Iwait; lia); try (intros; apply Istore2; lia); try (intros; apply Idb2; lia).
    + rewrite cnt_signal_all; [exact Iwg|]. intros x. reflexivity.
    + intros _. unfold signal_all. apply Forall_forall. intros x Hx. apply in_map_iff in Hx as (y & <- & _). reflexivity.
Qed.

Lemma inv_run s tr s' : Inv s -> run s tr = Some s' -> Inv s'.
Proof.
  revert s. induction tr as [|l t IH]; intros s I H; cbn in H.
  - injection H as <-. exact I.
  - destruct (step s l) as [s1|] eqn:E; [|discriminate]. apply (IH s1); [apply (inv_step s l); auto|exact H].
Qed.

Lemma inv_reachable n s : reachable n s -> Inv s.
Proof. intros [tr H]. apply (inv_run (init n) tr); [apply inv_init|exact H]. Qed.

(* no deadlock of the teardown protocol: as long as user.close has not returned, somebody can move *)
Theorem progress_lemma n s : reachable n s -> final s = false -> exists l s', step s l = Some s'.
Proof.
  intros R F. pose proof (inv_reachable n s R) as I. destruct I as [Iwg _ _ _ _ _ _ _ _].
  unfold final in F. destruct (cl s) eqn:Ec; try discriminate.
  - exists LCloser. cbn. unfold closer_step. rewrite Ec. eauto.
  - destruct (upd_running s) eqn:Eu.
    + exists LUpdStop. cbn. rewrite Eu, Ec. cbn. eauto.
    + exists LCloser. cbn. unfold closer_step. rewrite Ec, Eu. eauto.
  - exists LCloser. cbn. unfold closer_step. rewrite Ec. eauto.
  - destruct (fwd_running s) eqn:Ef.
    + exists LFwdStop. cbn. rewrite Ef, Ec. cbn. eauto.
    + exists LCloser. cbn. unfold closer_step. rewrite Ec, Ef. eauto.
  - exists LCloser. cbn. unfold closer_step. rewrite Ec. eauto.
  - exists LCloser. cbn. unfold closer_step. rewrite Ec. eauto.
  - destruct (wg s) eqn:Ew.
    + exists LCloser. cbn. unfold closer_step. rewrite Ec, Ew. eauto.
    + assert (0 < cnt alive_n (ss s)) as P by lia.
      destruct (cnt_alive_pos _ P) as (i & x & Hi & Hx). destruct x as [p sg]. destruct p; try discriminate.
      * exists (LEnd i). cbn. rewrite Hi. eauto.
      * exists (LRel1 i). cbn. rewrite Hi. eauto.
      * exists (LRel2 i). cbn. rewrite Hi. eauto.
  - exists LCloser. cbn. unfold closer_step. rewrite Ec. eauto.
  - exists LCloser. cbn. unfold closer_step. rewrite Ec. eauto.
Qed.

Lemma idle_step_same s l s' : step s l = Some s' -> is_idle l = true -> s' = s.
Proof.
  destruct l; cbn; try discriminate; intros H _.
  - destruct (nth_error (ss s) i) as [[[] []]|]; try discriminate. injection H as <-. reflexivity.
  - destruct (upd_running s); [|discriminate]. injection H as <-. reflexivity.
Qed.

Lemma measure_set_nth s i x y u f c w d st : nth_error (ss s) i = Some y ->
  measure (mkT (set_nth i x (ss s)) u f c w d st) + weight y
  = (9 - cidx c) + cnt weight (ss s) + weight x + (if u then 1 else 0) + (if f then 1 else 0).
Proof.
  intros E. unfold measure. cbn [ss upd_running fwd_running cl]. pose proof (cnt_set_nth weight (ss s) i x y E) as C. lia.
Qed.

Lemma nonidle_step_decreases s l s' : step s l = Some s' -> is_idle l = false -> measure s' < measure s.
Proof.
  intros H NI. destruct l as [i| |i|i|i| | |]; cbn in NI; try discriminate; cbn [step] in H.
  - destruct (nth_error (ss s) i) as [x|] eqn:E; [|discriminate]. destruct x as [[] sg]; try discriminate.
    injection H as <-. unfold with_ss.
    pose proof (measure_set_nth s i (mkSess SRelease1 sg) _ (upd_running s) (fwd_running s) (cl s) (wg s) (db_open s) (store_open s) E) as M.
    cbn [weight ph] in M. unfold measure at 2. lia.
  - destruct (nth_error (ss s) i) as [x|] eqn:E; [|discriminate]. destruct x as [[] sg]; try discriminate.
    injection H as <-. unfold with_ss.
    pose proof (measure_set_nth s i (mkSess SRelease2 sg) _ (upd_running s) (fwd_running s) (cl s) (wg s) (db_open s) (store_open s) E) as M.
    cbn [weight ph] in M. unfold measure at 2. lia.
  - destruct (nth_error (ss s) i) as [x|] eqn:E; [|discriminate]. destruct x as [[] sg]; try discriminate.
    injection H as <-.
    pose proof (measure_set_nth s i (mkSess SGone sg) _ (upd_running s) (fwd_running s) (cl s) (pred (wg s)) (db_open s) (store_open s) E) as M.
    cbn [weight ph] in M. unfold measure at 2. lia.
  - destruct (upd_running s && (1 <=? cidx (cl s))) eqn:Ex; [|discriminate]. apply andb_true_iff in Ex as [Eu _].
    injection H as <-. unfold measure. cbn [ss upd_running fwd_running cl]. rewrite Eu. lia.
  - destruct (fwd_running s && (3 <=? cidx (cl s))) eqn:Ex; [|discriminate]. apply andb_true_iff in Ex as [Ef _].
    injection H as <-. unfold measure. cbn [ss upd_running fwd_running cl]. rewrite Ef. lia.
  - unfold closer_step in H.
    destruct (cl s) eqn:Ec;
      try (destruct (upd_running s) eqn:Eu; [discriminate|]);
      try (destruct (fwd_running s) eqn:Ef; [discriminate|]);
      try (destruct (wg s) eqn:Ew; [|discriminate]);
      try discriminate;
      injection H as <-; unfold measure;
      cbn [ss upd_running fwd_running cl wg db_open store_open with_cl with_ss cidx];
      rewrite ?Ec, ?Eu, ?Ef; cbn [cidx];
      try rewrite (cnt_signal_all weight (ss s) (fun x => eq_refl)); lia.
Qed.

(* in every execution the steps that are not "a session runs a command" / "an update is applied" are bounded *)
Theorem nonidle_bounded_lemma s tr s' : run s tr = Some s' -> count_nonidle tr + measure s' <= measure s.
Proof.
  revert s. induction tr as [|l t IH]; intros s H; cbn in H.
  - injection H as <-. cbn. lia.
  - destruct (step s l) as [s1|] eqn:E; [|discriminate]. specialize (IH s1 H). cbn [count_nonidle].
    destruct (is_idle l) eqn:Ei.
    + rewrite (idle_step_same s l s1 E Ei) in IH. lia.
    + pose proof (nonidle_step_decreases s l s1 E Ei). lia.
Qed.

Lemma measure_init n : measure (init n) = 3 * n + 11.
Proof. unfold measure. cbn [init ss cl cidx upd_running fwd_running]. rewrite (cnt_repeat weight (mkSess SActive false) n). cbn [weight ph]. lia. Qed.

Theorem nonidle_bounded_init n tr s : run (init n) tr = Some s -> count_nonidle tr + measure s <= 3 * n + 11.
Proof. intros H. rewrite <- (measure_init n). exact (nonidle_bounded_lemma (init n) tr s H). Qed.

(* once the states have been signalled no idle step is possible any more: every step makes progress *)
Theorem late_steps_decrease_lemma n s l s' : reachable n s -> 6 <= cidx (cl s) -> step s l = Some s' ->
  measure s' < measure s.
Proof.
  intros R Hc H. pose proof (inv_reachable n s R) as I.
  destruct (is_idle l) eqn:Ei; [|apply (nonidle_step_decreases s l s' H Ei)].
  exfalso. destruct l; cbn in Ei; try discriminate; cbn [step] in H.
  - destruct (nth_error (ss s) i) as [x|] eqn:E; [|discriminate].
    pose proof (inv_sig s I Hc) as Sg. rewrite Forall_forall in Sg. specialize (Sg x (nth_error_In _ _ E)).
    destruct x as [p sg]. cbn in Sg. subst sg. destruct p; discriminate.
  - rewrite (inv_upd s I) in H by lia. discriminate.
Qed.

(* the database is only closed once no session state is left and the update goroutine has ended *)
Theorem states_removed_before_db_close_lemma n s : reachable n s -> db_open s = false -> db_user_exists s = false.
Proof.
  intros R D. pose proof (inv_reachable n s R) as I. pose proof (inv_db s I D) as Hc.
  unfold db_user_exists. rewrite (inv_upd s I) by lia. rewrite orb_false_r.
  apply cnt_alive_zero. rewrite <- (inv_wg s I). apply (inv_wait s I). lia.
Qed.

(* conversely: a step that touches the database is only possible while it is open *)
Theorem db_steps_need_open_db_lemma n s l s' : reachable n s -> step s l = Some s' ->
  match l with LCommand _ | LApply | LRel1 _ | LRel2 _ => db_open s = true | _ => True end.
Proof.
  intros R H. destruct (db_open s) eqn:D; [destruct l; auto|].
  pose proof (states_removed_before_db_close_lemma n s R D) as U. unfold db_user_exists in U.
  apply orb_false_iff in U as [U1 U2].
  assert (A: forall i x, nth_error (ss s) i = Some x -> session_alive x = false).
  { intros i x E. destruct (session_alive x) eqn:Ea; [|reflexivity].
    assert (existsb session_alive (ss s) = true) as X by (apply existsb_exists; exists x; split; [apply (nth_error_In _ _ E)|exact Ea]).
    rewrite X in U1. discriminate. }
  destruct l as [i| |i|i|i| | |]; auto; cbn [step] in H.
  - destruct (nth_error (ss s) i) as [x|] eqn:E; [|discriminate]. specialize (A i x E). destruct x as [[] []]; discriminate.
  - rewrite U2 in H. discriminate.
  - destruct (nth_error (ss s) i) as [x|] eqn:E; [|discriminate]. specialize (A i x E). destruct x as [[] sg]; discriminate.
  - destruct (nth_error (ss s) i) as [x|] eqn:E; [|discriminate]. specialize (A i x E). destruct x as [[] sg]; discriminate.
Qed.

(* the store is closed before the database, and both are closed when user.close has returned *)
Theorem closed_on_return_lemma n s : reachable n s -> final s = true -> db_open s = false /\ store_open s = false.
Proof.
  intros R F. pose proof (inv_reachable n s R) as I. unfold final in F. destruct (cl s) eqn:Ec; try discriminate.
  split; [apply (inv_db2 s I)|apply (inv_store2 s I)]; rewrite Ec; cbn; lia.
Qed.

Theorem store_closed_before_db_lemma n s : reachable n s -> db_open s = false -> store_open s = false.
Proof.
  intros R D. pose proof (inv_reachable n s R) as I. apply (inv_store2 s I). rewrite (inv_db s I D). lia.
Qed.
