package main

import (
	"fmt"
	"go/ast"
	"os"
	"path/filepath"
	"regexp"
	"sort"
	"strings"
)

// FactsFilters: (a) the meaning of every state filter's Filter method as a conjunction of atoms, read off the return
// expression; (b) which filter each state-update type embeds (struct embedding) or is built with (constructor call).
func init() { register("Filters", extractFilters) }

var filterAtoms = []struct {
	re   *regexp.Regexp
	atom string
}{
	{regexp.MustCompile(`^s\.snap != nil$`), "ASelected"},
	{regexp.MustCompile(`^s\.snap\.mboxID\.InternalID == f\.\w+$`), "AMboxEq"},
	{regexp.MustCompile(`^s\.hasMessageOrPendingExists\(f\.\w+\)$`), "AHasOrPending"},
	{regexp.MustCompile(`^s\.snap\.hasMessage\(f\.\w+\)$`), "AHasMsg"},
}

func conjuncts(e ast.Expr, out *[]ast.Expr) {
	if b, ok := e.(*ast.BinaryExpr); ok && b.Op.String() == "&&" {
		conjuncts(b.X, out)
		conjuncts(b.Y, out)
		return
	}
	if p, ok := e.(*ast.ParenExpr); ok {
		conjuncts(p.X, out)
		return
	}
	*out = append(*out, e)
}

func extractFilters(t *T) (string, error) {
	dir := filepath.Join(t.Repo, "internal", "state")
	ents, err := os.ReadDir(dir)
	if err != nil {
		return "", err
	}
	filterSem := map[string][]string{}
	embeds := map[string]string{}   // update struct type -> embedded filter type
	ctorFilt := map[string]string{} // constructor function -> New...Filter call used for an interface-typed SnapFilter field
	hasApply := map[string]bool{}
	structEmb := map[string][]string{}
	for _, e := range ents {
		n := e.Name()
		if !strings.HasSuffix(n, ".go") || strings.HasSuffix(n, "_test.go") || strings.HasPrefix(n, "verif_") {
			continue
		}
		rel := filepath.Join("internal", "state", n)
		f, err := t.ParseFile(rel)
		if err != nil {
			return "", err
		}
		for _, d := range f.Decls {
			switch d := d.(type) {
			case *ast.GenDecl:
				for _, sp := range d.Specs {
					ts, ok := sp.(*ast.TypeSpec)
					if !ok {
						continue
					}
					st, ok := ts.Type.(*ast.StructType)
					if !ok {
						continue
					}
					for _, fld := range st.Fields.List {
						if len(fld.Names) == 0 { // embedded
							if id, ok := fld.Type.(*ast.Ident); ok {
								structEmb[ts.Name.Name] = append(structEmb[ts.Name.Name], id.Name)
							}
						}
					}
				}
			case *ast.FuncDecl:
				if d.Recv != nil && len(d.Recv.List) == 1 {
					recv := ""
					if se, ok := d.Recv.List[0].Type.(*ast.StarExpr); ok {
						if id, ok := se.X.(*ast.Ident); ok {
							recv = id.Name
						}
					}
					if d.Name.Name == "Apply" && recv != "" {
						hasApply[recv] = true
					}
					if d.Name.Name == "Filter" && recv != "" && d.Body != nil {
						// the atoms of `return a && b && c`; anything else (loops, early returns) is rendered as AOther(src)
						var atoms []string
						simple := len(d.Body.List) == 1
						if simple {
							if rs, ok := d.Body.List[0].(*ast.ReturnStmt); ok && len(rs.Results) == 1 {
								var cs []ast.Expr
								conjuncts(rs.Results[0], &cs)
								for _, c := range cs {
									src := strings.Join(strings.Fields(t.Src(rel, c)), " ")
									a := ""
									for _, fa := range filterAtoms {
										if fa.re.MatchString(src) {
											a = fa.atom
										}
									}
									if a == "" {
										a = "AOther " + coqString(src)
									}
									atoms = append(atoms, a)
								}
							} else {
								simple = false
							}
						}
						if !simple {
							src := strings.Join(strings.Fields(t.Src(rel, d.Body)), " ")
							atoms = []string{"AOther " + coqString(src)}
						}
						filterSem[recv] = atoms
					}
				} else if d.Recv == nil && d.Body != nil && strings.HasPrefix(d.Name.Name, "New") {
					// constructors of responderStateUpdate-like types: SnapFilter: NewXxxStateFilter(...)
					ast.Inspect(d.Body, func(nd ast.Node) bool {
						kv, ok := nd.(*ast.KeyValueExpr)
						if !ok {
							return true
						}
						if k, ok := kv.Key.(*ast.Ident); ok && k.Name == "SnapFilter" {
							if call, ok := kv.Value.(*ast.CallExpr); ok {
								if id, ok := call.Fun.(*ast.Ident); ok {
									ctorFilt[d.Name.Name] = id.Name
								}
							}
						}
						return true
					})
				}
			}
		}
	}
	for ty, embs := range structEmb {
		if !hasApply[ty] {
			continue
		}
		for _, e := range embs {
			if strings.HasSuffix(e, "StateFilter") || e == "SnapFilter" {
				embeds[ty] = e
			}
		}
	}
	if len(filterSem) == 0 || len(embeds) == 0 {
		return "", fmt.Errorf("no filters / updates found")
	}
	var sb strings.Builder
	sb.WriteString("From Coq Require Import List String.\nImport ListNotations.\nOpen Scope string_scope.\n\n")
	sb.WriteString("Inductive fatom := ASelected | AMboxEq | AHasOrPending | AHasMsg | AOther (src : string).\n\n")
	sb.WriteString("(* Filter method of each filter type as the conjunction of these atoms *)\nDefinition filter_sem : list (string * list fatom) := [\n")
	keys := make([]string, 0, len(filterSem))
	for k := range filterSem {
		keys = append(keys, k)
	}
	sort.Strings(keys)
	for i, k := range keys {
		sep := ";"
		if i == len(keys)-1 {
			sep = ""
		}
		sb.WriteString(fmt.Sprintf("  (%s, [%s])%s\n", coqString(k), strings.Join(filterSem[k], "; "), sep))
	}
	sb.WriteString("].\n\n(* state-update type -> the filter type it embeds *)\nDefinition update_filter : list (string * string) := [\n")
	keys = keys[:0]
	for k := range embeds {
		keys = append(keys, k)
	}
	sort.Strings(keys)
	for i, k := range keys {
		sep := ";"
		if i == len(keys)-1 {
			sep = ""
		}
		sb.WriteString(fmt.Sprintf("  (%s, %s)%s\n", coqString(k), coqString(embeds[k]), sep))
	}
	sb.WriteString("].\n\n(* constructor -> filter constructor it passes as SnapFilter *)\nDefinition ctor_filter : list (string * string) := [\n")
	keys = keys[:0]
	for k := range ctorFilt {
		keys = append(keys, k)
	}
	sort.Strings(keys)
	for i, k := range keys {
		sep := ";"
		if i == len(keys)-1 {
			sep = ""
		}
		sb.WriteString(fmt.Sprintf("  (%s, %s)%s\n", coqString(k), coqString(ctorFilt[k]), sep))
	}
	sb.WriteString("].\n")
	return sb.String(), nil
}
