(* C14 — Spec: RFC 3501 (section 6.3.8) mailbox-name matching.
     "*" matches zero or more characters at this position,
     "%" matches zero or more characters other than the hierarchy delimiter,
     every other character matches itself.
   Patterns and names are byte lists (after modified-UTF-7 decoding); d is the hierarchy delimiter.
   No proofs in this file. *)
From Coq Require Import List NArith Bool.
From Gluon Require Import Model.MboxNames.
Import ListNotations.
Open Scope N_scope.

Definition STAR : N := 42.
Definition PCT : N := 37.

Inductive wm (d : N) : name -> name -> Prop :=
| wm_nil : wm d [] []
| wm_lit : forall c p s, c <> STAR -> c <> PCT -> wm d p s -> wm d (c :: p) (c :: s)
| wm_star0 : forall p s, wm d p s -> wm d (STAR :: p) s
| wm_star1 : forall p c s, wm d (STAR :: p) s -> wm d (STAR :: p) (c :: s)
| wm_pct0 : forall p s, wm d p s -> wm d (PCT :: p) s
| wm_pct1 : forall p c s, c <> d -> wm d (PCT :: p) s -> wm d (PCT :: p) (c :: s).

(* the same as a function: recursion on the pattern, inner recursion on the name *)
Fixpoint wm_star (k : name -> bool) (s : name) : bool :=
  k s || match s with [] => false | _ :: t => wm_star k t end.
Fixpoint wm_pct (d : N) (k : name -> bool) (s : name) : bool :=
  k s || match s with [] => false | c :: t => negb (c =? d) && wm_pct d k t end.
Fixpoint wmatchb (d : N) (p : name) : name -> bool :=
  match p with
  | [] => fun s => match s with [] => true | _ => false end
  | c :: p' =>
      if c =? STAR then wm_star (wmatchb d p')
      else if c =? PCT then wm_pct d (wmatchb d p')
      else fun s => match s with x :: t => (x =? c) && wmatchb d p' t | [] => false end
  end.

(* strings.HasSuffix(pattern, "%") *)
Fixpoint ends_pct (p : name) : bool :=
  match p with
  | [] => false
  | [c] => c =? PCT
  | _ :: t => ends_pct t
  end.

(* what LIST/LSUB match a name against: reference ++ pattern, INBOX at the first level in canonical spelling *)
Definition list_pattern (d : N) (ref pat : name) : name := canon_first d (ref ++ pat).

(* the root of a reference (answer to an empty pattern): everything up to and including the first delimiter *)
Fixpoint spec_root (d : N) (ref : name) : name :=
  match ref with
  | [] => []
  | c :: t => if c =? d then [d] else
              match spec_root d t with [] => [] | r => c :: r end
  end.
