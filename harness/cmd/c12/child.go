package main

// Child process of the C12 harness: runs the public packages of gluon on the inputs the parent sends, so that a crash
// of the implementation (panic, fatal stack overflow) only kills this process and is observed by the parent.
//
// protocol: one JSON object per line on stdin (request) / stdout (response).

import (
	"bufio"
	"encoding/json"
	"fmt"
	"io"
	"os"
	"strings"
	"time"

	"github.com/ProtonMail/gluon/imap"
	"github.com/ProtonMail/gluon/rfc5322"
	"github.com/ProtonMail/gluon/rfc822"
	"github.com/sirupsen/logrus"

	"verifharness/mimegen"
)

type request struct {
	Op    string  `json:"op"`              // "msg" | "addr" | "date"
	Data  []byte  `json:"data"`            // base64 by encoding/json
	Full  bool    `json:"full"`            // return texts, section tree, ct table, header keys
	Paths [][]int `json:"paths,omitempty"` // Section.Part(path...) to resolve
}

type secNode struct {
	H, B, E  int
	Children []*secNode `json:"c,omitempty"`
}

type partPos struct {
	OK      bool
	H, B, E int
}

type ctEntry struct {
	A, B     int // the header is lit[A:B]
	Kind     int // 0 other, 1 message/rfc822, 2 multipart
	Boundary []byte
}

type response struct {
	Err       string    `json:"err,omitempty"` // NewParsedMessage error
	Wf        [3]bool   `json:"wf"`            // BODY, BODYSTRUCTURE, ENVELOPE accepted by the Go port of wf_plist
	Lens      [3]int    `json:"lens"`
	Body      []byte    `json:"body,omitempty"`
	Structure []byte    `json:"structure,omitempty"`
	Envelope  []byte    `json:"envelope,omitempty"`
	Nested    string    `json:"nested"` // "" = every part inside its parent and inside the message
	Parts     int       `json:"parts"`
	Tree      *secNode  `json:"tree,omitempty"`
	CT        []ctEntry `json:"ct,omitempty"`
	HdrErr    bool      `json:"hdrerr"`
	HdrKeys   [][]byte  `json:"hdrkeys,omitempty"`
	PartErrs  int       `json:"parterrs"`
	PartPos   []partPos `json:"partpos,omitempty"`
	AddrOK    bool      `json:"addrok"`
	AddrN     int       `json:"addrn"`
}

// offset of sub inside base (both slices of the same array; base has cap == len)
func offsetIn(base, sub []byte) int { return cap(base) - cap(sub) }

func classify(sec *rfc822.Section) (int, []byte) {
	mt, params, err := sec.ContentType()
	if err != nil {
		return 0, nil
	}
	if mt == rfc822.MessageRFC822 {
		return 1, nil
	}
	if mt.IsMultiPart() {
		return 2, []byte(params["boundary"])
	}
	return 0, nil
}

func handleMsg(req request) response {
	var resp response
	lit := make([]byte, len(req.Data))
	copy(lit, req.Data)
	pm, err := imap.NewParsedMessage(lit)
	if err != nil {
		resp.Err = err.Error()
	} else {
		texts := [3]string{pm.Body, pm.Structure, pm.Envelope}
		for i, t := range texts {
			resp.Wf[i] = mimegen.WfPList([]byte(t))
			resp.Lens[i] = len(t)
		}
		if req.Full {
			resp.Body, resp.Structure, resp.Envelope = []byte(pm.Body), []byte(pm.Structure), []byte(pm.Envelope)
		}
	}
	// section tree, Part lookups, nesting
	root := rfc822.Parse(lit)
	var ct []ctEntry
	seenCT := map[string]bool{}
	addCT := func(sec *rfc822.Section) int {
		k, b := classify(sec)
		h := sec.Header()
		if !seenCT[string(h)] {
			seenCT[string(h)] = true
			if k != 0 {
				a := offsetIn(lit, h)
				ct = append(ct, ctEntry{A: a, B: a + len(h), Kind: k, Boundary: b})
			}
		}
		return k
	}
	var walk func(sec *rfc822.Section, lo, hi int, depth int) *secNode
	walk = func(sec *rfc822.Section, lo, hi int, depth int) *secNode {
		resp.Parts++
		h := offsetIn(lit, sec.Header())
		b := offsetIn(lit, sec.Body())
		e := b + len(sec.Body())
		if !(lo <= h && h <= b && b <= e && e <= hi) || h+len(sec.Header()) != b || len(sec.Literal()) != e-h {
			if resp.Nested == "" {
				resp.Nested = fmt.Sprintf("section [%d,%d,%d] not inside [%d,%d]", h, b, e, lo, hi)
			}
		}
		n := &secNode{H: h, B: b, E: e}
		k := addCT(sec)
		// the embedded message of a message/rfc822 part (what load() parses)
		emb := sec
		for k == 1 {
			emb = rfc822.Parse(emb.Body())
			k = addCT(emb)
		}
		children, err := sec.Children()
		if err != nil {
			resp.PartErrs++
			return n
		}
		for _, c := range children {
			n.Children = append(n.Children, walk(c, b, e, depth+1))
		}
		return n
	}
	tree := walk(root, 0, len(lit), 0)
	// Part(): every child index and one beyond
	var parts func(sec *rfc822.Section, n *secNode, path []int)
	parts = func(sec *rfc822.Section, n *secNode, path []int) {
		for i := 0; i <= len(n.Children)+1; i++ {
			p, err := root.Part(append(append([]int{}, path...), i)...)
			if err != nil {
				continue
			}
			h := offsetIn(lit, p.Header())
			e := offsetIn(lit, p.Body()) + len(p.Body())
			if h < 0 || e > len(lit) || h > e {
				if resp.Nested == "" {
					resp.Nested = fmt.Sprintf("Part(%v) outside the message", append(path, i))
				}
			}
		}
		if len(path) < 3 {
			children, _ := sec.Children()
			for i, c := range children {
				if i < len(n.Children) {
					parts(c, n.Children[i], append(append([]int{}, path...), i+1))
				}
			}
		}
	}
	if resp.Parts <= 200 && len(lit) <= 1<<16 {
		parts(root, tree, nil)
	}
	for _, path := range req.Paths {
		p, err := root.Part(path...)
		if err != nil || p == nil {
			resp.PartPos = append(resp.PartPos, partPos{})
			continue
		}
		h := offsetIn(lit, p.Header())
		b := offsetIn(lit, p.Body())
		resp.PartPos = append(resp.PartPos, partPos{OK: true, H: h, B: b, E: b + len(p.Body())})
	}
	// header of the message
	hdr, _ := rfc822.Split(lit)
	h, herr := rfc822.NewHeader(hdr)
	if herr != nil {
		resp.HdrErr = true
	} else {
		h.Entries(func(key, val string) { resp.HdrKeys = append(resp.HdrKeys, []byte(key)) })
		if resp.HdrKeys == nil {
			resp.HdrKeys = [][]byte{}
		}
		_ = h.Fields([]string{"from", "subject"})
		_ = h.FieldsNot([]string{"from"})
		if v, ok := h.GetChecked("From"); ok {
			as, err := rfc5322.ParseAddressList(v)
			resp.AddrOK = err == nil
			resp.AddrN = len(as)
		}
	}
	if req.Full {
		resp.Tree = tree
		resp.CT = ct
	}
	return resp
}

func childMain() {
	logrus.SetOutput(io.Discard)
	logrus.SetLevel(logrus.PanicLevel)
	in := bufio.NewReaderSize(os.Stdin, 1<<20)
	out := bufio.NewWriter(os.Stdout)
	for {
		line, err := in.ReadBytes('\n')
		if len(line) > 0 {
			var req request
			if jerr := json.Unmarshal(line, &req); jerr != nil {
				fmt.Fprintln(os.Stderr, "child: bad request:", jerr)
				os.Exit(4)
			}
			// self-watchdog: if this request hangs (or the parent is gone) the process ends itself
			done := make(chan struct{})
			go func(n int) {
				t := time.NewTimer(deadlineFor(n, 240*time.Second) + 15*time.Second)
				tick := time.NewTicker(200 * time.Millisecond)
				defer t.Stop()
				defer tick.Stop()
				for {
					select {
					case <-done:
						return
					case <-t.C:
						fmt.Fprintln(os.Stderr, "child: request exceeded its deadline, exiting")
						os.Exit(9)
					case <-tick.C:
						if childRSS(os.Getpid()) > rssLimit+(1<<30) {
							fmt.Fprintln(os.Stderr, "child: resident memory above the bound, exiting")
							os.Exit(9)
						}
					}
				}
			}(len(req.Data))
			var resp response
			switch req.Op {
			case "msg":
				resp = handleMsg(req)
			case "addr":
				as, err := rfc5322.ParseAddressList(string(req.Data))
				resp.AddrOK, resp.AddrN = err == nil, len(as)
			case "date":
				_, err := rfc5322.ParseDateTime(strings.TrimSpace(string(req.Data)))
				resp.AddrOK = err == nil
			}
			close(done)
			b, _ := json.Marshal(resp)
			out.Write(b)
			out.WriteByte('\n')
			out.Flush()
		}
		if err != nil {
			return
		}
	}
}
