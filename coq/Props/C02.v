(* C02 — At quiescence every session's view converges to the authoritative mailbox.
   Full statement: for every history h and session s selected on mb,
       view s (run (h ++ drain s ++ [Cmd s CNoop])) = fresh_view mb (run h)     (modulo \Recent)
   The faithful model REFUTES it (C02_world_refuted: an own STORE overtakes a queued connector flag change; replayed on
   the server; known finding). Proved here: the pieces of the pipeline the convergence rests on — nothing stays pending
   after a permitting flush; updates about a message whose EXISTS is still pending are no longer dropped by the
   filters (the repaired defect); a message that arrives and is removed before the session looked nets to zero.
   The per-history agreement of model and server (fresh views at quiescence points included) is checked on every run. *)
From Coq Require Import List NArith Bool.
From Gluon Require Import Gen.FactsFilters Model.FilterPolicy Model.Responders Model.Session Proofs.MirrorProofs Proofs.PopProofs
  Proofs.ConvergeProofs Proofs.MembershipProofs Proofs.ViewProofs Proofs.StoreViewProofs Proofs.CommuteProofs Proofs.InterleaveProofs
  Proofs.ObserverProofs Proofs.WorldProofs Proofs.SessionWitness Proofs.ReadOnlyProofs Proofs.LabelProofs Gen.FactsStartup.
Import ListNotations.
Open Scope N_scope.

Theorem C02_world_refuted :
  let '(w, _) := run (init_world 1 1) c02_history in
  exists sn, option_map (fun s => s_snap (ss_st s)) (get_sess w 0) = Some sn /\
             view_flags sn = [(1, [fl_seen])] /\ view_flags (fresh_view w 0) = [(1, [])] /\
             ss_queue (nth 0 (w_sess w) (mkSess None (mkS [] []) [] false)) = [].
Proof. exact c02_world_refuted. Qed.
Print Assumptions C02_world_refuted.

(* T1: the filter each update kind of the model applies is the filter the source gives it — the Filter method bodies
   and the filter embedded in / passed to every update type are re-extracted from internal/state on every run *)
Theorem C02_model_filters_are_source_filters : forall u s, src_filter u s = Some (upd_filter u s).
Proof. exact model_filters_are_source_filters. Qed.
Print Assumptions C02_model_filters_are_source_filters.

Theorem C02_nothing_pending_after_permitting_flush : forall st st' out,
  flush true st = FOk st' out -> s_res st' = [].
Proof. exact flush_true_nothing_pending. Qed.
Print Assumptions C02_nothing_pending_after_permitting_flush.

Theorem C02_expunge_not_dropped_while_exists_pending : forall mb m u f tg og s,
  ss_sel s = Some mb -> In (RExists m u f tg og) (s_res (ss_st s)) -> upd_filter (UExpunge mb m) s = true.
Proof. exact expunge_not_dropped_while_exists_pending. Qed.
Print Assumptions C02_expunge_not_dropped_while_exists_pending.

Theorem C02_flag_update_not_dropped_while_exists_pending : forall mb m u f tg og s flag add,
  ss_sel s = Some mb -> In (RExists m u f tg og) (s_res (ss_st s)) -> upd_filter (URemoteFlag m flag add) s = true.
Proof. exact remote_flag_not_dropped_while_exists_pending. Qed.
Print Assumptions C02_flag_update_not_dropped_while_exists_pending.

Theorem C02_exists_then_expunge_nets_zero : forall m u f tg s s1 o1,
  snap_has m s = false -> handle (RExists m u f tg false) s = Some (s1, o1) ->
  exists k, handle (RExpunge m) s1 = Some (s, [PExpunge k]).
Proof. exact exists_then_expunge_nets_zero. Qed.
Print Assumptions C02_exists_then_expunge_nets_zero.

(* Convergence of the MEMBERSHIP (which messages, under which UIDs, in which order) — partial statement, proved:
   an observer with snapshot snap0 and nothing pending receives any list of foreign updates in order (each one filtered
   against snapshot + pending responders as the repaired code does) and then performs a permitting flush: the flush
   succeeds, leaves nothing pending, and the snapshot holds exactly what the updates describe (mem_apply = the plain
   meaning of an EXISTS / EXPUNGE update for that mailbox). No update is lost by the filters. Flags are not covered by
   this theorem. *)
Theorem C02_membership_converges_partial : forall o mb snap0 us, Forall (foreign_upd o) us ->
  exists st' out,
    flush_raw true (mkS snap0 (deliver_all o mb snap0 us [])) = Some (st', out) /\
    s_res st' = [] /\
    ids_of (s_snap st') = fold_left (fun l u => mem_apply mb u l) us (ids_of snap0).
Proof. exact observer_membership. Qed.
Print Assumptions C02_membership_converges_partial.

(* Convergence of the WHOLE VIEW (messages, UIDs, order and flags) — partial statement, proved: as above, and the
   snapshot after the permitting flush is exactly what the plain meaning of the updates (view_apply: insert by UID
   without \Recent / remove / set, add or remove flags of the messages that are there, \Deleted untouched by a change
   that stems from another mailbox) makes of snap0. No update is lost or misapplied by filters, queue or responders.
   Missing for the full statement: own commands interleaved with the deliveries (refuted in general, see above) and the
   database side for every command (proved for rows and for STORE, below; compared on every run for the rest). *)
Theorem C02_view_converges_partial : forall o mb snap0 us, Forall (foreign_upd o) us ->
  exists st' out,
    flush_raw true (mkS snap0 (deliver_all o mb snap0 us [])) = Some (st', out) /\
    s_res st' = [] /\
    s_snap st' = fold_left (fun v u => view_apply mb u v) us snap0.
Proof. exact observer_view. Qed.
Print Assumptions C02_view_converges_partial.

(* deliver_all is what the model's delivery step does (one update, queue head first) *)
Theorem C02_deliver_step : forall o mb snap0 u pre q,
  apply_update u o (obs mb snap0 pre q) false = Some (obs mb snap0 (pre ++ delivered u o (obs mb snap0 pre q)) q, []).
Proof. exact apply_update_obs. Qed.
Print Assumptions C02_deliver_step.

(* the database primitives change the rows of a mailbox exactly as the update they emit says *)
Theorem C02_remove_rows_matches_update : forall w mb m,
  idl_nodup (rows_ids (mbox_of w mb)) -> (N.to_nat mb < length (w_mbox w))%nat ->
  let '(w1, ups) := remove_rows w mb [m] in
  ups = [UExpunge mb m] /\
  rows_ids (mbox_of w1 mb) = mem_apply mb (UExpunge mb m) (rows_ids (mbox_of w mb)).
Proof. exact remove_rows_matches_update. Qed.
Print Assumptions C02_remove_rows_matches_update.

Theorem C02_add_row_matches_update : forall w mb m,
  (N.to_nat mb < length (w_mbox w))%nat ->
  idl_all_lt (next_of w mb) (rows_ids (mbox_of w mb)) -> idl_has m (rows_ids (mbox_of w mb)) = false ->
  let '(w1, items) := add_rows w mb [m] in
  items = [(m, next_of w mb, flags_of (w_flags w) m)] /\
  rows_ids (mbox_of w1 mb) = mem_apply mb (UExists mb items None) (rows_ids (mbox_of w mb)).
Proof. exact add_row_matches_update. Qed.
Print Assumptions C02_add_row_matches_update.

(* the database side of STORE: what a newly opened session sees after the flag action (store_db) is what the plain
   meaning of the emitted state update (its parts computed by store_parts: one part per flag for +FLAGS / -FLAGS, over
   the messages that lack / have the flag) makes of what it saw before: same messages, UIDs and order; for every message
   and every flag other than \Recent the same membership. Hypotheses (decidable; hold in the worlds the model's runs
   produce, see the Example below): every message of the mailbox has its shared flags recorded, and \Deleted, which is
   kept per mailbox, is never among the shared flags. *)
Theorem C02_store_matches_update : forall w sel ms op f og si,
  flags_total_b w sel = true -> no_shared_deleted_b w = true ->
  same_view (fresh_view (store_db w sel ms op f) sel)
            (view_apply sel (UFlags sel (store_parts w ms op f) og si) (fresh_view w sel)).
Proof. exact store_matches_update_b. Qed.
Print Assumptions C02_store_matches_update.

(* end to end for a STORE by another session: an observer whose snapshot shows the mailbox as the database holds it
   (up to \Recent) and that has nothing pending receives the flag update of the STORE and flushes (NOOP): its snapshot
   shows the mailbox as the database holds it after the STORE — for every message list, flag list and +/-/set, every
   snapshot and database state that meet the stated (decidable) conditions. *)
Theorem C02_foreign_store_converges : forall w sel ms op f og si o snap0,
  flags_total_b w sel = true -> no_shared_deleted_b w = true ->
  same_view snap0 (fresh_view w sel) ->
  exists st' out,
    flush_raw true (mkS snap0 (deliver_all o sel snap0 [UFlags sel (store_parts w ms op f) og si] [])) = Some (st', out) /\
    s_res st' = [] /\
    same_view (s_snap st') (fresh_view (store_db w sel ms op f) sel).
Proof. exact store_reaches_observer. Qed.
Print Assumptions C02_foreign_store_converges.

(* the database side of EXPUNGE / MOVE out / connector removal and of APPEND (the model's do_cmd uses exactly these
   functions): what a newly opened session sees afterwards is what the emitted updates make of what it saw before *)
Theorem C02_remove_matches_updates : forall w mb ms,
  (N.to_nat mb < length (w_mbox w))%nat -> idl_nodup (rows_ids (mbox_of w mb)) ->
  let '(w1, ups) := remove_rows w mb ms in
  ups = map (UExpunge mb) ms /\
  fresh_view w1 mb = fold_left (fun v u => view_apply mb u v) ups (fresh_view w mb).
Proof. exact remove_rows_matches_updates. Qed.
Print Assumptions C02_remove_matches_updates.

Theorem C02_append_matches_update : forall w mb f og,
  (N.to_nat mb < length (w_mbox w))%nat ->
  has_entry (w_nextid w) (w_flags w) = false -> row_has (w_nextid w) (mbox_of w mb) = false ->
  idl_all_lt (next_of w mb) (rows_ids (mbox_of w mb)) ->
  same_view (fresh_view (append_db w mb f) mb)
            (view_apply mb (UExists mb [(w_nextid w, next_of w mb, f)] og) (fresh_view w mb)).
Proof. exact append_matches_update. Qed.
Print Assumptions C02_append_matches_update.

Example C02_store_hypotheses_hold :
  let h := [Cmd 0 (CSelect 0); Cmd 1 (CSelect 0); Cmd 1 (CAppend 0 [fl_deleted; 5]); Cmd 1 (CAppend 0 [fl_seen]);
            Conn (XNew 0 [7]); Cmd 1 (CStore [1]%nat FAdd [fl_deleted; 9] false); Cmd 1 CExpunge] in
  let '(w, _) := run (init_world 2 1) h in
  flags_total_b w 0 = true /\ no_shared_deleted_b w = true /\ length (fresh_view w 0) = 2%nat.
Proof. vm_compute. repeat split. Qed.

(* "for every placement of the observing session's own flushes (before, between or after the other parties' steps)":
   a flush on behalf of FETCH / STORE / SEARCH handles the queued responders in another order than they were queued (it
   holds back removals, re-additions and the flag changes of re-added messages). V rs s is the snapshot that handling
   the responders rs one by one in queue order makes of s. For every well-formed stream of foreign responders
   (wf: the snapshot is sorted by UID with unique message ids, the UIDs announced by the stream are pairwise distinct
   and not in the snapshot; alt: per message, a re-addition is followed by a removal before the next re-addition)
   and ANY number of rounds "more responders arrive, then a flush that holds removals back or a permitting one", ending
   with a permitting flush: every flush succeeds, nothing stays queued, and the snapshot is V (whole stream) s.
   Proof: Proofs/CommuteProofs.v (responders about different messages commute on sorted snapshots) and
   Proofs/InterleaveProofs.v (what is held back never conflicts with what is handled before it). *)
Theorem C02_any_flush_placement_in_order : forall sc s res,
  wf s (res ++ script_queue sc) -> (forall m, alt m (res ++ script_queue sc)) ->
  (sc = [] -> res = []) ->
  (forall x, last (map snd sc) true = x -> x = true) ->
  exists st' out, run_script sc (mkS s res) = Some (st', out) /\ s_res st' = [] /\
                  s_snap st' = V (res ++ script_queue sc) s.
Proof. exact script_in_order. Qed.
Print Assumptions C02_any_flush_placement_in_order.

Theorem C02_restricted_then_permitting_flush_in_order : forall s rs, wf s rs -> (forall m, alt m rs) ->
  exists st1 o1 st2 o2,
    flush_raw false (mkS s rs) = Some (st1, o1) /\ flush_raw true st1 = Some (st2, o2) /\
    s_res st2 = [] /\ s_snap st2 = V rs s.
Proof. exact two_flushes_in_order. Qed.
Print Assumptions C02_restricted_then_permitting_flush_in_order.

(* the hypotheses hold for the queue of the repaired defect (message 1 removed, put back as UID 3, flagged) plus a new message *)
Example C02_flush_placement_hypotheses_hold :
  let s := [mkSmsg 1 1 []; mkSmsg 2 2 []] in
  let rs := [RExpunge 1; RExists 1 3 [] false false; RFetch 1 [5] FAdd false false false; RExists 7 4 [] false false] in
  wf s rs /\ (forall m, alt m rs) /\ V rs s = [mkSmsg 2 2 []; mkSmsg 1 3 [5]; mkSmsg 7 4 []].
Proof. exact wf_example. Qed.

(* The observing session, end to end: foreign updates are delivered one by one (each filtered against the snapshot and
   the pending responders it meets, as State.QueueUpdates/ApplyUpdate do) and the session's own flushes — on behalf of
   FETCH/STORE/SEARCH or permitting — fall anywhere in between; after a final permitting flush (NOOP) nothing is pending
   and the snapshot is exactly what the plain meaning of the updates (view_apply) makes of the initial one: the same
   messages under the same UIDs in the same order with the same flags. Hypotheses: the updates are foreign (not the
   session's own commands: refuted in general, C02_world_refuted) and the responder stream they produce is well-formed
   for the snapshot (wf / alt as above; Example C02_observer_example). *)
Theorem C02_observer_converges : forall o mb ops snap0,
  Forall (foreign_upd o) (updates_of ops) ->
  wf snap0 (ofuture o mb (ops ++ [OFlush true]) snap0 []) ->
  (forall m, alt m (ofuture o mb (ops ++ [OFlush true]) snap0 [])) ->
  orun o mb (ops ++ [OFlush true]) snap0 []
  = Some (fold_left (fun v u => view_apply mb u v) (updates_of ops) snap0, []).
Proof. exact observer_converges. Qed.
Print Assumptions C02_observer_converges.

Example C02_observer_example :
  Forall (foreign_upd 0%nat) (updates_of ex_ops) /\
  wf ex_snap (ofuture 0%nat 0 (ex_ops ++ [OFlush true]) ex_snap []) /\
  (forall m, alt m (ofuture 0%nat 0 (ex_ops ++ [OFlush true]) ex_snap [])) /\
  orun 0%nat 0 (ex_ops ++ [OFlush true]) ex_snap [] = Some ([mkSmsg 2 2 []; mkSmsg 1 3 [5]; mkSmsg 9 4 []], []).
Proof. exact observer_example. Qed.

(* Database and observer together (one mailbox, the three basic mutators): other parties run any sequence ds of STORE,
   removals (EXPUNGE / MOVE out / connector removal) and APPENDs on the mailbox the observer has selected (db_run: the
   functions the model's commands use); the emitted updates reach the observer one by one, its own restricted and
   permitting flushes fall anywhere in between (oops). After a final NOOP nothing is pending and its snapshot shows what
   a newly opened session sees: same messages, UIDs and order, same flags but \Recent (same_view). Hypotheses: each
   database step meets a well-formed database (steps_ok, decidable), the observer starts from the database state, the
   updates are not its own, the responder stream is well-formed (wf / alt). Example C02_world_example instantiates all
   of them on a world produced by the model's run. Not covered: COPY / MOVE-in, flag changes stemming from another
   mailbox, connector flag updates (compared per run only), and the session's own commands (refuted in general). *)
Theorem C02_silent_observer_matches_database : forall o mb w ds oops snap0,
  steps_ok mb w ds ->
  updates_of oops = snd (db_run mb w ds) ->
  Forall (foreign_upd o) (updates_of oops) ->
  uniq snap0 -> same_view snap0 (fresh_view w mb) ->
  wf snap0 (ofuture o mb (oops ++ [OFlush true]) snap0 []) ->
  (forall m, alt m (ofuture o mb (oops ++ [OFlush true]) snap0 [])) ->
  exists s', orun o mb (oops ++ [OFlush true]) snap0 [] = Some (s', []) /\
             same_view s' (fresh_view (fst (db_run mb w ds)) mb).
Proof. exact silent_observer_matches_database. Qed.
Print Assumptions C02_silent_observer_matches_database.

Example C02_world_example :
  steps_ok 0 ex_w0 ex_ds /\
  updates_of ex_oops = snd (db_run 0 ex_w0 ex_ds) /\
  Forall (foreign_upd 0%nat) (updates_of ex_oops) /\
  uniq (fresh_view ex_w0 0) /\
  wf (fresh_view ex_w0 0) (ofuture 0%nat 0 (ex_oops ++ [OFlush true]) (fresh_view ex_w0 0) []) /\
  (forall m, alt m (ofuture 0%nat 0 (ex_oops ++ [OFlush true]) (fresh_view ex_w0 0) [])) /\
  orun 0%nat 0 (ex_oops ++ [OFlush true]) (fresh_view ex_w0 0) []
    = Some ([mkSmsg 1 1 [1; 4]; mkSmsg 3 3 [1; 4]], []) /\
  fresh_view (fst (db_run 0 ex_w0 ex_ds)) 0 = [mkSmsg 1 1 [4; 1]; mkSmsg 3 3 [4; 1]].
Proof. exact world_example. Qed.

(* a repaired defect that the attempt to prove convergence for interleaved flushes exposed (replayed on the server:
   corpus scenario readd-while-held-then-flags; fix: commit dec5b54): with the pop policy before the repair a
   flag change of a message that was removed and put back was applied to the OLD instance by a FETCH/STORE/SEARCH and
   lost for the new one; with the repaired policy the two flushes give what the updates say in order *)
Theorem C02_old_policy_loses_flag_change :
  option_map view_flags (old_two_flushes readd_queue readd_snap) = Some [(2, []); (3, [])] /\
  option_map view_flags (new_two_flushes readd_queue readd_snap) = Some [(2, []); (3, [5])] /\
  option_map (fun x => view_flags (fst x)) (run_responders readd_queue readd_snap) = Some [(2, []); (3, [5])].
Proof. exact old_policy_loses_flag_change. Qed.
Print Assumptions C02_old_policy_loses_flag_change.

(* read-only selection (EXAMINE): a body fetch changes nothing shared - the database, what a newly opened session sees,
   every other session - so it cannot drive the examining session's view and the authoritative content apart ... *)
Theorem C02_readonly_fetch_changes_nothing_shared w i ps b w' out oc :
  do_cmd w i (CFetchBodyRO ps b) = (w', out, oc) ->
  same_db w w' /\ (forall mb, fresh_view w' mb = fresh_view w mb) /\
  (forall j, j <> i -> get_sess w' j = get_sess w j).
Proof. exact (readonly_fetch_step w i ps b w' out oc). Qed.
Print Assumptions C02_readonly_fetch_changes_nothing_shared.

(* ... and with nothing pending it leaves the whole world, the session's own snapshot included, as it is: no \Seen
   appears in the session's view that the database does not have *)
Theorem C02_readonly_fetch_keeps_own_view w i ps s sel xs :
  get_sess w i = Some s -> ss_idle s = false -> ss_sel s = Some sel -> s_res (ss_st s) = [] ->
  msgs_at (s_snap (ss_st s)) ps = Some xs ->
  do_cmd w i (CFetchBodyRO ps false) = (w, [], OOk).
Proof. exact (readonly_fetch_keeps_own_view w i ps s sel xs). Qed.
Print Assumptions C02_readonly_fetch_keeps_own_view.

(* a change attempted in a read-only selection is refused after the trailing flush only: nothing shared changes *)
Theorem C02_refused_command_changes_nothing_shared w i w' out oc :
  do_cmd w i CSearchBad = (w', out, oc) ->
  same_db w w' /\ (forall mb, fresh_view w' mb = fresh_view w mb) /\
  (forall j, j <> i -> get_sess w' j = get_sess w j).
Proof. exact (refused_command_changes_nothing_shared w i w' out oc). Qed.
Print Assumptions C02_refused_command_changes_nothing_shared.

(* MOVE answered by a connector with label semantics ("do not remove the old messages"): the source mailbox keeps every
   row and no shared flag changes - what a newly opened session sees of the source is what it saw before *)
Theorem C02_label_move_keeps_source : forall w i s sel ps dst w' out,
  get_sess w i = Some s -> ss_idle s = false -> ss_sel s = Some sel -> sel <> dst ->
  do_cmd w i (CMoveLabel ps dst) = (w', out, OOk) ->
  mbox_of w' sel = mbox_of w sel /\ w_flags w' = w_flags w.
Proof. exact label_move_keeps_source. Qed.
Print Assumptions C02_label_move_keeps_source.

(* statements over more than db.ChunkLimit ids: every chunk loop of the database layer binds the CHUNK's own arguments
   (fact read from write_ops.go / read_ops.go on every run; the list-level meaning is C07_chunked_statements_equal_whole):
   a STORE or COPY of 1:* reaches the database for every message it names, as the state update says *)
Theorem C02_chunked_statements_bind_their_chunk : chunk_loops_bind_their_chunk = true.
Proof. exact eq_refl. Qed.
Print Assumptions C02_chunked_statements_bind_their_chunk.

Example C02_readonly_example :
  do_cmd ro_w0 0 (CFetchBodyRO [1%nat] false) = (ro_w0, [], OOk) /\
  fst (fst (do_cmd ro_w0 0 (CFetchBody [1%nat]))) <> ro_w0.
Proof. exact readonly_example. Qed.

(* the scenario of the repaired defect, on the world model: session 1 appends a message and expunges it before
   session 0 flushed its EXISTS; after draining and NOOP session 0's view equals the fresh view (empty) *)
Example C02_pending_exists_example :
  let h := [Cmd 0 (CSelect 0); Cmd 1 (CSelect 0); Cmd 1 (CAppend 0 [fl_deleted]); Cmd 1 CExpunge;
            Deliver 0; Deliver 0; Cmd 0 CNoop] in
  let '(w, tr) := run (init_world 2 1) h in
  option_map (fun s => s_snap (ss_st s)) (get_sess w 0) = Some [] /\ fresh_view w 0 = [] /\
  nth 6 (map fst tr) [] = [PExists 1; PExpunge 1].
Proof. vm_compute. repeat split. Qed.
