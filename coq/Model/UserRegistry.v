(* C18 — the registry of users of a server (internal/backend/backend.go Backend.users) under RemoveUser.
   Impl model of Backend.RemoveUser(userID, removeFiles): user.close (connector, store, database are shut down);
   delete(b.users, userID); if removeFiles: storeBuilder.Delete, database.Delete — either of which can fail and end the
   call with an error.  getUserID asks the connectors of the REGISTERED users only (Model/AuthGate.v: [creds]).
   [unreg_first] = the user is unregistered before the files are touched (read from the source by the translator).
   No proofs in this file. *)
From Coq Require Import List NArith Bool.
Import ListNotations.
Open Scope N_scope.

Record registry := mkR {
  r_users : list N;      (* registered: their connectors are asked at LOGIN, sessions can be attached to them *)
  r_closed : list N      (* shut down *)
}.

Definition unregister (u : N) (l : list N) : list N := filter (fun x => negb (x =? u)) l.

(* result: registry afterwards, true = RemoveUser returned nil *)
Definition remove_user (unreg_first files_ok : bool) (u : N) (r : registry) : registry * bool :=
  if existsb (N.eqb u) (r_users r) then
    let closed := u :: r_closed r in
    if unreg_first then (mkR (unregister u (r_users r)) closed, files_ok)
    else if files_ok then (mkR (unregister u (r_users r)) closed, true)
         else (mkR (r_users r) closed, false)
  else (r, false).       (* ErrNoSuchUser *)

(* nobody who has been shut down is still registered *)
Definition consistent (r : registry) : Prop := forall u, In u (r_users r) -> ~ In u (r_closed r).
