(* C14 — the flat namespace: gluon.WithDelimiter("") (LIST answers NIL as delimiter).
   Code (after notes/C14-fix-7, C14-fix-8): with the empty delimiter
     listSuperiors returns nil, the name rules of CREATE/RENAME about delimiters are skipped, TrimRight/TrimSuffix of ""
     change nothing, decodeMailboxName canonicalises nothing beyond command.ParseMailbox (a whole name that is INBOX),
     canon() treats the whole of reference+pattern as the first level, match() translates "%" like "*" (".*"),
     matchRoot answers "", a connector name is the concatenation of its levels (assumed: one level).
   Model: the one-byte model at a delimiter byte that occurs in no name — NODELIM = 0 (names, references and patterns
   contain no NUL; the harness writes the empty delimiter as 0).  Proofs/MboxFlatProofs.v shows that at such a byte
   the model has exactly the flat behaviour listed above; every theorem stated for all delimiter bytes holds for it.
   Spec: wmf — "*" and "%" both match any characters.  No proofs in this file. *)
From Coq Require Import List NArith Bool.
From Gluon Require Import Model.MboxNames Model.WildcardSpec Model.MboxNamespace Model.MboxMatch.
Import ListNotations.
Open Scope N_scope.

Definition NODELIM : N := 0.

(* wildcard matching without a hierarchy *)
Definition is_wild (c : N) : bool := (c =? STAR) || (c =? PCT).
Inductive wmf : name -> name -> Prop :=
| wmf_nil : wmf [] []
| wmf_lit : forall c p s, is_wild c = false -> wmf p s -> wmf (c :: p) (c :: s)
| wmf_wild0 : forall c p s, is_wild c = true -> wmf p s -> wmf (c :: p) s
| wmf_wild1 : forall c p x s, is_wild c = true -> wmf (c :: p) s -> wmf (c :: p) (x :: s).

(* the expression of the code for the empty delimiter: "%" becomes ".*" as well *)
Definition flat_tok (t : rtok) : rtok := match t with RNonDelim => RAny | t => t end.
Definition compile_flat (p : name) : list rtok := map flat_tok (compile p).

(* what LIST/LSUB match against in the flat namespace: reference+pattern, INBOX in any case as a whole *)
Definition flat_pattern (ref pat : name) : name := parse_mailbox (ref ++ pat).

Definition flat_step (st : nstate) (op : nop) : nstate * nres := impl_step NODELIM st op.
Definition flat_list (st : nstate) (lsub : bool) (ref pat : name) : list lmatch := impl_list NODELIM st lsub ref pat.
