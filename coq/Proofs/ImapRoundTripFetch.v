(* C10 — round trip of FETCH: attributes, body sections, partials. *)
From Coq Require Import List NArith Bool Lia String Arith.
From Gluon Require Import Gen.FactsTokens Model.ImapTokens Model.ImapGrammar Model.ImapPrinter
  Proofs.ImapTokenFacts Proofs.ImapRoundTrip.
Import ListNotations.
Open Scope N_scope.
Local Notation length := List.length.

Ltac step tac := cbv beta iota; erewrite bind_ok; [|tac].

Definition kw_ok (kw : string) : bool := forallb is_lower_alpha (s2b kw).
Lemma kw_ok_spec : forall kw, kw_ok kw = true -> all_lower_alpha (s2b kw).
Proof. intros kw H c Hc. unfold kw_ok in H. rewrite forallb_forall in H. apply H. exact Hc. Qed.
Lemma kw_step : forall kw k rest, EncKw kw k -> kw_ok kw = true -> tok_is TT_Char (cur_tok rest) = false ->
  p_kw (k ++ rest) = ROk (s2b kw) rest.
Proof. intros kw k rest E K Hr. apply kw_rt; [exact E|apply kw_ok_spec; exact K|exact Hr]. Qed.

(* the first byte of a keyword is a letter *)
Lemma kw_first : forall kw c0 cs k x, s2b kw = c0 :: cs -> is_lower_alpha c0 = true -> EncKw kw k ->
  cur_tok (k ++ x) = TT_Char.
Proof.
  intros kw c0 cs k x E Hc H. unfold EncKw in H. rewrite E in H. destruct k as [|b t]; [discriminate H|].
  unfold lower in H. cbn [map] in H. injection H as Hb _. cbn [app cur_tok]. apply letter_ok. rewrite Hb. exact Hc.
Qed.

(* the first byte of text folded to "822" / digits is a digit *)
Lemma lower_digit : forall b d, is_digit_byte d = true -> to_lower b = to_lower d -> tok_of_byte b = TT_Digit.
Proof.
  assert (H : forall b, (is_digit_byte (to_lower b) && negb (tok_of_byte b =? TT_Digit)) = false).
  { intro b. destruct (N.ltb_spec b 256) as [Hb|Hb].
    - assert (X : forallb (fun b => negb (is_digit_byte (to_lower b) && negb (tok_of_byte b =? TT_Digit))) byte_range = true) by (vm_compute; reflexivity).
      pose proof (forall_byte _ X b Hb) as Y. apply negb_true_iff in Y. exact Y.
    - assert (E : to_lower b = b). { unfold to_lower. apply nth_overflow. change (length tbl_ByteToLower) with 256%nat. lia. }
      revert E. generalize (to_lower b). intros x ->. unfold is_digit_byte. rewrite in_range_big by (first [exact Hb|reflexivity]). reflexivity. }
  intros b d Hd E. specialize (H b). rewrite E in H.
  assert (D : is_digit_byte (to_lower d) = true).
  { assert (X : forall d, implb (is_digit_byte d) (is_digit_byte (to_lower d)) = true).
    { apply sweep; [vm_compute; reflexivity|]. intros d' Hd'. unfold is_digit_byte at 1. rewrite in_range_big by (first [exact Hd'|reflexivity]). reflexivity. }
    specialize (X d). rewrite Hd in X. exact X. }
  rewrite D in H. cbn [andb] in H. apply negb_false_iff in H. apply N.eqb_eq. exact H.
Qed.

(* ------------------------------------------------------------------ header list, msgtext *)
Definition F_hl (r : bytes) : Prop := is_astring_char (cur_tok r) = false.

Lemma header_list_rt : forall l bs rest fuel, EncHeaderList l bs -> (length l <= S fuel)%nat ->
  p_header_list fuel (bs ++ rest) = ROk l rest.
Proof.
  intros l bs rest fuel (inner & -> & H) Hl. unfold p_header_list. cbn [app]. rewrite <- app_assoc. cbn [app].
  step ltac:(apply consume_rt; reflexivity).
  step ltac:(apply (sep_list_rt EncAString p_astring F_hl 32 TT_SP);
             [intros a e r Ha Hr; apply astring_rt; assumption|reflexivity|reflexivity|exact H|exact Hl|reflexivity|reflexivity]).
  step ltac:(apply consume_rt; reflexivity). reflexivity.
Qed.

Lemma header_list_length : forall l bs, EncHeaderList l bs -> (length l <= S (length bs))%nat.
Proof.
  intros l bs (inner & -> & H). apply sep_list_length in H. cbn [length]. rewrite app_length. cbn [length]. lia.
Qed.

(* what may follow a section-msgtext / section-text: the closing bracket *)
Definition F_rb (r : bytes) : Prop := exists r', r = 93 :: r'.

Lemma msgtext_rt : forall am m bs rest fuel, EncMsgText am m bs -> F_rb rest -> (length bs <= fuel)%nat ->
  (k <- p_kw ;; (if am then (fun t => if kw_is t "mime" then ret MTMime else p_handle_msgtext fuel t)
                 else p_handle_msgtext fuel) k) (bs ++ rest) = ROk m rest.
Proof.
  intros am m bs rest fuel H (r' & ->) Hl.
  destruct H as [am k Hk|am k Hk|k Hk|am neg l k1 k2 k3 el Hk1 Hk2 Hk3 Hel].
  - step ltac:(apply (kw_step _ k _ Hk); reflexivity). destruct am; reflexivity.
  - step ltac:(apply (kw_step _ k _ Hk); reflexivity). destruct am; reflexivity.
  - step ltac:(apply (kw_step _ k _ Hk); reflexivity). reflexivity.
  - repeat (rewrite <- app_assoc; cbn [app]).
    step ltac:(apply (kw_step _ k1 _ Hk1); reflexivity).
    assert (E : (if am then (fun t => if kw_is t "mime" then ret MTMime else p_handle_msgtext fuel t)
                 else p_handle_msgtext fuel) (s2b "header") = p_handle_msgtext fuel (s2b "header")) by (destruct am; reflexivity).
    rewrite E. unfold p_handle_msgtext. change (kw_is (s2b "header") "header") with true. cbv iota.
    step ltac:(apply matchb_yes; reflexivity). cbv beta iota. unfold p_header_fields.
    assert (K3 : forall x, tok_is TT_Char (cur_tok (k3 ++ 32 :: x)) = false).
    { intro x. destruct neg; [destruct Hk3 as (y & -> & _)|subst k3]; reflexivity. }
    step ltac:(apply (kw_step _ k2 _ Hk2); [reflexivity|apply K3]).
    change (negb (kw_is (s2b "fields") "fields")) with false. cbv iota.
    pose proof (header_list_length l el Hel) as LL.
    assert (Lf : (length l <= S fuel)%nat).
    { repeat (rewrite app_length in Hl; cbn [length] in Hl). lia. }
    destruct neg.
    + destruct Hk3 as (y & -> & Hy). cbn [app].
      step ltac:(apply matchb_yes; reflexivity).
      step ltac:(cbv beta iota; erewrite bind_ok; [|apply (kw_step _ y _ Hy); reflexivity]; reflexivity).
      step ltac:(reflexivity). step ltac:(apply header_list_rt; [exact Hel|exact Lf]). reflexivity.
    + subst k3. cbn [app].
      step ltac:(apply matchb_no; reflexivity). step ltac:(reflexivity).
      step ltac:(reflexivity). step ltac:(apply header_list_rt; [exact Hel|exact Lf]). reflexivity.
Qed.

Lemma msgtext_first : forall am m bs x, EncMsgText am m bs -> cur_tok (bs ++ x) = TT_Char.
Proof.
  intros am m bs x H. destruct H as [am k Hk|am k Hk|k Hk|am neg l k1 k2 k3 el Hk1 _ _ _].
  - apply (kw_first "header" 104 (s2b "eader") k x eq_refl eq_refl Hk).
  - apply (kw_first "text" 116 (s2b "ext") k x eq_refl eq_refl Hk).
  - apply (kw_first "mime" 109 (s2b "ime") k x eq_refl eq_refl Hk).
  - rewrite <- app_assoc. apply (kw_first "header" 104 (s2b "eader") k1 _ eq_refl eq_refl Hk1).
Qed.

(* ------------------------------------------------------------------ section-part *)
Lemma nz_first_digit : forall n e x, EncNz n e -> cur_tok (e ++ x) = TT_Digit.
Proof. intros n e x [H _]. apply (num_first_digit n e x H). Qed.

(* *( "." nz-number ) followed by something that is not "." *)
Lemma part_loop_end : forall l t, EncSepTail EncNz 46 l t -> forall fuel rest, (length l <= fuel)%nat ->
  tok_is TT_Digit (cur_tok rest) = false -> tok_is TT_Period (cur_tok rest) = false ->
  p_section_part_loop fuel (t ++ rest) = ROk l rest.
Proof.
  intros l t H. induction H as [|n e l t Hn Ht IH]; intros fuel rest Hl Hd Hp.
  - cbn [app]. unfold tok_is in Hp. destruct fuel; cbn [p_section_part_loop]; rewrite Hp; reflexivity.
  - destruct fuel as [|fuel]; [cbn in Hl; lia|]. cbn [app p_section_part_loop cur_tok tl].
    change (tok_of_byte 46 =? TT_Period) with true. cbv iota. rewrite <- app_assoc.
    rewrite (nz_first_digit n e _ Hn), N.eqb_refl.
    assert (Fn : tok_is TT_Digit (cur_tok (t ++ rest)) = false) by (destruct Ht; [exact Hd|reflexivity]).
    rewrite (nznumber_rt n e _ Hn Fn). rewrite IH; [reflexivity|cbn in Hl; lia|exact Hd|exact Hp].
Qed.
(* ... followed by "." and something that is not a digit (the section-text): the "." is consumed *)
Lemma part_loop_text : forall l t, EncSepTail EncNz 46 l t -> forall fuel x, (length l <= fuel)%nat ->
  tok_is TT_Digit (cur_tok x) = false ->
  p_section_part_loop fuel (t ++ 46 :: x) = ROk l x.
Proof.
  intros l t H. induction H as [|n e l t Hn Ht IH]; intros fuel x Hl Hd.
  - cbn [app]. unfold tok_is in Hd. destruct fuel; cbn [p_section_part_loop cur_tok tl];
      change (tok_of_byte 46 =? TT_Period) with true; cbv iota; rewrite Hd; reflexivity.
  - destruct fuel as [|fuel]; [cbn in Hl; lia|]. cbn [app p_section_part_loop cur_tok tl].
    change (tok_of_byte 46 =? TT_Period) with true. cbv iota. rewrite <- app_assoc.
    rewrite (nz_first_digit n e _ Hn), N.eqb_refl.
    assert (Fn : tok_is TT_Digit (cur_tok (t ++ 46 :: x)) = false) by (destruct Ht; reflexivity).
    rewrite (nznumber_rt n e _ Hn Fn). rewrite IH; [reflexivity|cbn in Hl; lia|exact Hd].
Qed.

Lemma section_rt : forall s es r' fuel, EncSection s es -> (length es < fuel)%nat ->
  (fun bs' => if cur_tok bs' =? TT_RBracket then ROk SecEmpty bs' else p_section_spec fuel bs') (es ++ 93 :: r')
  = ROk s (93 :: r').
Proof.
  intros s es r' fuel H Hl. cbv beta. destruct s as [|m|part t]; cbn in H.
  - subst es. reflexivity.
  - rewrite (msgtext_first false m es _ H). change (TT_Char =? TT_RBracket) with false. cbv iota.
    unfold p_section_spec. rewrite (msgtext_first false m es _ H). change (TT_Char =? TT_Digit) with false. cbv iota.
    pose proof (msgtext_rt false m es (93 :: r') fuel H (ex_intro _ r' eq_refl) ltac:(lia)) as M. cbv beta iota in M.
    unfold bind in M |- *. destruct (p_kw (es ++ 93 :: r')) as [|k a|t r]; try discriminate M.
    rewrite M. reflexivity.
  - destruct H as (ep & et & -> & Hp & Ht). destruct part as [|n part]; [contradiction|].
    destruct Hp as (e & tl & -> & Hn & Htl). repeat (rewrite <- app_assoc; cbn [app]).
    rewrite (nz_first_digit n e _ Hn). change (TT_Digit =? TT_RBracket) with false. cbv iota.
    unfold p_section_spec. rewrite (nz_first_digit n e _ Hn), N.eqb_refl. unfold p_section_part.
    pose proof (sep_tail_length _ _ _ _ _ Htl) as LT.
    assert (Lf : (length part <= fuel)%nat).
    { repeat (rewrite app_length in Hl; cbn [length] in Hl). lia. }
    destruct t as [m|].
    + destruct Ht as (x & -> & Hx).
      assert (Fn : tok_is TT_Digit (cur_tok (tl ++ (46 :: x) ++ 93 :: r')) = false) by (destruct Htl; reflexivity).
      step ltac:(cbv beta iota; erewrite bind_ok; [|apply (nznumber_rt n e _ Hn Fn)];
                 cbv beta iota; erewrite bind_ok;
                 [|cbn [app]; apply (part_loop_text part tl Htl fuel (x ++ 93 :: r') Lf);
                   unfold tok_is; rewrite (msgtext_first true m x _ Hx); reflexivity]; reflexivity).
      step ltac:(reflexivity). cbv beta iota. unfold tok_is. rewrite (msgtext_first true m x _ Hx), N.eqb_refl. cbv iota.
      assert (Lx : (length x <= fuel)%nat).
      { repeat (rewrite app_length in Hl; cbn [length] in Hl). lia. }
      pose proof (msgtext_rt true m x (93 :: r') fuel Hx (ex_intro _ r' eq_refl) Lx) as M.
      step ltac:(exact M). reflexivity.
    + subst et. cbn [app].
      assert (Fn : tok_is TT_Digit (cur_tok (tl ++ 93 :: r')) = false) by (destruct Htl; reflexivity).
      step ltac:(cbv beta iota; erewrite bind_ok; [|apply (nznumber_rt n e _ Hn Fn)];
                 cbv beta iota; erewrite bind_ok;
                 [|apply (part_loop_end part tl Htl fuel (93 :: r') Lf); reflexivity]; reflexivity).
      step ltac:(reflexivity). reflexivity.
Qed.

(* ------------------------------------------------------------------ fetch attributes *)
(* what may follow a fetch attribute: SP, ")" or the CR at the end of the command *)
Definition F_att (r : bytes) : Prop :=
  tok_is TT_Char (cur_tok r) = false /\ tok_is TT_Period (cur_tok r) = false /\ tok_is TT_LBracket (cur_tok r) = false /\
  tok_is TT_Less (cur_tok r) = false /\ tok_is TT_Digit (cur_tok r) = false.

Lemma partial_rt : forall p ep rest (o : option (N * N) -> fetch_att), EncPartial p ep -> tok_is TT_Less (cur_tok rest) = false ->
  (lt <- p_matchb (tok_is TT_Less);;
   (if lt then o0 <- p_number;; p_consume (tok_is TT_Period);;; c <- p_nznumber;; p_consume (tok_is TT_Greater);;;
                ret (o (Some (o0, c)))
    else ret (o None))) (ep ++ rest) = ROk (o p) rest.
Proof.
  intros p ep rest o H Hr. destruct p as [[off cnt]|]; cbn in H.
  - destruct H as (eo & ec & -> & Ho & Hc). cbn [app]. repeat (rewrite <- app_assoc; cbn [app]).
    step ltac:(apply matchb_yes; reflexivity). step ltac:(apply number_rt; [exact Ho|reflexivity]).
    step ltac:(apply consume_rt; reflexivity). step ltac:(apply nznumber_rt; [exact Hc|reflexivity]).
    step ltac:(apply consume_rt; reflexivity). reflexivity.
  - subst ep. cbn [app]. step ltac:(apply matchb_no; exact Hr). reflexivity.
Qed.

Definition att_kw (a : fetch_att) : string :=
  match a with
  | FEnvelope => "envelope" | FFlags => "flags" | FInternalDate => "internaldate" | FBodyStructure => "bodystructure"
  | FUid => "uid" | FBody | FBodySection _ _ _ => "body" | FRfc822 | FRfc822Header | FRfc822Size | FRfc822Text => "rfc"
  | FAll => "all" | FFull => "full" | FFast => "fast"
  end.

(* an attribute = its keyword + the rest, handled by handleFetchAttribute *)
Lemma att_split : forall a bs rest fuel, EncFetchAtt a bs -> F_att rest -> (length bs < fuel)%nat ->
  exists k e, bs = k ++ e /\ EncKw (att_kw a) k /\ kw_ok (att_kw a) = true /\
              tok_is TT_Char (cur_tok (e ++ rest)) = false /\
              kw_is (s2b (att_kw a)) "all" = false /\ kw_is (s2b (att_kw a)) "full" = false /\
              kw_is (s2b (att_kw a)) "fast" = false /\
              p_handle_fetch_att fuel (s2b (att_kw a)) (e ++ rest) = ROk a rest.
Proof.
  intros a bs rest fuel H (Fc & Fp & Fb & Fl & Fd) Hl.
  assert (Simple : forall a0 k, EncKw (att_kw a0) k -> kw_ok (att_kw a0) = true ->
            p_handle_fetch_att fuel (s2b (att_kw a0)) rest = ROk a0 rest ->
            kw_is (s2b (att_kw a0)) "all" = false -> kw_is (s2b (att_kw a0)) "full" = false ->
            kw_is (s2b (att_kw a0)) "fast" = false ->
            exists k' e, k = k' ++ e /\ EncKw (att_kw a0) k' /\ kw_ok (att_kw a0) = true /\
              tok_is TT_Char (cur_tok (e ++ rest)) = false /\
              kw_is (s2b (att_kw a0)) "all" = false /\ kw_is (s2b (att_kw a0)) "full" = false /\
              kw_is (s2b (att_kw a0)) "fast" = false /\
              p_handle_fetch_att fuel (s2b (att_kw a0)) (e ++ rest) = ROk a0 rest).
  { intros a0 k Hk Hok Hh A1 A2 A3. exists k, []. rewrite app_nil_r. cbn [app]. repeat split; assumption. }
  assert (BodyAlone : p_handle_fetch_att fuel (s2b "body") rest = ROk FBody rest).
  { change (p_handle_fetch_att fuel (s2b "body")) with (p_body_att fuel). unfold p_body_att.
    unfold tok_is in Fb, Fp. rewrite Fb, Fp. reflexivity. }
  destruct H as [k Hk|k Hk|k Hk|k Hk|k Hk|k Hk|k f Hk Hf|k f k2 Hk Hf Hk2|k f k2 Hk Hf Hk2|k f k2 Hk Hf Hk2
                |peek s p k kp es ep Hk Hkp Hs Hp].
  all: cbn [att_kw] in *.
  - apply (Simple FEnvelope); try assumption; reflexivity.
  - apply (Simple FFlags); try assumption; reflexivity.
  - apply (Simple FInternalDate); try assumption; reflexivity.
  - apply (Simple FBodyStructure); try assumption; reflexivity.
  - apply (Simple FUid); try assumption; reflexivity.
  - apply (Simple FBody); try assumption; reflexivity.
  - (* RFC822 *)
    assert (F1 : forall x, cur_tok (f ++ x) = TT_Digit).
    { intro x. unfold EncFold in Hf. destruct f as [|b t]; [discriminate Hf|]. unfold lower in Hf. cbn [map] in Hf.
      injection Hf as Hb _. cbn [app cur_tok]. apply (lower_digit b 56); [reflexivity|exact Hb]. }
    exists k, f. split; [reflexivity|]. split; [exact Hk|]. split; [reflexivity|].
    split; [unfold tok_is; rewrite F1; reflexivity|]. repeat (split; [reflexivity|]).
    change (p_handle_fetch_att fuel (s2b "rfc")) with p_rfc822_att. unfold p_rfc822_att.
    step ltac:(apply bytes_fold_rt; exact Hf). step ltac:(apply matchb_no; exact Fp). reflexivity.
  - assert (F1 : forall x, cur_tok (f ++ x) = TT_Digit).
    { intro x. unfold EncFold in Hf. destruct f as [|b t]; [discriminate Hf|]. unfold lower in Hf. cbn [map] in Hf.
      injection Hf as Hb _. cbn [app cur_tok]. apply (lower_digit b 56); [reflexivity|exact Hb]. }
    exists k, (f ++ 46 :: k2). split; [reflexivity|]. split; [exact Hk|]. split; [reflexivity|].
    split; [rewrite <- app_assoc; unfold tok_is; rewrite F1; reflexivity|]. repeat (split; [reflexivity|]).
    change (p_handle_fetch_att fuel (s2b "rfc")) with p_rfc822_att. unfold p_rfc822_att.
    repeat (rewrite <- app_assoc; cbn [app]).
    step ltac:(apply bytes_fold_rt; exact Hf). step ltac:(apply matchb_yes; reflexivity).
    step ltac:(apply (kw_step _ k2 _ Hk2); [reflexivity|exact Fc]). reflexivity.
  - assert (F1 : forall x, cur_tok (f ++ x) = TT_Digit).
    { intro x. unfold EncFold in Hf. destruct f as [|b t]; [discriminate Hf|]. unfold lower in Hf. cbn [map] in Hf.
      injection Hf as Hb _. cbn [app cur_tok]. apply (lower_digit b 56); [reflexivity|exact Hb]. }
    exists k, (f ++ 46 :: k2). split; [reflexivity|]. split; [exact Hk|]. split; [reflexivity|].
    split; [rewrite <- app_assoc; unfold tok_is; rewrite F1; reflexivity|]. repeat (split; [reflexivity|]).
    change (p_handle_fetch_att fuel (s2b "rfc")) with p_rfc822_att. unfold p_rfc822_att.
    repeat (rewrite <- app_assoc; cbn [app]).
    step ltac:(apply bytes_fold_rt; exact Hf). step ltac:(apply matchb_yes; reflexivity).
    step ltac:(apply (kw_step _ k2 _ Hk2); [reflexivity|exact Fc]). reflexivity.
  - assert (F1 : forall x, cur_tok (f ++ x) = TT_Digit).
    { intro x. unfold EncFold in Hf. destruct f as [|b t]; [discriminate Hf|]. unfold lower in Hf. cbn [map] in Hf.
      injection Hf as Hb _. cbn [app cur_tok]. apply (lower_digit b 56); [reflexivity|exact Hb]. }
    exists k, (f ++ 46 :: k2). split; [reflexivity|]. split; [exact Hk|]. split; [reflexivity|].
    split; [rewrite <- app_assoc; unfold tok_is; rewrite F1; reflexivity|]. repeat (split; [reflexivity|]).
    change (p_handle_fetch_att fuel (s2b "rfc")) with p_rfc822_att. unfold p_rfc822_att.
    repeat (rewrite <- app_assoc; cbn [app]).
    step ltac:(apply bytes_fold_rt; exact Hf). step ltac:(apply matchb_yes; reflexivity).
    step ltac:(apply (kw_step _ k2 _ Hk2); [reflexivity|exact Fc]). reflexivity.
  - (* BODY[...] / BODY.PEEK[...] *)
    exists k, (kp ++ 91 :: es ++ 93 :: ep). split; [reflexivity|]. split; [exact Hk|]. split; [reflexivity|].
    assert (KP : forall x, tok_is TT_Char (cur_tok (kp ++ 91 :: x)) = false /\
                           (negb (cur_tok (kp ++ 91 :: x) =? TT_LBracket) && negb (cur_tok (kp ++ 91 :: x) =? TT_Period)) = false).
    { intro x. destruct peek; [destruct Hkp as (y & -> & _)|subst kp]; split; reflexivity. }
    split; [rewrite <- app_assoc; apply (proj1 (KP _))|]. repeat (split; [reflexivity|]).
    change (p_handle_fetch_att fuel (s2b "body")) with (p_body_att fuel). unfold p_body_att.
    repeat (rewrite <- app_assoc; cbn [app]). rewrite (proj2 (KP _)).
    assert (Ls : (length es < fuel)%nat).
    { repeat (rewrite app_length in Hl; cbn [length] in Hl). lia. }
    destruct peek.
    + destruct Hkp as (y & -> & Hy). cbn [app].
      step ltac:(apply matchb_yes; reflexivity).
      step ltac:(cbv beta iota; erewrite bind_ok; [|apply bytes_fold_rt; exact Hy]; reflexivity).
      step ltac:(apply consume_rt; reflexivity).
      step ltac:(apply (section_rt s es (ep ++ rest) fuel Hs Ls)).
      step ltac:(apply consume_rt; reflexivity).
      apply (partial_rt p ep rest (FBodySection true s) Hp Fl).
    + subst kp. cbn [app].
      step ltac:(apply matchb_no; reflexivity). step ltac:(reflexivity).
      step ltac:(apply consume_rt; reflexivity).
      step ltac:(apply (section_rt s es (ep ++ rest) fuel Hs Ls)).
      step ltac:(apply consume_rt; reflexivity).
      apply (partial_rt p ep rest (FBodySection false s) Hp Fl).
Qed.

Lemma fetch_att_rt : forall a bs rest fuel, EncFetchAtt a bs -> F_att rest -> (length bs < fuel)%nat ->
  p_fetch_att fuel (bs ++ rest) = ROk a rest.
Proof.
  intros a bs rest fuel H Hf Hl.
  destruct (att_split a bs rest fuel H Hf Hl) as (k & e & -> & Hk & Hok & Hch & _ & _ & _ & Hh).
  unfold p_fetch_att. rewrite <- app_assoc. step ltac:(apply (kw_step _ k _ Hk Hok Hch)). exact Hh.
Qed.

(* ------------------------------------------------------------------ FETCH *)
Definition F_endc (r : bytes) : Prop := exists r', r = 13 :: r'.

Lemma att_first_not_paren : forall a bs x, EncFetchAtt a bs -> cur_tok (bs ++ x) = TT_Char.
Proof.
  intros a bs x H.
  destruct H as [k Hk|k Hk|k Hk|k Hk|k Hk|k Hk|k f Hk Hf|k f k2 Hk Hf Hk2|k f k2 Hk Hf Hk2|k f k2 Hk Hf Hk2
                |peek s p k kp es ep Hk Hkp Hs Hp]; repeat rewrite <- app_assoc.
  - apply (kw_first "envelope" 101 (s2b "nvelope") k x eq_refl eq_refl Hk).
  - apply (kw_first "flags" 102 (s2b "lags") k x eq_refl eq_refl Hk).
  - apply (kw_first "internaldate" 105 (s2b "nternaldate") k x eq_refl eq_refl Hk).
  - apply (kw_first "bodystructure" 98 (s2b "odystructure") k x eq_refl eq_refl Hk).
  - apply (kw_first "uid" 117 (s2b "id") k x eq_refl eq_refl Hk).
  - apply (kw_first "body" 98 (s2b "ody") k x eq_refl eq_refl Hk).
  - apply (kw_first "rfc" 114 (s2b "fc") k _ eq_refl eq_refl Hk).
  - apply (kw_first "rfc" 114 (s2b "fc") k _ eq_refl eq_refl Hk).
  - apply (kw_first "rfc" 114 (s2b "fc") k _ eq_refl eq_refl Hk).
  - apply (kw_first "rfc" 114 (s2b "fc") k _ eq_refl eq_refl Hk).
  - apply (kw_first "body" 98 (s2b "ody") k _ eq_refl eq_refl Hk).
Qed.

Lemma fetch_atts_length : forall atts e, EncFetchAtts atts e -> (length atts <= S (length e))%nat.
Proof.
  intros atts e [[-> _]|[[-> _]|[[-> _]|[(a & -> & _)|(inner & -> & H)]]]]; try (cbn; lia).
  apply sep_list_length in H. cbn [length]. rewrite app_length. cbn [length]. lia.
Qed.

(* the pieces of a separated list are not longer than the whole *)
Lemma sep_tail_strengthen : forall A (E : A -> bytes -> Prop) sepb l t n, EncSepTail E sepb l t -> (length t <= n)%nat ->
  EncSepTail (fun a e => E a e /\ (length e <= n)%nat) sepb l t.
Proof.
  intros A E sepb l t n H. induction H as [|a e l t Ha Ht IH]; intro Hn; [apply EST_nil|].
  cbn [length] in Hn. rewrite app_length in Hn. apply EST_cons; [split; [exact Ha|lia]|apply IH; lia].
Qed.
Lemma sep_list_strengthen : forall A (E : A -> bytes -> Prop) sepb l bs, EncSepList E sepb l bs ->
  EncSepList (fun a e => E a e /\ (length e <= length bs)%nat) sepb l bs.
Proof.
  intros A E sepb [|a l] bs H; [contradiction|]. destruct H as (e & t & -> & Ha & Ht).
  exists e, t. split; [reflexivity|]. rewrite app_length. split; [split; [exact Ha|lia]|].
  apply sep_tail_strengthen; [exact Ht|lia].
Qed.

Lemma fetch_rt : forall s atts e1 e2 rest fuel, EncSeqSet s e1 -> EncFetchAtts atts e2 ->
  (length s <= S fuel)%nat -> (length e2 < fuel)%nat -> F_endc rest ->
  p_fetch fuel (32 :: e1 ++ 32 :: e2 ++ rest) = ROk (SFetch s atts) rest.
Proof.
  intros s atts e1 e2 rest fuel H1 H2 L1 L2 (r' & ->). unfold p_fetch.
  step ltac:(apply (consume_rt (tok_is TT_SP)); reflexivity). step ltac:(apply seqset_rt; [exact H1|exact L1|repeat split]).
  step ltac:(apply (consume_rt (tok_is TT_SP)); reflexivity).
  assert (Fend : F_att (13 :: r')) by (repeat split).
  assert (Single : forall (kw : string) k l0, EncKw kw k -> kw_ok kw = true -> cur_tok (k ++ 13 :: r') = TT_Char ->
            (if kw_is (s2b kw) "all" then ret [FAll] else if kw_is (s2b kw) "full" then ret [FFull]
             else if kw_is (s2b kw) "fast" then ret [FFast] else a <- p_handle_fetch_att fuel (s2b kw);; ret [a]) (13 :: r')
            = ROk l0 (13 :: r') ->
            (fun bs => if cur_tok bs =? TT_LParen
                       then (p_consume (tok_is TT_LParen);;; l <- p_sep_list fuel (tok_is TT_SP) (p_fetch_att fuel);;
                             p_consume (tok_is TT_RParen);;; ret l) bs
                       else (k0 <- p_kw;; (if kw_is k0 "all" then ret [FAll] else if kw_is k0 "full" then ret [FFull]
                                           else if kw_is k0 "fast" then ret [FFast]
                                           else a <- p_handle_fetch_att fuel k0;; ret [a])) bs) (k ++ 13 :: r')
            = ROk l0 (13 :: r')).
  { intros kw k l0 Hk Hok C Hh. cbv beta. rewrite C. change (TT_Char =? TT_LParen) with false. cbv iota.
    step ltac:(apply (kw_step _ k _ Hk Hok); reflexivity). exact Hh. }
  destruct H2 as [[-> Hk]|[[-> Hk]|[[-> Hk]|[(a & -> & Ha)|(inner & -> & Hi)]]]].
  - step ltac:(apply (Single "all"%string e2 [FAll] Hk); [reflexivity|apply (kw_first "all" 97 (s2b "ll") e2 _ eq_refl eq_refl Hk)|reflexivity]). reflexivity.
  - step ltac:(apply (Single "full"%string e2 [FFull] Hk); [reflexivity|apply (kw_first "full" 102 (s2b "ull") e2 _ eq_refl eq_refl Hk)|reflexivity]). reflexivity.
  - step ltac:(apply (Single "fast"%string e2 [FFast] Hk); [reflexivity|apply (kw_first "fast" 102 (s2b "ast") e2 _ eq_refl eq_refl Hk)|reflexivity]). reflexivity.
  - destruct (att_split a e2 (13 :: r') fuel Ha Fend L2) as (k & e & -> & Hk & Hok & Hch & A1 & A2 & A3 & Hh).
    assert (C : cur_tok (k ++ e ++ 13 :: r') = TT_Char).
    { pose proof (att_first_not_paren a (k ++ e) (13 :: r') Ha) as X. rewrite <- app_assoc in X. exact X. }
    rewrite <- app_assoc.
    step ltac:(idtac).
    2:{ cbv beta. rewrite C. change (TT_Char =? TT_LParen) with false. cbv iota.
        cbv beta iota; erewrite bind_ok; [|apply (kw_step _ k _ Hk Hok Hch)].
        cbv beta. rewrite A1, A2, A3. cbv beta iota; erewrite bind_ok; [|exact Hh]. reflexivity. }
    reflexivity.
  - cbn [app]. repeat (rewrite <- app_assoc; cbn [app]).
    apply sep_list_strengthen in Hi.
    assert (Li : (length inner < fuel)%nat) by (cbn [length] in L2; rewrite app_length in L2; cbn [length] in L2; lia).
    step ltac:(idtac).
    2:{ cbv beta. change (cur_tok (40 :: inner ++ 41 :: 13 :: r') =? TT_LParen) with true. cbv iota.
        cbv beta iota; erewrite bind_ok; [|apply consume_rt; reflexivity].
        cbv beta iota; erewrite bind_ok.
        2:{ apply (sep_list_rt (fun a e => EncFetchAtt a e /\ (length e <= length inner)%nat) (p_fetch_att fuel) F_att 32 TT_SP);
              try reflexivity.
            - intros a e r [Ha Hle] Hr. apply fetch_att_rt; [exact Ha|exact Hr|lia].
            - intro x. repeat split.
            - exact Hi.
            - pose proof (sep_list_length _ _ _ _ _ Hi) as L. lia.
            - repeat split. }
        cbv beta iota; erewrite bind_ok; [|apply consume_rt; reflexivity]. reflexivity. }
    reflexivity.
Qed.
