package main

// Reference semantics of connector updates on the relational snapshot ("what the update describes"), written
// set-style and independently of the Coq model. refApply returns the expected acknowledgement class, whether the
// update is "valid" in the sense of the property (then the ack must be OK and the effect exact) and the expected
// snapshot.

import (
	"fmt"
	"sort"
	"strings"

	"github.com/ProtonMail/gluon/imap"

	"verifharness/common"
)

const recoveryRID = "GLUON-INTERNAL-RECOVERY-MBOX"

type mcItem struct {
	RID    string   `json:"rid"`
	Marker string   `json:"marker"`
	Flags  []string `json:"flags"`
	Mboxes []string `json:"mboxes"`
}

type upd struct {
	Kind    string   `json:"kind"`
	MboxRID string   `json:"mbox,omitempty"`
	Name    string   `json:"name,omitempty"`
	MboxIID uint64   `json:"mbox_iid,omitempty"`
	MsgRID  string   `json:"msg,omitempty"`
	MsgIID  string   `json:"msg_iid,omitempty"`
	Items   []mcItem `json:"items,omitempty"`
	Ignore  bool     `json:"ignore,omitempty"`
	Mboxes  []string `json:"mboxes,omitempty"`
	Flags   []string `json:"flags,omitempty"`
	Marker  string   `json:"marker,omitempty"`
	Allow   bool     `json:"allow,omitempty"`
	// MailboxCreated: the three sets of the mailbox, independent of each other (nil = the harness default)
	MbFlags []string `json:"mb_flags,omitempty"`
	MbPerm  []string `json:"mb_perm,omitempty"`
	MbAttrs []string `json:"mb_attrs,omitempty"`
	// filled after the run: internal ids of the messages the update created, in creation order; UIDVALIDITY values drawn
	Fresh []string `json:"-"`
	Gens  []int    `json:"-"`
}

func literalOf(marker string) []byte { return common.Message(marker, "body of "+marker) }

func flagSet(fs []string) imap.FlagSet {
	r := imap.NewFlagSet()
	for _, f := range fs {
		r.AddToSelf(f)
	}
	return r
}

func mboxIDs(xs []string) []imap.MailboxID {
	r := make([]imap.MailboxID, len(xs))
	for i, x := range xs {
		r[i] = imap.MailboxID(x)
	}
	return r
}

// build makes a FRESH update object (a replay is a new object with identical content).
func (u *upd) build(delim string) (imap.Update, error) {
	switch u.Kind {
	case "MailboxCreated":
		u.defaults()
		return imap.NewMailboxCreated(imap.Mailbox{ID: imap.MailboxID(u.MboxRID), Name: strings.Split(u.Name, delim), Flags: flagSet(u.MbFlags), PermanentFlags: flagSet(u.MbPerm), Attributes: flagSet(u.MbAttrs)}), nil
	case "MailboxDeleted":
		return imap.NewMailboxDeleted(imap.MailboxID(u.MboxRID)), nil
	case "MailboxUpdated":
		return imap.NewMailboxUpdated(imap.MailboxID(u.MboxRID), strings.Split(u.Name, delim)), nil
	case "MailboxIDChanged":
		return imap.NewMailboxIDChanged(imap.InternalMailboxID(u.MboxIID), imap.MailboxID(u.MboxRID)), nil
	case "MessagesCreated":
		var items []*imap.MessageCreated
		for _, it := range u.Items {
			lit := literalOf(it.Marker)
			pm, err := imap.NewParsedMessage(lit)
			if err != nil {
				return nil, err
			}
			items = append(items, &imap.MessageCreated{Message: imap.Message{ID: imap.MessageID(it.RID), Flags: flagSet(it.Flags), Date: fixedDate}, Literal: lit, MailboxIDs: mboxIDs(it.Mboxes), ParsedMessage: pm})
		}
		return imap.NewMessagesCreated(u.Ignore, items...), nil
	case "MessageMailboxesUpdated":
		return imap.NewMessageMailboxesUpdated(imap.MessageID(u.MsgRID), mboxIDs(u.Mboxes), flagSet(u.Flags)), nil
	case "MessageFlagsUpdated":
		return imap.NewMessageFlagsUpdated(imap.MessageID(u.MsgRID), flagSet(u.Flags)), nil
	case "MessageUpdated":
		lit := literalOf(u.Marker)
		pm, err := imap.NewParsedMessage(lit)
		if err != nil {
			return nil, err
		}
		return imap.NewMessageUpdated(imap.Message{ID: imap.MessageID(u.MsgRID), Flags: flagSet(u.Flags), Date: fixedDate}, lit, mboxIDs(u.Mboxes), pm, u.Allow), nil
	case "MessageDeleted":
		return imap.NewMessagesDeleted(imap.MessageID(u.MsgRID)), nil
	case "MessageIDChanged":
		id, err := imap.InternalMessageIDFromString(u.MsgIID)
		if err != nil {
			return nil, err
		}
		return imap.NewMessageIDChanged(id, imap.MessageID(u.MsgRID)), nil
	case "UIDValidityBumped":
		return imap.NewUIDValidityBumped(), nil
	case "Noop":
		return imap.NewNoop(), nil
	}
	return nil, fmt.Errorf("unknown kind %s", u.Kind)
}

var defaultMbFlags = []string{`\Seen`, `\Flagged`, `\Deleted`}

// defaults fills the sets of a MailboxCreated that does not spell them out.
func (u *upd) defaults() {
	if u.Kind == "MailboxCreated" && u.MbFlags == nil && u.MbPerm == nil && u.MbAttrs == nil {
		u.MbFlags, u.MbPerm, u.MbAttrs = defaultMbFlags, defaultMbFlags, []string{}
	}
}

func (u *upd) canon() string {
	var sb strings.Builder
	sb.WriteString(u.Kind)
	if u.MboxIID != 0 {
		fmt.Fprintf(&sb, " iid=%d", u.MboxIID)
	}
	if u.MboxRID != "" {
		sb.WriteString(" mbox=" + u.MboxRID)
	}
	if u.Name != "" {
		sb.WriteString(" name=" + u.Name)
	}
	if u.Kind == "MailboxCreated" && (u.MbFlags != nil || u.MbPerm != nil || u.MbAttrs != nil) {
		fmt.Fprintf(&sb, " flags=%v permanent=%v attributes=%v", u.MbFlags, u.MbPerm, u.MbAttrs)
	}
	if u.MsgIID != "" {
		sb.WriteString(" iid=<msg>")
	}
	if u.MsgRID != "" {
		sb.WriteString(" msg=" + u.MsgRID)
	}
	if u.Marker != "" {
		sb.WriteString(" lit=" + u.Marker)
	}
	if u.Kind == "MessageUpdated" {
		fmt.Fprintf(&sb, " allow=%v", u.Allow)
	}
	if u.Kind == "MessagesCreated" {
		fmt.Fprintf(&sb, " ignore=%v", u.Ignore)
		for i, it := range u.Items {
			if len(u.Items) > 12 && i >= 3 && i < len(u.Items)-2 {
				if i == 3 {
					fmt.Fprintf(&sb, " ... (%d items)", len(u.Items))
				}
				continue
			}
			fmt.Fprintf(&sb, " [%s lit=%s %v in %v]", it.RID, it.Marker, it.Flags, it.Mboxes)
		}
	}
	if u.Mboxes != nil || u.Kind == "MessageMailboxesUpdated" || u.Kind == "MessageUpdated" {
		fmt.Fprintf(&sb, " in %v", u.Mboxes)
	}
	if u.Flags != nil || u.Kind == "MessageFlagsUpdated" || u.Kind == "MessageMailboxesUpdated" || u.Kind == "MessageUpdated" {
		fmt.Fprintf(&sb, " flags %v", u.Flags)
	}
	return sb.String()
}

func contains(xs []string, x string) bool {
	for _, y := range xs {
		if y == x {
			return true
		}
	}
	return false
}

func hasDup(xs []string) bool {
	m := map[string]bool{}
	for _, x := range xs {
		if m[x] {
			return true
		}
		m[x] = true
	}
	return false
}

type refResult struct {
	Valid bool   // the property demands ack OK + exact effect
	Ack   string // expected ack class for the model: "ok" | "err"
	After *dbSnap
	// ids the update is expected to create, as (rid, marker) in creation order
	Created [][2]string
	// number of UIDVALIDITY values drawn
	NGens int
	Why   string
}

// placeholder internal id for a message the update creates (resolved after the run by remote id)
func newIID(rid string) string { return "new:" + rid }

// canonName mirrors user.joinMailboxName: the first hierarchy level is INBOX in any spelling -> "INBOX".
func canonName(n string) string {
	parts := strings.Split(n, "/")
	if strings.EqualFold(parts[0], "inbox") {
		parts[0] = "INBOX"
	}
	return strings.Join(parts, "/")
}

// refApply computes the expected result. gens are the UIDVALIDITY values the counter generator will hand out next.
func refApply(s0 *dbSnap, u *upd, nextGen int, litOf map[string]string) refResult {
	s := s0.clone()
	res := refResult{Valid: true, Ack: "ok", After: s}
	fail := func(valid bool, why string) refResult {
		return refResult{Valid: valid, Ack: "err", After: s0.clone(), Why: why, NGens: res.NGens}
	}
	addTo := func(mb *dbMb, iid, rid string) {
		mb.Rows = append(mb.Rows, dbRow{UID: mb.Next, Msg: iid, RIDCol: rid})
		mb.Next++
	}
	removeFrom := func(mb *dbMb, iid string) {
		var rows []dbRow
		for _, r := range mb.Rows {
			if r.Msg != iid {
				rows = append(rows, r)
			}
		}
		mb.Rows = rows
	}
	switch u.Kind {
	case "Noop":
		return res
	case "MailboxCreated":
		if u.MboxRID == recoveryRID {
			return fail(false, "protected")
		}
		if s.mbByRID(u.MboxRID) != nil {
			return res // restates (by id)
		}
		res.NGens = 1
		if s.mbByName(canonName(u.Name)) != nil {
			return fail(false, "name taken")
		}
		maxIID := uint64(0)
		for _, m := range s.Mb {
			if m.IID > maxIID {
				maxIID = m.IID
			}
		}
		u.defaults()
		s.Mb = append(s.Mb, &dbMb{IID: 0 /* resolved later */, RID: u.MboxRID, Name: canonName(u.Name), UIDV: nextGen, Sub: true, Next: 1,
			Flags: normSet(u.MbFlags), Perm: normSet(u.MbPerm), Attrs: normSet(u.MbAttrs)})
		return res
	case "MailboxDeleted":
		if u.MboxRID == recoveryRID {
			return fail(false, "protected")
		}
		mb := s.mbByRID(u.MboxRID)
		if mb == nil {
			return res
		}
		if isRecovery(mb) {
			return fail(false, "protected")
		}
		var mbs []*dbMb
		for _, m := range s.Mb {
			if m != mb {
				mbs = append(mbs, m)
			}
		}
		s.Mb = mbs
		var ds [][2]string
		for _, d := range s.DSub {
			if d[0] != mb.Name {
				ds = append(ds, d)
			}
		}
		s.DSub = ds
		return res
	case "MailboxUpdated":
		if u.MboxRID == recoveryRID {
			return fail(false, "protected")
		}
		mb := s.mbByRID(u.MboxRID)
		if mb == nil {
			res.Valid = false
			return res
		}
		if isRecovery(mb) {
			return fail(false, "protected")
		}
		// names are compared exactly: a change of letter case is a rename
		if mb.Name == canonName(u.Name) {
			return res
		}
		if o := s.mbByName(canonName(u.Name)); o != nil && o != mb {
			return fail(false, "name taken")
		}
		mb.Name = canonName(u.Name)
		return res
	case "MailboxIDChanged":
		mb := s.mbByIID(u.MboxIID)
		if mb == nil {
			return fail(false, "unknown internal id")
		}
		if isRecovery(mb) {
			return fail(false, "protected")
		}
		if u.MboxRID == recoveryRID {
			// no second mailbox may take the reserved remote id (the recovery mailbox holds it: "remote id in use")
			return fail(false, "protected")
		}
		if o := s.mbByRID(u.MboxRID); o != nil && o != mb {
			return fail(false, "remote id in use")
		}
		mb.RID = u.MboxRID
		return res
	case "MessagesCreated":
		type pend struct{ iid, rid string }
		created := map[string]string{} // rid -> iid
		perBox := map[*dbMb][]pend{}
		var boxOrder []*dbMb
		for _, it := range u.Items {
			if contains(it.Mboxes, recoveryRID) {
				res.Valid = false
				continue
			}
			iid, ok := created[it.RID]
			if !ok {
				if m := s0.msByRID(it.RID); m != nil {
					iid = m.IID
					if m.Deleted {
						res.Valid = false // re-creating a message that is pending deletion: outside the property's "valid"
					}
				} else {
					iid = newIID(it.RID)
					created[it.RID] = iid
					res.Created = append(res.Created, [2]string{it.RID, it.Marker})
					s.Ms = append(s.Ms, &dbMsg{IID: iid, RID: it.RID, Flags: normFlags(it.Flags)})
				}
			}
			for _, mrid := range it.Mboxes {
				mb := s.mbByRID(mrid)
				if mb == nil {
					if u.Ignore {
						continue
					}
					return fail(false, "unknown mailbox")
				}
				if _, ok := perBox[mb]; !ok {
					boxOrder = append(boxOrder, mb)
				}
				dup := false
				for _, p := range perBox[mb] {
					if p.iid == iid {
						dup = true
					}
				}
				if !dup {
					perBox[mb] = append(perBox[mb], pend{iid, it.RID})
				}
			}
		}
		for _, mb := range boxOrder {
			for _, p := range perBox[mb] {
				if !mb.has(p.iid) {
					addTo(mb, p.iid, p.rid)
				}
			}
		}
		return res
	case "MessageMailboxesUpdated", "MessageFlagsUpdated":
		if u.Kind == "MessageMailboxesUpdated" && contains(u.Mboxes, recoveryRID) {
			return fail(false, "protected")
		}
		m := s.msByRID(u.MsgRID)
		if m == nil {
			return fail(false, "unknown message")
		}
		if m.Deleted {
			res.Valid = false
		}
		if u.Kind == "MessageMailboxesUpdated" {
			var targets []*dbMb
			for _, mb := range s.Mb { // table order
				if contains(u.Mboxes, mb.RID) {
					targets = append(targets, mb)
				}
			}
			for _, x := range u.Mboxes {
				if s.mbByRID(x) == nil {
					res.Valid = false
				}
			}
			for _, mb := range targets {
				if !mb.has(m.IID) {
					addTo(mb, m.IID, m.RID)
				}
			}
			for _, mb := range s.Mb {
				isT := false
				for _, t := range targets {
					if t == mb {
						isT = true
					}
				}
				if !isT && mb.has(m.IID) {
					removeFrom(mb, m.IID)
				}
			}
		}
		m.Flags = normFlags(u.Flags)
		return res
	case "MessageDeleted":
		m := s.msByRID(u.MsgRID)
		if m == nil {
			return res
		}
		m.Deleted = true
		m.RID = "DELETED" // after C06-fix-3 the remote id is released at once
		for _, mb := range s.Mb {
			if mb.has(m.IID) {
				removeFrom(mb, m.IID)
			}
		}
		return res
	case "MessageIDChanged":
		m := s.msByIID(u.MsgIID)
		if m == nil {
			return fail(false, "unknown internal id")
		}
		if o := s.msByRID(u.MsgRID); o != nil && o != m {
			return fail(false, "remote id in use")
		}
		m.RID = u.MsgRID
		for _, mb := range s.Mb {
			for i := range mb.Rows {
				if mb.Rows[i].Msg == m.IID {
					mb.Rows[i].RIDCol = u.MsgRID // after C06-fix-2 the per-mailbox column follows
				}
			}
		}
		return res
	case "MessageUpdated":
		m := s.msByRID(u.MsgRID)
		if m == nil {
			if !u.Allow {
				res.Valid = false
				return res
			}
			// created instead (ignore unknown mailboxes = true)
			if contains(u.Mboxes, recoveryRID) {
				res.Valid = false
				return res
			}
			iid := newIID(u.MsgRID)
			res.Created = append(res.Created, [2]string{u.MsgRID, u.Marker})
			s.Ms = append(s.Ms, &dbMsg{IID: iid, RID: u.MsgRID, Flags: normFlags(u.Flags)})
			seen := map[string]bool{}
			for _, x := range u.Mboxes {
				mb := s.mbByRID(x)
				if mb == nil {
					res.Valid = false
					continue
				}
				if !seen[x] {
					addTo(mb, iid, u.MsgRID)
				}
				seen[x] = true
			}
			return res
		}
		if m.Deleted {
			res.Valid = false
		}
		for _, x := range u.Mboxes {
			if s.mbByRID(x) == nil {
				return fail(false, "unknown mailbox")
			}
		}
		if litOf[m.IID] == u.Marker {
			// same literal: flags and mailboxes only
			m.Flags = normFlags(u.Flags)
			var toAdd []*dbMb
			for _, x := range u.Mboxes {
				mb := s.mbByRID(x)
				if !mb.has(m.IID) {
					toAdd = append(toAdd, mb)
				}
			}
			seen := map[*dbMb]bool{}
			for _, mb := range toAdd {
				if seen[mb] {
					return fail(false, "duplicate mailbox id")
				}
				seen[mb] = true
				addTo(mb, m.IID, m.RID)
			}
			for _, mb := range s.Mb {
				if mb.has(m.IID) && !contains(u.Mboxes, mb.RID) {
					removeFrom(mb, m.IID)
				}
			}
			return res
		}
		// new literal: old message leaves all mailboxes and is marked deleted under a random remote id; a new
		// message is created and added to the listed mailboxes
		if hasDup(u.Mboxes) {
			return fail(false, "duplicate mailbox id")
		}
		for _, mb := range s.Mb {
			if mb.has(m.IID) {
				removeFrom(mb, m.IID)
			}
		}
		m.Deleted = true
		m.RID = "DELETED"
		iid := newIID(u.MsgRID)
		res.Created = append(res.Created, [2]string{u.MsgRID, u.Marker})
		s.Ms = append(s.Ms, &dbMsg{IID: iid, RID: u.MsgRID, Flags: normFlags(u.Flags)})
		for _, x := range u.Mboxes {
			addTo(s.mbByRID(x), iid, u.MsgRID)
		}
		return res
	case "UIDValidityBumped":
		for i, mb := range s.Mb { // table order
			mb.UIDV = nextGen + i
		}
		res.NGens = len(s.Mb)
		return res
	}
	return fail(false, "unknown kind")
}

// resolve replaces the placeholder ids of created objects in the expected snapshot by the ids found in the actual one.
func resolveExpected(exp, act *dbSnap) {
	ren := map[string]string{}
	for _, m := range exp.Ms {
		if strings.HasPrefix(m.IID, "new:") {
			if a := act.msByRID(m.RID); a != nil {
				ren[m.IID] = a.IID
				m.IID = a.IID
			}
		}
	}
	for _, mb := range exp.Mb {
		if mb.IID == 0 {
			if a := act.mbByRID(mb.RID); a != nil {
				mb.IID = a.IID
			}
		}
		for i := range mb.Rows {
			if n, ok := ren[mb.Rows[i].Msg]; ok {
				mb.Rows[i].Msg = n
			}
		}
	}
	// a message replaced by MessageUpdated keeps a random "DELETED-<uuid>" remote id
	for _, m := range exp.Ms {
		if m.RID == "DELETED" {
			if a := act.msByIID(m.IID); a != nil && strings.HasPrefix(a.RID, "DELETED-") {
				m.RID = a.RID
			}
		}
	}
	exp.sortAll()
}

func snapString(s *dbSnap, litOf map[string]string) string {
	var sb strings.Builder
	short := func(iid string) string {
		if l, ok := litOf[iid]; ok {
			return l
		}
		if len(iid) > 8 {
			return iid[:8]
		}
		return iid
	}
	for _, mb := range s.Mb {
		if mb.RID == recoveryRID && len(mb.Rows) == 0 {
			continue
		}
		fmt.Fprintf(&sb, "%s(%s)[v%d n%d s%v:", mb.Name, mb.RID, mb.UIDV, mb.Next, mb.Sub)
		for _, r := range mb.Rows {
			fmt.Fprintf(&sb, " %d=%s/%s", r.UID, short(r.Msg), r.RIDCol)
		}
		sb.WriteString("] ")
	}
	var ms []string
	for _, m := range s.Ms {
		d := ""
		if m.Deleted {
			d = "!del"
		}
		rid := m.RID
		if strings.HasPrefix(rid, "DELETED") {
			rid = "DELETED"
		}
		ms = append(ms, fmt.Sprintf("%s/%s%v%s", short(m.IID), rid, m.Flags, d))
	}
	sort.Strings(ms)
	sb.WriteString("msgs=" + strings.Join(ms, ","))
	var ds []string
	for _, d := range s.DSub {
		ds = append(ds, d[0]+"/"+d[1])
	}
	sb.WriteString(" dsub=" + strings.Join(ds, ","))
	return sb.String()
}
