(* C10/C11 — scanner and token predicates of rfcparser, as lookups in the tables GENERATED from the code
   (Gen/FactsTokens.v: rfcparser.Scanner.ScanToken run on every byte, IsAtomChar/IsAStringChar/IsQuotedChar/
   IsQuotedSpecial/IsRespSpecial/IsCTL/ByteToLower tabulated by calling the real functions).

   Go: rfcparser/scanner.go (ScanToken, ByteToLower), rfcparser/parser.go (Is*Char predicates, Check/Advance:
   the parser holds ONE token of look-ahead, `currentToken`; at the end of the input the scanner returns the EOF token
   for ever).

   Representation: the input is a byte list (`list N`); the head of the list is the parser's current token, `[]` is
   the EOF token.  `Advance` is `tl`. *)
From Coq Require Import List NArith Bool.
From Gluon Require Import Gen.FactsTokens.
Import ListNotations.
Open Scope N_scope.

Definition bytes := list N.

Definition tok_of_byte (b : N) : N := nth (N.to_nat b) scan_table TT_Error.

(* Parser.currentToken.TType / .Value *)
Definition cur_tok (bs : bytes) : N := match bs with [] => scan_eof | b :: _ => tok_of_byte b end.
Definition cur_val (bs : bytes) : N := match bs with [] => scan_eof_value | b :: _ => b end.

Definition tbl_lookup (t : list bool) (tt : N) : bool := nth (N.to_nat tt) t false.

Definition is_atom_char (t : N) : bool := tbl_lookup tbl_IsAtomChar t.
Definition is_astring_char (t : N) : bool := tbl_lookup tbl_IsAStringChar t.
Definition is_quoted_char (t : N) : bool := tbl_lookup tbl_IsQuotedChar t.
Definition is_quoted_special (t : N) : bool := tbl_lookup tbl_IsQuotedSpecial t.
Definition is_resp_special (t : N) : bool := tbl_lookup tbl_IsRespSpecial t.
Definition is_ctl (t : N) : bool := tbl_lookup tbl_IsCTL t.
(* ParseQuoted, after a backslash: ConsumeWith(IsQuotedSpecial) — or, if the source says otherwise, anything but EOF *)
Definition quoted_escape_ok (t : N) : bool :=
  if quoted_escape_requires_special then is_quoted_special t else negb (t =? scan_eof).

(* imap/command/parser.go parseTag: isTagChar *)
Definition is_tag_char (t : N) : bool := is_astring_char t && negb (t =? TT_Plus).
(* imap/command/list.go parseListMailbox: isListChar *)
Definition is_list_char (t : N) : bool :=
  is_atom_char t || is_resp_special t || (t =? TT_Percent) || (t =? TT_Asterisk).

Definition tok_is (t : N) : N -> bool := fun x => x =? t.

Definition to_lower (b : N) : N := nth (N.to_nat b) tbl_ByteToLower b.
Definition lower (s : bytes) : bytes := map to_lower s.

Fixpoint bytes_eqb (a b : bytes) : bool :=
  match a, b with
  | [], [] => true
  | x :: a', y :: b' => (x =? y) && bytes_eqb a' b'
  | _, _ => false
  end.

(* well-known bytes *)
Definition bSP : N := 32.
Definition bCR : N := 13.
Definition bLF : N := 10.
Definition bDQ : N := 34.
Definition bBS : N := 92.
Definition bLP : N := 40.
Definition bRP : N := 41.
Definition bLC : N := 123.
Definition bRC : N := 125.

(* all byte values, for finite checks *)
Definition byte_range : list N := map N.of_nat (seq 0 256).
Definition tok_range : list N := map N.of_nat (seq 0 (N.to_nat token_type_count)).
