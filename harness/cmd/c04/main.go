// Harness for C04: UIDs strictly increasing and never reused, UIDNEXT bounds, APPENDUID/COPYUID actual,
// UIDVALIDITY only grows. Histories run over the wire (harness/mstore); the oracle below evaluates the property
// clauses on the observed UID/UIDNEXT/UIDVALIDITY values per marker, independently of the Coq model.
package main

import (
	"fmt"
	"sort"
	"strings"
	"time"

	"github.com/ProtonMail/gluon"
	"github.com/ProtonMail/gluon/imap"
	"github.com/ProtonMail/gluon/verifhook"

	"verifharness/common"
	"verifharness/imapc"
	"verifharness/mstore"
)

func main() { common.Main("C04", runC04) }

// canonical rendering of the recorded defect D11 (UIDVALIDITY generator state lives in memory only)
const canonD11 = "uidvalidity-not-greater after-restart previous-value-ahead-of-clock"

// canonical rendering of the recorded finding: a message the connector created from a literal that already carries an
// X-Pm-Gluon-Id (of another gluon instance) is stored with gluon's id in front of the foreign one; applyMessageUpdated puts
// the internal id into the update literal only when it has none, so the comparison with the literal on disk never
// succeeds and every MessageUpdated - a pure flag refresh too - gives the message a new UID
const canonForeignID = `uid-vanished-without-expunge: connector literal with a foreign gluon id [connmsgs(L6>INBOX); connupdate(INBOX:1,same-literal,(\Seen)>INBOX)]`

// foreignIDLiteral is literal 6 of the table of the scenario foreign-gluon-id only (the generated histories use 0..5).
const foreignIDLiteral = "X-Pm-Gluon-Id: 11111111-2222-3333-4444-555555555555\r\nDate: Mon, 01 Jan 2024 10:00:00 +0000\r\nFrom: a@example.com\r\nTo: b@example.com\r\nSubject: exported by another gluon\r\nMessage-Id: <foreign.id@example.com>\r\n\r\nbody\r\n"

// canonical rendering of the proposed finding: RENAME keeps the UIDVALIDITY of the renamed mailbox also when the new name
// was used before by a mailbox with a greater (or the same) value
const canonRename = "uidvalidity-not-greater name-taken-over-by-RENAME keeps-the-renamed-mailbox's-value"

type violation struct {
	Kind   string
	Detail string
	D11    bool
	Ren    bool
}

type oracle struct {
	ident    map[string]int // name|uidv|uid -> literal
	maxUID   map[string]int // name|uidv -> highest UID ever seen
	next     map[string]int // name|uidv -> last UIDNEXT
	uidvMax  map[string]int // name -> highest UIDVALIDITY ever seen for the name
	uidvCur  map[string]int // name -> current value (absent = not existing)
	restarts int
	genAt    map[string]int // name -> number of restarts when uidvMax[name] was observed
}

func newOracle() *oracle {
	return &oracle{ident: map[string]int{}, maxUID: map[string]int{}, next: map[string]int{}, uidvMax: map[string]int{},
		uidvCur: map[string]int{}, genAt: map[string]int{}}
}

// observe checks the clauses of C04 on the contents after one operation. clockBefore = seconds since the generator's
// epoch start measured before the operation was issued.
func (o *oracle) observe(op mstore.Op, ob mstore.Obs, before, after mstore.Dump, clockBefore int) []violation {
	var vs []violation
	if op.Kind == "restart" {
		o.restarts++
	}
	seen := map[string]bool{}
	for _, m := range after.Mboxes {
		seen[m.Name] = true
		nv := fmt.Sprintf("%s|%d", m.Name, m.UIDV)
		// UIDVALIDITY: a new value for the name (created, re-created, bumped) must exceed every earlier one
		if cur, ok := o.uidvCur[m.Name]; !ok || cur != m.UIDV {
			if mx, had := o.uidvMax[m.Name]; had && m.UIDV <= mx {
				v := violation{Kind: "uidvalidity-not-greater", Detail: fmt.Sprintf("mailbox %q: new UIDVALIDITY %d, earlier value %d", m.Name, m.UIDV, mx)}
				if o.genAt[m.Name] < o.restarts && mx >= clockBefore {
					v.D11 = true
				}
				if op.Kind == "rename" && op.Name != "INBOX" && ob.Class == "ok" && (m.Name == op.Name2 || strings.HasPrefix(m.Name, op.Name2+"/")) {
					v.Ren = true // the mailbox came to this name by RENAME and kept its value
				}
				vs = append(vs, v)
			}
			o.uidvCur[m.Name] = m.UIDV
		}
		if mx, had := o.uidvMax[m.Name]; !had || m.UIDV > mx {
			o.uidvMax[m.Name] = m.UIDV
			o.genAt[m.Name] = o.restarts
		}
		prevMax := o.maxUID[nv]
		if n, ok := o.next[nv]; ok && m.UIDNext < n {
			vs = append(vs, violation{Kind: "uidnext-decreased", Detail: fmt.Sprintf("%s: UIDNEXT %d after %d", nv, m.UIDNext, n)})
		}
		o.next[nv] = m.UIDNext
		if m.UIDNext <= prevMax {
			vs = append(vs, violation{Kind: "uidnext-not-above-assigned", Detail: fmt.Sprintf("%s: UIDNEXT %d, UID %d was assigned", nv, m.UIDNext, prevMax)})
		}
		last := 0
		for _, r := range m.Rows {
			k := fmt.Sprintf("%s|%d", nv, r.UID)
			if r.UID <= last {
				vs = append(vs, violation{Kind: "uids-not-ascending", Detail: fmt.Sprintf("%s: %d after %d", nv, r.UID, last)})
			}
			last = r.UID
			if l, ok := o.ident[k]; ok {
				if l != r.Lit {
					vs = append(vs, violation{Kind: "uid-reused", Detail: fmt.Sprintf("%s denoted literal %d, now %d", k, l, r.Lit)})
				}
			} else {
				if r.UID <= prevMax {
					vs = append(vs, violation{Kind: "uid-not-increasing", Detail: fmt.Sprintf("%s: new UID %d, highest earlier %d", nv, r.UID, prevMax)})
				}
				o.ident[k] = r.Lit
			}
			if r.UID > o.maxUID[nv] {
				o.maxUID[nv] = r.UID
			}
			if r.UID >= m.UIDNext {
				vs = append(vs, violation{Kind: "uidnext-not-above-uid", Detail: fmt.Sprintf("%s: UID %d, UIDNEXT %d", nv, r.UID, m.UIDNext)})
			}
		}
	}
	for n := range o.uidvCur {
		if !seen[n] {
			delete(o.uidvCur, n)
		}
	}
	vs = append(vs, stability(op, ob, before, after)...)
	// announced UIDs are the ones the messages are found under
	if ob.Class == "ok" {
		switch op.Kind {
		case "append":
			m := after.Get(op.Name)
			if len(ob.Pairs) != 1 || m == nil {
				vs = append(vs, violation{Kind: "appenduid-missing", Detail: ob.Text})
				break
			}
			if m.UIDV != ob.UIDV {
				vs = append(vs, violation{Kind: "appenduid-uidvalidity", Detail: fmt.Sprintf("announced %d, mailbox has %d", ob.UIDV, m.UIDV)})
			}
			found := false
			for _, r := range m.Rows {
				if r.UID == ob.Pairs[0][1] {
					found = r.Lit == op.Lit
				}
			}
			if !found {
				vs = append(vs, violation{Kind: "appenduid-not-actual", Detail: fmt.Sprintf("APPENDUID %d: literal %d not found under it in %q", ob.Pairs[0][1], op.Lit, op.Name)})
			}
		case "copy", "move":
			src, dst := before.Get(op.Name), after.Get(op.Name2)
			if src == nil || dst == nil {
				break
			}
			if ob.SetLens[0] != ob.SetLens[1] {
				vs = append(vs, violation{Kind: "copyuid-sets-differ-in-length", Detail: fmt.Sprintf("%s: %d source UIDs, %d destination UIDs (%s)", op, ob.SetLens[0], ob.SetLens[1], ob.Text)})
			}
			if len(ob.Pairs) > 0 && dst.UIDV != ob.UIDV {
				vs = append(vs, violation{Kind: "copyuid-uidvalidity", Detail: fmt.Sprintf("announced %d, mailbox has %d", ob.UIDV, dst.UIDV)})
			}
			for _, p := range ob.Pairs {
				sl, dl := -2, -3
				for _, r := range src.Rows {
					if r.UID == p[0] {
						sl = r.Lit
					}
				}
				for _, r := range dst.Rows {
					if r.UID == p[1] {
						dl = r.Lit
					}
				}
				if sl != dl {
					vs = append(vs, violation{Kind: "copyuid-not-actual", Detail: fmt.Sprintf("COPYUID %d->%d: source literal %d, destination literal %d", p[0], p[1], sl, dl)})
				}
			}
		}
	}
	return vs
}

func hasStr(xs []string, x string) bool {
	for _, y := range xs {
		if y == x {
			return true
		}
	}
	return false
}

// stability: a UID keeps denoting its message until the message is expunged / moved away / replaced by the connector
// (or the mailbox goes); UIDNEXT grows by exactly the UIDs that were assigned; and the clauses for the connector's
// MessageUpdated: a refresh (same literal) leaves the UID table of every mailbox alone that keeps the message, adds it at
// UIDNEXT to the announced mailboxes that do not have it and removes it from the ones not announced; a replacement
// removes the old rows and puts the new literal at UIDNEXT of every announced mailbox.
func stability(op mstore.Op, ob mstore.Obs, before, after mstore.Dump) []violation {
	var vs []violation
	effReplace := op.Kind == "connupdate" && op.Replace && op.Lit != ob.OldLit
	sent := op.Kind == "connupdate" && !ob.Skipped && ob.Class == "ok"
	mayVanish := func(name string, r mstore.Row) bool {
		switch op.Kind {
		case "expunge":
			return name == op.Name && contains(op.UIDs, r.UID)
		case "move":
			return name == op.Name && contains(op.UIDs, r.UID) || name == op.Name2
		case "copy":
			return name == op.Name2 // a message already there is taken out and added again under a new UID
		case "rename", "delete":
			return true
		case "connupdate":
			return sent && r.Lit == ob.OldLit && (effReplace || !hasStr(op.Names, name))
		}
		return false
	}
	for _, b := range before.Mboxes {
		a := after.Get(b.Name)
		if a == nil || a.UIDV != b.UIDV || b.Name == mstore.RecoveryName {
			continue
		}
		nv := fmt.Sprintf("%s|%d", b.Name, b.UIDV)
		still := map[int]bool{}
		var fresh []mstore.Row
		for _, r := range a.Rows {
			still[r.UID] = true
			if r.UID >= b.UIDNext {
				fresh = append(fresh, r)
			}
		}
		gone := 0
		for _, r := range b.Rows {
			if !still[r.UID] {
				gone++
				if !mayVanish(b.Name, r) {
					vs = append(vs, violation{Kind: "uid-vanished-without-expunge", Detail: fmt.Sprintf("%s: UID %d (literal %d) is gone after %s", nv, r.UID, r.Lit, op)})
				}
			}
		}
		// UIDNEXT moves by exactly the UIDs that were assigned (a move within one mailbox assigns and removes)
		if !(op.Kind == "move" && op.Name2 == b.Name) {
			okRange := len(fresh) == a.UIDNext-b.UIDNext
			for i, r := range fresh {
				okRange = okRange && r.UID == b.UIDNext+i
			}
			if !okRange {
				vs = append(vs, violation{Kind: "uidnext-moved-without-assignment", Detail: fmt.Sprintf("%s: UIDNEXT %d -> %d, %d new UIDs after %s", nv, b.UIDNext, a.UIDNext, len(fresh), op)})
			}
		}
		if !sent {
			continue
		}
		held, announced := hasStr(ob.Holders, b.Name), hasStr(op.Names, b.Name)
		newLit := ob.OldLit
		wantFresh, wantGone := 0, 0
		switch {
		case effReplace:
			newLit = op.Lit
			if held {
				wantGone = 1
			}
			if announced {
				wantFresh = 1
			}
		case held && !announced:
			wantGone = 1
		case !held && announced:
			wantFresh = 1
		}
		what := "refresh"
		if effReplace {
			what = "replacement"
		}
		if len(fresh) != wantFresh || gone != wantGone || a.UIDNext != b.UIDNext+wantFresh {
			vs = append(vs, violation{Kind: "message-updated-" + what + "-changed-uids", Detail: fmt.Sprintf("%s (held=%v announced=%v): %d new UIDs (expected %d), %d UIDs gone (expected %d), UIDNEXT %d -> %d after %s",
				nv, held, announced, len(fresh), wantFresh, gone, wantGone, b.UIDNext, a.UIDNext, op)})
		} else if wantFresh == 1 && fresh[0].Lit != newLit {
			vs = append(vs, violation{Kind: "message-updated-" + what + "-wrong-bytes", Detail: fmt.Sprintf("%s: UID %d has literal %d, expected %d after %s", nv, fresh[0].UID, fresh[0].Lit, newLit, op)})
		}
	}
	return vs
}

type c04Case struct {
	ID    int         `json:"id"`
	Burn  int         `json:"burn"`
	Step  int         `json:"burn_step"`
	Ops   []mstore.Op `json:"ops"`
	Canon string      `json:"canonical,omitempty"`
}

var pool = []string{"a", "b", "a/x", "c", "INBOX"}

// genOp draws the next operation from the current contents.
func genOp(rng *common.Rng, d mstore.Dump, lits *mstore.Literals, nlits int, allowRestart bool) mstore.Op {
	existing := []string{}
	for _, m := range d.Mboxes {
		if m.Name != mstore.RecoveryName {
			existing = append(existing, m.Name)
		}
	}
	pick := func(xs []string) string { return xs[rng.Pick(len(xs))] }
	withMsgs := []mstore.MboxDump{}
	for _, m := range d.Mboxes {
		if len(m.Rows) > 0 && m.Name != mstore.RecoveryName {
			withMsgs = append(withMsgs, m)
		}
	}
	someUIDs := func(m mstore.MboxDump) []int {
		var u []int
		// bias: the highest UID is selected most of the time
		for i, r := range m.Rows {
			if i == len(m.Rows)-1 && rng.Chance(0.8) || rng.Chance(0.3) {
				u = append(u, r.UID)
			}
		}
		if len(u) == 0 {
			u = append(u, m.Rows[len(m.Rows)-1].UID)
		}
		// the sequence set is written in any order
		if len(u) > 1 && rng.Chance(0.5) {
			for i, j := 0, len(u)-1; i < j; i, j = i+1, j-1 {
				u[i], u[j] = u[j], u[i]
			}
			if len(u) > 2 && rng.Chance(0.5) {
				u[0], u[1] = u[1], u[0]
			}
		}
		return u
	}
	for {
		switch x := rng.Pick(109); {
		case x < 30:
			rem := "ok"
			if rng.Chance(0.12) {
				rem = "fail"
			} else if rng.Chance(0.05) {
				rem = "size"
			}
			return mstore.Op{Kind: "append", Name: pick(existing), Lit: rng.Pick(nlits), Remote: rem, Sess: rng.Pick(2)}
		case x < 42:
			if len(withMsgs) == 0 {
				continue
			}
			m := withMsgs[rng.Pick(len(withMsgs))]
			return mstore.Op{Kind: "expunge", Name: m.Name, UIDs: someUIDs(m), RemoteOK: !rng.Chance(0.1), Sess: rng.Pick(2)}
		case x < 54:
			if len(withMsgs) == 0 {
				continue
			}
			m := withMsgs[rng.Pick(len(withMsgs))]
			return mstore.Op{Kind: "copy", Name: m.Name, UIDs: someUIDs(m), Name2: pick(existing), CreateOK: true, LabelOK: !rng.Chance(0.12), Sess: rng.Pick(2)}
		case x < 64:
			if len(withMsgs) == 0 {
				continue
			}
			m := withMsgs[rng.Pick(len(withMsgs))]
			return mstore.Op{Kind: "move", Name: m.Name, UIDs: someUIDs(m), Name2: pick(existing), CreateOK: true, LabelOK: !rng.Chance(0.12), Sess: rng.Pick(2)}
		case x < 72:
			return mstore.Op{Kind: "create", Name: pick(pool[:4]), RemoteOK: !rng.Chance(0.08), Sess: rng.Pick(2)}
		case x < 75:
			// RENAME INBOX: a new mailbox under a (possibly previously used) name takes over the messages of INBOX
			if rng.Chance(0.35) {
				n := pick(existing)
				if n != "INBOX" {
					return mstore.Op{Kind: "rename", Name: n, Name2: pick(pool[:4]), RemoteOK: true, Sess: rng.Pick(2)}
				}
			}
			return mstore.Op{Kind: "rename", Name: "INBOX", Name2: pick(pool[:4]), RemoteOK: true, Sess: rng.Pick(2)}
		case x < 84:
			n := pick(existing)
			if n == "INBOX" {
				continue
			}
			return mstore.Op{Kind: "delete", Name: n, RemoteOK: !rng.Chance(0.08), Sess: rng.Pick(2)}
		case x < 90:
			var b []mstore.BatchMsg
			for i := 0; i < rng.Range(1, 3); i++ {
				ms := []string{pick(existing)}
				if rng.Chance(0.3) {
					ms = append(ms, pick(existing))
				}
				b = append(b, mstore.BatchMsg{Lit: rng.Pick(nlits), Mboxes: dedupStr(ms)})
			}
			return mstore.Op{Kind: "connmsgs", Batch: b}
		case x >= 100:
			// the connector sends MessageUpdated for a message: the same literal (flags / mailboxes changed) or a new one
			if len(withMsgs) == 0 {
				continue
			}
			m := withMsgs[rng.Pick(len(withMsgs))]
			o := mstore.Op{Kind: "connupdate", Name: m.Name, UIDs: []int{m.Rows[rng.Pick(len(m.Rows))].UID}}
			if rng.Chance(0.75) {
				o.Names = append(o.Names, m.Name)
			}
			if rng.Chance(0.5) {
				o.Names = append(o.Names, pick(existing))
			}
			if rng.Chance(0.04) {
				o.Names = append(o.Names, "nowhere")
			}
			o.Names = dedupStr(o.Names)
			if rng.Chance(0.4) {
				o.Replace, o.Lit = true, rng.Pick(nlits)
			}
			o.Flags = []string{"", `\Seen`, `\Flagged \Seen`}[rng.Pick(3)]
			return o
		case x < 93:
			return mstore.Op{Kind: "connbump"}
		case x < 96:
			return mstore.Op{Kind: "conncreate", Name: pick([]string{"d", "a/y", "e"})}
		default:
			if !allowRestart {
				continue
			}
			return mstore.Op{Kind: "restart"}
		}
	}
}

func dedupStr(xs []string) []string {
	var r []string
	for _, x := range xs {
		dup := false
		for _, y := range r {
			dup = dup || x == y
		}
		if !dup {
			r = append(r, x)
		}
	}
	return r
}

func newLits(n int) *mstore.Literals {
	l := &mstore.Literals{}
	for i := 0; i < n; i++ {
		l.Add(i, 0)
	}
	return l
}

// runOps replays a fixed history in a fresh world and returns the first violation (nil if none).
func runOps(burn, step int, ops []mstore.Op, nlits int) (*violation, error) {
	lits := newLits(nlits)
	w, err := mstore.NewWorld(mstore.Config{Burn: burn, BurnStep: step}, lits)
	if err != nil {
		return nil, err
	}
	defer w.Close()
	or := newOracle()
	var first *violation
	clock := int(time.Since(w.Epoch).Seconds())
	_, _, err = mstore.Replay(w, ops, func(i int, o mstore.Op, ob mstore.Obs, before, aft mstore.Dump) bool {
		vs := or.observe(o, ob, before, aft, clock)
		clock = int(time.Since(w.Epoch).Seconds())
		if len(vs) > 0 {
			first = &vs[0]
			return false
		}
		return true
	})
	if what, ok := mstore.AsProbe(err); ok && first == nil {
		return &violation{Kind: "mailbox-unreadable", Detail: what}, nil
	}
	return first, err
}

func runC04(ctx *common.Ctx) error {
	res := ctx.Res
	rng := ctx.Rng
	if err := newLits(6).Validate(); err != nil {
		return err
	}
	res.Rule = "wire histories of APPEND (remote ok/failing/size) / UID COPY / UID MOVE / expunge (biased to the highest UID) / CREATE / DELETE + re-CREATE / connector batches / connector MessageUpdated (same literal = refresh, other literal = replacement; any announced mailboxes) / UIDVALIDITY bump / restart on the same directories; UID, UIDNEXT, UIDVALIDITY, APPENDUID, COPYUID tracked per (name, uidvalidity, uid) -> literal; a UID disappears only by expunge / move / replacement / un-announcement, UIDNEXT moves by exactly the UIDs assigned; non-trivial = distinct histories in which a UID above an expunged highest UID, a re-created name or a restart was observed; plus direct runs of EpochUIDValidityGenerator.Generate against the model"
	const nlits = 6
	var lines []string
	id := 0
	ncases := ctx.Budget(36, 400)
	nops := 14
	if ctx.Tier == "thorough" {
		nops = 30
	}

	report := func(cs *c04Case, v violation, burn, step int) {
		if v.D11 {
			res.Fail(canonD11, v.Detail+" | history: "+mstore.OpsString(cs.Ops), cs)
			return
		}
		if v.Ren {
			res.Fail(canonRename, v.Detail+" | history: "+mstore.OpsString(cs.Ops), cs)
			return
		}
		ops := mstore.Shrink(cs.Ops, 30, func(c []mstore.Op) bool {
			v2, err := runOps(burn, step, c, nlits)
			return err == nil && v2 != nil && v2.Kind == v.Kind && !v2.D11 && !v2.Ren
		})
		canon := v.Kind + " [" + mstore.OpsString(ops) + "]"
		cs.Canon = canon
		res.Fail(canon, v.Detail, cs)
	}

	// ---- 1. the recorded scenario for the cross-restart clause, default-style epoch generator on the real clock ----
	{
		id++
		cs := &c04Case{ID: id}
		ctx.Current("restart-recreate-after-burst", cs)
		lits := newLits(nlits)
		w, err := mstore.NewWorld(mstore.Config{Burn: 0}, lits)
		if err != nil {
			return err
		}
		or := newOracle()
		var ops []mstore.Op
		for i := 0; i < 12; i++ {
			ops = append(ops, mstore.Op{Kind: "create", Name: fmt.Sprintf("box%d", i), RemoteOK: true})
		}
		ops = append(ops, mstore.Op{Kind: "append", Name: "box11", Lit: 0, Remote: "ok"},
			mstore.Op{Kind: "restart"},
			mstore.Op{Kind: "delete", Name: "box11", RemoteOK: true},
			mstore.Op{Kind: "create", Name: "box11", RemoteOK: true},
			mstore.Op{Kind: "append", Name: "box11", Lit: 1, Remote: "ok"})
		cs.Ops = ops
		clock := int(time.Since(w.Epoch).Seconds())
		_, _, err = mstore.Replay(w, ops, func(i int, o mstore.Op, ob mstore.Obs, before, aft mstore.Dump) bool {
			vs := or.observe(o, ob, before, aft, clock)
			clock = int(time.Since(w.Epoch).Seconds())
			res.Evaluations++
			for _, v := range vs {
				report(cs, v, 0, 0)
				return false
			}
			return true
		})
		w.Close()
		if what, ok := mstore.AsProbe(err); ok {
			report(cs, violation{Kind: "mailbox-unreadable", Detail: what}, 0, 0)
		} else if err != nil {
			return err
		}
		res.Nontrivial("restart-recreate-after-burst")
		res.Count("scenario:restart-recreate-after-burst")
	}

	// ---- 1b. scripted histories (minimised earlier findings), compared with the model ----
	fixed := func(name string, ops []mstore.Op) error {
		id++
		cs := &c04Case{ID: id, Burn: 20, Step: 60, Ops: ops}
		ctx.Current(name+" ["+mstore.OpsString(ops)+"]", cs)
		lits := newLits(nlits)
		w, err := mstore.NewWorld(mstore.Config{Burn: 20, BurnStep: 60}, lits)
		if err != nil {
			return err
		}
		g0 := w.G0
		or := newOracle()
		names := mstore.NewNames()
		var viol *violation
		clock := int(time.Since(w.Epoch).Seconds())
		steps, final, err := mstore.Replay(w, ops, func(i int, o mstore.Op, ob mstore.Obs, before, aft mstore.Dump) bool {
			vs := or.observe(o, ob, before, aft, clock)
			clock = int(time.Since(w.Epoch).Seconds())
			res.Evaluations++
			if ob.Class == "other" {
				vs = append(vs, violation{Kind: "unexpected-response", Detail: o.String() + ": " + ob.Text})
			}
			if len(vs) > 0 {
				viol = &vs[0]
				return false
			}
			return true
		})
		w.Close()
		if what, ok := mstore.AsProbe(err); ok {
			viol = &violation{Kind: "mailbox-unreadable", Detail: what}
		} else if err != nil {
			return fmt.Errorf("%s: %w", name, err)
		}
		if viol != nil {
			report(cs, *viol, 20, 60)
		} else {
			lines = append(lines, mstore.CoqCase(id, nil, lits, g0, names, steps, final))
		}
		res.Nontrivial(name)
		res.Count("scenario:" + name)
		return nil
	}
	ok := func(kind, name string) mstore.Op { return mstore.Op{Kind: kind, Name: name, RemoteOK: true} }
	app := func(name string, lit int) mstore.Op {
		return mstore.Op{Kind: "append", Name: name, Lit: lit, Remote: "ok"}
	}
	renInbox := func(to string) mstore.Op { return mstore.Op{Kind: "rename", Name: "INBOX", Name2: to, RemoteOK: true} }
	// RENAME INBOX onto a name that existed before, several rounds: the name must get a greater UIDVALIDITY every time
	if err := fixed("rename-inbox-onto-used-name", []mstore.Op{ok("create", "a"), app("a", 0), ok("delete", "a"), app("INBOX", 1), renInbox("a"),
		ok("delete", "a"), app("INBOX", 2), renInbox("a"), ok("delete", "a"), app("INBOX", 3), app("INBOX", 4), renInbox("a"),
		ok("delete", "a"), ok("create", "a"), app("a", 5), ok("delete", "a"), app("INBOX", 0), renInbox("a/x"), ok("delete", "a/x"), renInbox("a/x")}); err != nil {
		return err
	}
	// RENAME of another mailbox onto a name that was used before (the renamed mailbox keeps its older value: finding)
	if err := fixed("rename-onto-used-name", []mstore.Op{ok("create", "a"), ok("create", "b"), app("b", 0), ok("delete", "b"),
		{Kind: "rename", Name: "a", Name2: "b", RemoteOK: true}, app("b", 1)}); err != nil {
		return err
	}
	// sequence sets written in descending / mixed order: COPYUID must still pair source and destination UIDs
	if err := fixed("copyuid-unordered-set", []mstore.Op{ok("create", "a"), ok("create", "b"), app("a", 0), app("a", 1), app("a", 2), app("a", 3),
		{Kind: "copy", Name: "a", UIDs: []int{3, 1}, Name2: "b", CreateOK: true, LabelOK: true},
		{Kind: "copy", Name: "a", UIDs: []int{2, 4, 1}, Name2: "b", CreateOK: true, LabelOK: true},
		{Kind: "move", Name: "a", UIDs: []int{4, 2, 3}, Name2: "b", CreateOK: true, LabelOK: true},
		{Kind: "move", Name: "b", UIDs: []int{2, 1}, Name2: "b", CreateOK: true, LabelOK: true}}); err != nil {
		return err
	}
	// the connector's MessageUpdated: same literal (nothing but flags / mailboxes may change, no UID moves), a new literal
	// (a new message above every UID handed out so far), for messages gluon sent to the remote and messages the
	// connector created; the old UIDs are not handed out again afterwards
	upd := func(name string, uid int, flags string, to ...string) mstore.Op {
		return mstore.Op{Kind: "connupdate", Name: name, UIDs: []int{uid}, Flags: flags, Names: to}
	}
	repl := func(name string, uid, lit int, to ...string) mstore.Op {
		return mstore.Op{Kind: "connupdate", Name: name, UIDs: []int{uid}, Replace: true, Lit: lit, Names: to}
	}
	if err := fixed("message-updated-refresh", []mstore.Op{ok("create", "a"), app("INBOX", 0), app("INBOX", 1), app("INBOX", 2),
		upd("INBOX", 2, `\Seen`, "INBOX"), upd("INBOX", 3, "", "INBOX"), upd("INBOX", 2, `\Flagged`, "INBOX", "a"), upd("INBOX", 2, "", "INBOX", "a"),
		repl("a", 1, 1, "a", "INBOX"), app("INBOX", 3), upd("INBOX", 1, "", "a"), app("a", 4), upd("a", 2, "", "INBOX", "nowhere"), {Kind: "restart"},
		upd("a", 2, `\Seen`, "a"), app("a", 5), app("INBOX", 5)}); err != nil {
		return err
	}
	if err := fixed("message-updated-replacement", []mstore.Op{ok("create", "a"), app("INBOX", 0), app("INBOX", 1),
		{Kind: "connmsgs", Batch: []mstore.BatchMsg{{Lit: 2, Mboxes: []string{"INBOX", "a"}}}},
		repl("INBOX", 2, 3, "INBOX"), app("INBOX", 4), upd("INBOX", 3, `\Seen`, "INBOX", "a"), repl("a", 1, 5, "a"), repl("INBOX", 3, 0, "a"),
		{Kind: "expunge", Name: "INBOX", UIDs: []int{5}, RemoteOK: true}, repl("INBOX", 4, 1, "INBOX", "a"), upd("a", 3, "", "a"), {Kind: "restart"},
		repl("a", 3, 2), app("a", 2), app("INBOX", 2)}); err != nil {
		return err
	}
	// the connector creates a message whose literal already carries an X-Pm-Gluon-Id and then refreshes it (same literal,
	// \Seen): the UID must stay. Oracle only (the model has no header handling). Recorded finding: only the exact symptom -
	// the one row of INBOX reappears with the same bytes under the next UID, nothing else differs - gets the finding's
	// canonical; anything else that goes wrong here is reported under its own kind with the history.
	{
		id++
		ops := []mstore.Op{{Kind: "connmsgs", Batch: []mstore.BatchMsg{{Lit: nlits, Mboxes: []string{"INBOX"}}}},
			{Kind: "connupdate", Name: "INBOX", UIDs: []int{1}, Flags: `\Seen`, Names: []string{"INBOX"}},
			{Kind: "connupdate", Name: "INBOX", UIDs: []int{1}, Flags: "", Names: []string{"INBOX"}},
			app("INBOX", 0)}
		cs := &c04Case{ID: id, Burn: 20, Step: 60, Ops: ops}
		ctx.Current("foreign-gluon-id ["+mstore.OpsString(ops)+"]", cs)
		lits := newLits(nlits)
		lits.AddRaw(nlits, foreignIDLiteral)
		w, err := mstore.NewWorld(mstore.Config{Burn: 20, BurnStep: 60}, lits)
		if err != nil {
			return err
		}
		or := newOracle()
		clock := int(time.Since(w.Epoch).Seconds())
		sent := 0
		var viol *violation
		known := false
		_, _, err = mstore.Replay(w, ops, func(i int, o mstore.Op, ob mstore.Obs, before, aft mstore.Dump) bool {
			vs := or.observe(o, ob, before, aft, clock)
			clock = int(time.Since(w.Epoch).Seconds())
			res.Evaluations++
			if o.Kind == "connupdate" && !ob.Skipped {
				sent++
			}
			if ob.Class == "other" {
				vs = append(vs, violation{Kind: "unexpected-response", Detail: o.String() + ": " + ob.Text})
			}
			if len(vs) == 0 {
				return true
			}
			viol = &vs[0]
			b, a := before.Get("INBOX"), aft.Get("INBOX")
			exact := i == 1 && o.Kind == "connupdate" && !ob.Skipped && ob.Class == "ok" && b != nil && a != nil && len(before.Mboxes) == len(aft.Mboxes) &&
				len(b.Rows) == 1 && len(a.Rows) == 1 && b.Rows[0].UID == 1 && b.UIDNext == 2 && a.Rows[0].UID == 2 && a.UIDNext == 3 &&
				a.UIDV == b.UIDV && a.Rows[0].Lit == nlits && b.Rows[0].Lit == nlits
			for _, v := range vs {
				exact = exact && (v.Kind == "uid-vanished-without-expunge" || v.Kind == "message-updated-refresh-changed-uids")
			}
			known = exact
			return false
		})
		w.Close()
		if what, ok := mstore.AsProbe(err); ok {
			viol, known = &violation{Kind: "mailbox-unreadable", Detail: what}, false
		} else if err != nil {
			return fmt.Errorf("foreign-gluon-id: %w", err)
		}
		switch {
		case viol != nil && known:
			res.Fail(canonForeignID, viol.Detail+" | UID 1 -> UID 2, UIDNEXT 2 -> 3, same bytes", cs)
		case viol != nil:
			res.Fail(viol.Kind+" [foreign-gluon-id: "+mstore.OpsString(ops)+"]", viol.Detail, cs)
		case sent != 2:
			return fmt.Errorf("foreign-gluon-id: %d of 2 MessageUpdated were sent (the remote message of the row was not found)", sent)
		}
		res.Nontrivial("foreign-gluon-id")
		res.Count("scenario:foreign-gluon-id")
	}
	// MOVE from a snapshot that still shows a message another session has expunged meanwhile (oracle only: the model
	// has no stale snapshots): both UID sets of COPYUID must describe the messages that were moved
	{
		id++
		cs := &c04Case{ID: id}
		ctx.Current("move-from-stale-snapshot", cs)
		lits := newLits(nlits)
		w, err := mstore.NewWorld(mstore.Config{Burn: 20}, lits)
		if err != nil {
			return err
		}
		pre := []mstore.Op{ok("create", "a"), ok("create", "b"), app("a", 0), app("a", 1), app("a", 2)}
		cs.Ops = pre
		if _, _, err := mstore.Replay(w, pre, func(int, mstore.Op, mstore.Obs, mstore.Dump, mstore.Dump) bool { return true }); err != nil {
			w.Close()
			return err
		}
		before, err := w.DumpAll()
		if err != nil {
			w.Close()
			return err
		}
		a, b := w.Sess[0], w.Sess[1]
		must := func(c *imapc.Client, line string) error {
			r, err := c.Cmd(line)
			if err != nil || r.Status != "OK" {
				return fmt.Errorf("move-from-stale-snapshot: %s: %v %s", line, err, r.Text)
			}
			return nil
		}
		var serr error
		for _, st := range []struct {
			c *imapc.Client
			l string
		}{{a, "SELECT a"}, {b, "SELECT a"}, {b, `UID STORE 2 +FLAGS.SILENT (\Deleted)`}, {b, "UID EXPUNGE 2"}} {
			if serr = must(st.c, st.l); serr != nil {
				break
			}
		}
		if serr != nil {
			w.Close()
			return serr
		}
		r, err := a.Cmd("UID MOVE 1:3 b")
		if err != nil {
			w.Close()
			return err
		}
		pairs, _, lens := mstore.CopyPairs(r)
		after, derr := w.DumpAll()
		w.Close()
		res.Evaluations++
		res.Nontrivial("move-from-stale-snapshot")
		res.Count("scenario:move-from-stale-snapshot")
		canon := "copyuid-not-actual [A: SELECT a (3 messages); B: UID EXPUNGE 2 in a; A: UID MOVE 1:3 b]"
		switch {
		case derr != nil:
			res.Fail("mailbox-unreadable [move-from-stale-snapshot]", derr.Error(), cs)
		case r.Status != "OK":
			// refusing the whole command would be acceptable; nothing to check then
		case lens[0] != lens[1]:
			res.Fail(canon, fmt.Sprintf("COPYUID names %d source UIDs and %d destination UIDs: %s %v", lens[0], lens[1], r.Text, r.Untagged), cs)
		default:
			src, dst := before.Get("a"), after.Get("b")
			for _, p := range pairs {
				sl, dl := -2, -3
				for _, row := range src.Rows {
					if row.UID == p[0] {
						sl = row.Lit
					}
				}
				for _, row := range dst.Rows {
					if row.UID == p[1] {
						dl = row.Lit
					}
				}
				if sl != dl {
					res.Fail(canon, fmt.Sprintf("pair %v: source literal %d, destination literal %d", p, sl, dl), cs)
					break
				}
			}
		}
	}

	// ---- 1c. announced UIDs must be found by the LIVE sessions (oracle only: the model has no session views) ----
	nlive := ctx.Budget(12, 90)
	for ci := 0; ci < nlive; ci++ {
		id++
		sc := liveScenario{Pre: rng.Range(0, 2), Foreign: []string{"connector", "append-unselected", "copy-unselected"}[rng.Pick(3)],
			Hold: ci%3 != 2, Observer: rng.Chance(0.6), Own: rng.Range(1, 2), ForeignN: rng.Range(1, 2)}
		if rng.Chance(0.4) {
			sc.Same = []string{"move", "copy"}[rng.Pick(2)]
		}
		if ci == 0 {
			sc = liveScenario{Pre: 1, Foreign: "append-unselected", Hold: true, Observer: false, Own: 1, ForeignN: 1}
		}
		if ci == 1 {
			sc = liveScenario{Pre: 0, Foreign: "connector", Hold: true, Observer: true, Own: 1, ForeignN: 2}
		}
		if ci == 2 {
			sc = liveScenario{Pre: 2, Foreign: "connector", Hold: false, Observer: true, Own: 1, ForeignN: 1, Same: "move"}
		}
		if ci == 3 {
			sc = liveScenario{Pre: 2, Foreign: "append-unselected", Hold: false, Observer: true, Own: 1, ForeignN: 1, Same: "copy"}
		}
		cs := &c04Case{ID: id}
		ctx.Current("live "+sc.String(), cs)
		detail, err := runLive(sc, nlits)
		if err != nil {
			return fmt.Errorf("live %s: %w", sc, err)
		}
		res.Evaluations++
		res.Count("live:" + sc.Foreign)
		res.Nontrivial("live " + sc.String())
		if detail != "" {
			res.Fail("announced-uid-not-found-in-live-session ["+sc.String()+"]", detail, sc)
		}
	}

	// ---- 1d. a name created, deleted and re-created by two writers at once (gated database client; oracle only) ----
	for _, who := range []string{"client", "connector"} {
		id++
		cs := &c04Case{ID: id}
		canon := "uidvalidity-not-greater [" + who + " CREATE a parked before its write transaction; other session: CREATE a, DELETE a; the parked CREATE resumes]"
		ctx.Current(canon, cs)
		detail, err := createRace(who, nlits)
		if err != nil {
			return fmt.Errorf("create race (%s): %w", who, err)
		}
		res.Evaluations++
		res.Count("create-race:" + who)
		res.Nontrivial("create-race " + who)
		if detail != "" {
			res.Fail(canon, detail, cs)
		}
	}

	// ---- 1e. what live sessions show agrees with the UID table (sessview.go; oracle only) ----
	if err := sessionViewFamily(ctx, nlits, &id); err != nil {
		return err
	}

	// ---- 2. random histories, generator advanced beyond the clock (values deterministic; compared with the model) ----
	for ci := 0; ci < ncases; ci++ {
		id++
		burn, step := 20, 0
		if ci%2 == 0 {
			step = 60 // values generated after a restart lie above all earlier ones
		}
		cs := &c04Case{ID: id, Burn: burn, Step: step}
		lits := newLits(nlits)
		w, err := mstore.NewWorld(mstore.Config{Burn: burn, BurnStep: step}, lits)
		if err != nil {
			return err
		}
		g0 := w.G0
		or := newOracle()
		names := mstore.NewNames()
		restarts := 0
		expungedHigh, recreated := false, false
		deleted := map[string]bool{}
		var viol *violation
		clock := int(time.Since(w.Epoch).Seconds())
		steps, final, err := mstore.RunHistory(w, func(d mstore.Dump, i int) *mstore.Op {
			if i >= nops {
				return nil
			}
			o := genOp(rng, d, lits, nlits, restarts < 2)
			if i == 0 && ci%3 == 0 {
				o = mstore.Op{Kind: "create", Name: "a", RemoteOK: true}
			}
			cs.Ops = append(cs.Ops, o)
			ctx.Current(fmt.Sprintf("history burn=%d/%d [%s]", burn, step, mstore.OpsString(cs.Ops)), cs)
			return &o
		}, func(i int, o mstore.Op, ob mstore.Obs, before, aft mstore.Dump) bool {
			vs := or.observe(o, ob, before, aft, clock)
			clock = int(time.Since(w.Epoch).Seconds())
			res.Evaluations++
			res.Count("op:" + o.Kind)
			res.Count("result:" + ob.Class)
			if o.Kind == "connupdate" {
				switch {
				case ob.Skipped:
					res.Count("message-updated:not-sent")
				case o.Replace && o.Lit != ob.OldLit:
					res.Count("message-updated:replacement:" + ob.Class)
				default:
					res.Count("message-updated:refresh:" + ob.Class)
				}
			}
			if ob.Class == "other" {
				vs = append(vs, violation{Kind: "unexpected-response", Detail: o.String() + ": " + ob.Text})
			}
			if o.Kind == "restart" {
				restarts++
			}
			if o.Kind == "expunge" && ob.Class == "ok" {
				if m := before.Get(o.Name); m != nil && len(m.Rows) > 0 && contains(o.UIDs, m.Rows[len(m.Rows)-1].UID) {
					expungedHigh = true
				}
			}
			if o.Kind == "delete" && ob.Class == "ok" {
				deleted[o.Name] = true
			}
			if o.Kind == "create" && ob.Class == "ok" && deleted[o.Name] {
				recreated = true
			}
			if len(vs) > 0 {
				viol = &vs[0]
				return false
			}
			return true
		})
		w.Close()
		if what, ok := mstore.AsProbe(err); ok {
			viol = &violation{Kind: "mailbox-unreadable", Detail: what}
		} else if err != nil {
			return fmt.Errorf("case %d [%s]: %w", id, mstore.OpsString(cs.Ops), err)
		}
		if viol != nil {
			report(cs, *viol, burn, step)
		} else {
			lines = append(lines, mstore.CoqCase(id, nil, lits, g0, names, steps, final))
		}
		if expungedHigh || recreated || restarts > 0 {
			res.Nontrivial(mstore.OpsString(cs.Ops))
		}
		res.Count(fmt.Sprintf("restarts:%d", restarts))
		res.Sample(cs)
	}

	// ---- 3. the generator itself (public package imap), clock-dependent branch included ----
	var gcases []mstore.GCase
	gid := 9000
	genRun := func(ago time.Duration, n int) {
		epoch := time.Now().Add(-ago)
		g := imap.NewEpochUIDValidityGenerator(epoch)
		last := 0
		for i := 0; i < n; i++ {
			lo := int(time.Since(epoch).Seconds())
			v, err := g.Generate()
			hi := int(time.Since(epoch).Seconds())
			gid++
			obs := int(v)
			if err != nil {
				obs = -1
			}
			gcases = append(gcases, mstore.GCase{ID: gid, Last: last, Lo: lo, Hi: hi, Obs: obs})
			res.Evaluations++
			res.Count("generate")
			if err == nil {
				if obs <= last {
					res.Fail(fmt.Sprintf("generate-not-increasing last=%d got=%d", last, obs), "EpochUIDValidityGenerator.Generate returned a value not above the previous one", nil)
				}
				last = obs
			}
		}
	}
	genRun(1000*time.Second, 25)
	genRun(0, 5)
	genRun(time.Duration(4294967293)*time.Second, 6)   // reaches 0xFFFFFFFF, then must fail
	genRun(time.Duration(4294967296+5)*time.Second, 3) // interval exceeded: error
	res.Nontrivial("generator-near-u32-max")

	res.ModelCases = len(lines) + len(gcases)
	sort.SliceStable(res.Failures, func(i, j int) bool { return res.Failures[i].Canonical < res.Failures[j].Canonical })
	_ = strings.Join
	return mstore.WriteCases(ctx.Out, "Run.RunC04", lines, gcases)
}

func contains(xs []int, x int) bool {
	for _, y := range xs {
		if x == y {
			return true
		}
	}
	return false
}

// ---- live sessions ----

// liveScenario: session S has mailbox m selected (Pre messages in it). Optionally every queued state update is held
// back. A writer without a view of m adds ForeignN messages (connector batch / APPEND or COPY by a session that has not
// selected m), then S itself APPENDs Own messages (applied to its own view at once). The held updates are released.
// Every UID announced (APPENDUID / COPYUID) or assigned (connector) must then be found, with the right bytes and in
// ascending order, by S and by a second live session that has m selected (after NOOP), exactly as in a fresh view.
type liveScenario struct {
	Pre      int    `json:"pre"`
	Foreign  string `json:"foreign"`
	ForeignN int    `json:"foreign_n"`
	Own      int    `json:"own"`
	Hold     bool   `json:"hold"`
	Observer bool   `json:"observer"`
	// Same: after the appends S sends UID MOVE / UID COPY of some of m's messages onto m itself (they get new UIDs)
	Same string `json:"same,omitempty"`
}

func (sc liveScenario) String() string {
	same := ""
	if sc.Same != "" {
		same = "; S sends UID " + strings.ToUpper(sc.Same) + " of messages of m onto m"
	}
	return fmt.Sprintf("pre=%d; S selects m; hold=%v; %s adds %d; S appends %d%s; release; observer=%v", sc.Pre, sc.Hold, sc.Foreign, sc.ForeignN, sc.Own, same, sc.Observer)
}

func runLive(sc liveScenario, nlits int) (string, error) {
	verifhook.Reset()
	defer verifhook.Reset()
	lits := newLits(nlits)
	w, err := mstore.NewWorld(mstore.Config{Burn: 20}, lits)
	if err != nil {
		return "", err
	}
	defer w.Close()
	pre := []mstore.Op{{Kind: "create", Name: "m", RemoteOK: true}, {Kind: "create", Name: "o", RemoteOK: true},
		{Kind: "append", Name: "o", Lit: 5, Remote: "ok"}, {Kind: "append", Name: "o", Lit: 4, Remote: "ok"}}
	for i := 0; i < sc.Pre; i++ {
		pre = append(pre, mstore.Op{Kind: "append", Name: "m", Lit: i, Remote: "ok"})
	}
	if _, _, err := mstore.Replay(w, pre, func(int, mstore.Op, mstore.Obs, mstore.Dump, mstore.Dump) bool { return true }); err != nil {
		return "", err
	}
	S, B := w.Sess[0], w.Sess[1]
	must := func(c *imapc.Client, line string) error {
		r, err := c.Cmd(line)
		if err != nil || r.Status != "OK" {
			return fmt.Errorf("%s: %v %s", line, err, r.Text)
		}
		return nil
	}
	if err := must(S, "SELECT m"); err != nil {
		return "", err
	}
	var T *imapc.Client
	if sc.Observer {
		T, err = w.S.Login()
		if err != nil {
			return "", err
		}
		defer T.Close()
		if err := must(T, "SELECT m"); err != nil {
			return "", err
		}
	}
	if sc.Foreign == "copy-unselected" {
		if err := must(B, "SELECT o"); err != nil {
			return "", err
		}
	}
	if sc.Hold {
		verifhook.SetHold(func(int64) bool { return true })
	}
	announced := map[int]int{} // uid -> literal
	// the foreign writer
	switch sc.Foreign {
	case "connector":
		var b []mstore.BatchMsg
		for i := 0; i < sc.ForeignN; i++ {
			b = append(b, mstore.BatchMsg{Lit: 2 + i, Mboxes: []string{"m"}})
		}
		ob, err := w.Do(mstore.Op{Kind: "connmsgs", Batch: b})
		if err != nil || ob.Class != "ok" {
			return "", fmt.Errorf("connector batch: %v %s", err, ob.Text)
		}
		for i := 0; i < sc.ForeignN; i++ {
			announced[sc.Pre+1+i] = 2 + i // the only writer so far: next UIDs (checked against the fresh view below)
		}
	case "append-unselected":
		for i := 0; i < sc.ForeignN; i++ {
			r, err := B.Append("m", "", lits.Bytes[2+i])
			if err != nil || r.Status != "OK" {
				return "", fmt.Errorf("foreign append: %v %s", err, r.Text)
			}
			var v, u int
			fmt.Sscanf(afterTag(r.Text, "APPENDUID"), "%d %d", &v, &u)
			announced[u] = 2 + i
		}
	case "copy-unselected":
		set := "1"
		if sc.ForeignN > 1 {
			set = "1:2"
		}
		r, err := B.Cmd("UID COPY " + set + " m")
		if err != nil || r.Status != "OK" {
			return "", fmt.Errorf("foreign copy: %v %s", err, r.Text)
		}
		pairs, _, _ := mstore.CopyPairs(r)
		for _, p := range pairs {
			announced[p[1]] = map[int]int{1: 5, 2: 4}[p[0]]
		}
	}
	// S's own appends
	for i := 0; i < sc.Own; i++ {
		r, err := S.Append("m", "", lits.Bytes[i%2])
		if err != nil || r.Status != "OK" {
			return "", fmt.Errorf("own append: %v %s", err, r.Text)
		}
		var v, u int
		fmt.Sscanf(afterTag(r.Text, "APPENDUID"), "%d %d", &v, &u)
		announced[u] = i % 2
	}
	// S moves / copies messages of m onto m itself: the destination UIDs of COPYUID replace the old ones
	if sc.Same != "" {
		set := "1"
		if len(announced) >= 2 || sc.Pre >= 2 {
			set = "2,1"
		}
		r, err := S.Cmd("UID " + strings.ToUpper(sc.Same) + " " + set + " m")
		if err != nil || r.Status != "OK" {
			return "", fmt.Errorf("same-mailbox %s: %v %s", sc.Same, err, r.Text)
		}
		pairs, _, lens := mstore.CopyPairs(r)
		if lens[0] != lens[1] {
			return fmt.Sprintf("UID %s %s m: COPYUID sets differ in length (%s %v)", sc.Same, set, r.Text, r.Untagged), nil
		}
		for _, p := range pairs {
			if l, ok := announced[p[0]]; ok {
				announced[p[1]] = l
				delete(announced, p[0])
			} else {
				announced[p[1]] = -9 // a pre-existing message: literal checked through the fresh view
			}
		}
	}
	// deliver what was held back
	if sc.Hold {
		verifhook.SetHold(nil)
		max := verifhook.CurrentStateID()
		for sid := int64(1); sid <= max; sid++ {
			verifhook.Release(sid, 1<<30)
		}
		for sid := int64(1); sid <= max; sid++ {
			if !verifhook.WaitQuiet(sid, 30*time.Second) {
				return "", fmt.Errorf("state %d did not become quiet", sid)
			}
		}
	}
	fresh, err := w.DumpAll()
	if err != nil {
		if what, ok := mstore.AsProbe(err); ok {
			return "fresh view unreadable: " + what, nil
		}
		return "", err
	}
	fm := fresh.Get("m")
	want := map[int]int{}
	for _, r := range fm.Rows {
		want[r.UID] = r.Lit
	}
	for u, l := range announced {
		if got, ok := want[u]; !ok || (l != -9 && got != l) {
			return fmt.Sprintf("fresh view: announced UID %d (literal %d) not found (have %v)", u, l, want), nil
		}
	}
	view := func(c *imapc.Client, who string) string {
		// a few NOOPs: every delivered update is announced at the latest by the second one
		for i := 0; i < 2; i++ {
			r, err := c.Cmd("NOOP")
			if err != nil || r.Status != "OK" {
				return fmt.Sprintf("%s: NOOP answered %s %s (%v)", who, r.Status, r.Text, err)
			}
		}
		r, err := c.Cmd("UID FETCH 1:* (UID BODY.PEEK[])")
		if err != nil || r.Status != "OK" {
			return fmt.Sprintf("%s: UID FETCH 1:* answered %s %s (%v)", who, r.Status, r.Text, err)
		}
		got := map[int]int{}
		bySeq := map[int]int{}
		var seqs []int
		for _, e := range imapc.Evs(r) {
			if e.Kind != "FETCH" {
				continue
			}
			if _, dup := bySeq[e.N]; dup {
				return fmt.Sprintf("%s: sequence number %d reported twice", who, e.N)
			}
			bySeq[e.N] = e.UID
			seqs = append(seqs, e.N)
			l := -1
			if len(e.Lits) > 0 {
				l = lits.Find(e.Lits[0])
			}
			got[e.UID] = l
		}
		// the responses may come in any order; the UIDs must ascend with the sequence numbers
		sort.Ints(seqs)
		last := 0
		for _, n := range seqs {
			if bySeq[n] <= last {
				return fmt.Sprintf("%s: UIDs do not ascend with the sequence numbers (seq %d has UID %d, the one before UID %d)", who, n, bySeq[n], last)
			}
			last = bySeq[n]
		}
		for u, l := range want {
			if g, ok := got[u]; !ok || g != l {
				return fmt.Sprintf("%s: UID %d (literal %d; announced: %v) not found by the live session (it sees %v)", who, u, l, announced[u] == l, got)
			}
		}
		if len(got) != len(want) {
			return fmt.Sprintf("%s: live session sees %v, fresh view %v", who, got, want)
		}
		return ""
	}
	if d := view(S, "issuing session"); d != "" {
		return d, nil
	}
	if T != nil {
		if d := view(T, "second session with the mailbox selected"); d != "" {
			return d, nil
		}
	}
	return "", nil
}

func afterTag(text, tag string) string {
	i := strings.Index(text, tag+" ")
	if i < 0 {
		return ""
	}
	return strings.TrimRight(text[i+len(tag)+1:], "] ")
}

// createRace: writer A (a client session or the connector) creates mailbox "a" and is parked just before its write
// transaction; session B creates "a", and deletes it again; A resumes and creates "a". The name has been deleted and
// re-created: its UIDVALIDITY must be greater than the one B's mailbox had.
func createRace(who string, nlits int) (string, error) {
	gate := &mstore.Gate{}
	lits := newLits(nlits)
	w, err := mstore.NewWorld(mstore.Config{Burn: 20, DB: mstore.GateIface{Inner: gluon.VerifSQLiteClientInterface(), G: gate}}, lits)
	if err != nil {
		return "", err
	}
	defer w.Close()
	uidv := func() (int, error) {
		d, err := w.DumpAll()
		if err != nil {
			return 0, err
		}
		if m := d.Get("a"); m != nil {
			return m.UIDV, nil
		}
		return 0, nil
	}
	gate.Arm("write")
	done := make(chan error, 1)
	go func() {
		if who == "client" {
			r, err := w.Sess[0].Cmd("CREATE a")
			if err == nil && r.Status != "OK" {
				err = fmt.Errorf("parked CREATE answered %s %s", r.Status, r.Text)
			}
			done <- err
		} else {
			ob, err := w.Do(mstore.Op{Kind: "conncreate", Name: "a"})
			if err == nil && ob.Class != "ok" {
				err = fmt.Errorf("parked connector creation answered %s %s", ob.Class, ob.Text)
			}
			done <- err
		}
	}()
	select {
	case <-gate.Parked():
	case err := <-done:
		return "", fmt.Errorf("the first creation completed without reaching a write transaction: %v", err)
	case <-time.After(60 * time.Second):
		gate.Release()
		return "", fmt.Errorf("the first creation neither parked nor completed")
	}
	gate.Disarm()
	B := w.Sess[1]
	if r, err := B.Cmd("CREATE a"); err != nil || r.Status != "OK" {
		gate.Release()
		<-done
		return "", fmt.Errorf("second CREATE: %v %s", err, r.Text)
	}
	v2, err := uidv()
	if err != nil {
		gate.Release()
		<-done
		return "", err
	}
	if r, err := B.Cmd("DELETE a"); err != nil || r.Status != "OK" {
		gate.Release()
		<-done
		return "", fmt.Errorf("DELETE: %v %s", err, r.Text)
	}
	gate.Release()
	select {
	case err := <-done:
		if err != nil {
			return "", err
		}
	case <-time.After(60 * time.Second):
		return "", fmt.Errorf("the parked creation did not complete")
	}
	v1, err := uidv()
	if err != nil {
		return "", err
	}
	if v1 <= v2 {
		return fmt.Sprintf("mailbox \"a\" had UIDVALIDITY %d, was deleted, and the re-created \"a\" has %d", v2, v1), nil
	}
	return "", nil
}
