(* C12/C13 — header/body split and the multipart boundary scanner.
   Impl model of: rfc822/parser.go Split; rfc822/scanner.go NewByteScanner, ScanAll, readToBoundary,
   getPreviousLineBreakIndex, indexOfNewLineAfterBoundary (bytes.Index = first occurrence).
   Offsets are `nat` indices into the data; every Go slice expression is modelled with its bounds check
   (`SCrash` = the process would panic); loops carry fuel, `SFuel` = out of fuel (excluded by the theorems).
   No proofs in this file. *)
From Coq Require Import List NArith Bool Arith.
From Gluon Require Import Base.DecBytes.
Import ListNotations.

Definition LF : N := 10%N.
Definition CR : N := 13%N.

Definition slice (l : bytes) (a b : nat) : bytes := firstn (b - a) (skipn a l).

Fixpoint bytes_eqb (a b : bytes) : bool :=
  match a, b with
  | [], [] => true
  | x :: a', y :: b' => N.eqb x y && bytes_eqb a' b'
  | _, _ => false
  end.

(* ---------- Split ----------
   Go: repeatedly take the next line (up to and including '\n'); stop after the first line that is empty once
   '\r' and '\n' are trimmed; without a further '\n' the rest belongs to the header.
   [only_cr] = the current line consists of '\r' only so far. Result: length of the header part. *)
Fixpoint split_idx (s : bytes) (only_cr : bool) : nat :=
  match s with
  | [] => 0
  | b :: t =>
    if N.eqb b LF then (if only_cr then 1 else S (split_idx t true))
    else S (split_idx t (only_cr && N.eqb b CR))
  end.

Definition split_header (b : bytes) : bytes := firstn (split_idx b true) b.
Definition split_body (b : bytes) : bytes := skipn (split_idx b true) b.

(* ---------- bytes.Index ---------- *)
Fixpoint is_prefix (p s : bytes) : bool :=
  match p, s with
  | [], _ => true
  | x :: p', y :: s' => N.eqb x y && is_prefix p' s'
  | _ :: _, [] => false
  end.

(* first index i (relative to s) such that p is a prefix of skipn i s *)
Fixpoint index_of (p s : bytes) : option nat :=
  if is_prefix p s then Some 0
  else match s with
       | [] => None
       | _ :: t => match index_of p t with Some i => Some (S i) | None => None end
       end.

(* ---------- indexOfNewLineAfterBoundary ---------- *)
Fixpoint skip_cr (s : bytes) (i : nat) : option nat :=
  match s with
  | [] => None
  | b :: t => if N.eqb b CR then skip_cr t (S i) else if N.eqb b LF then Some i else None
  end.
(* Go special-cases len 0 (-1) and the single "\n" (0); both agree with the general loop *)
Definition newline_after (s : bytes) : option nat := skip_cr s 0.

(* ---------- getPreviousLineBreakIndex (progress = s.progress at the time of the call) ---------- *)
Definition prev_linebreak (data : bytes) (progress offset : nat) : option nat :=
  if progress =? offset then Some 0
  else if N.eqb (nth (offset - 1) data 0%N) LF
       then (if (2 <=? offset - progress) && N.eqb (nth (offset - 2) data 0%N) CR then Some 2 else Some 1)
       else None.

(* result of one readToBoundary call *)
Inductive rtb :=
| RNil (progress : nat)                                  (* (nil, false) *)
| RData (a b : nat) (more : bool) (progress : nat)       (* (data[a:b], more) *)
| RCrash | RFuel.

Definition dash : N := 45%N.

(* the loop of readToBoundary; [start] = searchStart, [sb] = "--" ++ boundary *)
Fixpoint rtb_loop (fuel : nat) (data sb : bytes) (start progress : nat) : rtb :=
  match fuel with
  | 0 => RFuel
  | S f =>
    let dataLen := length data in
    let bl := length sb in
    if dataLen <=? progress then RNil progress
    else
      let remaining := skipn progress data in
      match index_of sb remaining with
      | None => RData start dataLen false dataLen             (* return s.data[searchStart:], false  (C12-fix-3) *)
      | Some index =>
        match prev_linebreak data progress (progress + index) with
        | Some prev =>
          if (progress + index + bl + 2 <=? dataLen)
             && bytes_eqb (slice remaining (index + bl) (index + bl + 2)) [dash; dash]
          then
            let after := skipn (index + bl + 2) remaining in
            match after with
            | [] =>
              if (start <=? progress + index - prev) && (progress + index - prev <=? dataLen)
              then RData start (progress + index - prev) false (progress + index + bl + 2 + 0 + 1)
              else RCrash
            | _ :: _ =>
              match newline_after after with
              | None => rtb_loop f data sb start (progress + index + bl + 2)
              | Some nl =>
                if (start <=? progress + index - prev) && (progress + index - prev <=? dataLen)
                then RData start (progress + index - prev) false (progress + index + bl + 2 + nl + 1)
                else RCrash
              end
            end
          else
            let after := skipn (index + bl) remaining in
            match newline_after after with
            | None => rtb_loop f data sb start (progress + index + bl)
            | Some nl =>
              if (start <=? progress + index - prev) && (progress + index - prev <=? dataLen)
              then RData start (progress + index - prev) true (progress + index + bl + nl + 1)
              else RCrash
            end
        | None => rtb_loop f data sb start (progress + index + bl)
        end
      end
  end.

Definition read_to_boundary (data sb : bytes) (progress : nat) : rtb :=
  rtb_loop (S (length data)) data sb progress progress.

(* Part{Data, Offset}: Offset = progress before the call, len(Data) = b - a.  The child section is
   literal[body+Offset : body+Offset+len(Data)] (rfc822/parser.go load). *)
Inductive scan_res := SParts (l : list (nat * nat)) | SCrash | SFuel.   (* (Offset, len(Data)) *)

Fixpoint scan_all_loop (fuel : nat) (data sb : bytes) (progress : nat) : scan_res :=
  match fuel with
  | 0 => SFuel
  | S f =>
    match read_to_boundary data sb progress with
    | RFuel => SFuel
    | RCrash => SCrash
    | RNil _ => SParts []                                   (* data == nil, more == false *)
    | RData a b more progress' =>
      if more then
        match scan_all_loop f data sb progress' with
        | SParts l => SParts ((progress, b - a) :: l)
        | r => r
        end
      else SParts [(progress, b - a)]
    end
  end.

(* NewByteScanner (first readToBoundary skips the preamble, its result is dropped) followed by ScanAll *)
Definition scan_parts (data boundary : bytes) : scan_res :=
  let sb := dash :: dash :: boundary in
  match read_to_boundary data sb 0 with
  | RFuel => SFuel
  | RCrash => SCrash
  | RNil p => scan_all_loop (S (length data)) data sb p
  | RData _ _ _ p => scan_all_loop (S (length data)) data sb p
  end.
