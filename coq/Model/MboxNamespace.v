(* C14 — the mailbox namespace.  Impl model (code AFTER notes/C14-fix-1..6) of:
     internal/session   handle_create/delete/rename/sub/unsub.go (INBOX guards, name decoding)
     internal/state     state.go Create, Delete, Rename, renameInbox, Subscribe, Unsubscribe;
                        actions.go actionCreateMailbox, actionCreateAndGetMailbox, actionDeleteMailbox, actionUpdateMailbox
     internal/backend   connector_updates.go applyMailboxCreated / applyMailboxDeleted / applyMailboxUpdated
     internal/db_impl/sqlite3 write_ops.go CreateMailbox, RenameMailboxWithRemoteID, DeleteMailboxWithRemoteID,
                        SetMailboxSubscribed, AddDeletedSubscription, RemoveDeletedSubscriptionWithName
                        (table mailboxes: name UNIQUE, remote_id UNIQUE; table deleted_subscriptions: name UNIQUE)
   A write transaction that returns an error is rolled back: the state is unchanged and the command answers NO.
   Mailbox identity: m_id stands for the remote ID (and the internal ID, they are in bijection); ids are handed out in
   creation order (the harness maps them to the connector's IDs).  Assumed of the connector: a remote ID is never
   announced again after its mailbox was deleted; levels of a connector name are non-empty and free of the delimiter.
   The recovery mailbox (id 1) is assumed empty (then LIST hides it); no mailbox limits; all mailboxes Visible.
   Then: Spec — the reference hierarchy (same state, operations defined by the superior relation, RENAME as one
   simultaneous substitution).  No proofs in this file. *)
From Coq Require Import List NArith Bool.
From Gluon Require Import Model.MboxNames.
Import ListNotations.
Open Scope N_scope.

Record mrow := mkRow { m_id : N; m_name : name; m_sub : bool }.
Record nstate := mkSt { st_rows : list mrow; st_dsubs : list name; st_next : N }.

Definition INBOX_ID : N := 0.
Definition REC_ID : N := 1.
Definition ns_init : nstate :=
  mkSt [mkRow INBOX_ID INBOX true; mkRow REC_ID RECOVERY true] [] 2.

Inductive nres := ROk | RNo.

Definition names_of (rows : list mrow) : list name := map m_name rows.
Definition db_exists (rows : list mrow) (n : name) : bool := existsb (fun r => name_eqb (m_name r) n) rows.
Definition db_by_name (rows : list mrow) (n : name) : option mrow := find (fun r => name_eqb (m_name r) n) rows.
Definition db_by_id (rows : list mrow) (i : N) : option mrow := find (fun r => m_id r =? i) rows.
Definition remove_name (n : name) (l : list name) : list name := filter (fun x => negb (name_eqb x n)) l.

(* ---------- write_ops.go ---------- *)
(* CreateMailbox: INSERT (UNIQUE name), subscribed; drops a deleted subscription of that name *)
Definition db_create (st : nstate) (n : name) : option nstate :=
  if db_exists (st_rows st) n then None
  else Some (mkSt (st_rows st ++ [mkRow (st_next st) n true]) (remove_name n (st_dsubs st)) (st_next st + 1)).

(* RenameMailboxWithRemoteID: UPDATE name WHERE remote_id (UNIQUE name; error if no row was updated) *)
Definition set_name (i : N) (n : name) (r : mrow) : mrow := if m_id r =? i then mkRow (m_id r) n (m_sub r) else r.
Definition db_rename (st : nstate) (i : N) (n : name) : option nstate :=
  match db_by_id (st_rows st) i with
  | None => None
  | Some _ =>
      if existsb (fun r => name_eqb (m_name r) n && negb (m_id r =? i)) (st_rows st) then None
      else Some (mkSt (map (set_name i n) (st_rows st)) (remove_name n (st_dsubs st)) (st_next st))
  end.

(* DeleteMailboxWithRemoteID: a subscribed mailbox leaves its name in deleted_subscriptions *)
Definition add_dsub (n : name) (l : list name) : list name := if mb_contains l n then l else l ++ [n].
Definition db_delete (st : nstate) (i : N) : nstate :=
  match db_by_id (st_rows st) i with
  | None => st
  | Some r => mkSt (filter (fun x => negb (m_id x =? i)) (st_rows st))
                   (if m_sub r then add_dsub (m_name r) (st_dsubs st) else st_dsubs st) (st_next st)
  end.

Definition set_sub (i : N) (b : bool) (r : mrow) : mrow := if m_id r =? i then mkRow (m_id r) (m_name r) b else r.
Definition db_set_sub (st : nstate) (i : N) (b : bool) : nstate :=
  mkSt (map (set_sub i b) (st_rows st)) (st_dsubs st) (st_next st).

(* a list of CreateMailbox calls inside one transaction *)
Definition create_all (st : nstate) (ns : list name) : option nstate :=
  fold_left (fun acc n => match acc with Some s => db_create s n | None => None end) ns (Some st).

(* ---------- name rules shared by CREATE and the target of RENAME ---------- *)
Definition bad_new_name (d : N) (n : name) : bool :=
  mb_recovery_prefixed n || match n with [] => true | _ => false end || mb_begins d n || mb_adjacent d n.

(* ---------- session commands (raw = the name as decoded from the wire) ---------- *)
Definition impl_create (d : N) (st : nstate) (raw : name) : nstate * nres :=
  let n := canon_first d raw in
  if mb_eqfold n INBOX then (st, RNo)                       (* handleCreate: ErrCreateInbox *)
  else if bad_new_name d n then (st, RNo)
  else
    let n := if mb_ends d n then trim_right d n else n in
    if db_exists (st_rows st) n then (st, RNo)
    else
      let missing := filter (fun s => negb (db_exists (st_rows st) s)) (list_superiors d n) in
      match create_all st (missing ++ [n]) with
      | Some st' => (st', ROk)
      | None => (st, RNo)
      end.

Definition impl_delete (d : N) (st : nstate) (raw : name) : nstate * nres :=
  let n := canon_first d raw in
  if mb_eqfold n INBOX then (st, RNo)                       (* handleDelete: ErrDeleteInbox *)
  else if mb_eqfold n RECOVERY then (st, RNo)
  else match db_by_name (st_rows st) n with
       | None => (st, RNo)
       | Some r => (db_delete st (m_id r), ROk)
       end.

(* the loop over the inferiors in Rename: look the inferior up by its present name, give it its new name *)
Definition move_inferiors (o n : name) (infs : list name) (st : nstate) : option nstate :=
  fold_left (fun acc inf =>
               match acc with
               | None => None
               | Some s => match db_by_name (st_rows s) inf with
                           | None => None
                           | Some r => db_rename s (m_id r) (n ++ trim_prefix o inf)
                           end
               end) infs (Some st).

Definition impl_rename (d : N) (st : nstate) (rawo rawn : name) : nstate * nres :=
  let o := canon_first d rawo in
  let n := canon_first d rawn in
  if mb_eqfold o RECOVERY then (st, RNo)
  else if bad_new_name d n then (st, RNo)
  else
    let n := trim_suffix d n in
    match db_by_name (st_rows st) o with
    | None => (st, RNo)
    | Some mb =>
        if db_exists (st_rows st) n then (st, RNo)
        else if existsb (fun s => db_exists (st_rows st) s && name_eqb s o) (list_superiors d n) then (st, RNo)
        else
          let missing := filter (fun s => negb (db_exists (st_rows st) s)) (list_superiors d n) in
          match create_all st missing with
          | None => (st, RNo)
          | Some st1 =>
              if name_eqb o INBOX then
                (* renameInbox: a new mailbox gets the messages, INBOX and its inferiors stay *)
                match db_create st1 n with Some st2 => (st2, ROk) | None => (st, RNo) end
              else
                match db_rename st1 (m_id mb) n with
                | None => (st, RNo)
                | Some st2 =>
                    match move_inferiors o n (rename_order d o (names_of (st_rows st2))) st2 with
                    | Some st3 => (st3, ROk)
                    | None => (st, RNo)
                    end
                end
          end
    end.

Definition impl_subscribe (d : N) (st : nstate) (raw : name) : nstate * nres :=
  let n := canon_first d raw in
  match db_by_name (st_rows st) n with
  | None => (st, RNo)
  | Some r => if m_sub r then (st, RNo) else (db_set_sub st (m_id r) true, ROk)
  end.

Definition impl_unsubscribe (d : N) (st : nstate) (raw : name) : nstate * nres :=
  let n := canon_first d raw in
  match db_by_name (st_rows st) n with
  | None => if mb_contains (st_dsubs st) n
            then (mkSt (st_rows st) (remove_name n (st_dsubs st)) (st_next st), ROk)
            else (st, RNo)
  | Some r => if m_sub r then (db_set_sub st (m_id r) false, ROk) else (st, RNo)
  end.

(* ---------- connector updates (result: ROk = the update is acknowledged without error) ---------- *)
(* MailboxCreated; oid = None: an ID gluon has not seen (the usual case), Some i: an ID announced before *)
Definition impl_conn_create (d : N) (st : nstate) (oid : option N) (levels : list name) : nstate * nres :=
  match oid with
  | Some i => if i =? REC_ID then (st, RNo) else (st, ROk)       (* known remote ID: nothing happens *)
  | None => match db_create st (conn_name d levels) with
            | Some st' => (st', ROk)
            | None => (st, RNo)
            end
  end.

Definition impl_conn_delete (d : N) (st : nstate) (i : N) : nstate * nres :=
  if i =? REC_ID then (st, RNo)
  else match db_by_id (st_rows st) i with
       | None => (st, ROk)
       | Some r => let st1 := db_delete st i in
                   (mkSt (st_rows st1) (remove_name (m_name r) (st_dsubs st1)) (st_next st1), ROk)
       end.

Definition impl_conn_rename (d : N) (st : nstate) (i : N) (levels : list name) : nstate * nres :=
  if i =? REC_ID then (st, RNo)
  else match db_by_id (st_rows st) i with
       | None => (st, ROk)
       | Some r => let n := conn_name d levels in
                   if name_eqb (m_name r) n then (st, ROk)
                   else match db_rename st i n with
                        | Some st' => (st', ROk)
                        | None => (st, RNo)
                        end
       end.

(* ---------- histories ---------- *)
Inductive nop :=
| OCreate (n : name) | ODelete (n : name) | ORename (o n : name) | OSub (n : name) | OUnsub (n : name)
| OConnCreate (oid : option N) (levels : list name) | OConnDelete (i : N) | OConnRename (i : N) (levels : list name).

Definition impl_step (d : N) (st : nstate) (op : nop) : nstate * nres :=
  match op with
  | OCreate n => impl_create d st n
  | ODelete n => impl_delete d st n
  | ORename o n => impl_rename d st o n
  | OSub n => impl_subscribe d st n
  | OUnsub n => impl_unsubscribe d st n
  | OConnCreate oid l => impl_conn_create d st oid l
  | OConnDelete i => impl_conn_delete d st i
  | OConnRename i l => impl_conn_rename d st i l
  end.

Fixpoint impl_run (d : N) (st : nstate) (ops : list nop) : nstate * list nres :=
  match ops with
  | [] => (st, [])
  | op :: t => let (st1, r) := impl_step d st op in
               let (st2, rs) := impl_run d st1 t in (st2, r :: rs)
  end.

Definition is_session_op (op : nop) : bool :=
  match op with OConnCreate _ _ | OConnDelete _ | OConnRename _ _ => false | _ => true end.

(* ================= Spec: the reference hierarchy ================= *)
(* The same rows, but the operations are written with the superior relation instead of Split/Join/Sort and
   with one simultaneous substitution instead of a sequence of UPDATEs. *)

Definition spec_add (st : nstate) (ns : list name) : nstate :=
  fold_left (fun s n => mkSt (st_rows s ++ [mkRow (st_next s) n true]) (remove_name n (st_dsubs s)) (st_next s + 1)) ns st.

Definition missing_superiors (d : N) (rows : list mrow) (n : name) : list name :=
  filter (fun s => negb (db_exists rows s)) (prefixes_at d n).

(* strip at most one trailing delimiter (a valid new name has no two adjacent delimiters) *)
Definition spec_create (d : N) (st : nstate) (raw : name) : nstate * nres :=
  let n := canon_first d raw in
  if name_eqb n INBOX || bad_new_name d n then (st, RNo)
  else
    let n := trim_suffix d n in
    if db_exists (st_rows st) n then (st, RNo)
    else (spec_add st (missing_superiors d (st_rows st) n ++ [n]), ROk).

Definition spec_delete (d : N) (st : nstate) (raw : name) : nstate * nres :=
  let n := canon_first d raw in
  if name_eqb n INBOX || mb_eqfold n RECOVERY then (st, RNo)
  else match db_by_name (st_rows st) n with
       | None => (st, RNo)
       | Some r => (mkSt (filter (fun x => negb (m_id x =? m_id r)) (st_rows st))
                         (if m_sub r then add_dsub n (st_dsubs st) else st_dsubs st) (st_next st), ROk)
       end.

(* the new name of a mailbox under RENAME o -> n: o itself and every inferior o<d>rest *)
Definition spec_moved (d : N) (o n x : name) : name :=
  if name_eqb x o then n
  else if is_superior_b d o x then n ++ skipn (length o) x
  else x.
Definition spec_move_row (d : N) (o n : name) (r : mrow) : mrow :=
  mkRow (m_id r) (spec_moved d o n (m_name r)) (m_sub r).
Definition is_moved (d : N) (o x : name) : bool := name_eqb x o || is_superior_b d o x.

Fixpoint nodup_names (l : list name) : bool :=
  match l with [] => true | x :: t => negb (mb_contains t x) && nodup_names t end.

Definition spec_rename (d : N) (st : nstate) (rawo rawn : name) : nstate * nres :=
  let o := canon_first d rawo in
  let n := canon_first d rawn in
  if mb_eqfold o RECOVERY || bad_new_name d n then (st, RNo)
  else
    let n := trim_suffix d n in
    if negb (db_exists (st_rows st) o) || db_exists (st_rows st) n || is_superior_b d o n then (st, RNo)
    else
      let st1 := spec_add st (missing_superiors d (st_rows st) n) in
      if name_eqb o INBOX then (spec_add st1 [n], ROk)
      else
        let rows := map (spec_move_row d o n) (st_rows st1) in
        if nodup_names (names_of rows)
        then (mkSt rows
                   (filter (fun x => negb (mb_contains (map (spec_moved d o n)
                                                            (filter (is_moved d o) (names_of (st_rows st1)))) x))
                           (st_dsubs st1))
                   (st_next st1), ROk)
        else (st, RNo).

Definition spec_step (d : N) (st : nstate) (op : nop) : nstate * nres :=
  match op with
  | OCreate n => spec_create d st n
  | ODelete n => spec_delete d st n
  | ORename o n => spec_rename d st o n
  | op => impl_step d st op        (* SUBSCRIBE, UNSUBSCRIBE and the connector updates act on one row: no second reading *)
  end.

Fixpoint spec_run (d : N) (st : nstate) (ops : list nop) : nstate * list nres :=
  match ops with
  | [] => (st, [])
  | op :: t => let (st1, r) := spec_step d st op in
               let (st2, rs) := spec_run d st1 t in (st2, r :: rs)
  end.

(* ---------- well-formed states ---------- *)
Definition ids_of (rows : list mrow) : list N := map m_id rows.
Definition ns_wf (st : nstate) : Prop :=
  NoDup (names_of (st_rows st)) /\ NoDup (ids_of (st_rows st)) /\
  (forall r, In r (st_rows st) -> m_id r < st_next st) /\
  (forall x, In x (st_dsubs st) -> ~ In x (names_of (st_rows st))) /\
  NoDup (st_dsubs st).
