(* Lemmas for Model/UserRegistry.v. *)
From Coq Require Import List NArith Bool Lia.
From Gluon Require Import Model.UserRegistry Gen.FactsCmdClass.
Import ListNotations.
Open Scope N_scope.

Lemma unregister_in : forall u x l, In x (unregister u l) <-> In x l /\ x <> u.
Proof.
  intros u x l. unfold unregister. rewrite filter_In. split.
  - intros [H1 H2]. split; [exact H1|]. apply negb_true_iff in H2. apply N.eqb_neq. exact H2.
  - intros [H1 H2]. split; [exact H1|]. apply negb_true_iff. apply N.eqb_neq. exact H2.
Qed.

(* whether or not the removal of the files succeeds: afterwards the user is not registered, and no shut-down user is *)
Lemma remove_user_unregisters : forall files_ok u r, consistent r ->
  let r' := fst (remove_user true files_ok u r) in
  ~ In u (r_users r') /\ consistent r' /\ (forall v, v <> u -> (In v (r_users r') <-> In v (r_users r))).
Proof.
  intros files_ok u r Hc. unfold remove_user.
  destruct (existsb (N.eqb u) (r_users r)) eqn:E; cbn [fst r_users r_closed].
  - split; [|split].
    + intros Hin. apply unregister_in in Hin. tauto.
    + intros v Hv [<-|Hcl].
      * apply unregister_in in Hv. tauto.
      * apply unregister_in in Hv. destruct Hv as [Hv _]. apply (Hc v Hv Hcl).
    + intros v Hv. rewrite unregister_in. tauto.
  - split; [|split; [exact Hc|intros; tauto]].
    intros H. assert (existsb (N.eqb u) (r_users r) = true); [|congruence].
    apply existsb_exists. exists u. split; [exact H|apply N.eqb_refl].
Qed.

Lemma code_remove_user_unregisters : forall files_ok u r, consistent r ->
  let r' := fst (remove_user remove_user_unregisters_before_files files_ok u r) in
  ~ In u (r_users r') /\ consistent r' /\ (forall v, v <> u -> (In v (r_users r') <-> In v (r_users r))).
Proof. change remove_user_unregisters_before_files with true. exact remove_user_unregisters. Qed.

(* unregistering only after the files: a failing removal leaves a shut-down user registered *)
Lemma late_unregister_refuted : exists u r, consistent r /\
  let r' := fst (remove_user false false u r) in In u (r_users r') /\ In u (r_closed r').
Proof.
  exists 1, (mkR [1; 2] []). split; [intros v _ []|]. cbn. split; left; reflexivity.
Qed.
