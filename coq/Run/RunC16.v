(* Correspondence runner for C16: the harness writes the cases it ran on the real server together with
   what the server selected; `mismatches` lists the case ids on which the Impl model disagrees. *)
From Coq Require Import List NArith Bool.
From Gluon Require Export Base.ListX Model.SeqSet.
Import ListNotations.
Open Scope N_scope.

Inductive mode := MSeq | MUid.
Inductive obs := OBad | ONo | OSel (l : list N) | OOther.

Record case := mkCase { c_id : nat; c_mode : mode; c_uids : list N; c_set : wset; c_dedup : bool; c_obs : obs }.

Definition canon (c : case) (l : list N) : list N :=
  if c_dedup c then ndedup_sorted (nsort l) else nsort l.

Definition model_obs (c : case) : obs :=
  match c_mode c with
  | MSeq => match impl_seq (N.of_nat (length (c_uids c))) (c_set c) with
            | None => OBad | Some l => OSel (canon c l) end
  | MUid => match impl_uid (c_uids c) (c_set c) with
            | None => OBad | Some l => OSel (canon c l) end
  end.

Definition obs_eqb (a b : obs) : bool :=
  match a, b with
  | OBad, OBad => true | ONo, ONo => true | OOther, OOther => true
  | OSel x, OSel y => nlist_eqb x y
  | _, _ => false end.

Definition case_ok (c : case) : bool := obs_eqb (model_obs c) (c_obs c).

Definition mismatches (cs : list case) : list nat :=
  map c_id (filter (fun c => negb (case_ok c)) cs).
