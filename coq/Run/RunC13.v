(* Correspondence runner for C13: FETCH observations on the wire against the Impl model, on the same literal. *)
From Coq Require Import List NArith ZArith Bool Arith.
From Gluon Require Export Base.DecBytes Base.ListX Model.Rfc822Split Model.Rfc822Header Model.Rfc822Sections
  Model.Partial.
Import ListNotations.

Inductive case :=
(* BODY[]<o.n> of a message whose BODY[] is lit *)
| CPartial (id : nat) (lit : bytes) (o n : Z) (obs : bytes)
(* BODY[path.spec] of the message whose BODY[] is lit; ct = answers of mime.ParseMediaType; None = not OK *)
| CSection (id : nat) (lit : bytes) (ct : list (bytes * ctype)) (path : list nat) (sp : spec) (obs : option bytes)
(* appended literal, the value of the ID header, BODY[] *)
| CSplice (id : nat) (orig idval stored : bytes)
(* a literal that entered through the connector / Drafts (possibly without any header field), the ID value, BODY[] *)
| CInsert (id : nat) (orig idval stored : bytes)
(* RFC822.SIZE and the announced literal length against BODY[] *)
| CSize (id : nat) (lit : bytes) (size announced : N).

Definition case_id (c : case) : nat :=
  match c with CPartial i _ _ _ _ => i | CSection i _ _ _ _ _ => i | CSplice i _ _ _ => i | CInsert i _ _ _ => i | CSize i _ _ _ => i end.

Definition ct_lookup (ct : list (bytes * ctype)) (h : bytes) : ctype :=
  match find (fun p => bytes_eqb (fst p) h) ct with Some p => snd p | None => CtOther end.

Definition opt_bytes_eqb (a b : option bytes) : bool :=
  match a, b with
  | None, None => true
  | Some x, Some y => bytes_eqb x y
  | _, _ => false
  end.

Definition id_key : bytes := [88; 45; 80; 109; 45; 71; 108; 117; 111; 110; 45; 73; 100]%N.   (* X-Pm-Gluon-Id *)

Definition case_ok (c : case) : bool :=
  match c with
  | CPartial _ lit o n obs => opt_bytes_eqb (with_partial lit o n) (Some obs)
  | CSection _ lit ct path sp obs => opt_bytes_eqb (fetch_section (ct_lookup ct) lit path sp) obs
  | CSplice _ orig idval stored =>
    opt_bytes_eqb (set_header_value orig id_key idval) (Some stored)
    && opt_bytes_eqb (erase_header_value stored id_key) (Some orig)
  | CInsert _ orig idval stored => opt_bytes_eqb (set_header_value orig id_key idval) (Some stored)
  | CSize _ lit size announced => N.eqb (N.of_nat (length lit)) size && N.eqb size announced
  end.

Definition mismatches (cs : list case) : list nat :=
  map case_id (filter (fun c => negb (case_ok c)) cs).
