(* Lemmas about popResponders / flush used by C05 (and C01, C02). *)
From Coq Require Import List NArith Bool Lia.
From Gluon Require Import Model.Responders.
Import ListNotations.
Open Scope N_scope.

(* ---------- pop_go, permit = true ---------- *)
Lemma pop_go_true skip readd rs : pop_go true skip readd rs = (rs, []).
Proof. induction rs as [|r t IH]; cbn [pop_go]; [reflexivity|]. rewrite IH. reflexivity. Qed.

(* one step of pop_go false, as a case analysis that the lemmas below share *)
Inductive pop_step (r : responder) (skip readd : list msgid) : list msgid -> list msgid -> bool -> Prop :=
| ps_expunge m : r = RExpunge m -> pop_step r skip readd (m :: skip) readd false
| ps_exists_held m u f tg og : r = RExists m u f tg og -> existsb (N.eqb m) skip || nonempty readd = true ->
    pop_step r skip readd (filter (fun x => negb (x =? m)) skip) (m :: readd) false
| ps_exists_pop m u f tg og : r = RExists m u f tg og -> existsb (N.eqb m) skip || nonempty readd = false ->
    pop_step r skip readd skip readd true
| ps_fetch_held m f op au si fo : r = RFetch m f op au si fo -> existsb (N.eqb m) readd = true ->
    pop_step r skip readd skip readd false
| ps_fetch_pop m f op au si fo : r = RFetch m f op au si fo -> existsb (N.eqb m) readd = false ->
    pop_step r skip readd skip readd true.

Lemma pop_go_cons r t skip readd p q : pop_go false skip readd (r :: t) = (p, q) ->
  exists skip' readd' popped p' q',
    pop_step r skip readd skip' readd' popped /\ pop_go false skip' readd' t = (p', q') /\
    p = (if popped then r :: p' else p') /\ q = (if popped then q' else r :: q').
Proof.
  cbn [pop_go]. destruct r as [m u f tg og | m | m f op au si fo].
  - destruct (existsb (N.eqb m) skip || nonempty readd) eqn:E.
    + destruct (pop_go false _ _ t) as [p' q'] eqn:E'. intros H. injection H as <- <-.
      eexists _, _, false, p', q'. split; [eapply ps_exists_held; [reflexivity|exact E]|]. split; [exact E'|split; reflexivity].
    + destruct (pop_go false _ _ t) as [p' q'] eqn:E'. intros H. injection H as <- <-.
      eexists _, _, true, p', q'. split; [eapply ps_exists_pop; [reflexivity|exact E]|]. split; [exact E'|split; reflexivity].
  - destruct (pop_go false _ _ t) as [p' q'] eqn:E'. intros H. injection H as <- <-.
    eexists _, _, false, p', q'. split; [eapply ps_expunge; reflexivity|]. split; [exact E'|split; reflexivity].
  - destruct (existsb (N.eqb m) readd) eqn:E.
    + destruct (pop_go false _ _ t) as [p' q'] eqn:E'. intros H. injection H as <- <-.
      eexists _, _, false, p', q'. split; [eapply ps_fetch_held; [reflexivity|exact E]|]. split; [exact E'|split; reflexivity].
    + destruct (pop_go false _ _ t) as [p' q'] eqn:E'. intros H. injection H as <- <-.
      eexists _, _, true, p', q'. split; [eapply ps_fetch_pop; [reflexivity|exact E]|]. split; [exact E'|split; reflexivity].
Qed.

(* ---------- pop_go, permit = false ---------- *)
Lemma pop_go_false_no_expunge rs : forall skip readd p q, pop_go false skip readd rs = (p, q) ->
  forall r, In r p -> is_rexpunge r = false.
Proof.
  induction rs as [|r t IH]; intros skip readd p q H x Hx.
  - cbn [pop_go] in H. injection H as <- <-. destruct Hx.
  - apply pop_go_cons in H as (skip' & readd' & popped & p' & q' & Hs & E & -> & ->).
    destruct popped; [|eapply IH; eauto].
    destruct Hx as [<-|Hx]; [|eapply IH; eauto].
    inversion Hs; subst; try discriminate; reflexivity.
Qed.

Lemma pop_go_false_keeps_expunges rs : forall skip readd p q, pop_go false skip readd rs = (p, q) ->
  filter is_rexpunge q = filter is_rexpunge rs.
Proof.
  induction rs as [|r t IH]; intros skip readd p q H.
  - cbn [pop_go] in H. injection H as <- <-. reflexivity.
  - apply pop_go_cons in H as (skip' & readd' & popped & p' & q' & Hs & E & -> & ->).
    specialize (IH _ _ _ _ E). inversion Hs; subst; cbn [filter is_rexpunge]; try (f_equal; exact IH); exact IH.
Qed.

(* popped ++ remaining keeps every responder: nothing is lost, nothing invented *)
Lemma pop_go_partition permit rs : forall skip readd p q, pop_go permit skip readd rs = (p, q) ->
  forall r, In r rs <-> In r p \/ In r q.
Proof.
  destruct permit.
  - intros skip readd p q H r. rewrite pop_go_true in H. injection H as <- <-. cbn. tauto.
  - induction rs as [|x t IH]; intros skip readd p q H r.
    + cbn [pop_go] in H. injection H as <- <-. cbn. tauto.
    + apply pop_go_cons in H as (skip' & readd' & popped & p' & q' & Hs & E & -> & ->).
      specialize (IH _ _ _ _ E r). destruct popped; cbn [In]; rewrite IH; tauto.
Qed.

(* ---------- per-message order: an exists is never popped ahead of an earlier expunge of the same message ---------- *)
Definition about (m : msgid) (r : responder) : bool :=
  match r with
  | RExists m' _ _ _ _ => m' =? m
  | RExpunge m' => m' =? m
  | RFetch _ _ _ _ _ _ => false
  end.

Definition is_rexists (r : responder) : bool := match r with RExists _ _ _ _ _ => true | _ => false end.

(* alternation: in the subsequence about m an exists is followed by an expunge (or by nothing) *)
Fixpoint alt_seq (l : list responder) : Prop :=
  match l with
  | [] => True
  | x :: t => (is_rexists x = true -> match t with [] => True | y :: _ => is_rexpunge y = true end) /\ alt_seq t
  end.
Definition alt (m : msgid) (rs : list responder) : Prop := alt_seq (filter (about m) rs).

Lemma skip_filter_other (m m' : msgid) skip : m' <> m ->
  existsb (N.eqb m) (filter (fun x => negb (x =? m')) skip) = existsb (N.eqb m) skip.
Proof.
  intros Hne. induction skip as [|a t IH]; [reflexivity|]. cbn [filter].
  destruct (N.eqb_spec a m') as [->|Ha]; cbn [negb].
  - cbn [existsb]. destruct (N.eqb_spec m m'); [congruence|]. cbn. exact IH.
  - cbn [existsb]. rewrite IH. reflexivity.
Qed.

Lemma skip_filter_self (m : msgid) skip : existsb (N.eqb m) (filter (fun x => negb (x =? m)) skip) = false.
Proof.
  induction skip as [|a t IH]; [reflexivity|]. cbn [filter].
  destruct (N.eqb_spec a m) as [->|Ha]; cbn [negb]; [exact IH|].
  cbn [existsb]. destruct (N.eqb_spec m a); [congruence|]. cbn. exact IH.
Qed.

(* state S1: m is in the skip set. Everything about m stays in the remainder, provided alternation holds and,
   after the (held) exists, the next thing about m is an expunge. *)
Definition nextexp (m : msgid) (rs : list responder) : Prop :=
  match filter (about m) rs with [] => True | y :: _ => is_rexpunge y = true end.

(* two states: S1 (m in skip) and S2 (m not in skip, the last thing about m was a held exists, so the next thing about
   m must be an expunge): nothing about m is popped *)
Lemma pop_held_all_gen m rs : forall skip readd p q,
  alt m rs ->
  (existsb (N.eqb m) skip = true \/ (existsb (N.eqb m) skip = false /\ nextexp m rs)) ->
  pop_go false skip readd rs = (p, q) ->
  filter (about m) p = [] /\ filter (about m) q = filter (about m) rs.
Proof.
  unfold nextexp.
  induction rs as [|r t IH]; intros skip readd p q Halt Hst H.
    - cbn [pop_go] in H. injection H as <- <-. split; reflexivity.
    - apply pop_go_cons in H as (skip' & readd' & popped & p' & q' & Hs & E & -> & ->).
      inversion Hs as [m' Hr | m' u f tg og Hr Hin' | m' u f tg og Hr Hin' | m' f op au si fo Hr Hin' | m' f op au si fo Hr Hin']; subst.
      + (* expunge *)
        destruct (N.eqb_spec m' m) as [->|Hne].
        * unfold alt in Halt. cbn [filter about] in Halt. rewrite N.eqb_refl in Halt. cbn [alt_seq] in Halt.
          destruct Halt as [_ Halt'].
          assert (St: existsb (N.eqb m) (m :: skip) = true) by (cbn; rewrite N.eqb_refl; reflexivity).
          destruct (IH _ _ _ _ Halt' (or_introl St) E) as [A B].
          split; [exact A|]. cbn [filter about]. rewrite N.eqb_refl. f_equal. exact B.
        * assert (Halt': alt m t).
          { unfold alt in *. cbn [filter about] in Halt. destruct (N.eqb_spec m' m); [congruence|]. exact Halt. }
          assert (Hf: filter (about m) (RExpunge m' :: t) = filter (about m) t).
          { cbn [filter about]. destruct (N.eqb_spec m' m); [congruence|]. reflexivity. }
          assert (St: existsb (N.eqb m) (m' :: skip) = existsb (N.eqb m) skip).
          { cbn [existsb]. destruct (N.eqb_spec m m'); [congruence|]. reflexivity. }
          rewrite Hf in Hst |- *.
          destruct (IH _ _ _ _ Halt' (ltac:(rewrite St; exact Hst)) E) as [A B].
          split; [exact A|]. cbn [filter about]. destruct (N.eqb_spec m' m); [congruence|]. exact B.
      + (* exists, held *)
        destruct (N.eqb_spec m' m) as [->|Hne].
        * unfold alt in Halt. cbn [filter about] in Halt. rewrite N.eqb_refl in Halt. cbn [alt_seq] in Halt.
          destruct Halt as [Hnext Halt'].
          assert (St: existsb (N.eqb m) (filter (fun x => negb (x =? m)) skip) = false) by apply skip_filter_self.
          destruct (IH _ _ _ _ Halt' (or_intror (conj St (Hnext eq_refl))) E) as [A B].
          split; [exact A|]. cbn [filter about]. rewrite N.eqb_refl. f_equal. exact B.
        * assert (Halt': alt m t).
          { unfold alt in *. cbn [filter about] in Halt. destruct (N.eqb_spec m' m); [congruence|]. exact Halt. }
          assert (Hf: filter (about m) (RExists m' u f tg og :: t) = filter (about m) t).
          { cbn [filter about]. destruct (N.eqb_spec m' m); [congruence|]. reflexivity. }
          assert (St: existsb (N.eqb m) (filter (fun x => negb (x =? m')) skip) = existsb (N.eqb m) skip)
            by (apply skip_filter_other; exact Hne).
          rewrite Hf in Hst |- *.
          destruct (IH _ _ _ _ Halt' (ltac:(rewrite St; exact Hst)) E) as [A B].
          split; [exact A|]. cbn [filter about]. destruct (N.eqb_spec m' m); [congruence|]. exact B.
      + (* exists, popped *)
        destruct (N.eqb_spec m' m) as [->|Hne].
        * apply orb_false_iff in Hin' as [Hin' _]. destruct Hst as [Hin|[Hout Hexp]]; [congruence|].
          cbn [filter about] in Hexp. rewrite N.eqb_refl in Hexp. discriminate.
        * assert (Halt': alt m t).
          { unfold alt in *. cbn [filter about] in Halt. destruct (N.eqb_spec m' m); [congruence|]. exact Halt. }
          assert (Hf: filter (about m) (RExists m' u f tg og :: t) = filter (about m) t).
          { cbn [filter about]. destruct (N.eqb_spec m' m); [congruence|]. reflexivity. }
          rewrite Hf in Hst |- *.
          destruct (IH _ _ _ _ Halt' Hst E) as [A B].
          split; [|exact B]. cbn [filter about]. destruct (N.eqb_spec m' m); [congruence|]. exact A.
      + (* fetch, held *)
        destruct (IH _ _ _ _ Halt Hst E) as [A B]. split; [exact A|exact B].
      + (* fetch, popped *)
        destruct (IH _ _ _ _ Halt Hst E) as [A B]. split; [exact A|exact B].
Qed.

Lemma pop_held_all m rs : forall skip readd p q,
  existsb (N.eqb m) skip = true -> alt m rs ->
  pop_go false skip readd rs = (p, q) ->
  filter (about m) p = [] /\ filter (about m) q = filter (about m) rs.
Proof. intros skip readd p q Hin Halt H. exact (pop_held_all_gen m rs skip readd p q Halt (or_introl Hin) H). Qed.

(* From a skip set without m: what is popped about m is a prefix of the per-message sequence, and it stops at the first
   expunge of m. Hence an exists of m is never handled before an expunge of m that was queued earlier. *)
Lemma pop_prefix m rs : forall skip readd p q,
  existsb (N.eqb m) skip = false -> alt m rs ->
  pop_go false skip readd rs = (p, q) ->
  filter (about m) p ++ filter (about m) q = filter (about m) rs /\
  (forall r, In r (filter (about m) p) -> is_rexpunge r = false).
Proof.
  induction rs as [|r t IH]; intros skip readd p q Hout Halt H.
  - cbn [pop_go] in H. injection H as <- <-. split; [reflexivity|intros r []].
  - apply pop_go_cons in H as (skip' & readd' & popped & p' & q' & Hs & E & -> & ->).
    inversion Hs as [m' Hr | m' u f tg og Hr Hin' | m' u f tg og Hr Hin' | m' f op au si fo Hr Hin' | m' f op au si fo Hr Hin']; subst.
    + (* expunge *)
      destruct (N.eqb_spec m' m) as [->|Hne].
      * unfold alt in Halt. cbn [filter about] in Halt. rewrite N.eqb_refl in Halt. cbn [alt_seq] in Halt.
        destruct Halt as [_ Halt'].
        assert (St: existsb (N.eqb m) (m :: skip) = true) by (cbn; rewrite N.eqb_refl; reflexivity).
        destruct (pop_held_all m t _ _ _ _ St Halt' E) as [A B].
        cbn [filter about]. rewrite N.eqb_refl. rewrite A. cbn [app]. split; [f_equal; exact B|intros r []].
      * assert (Halt': alt m t).
        { unfold alt in *. cbn [filter about] in Halt. destruct (N.eqb_spec m' m); [congruence|]. exact Halt. }
        assert (St: existsb (N.eqb m) (m' :: skip) = false).
        { cbn [existsb]. destruct (N.eqb_spec m m'); [congruence|]. exact Hout. }
        destruct (IH _ _ _ _ St Halt' E) as [A B].
        cbn [filter about]. destruct (N.eqb_spec m' m); [congruence|]. split; [exact A|exact B].
    + (* exists, held (its expunge is held, or an earlier exists is) *)
      destruct (N.eqb_spec m' m) as [->|Hne].
      * (* about m, although m is not in skip: an earlier exists is held. From here on nothing about m is popped *)
        unfold alt in Halt. cbn [filter about] in Halt. rewrite N.eqb_refl in Halt. cbn [alt_seq] in Halt.
        destruct Halt as [Hnext Halt'].
        assert (St: existsb (N.eqb m) (filter (fun x => negb (x =? m)) skip) = false) by apply skip_filter_self.
        destruct (pop_held_all_gen m t _ _ _ _ Halt' (or_intror (conj St (Hnext eq_refl))) E) as [A B].
        cbn [filter about]. rewrite N.eqb_refl. rewrite A. cbn [app]. split; [f_equal; exact B|intros r []].
      * assert (Halt': alt m t).
        { unfold alt in *. cbn [filter about] in Halt. destruct (N.eqb_spec m' m); [congruence|]. exact Halt. }
        assert (St: existsb (N.eqb m) (filter (fun x => negb (x =? m')) skip) = false)
          by (rewrite skip_filter_other by exact Hne; exact Hout).
        destruct (IH _ _ _ _ St Halt' E) as [A B].
        cbn [filter about]. destruct (N.eqb_spec m' m); [congruence|]. split; [exact A|exact B].
    + (* exists, popped *)
      destruct (N.eqb_spec m' m) as [->|Hne].
      * unfold alt in Halt. cbn [filter about] in Halt. rewrite N.eqb_refl in Halt. cbn [alt_seq] in Halt.
        destruct Halt as [_ Halt'].
        destruct (IH _ _ _ _ Hout Halt' E) as [A B].
        cbn [filter about]. rewrite N.eqb_refl. split; [cbn; f_equal; exact A|].
        intros r [<-|Hr]; [reflexivity|apply B; exact Hr].
      * assert (Halt': alt m t).
        { unfold alt in *. cbn [filter about] in Halt. destruct (N.eqb_spec m' m); [congruence|]. exact Halt. }
        destruct (IH _ _ _ _ Hout Halt' E) as [A B].
        cbn [filter about]. destruct (N.eqb_spec m' m); [congruence|]. split; [exact A|exact B].
    + destruct (IH _ _ _ _ Hout Halt E) as [A B]. cbn [filter about]. split; [exact A|exact B].
    + destruct (IH _ _ _ _ Hout Halt E) as [A B]. cbn [filter about]. split; [exact A|exact B].
Qed.

(* ---------- a flag change of a re-added message waits behind the held exists ---------- *)
Definition is_fetch_of (m : msgid) (r : responder) : bool :=
  match r with RFetch m' _ _ _ _ _ => m' =? m | _ => false end.

(* once m is in readd, no flag change of m is popped *)
Lemma pop_readd_holds_fetches m rs : forall skip readd p q,
  existsb (N.eqb m) readd = true -> pop_go false skip readd rs = (p, q) ->
  forall r, In r p -> is_fetch_of m r = false.
Proof.
  induction rs as [|r t IH]; intros skip readd p q Hin H x Hx.
  - cbn [pop_go] in H. injection H as <- <-. destruct Hx.
  - apply pop_go_cons in H as (skip' & readd' & popped & p' & q' & Hs & E & -> & ->).
    assert (Hin' : existsb (N.eqb m) readd' = true).
    { inversion Hs; subst; try exact Hin. cbn [existsb]. rewrite Hin. apply orb_true_r. }
    destruct popped; [|eapply IH; eauto].
    destruct Hx as [<-|Hx]; [|eapply IH; eauto].
    inversion Hs as [m' Hr | m' u f tg og Hr Hh | m' u f tg og Hr Hh | m' f op au si fo Hr Hh | m' f op au si fo Hr Hh]; subst; try reflexivity.
    cbn [is_fetch_of]. destruct (N.eqb_spec m' m) as [->|]; [congruence|reflexivity].
Qed.

Lemma pop_readd_keeps_fetches m rs : forall skip readd p q,
  existsb (N.eqb m) readd = true -> pop_go false skip readd rs = (p, q) ->
  filter (is_fetch_of m) q = filter (is_fetch_of m) rs.
Proof.
  induction rs as [|r t IH]; intros skip readd p q Hin H.
  - cbn [pop_go] in H. injection H as <- <-. reflexivity.
  - apply pop_go_cons in H as (skip' & readd' & popped & p' & q' & Hs & E & -> & ->).
    assert (Hin' : existsb (N.eqb m) readd' = true).
    { inversion Hs; subst; try exact Hin. cbn [existsb]. rewrite Hin. apply orb_true_r. }
    specialize (IH _ _ _ _ Hin' E).
    inversion Hs as [m' Hr | m' u f tg og Hr Hh | m' u f tg og Hr Hh | m' f op au si fo Hr Hh | m' f op au si fo Hr Hh]; subst;
      cbn [filter is_fetch_of]; try exact IH.
    + destruct (m' =? m); [f_equal|]; exact IH.
    + destruct (N.eqb_spec m' m) as [->|]; [congruence|exact IH].
Qed.

(* the bookkeeping of pop_go false after a prefix of the queue *)
Fixpoint pop_state (skip readd : list msgid) (rs : list responder) : list msgid * list msgid :=
  match rs with
  | [] => (skip, readd)
  | RExpunge m :: t => pop_state (m :: skip) readd t
  | RExists m _ _ _ _ :: t =>
      if existsb (N.eqb m) skip || nonempty readd then pop_state (filter (fun x => negb (x =? m)) skip) (m :: readd) t
      else pop_state skip readd t
  | RFetch _ _ _ _ _ _ :: t => pop_state skip readd t
  end.

Lemma pop_go_app pre : forall post skip readd,
  pop_go false skip readd (pre ++ post)
  = let '(p1, q1) := pop_go false skip readd pre in
    let '(sk, rd) := pop_state skip readd pre in
    let '(p2, q2) := pop_go false sk rd post in (p1 ++ p2, q1 ++ q2).
Proof.
  induction pre as [|r t IH]; intros post skip readd.
  - cbn [app pop_go pop_state]. destruct (pop_go false skip readd post). reflexivity.
  - cbn [app pop_go pop_state]. destruct r as [m u f tg og | m | m f op au si fo].
    + destruct (existsb (N.eqb m) skip || nonempty readd); rewrite IH;
        destruct (pop_go false _ _ t) as [p1 q1]; destruct (pop_state _ _ t) as [sk rd];
        destruct (pop_go false sk rd post) as [p2 q2]; reflexivity.
    + rewrite IH. destruct (pop_go false _ _ t) as [p1 q1]; destruct (pop_state _ _ t) as [sk rd];
        destruct (pop_go false sk rd post) as [p2 q2]; reflexivity.
    + destruct (existsb (N.eqb m) readd); rewrite IH;
        destruct (pop_go false _ _ t) as [p1 q1]; destruct (pop_state _ _ t) as [sk rd];
        destruct (pop_go false sk rd post) as [p2 q2]; reflexivity.
Qed.

(* The queue pre ++ [exists of m] ++ post is popped by a flush that must not send EXPUNGE, and the exists of m is one
   that is held back (an expunge of m in pre is held and m has not been put back before: m is in the skip set after
   pre). Then nothing that changes the flags of m is popped from post: all of it stays queued, in its order, behind
   that exists. *)
Theorem held_readd_holds_later_fetches pre m u f tg og post p q :
  pop_responders false (pre ++ RExists m u f tg og :: post) = (p, q) ->
  existsb (N.eqb m) (fst (pop_state [] [] pre)) = true ->
  exists p1 q1 p2 q2,
    pop_responders false pre = (p1, q1) /\ p = p1 ++ p2 /\ q = q1 ++ RExists m u f tg og :: q2 /\
    (forall r, In r p2 -> is_fetch_of m r = false) /\
    filter (is_fetch_of m) q2 = filter (is_fetch_of m) post.
Proof.
  unfold pop_responders. rewrite pop_go_app. intros H Hin.
  destruct (pop_go false [] [] pre) as [p1 q1]. destruct (pop_state [] [] pre) as [sk rd]. cbn [fst] in Hin.
  cbn [pop_go] in H. rewrite Hin in H.
  destruct (pop_go false (filter (fun x => negb (x =? m)) sk) (m :: rd) post) as [p2 q2] eqn:E.
  injection H as <- <-. exists p1, q1, p2, q2. repeat split.
  - intros r Hr. eapply (pop_readd_holds_fetches m post); [|exact E|exact Hr]. cbn [existsb]. rewrite N.eqb_refl. reflexivity.
  - eapply (pop_readd_keeps_fetches m post); [|exact E]. cbn [existsb]. rewrite N.eqb_refl. reflexivity.
Qed.

(* ---------- EXISTS are handled in queue order (= UID order) ---------- *)
Lemma pop_nonempty_holds_exists rs : forall skip readd p q,
  nonempty readd = true -> pop_go false skip readd rs = (p, q) -> filter is_rexists p = [].
Proof.
  induction rs as [|r t IH]; intros skip readd p q Hne H.
  - cbn [pop_go] in H. injection H as <- <-. reflexivity.
  - apply pop_go_cons in H as (skip' & readd' & popped & p' & q' & Hs & E & -> & ->).
    inversion Hs as [m' Hr | m' u f tg og Hr Hh | m' u f tg og Hr Hh | m' f op au si fo Hr Hh | m' f op au si fo Hr Hh]; subst.
    + eapply IH; eauto.
    + eapply IH; [|exact E]. reflexivity.
    + rewrite Hne, orb_true_r in Hh. discriminate.
    + eapply IH; eauto.
    + cbn [filter is_rexists]. eapply IH; eauto.
Qed.

(* what a flush that must not send EXPUNGE handles of the exists responders is a prefix of them: no EXISTS overtakes an
   EXISTS that is held back, so messages are announced and inserted in the order they were queued (ascending UID) *)
Theorem pop_exists_in_order rs : forall skip readd p q,
  pop_go false skip readd rs = (p, q) ->
  filter is_rexists p ++ filter is_rexists q = filter is_rexists rs.
Proof.
  induction rs as [|r t IH]; intros skip readd p q H.
  - cbn [pop_go] in H. injection H as <- <-. reflexivity.
  - apply pop_go_cons in H as (skip' & readd' & popped & p' & q' & Hs & E & -> & ->).
    specialize (IH _ _ _ _ E).
    inversion Hs as [m' Hr | m' u f tg og Hr Hh | m' u f tg og Hr Hh | m' f op au si fo Hr Hh | m' f op au si fo Hr Hh]; subst;
      cbn [filter is_rexists]; try exact IH.
    + assert (Hn : nonempty (m' :: readd) = true) by reflexivity.
      rewrite (pop_nonempty_holds_exists t _ _ _ _ Hn E) in IH |- *. cbn [app] in *. f_equal. exact IH.
    + cbn [app]. f_equal. exact IH.
Qed.

(* the policy before the repair let the flag change overtake both: witness *)
Lemma old_policy_fetch_overtakes :
  pop_go_old [] [RExpunge 1; RExists 1 3 [] false false; RFetch 1 [5] FAdd false false false]
  = ([RFetch 1 [5] FAdd false false false], [RExpunge 1; RExists 1 3 [] false false]).
Proof. reflexivity. Qed.

(* ---------- handle / run_responders never invent an EXPUNGE ---------- *)
Lemma handle_expunge_only_from_rexpunge r s s' out :
  handle r s = Some (s', out) -> forall x, In x out -> is_pexpunge x = true -> is_rexpunge r = true.
Proof.
  intros H x Hx Hp. destruct r as [m u f tg og | m | m f op au si fo]; [|reflexivity|]; exfalso; cbn [handle] in H.
  - destruct (snap_has m s); [injection H as <- <-; destruct Hx|].
    destruct (if og then _ else _) as [s1|]; [|discriminate]. injection H as <- <-.
    destruct Hx as [<-|Hx]; [discriminate|]. destruct (0 <? snap_recent_count s1); [|destruct Hx].
    destruct Hx as [<-|[]]. discriminate.
  - destruct (snap_seq_of m s 1); [|injection H as <- <-; destruct Hx].
    destruct (_ || si); injection H as <- <-; [destruct Hx|]. destruct Hx as [<-|[]]. discriminate.
Qed.

Lemma run_responders_no_expunge rs : forall s s' out,
  (forall r, In r rs -> is_rexpunge r = false) ->
  run_responders rs s = Some (s', out) -> forall x, In x out -> is_pexpunge x = false.
Proof.
  induction rs as [|r t IH]; intros s s' out Hno H x Hx; cbn [run_responders] in H.
  - injection H as <- <-. destruct Hx.
  - destruct (handle r s) as [[s1 o1]|] eqn:Hh; [|discriminate].
    destruct (run_responders t s1) as [[s2 o2]|] eqn:Hr; [|discriminate]. injection H as <- <-.
    apply in_app_or in Hx as [Hx|Hx].
    + destruct (is_pexpunge x) eqn:E; [|reflexivity].
      pose proof (handle_expunge_only_from_rexpunge _ _ _ _ Hh x Hx E) as C.
      rewrite (Hno r (or_introl eq_refl)) in C. discriminate.
    + eapply IH; eauto. intros r' Hr'. apply Hno. right. exact Hr'.
Qed.

(* ---------- Merge never invents an EXPUNGE (and keeps every EXPUNGE) ---------- *)
Lemma merge_with_not_expunge r x m : merge_with r x = MYes m -> is_pexpunge m = false.
Proof.
  destruct r, x; cbn; try discriminate.
  - destruct (n <? n0); [discriminate|]. intros [= <-]. reflexivity.
  - destruct (n <? n0); [discriminate|]. intros [= <-]. reflexivity.
  - destruct (k =? k0); [|discriminate]. intros [= <-]. reflexivity.
Qed.

Lemma merge_into_expunges racc : forall r l, merge_into racc r = Some (Some l) ->
  filter is_pexpunge l = filter is_pexpunge racc.
Proof.
  induction racc as [|x t IH]; intros r l H; cbn [merge_into] in H; [discriminate|].
  destruct (merge_with r x) as [| |m] eqn:E.
  - destruct (can_skip r x) eqn:Cs; [|discriminate].
    destruct (merge_into t r) as [[t'|]|] eqn:E2; try discriminate. injection H as <-.
    cbn [filter]. rewrite (IH _ _ E2). reflexivity.
  - discriminate.
  - injection H as <-. cbn [filter]. rewrite (merge_with_not_expunge _ _ _ E).
    assert (is_pexpunge x = false) as ->; [|reflexivity].
    destruct r, x; cbn in E; try discriminate; reflexivity.
Qed.

Lemma append_or_merge_expunges racc r l : append_or_merge racc r = Some l ->
  filter is_pexpunge l = (if is_pexpunge r then [r] else []) ++ filter is_pexpunge racc.
Proof.
  unfold append_or_merge. destruct (mergeable r) eqn:Mg.
  - assert (is_pexpunge r = false) as -> by (destruct r; cbn in *; congruence).
    destruct (merge_into racc r) as [[l'|]|] eqn:E; intros H; try discriminate.
    + injection H as <-. cbn [app]. eapply merge_into_expunges; eauto.
    + injection H as <-. cbn [filter app]. destruct r; cbn in *; try reflexivity; congruence.
  - intros [= <-]. destruct r; cbn in Mg; try discriminate. reflexivity.
Qed.

Lemma merge_fold_expunges rs : forall racc l, merge_fold racc rs = Some l ->
  filter is_pexpunge l = rev (filter is_pexpunge rs) ++ filter is_pexpunge racc.
Proof.
  induction rs as [|r t IH]; intros racc l H; cbn [merge_fold] in H.
  - injection H as <-. reflexivity.
  - destruct (append_or_merge racc r) as [a|] eqn:E; [|discriminate].
    rewrite (IH _ _ H). rewrite (append_or_merge_expunges _ _ _ E).
    cbn [filter]. destruct (is_pexpunge r); cbn [rev app]; [rewrite <- app_assoc; reflexivity|reflexivity].
Qed.

Lemma filter_rev {A} (f : A -> bool) l : filter f (rev l) = rev (filter f l).
Proof. induction l as [|a t IH]; [reflexivity|]. cbn [rev filter]. rewrite filter_app, IH. cbn [filter].
  destruct (f a); cbn [rev app]; [reflexivity|]. rewrite app_nil_r. reflexivity. Qed.

Lemma merge_expunges rs rs' : merge rs = Some rs' -> filter is_pexpunge rs' = filter is_pexpunge rs.
Proof.
  unfold merge. destruct rs as [|a [|b t]]; try (intros [= <-]; reflexivity).
  destruct (merge_fold [] (a :: b :: t)) as [l|] eqn:E; [|discriminate]. intros [= <-].
  rewrite filter_rev. rewrite (merge_fold_expunges _ _ _ E). rewrite app_nil_r. apply rev_involutive.
Qed.

Lemma no_expunge_filter (l : list resp) : (forall x, In x l -> is_pexpunge x = false) <-> filter is_pexpunge l = [].
Proof.
  induction l as [|a t IH]; cbn [filter]; [split; [reflexivity|intros _ x []]|].
  split.
  - intros H. rewrite (H a (or_introl eq_refl)). apply IH. intros x Hx. apply H. right. exact Hx.
  - destruct (is_pexpunge a) eqn:E; [discriminate|]. intros H x [<-|Hx]; [exact E|]. apply IH; assumption.
Qed.

Lemma existsb_filter_nonempty {A} (f : A -> bool) l :
  existsb f l = match filter f l with [] => false | _ => true end.
Proof. induction l as [|a t IH]; [reflexivity|]. cbn [existsb filter]. destruct (f a); [reflexivity|exact IH]. Qed.

(* ---------- flush ---------- *)
Theorem flush_false_no_expunge st st' out :
  flush false st = FOk st' out -> forall x, In x out -> is_pexpunge x = false.
Proof.
  unfold flush, pop_responders. destruct (pop_go false [] [] (s_res st)) as [p q] eqn:E.
  destruct (run_responders p (s_snap st)) as [[s' o]|] eqn:R; [|discriminate].
  destruct (merge o) as [o'|] eqn:M; [|discriminate]. intros [= <- <-].
  apply no_expunge_filter. rewrite (merge_expunges _ _ M). apply no_expunge_filter.
  eapply run_responders_no_expunge; [|exact R]. eapply pop_go_false_no_expunge; eauto.
Qed.

Theorem flush_raw_false_no_expunge st st' out :
  flush_raw false st = Some (st', out) -> forall x, In x out -> is_pexpunge x = false.
Proof.
  unfold flush_raw, pop_responders. destruct (pop_go false [] [] (s_res st)) as [p q] eqn:E.
  destruct (run_responders p (s_snap st)) as [[s' o]|] eqn:R; [|discriminate]. intros [= <- <-].
  eapply run_responders_no_expunge; [|exact R]. eapply pop_go_false_no_expunge; eauto.
Qed.

Theorem flush_true_empties st st' out : flush true st = FOk st' out -> s_res st' = [].
Proof.
  unfold flush, pop_responders. rewrite pop_go_true.
  destruct (run_responders (s_res st) (s_snap st)) as [[s' o]|]; [|discriminate].
  destruct (merge o); [|discriminate]. intros [= <- _]. reflexivity.
Qed.

Theorem flush_false_expunge_issued st st' out :
  flush false st = FOk st' out -> expunge_issued st' = expunge_issued st.
Proof.
  unfold flush, pop_responders. destruct (pop_go false [] [] (s_res st)) as [p q] eqn:E.
  destruct (run_responders p (s_snap st)) as [[s' o]|]; [|discriminate].
  destruct (merge o); [|discriminate]. intros [= <- _]. unfold expunge_issued. cbn [s_res].
  pose proof (pop_go_false_keeps_expunges _ _ _ _ _ E) as K.
  rewrite !existsb_filter_nonempty, K. reflexivity.
Qed.

(* a whole script whose flushes all forbid expunges emits no EXPUNGE *)
Theorem script_no_expunge sc : forall st st' out,
  (forall x, In x sc -> snd x = false) ->
  run_script sc st = Some (st', out) -> forall x, In x out -> is_pexpunge x = false.
Proof.
  induction sc as [|[rs p] t IH]; intros st st' out Hall H x Hx; cbn [run_script] in H.
  - injection H as <- <-. destruct Hx.
  - assert (p = false) as -> by (apply (Hall (rs, p)); left; reflexivity).
    destruct (flush_raw false (push rs st)) as [[st1 o1]|] eqn:F; [|discriminate].
    destruct (run_script t st1) as [[st2 o2]|] eqn:R; [|discriminate]. injection H as <- <-.
    apply in_app_or in Hx as [Hx|Hx].
    + eapply flush_raw_false_no_expunge; eauto.
    + eapply IH; eauto. intros y Hy. apply Hall. right. exact Hy.
Qed.

(* ---------- link to the generated flush policy ---------- *)
From Coq Require Import String.
From Gluon Require Import Gen.FactsFlush Model.FlushPolicy.

(* the UID form of a command is answered by the same handler flushes as the sequence-number form (the harness sends both
   forms and the model runs one command for either) *)
Definition uid_twins : list string := ["Fetch"; "Store"; "Search"; "Copy"; "Move"].
Lemma uid_forms_flush_alike :
  map (handler_permits true) uid_twins = map (handler_permits false) uid_twins /\
  forallb (fun c => match handler_permits true c with Some _ => true | None => false end) uid_twins = true.
Proof. split; vm_compute; reflexivity. Qed.

Lemma restricted_permits_false : restricted_ok = true.
Proof. vm_compute. reflexivity. Qed.

Lemma restricted_all_false uid c ps : In c restricted_cmds -> handler_permits uid c = Some ps ->
  forall b, In b ps -> b = false.
Proof.
  intros Hin Hp b Hb. pose proof restricted_permits_false as R. unfold restricted_ok in R.
  rewrite forallb_forall in R. specialize (R c Hin).
  destruct (handler_permits false c) as [a|] eqn:Ea; [|discriminate].
  destruct (handler_permits true c) as [a'|] eqn:Eb; [|discriminate].
  apply andb_true_iff in R as [Ra Rb]. unfold all_false in *. rewrite forallb_forall in Ra, Rb.
  destruct uid.
  - rewrite Eb in Hp. injection Hp as <-. specialize (Rb b Hb). destruct b; [discriminate|reflexivity].
  - rewrite Ea in Hp. injection Hp as <-. specialize (Ra b Hb). destruct b; [discriminate|reflexivity].
Qed.

Lemma combine_snd_in {A B} (l1 : list A) (l2 : list B) x : In x (combine l1 l2) -> In (snd x) l2.
Proof. destruct x as [a b]. intros H. apply in_combine_r in H. exact H. Qed.

Theorem restricted_command_no_expunge uid c ps (pushes : list (list responder)) st st' out :
  In c restricted_cmds -> handler_permits uid c = Some ps ->
  run_script (combine pushes ps) st = Some (st', out) ->
  forall x, In x out -> is_pexpunge x = false.
Proof.
  intros Hin Hp Hr. eapply script_no_expunge; [|exact Hr].
  intros y Hy. apply (restricted_all_false uid c ps Hin Hp). apply combine_snd_in in Hy. exact Hy.
Qed.

Lemma permitting_ok_true : permitting_ok = true. Proof. vm_compute. reflexivity. Qed.
Lemma issued_ok_true : issued_ok = true. Proof. vm_compute. reflexivity. Qed.
Lemma guards_ok_true : guards_ok = true. Proof. vm_compute. reflexivity. Qed.
