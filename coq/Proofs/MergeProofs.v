(* C01: response.Merge does not change what a client reconstructs from the stream. *)
From Coq Require Import List NArith Bool Lia Arith.
From Gluon Require Import Model.Responders.
Import ListNotations.
Open Scope N_scope.

(* ---------- list utilities ---------- *)
Lemma mpad_repeat m n : mpad m n = m ++ repeat (None, None) n.
Proof.
  revert m. induction n as [|n IH]; intros m; cbn [mpad repeat]; [rewrite app_nil_r; reflexivity|].
  rewrite IH, <- app_assoc. reflexivity.
Qed.

Lemma mpad_length m n : length (mpad m n) = (length m + n)%nat.
Proof. rewrite mpad_repeat, app_length, repeat_length. reflexivity. Qed.

Lemma mpad_mpad m a b : mpad (mpad m a) b = mpad m (a + b).
Proof. rewrite !mpad_repeat, <- app_assoc, repeat_app. reflexivity. Qed.

Lemma upd_nth_app {A} (f : A -> A) j (l1 l2 : list A) : (j < length l1)%nat ->
  upd_nth j f (l1 ++ l2) = upd_nth j f l1 ++ l2.
Proof.
  revert j. induction l1 as [|a t IH]; intros j H; cbn [length] in H; [lia|].
  destruct j as [|j]; cbn [app upd_nth]; [reflexivity|]. rewrite IH by lia. reflexivity.
Qed.

Lemma upd_nth_len {A} (f : A -> A) j (l : list A) : length (upd_nth j f l) = length l.
Proof. revert j. induction l as [|a t IH]; intros [|j]; cbn [upd_nth length]; auto. Qed.

Lemma upd_nth_compose {A} (f g : A -> A) j (l : list A) :
  upd_nth j g (upd_nth j f l) = upd_nth j (fun c => g (f c)) l.
Proof. revert j. induction l as [|a t IH]; intros [|j]; cbn [upd_nth]; try reflexivity. rewrite IH. reflexivity. Qed.

Lemma upd_nth_comm {A} (f g : A -> A) i j (l : list A) : i <> j ->
  upd_nth i f (upd_nth j g l) = upd_nth j g (upd_nth i f l).
Proof.
  revert i j. induction l as [|a t IH]; intros [|i] [|j] H; cbn [upd_nth]; try reflexivity; try congruence.
  rewrite IH by congruence. reflexivity.
Qed.

Lemma upd_nth_ext {A} (f g : A -> A) j (l : list A) : (forall c, f c = g c) -> upd_nth j f l = upd_nth j g l.
Proof. intros H. revert j. induction l as [|a t IH]; intros [|j]; cbn [upd_nth]; try reflexivity; [rewrite H|rewrite IH]; reflexivity. Qed.

(* ---------- mstep, spelled out ---------- *)
Definition fcell (f : flagset) (u : option uid) : mcell -> mcell :=
  fun c => (match u with Some _ => u | None => fst c end, Some f).

Lemma mstep_exists m n : mstep m (PExists n) =
  if Nat.ltb (N.to_nat n) (length m) then None else Some (mpad m (N.to_nat n - length m)).
Proof. reflexivity. Qed.

Lemma mstep_fetch m k f u : mstep m (PFetch k f u) =
  if Nat.leb 1 (N.to_nat k) && Nat.leb (N.to_nat k) (length m)
  then Some (upd_nth (N.to_nat k - 1) (fcell f u) m) else None.
Proof. reflexivity. Qed.

Lemma mstep_length m r m' : mstep m r = Some m' -> is_pexpunge r = false -> (length m <= length m')%nat.
Proof.
  destruct r as [n|n|k|k f u]; cbn [is_pexpunge]; intros H E; try discriminate.
  - rewrite mstep_exists in H. destruct (Nat.ltb_spec (N.to_nat n) (length m)); [discriminate|].
    injection H as <-. rewrite mpad_length. lia.
  - cbn in H. injection H as <-. lia.
  - rewrite mstep_fetch in H. destruct (_ && _); [|discriminate]. injection H as <-. rewrite upd_nth_len. lia.
Qed.

(* ---------- merging two responses of the same kind ---------- *)
Lemma merge_with_sound r x x' m0 m1 :
  merge_with r x = MYes x' -> mstep m0 x = Some m1 ->
  exists m', mstep m1 r = Some m' /\ mstep m0 x' = Some m'.
Proof.
  destruct r as [n|n|k|k f u], x as [o|o|k'|k' f' u']; cbn [merge_with]; try discriminate.
  - (* exists *)
    destruct (N.ltb_spec n o); [discriminate|]. intros [= <-]. rewrite !mstep_exists.
    destruct (Nat.ltb_spec (N.to_nat o) (length m0)); [discriminate|]. intros [= <-].
    rewrite mpad_length.
    destruct (Nat.ltb_spec (N.to_nat n) (length m0 + (N.to_nat o - length m0))); [lia|].
    destruct (Nat.ltb_spec (N.to_nat n) (length m0)); [lia|].
    eexists. split; [reflexivity|]. rewrite mpad_mpad. do 2 f_equal. lia.
  - (* recent *)
    destruct (N.ltb_spec n o); [discriminate|]. intros [= <-]. cbn. intros [= <-]. eexists; split; reflexivity.
  - (* fetch *)
    destruct (N.eqb_spec k k') as [<-|]; [|discriminate]. intros [= <-]. rewrite !mstep_fetch.
    destruct (Nat.leb 1 (N.to_nat k) && Nat.leb (N.to_nat k) (length m0)) eqn:E; [|discriminate].
    intros [= <-]. rewrite upd_nth_len, E. eexists. split; [reflexivity|]. f_equal.
    rewrite upd_nth_compose. apply upd_nth_ext. intros c. unfold fcell. cbn [fst snd].
    destruct u, u'; reflexivity.
Qed.

(* ---------- a newer response may be moved in front of an older one it can skip ---------- *)
Lemma skip_commutes r x m0 m1 m0r :
  can_skip r x = true -> mstep m0 x = Some m1 -> mstep m0 r = Some m0r ->
  exists m', mstep m1 r = Some m' /\ mstep m0r x = Some m'.
Proof.
  destruct r as [n|n|k|k f u], x as [o|o|k'|k' f' u']; cbn [can_skip]; try discriminate; intros Hs Hx Hr.
  - (* exists over recent *) cbn in Hx. injection Hx as <-. exists m0r. split; [exact Hr|reflexivity].
  - (* exists over fetch *)
    rewrite mstep_fetch in Hx. destruct (Nat.leb_spec 1 (N.to_nat k')); [|discriminate].
    destruct (Nat.leb_spec (N.to_nat k') (length m0)); [|discriminate]. cbn [andb] in Hx. injection Hx as <-.
    rewrite mstep_exists in Hr |- *. rewrite upd_nth_len.
    destruct (Nat.ltb_spec (N.to_nat n) (length m0)); [discriminate|]. injection Hr as <-.
    eexists. split; [reflexivity|]. rewrite mstep_fetch, mpad_length.
    destruct (Nat.leb_spec 1 (N.to_nat k')); [|lia].
    destruct (Nat.leb_spec (N.to_nat k') (length m0 + (N.to_nat n - length m0))); [|lia]. cbn [andb]. f_equal.
    rewrite !mpad_repeat. rewrite upd_nth_app by lia. reflexivity.
  - (* recent over exists *) cbn in Hr. injection Hr as <-. exists m1. split; [reflexivity|exact Hx].
  - (* recent over fetch *) cbn in Hr. injection Hr as <-. exists m1. split; [reflexivity|exact Hx].
  - (* fetch over exists *)
    rewrite mstep_exists in Hx. destruct (Nat.ltb_spec (N.to_nat o) (length m0)); [discriminate|]. injection Hx as <-.
    rewrite mstep_fetch in Hr. destruct (Nat.leb_spec 1 (N.to_nat k)); [|discriminate].
    destruct (Nat.leb_spec (N.to_nat k) (length m0)); [|discriminate]. cbn [andb] in Hr. injection Hr as <-.
    rewrite mstep_fetch, mpad_length.
    destruct (Nat.leb_spec 1 (N.to_nat k)); [|lia].
    destruct (Nat.leb_spec (N.to_nat k) (length m0 + (N.to_nat o - length m0))); [|lia]. cbn [andb].
    eexists. split; [reflexivity|]. rewrite mstep_exists, upd_nth_len.
    destruct (Nat.ltb_spec (N.to_nat o) (length m0)); [lia|]. f_equal.
    rewrite !mpad_repeat. rewrite upd_nth_app by lia. reflexivity.
  - (* fetch over recent *) cbn in Hx. injection Hx as <-. exists m0r. split; [exact Hr|reflexivity].
  - (* fetch over fetch of another message *)
    apply negb_true_iff in Hs. apply N.eqb_neq in Hs.
    rewrite mstep_fetch in Hx, Hr.
    destruct (Nat.leb_spec 1 (N.to_nat k')); [|discriminate].
    destruct (Nat.leb_spec (N.to_nat k') (length m0)); [|discriminate]. cbn [andb] in Hx. injection Hx as <-.
    destruct (Nat.leb_spec 1 (N.to_nat k)); [|discriminate].
    destruct (Nat.leb_spec (N.to_nat k) (length m0)); [|discriminate]. cbn [andb] in Hr. injection Hr as <-.
    rewrite !mstep_fetch, !upd_nth_len.
    destruct (Nat.leb_spec 1 (N.to_nat k)); [|lia]. destruct (Nat.leb_spec (N.to_nat k) (length m0)); [|lia].
    destruct (Nat.leb_spec 1 (N.to_nat k')); [|lia]. destruct (Nat.leb_spec (N.to_nat k') (length m0)); [|lia].
    cbn [andb]. eexists. split; [reflexivity|]. f_equal. apply upd_nth_comm. lia.
Qed.

Lemma msteps_app m l1 l2 : msteps m (l1 ++ l2) = match msteps m l1 with Some m1 => msteps m1 l2 | None => None end.
Proof. revert m. induction l1 as [|a t IH]; intros m; cbn [app msteps]; [reflexivity|].
  destruct (mstep m a); [apply IH|reflexivity]. Qed.

(* merging r into the (reversed) accumulated list: r is legal at the end, and the merged list has the same effect *)
Lemma merge_into_sound racc : forall r racc' m m1,
  merge_into racc r = Some (Some racc') -> msteps m (rev racc) = Some m1 ->
  exists m', mstep m1 r = Some m' /\ msteps m (rev racc') = Some m'.
Proof.
  induction racc as [|x t IH]; intros r racc' m m1 H Hm; cbn [merge_into] in H; [discriminate|].
  cbn [rev] in Hm. rewrite msteps_app in Hm.
  destruct (msteps m (rev t)) as [m0|] eqn:Hm0; [|discriminate]. cbn [msteps] in Hm.
  destruct (mstep m0 x) as [mx|] eqn:Hx; [|discriminate]. injection Hm as <-.
  destruct (merge_with r x) as [| |x'] eqn:E.
  - destruct (can_skip r x) eqn:Cs; [|discriminate].
    destruct (merge_into t r) as [[t'|]|] eqn:E2; try discriminate. injection H as <-.
    destruct (IH r t' m m0 E2 Hm0) as (m0r & Hr0 & Ht').
    destruct (skip_commutes r x m0 mx m0r Cs Hx Hr0) as (m' & A & B).
    exists m'. split; [exact A|]. cbn [rev]. rewrite msteps_app, Ht'. cbn [msteps]. rewrite B. reflexivity.
  - discriminate.
  - injection H as <-. destruct (merge_with_sound r x x' m0 mx E Hx) as (m' & A & B).
    exists m'. split; [exact A|]. cbn [rev]. rewrite msteps_app, Hm0. cbn [msteps]. rewrite B. reflexivity.
Qed.

Lemma merge_fold_sound rs : forall racc racc' m m1 m',
  merge_fold racc rs = Some racc' -> msteps m (rev racc) = Some m1 -> msteps m1 rs = Some m' ->
  msteps m (rev racc') = Some m'.
Proof.
  induction rs as [|r t IH]; intros racc racc' m m1 m' H Hm Hrs; cbn [merge_fold] in H.
  - injection H as <-. cbn in Hrs. injection Hrs as <-. exact Hm.
  - cbn [msteps] in Hrs. destruct (mstep m1 r) as [m2|] eqn:Hr; [|discriminate].
    destruct (append_or_merge racc r) as [a|] eqn:E; [|discriminate].
    apply (IH a racc' m m2 m' H); [|exact Hrs].
    unfold append_or_merge in E.
    assert (Happ: msteps m (rev (r :: racc)) = Some m2).
    { cbn [rev]. rewrite msteps_app, Hm. cbn [msteps]. rewrite Hr. reflexivity. }
    destruct (mergeable r).
    + destruct (merge_into racc r) as [[l|]|] eqn:E2; try discriminate.
      * injection E as <-. destruct (merge_into_sound racc r l m m1 E2 Hm) as (m'' & A & B).
        rewrite Hr in A. injection A as <-. exact B.
      * injection E as <-. exact Happ.
    + injection E as <-. exact Happ.
Qed.

(* response.Merge: if the unmerged stream is legal for a client, the merged stream is legal and leaves the client's
   mirror in exactly the same state *)
Theorem merge_preserves_mirror rs rs' m m' :
  merge rs = Some rs' -> msteps m rs = Some m' -> msteps m rs' = Some m'.
Proof.
  unfold merge. destruct rs as [|a [|b t]]; try (intros [= <-]; auto).
  destruct (merge_fold [] (a :: b :: t)) as [l|] eqn:E; [|discriminate]. intros [= <-] H.
  exact (merge_fold_sound (a :: b :: t) [] l m m m' E eq_refl H).
Qed.

(* consecutive EXISTS counts of a legal stream never decrease between EXPUNGEs, so the EXISTS branch of Merge cannot
   hit its panic *)
Lemma merge_with_exists_no_panic n o m0 m1 m2 :
  mstep m0 (PExists o) = Some m1 -> (length m1 <= length m2)%nat -> mstep m2 (PExists n) <> None ->
  merge_with (PExists n) (PExists o) <> MPanic.
Proof.
  rewrite !mstep_exists. destruct (Nat.ltb_spec (N.to_nat o) (length m0)); [discriminate|]. intros [= <-].
  rewrite mpad_length. intros Hl. destruct (Nat.ltb_spec (N.to_nat n) (length m2)); [congruence|]. intros _.
  cbn [merge_with]. destruct (N.ltb_spec n o); [lia|discriminate].
Qed.
