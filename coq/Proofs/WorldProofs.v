(* C02, database and observer together (one mailbox; the three basic mutators): other parties run STORE, EXPUNGE-like
   removals and APPENDs on the mailbox the observer has selected; the emitted updates reach the observer one by one, its
   own restricted and permitting flushes fall anywhere in between; after a final NOOP its snapshot shows what a newly
   opened session sees (same_view: same messages, UIDs, order; same flags but \Recent). *)
From Coq Require Import List NArith Bool Lia Arith Permutation.
From Gluon Require Import Model.Responders Model.Session Proofs.PopProofs Proofs.MirrorProofs Proofs.MembershipProofs
  Proofs.ViewProofs Proofs.StoreViewProofs Proofs.CommuteProofs Proofs.InterleaveProofs Proofs.ObserverProofs.
Import ListNotations.
Open Scope N_scope.

(* ---------- same_view is a congruence for the plain meaning of the updates of this mailbox ---------- *)
Lemma uniq_of_ids a b : ids_of a = ids_of b -> uniq a -> uniq b.
Proof.
  revert b. induction a as [|x r IH]; intros [|y t] H Hu; cbn [ids_of map] in H; try discriminate; [exact I|].
  injection H as Hid Huid Ht. fold (ids_of r) (ids_of t) in Ht. cbn [uniq] in *. destruct Hu as [H1 H2].
  split; [|apply IH; assumption]. rewrite ids_has in *. rewrite <- Ht, <- Hid. exact H1.
Qed.

Lemma get_flags_insert_same x s : snap_has (sm_id x) s = false -> snap_get_flags (sm_id x) (snap_insert_by_uid x s) = sm_flags x.
Proof.
  induction s as [|y r IH]; cbn [snap_insert_by_uid snap_get_flags snap_has existsb]; intros H.
  - rewrite N.eqb_refl. reflexivity.
  - apply orb_false_iff in H as [A B]. destruct (sm_uid x <? sm_uid y); cbn [snap_get_flags].
    + rewrite N.eqb_refl. reflexivity.
    + unfold msgid in *. rewrite A. apply IH. exact B.
Qed.

Lemma view_add_same_view m u f a b : same_view a b -> same_view (view_add m u f a) (view_add m u f b).
Proof.
  intros [Hi Hf]. unfold view_add.
  assert (Hh : snap_has m a = snap_has m b) by (rewrite !ids_has, Hi; reflexivity).
  rewrite <- Hh. destruct (snap_has m a) eqn:Ha; [split; assumption|].
  split; [rewrite !ids_insert, Hi; reflexivity|]. intros m' g Hg.
  destruct (N.eqb_spec m' m) as [->|Hne].
  - pose proof (get_flags_insert_same (mkSmsg m u (fl_rem f [fl_recent])) a Ha) as Xa.
    assert (Hb : snap_has m b = false) by congruence.
    pose proof (get_flags_insert_same (mkSmsg m u (fl_rem f [fl_recent])) b Hb) as Xb.
    cbn [sm_id sm_flags] in Xa, Xb. rewrite Xa, Xb. reflexivity.
  - rewrite !get_flags_insert by (cbn [sm_id]; congruence). apply Hf. exact Hg.
Qed.

Lemma remove_same_view m a b : uniq a -> same_view a b -> same_view (snap_remove m a) (snap_remove m b).
Proof.
  intros Hu [Hi Hf]. split; [rewrite !ids_remove, Hi; reflexivity|]. intros m' g Hg.
  destruct (N.eqb_spec m' m) as [->|Hne].
  - rewrite !get_absent; [reflexivity| |]; apply has_remove_same; [eapply uniq_of_ids; eauto|exact Hu].
  - rewrite !get_flags_remove_other by exact Hne. apply Hf. exact Hg.
Qed.

Definition local_upd (mb : N) (u : update) : Prop :=
  match u with UFlags mb' _ _ _ => mb' = mb | URemoteFlag _ _ _ => False | _ => True end.

Lemma uniq_view_add m u f a : uniq a -> uniq (view_add m u f a).
Proof. intros H. unfold view_add. destruct (snap_has m a) eqn:E; [exact H|]. apply uniq_insert; [exact H|exact E]. Qed.

Lemma uniq_apply_parts parts : forall a, uniq a -> uniq (apply_parts parts a).
Proof. intros a H. eapply uniq_of_ids; [symmetry; apply ids_apply_parts|exact H]. Qed.

Lemma uniq_view_apply mb u a : local_upd mb u -> uniq a -> uniq (view_apply mb u a).
Proof.
  destruct u as [mb' items og | mb' m | mb' parts og si | m fl ad]; cbn [local_upd]; intros Hl Hu.
  - cbn [view_apply]. destruct (mb' =? mb); [|exact Hu]. revert a Hu. induction items as [|[[m u'] f] t IH]; intros a Hu; [exact Hu|].
    cbn [fold_left]. apply IH. apply uniq_view_add. exact Hu.
  - cbn [view_apply]. destruct (mb' =? mb); [apply uniq_remove|]; exact Hu.
  - subst mb'. rewrite view_apply_own_flags. apply uniq_apply_parts. exact Hu.
  - contradiction.
Qed.

Lemma view_apply_same_view mb u a b : local_upd mb u -> uniq a -> same_view a b ->
  same_view (view_apply mb u a) (view_apply mb u b).
Proof.
  destruct u as [mb' items og | mb' m | mb' parts og si | m fl ad]; cbn [local_upd]; intros Hl Hu Hs.
  - cbn [view_apply]. destruct (mb' =? mb); [|exact Hs]. revert a b Hu Hs.
    induction items as [|[[m u'] f] t IH]; intros a b Hu Hs; [exact Hs|]. cbn [fold_left].
    apply IH; [apply uniq_view_add; exact Hu|apply view_add_same_view; exact Hs].
  - cbn [view_apply]. destruct (mb' =? mb); [apply remove_same_view; assumption|exact Hs].
  - subst mb'. rewrite !view_apply_own_flags. apply apply_parts_same_view. exact Hs.
  - contradiction.
Qed.

Lemma uniq_fold_view_apply mb us : forall v, Forall (local_upd mb) us -> uniq v ->
  uniq (fold_left (fun v u => view_apply mb u v) us v).
Proof.
  induction us as [|u t IH]; intros v Hl Hv; [exact Hv|]. cbn [fold_left]. inversion Hl; subst.
  apply IH; [assumption|apply uniq_view_apply; assumption].
Qed.

Lemma fold_view_apply_same_view mb us : forall a b, Forall (local_upd mb) us -> uniq a -> same_view a b ->
  same_view (fold_left (fun v u => view_apply mb u v) us a) (fold_left (fun v u => view_apply mb u v) us b).
Proof.
  induction us as [|u t IH]; intros a b Hl Hu Hs; [exact Hs|]. cbn [fold_left]. inversion Hl as [|? ? H1 H2]; subst.
  apply IH; [exact H2|apply uniq_view_apply; assumption|apply view_apply_same_view; assumption].
Qed.

(* ---------- the database run ---------- *)
Inductive dbop :=
| DStore (ms : list msgid) (op : fop) (f : flagset) (og : nat) (si : bool)
| DRemove (ms : list msgid)
| DAppend (f : flagset) (og : option nat).

Definition db_step (mb : N) (w : world) (d : dbop) : world * list update :=
  match d with
  | DStore ms op f og si => (store_db w mb ms op f, [UFlags mb (store_parts w ms op f) og si])
  | DRemove ms => remove_rows w mb ms
  | DAppend f og => (append_db w mb f, [UExists mb [(w_nextid w, next_of w mb, f)] og])
  end.

(* what each step needs of the database it meets (decidable, all of them invariants of the model's worlds) *)
Definition step_ok (mb : N) (w : world) (d : dbop) : Prop :=
  (N.to_nat mb < length (w_mbox w))%nat /\ idl_nodup (rows_ids (mbox_of w mb)) /\
  match d with
  | DStore _ _ _ _ _ => flags_total_b w mb = true /\ no_shared_deleted_b w = true
  | DRemove _ => True
  | DAppend _ _ => has_entry (w_nextid w) (w_flags w) = false /\ row_has (w_nextid w) (mbox_of w mb) = false /\
                   idl_all_lt (next_of w mb) (rows_ids (mbox_of w mb))
  end.

Fixpoint db_run (mb : N) (w : world) (ds : list dbop) : world * list update :=
  match ds with
  | [] => (w, [])
  | d :: t => let '(w1, us1) := db_step mb w d in let '(w2, us2) := db_run mb w1 t in (w2, us1 ++ us2)
  end.

Fixpoint steps_ok (mb : N) (w : world) (ds : list dbop) : Prop :=
  match ds with [] => True | d :: t => step_ok mb w d /\ steps_ok mb (fst (db_step mb w d)) t end.

Lemma uniq_fresh w rows : idl_nodup (rows_ids rows) -> uniq (map (row_view w) rows).
Proof.
  induction rows as [|r t IH]; [auto|]. cbn [rows_ids map idl_nodup uniq fst]. intros [H1 H2]. split; [|apply IH; exact H2].
  rewrite has_fresh. cbn [row_view sm_id]. unfold row_has. unfold idl_has in H1. rewrite <- H1.
  clear. induction t as [|y t' IH]; [reflexivity|]. cbn [existsb rows_ids map fst]. f_equal. exact IH.
Qed.

Lemma db_step_local mb w d : Forall (local_upd mb) (snd (db_step mb w d)).
Proof.
  destruct d as [ms op f og si | ms | f og]; cbn [db_step snd].
  - repeat constructor.
  - unfold remove_rows. cbn [snd]. apply Forall_forall. intros u Hu. apply in_map_iff in Hu as (m & <- & _). exact I.
  - repeat constructor.
Qed.

Lemma db_step_matches mb w d : step_ok mb w d ->
  same_view (fresh_view (fst (db_step mb w d)) mb)
            (fold_left (fun v u => view_apply mb u v) (snd (db_step mb w d)) (fresh_view w mb)).
Proof.
  intros (Hlt & Hn & Hd). destruct d as [ms op f og si | ms | f og]; cbn [db_step fst snd].
  - destruct Hd as [H1 H2]. cbn [fold_left]. apply store_matches_update_b; assumption.
  - pose proof (remove_rows_matches_updates w mb ms Hlt Hn) as H. destruct (remove_rows w mb ms) as [w1 ups]. cbn [fst snd].
    destruct H as [_ ->]. apply same_view_refl.
  - destruct Hd as (H1 & H2 & H3). cbn [fold_left]. apply append_matches_update; assumption.
Qed.

Theorem db_run_matches mb ds : forall w, steps_ok mb w ds ->
  Forall (local_upd mb) (snd (db_run mb w ds)) /\
  same_view (fresh_view (fst (db_run mb w ds)) mb)
            (fold_left (fun v u => view_apply mb u v) (snd (db_run mb w ds)) (fresh_view w mb)).
Proof.
  induction ds as [|d t IH]; intros w Hok; cbn [db_run].
  - cbn [fst snd fold_left]. split; [constructor|apply same_view_refl].
  - cbn [steps_ok] in Hok. destruct Hok as [Hs Ht].
    pose proof (db_step_matches mb w d Hs) as Hm. pose proof (db_step_local mb w d) as Hl.
    destruct (db_step mb w d) as [w1 us1]. cbn [fst snd] in *.
    destruct (IH w1 Ht) as [Hl2 Hm2]. destruct (db_run mb w1 t) as [w2 us2]. cbn [fst snd] in *.
    split; [apply Forall_app; split; assumption|]. rewrite fold_left_app.
    eapply same_view_trans; [exact Hm2|].
    apply fold_view_apply_same_view; [exact Hl2| |exact Hm].
    destruct Hs as (_ & Hn & _).
    (* the fresh view of w1 has unique ids because it has the ids of the folded view, which is built from a unique one *)
    eapply uniq_of_ids; [symmetry; exact (proj1 Hm)|].
    apply uniq_fold_view_apply; [exact Hl|]. unfold fresh_view. apply uniq_fresh. exact Hn.
Qed.

(* ---------- database and observer ---------- *)
Section Together.
  Variable o : nat.
  Variable mb : N.

  (* ops: the deliveries of exactly the updates of the database run, in order, with flushes anywhere *)
  Theorem silent_observer_matches_database w ds oops snap0 :
    steps_ok mb w ds ->
    updates_of oops = snd (db_run mb w ds) ->
    Forall (foreign_upd o) (updates_of oops) ->
    uniq snap0 -> same_view snap0 (fresh_view w mb) ->
    wf snap0 (ofuture o mb (oops ++ [OFlush true]) snap0 []) ->
    (forall m, alt m (ofuture o mb (oops ++ [OFlush true]) snap0 [])) ->
    exists s', orun o mb (oops ++ [OFlush true]) snap0 [] = Some (s', []) /\
               same_view s' (fresh_view (fst (db_run mb w ds)) mb).
  Proof.
    intros Hok Hups Hf Hu Hs Hwf Halt.
    exists (fold_left (fun v u => view_apply mb u v) (updates_of oops) snap0).
    split; [apply observer_converges; assumption|].
    destruct (db_run_matches mb ds w Hok) as [Hl Hm]. rewrite Hups.
    eapply same_view_trans; [apply fold_view_apply_same_view; [exact Hl|exact Hu|exact Hs]|].
    apply same_view_sym. exact Hm.
  Qed.
End Together.

(* ---------- the hypotheses are satisfiable: a world produced by the model's run, four database steps, flushes in between ---------- *)
Definition ex_w0 : world :=
  fst (run (init_world 2 1) [Cmd 0 (CSelect 0); Cmd 1 (CSelect 0); Cmd 1 (CAppend 0 []); Cmd 1 (CAppend 0 [2])]).
Definition ex_ds : list dbop :=
  [DStore [1] FAdd [5] 1%nat false; DAppend [3] (Some 1%nat); DRemove [2]; DStore [1; 3] FSet [1; 4] 1%nat false].
Definition ex_oops : list oop :=
  [ODeliver (UFlags 0 [([1], [5], FAdd)] 1%nat false); OFlush false;
   ODeliver (UExists 0 [(3, 3, [3])] (Some 1%nat)); ODeliver (UExpunge 0 2); OFlush false;
   ODeliver (UFlags 0 [([1; 3], [1; 4], FSet)] 1%nat false)].

Example world_example :
  steps_ok 0 ex_w0 ex_ds /\
  updates_of ex_oops = snd (db_run 0 ex_w0 ex_ds) /\
  Forall (foreign_upd 0%nat) (updates_of ex_oops) /\
  uniq (fresh_view ex_w0 0) /\
  wf (fresh_view ex_w0 0) (ofuture 0%nat 0 (ex_oops ++ [OFlush true]) (fresh_view ex_w0 0) []) /\
  (forall m, alt m (ofuture 0%nat 0 (ex_oops ++ [OFlush true]) (fresh_view ex_w0 0) [])) /\
  orun 0%nat 0 (ex_oops ++ [OFlush true]) (fresh_view ex_w0 0) []
    = Some ([mkSmsg 1 1 [1; 4]; mkSmsg 3 3 [1; 4]], []) /\
  fresh_view (fst (db_run 0 ex_w0 ex_ds)) 0 = [mkSmsg 1 1 [4; 1]; mkSmsg 3 3 [4; 1]].
Proof.
  assert (E : ofuture 0%nat 0 (ex_oops ++ [OFlush true]) (fresh_view ex_w0 0) []
              = [RFetch 1 [5] FAdd false false false; RExists 3 3 [3] false false; RExpunge 2;
                 RFetch 1 [1; 4] FSet false false false; RFetch 3 [1; 4] FSet false false false])
    by (vm_compute; reflexivity).
  assert (F : fresh_view ex_w0 0 = [mkSmsg 1 1 []; mkSmsg 2 2 [2]]) by (vm_compute; reflexivity).
  rewrite E, F.
  split; [|split; [|split; [|split; [|split; [|split; [|split]]]]]].
  - vm_compute. repeat split; first [reflexivity | lia | discriminate | repeat constructor].
  - vm_compute. reflexivity.
  - repeat constructor; cbn; discriminate.
  - cbn. repeat split; reflexivity.
  - unfold wf, good. repeat split; cbn; try lia; try reflexivity.
    + repeat constructor; cbn; intuition discriminate.
    + repeat constructor; cbn; lia.
    + repeat constructor.
  - intros m. unfold alt. cbn [filter about]. destruct (N.eqb_spec 3 m), (N.eqb_spec 2 m); try lia; cbn; intuition (try discriminate; try reflexivity).
  - vm_compute. reflexivity.
  - vm_compute. reflexivity.
Qed.
