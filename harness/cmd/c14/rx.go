package main

// The regular-expression class of internal/state/match.go and a Go copy of the Coq matcher (Model/MboxMatch.v rmatch),
// cross-checked against Go's regexp package (the trusted engine).

import (
	"fmt"
	"regexp"
	"strings"
)

// goMatchRegex builds the expression exactly as match() does (after notes/C14-fix-1); canonFirst is canon().
func goMatchRegex(ref, pattern, del string) string {
	rx := fmt.Sprintf("(?s)^%v", regexp.QuoteMeta(canonFirst(del, ref+pattern)))
	if !strings.HasSuffix(pattern, "%") {
		rx += "$"
	}
	rx = strings.ReplaceAll(rx, `\*`, ".*")
	if del == "" { // flat namespace (notes/C14-fix-7)
		rx = strings.ReplaceAll(rx, "%", ".*")
	} else {
		rx = strings.ReplaceAll(rx, "%", fmt.Sprintf("[^%v]*", regexp.QuoteMeta(del)))
	}
	return rx
}

// goMatch: what FindAllString(name, 1) yields; ok=false when there is no match.
func goMatch(ref, pattern, del, name string) (res string, ok bool, err error) {
	defer func() {
		if r := recover(); r != nil {
			err = fmt.Errorf("regexp panic: %v", r)
		}
	}()
	re, cerr := regexp.Compile(goMatchRegex(ref, pattern, del))
	if cerr != nil {
		return "", false, cerr
	}
	if m := re.FindAllString(name, 1); len(m) > 0 {
		return m[0], true, nil
	}
	return "", false, nil
}

// ---- copy of the Coq matcher ----
type rtok struct {
	kind byte // 'l' literal, 'a' .*, 'n' [^d]*
	b    byte
}

func compilePattern(p string) []rtok {
	out := make([]rtok, 0, len(p))
	for i := 0; i < len(p); i++ {
		switch p[i] {
		case '*':
			out = append(out, rtok{kind: 'a'})
		case '%':
			out = append(out, rtok{kind: 'n'})
		default:
			out = append(out, rtok{kind: 'l', b: p[i]})
		}
	}
	return out
}

// rmatch returns the length of the matched prefix or -1; steps bounds the work (exponential only on adversarial input)
func rmatch(anch bool, d byte, r []rtok, s string, steps *int) int {
	*steps++
	if len(r) == 0 {
		if anch && len(s) != 0 {
			return -1
		}
		return 0
	}
	switch r[0].kind {
	case 'l':
		if len(s) > 0 && s[0] == r[0].b {
			if k := rmatch(anch, d, r[1:], s[1:], steps); k >= 0 {
				return k + 1
			}
		}
		return -1
	default:
		return rstar(r[0].kind == 'a', anch, d, r[1:], s, steps)
	}
}

func rstar(any bool, anch bool, d byte, rest []rtok, s string, steps *int) int {
	if len(s) > 0 && (any || s[0] != d) {
		if k := rstar(any, anch, d, rest, s[1:], steps); k >= 0 {
			return k + 1
		}
	}
	return rmatch(anch, d, rest, s, steps)
}

func modelMatch(ref, pattern, del, name string) (string, bool) {
	steps := 0
	k := rmatch(!strings.HasSuffix(pattern, "%"), delimByte(del), compilePattern(canonFirst(del, ref+pattern)), name, &steps)
	if k < 0 {
		return "", false
	}
	return name[:k], true
}
