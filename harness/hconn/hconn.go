// Package hconn is a scriptable connector.Connector for the verification harness.
// It keeps a small remote state, never echoes updates on its own, logs every call and
// can fail calls according to a schedule set by the harness.
package hconn

import (
	"context"
	"errors"
	"fmt"
	"sort"
	"strings"
	"sync"
	"time"

	"github.com/ProtonMail/gluon/connector"
	"github.com/ProtonMail/gluon/imap"
)

var ErrScheduled = errors.New("hconn: scheduled failure")

type Msg struct {
	Literal []byte
	Flags   imap.FlagSet
	Date    time.Time
	Mboxes  map[imap.MailboxID]bool
}

type Call struct {
	Op   string
	Args []string
	Err  string
}

type Conn struct {
	mu        sync.Mutex
	users     []string
	pass      []byte
	Mailboxes map[imap.MailboxID][]string
	Messages  map[imap.MessageID]*Msg
	nextMbox  int
	nextMsg   int
	Calls     []Call
	// FailNext: op name -> list of errors to return for the next calls of that op (nil entry = succeed).
	FailNext map[string][]error
	// FailAlways: op name -> error returned on every call.
	FailAlways map[string]error
	updateCh   chan imap.Update
	Flags      imap.FlagSet
	PermFlags  imap.FlagSet
	Attrs      imap.FlagSet
	Visibility map[imap.MailboxID]imap.MailboxVisibility
	closed     bool
	IDPrefix   string
	cache      connector.IMAPState
	// Dedup: CreateMessage answers with an existing remote message that has the same bytes and is in some mailbox
	Dedup bool
	// LabelMove: MoveMessages has label semantics: the message is added to the destination, stays in the source, and the
	// connector answers false ("do not remove the old messages")
	LabelMove bool
}

func New(users []string, pass string) *Conn {
	c := &Conn{
		users:      users,
		pass:       []byte(pass),
		Mailboxes:  map[imap.MailboxID][]string{},
		Messages:   map[imap.MessageID]*Msg{},
		FailNext:   map[string][]error{},
		FailAlways: map[string]error{},
		updateCh:   make(chan imap.Update, 64),
		Flags:      imap.NewFlagSet(imap.FlagSeen, imap.FlagFlagged, imap.FlagDeleted),
		PermFlags:  imap.NewFlagSet(imap.FlagSeen, imap.FlagFlagged, imap.FlagDeleted),
		Attrs:      imap.NewFlagSet(),
		Visibility: map[imap.MailboxID]imap.MailboxVisibility{},
	}
	c.Mailboxes["0"] = []string{imap.Inbox}
	return c
}

func (c *Conn) log(op string, err error, args ...string) {
	e := ""
	if err != nil {
		e = err.Error()
	}
	c.Calls = append(c.Calls, Call{Op: op, Args: args, Err: e})
}

// must be called with mu held
func (c *Conn) fail(op string) error {
	if e, ok := c.FailAlways[op]; ok && e != nil {
		return e
	}
	if q := c.FailNext[op]; len(q) > 0 {
		e := q[0]
		c.FailNext[op] = q[1:]
		return e
	}
	return nil
}

func (c *Conn) SetFailNext(op string, errs ...error) {
	c.mu.Lock()
	defer c.mu.Unlock()
	c.FailNext[op] = append([]error{}, errs...)
}

func (c *Conn) SetFailAlways(op string, err error) {
	c.mu.Lock()
	defer c.mu.Unlock()
	if err == nil {
		delete(c.FailAlways, op)
	} else {
		c.FailAlways[op] = err
	}
}

func (c *Conn) TakeCalls() []Call {
	c.mu.Lock()
	defer c.mu.Unlock()
	r := c.Calls
	c.Calls = nil
	return r
}

func (c *Conn) MailboxObj(id imap.MailboxID) imap.Mailbox {
	c.mu.Lock()
	defer c.mu.Unlock()
	return c.mboxObj(id)
}

func (c *Conn) mboxObj(id imap.MailboxID) imap.Mailbox {
	return imap.Mailbox{ID: id, Name: append([]string{}, c.Mailboxes[id]...), Flags: c.Flags, PermanentFlags: c.PermFlags, Attributes: c.Attrs}
}

func (c *Conn) MailboxIDByName(name []string) (imap.MailboxID, bool) {
	c.mu.Lock()
	defer c.mu.Unlock()
	for id, n := range c.Mailboxes {
		if strings.Join(n, "\x00") == strings.Join(name, "\x00") {
			return id, true
		}
	}
	return "", false
}

func (c *Conn) Init(ctx context.Context, cache connector.IMAPState) error {
	c.mu.Lock()
	c.cache = cache
	c.mu.Unlock()
	return nil
}

// StateWrite runs fn inside a write transaction of the connector's IMAP state (connector.IMAPState.Write), the way a
// connector synchronises its mailbox list. Fails if the connector was not initialised by gluon yet.
func (c *Conn) StateWrite(ctx context.Context, fn func(context.Context, connector.IMAPStateWrite) error) error {
	c.mu.Lock()
	cache := c.cache
	c.mu.Unlock()
	if cache == nil {
		return errors.New("hconn: no IMAP state (Init not called)")
	}
	return cache.Write(ctx, fn)
}

func (c *Conn) Authorize(ctx context.Context, username string, password []byte) bool {
	if string(password) != string(c.pass) {
		return false
	}
	for _, u := range c.users {
		if u == username {
			return true
		}
	}
	return false
}

func (c *Conn) NewMailboxID() imap.MailboxID {
	c.nextMbox++
	return imap.MailboxID(fmt.Sprintf("%smb-%d", c.IDPrefix, c.nextMbox))
}

func (c *Conn) NewMessageID() imap.MessageID {
	c.nextMsg++
	return imap.MessageID(fmt.Sprintf("%smsg-%d", c.IDPrefix, c.nextMsg))
}

func (c *Conn) CreateMailbox(ctx context.Context, cache connector.IMAPStateWrite, name []string) (imap.Mailbox, error) {
	c.mu.Lock()
	defer c.mu.Unlock()
	if err := c.fail("CreateMailbox"); err != nil {
		c.log("CreateMailbox", err, strings.Join(name, "/"))
		return imap.Mailbox{}, err
	}
	id := c.NewMailboxID()
	c.Mailboxes[id] = append([]string{}, name...)
	c.log("CreateMailbox", nil, strings.Join(name, "/"), string(id))
	return c.mboxObj(id), nil
}

func (c *Conn) GetMessageLiteral(ctx context.Context, id imap.MessageID) ([]byte, error) {
	c.mu.Lock()
	defer c.mu.Unlock()
	if err := c.fail("GetMessageLiteral"); err != nil {
		c.log("GetMessageLiteral", err, string(id))
		return nil, err
	}
	m, ok := c.Messages[id]
	if !ok {
		c.log("GetMessageLiteral", errors.New("no such message"), string(id))
		return nil, errors.New("no such message")
	}
	c.log("GetMessageLiteral", nil, string(id))
	return m.Literal, nil
}

func (c *Conn) GetMailboxVisibility(ctx context.Context, mboxID imap.MailboxID) imap.MailboxVisibility {
	c.mu.Lock()
	defer c.mu.Unlock()
	if v, ok := c.Visibility[mboxID]; ok {
		return v
	}
	return imap.Visible
}

func (c *Conn) UpdateMailboxName(ctx context.Context, cache connector.IMAPStateWrite, mboxID imap.MailboxID, newName []string) error {
	c.mu.Lock()
	defer c.mu.Unlock()
	if err := c.fail("UpdateMailboxName"); err != nil {
		c.log("UpdateMailboxName", err, string(mboxID), strings.Join(newName, "/"))
		return err
	}
	if _, ok := c.Mailboxes[mboxID]; !ok {
		err := errors.New("no such mailbox")
		c.log("UpdateMailboxName", err, string(mboxID))
		return err
	}
	c.Mailboxes[mboxID] = append([]string{}, newName...)
	c.log("UpdateMailboxName", nil, string(mboxID), strings.Join(newName, "/"))
	return nil
}

func (c *Conn) DeleteMailbox(ctx context.Context, cache connector.IMAPStateWrite, mboxID imap.MailboxID) error {
	c.mu.Lock()
	defer c.mu.Unlock()
	if err := c.fail("DeleteMailbox"); err != nil {
		c.log("DeleteMailbox", err, string(mboxID))
		return err
	}
	delete(c.Mailboxes, mboxID)
	for _, m := range c.Messages {
		delete(m.Mboxes, mboxID)
	}
	c.log("DeleteMailbox", nil, string(mboxID))
	return nil
}

func (c *Conn) CreateMessage(ctx context.Context, cache connector.IMAPStateWrite, mboxID imap.MailboxID, literal []byte, flags imap.FlagSet, date time.Time) (imap.Message, []byte, error) {
	c.mu.Lock()
	defer c.mu.Unlock()
	if err := c.fail("CreateMessage"); err != nil {
		c.log("CreateMessage", err, string(mboxID))
		return imap.Message{}, nil, err
	}
	if c.Dedup {
		// a remote that de-duplicates: it answers with the message it already has (the same bytes, in some mailbox)
		var found []string
		for mid, m := range c.Messages {
			if len(m.Mboxes) > 0 && string(m.Literal) == string(literal) {
				found = append(found, string(mid))
			}
		}
		if len(found) > 0 {
			sort.Strings(found)
			mid := imap.MessageID(found[0])
			c.Messages[mid].Mboxes[mboxID] = true
			c.log("CreateMessage", nil, string(mboxID), string(mid), "dedup")
			return imap.Message{ID: mid, Flags: c.Messages[mid].Flags, Date: c.Messages[mid].Date}, literal, nil
		}
	}
	id := c.NewMessageID()
	c.Messages[id] = &Msg{Literal: append([]byte{}, literal...), Flags: flags, Date: date, Mboxes: map[imap.MailboxID]bool{mboxID: true}}
	c.log("CreateMessage", nil, string(mboxID), string(id))
	return imap.Message{ID: id, Flags: flags, Date: date}, literal, nil
}

func ids(xs []imap.MessageID) string {
	s := make([]string, len(xs))
	for i, x := range xs {
		s[i] = string(x)
	}
	return strings.Join(s, ",")
}

func (c *Conn) AddMessagesToMailbox(ctx context.Context, cache connector.IMAPStateWrite, messageIDs []imap.MessageID, mboxID imap.MailboxID) error {
	c.mu.Lock()
	defer c.mu.Unlock()
	if err := c.fail("AddMessagesToMailbox"); err != nil {
		c.log("AddMessagesToMailbox", err, ids(messageIDs), string(mboxID))
		return err
	}
	for _, id := range messageIDs {
		if m, ok := c.Messages[id]; ok {
			m.Mboxes[mboxID] = true
		}
	}
	c.log("AddMessagesToMailbox", nil, ids(messageIDs), string(mboxID))
	return nil
}

func (c *Conn) RemoveMessagesFromMailbox(ctx context.Context, cache connector.IMAPStateWrite, messageIDs []imap.MessageID, mboxID imap.MailboxID) error {
	c.mu.Lock()
	defer c.mu.Unlock()
	if err := c.fail("RemoveMessagesFromMailbox"); err != nil {
		c.log("RemoveMessagesFromMailbox", err, ids(messageIDs), string(mboxID))
		return err
	}
	for _, id := range messageIDs {
		if m, ok := c.Messages[id]; ok {
			delete(m.Mboxes, mboxID)
		}
	}
	c.log("RemoveMessagesFromMailbox", nil, ids(messageIDs), string(mboxID))
	return nil
}

func (c *Conn) MoveMessages(ctx context.Context, cache connector.IMAPStateWrite, messageIDs []imap.MessageID, mboxFromID, mboxToID imap.MailboxID) (bool, error) {
	c.mu.Lock()
	defer c.mu.Unlock()
	if err := c.fail("MoveMessages"); err != nil {
		c.log("MoveMessages", err, ids(messageIDs), string(mboxFromID), string(mboxToID))
		return false, err
	}
	for _, id := range messageIDs {
		if m, ok := c.Messages[id]; ok {
			if !c.LabelMove {
				delete(m.Mboxes, mboxFromID)
			}
			m.Mboxes[mboxToID] = true
		}
	}
	c.log("MoveMessages", nil, ids(messageIDs), string(mboxFromID), string(mboxToID))
	return !c.LabelMove, nil
}

func (c *Conn) mark(op string, messageIDs []imap.MessageID, v bool) error {
	c.mu.Lock()
	defer c.mu.Unlock()
	if err := c.fail(op); err != nil {
		c.log(op, err, ids(messageIDs), fmt.Sprint(v))
		return err
	}
	c.log(op, nil, ids(messageIDs), fmt.Sprint(v))
	return nil
}

func (c *Conn) MarkMessagesSeen(ctx context.Context, cache connector.IMAPStateWrite, messageIDs []imap.MessageID, seen bool) error {
	return c.mark("MarkMessagesSeen", messageIDs, seen)
}

func (c *Conn) MarkMessagesFlagged(ctx context.Context, cache connector.IMAPStateWrite, messageIDs []imap.MessageID, flagged bool) error {
	return c.mark("MarkMessagesFlagged", messageIDs, flagged)
}

func (c *Conn) MarkMessagesForwarded(ctx context.Context, cache connector.IMAPStateWrite, messageIDs []imap.MessageID, forwarded bool) error {
	return c.mark("MarkMessagesForwarded", messageIDs, forwarded)
}

func (c *Conn) GetUpdates() <-chan imap.Update { return c.updateCh }

func (c *Conn) Close(ctx context.Context) error {
	c.mu.Lock()
	defer c.mu.Unlock()
	if !c.closed {
		c.closed = true
		close(c.updateCh)
	}
	return nil
}

// Push submits an update and waits for its acknowledgement (or the timeout).
// Returns (err, acked, closedAfterOneValue).
func (c *Conn) Push(u imap.Update, timeout time.Duration) (error, bool) {
	c.updateCh <- u
	ctx, cancel := context.WithTimeout(context.Background(), timeout)
	defer cancel()
	done := make(chan struct{})
	var err error
	var ok bool
	go func() {
		err, ok = u.Wait()
		close(done)
	}()
	select {
	case <-done:
		// ok==false means channel closed with no error value (success); ok==true: error value.
		_ = ok
		return err, true
	case <-ctx.Done():
		return nil, false
	}
}

// PushAsync submits without waiting.
func (c *Conn) PushAsync(u imap.Update) { c.updateCh <- u }

// Sync announces all remote mailboxes (sorted by name depth then id, for determinism).
func (c *Conn) Sync(timeout time.Duration) error {
	c.mu.Lock()
	var idl []string
	for id := range c.Mailboxes {
		idl = append(idl, string(id))
	}
	sort.Strings(idl)
	var ups []imap.Update
	for _, id := range idl {
		ups = append(ups, imap.NewMailboxCreated(c.mboxObj(imap.MailboxID(id))))
	}
	c.mu.Unlock()
	for _, u := range ups {
		err, acked := c.Push(u, timeout)
		if !acked {
			return errors.New("hconn: sync timeout")
		}
		if err != nil {
			return err
		}
	}
	return nil
}

// PutMailbox records (or renames) a remote mailbox without telling gluon (used together with Push of a
// MailboxCreated/MailboxUpdated update, so that later calls of gluon for that ID find it).
func (c *Conn) PutMailbox(id imap.MailboxID, name []string) {
	c.mu.Lock()
	defer c.mu.Unlock()
	c.Mailboxes[id] = append([]string{}, name...)
}

// DropMailbox forgets a remote mailbox without telling gluon.
func (c *Conn) DropMailbox(id imap.MailboxID) {
	c.mu.Lock()
	defer c.mu.Unlock()
	delete(c.Mailboxes, id)
}

// Reopen makes a closed connector usable again for a server restarted on the same directories (the remote
// state is kept, a fresh update channel is created).
func (c *Conn) Reopen() {
	c.mu.Lock()
	defer c.mu.Unlock()
	if c.closed {
		c.closed = false
		c.updateCh = make(chan imap.Update, 64)
	}
}

// PutMessage records a remote message (without telling gluon) and returns its new ID.
func (c *Conn) PutMessage(literal []byte, mboxes []imap.MailboxID) imap.MessageID {
	c.mu.Lock()
	defer c.mu.Unlock()
	id := c.NewMessageID()
	m := &Msg{Literal: append([]byte{}, literal...), Flags: imap.NewFlagSet(), Mboxes: map[imap.MailboxID]bool{}}
	for _, b := range mboxes {
		m.Mboxes[b] = true
	}
	c.Messages[id] = m
	return id
}

// ClearFailNext drops every scheduled one-shot failure.
func (c *Conn) ClearFailNext() {
	c.mu.Lock()
	defer c.mu.Unlock()
	c.FailNext = map[string][]error{}
}

// RenameInferiors renames (without telling gluon) every remote mailbox below oldName to the same place below newName.
func (c *Conn) RenameInferiors(oldName, newName []string) {
	c.mu.Lock()
	defer c.mu.Unlock()
	for id, n := range c.Mailboxes {
		if len(n) <= len(oldName) {
			continue
		}
		match := true
		for i := range oldName {
			if n[i] != oldName[i] {
				match = false
			}
		}
		if match {
			c.Mailboxes[id] = append(append([]string{}, newName...), n[len(oldName):]...)
		}
	}
}

// Announce pushes a MailboxCreated update for every remote mailbox (the echo a real connector produces for what it
// created) and waits for the acknowledgements; refusals are ignored. Returns the number of refused announcements.
func (c *Conn) Announce(timeout time.Duration) int {
	c.mu.Lock()
	var idl []string
	for id := range c.Mailboxes {
		idl = append(idl, string(id))
	}
	sort.Strings(idl)
	var ups []imap.Update
	for _, id := range idl {
		ups = append(ups, imap.NewMailboxCreated(c.mboxObj(imap.MailboxID(id))))
	}
	c.mu.Unlock()
	refused := 0
	for _, u := range ups {
		if err, acked := c.Push(u, timeout); !acked || err != nil {
			refused++
		}
	}
	return refused
}

// MessageIDsIn returns the ids of the remote messages that are in the given mailbox, sorted (added for C19).
func (c *Conn) MessageIDsIn(mbox imap.MailboxID) []imap.MessageID {
	c.mu.Lock()
	defer c.mu.Unlock()
	var out []imap.MessageID
	for id, m := range c.Messages {
		if m.Mboxes[mbox] {
			out = append(out, id)
		}
	}
	sort.Slice(out, func(i, j int) bool { return out[i] < out[j] })
	return out
}

// MessagesWhere returns the sorted ids of the remote messages that are in mailbox mbox and whose literal satisfies pred
// (added for the connector MessageUpdated histories of C04).
func (c *Conn) MessagesWhere(mbox imap.MailboxID, pred func(literal []byte) bool) []imap.MessageID {
	c.mu.Lock()
	defer c.mu.Unlock()
	var out []imap.MessageID
	for id, m := range c.Messages {
		if m.Mboxes[mbox] && pred(m.Literal) {
			out = append(out, id)
		}
	}
	sort.Slice(out, func(i, j int) bool { return out[i] < out[j] })
	return out
}

// MessageInfo returns a copy of the literal, the flags and the date of a remote message.
func (c *Conn) MessageInfo(id imap.MessageID) ([]byte, imap.FlagSet, time.Time, bool) {
	c.mu.Lock()
	defer c.mu.Unlock()
	m, ok := c.Messages[id]
	if !ok {
		return nil, imap.NewFlagSet(), time.Time{}, false
	}
	return append([]byte{}, m.Literal...), m.Flags, m.Date, true
}

// SetMessage changes the record of a remote message without telling gluon: new literal (nil = keep), flags, mailboxes.
func (c *Conn) SetMessage(id imap.MessageID, literal []byte, flags imap.FlagSet, mboxes []imap.MailboxID) {
	c.mu.Lock()
	defer c.mu.Unlock()
	m, ok := c.Messages[id]
	if !ok {
		return
	}
	if literal != nil {
		m.Literal = append([]byte{}, literal...)
	}
	m.Flags = flags
	m.Mboxes = map[imap.MailboxID]bool{}
	for _, b := range mboxes {
		m.Mboxes[b] = true
	}
}
