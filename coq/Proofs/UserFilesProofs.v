(* Lemmas for Model/UserFiles.v: exact file names make the files of two users disjoint; a path escaped with a function that
   escapes '%', '?' and '#' is the file SQLite opens. *)
From Coq Require Import List NArith Bool Lia.
From Gluon Require Import Model.UserFiles.
Import ListNotations.
Open Scope N_scope.

Lemma fname_eqb_eq : forall a b, fname_eqb a b = true <-> a = b.
Proof.
  induction a as [|x a IH]; intros [|y b]; cbn [fname_eqb]; split; intros H; try congruence; try discriminate.
  - apply andb_true_iff in H. destruct H as [H1 H2]. apply N.eqb_eq in H1. apply IH in H2. congruence.
  - inversion H; subst. rewrite N.eqb_refl. cbn [andb]. apply IH. reflexivity.
Qed.

(* two lists that begin the same list: one begins the other *)
Lemma common_prefix : forall a b x y, a ++ x = b ++ y -> prefixb a b = true \/ prefixb b a = true.
Proof.
  induction a as [|c a IH]; intros b x y H; [left; reflexivity|].
  destruct b as [|d b]; [right; reflexivity|].
  cbn [app] in H. inversion H; subst. cbn [prefixb]. rewrite N.eqb_refl. cbn [andb]. eapply IH; eauto.
Qed.

Lemma common_suffix : forall (u v s1 s2 : fname), u ++ s1 = v ++ s2 -> is_suffix s1 s2 = true \/ is_suffix s2 s1 = true.
Proof.
  intros u v s1 s2 H. apply (f_equal (@rev N)) in H. rewrite !rev_app_distr in H.
  unfold is_suffix. eapply common_prefix; eauto.
Qed.

Lemma suffix_free_spec : forall l a b, suffix_free l = true -> In a l -> In b l -> is_suffix a b = true -> a = b.
Proof.
  intros l a b H Ha Hb Hs. unfold suffix_free in H. rewrite forallb_forall in H.
  specialize (H a Ha). rewrite forallb_forall in H. specialize (H b Hb).
  apply orb_true_iff in H. destruct H as [H|H]; [apply fname_eqb_eq; exact H|].
  rewrite Hs in H. discriminate.
Qed.

(* exact names: a file removed for u is a file of u and of nobody else *)
Lemma removed_files_disjoint : forall sfx u v f, suffix_free sfx = true ->
  In f (removed_files sfx u) -> In f (removed_files sfx v) -> u = v.
Proof.
  intros sfx u v f Hsf Hu Hv. unfold removed_files in *.
  apply in_map_iff in Hu. destruct Hu as (s1 & E1 & I1). apply in_map_iff in Hv. destruct Hv as (s2 & E2 & I2).
  assert (H : u ++ s1 = v ++ s2) by congruence.
  assert (s1 = s2).
  { destruct (common_suffix _ _ _ _ H) as [Hs|Hs].
    - eapply suffix_free_spec; eauto.
    - symmetry. eapply suffix_free_spec; eauto. }
  subst s2. eapply app_inv_tail; eauto.
Qed.

(* removing u leaves the database of every other user in place *)
Lemma remove_keeps_other_db : forall sfx dbs u v, suffix_free sfx = true -> In dbs sfx -> u <> v ->
  ~ In (db_file dbs v) (removed_files sfx u).
Proof.
  intros sfx dbs u v Hsf Hin Hne Hc. apply Hne.
  eapply (removed_files_disjoint sfx u v (db_file dbs v)); eauto.
  unfold removed_files, db_file. apply in_map_iff. exists dbs. split; [reflexivity|exact Hin].
Qed.

(* ---- percent escaping ---- *)
Lemma unhex_hexd : forall d, d < 16 -> unhex (hexd d) = d.
Proof.
  intros d H. unfold hexd, unhex. destruct (N.ltb_spec d 10).
  - destruct (N.ltb_spec (48 + d) 58); lia.
  - destruct (N.ltb_spec (55 + d) 58); lia.
Qed.

Lemma hexd_plain : forall d, d < 16 -> (hexd d =? 63) = false /\ (hexd d =? 35) = false.
Proof.
  intros d H. unfold hexd. destruct (N.ltb_spec d 10); split; apply N.eqb_neq; lia.
Qed.

Section UriProofs.
  Variable keep : N -> bool.
  Hypothesis keep_percent : keep 37 = false.
  Hypothesis keep_question : keep 63 = false.
  Hypothesis keep_hash : keep 35 = false.

  Lemma esc1_uri_file : forall b rest, b < 256 -> uri_file (esc1 keep b ++ rest) = esc1 keep b ++ uri_file rest.
  Proof.
    intros b rest Hb. unfold esc1. destruct (keep b) eqn:K.
    - cbn [app uri_file].
      destruct (N.eqb_spec b 63) as [->|N1]; [congruence|]. destruct (N.eqb_spec b 35) as [->|N2]; [congruence|]. reflexivity.
    - assert (H1 : b / 16 < 16) by (apply N.div_lt_upper_bound; lia).
      assert (H2 : b mod 16 < 16) by (apply N.mod_lt; lia).
      destruct (hexd_plain _ H1) as [A1 A2]. destruct (hexd_plain _ H2) as [B1 B2].
      cbn [app uri_file]. rewrite A1, A2, B1, B2. reflexivity.
  Qed.

  Lemma esc1_unescape : forall b rest, b < 256 -> pct_unescape (esc1 keep b ++ rest) = b :: pct_unescape rest.
  Proof.
    intros b rest Hb. unfold esc1. destruct (keep b) eqn:K.
    - cbn [app pct_unescape]. destruct (N.eqb_spec b 37) as [->|N1]; [congruence|]. reflexivity.
    - assert (H1 : b / 16 < 16) by (apply N.div_lt_upper_bound; lia).
      assert (H2 : b mod 16 < 16) by (apply N.mod_lt; lia).
      cbn [app pct_unescape N.eqb Pos.eqb]. rewrite (unhex_hexd _ H1), (unhex_hexd _ H2). f_equal.
      pose proof (N.div_mod b 16). lia.
  Qed.

  Lemma opened_file_is_path : forall path query, Forall (fun b => b < 256) path ->
    opened_file keep path query = path.
  Proof.
    intros path query H. unfold opened_file. induction H as [|b p Hb Hp IH].
    - cbn. reflexivity.
    - unfold pct_escape. cbn [flat_map]. rewrite <- app_assoc. rewrite esc1_uri_file by exact Hb.
      rewrite esc1_unescape by exact Hb. f_equal. exact IH.
  Qed.
End UriProofs.

Lemma go_path_escape_ok :
  go_path_escape_keep 37 = false /\ go_path_escape_keep 63 = false /\ go_path_escape_keep 35 = false.
Proof. vm_compute. repeat split. Qed.

(* an escaping that only takes care of '#': two paths, one file *)
Definition hash_only_keep (b : N) : bool := negb (b =? 35).
Lemma hash_only_collides :
  exists p1 p2 q, p1 <> p2 /\ opened_file hash_only_keep p1 q = opened_file hash_only_keep p2 q.
Proof.
  (* "a?1.db" and "a?2.db" *)
  exists [97; 63; 49; 46; 100; 98], [97; 63; 50; 46; 100; 98], [99]. split; [discriminate|]. vm_compute. reflexivity.
Qed.

(* ---------- with what the translator found in db/deferred_delete.go and internal/db_impl/sqlite3/client.go ---------- *)
From Coq Require Import String.
From Gluon Require Import Gen.FactsCmdClass.

Definition remove_user_exact_names : bool :=
  negb delete_db_uses_pattern && suffix_free delete_db_suffixes && existsb (fname_eqb db_file_suffix) delete_db_suffixes
  && db_delete_goes_through_DeleteDB.

Lemma remove_user_exact_names_ok : remove_user_exact_names = true.
Proof. vm_compute. reflexivity. Qed.

Lemma code_removed_files_disjoint : forall u v f,
  In f (removed_files delete_db_suffixes u) -> In f (removed_files delete_db_suffixes v) -> u = v.
Proof. intros u v f. apply removed_files_disjoint. vm_compute. reflexivity. Qed.

Lemma code_remove_keeps_other_db : forall u v, u <> v ->
  ~ In (db_file db_file_suffix v) (removed_files delete_db_suffixes u)
  /\ In (db_file db_file_suffix u) (removed_files delete_db_suffixes u).
Proof.
  assert (Hin : In db_file_suffix delete_db_suffixes).
  { assert (H : existsb (fname_eqb db_file_suffix) delete_db_suffixes = true) by (vm_compute; reflexivity).
    apply existsb_exists in H. destruct H as (x & Hx & E). apply fname_eqb_eq in E. subst x. exact Hx. }
  intros u v Hne. split.
  - apply remove_keeps_other_db; auto.
  - unfold removed_files, db_file. apply in_map_iff. exists db_file_suffix. split; [reflexivity|exact Hin].
Qed.

Lemma code_db_uri_escape : db_uri_escape = "url.PathEscape"%string.
Proof. reflexivity. Qed.

(* different users, different database files; and the file SQLite opens is that file *)
Lemma code_db_file_of_user : forall u v query, Forall (fun b => b < 256) u -> Forall (fun b => b < 256) v ->
  opened_file go_path_escape_keep (db_file db_file_suffix u) query
  = opened_file go_path_escape_keep (db_file db_file_suffix v) query -> u = v.
Proof.
  intros u v query Hu Hv H. destruct go_path_escape_ok as (K1 & K2 & K3).
  assert (Hs : Forall (fun b => b < 256) db_file_suffix) by (repeat constructor).
  rewrite !(opened_file_is_path go_path_escape_keep K1 K2 K3) in H
    by (unfold db_file; apply Forall_app; split; assumption).
  unfold db_file in H. eapply app_inv_tail; eauto.
Qed.
